(* Proofs/C05Header.v — header round trip (versions 2-5, v5 entry formats), the program extent,
   string resolution, the legacy-compatible tables, and line_program_for_CU with its cache. *)
From PV Require Import Base.Outcome Base.Prim Spec.PrimSpec Proofs.PrimProofs
  Spec.C05Line Spec.C05Header Model.C05Kinds Model.C05LineProgram Model.C05Header
  Gen.C05Tables Proofs.C05Leb Proofs.C05Tables Proofs.C05Machine.
From Coq Require Import ZifyBool.
Ltac Zify.zify_post_hook ::= Z.to_euclidean_division_equations.
Open Scope list_scope.
Open Scope Z_scope.

(* ---------------------------------------------------------------- fixed-width readers *)
Lemma rd_uint_byte le b l : 0 <= b < 256 -> rd_uint le 1 (b :: l) = Ok (b, l).
Proof.
  intros H. unfold rd_uint, uint_decode. change (take 1 (b :: l)) with (Some ([b], l)).
  cbn [of_opt]. do 2 f_equal. destruct le; cbn [int_decode be_decode rev app le_decode]; lia.
Qed.

Lemma rd_sint_byte le v l : -128 <= v < 128 -> rd_sint le 1 (wrap 1 v :: l) = Ok (v, l).
Proof.
  intros H. unfold rd_sint, sint_decode_n. change (take 1 (wrap 1 v :: l)) with (Some ([wrap 1 v], l)).
  cbn [of_opt]. do 2 f_equal. unfold sint_decode. cbn [length].
  replace (int_decode le [wrap 1 v]) with (wrap 1 v).
  - apply sext_wrap; [lia|]. change (2 ^ (8 * Z.of_nat 1)) with 256. lia.
  - destruct le; cbn [int_decode be_decode rev app le_decode]; lia.
Qed.

Lemma rd_uint_valid le n v t : 0 <= v < 2 ^ (8 * Z.of_nat n) ->
  rd_uint le n (int_encode le n v ++ t) = Ok (v, t).
Proof. intros H. unfold rd_uint. rewrite uint_decode_valid by exact H. reflexivity. Qed.

Lemma take_exact (a t : list Z) n : length a = n -> take n (a ++ t) = Some (a, t).
Proof. intros <-. apply take_app. Qed.

(* ---------------------------------------------------------------- arrays over enc_list *)
Lemma rd_array_enc {A B} (R : A -> list Z -> Prop) (P : A -> Prop)
      (d : list Z -> res (B * list Z)) (f : A -> B) :
  (forall x e t, P x -> R x e -> d (e ++ t) = Ok (f x, t)) ->
  forall xs es t, Forall P xs -> enc_list R xs es ->
  rd_array (length xs) d (es ++ t) = Ok (map f xs, t).
Proof.
  intros Hd xs es t HP He. revert t. induction He as [|x e xs es Hx Hxs IH]; intros t.
  - reflexivity.
  - inversion HP as [|? ? Px Pxs]; subst. cbn [length rd_array map].
    rewrite <- app_assoc, (Hd x e _ Px Hx). cbn [bind]. rewrite (IH Pxs). reflexivity.
Qed.

Lemma forallb_Forall {A} (f : A -> bool) l : forallb f l = true -> Forall (fun x => f x = true) l.
Proof.
  induction l as [|x l IH]; intros H; constructor; cbn [forallb] in H; apply andb_prop in H; tauto.
Qed.

(* ---------------------------------------------------------------- version 5: one value *)
(* the value as parsed, before resolve_strings: string offsets are still numbers *)
Definition raw_meaning (v : fval) : dval :=
  match v with
  | FV_line_strp off _ | FV_strp off _ | FV_strp_sup off _ | FV_GNU_strp_alt off _ => DInt off
  | _ => meaning v
  end.

Lemma rd_kind_valid s is64 v e t :
  ms_is64 s = is64 -> enc_fval (ms_le s) is64 v e ->
  rd_kind s (spec_form_kind (form_of v)) (e ++ t) = Ok (raw_meaning v, t).
Proof.
  intros Hs He. destruct v as [str|off str|off str|n|n|n|n|n|bs|bs|off str|off str];
    cbn [form_of spec_form_kind rd_kind raw_meaning meaning enc_fval] in *.
  - destruct He as [Hn ->]. rewrite cstring_decode_valid by exact Hn. reflexivity.
  - destruct He as [Ho ->]. unfold offset_size. rewrite Hs. fold (offsz is64).
    rewrite rd_uint_valid by exact Ho. reflexivity.
  - destruct He as [Ho ->]. unfold offset_size. rewrite Hs. fold (offsz is64).
    rewrite rd_uint_valid by exact Ho. reflexivity.
  - rewrite (rd_uleb_valid _ _ t He). reflexivity.
  - destruct He as [Hn ->]. rewrite rd_uint_valid by exact Hn. reflexivity.
  - destruct He as [Hn ->]. rewrite rd_uint_valid by exact Hn. reflexivity.
  - destruct He as [Hn ->]. rewrite rd_uint_valid by exact Hn. reflexivity.
  - destruct He as [Hn ->]. rewrite rd_uint_valid by exact Hn. reflexivity.
  - destruct He as [Hn ->]. rewrite (take_exact bs t 16 Hn). reflexivity.
  - destruct He as (l & Hl & ->). cbn [rd_len]. rewrite <- app_assoc.
    rewrite (block_decode_valid uleb_decode l bs t); [reflexivity|].
    intros t'. apply uleb_decode_valid. exact Hl.
  - destruct He as [Ho ->]. unfold offset_size. rewrite Hs. fold (offsz is64).
    rewrite rd_uint_valid by exact Ho. reflexivity.
  - destruct He as [Ho ->]. unfold offset_size. rewrite Hs. fold (offsz is64).
    rewrite rd_uint_valid by exact Ho. reflexivity.
Qed.

(* ---------------------------------------------------------------- association lists *)
Lemma alist_find_app k a b :
  alist_find k (a ++ b) = match alist_find k a with Some v => Some v | None => alist_find k b end.
Proof.
  induction a as [|[k' v'] a IH]; [reflexivity|]. cbn [app alist_find].
  destruct (k' =? k); [reflexivity|exact IH].
Qed.
Lemma alist_set_fresh k v a : alist_find k a = None -> alist_set k v a = a ++ [(k, v)].
Proof.
  induction a as [|[k' v'] a IH]; intros H; [reflexivity|]. cbn [alist_find alist_set app] in *.
  destruct (k' =? k); [discriminate|]. rewrite IH by exact H. reflexivity.
Qed.
Lemma alist_set_here k v v0 a b : alist_find k a = None ->
  alist_set k v (a ++ (k, v0) :: b) = a ++ (k, v) :: b.
Proof.
  induction a as [|[k' v'] a IH]; intros H; cbn [alist_find alist_set app] in *.
  - rewrite Z.eqb_refl. reflexivity.
  - destruct (k' =? k); [discriminate|]. rewrite IH by exact H. reflexivity.
Qed.
Lemma alist_find_here k v a b : alist_find k a = None -> alist_find k (a ++ (k, v) :: b) = Some v.
Proof. intros H. rewrite alist_find_app, H. cbn [alist_find]. rewrite Z.eqb_refl. reflexivity. Qed.
Lemma alist_find_get k l : alist_get k l = match alist_find k l with Some v => v | None => DNone end.
Proof.
  induction l as [|[k' v'] l IH]; [reflexivity|]. cbn [alist_get alist_find].
  destruct (k' =? k); [reflexivity|exact IH].
Qed.

(* ---------------------------------------------------------------- version 5: one entry *)
Definition raw_entry (fmt : list (Z * lform)) (entry : list fval) : list (Z * dval) :=
  combine (map fst fmt) (map raw_meaning entry).

Lemma lform_code_inj a b : lform_code a = lform_code b -> a = b.
Proof. destruct a, b; cbn; intros H; try reflexivity; discriminate. Qed.

Lemma nodupb_cons x l : nodupb (x :: l) = true -> ~ In x l /\ nodupb l = true.
Proof.
  cbn [nodupb]. intros H. apply andb_prop in H. destruct H as [H1 H2]. split; [|exact H2].
  intros Hin. apply negb_true_iff in H1.
  assert (existsb (Z.eqb x) l = true) by (apply existsb_exists; exists x; split; [exact Hin|apply Z.eqb_refl]).
  congruence.
Qed.

Lemma rd_entry_valid s :
  forall fmt entry e, forms_match fmt entry = true -> nodupb (map fst fmt) = true ->
  enc_list (enc_fval (ms_le s) (ms_is64 s)) entry e ->
  forall acc t, (forall k, In k (map fst fmt) -> alist_find k acc = None) ->
  rd_entry s (format_view fmt) acc (e ++ t) = Ok (acc ++ raw_entry fmt entry, t).
Proof.
  intros fmt. induction fmt as [|[ct lf] fmt IH]; intros entry e Hm Hnd He acc t Hfresh.
  - destruct entry; [|discriminate]. inversion He; subst. cbn. rewrite app_nil_r. reflexivity.
  - destruct entry as [|v entry]; [discriminate|]. cbn [forms_match snd] in Hm.
    apply andb_prop in Hm. destruct Hm as [Hf Hm].
    unfold lform_eqb in Hf. apply Z.eqb_eq in Hf. apply lform_code_inj in Hf. subst lf.
    inversion He as [|? ev ? er Hv Hr]; subst.
    cbn [map fst] in Hnd. apply nodupb_cons in Hnd. destruct Hnd as [Hnin Hnd].
    cbn [format_view map fst snd rd_entry]. rewrite gen_forms_standard.
    rewrite <- app_assoc, (rd_kind_valid s (ms_is64 s) v ev _ eq_refl Hv). cbn [bind].
    rewrite alist_set_fresh by (apply Hfresh; left; reflexivity).
    fold (format_view fmt). rewrite (IH entry er Hm Hnd Hr).
    + unfold raw_entry. cbn [map fst combine]. rewrite <- app_assoc. reflexivity.
    + intros k Hk. rewrite alist_find_app, (Hfresh k (or_intror Hk)). cbn [alist_find].
      destruct (Z.eqb_spec ct k); [subst; contradiction|reflexivity].
Qed.

Lemma check_format_ok fmt : check_format (format_view fmt) = Ok tt.
Proof.
  induction fmt as [|[ct lf] fmt IH]; [reflexivity|].
  cbn [format_view map fst snd check_format]. rewrite gen_forms_standard.
  fold (format_view fmt). destruct lf; exact IH.
Qed.

Lemma rd_formatted_entry_valid s fmt entry e t :
  forms_match fmt entry = true -> nodupb (map fst fmt) = true ->
  enc_list (enc_fval (ms_le s) (ms_is64 s)) entry e ->
  rd_formatted_entry s (format_view fmt) (e ++ t) = Ok (raw_entry fmt entry, t).
Proof.
  intros Hm Hnd He. unfold rd_formatted_entry. rewrite check_format_ok. cbn [bind].
  rewrite (rd_entry_valid s fmt entry e Hm Hnd He [] t); [reflexivity|reflexivity].
Qed.

(* ---------------------------------------------------------------- version 5: formats *)
Lemma lnct_named ct : existsb (Z.eqb ct) lnct_codes = true -> enum_name tbl_c05_lnct ct None <> None.
Proof.
  intros H. apply existsb_exists in H. destruct H as (x & Hin & Hx). apply Z.eqb_eq in Hx. subst x.
  cbn [lnct_codes In] in Hin.
  repeat (destruct Hin as [<-|Hin]; [cbn; discriminate|]). contradiction.
Qed.

Lemma rd_format_valid d e t :
  existsb (Z.eqb (fst d)) lnct_codes = true -> enc_format d e ->
  rd_format (e ++ t) = Ok ((fst d, lform_code (snd d)), t).
Proof.
  intros Hct (e1 & e2 & H1 & H2 & ->). unfold rd_format, rd_content_type, rd_form.
  rewrite <- app_assoc, (rd_uleb_valid _ _ _ H1). cbn [bind].
  pose proof (lnct_named _ Hct) as Hn.
  destruct (enum_name tbl_c05_lnct (fst d) None); [|congruence]. cbn [bind].
  rewrite (rd_uleb_valid _ _ _ H2). cbn [bind]. rewrite gen_forms_standard. reflexivity.
Qed.

Lemma format_ok_spec fmt : format_ok fmt = true ->
  nodupb (map fst fmt) = true /\
  Forall (fun d => existsb (Z.eqb (fst d)) lnct_codes = true) fmt /\
  zlen fmt < 256.
Proof.
  unfold format_ok. intros H. apply andb_prop in H. destruct H as [H H3].
  apply andb_prop in H. destruct H as [H1 H2]. split; [exact H1|]. split.
  - apply forallb_Forall in H2. exact H2.
  - unfold zlen. lia.
Qed.

Lemma rd_formats_valid fmt e t : format_ok fmt = true -> enc_list enc_format fmt e ->
  rd_array (length fmt) rd_format (e ++ t) = Ok (format_view fmt, t).
Proof.
  intros Hok He. destruct (format_ok_spec fmt Hok) as (_ & Hcts & _).
  apply (rd_array_enc enc_format (fun d => existsb (Z.eqb (fst d)) lnct_codes = true) rd_format
           (fun d => (fst d, lform_code (snd d)))); auto.
  intros x ex tx Px Rx. apply rd_format_valid; auto.
Qed.

Lemma rd_entries_valid s fmt entries e t :
  nodupb (map fst fmt) = true -> forallb (forms_match fmt) entries = true ->
  enc_list (enc_list (enc_fval (ms_le s) (ms_is64 s))) entries e ->
  rd_array (length entries) (rd_formatted_entry s (format_view fmt)) (e ++ t)
    = Ok (map (raw_entry fmt) entries, t).
Proof.
  intros Hnd Hm He.
  apply (rd_array_enc (enc_list (enc_fval (ms_le s) (ms_is64 s))) (fun en => forms_match fmt en = true)); auto.
  - intros x ex tx Px Rx. apply (rd_formatted_entry_valid s); auto.
  - apply forallb_Forall. exact Hm.
Qed.

(* ---------------------------------------------------------------- versions 2-4: tables *)
Definition is_nil (obj : list Z) : bool := match obj with [] => true | _ => false end.

Lemma rd_incdirs_valid dirs e t : enc_list enc_dirname dirs e ->
  forall fuel, (length dirs < fuel)%nat ->
  repeat_until fuel cstring_decode is_nil (e ++ 0 :: t) = Some (dirs, t).
Proof.
  intros He. induction He as [|s es dirs er (Hn & Hne & ->) Hr IH]; intros fuel Hf.
  - destruct fuel as [|f]; [cbn in Hf; lia|]. reflexivity.
  - destruct fuel as [|f]; [cbn in Hf; lia|]. cbn [repeat_until].
    rewrite <- app_assoc, cstring_decode_valid by exact Hn.
    destruct s as [|b s']; [congruence|]. cbn [is_nil].
    rewrite IH by (cbn [length] in Hf; lia). reflexivity.
Qed.

Lemma rd_file_entries_valid files e t : enc_list enc_file files e ->
  forall fuel, (length files < fuel)%nat ->
  rd_file_entries fuel (e ++ 0 :: t) = Ok (files, t).
Proof.
  intros He. induction He as [|f ef files er Hf Hr IH]; intros fuel Hfu.
  - destruct fuel as [|n]; [cbn in Hfu; lia|]. reflexivity.
  - destruct fuel as [|n]; [cbn in Hfu; lia|].
    destruct Hf as (ed & em & el & Hn & Hne & Hd & Hm & Hl & ->).
    cbn [rd_file_entries]. rewrite <- !app_assoc.
    rewrite (file_entry_decode_valid (fe_name f) (fe_dir f) (fe_mtime f) (fe_length f) ed em el _ Hn Hne Hd Hm Hl).
    cbn [bind fe_name]. destruct (fe_name f) as [|b nm] eqn:En; [congruence|].
    rewrite IH by (cbn [length] in Hfu; lia). cbn [bind]. destruct f; cbn in *; subst; reflexivity.
Qed.

Lemma enc_list_len {A} (R : A -> list Z -> Prop) xs e :
  (forall x ex, R x ex -> 1 <= zlen ex) -> enc_list R xs e -> (length xs <= length e)%nat.
Proof.
  intros HR He. induction He as [|x ex xs es Hx Hxs IH]; [cbn; lia|].
  apply HR in Hx. unfold zlen in Hx. rewrite app_length. cbn [length]. lia.
Qed.

(* ---------------------------------------------------------------- the header *)
(* the Container as parsed by the struct, before resolve_strings and the legacy tables *)
Definition raw_view (h : lheader) (unit_length header_length : Z) : hview :=
  let v5 := 5 <=? h_version h in
  {| v_unit_length := unit_length;
     v_version := h_version h;
     v_address_size := if v5 then Some (h_address_size h) else None;
     v_seg_sel_size := if v5 then Some (h_seg_sel_size h) else None;
     v_header_length := header_length;
     v_params := h_params h;
     v_std_lengths := h_std_lengths h;
     v_dir_format := if v5 then Some (format_view (h_dir_format h)) else None;
     v_directories := if v5 then Some (map (raw_entry (h_dir_format h)) (h_dirs h)) else None;
     v_file_format := if v5 then Some (format_view (h_file_format h)) else None;
     v_file_names := if v5 then Some (map (raw_entry (h_file_format h)) (h_file_names h)) else None;
     v_include_directory := if v5 then [] else map DBytes (h_include_dirs h);
     v_file_entry := if v5 then [] else map file_entry_view (h_files h) |}.

Lemma zlen_initial_length le len is64 : zlen (initial_length_encode le len is64) = ilsz is64.
Proof.
  unfold initial_length_encode, ilsz, zlen. destruct is64.
  - rewrite app_length, !int_encode_length. reflexivity.
  - rewrite int_encode_length. reflexivity.
Qed.

Lemma enc_dirname_len s e : enc_dirname s e -> 1 <= zlen e.
Proof. intros (_ & _ & ->). unfold cstring_encode. rewrite zlen_app. pose proof (zlen_nonneg s).
  change (zlen [0]) with 1. lia. Qed.
Lemma enc_file_len f e : enc_file f e -> 1 <= zlen e.
Proof.
  intros (ed & em & el & _ & _ & _ & _ & _ & ->). unfold cstring_encode. rewrite !zlen_app.
  pose proof (zlen_nonneg (fe_name f)). pose proof (zlen_nonneg ed).
  pose proof (zlen_nonneg em). pose proof (zlen_nonneg el). change (zlen [0]) with 1. lia.
Qed.

Lemma wf_header_spec h : wf_header h = true ->
  2 <= h_version h <= 5 /\ wf_params (h_params h) = true /\
  (4 <= h_version h \/ p_max_ops (h_params h) = 1) /\
  zlen (h_std_lengths h) = p_opcode_base (h_params h) - 1 /\
  0 <= h_address_size h < 256 /\ 0 <= h_seg_sel_size h < 256 /\
  (5 <= h_version h ->
     format_ok (h_dir_format h) = true /\ format_ok (h_file_format h) = true /\
     forallb (forms_match (h_dir_format h)) (h_dirs h) = true /\
     forallb (forms_match (h_file_format h)) (h_file_names h) = true /\
     (h_dirs h = [] \/ existsb (fun d => fst d =? DW_LNCT_path) (h_dir_format h) = true)).
Proof.
  unfold wf_header. intros H.
  apply andb_prop in H; destruct H as [H Hv5].
  apply andb_prop in H; destruct H as [H Hseg].
  apply andb_prop in H; destruct H as [H Haddr].
  apply andb_prop in H; destruct H as [H Hstdlen].
  apply andb_prop in H; destruct H as [H Hstdb].
  apply andb_prop in H; destruct H as [H Hmo].
  apply andb_prop in H; destruct H as [H Hpar].
  apply andb_prop in H; destruct H as [Hlo Hhi].
  apply is_byte_iff in Hseg, Haddr. apply orb_prop in Hmo.
  repeat split; try lia; try assumption.
  all: destruct (Z.ltb_spec (h_version h) 5); [lia|].
  all: apply andb_prop in Hv5; destruct Hv5 as [Hv5 Hpath].
  all: apply andb_prop in Hv5; destruct Hv5 as [Hv5 Hfm].
  all: apply andb_prop in Hv5; destruct Hv5 as [Hv5 Hdm].
  all: apply andb_prop in Hv5; destruct Hv5 as [Hdf Hff].
  all: try assumption.
  apply orb_prop in Hpath. destruct Hpath as [V|V]; [left|right; exact V].
  destruct (h_dirs h); [reflexivity|discriminate].
Qed.
