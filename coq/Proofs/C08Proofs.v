(* Proofs/C08Proofs.v — lemmas for property C08 (relocations).
   A. REL/RELA/MIPS64 entries and tables: the model's readers invert the gABI encoders.
   B. RELR: the shifting loop of RelrRelocationTable.iter_relocations = the bitmap reading.
   C. Recipes regenerated from the code = the psABI table; machine/flavour dispatch.
   D. The apply loop: model = reference application; frame; error classes; disabled = identity. *)
From PV Require Import Base.Fmt Base.Outcome Spec.ElfGabi Spec.C08Spec Gen.ElfLayouts Gen.C08Recipes
     Model.C08Reloc Proofs.FmtProofs Proofs.ElfLayoutFacts.
From Coq Require Import ZifyBool.
Ltac Zify.zify_post_hook ::= Z.to_euclidean_division_equations.
Open Scope Z_scope.
Open Scope list_scope.

(* ------------------------------------------------------------------ small tools *)
Ltac norm_consts :=
  repeat match goal with
  | |- context [Z.of_nat ?n] =>
      match n with
      | S _ => let v := eval compute in (Z.of_nat n) in change (Z.of_nat n) with v
      | O => change (Z.of_nat O) with 0
      end
  end;
  repeat match goal with
  | |- context [8 * ?k] => match k with Zpos _ => let v := eval compute in (8 * k) in change (8 * k) with v end
  end;
  repeat match goal with
  | |- context [2 ^ ?k] => match k with Zpos _ => let v := eval compute in (2 ^ k) in change (2 ^ k) with v end
  | H : context [2 ^ ?k] |- _ =>
      match k with Zpos _ => let v := eval compute in (2 ^ k) in change (2 ^ k) with v in H end
  end.

Lemma inr_iff lo hi x : inr lo hi x = true <-> lo <= x < hi.
Proof. unfold inr. lia. Qed.

Lemma zskipn_skipn off (l : list Z) : 0 <= off -> zskipn off l = skipn (Z.to_nat off) l.
Proof.
  intros H. unfold zskipn. destruct (Z.leb_spec (zlen l) off) as [Hle|Hgt]; [|reflexivity].
  symmetry. apply skipn_all2. unfold zlen in Hle. lia.
Qed.

Lemma zskipn_app (pre rest : list Z) : zskipn (zlen pre) (pre ++ rest) = rest.
Proof.
  rewrite zskipn_skipn by apply zlen_nonneg. unfold zlen. rewrite Nat2Z.id.
  rewrite skipn_app, skipn_all, Nat.sub_diag. reflexivity.
Qed.

(* ------------------------------------------------------------------ A. entries *)
Lemma split_info32 s t : 0 <= s < 2^24 -> 0 <= t < 256 ->
  Z.land (Z.shiftr (s * 256 + t) 8) 16777215 = s /\ Z.land (s * 256 + t) 255 = t.
Proof.
  intros Hs Ht. change 16777215 with (Z.ones 24). change 255 with (Z.ones 8).
  rewrite !Z.land_ones by lia. rewrite Z.shiftr_div_pow2 by lia.
  change (2^8) with 256. change (2^24) with 16777216 in *. split; lia.
Qed.

Lemma split_info64 s t : 0 <= s < 2^32 -> 0 <= t < 2^32 ->
  Z.land (Z.shiftr (s * 4294967296 + t) 32) 4294967295 = s /\ Z.land (s * 4294967296 + t) 4294967295 = t.
Proof.
  intros Hs Ht. change 4294967295 with (Z.ones 32).
  rewrite !Z.land_ones by lia. rewrite Z.shiftr_div_pow2 by lia.
  change (2^32) with 4294967296 in *. split; lia.
Qed.

Ltac wf_split H :=
  unfold rent_wf in H; cbn [negb orb] in H;
  repeat (let H1 := fresh "Hw" in apply andb_prop in H; destruct H as [H H1]).

Ltac layout_cbn :=
  cbn [fits_fields fits_kind annot_fields annot_kind nvals firstn skipn app rev eval lookup
       String.eqb Ascii.eqb Bool.eqb apply_op length Nat.eqb andb].

(* the model's struct for a configuration is the gABI / MIPS64 layout *)
Lemma rel_struct_spec le is64 mips rela :
  rel_struct le is64 mips rela = rel_layout le is64 (is64 && mips) rela.
Proof.
  unfold rel_struct, rel_layout. destruct is64, mips, rela; cbn [andb];
    first [apply gen_Elf_Rela_mips64_gabi | apply gen_Elf_Rel_mips64_gabi
          | apply gen_Elf_Rela_gabi | apply gen_Elf_Rel_gabi].
Qed.

Lemma rent_fits le is64 m64 rela e :
  (m64 = true -> is64 = true) ->
  rent_wf is64 m64 rela e = true ->
  fits_layout (rel_layout le is64 m64 rela) (rent_vals is64 m64 rela e) = true.
Proof.
  intros Hm H. destruct m64; [rewrite (Hm eq_refl) in *|]; [|destruct is64]; destruct rela;
    wf_split H;
    unfold rel_layout, rent_vals, fits_layout, spec_Elf_Rela_mips64, spec_Elf_Rel_mips64, mips64_info_fields,
      spec_Elf_Rela, spec_Elf_Rel, r_info_fields;
    layout_cbn; unfold in_urange, in_srange, r_info_of, inr in *; norm_consts; lia.
Qed.

Lemma rent_annot le is64 m64 rela e :
  (m64 = true -> is64 = true) ->
  rent_wf is64 m64 rela e = true ->
  annot_layout (rel_layout le is64 m64 rela) (rent_vals is64 m64 rela e) = rent_view is64 m64 rela e.
Proof.
  intros Hm H. destruct m64; [rewrite (Hm eq_refl) in *|].
  - destruct rela; cbv - [Z.lor Z.shiftl]; reflexivity.
  - destruct is64; destruct rela; wf_split H;
      unfold rel_layout, rent_vals, rent_view, annot_layout, spec_Elf_Rela, spec_Elf_Rel, r_info_fields;
      layout_cbn; unfold r_info_of, inr in *.
    + destruct (split_info64 (r_sym e) (r_typ e)) as [E1 E2]; [lia | lia |]. rewrite E1, E2. reflexivity.
    + destruct (split_info64 (r_sym e) (r_typ e)) as [E1 E2]; [lia | lia |]. rewrite E1, E2. reflexivity.
    + destruct (split_info32 (r_sym e) (r_typ e)) as [E1 E2]; [lia | lia |]. rewrite E1, E2. reflexivity.
    + destruct (split_info32 (r_sym e) (r_typ e)) as [E1 E2]; [lia | lia |]. rewrite E1, E2. reflexivity.
Qed.

(* one entry, any tail *)
Theorem rent_roundtrip le is64 mips rela e tail :
  rent_wf is64 (is64 && mips) rela e = true ->
  decode_layout (rel_struct le is64 mips rela) (encode_rent le is64 (is64 && mips) rela e ++ tail)
  = Some (rent_view is64 (is64 && mips) rela e, tail).
Proof.
  intros H. rewrite rel_struct_spec. unfold encode_rent.
  assert (Hm : is64 && mips = true -> is64 = true) by (destruct is64; auto).
  rewrite decode_encode_layout by (apply rent_fits; assumption).
  rewrite rent_annot by assumption. reflexivity.
Qed.

Lemma rel_struct_size le is64 mips rela :
  layout_size (rel_struct le is64 mips rela) = Some (Z.to_nat (rel_entsize is64 (is64 && mips) rela)).
Proof. destruct le, is64, mips, rela; vm_compute; reflexivity. Qed.

Lemma rel_struct_sizeof le is64 mips rela :
  sizeof (rel_struct le is64 mips rela) = rel_entsize is64 (is64 && mips) rela.
Proof. destruct le, is64, mips, rela; vm_compute; reflexivity. Qed.

Lemma rel_entsize_pos is64 m64 rela : 0 < rel_entsize is64 m64 rela.
Proof. unfold rel_entsize. destruct is64, rela; lia. Qed.

Lemma encode_rent_length le is64 mips rela e :
  rent_wf is64 (is64 && mips) rela e = true ->
  zlen (encode_rent le is64 (is64 && mips) rela e) = rel_entsize is64 (is64 && mips) rela.
Proof.
  intros H. unfold encode_rent, encode_layout, zlen.
  assert (Hm : is64 && mips = true -> is64 = true) by (destruct is64; auto).
  pose proof (rent_fits le _ _ _ _ Hm H) as Hf. unfold fits_layout in Hf.
  erewrite encode_fields_length; [| exact Hf | rewrite <- rel_struct_spec; apply rel_struct_size].
  pose proof (rel_entsize_pos is64 (is64 && mips) rela). lia.
Qed.

Lemma encode_table_length le is64 mips rela es :
  forallb (rent_wf is64 (is64 && mips) rela) es = true ->
  zlen (encode_table le is64 (is64 && mips) rela es)
  = zlen es * rel_entsize is64 (is64 && mips) rela.
Proof.
  unfold encode_table. induction es as [|e es IH]; intros H; [reflexivity|].
  cbn [forallb] in H. apply andb_prop in H. destruct H as [He Hes].
  cbn [map concat]. rewrite zlen_app, zlen_cons, IH by assumption.
  rewrite encode_rent_length by assumption. lia.
Qed.

(* the table loop started at entry i reads the remaining entries *)
Lemma iter_from_table le is64 mips rela off tail : forall es pre i,
  forallb (rent_wf is64 (is64 && mips) rela) es = true ->
  off + i * rel_entsize is64 (is64 && mips) rela = zlen pre ->
  iter_from (rel_struct le is64 mips rela)
            (pre ++ encode_table le is64 (is64 && mips) rela es ++ tail) off (length es) i
  = Ok (map (rent_view is64 (is64 && mips) rela) es).
Proof.
  induction es as [|e es IH]; intros pre i H Hoff; [reflexivity|].
  cbn [forallb] in H. apply andb_prop in H. destruct H as [He Hes].
  cbn [length iter_from map]. unfold get_relocation, struct_parse_at.
  rewrite rel_struct_sizeof, Hoff.
  destruct (Z.ltb_spec (zlen pre) 0) as [Hneg|_]; [pose proof (zlen_nonneg pre); lia|].
  unfold encode_table. cbn [map concat]. rewrite <- app_assoc.
  rewrite zskipn_app. rewrite rent_roundtrip by assumption. cbn [bind].
  change (concat (map (encode_rent le is64 (is64 && mips) rela) es))
    with (encode_table le is64 (is64 && mips) rela es).
  rewrite app_assoc.
  rewrite (IH (pre ++ encode_rent le is64 (is64 && mips) rela e) (i + 1)); [reflexivity | assumption |].
  rewrite zlen_app, encode_rent_length by assumption. lia.
Qed.

(* RelocationTable.iter_relocations on a table placed anywhere, with up to entsize-1 slack bytes *)
Theorem table_roundtrip le is64 mips rela es pre tail slack :
  forallb (rent_wf is64 (is64 && mips) rela) es = true ->
  0 <= slack < rel_entsize is64 (is64 && mips) rela ->
  iter_relocations (rel_struct le is64 mips rela)
                   (pre ++ encode_table le is64 (is64 && mips) rela es ++ tail)
                   (zlen pre) (zlen (encode_table le is64 (is64 && mips) rela es) + slack)
  = Ok (map (rent_view is64 (is64 && mips) rela) es).
Proof.
  intros H Hs. unfold iter_relocations, num_relocations.
  rewrite rel_struct_sizeof, encode_table_length by assumption.
  pose proof (rel_entsize_pos is64 (is64 && mips) rela) as Hp.
  replace ((zlen es * rel_entsize is64 (is64 && mips) rela + slack) / rel_entsize is64 (is64 && mips) rela)
    with (zlen es) by nia.
  unfold zlen at 2. rewrite Nat2Z.id.
  apply iter_from_table; [assumption | lia].
Qed.

Theorem num_relocations_exact le is64 mips rela es slack :
  forallb (rent_wf is64 (is64 && mips) rela) es = true ->
  0 <= slack < rel_entsize is64 (is64 && mips) rela ->
  num_relocations (rel_struct le is64 mips rela)
                  (zlen (encode_table le is64 (is64 && mips) rela es) + slack) = zlen es.
Proof.
  intros H Hs. unfold num_relocations.
  rewrite rel_struct_sizeof, encode_table_length by assumption.
  pose proof (rel_entsize_pos is64 (is64 && mips) rela) as Hp. nia.
Qed.

(* random access: get_relocation(n) *)
Theorem get_relocation_exact le is64 mips rela es pre tail n d :
  forallb (rent_wf is64 (is64 && mips) rela) es = true ->
  (n < length es)%nat ->
  get_relocation (rel_struct le is64 mips rela)
                 (pre ++ encode_table le is64 (is64 && mips) rela es ++ tail) (zlen pre) (Z.of_nat n)
  = Ok (rent_view is64 (is64 && mips) rela (nth n es d)).
Proof.
  intros H Hn.
  rewrite <- (firstn_skipn n es) in H |- * at 1.
  rewrite forallb_app in H. apply andb_prop in H. destruct H as [H1 H2].
  destruct (skipn n es) as [|e r] eqn:Er.
  { exfalso. assert (length (skipn n es) = 0%nat) by (rewrite Er; reflexivity).
    rewrite skipn_length in H. lia. }
  assert (Hnth : nth n es d = e).
  { rewrite <- (firstn_skipn n es) at 1. rewrite app_nth2; rewrite firstn_length_le by lia; [|lia].
    rewrite Nat.sub_diag, Er. reflexivity. }
  rewrite Hnth. cbn [forallb] in H2. apply andb_prop in H2. destruct H2 as [He Hr].
  unfold encode_table. rewrite map_app, concat_app. cbn [map concat].
  unfold get_relocation, struct_parse_at. rewrite rel_struct_sizeof.
  set (pre' := (pre ++ concat (map (encode_rent le is64 (is64 && mips) rela) (firstn n es)))%list).
  assert (Hlen : zlen pre + Z.of_nat n * rel_entsize is64 (is64 && mips) rela = zlen pre').
  { unfold pre'. rewrite zlen_app.
    change (concat (map (encode_rent le is64 (is64 && mips) rela) (firstn n es)))
      with (encode_table le is64 (is64 && mips) rela (firstn n es)).
    rewrite encode_table_length by assumption. unfold zlen at 3. rewrite firstn_length_le by lia. lia. }
  rewrite Hlen.
  destruct (Z.ltb_spec (zlen pre') 0) as [Hneg|_]; [pose proof (zlen_nonneg pre'); lia|].
  replace (pre ++ (concat (map (encode_rent le is64 (is64 && mips) rela) (firstn n es)) ++
                   encode_rent le is64 (is64 && mips) rela e ++
                   concat (map (encode_rent le is64 (is64 && mips) rela) r)) ++ tail)%list
    with (pre' ++ encode_rent le is64 (is64 && mips) rela e ++
          (concat (map (encode_rent le is64 (is64 && mips) rela) r) ++ tail))%list
    by (unfold pre'; rewrite <- !app_assoc; reflexivity).
  rewrite zskipn_app, rent_roundtrip by assumption. reflexivity.
Qed.

(* the entry-size assertion of RelocationSection accepts exactly the standard size *)
Theorem reloc_section_check_exact le is64 mips rela entsize :
  reloc_section_check (rel_struct le is64 mips rela) entsize
  = if entsize =? rel_entsize is64 (is64 && mips) rela then Ok tt else Err EElf.
Proof. unfold reloc_section_check. rewrite rel_struct_sizeof. reflexivity. Qed.

(* ------------------------------------------------------------------ B. RELR *)
Lemma filter_none {A} (p : A -> bool) l : (forall x, In x l -> p x = false) -> filter p l = [].
Proof.
  induction l as [|a l IH]; intros H; [reflexivity|].
  cbn [filter]. rewrite (H a) by (left; reflexivity). apply IH. intros x Hx. apply H. right. exact Hx.
Qed.

Lemma filter_map {A B} (f : A -> B) (p : B -> bool) l :
  filter p (map f l) = map f (filter (fun x => p (f x)) l).
Proof.
  induction l as [|a l IH]; [reflexivity|].
  cbn [map filter]. destruct (p (f a)); cbn [map]; rewrite IH; reflexivity.
Qed.

Lemma land1_testbit0 e : negb (Z.land e 1 =? 0) = Z.testbit e 0.
Proof.
  change 1 with (Z.ones 1). rewrite Z.land_ones by lia. change (2 ^ 1) with 2.
  pose proof (Z.bit0_mod e) as H. destruct (Z.testbit e 0); cbn [Z.b2z] in H;
    destruct (Z.eqb_spec (e mod 2) 0) as [E|E]; cbn [negb]; try reflexivity; lia.
Qed.

Lemma land1_even e : (Z.land e 1 =? 0) = Z.even e.
Proof.
  pose proof (land1_testbit0 e) as H. rewrite Z.bit0_odd, <- Z.negb_even in H.
  destruct (Z.land e 1 =? 0), (Z.even e); cbn in H; congruence.
Qed.

(* the addresses a bitmap denotes, seen from loop state (e = w >> i, index i) *)
Definition bm_addrs (f : nat) (e base i entsz : Z) : list Z :=
  map (fun j => base + (i + Z.of_nat j) * entsz)
      (filter (fun j => Z.testbit e (Z.of_nat j + 1)) (seq 0 f)).

Lemma relr_bitmap_spec base entsz : forall f e i,
  0 <= e < 2 ^ Z.of_nat (S f) ->
  relr_bitmap (S f) e base i entsz = Ok (bm_addrs f e base i entsz).
Proof.
  induction f as [|f IH]; intros e i He.
  - cbn [relr_bitmap]. change (2 ^ Z.of_nat 1) with 2 in He.
    rewrite Z.shiftr_div_pow2 by lia. change (2 ^ 1) with 2.
    replace (e / 2) with 0 by lia. reflexivity.
  - remember (S f) as f1 eqn:Ef1. cbn [relr_bitmap].
    assert (He' : 0 <= Z.shiftr e 1 < 2 ^ Z.of_nat f1).
    { rewrite Z.shiftr_div_pow2 by lia. change (2 ^ 1) with 2.
      replace (Z.of_nat (S f1)) with (Z.of_nat f1 + 1) in He by lia.
      rewrite Z.pow_add_r in He by lia. change (2 ^ 1) with 2 in He. lia. }
    assert (Hbit : forall j, Z.testbit e (Z.of_nat j + 1) = Z.testbit (Z.shiftr e 1) (Z.of_nat j)).
    { intros j. rewrite Z.shiftr_spec by lia. reflexivity. }
    destruct (Z.eqb_spec (Z.shiftr e 1) 0) as [Hz|Hnz].
    + unfold bm_addrs. rewrite filter_none; [reflexivity|].
      intros j _. rewrite Hbit, Hz. apply Z.bits_0.
    + subst f1. rewrite IH by exact He'. cbn [bind].
      unfold bm_addrs. cbn [seq filter]. rewrite <- seq_shift, filter_map.
      rewrite land1_testbit0. change (Z.of_nat 0 + 1) with 1.
      replace (Z.testbit e 1) with (Z.testbit (Z.shiftr e 1) 0) by (rewrite Z.shiftr_spec by lia; reflexivity).
      assert (Hrest :
        map (fun j => base + (i + Z.of_nat j) * entsz)
            (map S (filter (fun x => Z.testbit e (Z.of_nat (S x) + 1)) (seq 0 f))) =
        map (fun j => base + (i + 1 + Z.of_nat j) * entsz)
            (filter (fun j => Z.testbit (Z.shiftr e 1) (Z.of_nat j + 1)) (seq 0 f))).
      { rewrite map_map.
        erewrite filter_ext; [apply map_ext|].
        - intros j. cbn beta. f_equal. f_equal. lia.
        - intros j. cbn beta. rewrite (Hbit (S j)). f_equal. lia. }
      destruct (Z.testbit (Z.shiftr e 1) 0); cbn [map]; rewrite Hrest; [|reflexivity].
      f_equal. f_equal. f_equal. lia.
Qed.

Lemma relr_sizeof le is64 : sizeof (gen_Elf_Relr le is64) = wordsize is64.
Proof. destruct le, is64; reflexivity. Qed.

Lemma relr_word_roundtrip le is64 w tail :
  inr 0 (2 ^ wordbits is64) w = true ->
  decode_layout (gen_Elf_Relr le is64) (encode_layout (spec_Elf_Relr le is64) [VZ w] ++ tail)
  = Some ([("r_offset"%string, VZ w)], tail).
Proof.
  intros H. apply inr_iff in H. rewrite gen_Elf_Relr_gabi. rewrite decode_encode_layout.
  - destruct is64; reflexivity.
  - destruct is64; unfold fits_layout, spec_Elf_Relr; layout_cbn; unfold in_urange, wordbits in *;
      norm_consts; lia.
Qed.

Lemma relr_word_length le is64 w :
  zlen (encode_layout (spec_Elf_Relr le is64) [VZ w]) = wordsize is64.
Proof.
  unfold encode_layout, spec_Elf_Relr. cbn [encode_fields encode_kind nvals firstn skipn].
  rewrite app_nil_r. unfold zlen. rewrite int_encode_length. destruct is64; reflexivity.
Qed.

Lemma bm_addrs_bitmap is64 b w :
  bm_addrs (Z.to_nat (wordbits is64 - 1)) w b 0 (wordsize is64) = bitmap_addrs is64 b w.
Proof.
  unfold bm_addrs, bitmap_addrs. apply map_ext. intros j. f_equal.
Qed.

Lemma relr_loop_spec le is64 tail : forall ws pre base,
  relr_words_wf is64 ws = true ->
  relr_loop le is64 (pre ++ encode_relr le is64 ws ++ tail) (length ws) (zlen pre) base
  = relr_spec_go is64 base ws.
Proof.
  induction ws as [|w ws IH]; intros pre base H; [reflexivity|].
  unfold relr_words_wf in H. cbn [forallb] in H. apply andb_prop in H. destruct H as [Hw Hws].
  cbn [length relr_loop relr_spec_go]. unfold struct_parse_at.
  destruct (Z.ltb_spec (zlen pre) 0) as [Hneg|_]; [pose proof (zlen_nonneg pre); lia|].
  unfold encode_relr. cbn [map concat]. rewrite <- app_assoc, zskipn_app.
  rewrite relr_word_roundtrip by exact Hw. cbn [bind]. unfold getf. cbn [rec_get String.eqb Ascii.eqb Bool.eqb bind].
  rewrite relr_sizeof, land1_even.
  change (concat (map (fun w0 => encode_layout (spec_Elf_Relr le is64) [VZ w0]) ws))
    with (encode_relr le is64 ws).
  assert (Hnext : forall b,
    relr_loop le is64 (pre ++ encode_layout (spec_Elf_Relr le is64) [VZ w] ++ encode_relr le is64 ws ++ tail)
              (length ws) (zlen pre + wordsize is64) b = relr_spec_go is64 b ws).
  { intros b. rewrite app_assoc.
    replace (zlen pre + wordsize is64)
      with (zlen (pre ++ encode_layout (spec_Elf_Relr le is64) [VZ w])) by (rewrite zlen_app, relr_word_length; lia).
    apply IH. exact Hws. }
  destruct (Z.even w).
  - rewrite Hnext. reflexivity.
  - destruct base as [b|]; [|reflexivity].
    assert (Hfuel : Z.to_nat (8 * wordsize is64) = S (Z.to_nat (wordbits is64 - 1))) by (destruct is64; reflexivity).
    rewrite Hfuel, relr_bitmap_spec.
    + cbn [bind]. rewrite bm_addrs_bitmap.
      replace ((8 * wordsize is64 - 1) * (if is64 then 8 else 4)) with ((wordbits is64 - 1) * wordsize is64)
        by (destruct is64; reflexivity).
      rewrite Hnext. reflexivity.
    + apply inr_iff in Hw. rewrite <- Hfuel. destruct is64; exact Hw.
Qed.

Lemma encode_relr_length le is64 ws : zlen (encode_relr le is64 ws) = zlen ws * wordsize is64.
Proof.
  unfold encode_relr. induction ws as [|w ws IH]; [reflexivity|].
  cbn [map concat]. rewrite zlen_app, zlen_cons, IH, relr_word_length. lia.
Qed.

(* RelrRelocationTable.iter_relocations = the gABI reading, for EVERY word list *)
Theorem relr_equal le is64 ws pre tail :
  relr_words_wf is64 ws = true ->
  relr_iter_relocations le is64 (pre ++ encode_relr le is64 ws ++ tail)
                        (zlen pre) (zlen (encode_relr le is64 ws)) (wordsize is64)
  = relr_spec is64 ws.
Proof.
  intros H. unfold relr_iter_relocations. rewrite relr_sizeof, Z.eqb_refl. cbn [negb].
  rewrite encode_relr_length.
  assert (Hp : 0 < wordsize is64) by (destruct is64; reflexivity).
  destruct (Z.eqb_spec (zlen ws * wordsize is64) 0) as [Hz|Hnz].
  - destruct ws as [|w ws]; [reflexivity|]. rewrite zlen_cons in Hz. pose proof (zlen_nonneg ws). nia.
  - replace ((zlen ws * wordsize is64 + wordsize is64 - 1) / wordsize is64) with (zlen ws) by nia.
    unfold zlen at 1. rewrite Nat2Z.id. apply relr_loop_spec. exact H.
Qed.

Theorem relr_entsize_checked le is64 img off size entsize :
  entsize <> wordsize is64 -> relr_iter_relocations le is64 img off size entsize = Err EElf.
Proof.
  intros H. unfold relr_iter_relocations. rewrite relr_sizeof.
  destruct (Z.eqb_spec (wordsize is64) entsize); [congruence|reflexivity].
Qed.

(* ------------------------------------------------------------------ C. recipes = psABI, dispatch *)
Definition family_for (em : Z) (rela : bool) : option string :=
  family_of (reloc_dispatch (machine_arch em) rela).

Definition is_width (b : Z) : Prop := b = 1 \/ b = 2 \/ b = 4 \/ b = 8.

(* what a psABI row demands of the regenerated recipe *)
Definition row_ok (em : Z) (rela : bool) (typ : Z) (n : nat) (f : formula) : Prop :=
  exists fam bytesize ha cid calc,
    family_for em rela = Some fam /\
    recipe_of fam typ = Some (bytesize, ha, cid) /\
    gen_calc cid = Some calc /\
    is_width bytesize /\
    (rela = false -> ha = false) /\
    match f with
    | FNone => forall V S P A, calc V S P A = V
    | _ => bytesize = Z.of_nat n /\
           forall V S P A, wrap n (calc V S P (if ha then A else 0))
                           = wrap n (eval_formula f V S P (if rela then A else V))
    end.

Ltac row_arith :=
  intros; cbv beta iota delta - [Z.add Z.sub Z.mul Z.div Z.modulo Z.pow Z.of_nat Z.opp];
  first [reflexivity | f_equal; ring].

Ltac solve_row :=
  unfold row_ok; do 5 eexists;
  split; [vm_compute; reflexivity|];
  split; [vm_compute; reflexivity|];
  split; [cbv beta iota delta [gen_calc String.eqb Ascii.eqb Bool.eqb]; reflexivity|];
  split; [unfold is_width; lia|];
  split; [first [reflexivity | discriminate | (intros _; reflexivity)]|];
  first [(split; [reflexivity | row_arith]) | row_arith].

Theorem calc_matches_psabi : forall em rela typ name n f,
  In (em, rela, typ, name, n, f) psabi_table -> row_ok em rela typ n f.
Proof.
  intros em rela typ name n f H. unfold psabi_table in H.
  repeat (destruct H as [H|H]; [inversion H; subst; clear H; solve_row|]).
  destruct H.
Qed.

Lemma zassoc_In {A} (t : list (Z * A)) k v : zassoc t k = Some v -> In (k, v) t.
Proof.
  induction t as [|[k' v'] t IH]; intros H; [discriminate|].
  cbn [zassoc] in H. destruct (Z.eqb_spec k' k) as [E|E].
  - inversion H; subst. left. reflexivity.
  - right. apply IH. exact H.
Qed.

Lemma in_listed em : In em listed_machines ->
  em = EM_386 \/ em = EM_X86_64 \/ em = EM_ARM \/ em = EM_AARCH64 \/ em = EM_MIPS \/ em = EM_PPC64 \/
  em = EM_S390 \/ em = EM_LOONGARCH.
Proof. unfold listed_machines. cbn [In]. intuition. Qed.

(* machine / flavour dispatch regenerated from the code = the flavour each listed machine uses *)
Theorem dispatch_matches_psabi em rela :
  In em listed_machines ->
  (match family_for em rela with Some _ => true | None => false end) = flavour_ok em rela.
Proof.
  intros H. apply in_listed in H.
  destruct H as [H|[H|[H|[H|[H|[H|[H|H]]]]]]]; subst em; destruct rela; vm_compute; reflexivity.
Qed.

Lemma machine_is_mips em :
  In em listed_machines ->
  (machine_arch em =? "MIPS")%string = (em =? EM_MIPS) /\ is_mips em = (em =? EM_MIPS).
Proof.
  intros H. apply in_listed in H.
  destruct H as [H|[H|[H|[H|[H|[H|[H|H]]]]]]]; subst em; vm_compute; split; reflexivity.
Qed.

(* every recipe the code has for a listed machine is a row of the psABI table (R_ARM_CALL aside) *)
Theorem recipes_within_psabi em rela fam typ r :
  In em listed_machines -> family_for em rela = Some fam -> recipe_of fam typ = Some r ->
  (em = EM_ARM /\ typ = 28) \/ psabi_lookup em rela typ <> None.
Proof.
  intros H Hf Hr. apply in_listed in H.
  destruct H as [H|[H|[H|[H|[H|[H|[H|H]]]]]]]; subst em; destruct rela;
    vm_compute in Hf; try discriminate; inversion Hf; subst fam; clear Hf;
    unfold recipe_of in Hr; cbn [sassoc gen_recipe_families String.eqb Ascii.eqb Bool.eqb] in Hr;
    apply zassoc_In in Hr; cbv delta [gen_recipes_ARM gen_recipes_AARCH64 gen_recipes_MIPS_REL gen_recipes_MIPS_RELA
      gen_recipes_PPC64 gen_recipes_X86 gen_recipes_X64 gen_recipes_LOONGARCH gen_recipes_S390X] in Hr;
    cbn [In] in Hr;
    repeat (destruct Hr as [Hr|Hr]; [inversion Hr; subst; clear Hr;
                                      first [right; vm_compute; discriminate | left; split; reflexivity]|]);
    destruct Hr.
Qed.

Lemma psabi_find_In t em rela typ n f :
  psabi_find t em rela typ = Some (n, f) -> exists name, In (em, rela, typ, name, n, f) t.
Proof.
  induction t as [|[[[[[m r] ty] nm] n'] f'] t IH]; intros H; [discriminate|].
  cbn [psabi_find] in H.
  destruct ((m =? em) && Bool.eqb r rela && (ty =? typ)) eqn:E.
  - inversion H; subst. apply andb_prop in E. destruct E as [E E3]. apply andb_prop in E. destruct E as [E1 E2].
    apply Z.eqb_eq in E1, E3. apply Bool.eqb_prop in E2. subst. exists nm. left. reflexivity.
  - destruct (IH H) as [name Hin]. exists name. right. exact Hin.
Qed.
