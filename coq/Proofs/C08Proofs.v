(* Proofs/C08Proofs.v — lemmas for property C08 (relocations).
   A. REL/RELA/MIPS64 entries and tables: the model's readers invert the gABI encoders.
   B. RELR: the shifting loop of RelrRelocationTable.iter_relocations = the bitmap reading.
   C. Recipes regenerated from the code = the psABI table; machine/flavour dispatch.
   D. The apply loop: model = reference application; frame; error classes; disabled = identity. *)
From PV Require Import Base.Fmt Base.Outcome Spec.ElfGabi Spec.C08Spec Gen.ElfLayouts Gen.C08Recipes
     Model.C08Reloc Proofs.FmtProofs Proofs.ElfLayoutFacts.
From Coq Require Import ZifyBool.
Ltac Zify.zify_post_hook ::= Z.to_euclidean_division_equations.
Open Scope Z_scope.
Open Scope list_scope.

(* ------------------------------------------------------------------ small tools *)
Ltac norm_consts :=
  repeat match goal with
  | |- context [Z.of_nat ?n] =>
      match n with
      | S _ => let v := eval compute in (Z.of_nat n) in change (Z.of_nat n) with v
      | O => change (Z.of_nat O) with 0
      end
  end;
  repeat match goal with
  | |- context [8 * ?k] => match k with Zpos _ => let v := eval compute in (8 * k) in change (8 * k) with v end
  end;
  repeat match goal with
  | |- context [2 ^ ?k] => match k with Zpos _ => let v := eval compute in (2 ^ k) in change (2 ^ k) with v end
  | H : context [2 ^ ?k] |- _ =>
      match k with Zpos _ => let v := eval compute in (2 ^ k) in change (2 ^ k) with v in H end
  end.

Lemma inr_iff lo hi x : inr lo hi x = true <-> lo <= x < hi.
Proof. unfold inr. lia. Qed.

Lemma zskipn_skipn off (l : list Z) : 0 <= off -> zskipn off l = skipn (Z.to_nat off) l.
Proof.
  intros H. unfold zskipn. destruct (Z.leb_spec (zlen l) off) as [Hle|Hgt]; [|reflexivity].
  symmetry. apply skipn_all2. unfold zlen in Hle. lia.
Qed.

Lemma zskipn_app (pre rest : list Z) : zskipn (zlen pre) (pre ++ rest) = rest.
Proof.
  rewrite zskipn_skipn by apply zlen_nonneg. unfold zlen. rewrite Nat2Z.id.
  rewrite skipn_app, skipn_all, Nat.sub_diag. reflexivity.
Qed.

(* ------------------------------------------------------------------ A. entries *)
Lemma split_info32 s t : 0 <= s < 2^24 -> 0 <= t < 256 ->
  Z.land (Z.shiftr (s * 256 + t) 8) 16777215 = s /\ Z.land (s * 256 + t) 255 = t.
Proof.
  intros Hs Ht. change 16777215 with (Z.ones 24). change 255 with (Z.ones 8).
  rewrite !Z.land_ones by lia. rewrite Z.shiftr_div_pow2 by lia.
  change (2^8) with 256. change (2^24) with 16777216 in *. split; lia.
Qed.

Lemma split_info64 s t : 0 <= s < 2^32 -> 0 <= t < 2^32 ->
  Z.land (Z.shiftr (s * 4294967296 + t) 32) 4294967295 = s /\ Z.land (s * 4294967296 + t) 4294967295 = t.
Proof.
  intros Hs Ht. change 4294967295 with (Z.ones 32).
  rewrite !Z.land_ones by lia. rewrite Z.shiftr_div_pow2 by lia.
  change (2^32) with 4294967296 in *. split; lia.
Qed.

Ltac wf_split H :=
  unfold rent_wf in H; cbn [negb orb] in H;
  repeat (let H1 := fresh "Hw" in apply andb_prop in H; destruct H as [H H1]).

Ltac layout_cbn :=
  cbn [fits_fields fits_kind annot_fields annot_kind nvals firstn skipn app rev eval lookup
       String.eqb Ascii.eqb Bool.eqb apply_op length Nat.eqb andb].

(* the model's struct for a configuration is the gABI / MIPS64 layout *)
Lemma rel_struct_spec le is64 mips rela :
  rel_struct le is64 mips rela = rel_layout le is64 (is64 && mips) rela.
Proof.
  unfold rel_struct, rel_layout. destruct is64, mips, rela; cbn [andb];
    first [apply gen_Elf_Rela_mips64_gabi | apply gen_Elf_Rel_mips64_gabi
          | apply gen_Elf_Rela_gabi | apply gen_Elf_Rel_gabi].
Qed.

Lemma rent_fits le is64 m64 rela e :
  (m64 = true -> is64 = true) ->
  rent_wf is64 m64 rela e = true ->
  fits_layout (rel_layout le is64 m64 rela) (rent_vals is64 m64 rela e) = true.
Proof.
  intros Hm H. destruct m64; [rewrite (Hm eq_refl) in *|]; [|destruct is64]; destruct rela;
    wf_split H;
    unfold rel_layout, rent_vals, fits_layout, spec_Elf_Rela_mips64, spec_Elf_Rel_mips64, mips64_info_fields,
      spec_Elf_Rela, spec_Elf_Rel, r_info_fields;
    layout_cbn; unfold in_urange, in_srange, r_info_of, inr in *; norm_consts; lia.
Qed.

Lemma rent_annot le is64 m64 rela e :
  (m64 = true -> is64 = true) ->
  rent_wf is64 m64 rela e = true ->
  annot_layout (rel_layout le is64 m64 rela) (rent_vals is64 m64 rela e) = rent_view is64 m64 rela e.
Proof.
  intros Hm H. destruct m64; [rewrite (Hm eq_refl) in *|].
  - destruct rela; cbv - [Z.lor Z.shiftl]; reflexivity.
  - destruct is64; destruct rela; wf_split H;
      unfold rel_layout, rent_vals, rent_view, annot_layout, spec_Elf_Rela, spec_Elf_Rel, r_info_fields;
      layout_cbn; unfold r_info_of, inr in *.
    + destruct (split_info64 (r_sym e) (r_typ e)) as [E1 E2]; [lia | lia |]. rewrite E1, E2. reflexivity.
    + destruct (split_info64 (r_sym e) (r_typ e)) as [E1 E2]; [lia | lia |]. rewrite E1, E2. reflexivity.
    + destruct (split_info32 (r_sym e) (r_typ e)) as [E1 E2]; [lia | lia |]. rewrite E1, E2. reflexivity.
    + destruct (split_info32 (r_sym e) (r_typ e)) as [E1 E2]; [lia | lia |]. rewrite E1, E2. reflexivity.
Qed.

(* one entry, any tail *)
Theorem rent_roundtrip le is64 mips rela e tail :
  rent_wf is64 (is64 && mips) rela e = true ->
  decode_layout (rel_struct le is64 mips rela) (encode_rent le is64 (is64 && mips) rela e ++ tail)
  = Some (rent_view is64 (is64 && mips) rela e, tail).
Proof.
  intros H. rewrite rel_struct_spec. unfold encode_rent.
  assert (Hm : is64 && mips = true -> is64 = true) by (destruct is64; auto).
  rewrite decode_encode_layout by (apply rent_fits; assumption).
  rewrite rent_annot by assumption. reflexivity.
Qed.

Lemma rel_struct_size le is64 mips rela :
  layout_size (rel_struct le is64 mips rela) = Some (Z.to_nat (rel_entsize is64 (is64 && mips) rela)).
Proof. destruct le, is64, mips, rela; vm_compute; reflexivity. Qed.

Lemma rel_struct_sizeof le is64 mips rela :
  sizeof (rel_struct le is64 mips rela) = rel_entsize is64 (is64 && mips) rela.
Proof. destruct le, is64, mips, rela; vm_compute; reflexivity. Qed.

Lemma rel_entsize_pos is64 m64 rela : 0 < rel_entsize is64 m64 rela.
Proof. unfold rel_entsize. destruct is64, rela; lia. Qed.

Lemma encode_rent_length le is64 mips rela e :
  rent_wf is64 (is64 && mips) rela e = true ->
  zlen (encode_rent le is64 (is64 && mips) rela e) = rel_entsize is64 (is64 && mips) rela.
Proof.
  intros H. unfold encode_rent, encode_layout, zlen.
  assert (Hm : is64 && mips = true -> is64 = true) by (destruct is64; auto).
  pose proof (rent_fits le _ _ _ _ Hm H) as Hf. unfold fits_layout in Hf.
  erewrite encode_fields_length; [| exact Hf | rewrite <- rel_struct_spec; apply rel_struct_size].
  pose proof (rel_entsize_pos is64 (is64 && mips) rela). lia.
Qed.

Lemma encode_table_length le is64 mips rela es :
  forallb (rent_wf is64 (is64 && mips) rela) es = true ->
  zlen (encode_table le is64 (is64 && mips) rela es)
  = zlen es * rel_entsize is64 (is64 && mips) rela.
Proof.
  unfold encode_table. induction es as [|e es IH]; intros H; [reflexivity|].
  cbn [forallb] in H. apply andb_prop in H. destruct H as [He Hes].
  cbn [map concat]. rewrite zlen_app, zlen_cons, IH by assumption.
  rewrite encode_rent_length by assumption. lia.
Qed.

(* the table loop started at entry i reads the remaining entries *)
Lemma iter_from_table le is64 mips rela off tail : forall es pre i,
  forallb (rent_wf is64 (is64 && mips) rela) es = true ->
  off + i * rel_entsize is64 (is64 && mips) rela = zlen pre ->
  iter_from (rel_struct le is64 mips rela)
            (pre ++ encode_table le is64 (is64 && mips) rela es ++ tail) off (length es) i
  = Ok (map (rent_view is64 (is64 && mips) rela) es).
Proof.
  induction es as [|e es IH]; intros pre i H Hoff; [reflexivity|].
  cbn [forallb] in H. apply andb_prop in H. destruct H as [He Hes].
  cbn [length iter_from map]. unfold get_relocation, struct_parse_at.
  rewrite rel_struct_sizeof, Hoff.
  destruct (Z.ltb_spec (zlen pre) 0) as [Hneg|_]; [pose proof (zlen_nonneg pre); lia|].
  unfold encode_table. cbn [map concat]. rewrite <- app_assoc.
  rewrite zskipn_app. rewrite rent_roundtrip by assumption. cbn [bind].
  change (concat (map (encode_rent le is64 (is64 && mips) rela) es))
    with (encode_table le is64 (is64 && mips) rela es).
  rewrite app_assoc.
  rewrite (IH (pre ++ encode_rent le is64 (is64 && mips) rela e) (i + 1)); [reflexivity | assumption |].
  rewrite zlen_app, encode_rent_length by assumption. lia.
Qed.

(* RelocationTable.iter_relocations on a table placed anywhere, with up to entsize-1 slack bytes *)
Theorem table_roundtrip le is64 mips rela es pre tail slack :
  forallb (rent_wf is64 (is64 && mips) rela) es = true ->
  0 <= slack < rel_entsize is64 (is64 && mips) rela ->
  iter_relocations (rel_struct le is64 mips rela)
                   (pre ++ encode_table le is64 (is64 && mips) rela es ++ tail)
                   (zlen pre) (zlen (encode_table le is64 (is64 && mips) rela es) + slack)
  = Ok (map (rent_view is64 (is64 && mips) rela) es).
Proof.
  intros H Hs. unfold iter_relocations, num_relocations.
  rewrite rel_struct_sizeof, encode_table_length by assumption.
  pose proof (rel_entsize_pos is64 (is64 && mips) rela) as Hp.
  replace ((zlen es * rel_entsize is64 (is64 && mips) rela + slack) / rel_entsize is64 (is64 && mips) rela)
    with (zlen es) by nia.
  unfold zlen at 2. rewrite Nat2Z.id.
  apply iter_from_table; [assumption | lia].
Qed.

Theorem num_relocations_exact le is64 mips rela es slack :
  forallb (rent_wf is64 (is64 && mips) rela) es = true ->
  0 <= slack < rel_entsize is64 (is64 && mips) rela ->
  num_relocations (rel_struct le is64 mips rela)
                  (zlen (encode_table le is64 (is64 && mips) rela es) + slack) = zlen es.
Proof.
  intros H Hs. unfold num_relocations.
  rewrite rel_struct_sizeof, encode_table_length by assumption.
  pose proof (rel_entsize_pos is64 (is64 && mips) rela) as Hp. nia.
Qed.

(* random access: get_relocation(n) *)
Theorem get_relocation_exact le is64 mips rela es pre tail n d :
  forallb (rent_wf is64 (is64 && mips) rela) es = true ->
  (n < length es)%nat ->
  get_relocation (rel_struct le is64 mips rela)
                 (pre ++ encode_table le is64 (is64 && mips) rela es ++ tail) (zlen pre) (Z.of_nat n)
  = Ok (rent_view is64 (is64 && mips) rela (nth n es d)).
Proof.
  intros H Hn.
  rewrite <- (firstn_skipn n es) in H |- * at 1.
  rewrite forallb_app in H. apply andb_prop in H. destruct H as [H1 H2].
  destruct (skipn n es) as [|e r] eqn:Er.
  { exfalso. assert (length (skipn n es) = 0%nat) by (rewrite Er; reflexivity).
    rewrite skipn_length in H. lia. }
  assert (Hnth : nth n es d = e).
  { rewrite <- (firstn_skipn n es) at 1. rewrite app_nth2; rewrite firstn_length_le by lia; [|lia].
    rewrite Nat.sub_diag, Er. reflexivity. }
  rewrite Hnth. cbn [forallb] in H2. apply andb_prop in H2. destruct H2 as [He Hr].
  unfold encode_table. rewrite map_app, concat_app. cbn [map concat].
  unfold get_relocation, struct_parse_at. rewrite rel_struct_sizeof.
  set (pre' := (pre ++ concat (map (encode_rent le is64 (is64 && mips) rela) (firstn n es)))%list).
  assert (Hlen : zlen pre + Z.of_nat n * rel_entsize is64 (is64 && mips) rela = zlen pre').
  { unfold pre'. rewrite zlen_app.
    change (concat (map (encode_rent le is64 (is64 && mips) rela) (firstn n es)))
      with (encode_table le is64 (is64 && mips) rela (firstn n es)).
    rewrite encode_table_length by assumption. unfold zlen at 3. rewrite firstn_length_le by lia. lia. }
  rewrite Hlen.
  destruct (Z.ltb_spec (zlen pre') 0) as [Hneg|_]; [pose proof (zlen_nonneg pre'); lia|].
  replace (pre ++ (concat (map (encode_rent le is64 (is64 && mips) rela) (firstn n es)) ++
                   encode_rent le is64 (is64 && mips) rela e ++
                   concat (map (encode_rent le is64 (is64 && mips) rela) r)) ++ tail)%list
    with (pre' ++ encode_rent le is64 (is64 && mips) rela e ++
          (concat (map (encode_rent le is64 (is64 && mips) rela) r) ++ tail))%list
    by (unfold pre'; rewrite <- !app_assoc; reflexivity).
  rewrite zskipn_app, rent_roundtrip by assumption. reflexivity.
Qed.

(* the entry-size assertion of RelocationSection accepts exactly the standard size *)
Theorem reloc_section_check_exact le is64 mips rela entsize :
  reloc_section_check (rel_struct le is64 mips rela) entsize
  = if entsize =? rel_entsize is64 (is64 && mips) rela then Ok tt else Err EElf.
Proof. unfold reloc_section_check. rewrite rel_struct_sizeof. reflexivity. Qed.

(* ------------------------------------------------------------------ B. RELR *)
Lemma filter_none {A} (p : A -> bool) l : (forall x, In x l -> p x = false) -> filter p l = [].
Proof.
  induction l as [|a l IH]; intros H; [reflexivity|].
  cbn [filter]. rewrite (H a) by (left; reflexivity). apply IH. intros x Hx. apply H. right. exact Hx.
Qed.

Lemma filter_map {A B} (f : A -> B) (p : B -> bool) l :
  filter p (map f l) = map f (filter (fun x => p (f x)) l).
Proof.
  induction l as [|a l IH]; [reflexivity|].
  cbn [map filter]. destruct (p (f a)); cbn [map]; rewrite IH; reflexivity.
Qed.

Lemma land1_testbit0 e : negb (Z.land e 1 =? 0) = Z.testbit e 0.
Proof.
  change 1 with (Z.ones 1). rewrite Z.land_ones by lia. change (2 ^ 1) with 2.
  pose proof (Z.bit0_mod e) as H. destruct (Z.testbit e 0); cbn [Z.b2z] in H;
    destruct (Z.eqb_spec (e mod 2) 0) as [E|E]; cbn [negb]; try reflexivity; lia.
Qed.

Lemma land1_even e : (Z.land e 1 =? 0) = Z.even e.
Proof.
  pose proof (land1_testbit0 e) as H. rewrite Z.bit0_odd, <- Z.negb_even in H.
  destruct (Z.land e 1 =? 0), (Z.even e); cbn in H; congruence.
Qed.

(* the addresses a bitmap denotes, seen from loop state (e = w >> i, index i) *)
Definition bm_addrs (f : nat) (e base i entsz : Z) : list Z :=
  map (fun j => base + (i + Z.of_nat j) * entsz)
      (filter (fun j => Z.testbit e (Z.of_nat j + 1)) (seq 0 f)).

Lemma relr_bitmap_spec base entsz : forall f e i,
  0 <= e < 2 ^ Z.of_nat (S f) ->
  relr_bitmap (S f) e base i entsz = Ok (bm_addrs f e base i entsz).
Proof.
  induction f as [|f IH]; intros e i He.
  - cbn [relr_bitmap]. change (2 ^ Z.of_nat 1) with 2 in He.
    rewrite Z.shiftr_div_pow2 by lia. change (2 ^ 1) with 2.
    replace (e / 2) with 0 by lia. reflexivity.
  - remember (S f) as f1 eqn:Ef1. cbn [relr_bitmap].
    assert (He' : 0 <= Z.shiftr e 1 < 2 ^ Z.of_nat f1).
    { rewrite Z.shiftr_div_pow2 by lia. change (2 ^ 1) with 2.
      replace (Z.of_nat (S f1)) with (Z.of_nat f1 + 1) in He by lia.
      rewrite Z.pow_add_r in He by lia. change (2 ^ 1) with 2 in He. lia. }
    assert (Hbit : forall j, Z.testbit e (Z.of_nat j + 1) = Z.testbit (Z.shiftr e 1) (Z.of_nat j)).
    { intros j. rewrite Z.shiftr_spec by lia. reflexivity. }
    destruct (Z.eqb_spec (Z.shiftr e 1) 0) as [Hz|Hnz].
    + unfold bm_addrs. rewrite filter_none; [reflexivity|].
      intros j _. rewrite Hbit, Hz. apply Z.bits_0.
    + subst f1. rewrite IH by exact He'. cbn [bind].
      unfold bm_addrs. cbn [seq filter]. rewrite <- seq_shift, filter_map.
      rewrite land1_testbit0. change (Z.of_nat 0 + 1) with 1.
      replace (Z.testbit e 1) with (Z.testbit (Z.shiftr e 1) 0) by (rewrite Z.shiftr_spec by lia; reflexivity).
      assert (Hrest :
        map (fun j => base + (i + Z.of_nat j) * entsz)
            (map S (filter (fun x => Z.testbit e (Z.of_nat (S x) + 1)) (seq 0 f))) =
        map (fun j => base + (i + 1 + Z.of_nat j) * entsz)
            (filter (fun j => Z.testbit (Z.shiftr e 1) (Z.of_nat j + 1)) (seq 0 f))).
      { rewrite map_map.
        erewrite filter_ext; [apply map_ext|].
        - intros j. cbn beta. f_equal. f_equal. lia.
        - intros j. cbn beta. rewrite (Hbit (S j)). f_equal. lia. }
      destruct (Z.testbit (Z.shiftr e 1) 0); cbn [map]; rewrite Hrest; [|reflexivity].
      f_equal. f_equal. f_equal. lia.
Qed.

Lemma relr_sizeof le is64 : sizeof (gen_Elf_Relr le is64) = wordsize is64.
Proof. destruct le, is64; reflexivity. Qed.

Lemma relr_word_roundtrip le is64 w tail :
  inr 0 (2 ^ wordbits is64) w = true ->
  decode_layout (gen_Elf_Relr le is64) (encode_layout (spec_Elf_Relr le is64) [VZ w] ++ tail)
  = Some ([("r_offset"%string, VZ w)], tail).
Proof.
  intros H. apply inr_iff in H. rewrite gen_Elf_Relr_gabi. rewrite decode_encode_layout.
  - destruct is64; reflexivity.
  - destruct is64; unfold fits_layout, spec_Elf_Relr; layout_cbn; unfold in_urange, wordbits in *;
      norm_consts; lia.
Qed.

Lemma relr_word_length le is64 w :
  zlen (encode_layout (spec_Elf_Relr le is64) [VZ w]) = wordsize is64.
Proof.
  unfold encode_layout, spec_Elf_Relr. cbn [encode_fields encode_kind nvals firstn skipn].
  rewrite app_nil_r. unfold zlen. rewrite int_encode_length. destruct is64; reflexivity.
Qed.

Lemma bm_addrs_bitmap is64 b w :
  bm_addrs (Z.to_nat (wordbits is64 - 1)) w b 0 (wordsize is64) = bitmap_addrs is64 b w.
Proof.
  unfold bm_addrs, bitmap_addrs. apply map_ext. intros j. f_equal.
Qed.

Lemma relr_loop_spec le is64 tail : forall ws pre base,
  relr_words_wf is64 ws = true ->
  relr_loop le is64 (pre ++ encode_relr le is64 ws ++ tail) (length ws) (zlen pre) base
  = relr_spec_go is64 base ws.
Proof.
  induction ws as [|w ws IH]; intros pre base H; [reflexivity|].
  unfold relr_words_wf in H. cbn [forallb] in H. apply andb_prop in H. destruct H as [Hw Hws].
  cbn [length relr_loop relr_spec_go]. unfold struct_parse_at.
  destruct (Z.ltb_spec (zlen pre) 0) as [Hneg|_]; [pose proof (zlen_nonneg pre); lia|].
  unfold encode_relr. cbn [map concat]. rewrite <- app_assoc, zskipn_app.
  rewrite relr_word_roundtrip by exact Hw. cbn [bind]. unfold getf. cbn [rec_get String.eqb Ascii.eqb Bool.eqb bind].
  rewrite relr_sizeof, land1_even.
  change (concat (map (fun w0 => encode_layout (spec_Elf_Relr le is64) [VZ w0]) ws))
    with (encode_relr le is64 ws).
  assert (Hnext : forall b,
    relr_loop le is64 (pre ++ encode_layout (spec_Elf_Relr le is64) [VZ w] ++ encode_relr le is64 ws ++ tail)
              (length ws) (zlen pre + wordsize is64) b = relr_spec_go is64 b ws).
  { intros b. rewrite app_assoc.
    replace (zlen pre + wordsize is64)
      with (zlen (pre ++ encode_layout (spec_Elf_Relr le is64) [VZ w])) by (rewrite zlen_app, relr_word_length; lia).
    apply IH. exact Hws. }
  destruct (Z.even w).
  - rewrite Hnext. reflexivity.
  - destruct base as [b|]; [|reflexivity].
    assert (Hfuel : Z.to_nat (8 * wordsize is64) = S (Z.to_nat (wordbits is64 - 1))) by (destruct is64; reflexivity).
    rewrite Hfuel, relr_bitmap_spec.
    + cbn [bind]. rewrite bm_addrs_bitmap.
      replace ((8 * wordsize is64 - 1) * (if is64 then 8 else 4)) with ((wordbits is64 - 1) * wordsize is64)
        by (destruct is64; reflexivity).
      rewrite Hnext. reflexivity.
    + apply inr_iff in Hw. rewrite <- Hfuel. destruct is64; exact Hw.
Qed.

Lemma encode_relr_length le is64 ws : zlen (encode_relr le is64 ws) = zlen ws * wordsize is64.
Proof.
  unfold encode_relr. induction ws as [|w ws IH]; [reflexivity|].
  cbn [map concat]. rewrite zlen_app, zlen_cons, IH, relr_word_length. lia.
Qed.

(* RelrRelocationTable.iter_relocations = the gABI reading, for EVERY word list *)
Theorem relr_equal le is64 ws pre tail :
  relr_words_wf is64 ws = true ->
  relr_iter_relocations le is64 (pre ++ encode_relr le is64 ws ++ tail)
                        (zlen pre) (zlen (encode_relr le is64 ws)) (wordsize is64)
  = relr_spec is64 ws.
Proof.
  intros H. unfold relr_iter_relocations. rewrite relr_sizeof, Z.eqb_refl. cbn [negb].
  rewrite encode_relr_length.
  assert (Hp : 0 < wordsize is64) by (destruct is64; reflexivity).
  destruct (Z.eqb_spec (zlen ws * wordsize is64) 0) as [Hz|Hnz].
  - destruct ws as [|w ws]; [reflexivity|]. rewrite zlen_cons in Hz. pose proof (zlen_nonneg ws). nia.
  - replace ((zlen ws * wordsize is64 + wordsize is64 - 1) / wordsize is64) with (zlen ws) by nia.
    unfold zlen at 1. rewrite Nat2Z.id. apply relr_loop_spec. exact H.
Qed.

Theorem relr_entsize_checked le is64 img off size entsize :
  entsize <> wordsize is64 -> relr_iter_relocations le is64 img off size entsize = Err EElf.
Proof.
  intros H. unfold relr_iter_relocations. rewrite relr_sizeof.
  destruct (Z.eqb_spec (wordsize is64) entsize); [congruence|reflexivity].
Qed.

(* ------------------------------------------------------------------ C. recipes = psABI, dispatch *)
Definition family_for (em : Z) (rela : bool) : option string :=
  family_of (reloc_dispatch (machine_arch em) rela).

Definition is_width (b : Z) : Prop := b = 1 \/ b = 2 \/ b = 4 \/ b = 8.

(* what a psABI row demands of the regenerated recipe *)
Definition row_ok (em : Z) (rela : bool) (typ : Z) (n : nat) (f : formula) : Prop :=
  exists fam bytesize ha cid calc,
    family_for em rela = Some fam /\
    recipe_of fam typ = Some (bytesize, ha, cid) /\
    gen_calc cid = Some calc /\
    is_width bytesize /\
    (rela = false -> ha = false) /\
    match f with
    | FNone => forall V S P A, calc V S P A = V
    | _ => bytesize = Z.of_nat n /\
           forall V S P A, wrap n (calc V S P (if ha then A else 0))
                           = wrap n (eval_formula f V S P (if rela then A else V))
    end.

Ltac row_arith :=
  intros; cbv beta iota delta - [Z.add Z.sub Z.mul Z.div Z.modulo Z.pow Z.of_nat Z.opp];
  first [reflexivity | f_equal; ring].

Ltac solve_row :=
  unfold row_ok; do 5 eexists;
  split; [vm_compute; reflexivity|];
  split; [vm_compute; reflexivity|];
  split; [cbv beta iota delta [gen_calc String.eqb Ascii.eqb Bool.eqb]; reflexivity|];
  split; [unfold is_width; lia|];
  split; [first [reflexivity | discriminate | (intros _; reflexivity)]|];
  first [(split; [reflexivity | row_arith]) | row_arith].

Theorem calc_matches_psabi : forall em rela typ name n f,
  In (em, rela, typ, name, n, f) psabi_table -> row_ok em rela typ n f.
Proof.
  intros em rela typ name n f H. unfold psabi_table in H.
  repeat (destruct H as [H|H]; [inversion H; subst; clear H; solve_row|]).
  destruct H.
Qed.

Lemma zassoc_In {A} (t : list (Z * A)) k v : zassoc t k = Some v -> In (k, v) t.
Proof.
  induction t as [|[k' v'] t IH]; intros H; [discriminate|].
  cbn [zassoc] in H. destruct (Z.eqb_spec k' k) as [E|E].
  - inversion H; subst. left. reflexivity.
  - right. apply IH. exact H.
Qed.

Lemma in_listed em : In em listed_machines ->
  em = EM_386 \/ em = EM_X86_64 \/ em = EM_ARM \/ em = EM_AARCH64 \/ em = EM_MIPS \/ em = EM_PPC64 \/
  em = EM_S390 \/ em = EM_LOONGARCH.
Proof. unfold listed_machines. cbn [In]. intuition. Qed.

(* machine / flavour dispatch regenerated from the code = the flavour each listed machine uses *)
Theorem dispatch_matches_psabi em rela :
  In em listed_machines ->
  (match family_for em rela with Some _ => true | None => false end) = flavour_ok em rela.
Proof.
  intros H. apply in_listed in H.
  destruct H as [H|[H|[H|[H|[H|[H|[H|H]]]]]]]; subst em; destruct rela; vm_compute; reflexivity.
Qed.

Lemma machine_is_mips em :
  In em listed_machines ->
  (machine_arch em =? "MIPS")%string = (em =? EM_MIPS) /\ is_mips em = (em =? EM_MIPS).
Proof.
  intros H. apply in_listed in H.
  destruct H as [H|[H|[H|[H|[H|[H|[H|H]]]]]]]; subst em; vm_compute; split; reflexivity.
Qed.

(* every recipe the code has for a listed machine is a row of the psABI table (R_ARM_CALL aside) *)
Theorem recipes_within_psabi em rela fam typ r :
  In em listed_machines -> family_for em rela = Some fam -> recipe_of fam typ = Some r ->
  (em = EM_ARM /\ typ = 28) \/ psabi_lookup em rela typ <> None.
Proof.
  intros H Hf Hr. apply in_listed in H.
  destruct H as [H|[H|[H|[H|[H|[H|[H|H]]]]]]]; subst em; destruct rela;
    vm_compute in Hf; try discriminate; inversion Hf; subst fam; clear Hf;
    unfold recipe_of in Hr; cbn [sassoc gen_recipe_families String.eqb Ascii.eqb Bool.eqb] in Hr;
    apply zassoc_In in Hr; vm_compute in Hr;
    repeat (destruct Hr as [Hr|Hr]; [inversion Hr; subst; clear Hr;
                                      first [right; vm_compute; discriminate | left; split; reflexivity]|]);
    destruct Hr.
Qed.

Lemma psabi_find_In t em rela typ n f :
  psabi_find t em rela typ = Some (n, f) -> exists name, In (em, rela, typ, name, n, f) t.
Proof.
  induction t as [|[[[[[m r] ty] nm] n'] f'] t IH]; intros H; [discriminate|].
  cbn [psabi_find] in H.
  destruct ((m =? em) && Bool.eqb r rela && (ty =? typ)) eqn:E.
  - inversion H; subst. apply andb_prop in E. destruct E as [E E3]. apply andb_prop in E. destruct E as [E1 E2].
    apply Z.eqb_eq in E1, E3. apply Bool.eqb_prop in E2. subst. exists nm. left. reflexivity.
  - destruct (IH H) as [name Hin]. exists name. right. exact Hin.
Qed.

(* ------------------------------------------------------------------ D. the apply loop *)
Lemma splice_same : @eq (list Z -> nat -> list Z -> list Z) C08Reloc.splice C08Spec.splice.
Proof. reflexivity. Qed.

Lemma splice_length s off bs :
  (off + length bs <= length s)%nat -> length (C08Spec.splice s off bs) = length s.
Proof.
  intros H. unfold C08Spec.splice. rewrite !app_length, firstn_length_le, skipn_length by lia. lia.
Qed.

Lemma nth_firstn_lt {A} (d : A) : forall n k l, (k < n)%nat -> nth k (firstn n l) d = nth k l d.
Proof.
  induction n as [|n IH]; intros k l H; [lia|].
  destruct l as [|x l]; [destruct k; reflexivity|].
  destruct k as [|k]; [reflexivity|]. cbn [firstn nth]. apply IH. lia.
Qed.

Lemma nth_skipn_add {A} (d : A) : forall a k l, nth k (skipn a l) d = nth (a + k) l d.
Proof.
  induction a as [|a IH]; intros k l; [reflexivity|].
  destruct l as [|x l]; [destruct k; reflexivity|]. cbn [skipn Nat.add nth]. apply IH.
Qed.

Lemma skipn_add {A} (l : list A) : forall a b, skipn (a + b) l = skipn b (skipn a l).
Proof.
  induction l as [|x l IH]; intros a b.
  - rewrite !skipn_nil. reflexivity.
  - destruct a as [|a]; [reflexivity|]. cbn [Nat.add skipn]. apply IH.
Qed.

Lemma splice_self s off n :
  (off + n <= length s)%nat -> C08Spec.splice s off (firstn n (skipn off s)) = s.
Proof.
  intros H. unfold C08Spec.splice. rewrite firstn_length_le by (rewrite skipn_length; lia).
  rewrite <- (firstn_skipn off s) at 4. f_equal.
  rewrite <- (firstn_skipn n (skipn off s)) at 2. f_equal.
  rewrite skipn_add. reflexivity.
Qed.

(* bytes outside [off, off + |bs|) are untouched *)
Lemma splice_outside s off bs i d :
  (off + length bs <= length s)%nat -> (i < off \/ off + length bs <= i)%nat ->
  nth i (C08Spec.splice s off bs) d = nth i s d.
Proof.
  intros H Hi. unfold C08Spec.splice. destruct Hi as [Hi|Hi].
  - rewrite app_nth1 by (rewrite firstn_length_le; lia).
    rewrite <- (firstn_skipn off s) at 2. rewrite app_nth1 by (rewrite firstn_length_le; lia). reflexivity.
  - rewrite app_nth2 by (rewrite firstn_length_le; lia). rewrite firstn_length_le by lia.
    rewrite app_nth2 by lia.
    rewrite <- (firstn_skipn (off + length bs) s) at 2.
    rewrite app_nth2 by (rewrite firstn_length_le; lia). rewrite firstn_length_le by lia.
    f_equal. lia.
Qed.

(* the written field reads back *)
Lemma splice_slice s off bs :
  (off + length bs <= length s)%nat -> slice (C08Spec.splice s off bs) off (length bs) = bs.
Proof.
  intros H. unfold C08Spec.splice.
  pose proof (slice_app_exact (firstn off s) bs (skipn (off + length bs) s)) as E.
  rewrite firstn_length_le in E by lia. exact E.
Qed.

Lemma all_bytes_firstn n l : all_bytes l = true -> all_bytes (firstn n l) = true.
Proof.
  intros H. rewrite <- (firstn_skipn n l), all_bytes_app in H. apply andb_prop in H. tauto.
Qed.
Lemma all_bytes_skipn n l : all_bytes l = true -> all_bytes (skipn n l) = true.
Proof.
  intros H. rewrite <- (firstn_skipn n l), all_bytes_app in H. apply andb_prop in H. tauto.
Qed.

Lemma splice_bytes s off bs :
  all_bytes s = true -> all_bytes bs = true -> all_bytes (C08Spec.splice s off bs) = true.
Proof.
  intros Hs Hb. unfold C08Spec.splice. rewrite !all_bytes_app, Hb, all_bytes_firstn, all_bytes_skipn by assumption.
  reflexivity.
Qed.

Lemma take_ok n (l : list Z) : (n <= length l)%nat -> take n l = Some (firstn n l, skipn n l).
Proof. intros H. rewrite take_unfold. destruct (Nat.leb_spec n (length l)); [reflexivity | lia]. Qed.

(* reading an in-bounds field *)
Lemma read_value_ok le n s off :
  0 <= off -> off + Z.of_nat n <= zlen s -> zlen s < 2 ^ 63 ->
  read_value le n s off = Ok (int_decode le (slice s (Z.to_nat off) n)).
Proof.
  intros H0 H1 H2. unfold read_value.
  destruct (Z.ltb_spec off 0); [lia|]. destruct (Z.leb_spec (2 ^ 63) off); [lia|].
  rewrite zskipn_skipn by lia. rewrite take_ok; [reflexivity|].
  rewrite skipn_length. unfold zlen in *. lia.
Qed.

(* field access on the decoded view of an entry *)
Lemma view_fields is64 m64 rela e :
  let v := rent_view is64 m64 rela e in
  getf v "r_info_sym" = Ok (r_sym e) /\ getf v "r_info_type" = Ok (r_typ e) /\
  getf v "r_offset" = Ok (r_off e) /\ has_field v "r_addend" = rela /\
  (rela = true -> getf v "r_addend" = Ok (r_add e)) /\
  (m64 = true -> getf v "r_type2" = Ok (r_t2 e) /\ getf v "r_type3" = Ok (r_t3 e) /\ getf v "r_ssym" = Ok (r_ssym e)).
Proof.
  destruct m64, rela; cbv - [r_sym r_typ r_off r_add r_t2 r_t3 r_ssym mips64_info r_info_of];
    repeat split; intros; try reflexivity; discriminate.
Qed.

Section apply_one.
Variables (le is64 : bool) (em : Z) (rela : bool) (symvals : list Z) (symval : Z -> res Z).
Hypothesis Hem : In em listed_machines.
Hypothesis Hsymval : forall n, 0 <= n < zlen symvals -> symval n = Ok (nth (Z.to_nat n) symvals 0).
Hypothesis Hsym0 : nth 0 symvals 0 = 0.

Lemma sym_S_nth sym : sym_S symvals sym = nth (Z.to_nat sym) symvals 0.
Proof.
  unfold sym_S. destruct (Z.eqb_spec sym 0) as [E|E]; [|reflexivity]. subst. symmetry. exact Hsym0.
Qed.

Lemma rent_wf_sym_nonneg m64 e : rent_wf is64 m64 rela e = true -> 0 <= r_sym e.
Proof.
  intros H. destruct m64; [|destruct is64]; wf_split H; unfold inr in *; lia.
Qed.

Lemma width_check b : is_width b -> negb ((b =? 4) || (b =? 8) || (b =? 1) || (b =? 2)) = false.
Proof. intros [H|[H|[H|H]]]; subst; reflexivity. Qed.

(* the non-NONE rows: the model writes the psABI value *)
Lemma apply_field_case s e n f bytesize ha (calc : Z -> Z -> Z -> Z -> Z) :
  all_bytes s = true -> zlen s < 2 ^ 63 ->
  0 <= r_off e -> r_off e + Z.of_nat n <= zlen s ->
  bytesize = Z.of_nat n ->
  (rela = false -> ha = false) ->
  (forall V S P A, wrap n (calc V S P (if ha then A else 0)) = wrap n (eval_formula f V S P (if rela then A else V))) ->
  (do original_value <- read_value le (Z.to_nat bytesize) s (r_off e);
   do addend <- (if ha then getf (rent_view is64 (is64 && is_mips em) rela e) "r_addend" else Ok 0);
   Ok (C08Reloc.splice s (Z.to_nat (r_off e))
         (int_encode le (Z.to_nat bytesize)
            (calc original_value (nth (Z.to_nat (r_sym e)) symvals 0) (r_off e) addend mod 2 ^ (bytesize * 8)))))
  = Ok (C08Spec.splice s (Z.to_nat (r_off e))
         (int_encode le n (wrap n (eval_formula f (int_decode le (slice s (Z.to_nat (r_off e)) n))
                                                 (sym_S symvals (r_sym e)) (r_off e)
                                                 (if rela then r_add e
                                                  else int_decode le (slice s (Z.to_nat (r_off e)) n)))))).
Proof.
  intros Hb Hlen H0 H1 Hbs Hha Hcalc. subst bytesize. rewrite Nat2Z.id.
  rewrite read_value_ok by assumption. cbn [bind].
  destruct (view_fields is64 (is64 && is_mips em) rela e) as (_ & _ & _ & _ & Hadd & _).
  assert (Haddend : (if ha then getf (rent_view is64 (is64 && is_mips em) rela e) "r_addend" else Ok 0)
                    = Ok (if ha then r_add e else 0)).
  { destruct ha; [|reflexivity]. apply Hadd. destruct rela; [reflexivity|]. specialize (Hha eq_refl). discriminate. }
  rewrite Haddend. cbn [bind]. rewrite splice_same. f_equal. f_equal. f_equal.
  rewrite sym_S_nth. replace (Z.of_nat n * 8) with (8 * Z.of_nat n) by lia.
  apply Hcalc.
Qed.

Theorem apply_one_refines s e :
  all_bytes s = true -> zlen s < 2 ^ 63 ->
  rent_wf is64 (is64 && is_mips em) rela e = true ->
  apply_entry_wf is64 em rela (zlen s) e = true ->
  do_apply_relocation le is64 em (zlen symvals) symval s (rent_view is64 (is64 && is_mips em) rela e)
  = spec_apply_one le is64 em rela symvals s e.
Proof.
  intros Hb Hlen Hwf Hawf.
  destruct (view_fields is64 (is64 && is_mips em) rela e) as (Vsym & Vtyp & Voff & Vrela & Vadd & Vm).
  cbv zeta in Vsym, Vtyp, Voff, Vrela, Vadd, Vm.
  unfold do_apply_relocation, spec_apply_one.
  rewrite Vsym. cbn [bind].
  pose proof (rent_wf_sym_nonneg _ _ Hwf) as Hs0.
  destruct (Z.leb_spec (zlen symvals) (r_sym e)) as [Hoor|Hin];
    destruct (Z.ltb_spec (r_sym e) (zlen symvals)) as [Hin'|Hoor']; try lia; cbn [negb]; [reflexivity|].
  rewrite Hsymval by lia. cbn [bind]. rewrite Vtyp. cbn [bind]. rewrite Vrela.
  pose proof (dispatch_matches_psabi em rela Hem) as Hdisp. unfold family_for in Hdisp.
  destruct (machine_is_mips em Hem) as [Harch Hmips].
  destruct (family_of (reloc_dispatch (machine_arch em) rela)) as [fam|] eqn:Efam;
    rewrite <- Hdisp; cbn [negb]; [|reflexivity].
  (* the MIPS64 compound check *)
  rewrite Harch. change gen_R_MIPS_64 with 18.
  assert (Hcheck :
    (if (em =? EM_MIPS) && rela && (r_typ e =? 18) && is64
     then do t2 <- getf (rent_view is64 (is64 && is_mips em) rela e) "r_type2";
          do t3 <- getf (rent_view is64 (is64 && is_mips em) rela e) "r_type3";
          do ss <- getf (rent_view is64 (is64 && is_mips em) rela e) "r_ssym";
          if negb (t2 =? 0) || negb (t3 =? 0) || negb (ss =? 0) then Err EReloc else Ok tt
     else Ok tt)
    = if (em =? EM_MIPS) && rela && is64 && (r_typ e =? 18) && mips64_compound e then Err EReloc else Ok tt).
  { destruct (em =? EM_MIPS) eqn:E1, rela eqn:E2, (r_typ e =? 18) eqn:E3, is64 eqn:E4; cbn [andb]; try reflexivity.
    rewrite Hmips in Vm. cbn [andb] in Vm. destruct (Vm eq_refl) as (V2 & V3 & Vs).
    rewrite Hmips. cbn [andb]. rewrite V2, V3, Vs. cbn [bind]. unfold mips64_compound.
    destruct (r_t2 e =? 0), (r_t3 e =? 0), (r_ssym e =? 0); reflexivity. }
  rewrite Hcheck. clear Hcheck.
  destruct ((em =? EM_MIPS) && rela && is64 && (r_typ e =? 18) && mips64_compound e); [reflexivity|]. cbn [bind].
  unfold apply_entry_wf in Hawf. apply andb_prop in Hawf. destruct Hawf as [Hawf Harm].
  apply andb_prop in Hawf. destruct Hawf as [Hfield Hcomp].
  destruct (psabi_lookup em rela (r_typ e)) as [[n f]|] eqn:Elk.
  - destruct (psabi_find_In _ _ _ _ _ _ Elk) as [name Hrowin].
    destruct (calc_matches_psabi _ _ _ _ _ _ Hrowin) as (fam' & bytesize & ha & cid & calc & Hfam & Hrec & Hcalc & Hw & Hha & Hrow).
    unfold family_for in Hfam. rewrite Efam in Hfam. inversion Hfam; subst fam'. clear Hfam.
    rewrite Hrec, (width_check _ Hw), Voff, Hcalc. cbn [bind].
    destruct f.
    + (* R_*_NONE: the bytes read are written back *)
      apply andb_prop in Hfield. destruct Hfield as [Hf0 Hf1].
      assert (Hbw : 0 <= bytesize <= 8) by (destruct Hw as [?|[?|[?|?]]]; lia).
      rewrite read_value_ok by lia. cbn [bind].
      assert (Haddend : exists a, (if ha then getf (rent_view is64 (is64 && is_mips em) rela e) "r_addend" else Ok 0) = Ok a).
      { destruct ha; [|eexists; reflexivity]. exists (r_add e). apply Vadd.
        destruct rela; [reflexivity|]. specialize (Hha eq_refl). discriminate. }
      destruct Haddend as [a Ha]. rewrite Ha. cbn [bind]. rewrite Hrow.
      set (fld := slice s (Z.to_nat (r_off e)) (Z.to_nat bytesize)).
      assert (Hfl : length fld = Z.to_nat bytesize).
      { unfold fld, slice. rewrite firstn_length_le; [reflexivity|]. rewrite skipn_length. unfold zlen in *. lia. }
      assert (Hfb : all_bytes fld = true) by (apply all_bytes_firstn, all_bytes_skipn; exact Hb).
      pose proof (int_decode_bound le fld Hfb) as Hbd. rewrite Hfl in Hbd.
      rewrite Z.mod_small by (replace (bytesize * 8) with (8 * Z.of_nat (Z.to_nat bytesize)) by lia; exact Hbd).
      rewrite <- Hfl at 1. rewrite int_encode_decode by exact Hfb.
      rewrite splice_same. unfold fld, slice. rewrite splice_self; [reflexivity|]. unfold zlen in *. lia.
    + destruct Hrow as [Hbs Hrow]. apply andb_prop in Hfield. destruct Hfield as [Hf0 Hf1].
      rewrite Hf0, Hf1. cbn [andb]. apply apply_field_case; try assumption; lia.
    + destruct Hrow as [Hbs Hrow]. apply andb_prop in Hfield. destruct Hfield as [Hf0 Hf1].
      rewrite Hf0, Hf1. cbn [andb]. apply apply_field_case; try assumption; lia.
    + destruct Hrow as [Hbs Hrow]. apply andb_prop in Hfield. destruct Hfield as [Hf0 Hf1].
      rewrite Hf0, Hf1. cbn [andb]. apply apply_field_case; try assumption; lia.
    + destruct Hrow as [Hbs Hrow]. apply andb_prop in Hfield. destruct Hfield as [Hf0 Hf1].
      rewrite Hf0, Hf1. cbn [andb]. apply apply_field_case; try assumption; lia.
  - destruct (recipe_of fam (r_typ e)) as [r|] eqn:Er; [|reflexivity].
    exfalso. destruct (recipes_within_psabi em rela fam (r_typ e) r Hem Efam Er) as [[E1 E2]|Hne].
    + rewrite E1, E2 in Harm. discriminate.
    + apply Hne. exact Elk.
Qed.
End apply_one.

(* ---------- the reference application: shape, frame, errors ---------- *)
(* a successful step either leaves the section alone (R_*_NONE) or overwrites exactly the n bytes
   of the field with the wrapped psABI value *)
Lemma spec_apply_one_shape le is64 em rela symvals s e s' :
  spec_apply_one le is64 em rela symvals s e = Ok s' ->
  r_sym e < zlen symvals /\ flavour_ok em rela = true /\
  exists n f, psabi_lookup em rela (r_typ e) = Some (n, f) /\
    ((f = FNone /\ s' = s) \/
     (f <> FNone /\ 0 <= r_off e /\ r_off e + Z.of_nat n <= zlen s /\
      s' = C08Spec.splice s (Z.to_nat (r_off e))
             (int_encode le n (wrap n (eval_formula f (int_decode le (slice s (Z.to_nat (r_off e)) n))
                                                     (sym_S symvals (r_sym e)) (r_off e)
                                                     (if rela then r_add e
                                                      else int_decode le (slice s (Z.to_nat (r_off e)) n))))))).
Proof.
  unfold spec_apply_one. intros H.
  destruct (Z.ltb_spec (r_sym e) (zlen symvals)) as [Hs|Hs]; cbn [negb] in H; [|discriminate].
  destruct (flavour_ok em rela); cbn [negb] in H; [|discriminate].
  destruct ((em =? EM_MIPS) && rela && is64 && (r_typ e =? 18) && mips64_compound e); [discriminate|].
  destruct (psabi_lookup em rela (r_typ e)) as [[n f]|]; [|discriminate].
  split; [exact Hs|]. split; [reflexivity|]. exists n, f. split; [reflexivity|].
  destruct f; [left; inversion H; auto | | | |];
    (right; destruct (Z.leb_spec 0 (r_off e)); destruct (Z.leb_spec (r_off e + Z.of_nat n) (zlen s));
     cbn [andb] in H; try discriminate; inversion H; repeat split; try assumption; discriminate).
Qed.

Lemma spec_apply_one_preserves le is64 em rela symvals s e s' :
  all_bytes s = true ->
  spec_apply_one le is64 em rela symvals s e = Ok s' -> zlen s' = zlen s /\ all_bytes s' = true.
Proof.
  intros Hb H. apply spec_apply_one_shape in H.
  destruct H as (_ & _ & n & f & _ & [[_ E]|(_ & H0 & H1 & E)]); subst s'; [auto|].
  split.
  - unfold zlen. rewrite splice_length; [reflexivity|]. rewrite int_encode_length. unfold zlen in H1. lia.
  - apply splice_bytes; [exact Hb | apply int_encode_bytes].
Qed.

(* FRAME for one relocation: same length; every byte outside [r_offset, r_offset+n) unchanged;
   the field decodes, in the file's byte order, to the psABI value wrapped to the field width *)
Theorem apply_one_frame le is64 em rela symvals s e s' :
  spec_apply_one le is64 em rela symvals s e = Ok s' ->
  exists n f, psabi_lookup em rela (r_typ e) = Some (n, f) /\
    length s' = length s /\
    (forall i d, (f = FNone \/ Z.of_nat i < r_off e \/ r_off e + Z.of_nat n <= Z.of_nat i) ->
                 nth i s' d = nth i s d) /\
    (f <> FNone ->
     int_decode le (slice s' (Z.to_nat (r_off e)) n)
     = wrap n (eval_formula f (int_decode le (slice s (Z.to_nat (r_off e)) n))
                            (sym_S symvals (r_sym e)) (r_off e)
                            (if rela then r_add e else int_decode le (slice s (Z.to_nat (r_off e)) n)))).
Proof.
  intros H. apply spec_apply_one_shape in H.
  destruct H as (_ & _ & n & f & Hlk & [[Ef E]|(Hf & H0 & H1 & E)]); exists n, f; (split; [exact Hlk|]); subst s'.
  - split; [reflexivity|]. split; [reflexivity|]. intros Hne. contradiction.
  - set (bs := int_encode le n _).
    assert (Hl : length bs = n) by apply int_encode_length.
    assert (Hfit : (Z.to_nat (r_off e) + length bs <= length s)%nat) by (unfold zlen in H1; lia).
    split; [apply splice_length; exact Hfit|]. split.
    + intros i d [Hc|Hc]; [contradiction|]. apply splice_outside; [exact Hfit | lia].
    + intros _. rewrite <- Hl at 1. rewrite splice_slice by exact Hfit.
      unfold bs. rewrite int_decode_encode. unfold wrap. apply Z.mod_mod. pose proof (pow256_pos n). lia.
Qed.

(* ERRORS of one relocation, exactly: ELFRelocationError iff the symbol index is out of range, the
   flavour is not the machine's, the entry is a compound MIPS64 R_MIPS_64, or the type is not
   supported; otherwise the only other failure is a field that leaves the section *)
Theorem apply_one_errors le is64 em rela symvals s e :
  let reloc_error := negb (r_sym e <? zlen symvals) || negb (flavour_ok em rela) ||
                     ((em =? EM_MIPS) && rela && is64 && (r_typ e =? 18) && mips64_compound e) ||
                     match psabi_lookup em rela (r_typ e) with None => true | Some _ => false end in
  (reloc_error = true -> spec_apply_one le is64 em rela symvals s e = Err EReloc) /\
  (reloc_error = false ->
     (exists s', spec_apply_one le is64 em rela symvals s e = Ok s') \/
     spec_apply_one le is64 em rela symvals s e = Err EParse).
Proof.
  cbv zeta. unfold spec_apply_one.
  destruct (negb (r_sym e <? zlen symvals)); cbn [orb]; [split; [reflexivity|discriminate]|].
  destruct (negb (flavour_ok em rela)); cbn [orb]; [split; [reflexivity|discriminate]|].
  destruct ((em =? EM_MIPS) && rela && is64 && (r_typ e =? 18) && mips64_compound e); cbn [orb];
    [split; [reflexivity|discriminate]|].
  destruct (psabi_lookup em rela (r_typ e)) as [[n f]|]; [|split; [reflexivity|discriminate]].
  split; [discriminate|]. intros _.
  destruct f; [left; eexists; reflexivity | | | |];
    (destruct ((0 <=? r_off e) && (r_off e + Z.of_nat n <=? zlen s)); [left; eexists; reflexivity | right; reflexivity]).
Qed.

(* sequential composition *)
Lemma spec_apply_all_app le is64 em rela symvals : forall es1 es2 s,
  spec_apply_all le is64 em rela symvals s (es1 ++ es2)
  = do s1 <- spec_apply_all le is64 em rela symvals s es1; spec_apply_all le is64 em rela symvals s1 es2.
Proof.
  induction es1 as [|e es1 IH]; intros es2 s; [reflexivity|].
  cbn [app spec_apply_all]. destruct (spec_apply_one le is64 em rela symvals s e) as [s1|er]; cbn [bind]; auto.
Qed.

(* does relocation e write byte i ? *)
Definition touches (em : Z) (rela : bool) (e : rent) (i : Z) : bool :=
  match psabi_lookup em rela (r_typ e) with
  | Some (_, FNone) | None => false
  | Some (n, _) => (r_off e <=? i) && (i <? r_off e + Z.of_nat n)
  end.

(* NOTHING IS SKIPPED and nothing else is touched: a successful run means every entry was a supported
   relocation of the machine's flavour with a valid symbol; the length is unchanged and every byte
   that no entry covers keeps its value *)
Theorem apply_all_frame le is64 em rela symvals : forall es s s',
  spec_apply_all le is64 em rela symvals s es = Ok s' ->
  length s' = length s /\
  (forall e, In e es -> r_sym e < zlen symvals /\ flavour_ok em rela = true /\
                        psabi_lookup em rela (r_typ e) <> None) /\
  (forall i d, forallb (fun e => negb (touches em rela e (Z.of_nat i))) es = true -> nth i s' d = nth i s d).
Proof.
  induction es as [|e es IH]; intros s s' H.
  - inversion H; subst. split; [reflexivity|]. split; [intros e []|]. reflexivity.
  - cbn [spec_apply_all] in H.
    destruct (spec_apply_one le is64 em rela symvals s e) as [s1|er] eqn:E1; cbn [bind] in H; [|discriminate].
    destruct (IH _ _ H) as (Hl & Hall & Hfr).
    pose proof (spec_apply_one_shape _ _ _ _ _ _ _ _ E1) as (Hs & Hfl & n0 & f0 & Hlk0 & _).
    destruct (apply_one_frame _ _ _ _ _ _ _ _ E1) as (n & f & Hlk & Hl1 & Hout & _).
    split; [congruence|]. split.
    + intros e' [He|He]; [subst e'; repeat split; try assumption; congruence | apply Hall; exact He].
    + intros i d Hi. cbn [forallb] in Hi. apply andb_prop in Hi. destruct Hi as [Hi1 Hi2].
      rewrite Hfr by exact Hi2. apply Hout.
      unfold touches in Hi1. rewrite Hlk in Hi1.
      destruct f; [left; reflexivity | | | |]; right; lia.
Qed.

(* the field of entry e holds e's value computed on the state just before e, provided no later
   entry writes into it (overlapping earlier entries are seen through the in-place value) *)
Theorem apply_all_field le is64 em rela symvals es1 e es2 s s' :
  spec_apply_all le is64 em rela symvals s (es1 ++ e :: es2) = Ok s' ->
  exists s1 n f,
    spec_apply_all le is64 em rela symvals s es1 = Ok s1 /\
    psabi_lookup em rela (r_typ e) = Some (n, f) /\
    (f <> FNone ->
     (forall i, r_off e <= Z.of_nat i < r_off e + Z.of_nat n ->
                forallb (fun e' => negb (touches em rela e' (Z.of_nat i))) es2 = true) ->
     int_decode le (slice s' (Z.to_nat (r_off e)) n)
     = wrap n (eval_formula f (int_decode le (slice s1 (Z.to_nat (r_off e)) n))
                            (sym_S symvals (r_sym e)) (r_off e)
                            (if rela then r_add e else int_decode le (slice s1 (Z.to_nat (r_off e)) n)))).
Proof.
  intros H. rewrite spec_apply_all_app in H.
  destruct (spec_apply_all le is64 em rela symvals s es1) as [s1|er]; cbn [bind] in H; [|discriminate].
  cbn [spec_apply_all] in H.
  destruct (spec_apply_one le is64 em rela symvals s1 e) as [s2|er] eqn:E1; cbn [bind] in H; [|discriminate].
  pose proof (spec_apply_one_shape _ _ _ _ _ _ _ _ E1) as (_ & _ & n0 & f0 & Hlk0 & Hshape).
  destruct (apply_one_frame _ _ _ _ _ _ _ _ E1) as (n & f & Hlk & Hl1 & _ & Hfield).
  exists s1, n, f. split; [reflexivity|]. split; [exact Hlk|].
  intros Hne Hlater. rewrite <- (Hfield Hne).
  destruct (apply_all_frame _ _ _ _ _ _ _ _ H) as (Hl2 & _ & Hfr).
  (* the n bytes of the field are the same in s' and s2 *)
  rewrite Hlk in Hlk0. inversion Hlk0; subst n0 f0. clear Hlk0.
  destruct Hshape as [[Ef _]|(_ & H0 & H1 & _)]; [contradiction|].
  f_equal. unfold slice.
  apply nth_ext with (d := 0) (d' := 0).
  - rewrite !firstn_length, !skipn_length. lia.
  - intros k Hk. rewrite firstn_length, skipn_length in Hk.
    rewrite !nth_firstn_lt by lia.
    rewrite !nth_skipn_add. apply Hfr.
    replace (Z.of_nat (Z.to_nat (r_off e) + k)) with (r_off e + Z.of_nat k) by lia.
    specialize (Hlater (Z.to_nat (r_off e) + k)%nat).
    replace (Z.of_nat (Z.to_nat (r_off e) + k)) with (r_off e + Z.of_nat k) in Hlater by lia.
    apply Hlater. lia.
Qed.

(* ---------- the model's loop over an encoded table = the reference application ---------- *)
Section apply_all.
Variables (le is64 : bool) (em : Z) (rela : bool) (symvals : list Z) (symval : Z -> res Z).
Hypothesis Hem : In em listed_machines.
Hypothesis Hsymval : forall n, 0 <= n < zlen symvals -> symval n = Ok (nth (Z.to_nat n) symvals 0).
Hypothesis Hsym0 : nth 0 symvals 0 = 0.

Lemma apply_loop_refines roff tail : forall es pre i s,
  forallb (rent_wf is64 (is64 && is_mips em) rela) es = true ->
  forallb (apply_entry_wf is64 em rela (zlen s)) es = true ->
  all_bytes s = true -> zlen s < 2 ^ 63 ->
  roff + i * rel_entsize is64 (is64 && is_mips em) rela = zlen pre ->
  apply_loop le is64 em (rel_struct le is64 (is_mips em) rela)
             (pre ++ encode_table le is64 (is64 && is_mips em) rela es ++ tail) roff
             (zlen symvals) symval (length es) i s
  = spec_apply_all le is64 em rela symvals s es.
Proof.
  induction es as [|e es IH]; intros pre i s Hwf Hawf Hb Hlen Hoff; [reflexivity|].
  cbn [forallb] in Hwf, Hawf. apply andb_prop in Hwf, Hawf. destruct Hwf as [He Hes]. destruct Hawf as [Hae Haes].
  cbn [length apply_loop spec_apply_all]. unfold get_relocation, struct_parse_at.
  rewrite rel_struct_sizeof, Hoff.
  destruct (Z.ltb_spec (zlen pre) 0) as [Hneg|_]; [pose proof (zlen_nonneg pre); lia|].
  unfold encode_table. cbn [map concat]. rewrite <- app_assoc, zskipn_app.
  rewrite rent_roundtrip by exact He. cbn [bind].
  rewrite (apply_one_refines le is64 em rela symvals symval Hem Hsymval Hsym0) by assumption.
  destruct (spec_apply_one le is64 em rela symvals s e) as [s1|er] eqn:E1; cbn [bind]; [|reflexivity].
  destruct (spec_apply_one_preserves _ _ _ _ _ _ _ _ Hb E1) as [Hl1 Hb1].
  change (concat (map (encode_rent le is64 (is64 && is_mips em) rela) es))
    with (encode_table le is64 (is64 && is_mips em) rela es).
  rewrite app_assoc.
  apply (IH (pre ++ encode_rent le is64 (is64 && is_mips em) rela e) (i + 1) s1); try assumption.
  - rewrite Hl1. exact Haes.
  - rewrite Hl1. exact Hlen.
  - rewrite zlen_app, encode_rent_length by exact He. lia.
Qed.
End apply_all.

(* SymbolTableSection.get_symbol(n)['st_value'] on a symbol table encoded per the gABI *)
Definition encode_symtab (le is64 : bool) (syms : list (Z * Z)) : list Z :=
  List.concat (map (fun p => encode_sym le is64 (fst p) (snd p)) syms).
Definition sym_wf (is64 : bool) (p : Z * Z) : bool :=
  inr 0 (2 ^ 32) (fst p) && inr 0 (2 ^ wordbits is64) (snd p).
Definition sym_entsize (is64 : bool) : Z := if is64 then 24 else 16.

Lemma encode_sym_roundtrip le is64 name value tail :
  sym_wf is64 (name, value) = true ->
  exists r, decode_layout (gen_Elf_Sym le is64) (encode_sym le is64 name value ++ tail) = Some (r, tail) /\
            getf r "st_value" = Ok value.
Proof.
  intros H. unfold sym_wf in H. cbn [fst snd] in H. apply andb_prop in H. destruct H as [H1 H2].
  apply inr_iff in H1, H2.
  rewrite gen_Elf_Sym_gabi. unfold encode_sym. eexists. split.
  - apply decode_encode_layout.
    destruct is64; unfold fits_layout, spec_Elf_Sym, sym_vals_of, st_info_bits, st_other_bits, wordbits in *;
      layout_cbn; cbn [fits_bits bits_total fold_right snd Nat.add Nat.mul Nat.eqb];
      unfold in_urange; norm_consts; lia.
  - destruct is64; cbv - [Z.add Z.mul]; reflexivity.
Qed.

Lemma encode_sym_length le is64 name value : zlen (encode_sym le is64 name value) = sym_entsize is64.
Proof.
  unfold encode_sym, encode_layout, zlen.
  destruct is64; unfold spec_Elf_Sym, sym_vals_of, st_info_bits, st_other_bits;
    cbn [encode_fields encode_kind nvals firstn skipn length];
    rewrite !app_length, !int_encode_length, !be_encode_length; reflexivity.
Qed.

Theorem symtab_value_exact le is64 tail : forall syms pre n d,
  forallb (sym_wf is64) syms = true -> (n < length syms)%nat ->
  symtab_value le is64 (pre ++ encode_symtab le is64 syms ++ tail) (zlen pre) (sym_entsize is64) (Z.of_nat n)
  = Ok (snd (nth n syms d)).
Proof.
  induction syms as [|[nm v] syms IH]; intros pre n d Hwf Hn; [cbn in Hn; lia|].
  cbn [forallb] in Hwf. apply andb_prop in Hwf. destruct Hwf as [Hw Hws].
  unfold encode_symtab. cbn [map concat fst snd]. rewrite <- app_assoc.
  destruct n as [|n].
  - unfold symtab_value, struct_parse_at. replace (zlen pre + Z.of_nat 0 * sym_entsize is64) with (zlen pre) by lia.
    destruct (Z.ltb_spec (zlen pre) 0) as [Hneg|_]; [pose proof (zlen_nonneg pre); lia|].
    rewrite zskipn_app.
    destruct (encode_sym_roundtrip le is64 nm v (concat (map (fun p => encode_sym le is64 (fst p) (snd p)) syms) ++ tail) Hw)
      as (r & Hd & Hv).
    rewrite Hd. cbn [bind nth snd]. exact Hv.
  - cbn [nth]. cbn [length] in Hn.
    specialize (IH (pre ++ encode_sym le is64 nm v) n d Hws ltac:(lia)).
    unfold encode_symtab in IH. rewrite <- app_assoc in IH. rewrite <- IH.
    unfold symtab_value. rewrite zlen_app, encode_sym_length.
    replace (zlen pre + Z.of_nat (S n) * sym_entsize is64)
      with (zlen pre + sym_entsize is64 + Z.of_nat n * sym_entsize is64)
      by (destruct is64; unfold sym_entsize; lia).
    reflexivity.
Qed.

(* RELOCATION DISABLED: the section bytes are returned untouched, whatever the file contains *)
Theorem no_relocation_when_disabled le is64 em img secs section :
  read_dwarf_section le is64 em img secs section false
  = Ok (firstn (Z.to_nat (s_size section)) (zskipn (s_off section) img)).
Proof. reflexivity. Qed.

(* no relocation section for this section: untouched as well *)
Theorem no_relocation_section le is64 em img secs section :
  find_relocations_for_section secs (s_name section) = None ->
  read_dwarf_section le is64 em img secs section true
  = Ok (firstn (Z.to_nat (s_size section)) (zskipn (s_off section) img)).
Proof. intros H. unfold read_dwarf_section. rewrite H. reflexivity. Qed.

(* find_relocations_for_section returns a REL/RELA section with the conventional name, and the first one *)
Theorem find_relocations_sound : forall secs name rs,
  find_relocations_for_section secs name = Some rs ->
  In rs secs /\ (s_type rs = SHT_REL \/ s_type rs = SHT_RELA) /\
  (bytes_eqb (s_name rs) (dot_rel ++ name) = true \/ bytes_eqb (s_name rs) (dot_rela ++ name) = true).
Proof.
  induction secs as [|s secs IH]; intros name rs H; [discriminate|].
  cbn [find_relocations_for_section] in H.
  destruct (((s_type s =? SHT_REL) || (s_type s =? SHT_RELA)) &&
            (bytes_eqb (s_name s) (dot_rel ++ name) || bytes_eqb (s_name s) (dot_rela ++ name))) eqn:E.
  - inversion H; subst. apply andb_prop in E. destruct E as [E1 E2].
    apply orb_prop in E1, E2. split; [left; reflexivity|]. split; [lia | exact E2].
  - destruct (IH _ _ H) as (Hin & Ht & Hn). split; [right; exact Hin | auto].
Qed.

(* the whole path of ELFFile._read_dwarf_section with relocation enabled, on an image that contains
   the section, its relocation table (REL or RELA per the section type) and the linked symbol table *)
(* the structural part: the section, its relocation table and the symbol table located in the image;
   what remains is the apply loop over the encoded table, with S read from the encoded symbols *)
Lemma read_dwarf_to_loop le is64 em img secs section rs symtab (rela : bool) es syms
        pre tail pre2 tail2 :
  find_relocations_for_section secs (s_name section) = Some rs ->
  s_type rs = (if rela then SHT_RELA else SHT_REL) ->
  s_entsize rs = rel_entsize is64 (is64 && is_mips em) rela ->
  nth_error secs (Z.to_nat (s_link rs)) = Some symtab ->
  s_entsize symtab = sym_entsize is64 -> s_size symtab = zlen (encode_symtab le is64 syms) ->
  img = pre ++ encode_table le is64 (is64 && is_mips em) rela es ++ tail ->
  s_off rs = zlen pre -> s_size rs = zlen (encode_table le is64 (is64 && is_mips em) rela es) ->
  img = pre2 ++ encode_symtab le is64 syms ++ tail2 -> s_off symtab = zlen pre2 ->
  forallb (sym_wf is64) syms = true ->
  forallb (rent_wf is64 (is64 && is_mips em) rela) es = true ->
  let data := firstn (Z.to_nat (s_size section)) (zskipn (s_off section) img) in
  read_dwarf_section le is64 em img secs section true
  = apply_loop le is64 em (rel_struct le is64 (is_mips em) rela)
               (pre ++ encode_table le is64 (is64 && is_mips em) rela es ++ tail) (zlen pre)
               (zlen (map snd syms)) (symtab_value le is64 img (zlen pre2) (sym_entsize is64))
               (length es) 0 data
  /\ (forall n, 0 <= n < zlen (map snd syms) ->
       symtab_value le is64 img (zlen pre2) (sym_entsize is64) n = Ok (nth (Z.to_nat n) (map snd syms) 0)).
Proof.
  intros Hfind Htype Hent Hlink Hsent Hssize Himg Hroff Hrsize Himg2 Hsoff Hswf Hwf data.
  split.
  - unfold read_dwarf_section. rewrite Hfind. fold data.
    assert (Hrela : (s_type rs =? SHT_RELA) = rela) by (rewrite Htype; destruct rela; reflexivity).
    rewrite Hrela, reloc_section_check_exact, Hent, Z.eqb_refl. cbn [bind].
    unfold apply_section_relocations. rewrite Hrela, Hlink, Hsent.
    replace (negb (0 <? sym_entsize is64)) with false by (destruct is64; reflexivity).
    assert (Hnsyms : symtab_num (s_size symtab) (sym_entsize is64) = zlen (map snd syms)).
    { unfold symtab_num. rewrite Hssize. unfold encode_symtab.
      assert (Hl : forall l, zlen (concat (map (fun p => encode_sym le is64 (fst p) (snd p)) l)) = zlen l * sym_entsize is64).
      { induction l as [|p l IHl]; [reflexivity|]. cbn [map concat]. rewrite zlen_app, zlen_cons, IHl, encode_sym_length. lia. }
      rewrite Hl. unfold zlen at 2. rewrite map_length. fold (zlen syms).
      assert (0 < sym_entsize is64) by (destruct is64; reflexivity). nia. }
    rewrite Hnsyms.
    assert (Hnum : Z.to_nat (num_relocations (rel_struct le is64 (is_mips em) rela) (s_size rs)) = length es).
    { rewrite Hrsize. replace (zlen (encode_table le is64 (is64 && is_mips em) rela es))
        with (zlen (encode_table le is64 (is64 && is_mips em) rela es) + 0) by lia.
      rewrite num_relocations_exact; [unfold zlen; lia | exact Hwf |].
      pose proof (rel_entsize_pos is64 (is64 && is_mips em) rela). lia. }
    rewrite Hnum, Hroff, Hsoff. rewrite Himg at 1. reflexivity.
  - intros n Hn. rewrite Himg2.
    replace n with (Z.of_nat (Z.to_nat n)) at 1 by lia.
    unfold zlen in Hn. rewrite map_length in Hn.
    rewrite (symtab_value_exact le is64 tail2 syms pre2 (Z.to_nat n) (0, 0)) by (try assumption; lia).
    f_equal. exact (eq_sym (map_nth snd syms (0, 0) (Z.to_nat n))).
Qed.

Theorem read_dwarf_section_exact le is64 em img secs section rs symtab (rela : bool) es syms
        pre tail pre2 tail2 :
  In em listed_machines ->
  find_relocations_for_section secs (s_name section) = Some rs ->
  s_type rs = (if rela then SHT_RELA else SHT_REL) ->
  s_entsize rs = rel_entsize is64 (is64 && is_mips em) rela ->
  nth_error secs (Z.to_nat (s_link rs)) = Some symtab ->
  s_entsize symtab = sym_entsize is64 -> s_size symtab = zlen (encode_symtab le is64 syms) ->
  img = pre ++ encode_table le is64 (is64 && is_mips em) rela es ++ tail ->
  s_off rs = zlen pre -> s_size rs = zlen (encode_table le is64 (is64 && is_mips em) rela es) ->
  img = pre2 ++ encode_symtab le is64 syms ++ tail2 -> s_off symtab = zlen pre2 ->
  forallb (sym_wf is64) syms = true -> snd (nth 0 syms (0, 0)) = 0 ->
  forallb (rent_wf is64 (is64 && is_mips em) rela) es = true ->
  let data := firstn (Z.to_nat (s_size section)) (zskipn (s_off section) img) in
  all_bytes data = true -> zlen data < 2 ^ 63 ->
  forallb (apply_entry_wf is64 em rela (zlen data)) es = true ->
  read_dwarf_section le is64 em img secs section true
  = spec_apply_all le is64 em rela (map snd syms) data es.
Proof.
  intros Hem Hfind Htype Hent Hlink Hsent Hssize Himg Hroff Hrsize Himg2 Hsoff Hswf Hs0 Hwf data Hb Hlen Hawf.
  destruct (read_dwarf_to_loop le is64 em img secs section rs symtab rela es syms pre tail pre2 tail2
              Hfind Htype Hent Hlink Hsent Hssize Himg Hroff Hrsize Himg2 Hsoff Hswf Hwf) as [Hloop Hsv].
  rewrite Hloop.
  apply apply_loop_refines; try assumption.
  - transitivity (snd (nth 0 syms (0, 0))); [exact (map_nth snd syms (0, 0) 0%nat) | exact Hs0].
  - lia.
Qed.

(* ---------- the model itself never skips a relocation (any machine, any input) ---------- *)
Theorem model_never_skips le is64 em nsyms symval s reloc s' :
  do_apply_relocation le is64 em nsyms symval s reloc = Ok s' ->
  exists sym typ fam r,
    getf reloc "r_info_sym" = Ok sym /\ sym < nsyms /\ getf reloc "r_info_type" = Ok typ /\
    family_for em (has_field reloc "r_addend") = Some fam /\ recipe_of fam typ = Some r.
Proof.
  unfold do_apply_relocation, family_for. intros H.
  destruct (getf reloc "r_info_sym") as [sym|] eqn:Es; cbn [bind] in H; [|discriminate].
  destruct (Z.leb_spec nsyms sym) as [Hge|Hlt]; [discriminate|].
  destruct (symval sym) as [sv|]; cbn [bind] in H; [|discriminate].
  destruct (getf reloc "r_info_type") as [typ|] eqn:Et; cbn [bind] in H; [|discriminate].
  destruct (family_of (reloc_dispatch (machine_arch em) (has_field reloc "r_addend"))) as [fam|]; [|discriminate].
  match type of H with (do _ <- ?c; _) = _ => destruct c as [u|]; cbn [bind] in H; [|discriminate] end.
  destruct (recipe_of fam typ) as [r|] eqn:Er; [|discriminate].
  exists sym, typ, fam, r. auto.
Qed.

(* the model's error class for the three rejection causes, on any machine *)
Theorem model_reloc_errors le is64 em nsyms symval s reloc sym :
  getf reloc "r_info_sym" = Ok sym ->
  (nsyms <= sym -> do_apply_relocation le is64 em nsyms symval s reloc = Err EReloc) /\
  (forall sv typ, sym < nsyms -> symval sym = Ok sv -> getf reloc "r_info_type" = Ok typ ->
     family_for em (has_field reloc "r_addend") = None ->
     do_apply_relocation le is64 em nsyms symval s reloc = Err EReloc).
Proof.
  intros Es. unfold do_apply_relocation, family_for. rewrite Es. cbn [bind]. split.
  - intros H. destruct (Z.leb_spec nsyms sym); [reflexivity|lia].
  - intros sv typ H Hsv Ht Hf. destruct (Z.leb_spec nsyms sym); [lia|].
    rewrite Hsv, Ht. cbn [bind]. rewrite Hf. reflexivity.
Qed.

(* ---------- dynamic tables ---------- *)
Lemma first_tag_exact l1 t v l2 :
  forallb (fun p => negb (fst p =? t) && negb (fst p =? 0)) l1 = true ->
  first_tag (l1 ++ (t, v) :: l2) t = Some v.
Proof.
  induction l1 as [|[tg x] l1 IH]; intros H.
  - cbn [app first_tag]. rewrite Z.eqb_refl. reflexivity.
  - cbn [forallb fst] in H. apply andb_prop in H. destruct H as [H1 H2].
    apply andb_prop in H1. destruct H1 as [Ha Hb].
    cbn [app first_tag]. destruct (tg =? t); [discriminate|]. destruct (tg =? 0); [discriminate|].
    apply IH. exact H2.
Qed.

(* tags after the DT_NULL terminator do not exist *)
Lemma first_tag_after_null l1 l2 t :
  t <> 0 -> forallb (fun p => negb (fst p =? t)) l1 = true ->
  first_tag (l1 ++ (0, 0) :: l2) t = None.
Proof.
  intros Ht. induction l1 as [|[tg x] l1 IH]; intros H.
  - cbn [app first_tag]. destruct (Z.eqb_spec 0 t); [congruence|reflexivity].
  - cbn [forallb fst] in H. apply andb_prop in H. destruct H as [H1 H2].
    cbn [app first_tag]. destruct (tg =? t); [discriminate|]. destruct (tg =? 0); [reflexivity|].
    apply IH. exact H2.
Qed.

Lemma address_offset_exact l1 off vaddr filesz l2 addr :
  forallb (fun sg => match sg with (o, v, fz) => negb ((v <=? addr) && (addr + 1 <=? v + fz)) end) l1 = true ->
  vaddr <= addr < vaddr + filesz ->
  address_offset (l1 ++ (off, vaddr, filesz) :: l2) addr = Some (addr - vaddr + off).
Proof.
  induction l1 as [|[[o v] fz] l1 IH]; intros H Hin.
  - cbn [app address_offset]. replace ((vaddr <=? addr) && (addr + 1 <=? vaddr + filesz)) with true by lia.
    reflexivity.
  - cbn [forallb] in H. apply andb_prop in H. destruct H as [H1 H2].
    cbn [app address_offset]. destruct ((v <=? addr) && (addr + 1 <=? v + fz)); [discriminate|].
    apply IH; assumption.
Qed.

Definition opt_tab {A} (o : option Z) (f : Z -> A) : list A :=
  match o with Some p => [f p] | None => [] end.

(* Dynamic.get_relocation_tables: exactly one table per pointer tag present before DT_NULL, at the
   file offset of its address, with the announced size and flavour *)
Theorem dynamic_tables_exact le is64 em tags segs relsz relasz relrsz pltsz pltrel :
  (first_tag tags DT_REL <> None ->
     first_tag tags DT_RELSZ = Some relsz /\
     first_tag tags DT_RELENT = Some (rel_entsize is64 (is64 && is_mips em) false)) ->
  (first_tag tags DT_RELA <> None ->
     first_tag tags DT_RELASZ = Some relasz /\
     first_tag tags DT_RELAENT = Some (rel_entsize is64 (is64 && is_mips em) true)) ->
  (first_tag tags DT_RELR <> None ->
     first_tag tags DT_RELRSZ = Some relrsz /\ first_tag tags DT_RELRENT = Some (wordsize is64)) ->
  (first_tag tags DT_JMPREL <> None ->
     first_tag tags DT_PLTRELSZ = Some pltsz /\ first_tag tags DT_PLTREL = Some pltrel) ->
  get_relocation_tables le is64 em tags segs
  = Ok (opt_tab (first_tag tags DT_REL) (fun p => TRel "REL" (table_offset segs p) relsz false) ++
        opt_tab (first_tag tags DT_RELA) (fun p => TRel "RELA" (table_offset segs p) relasz true) ++
        opt_tab (first_tag tags DT_RELR) (fun p => TRelr (table_offset segs p) relrsz (wordsize is64)) ++
        opt_tab (first_tag tags DT_JMPREL) (fun p => TRel "JMPREL" (table_offset segs p) pltsz (pltrel =? 7))).
Proof.
  intros H1 H2 H3 H4. unfold get_relocation_tables, need.
  destruct (first_tag tags DT_REL) as [p1|].
  - destruct (H1 ltac:(discriminate)) as [E1 E2]. rewrite E1, E2. cbn [bind].
    rewrite rel_struct_sizeof, Z.eqb_refl. cbn [bind opt_tab].
    destruct (first_tag tags DT_RELA) as [p2|].
    + destruct (H2 ltac:(discriminate)) as [E3 E4]. rewrite E3, E4. cbn [bind].
      rewrite rel_struct_sizeof, Z.eqb_refl. cbn [bind opt_tab].
      destruct (first_tag tags DT_RELR) as [p3|].
      * destruct (H3 ltac:(discriminate)) as [E5 E6]. rewrite E5, E6. cbn [bind].
        rewrite relr_sizeof, Z.eqb_refl. cbn [bind opt_tab].
        destruct (first_tag tags DT_JMPREL) as [p4|]; [|reflexivity].
        destruct (H4 ltac:(discriminate)) as [E7 E8]. rewrite E7, E8. reflexivity.
      * cbn [bind opt_tab]. destruct (first_tag tags DT_JMPREL) as [p4|]; [|reflexivity].
        destruct (H4 ltac:(discriminate)) as [E7 E8]. rewrite E7, E8. reflexivity.
    + cbn [bind opt_tab].
      destruct (first_tag tags DT_RELR) as [p3|].
      * destruct (H3 ltac:(discriminate)) as [E5 E6]. rewrite E5, E6. cbn [bind].
        rewrite relr_sizeof, Z.eqb_refl. cbn [bind opt_tab].
        destruct (first_tag tags DT_JMPREL) as [p4|]; [|reflexivity].
        destruct (H4 ltac:(discriminate)) as [E7 E8]. rewrite E7, E8. reflexivity.
      * cbn [bind opt_tab]. destruct (first_tag tags DT_JMPREL) as [p4|]; [|reflexivity].
        destruct (H4 ltac:(discriminate)) as [E7 E8]. rewrite E7, E8. reflexivity.
  - cbn [bind opt_tab].
    destruct (first_tag tags DT_RELA) as [p2|].
    + destruct (H2 ltac:(discriminate)) as [E3 E4]. rewrite E3, E4. cbn [bind].
      rewrite rel_struct_sizeof, Z.eqb_refl. cbn [bind opt_tab].
      destruct (first_tag tags DT_RELR) as [p3|].
      * destruct (H3 ltac:(discriminate)) as [E5 E6]. rewrite E5, E6. cbn [bind].
        rewrite relr_sizeof, Z.eqb_refl. cbn [bind opt_tab].
        destruct (first_tag tags DT_JMPREL) as [p4|]; [|reflexivity].
        destruct (H4 ltac:(discriminate)) as [E7 E8]. rewrite E7, E8. reflexivity.
      * cbn [bind opt_tab]. destruct (first_tag tags DT_JMPREL) as [p4|]; [|reflexivity].
        destruct (H4 ltac:(discriminate)) as [E7 E8]. rewrite E7, E8. reflexivity.
    + cbn [bind opt_tab].
      destruct (first_tag tags DT_RELR) as [p3|].
      * destruct (H3 ltac:(discriminate)) as [E5 E6]. rewrite E5, E6. cbn [bind].
        rewrite relr_sizeof, Z.eqb_refl. cbn [bind opt_tab].
        destruct (first_tag tags DT_JMPREL) as [p4|]; [|reflexivity].
        destruct (H4 ltac:(discriminate)) as [E7 E8]. rewrite E7, E8. reflexivity.
      * cbn [bind opt_tab]. destruct (first_tag tags DT_JMPREL) as [p4|]; [|reflexivity].
        destruct (H4 ltac:(discriminate)) as [E7 E8]. rewrite E7, E8. reflexivity.
Qed.

(* ---------- the table theorems per record type, as stated in Props/C08.v ---------- *)
Theorem rel_roundtrip le is64 es pre tail slack :
  forallb (rent_wf is64 false false) es = true ->
  0 <= slack < rel_entsize is64 false false ->
  iter_relocations (gen_Elf_Rel le is64) (pre ++ encode_table le is64 false false es ++ tail)
                   (zlen pre) (zlen (encode_table le is64 false false es) + slack)
  = Ok (map (rent_view is64 false false) es).
Proof.
  intros H Hs. pose proof (table_roundtrip le is64 false false es pre tail slack) as T.
  rewrite andb_false_r in T. specialize (T H Hs).
  replace (rel_struct le is64 false false) with (gen_Elf_Rel le is64) in T by (destruct is64; reflexivity).
  exact T.
Qed.

Theorem rela_roundtrip le is64 es pre tail slack :
  forallb (rent_wf is64 false true) es = true ->
  0 <= slack < rel_entsize is64 false true ->
  iter_relocations (gen_Elf_Rela le is64) (pre ++ encode_table le is64 false true es ++ tail)
                   (zlen pre) (zlen (encode_table le is64 false true es) + slack)
  = Ok (map (rent_view is64 false true) es).
Proof.
  intros H Hs. pose proof (table_roundtrip le is64 false true es pre tail slack) as T.
  rewrite andb_false_r in T. specialize (T H Hs).
  replace (rel_struct le is64 false true) with (gen_Elf_Rela le is64) in T by (destruct is64; reflexivity).
  exact T.
Qed.

Theorem mips64_split le (rela : bool) es pre tail slack :
  forallb (rent_wf true true rela) es = true ->
  0 <= slack < rel_entsize true true rela ->
  iter_relocations (if rela then gen_Elf_Rela_mips64 le else gen_Elf_Rel_mips64 le)
                   (pre ++ encode_table le true true rela es ++ tail)
                   (zlen pre) (zlen (encode_table le true true rela es) + slack)
  = Ok (map (rent_view true true rela) es).
Proof. exact (table_roundtrip le true true rela es pre tail slack). Qed.

(* every relocation record the code can choose is one of the three above *)
Theorem rel_struct_cases le is64 mips rela :
  rel_struct le is64 mips rela =
  if is64 && mips then (if rela then gen_Elf_Rela_mips64 le else gen_Elf_Rel_mips64 le)
  else (if rela then gen_Elf_Rela le is64 else gen_Elf_Rel le is64).
Proof. reflexivity. Qed.

(* ------------------------------------------------------------------ every section header is looked at *)
(* a file with n >= 1 section headers, its count recorded as the gABI says (incl. the escape for
   n >= 0xff00): iter_sections visits the whole table, so a relocation section is found wherever it is *)
Theorem sections_all_visible e_shoff table :
  e_shoff <> 0 -> 1 <= zlen table ->
  s_size (hd (mkSec [] 0 0 0 0 0) table) = snd (shnum_fields (zlen table)) ->
  iter_sections e_shoff (fst (shnum_fields (zlen table))) table = table.
Proof.
  intros Hoff Hn Hs. unfold iter_sections, num_sections.
  destruct (Z.eqb_spec e_shoff 0) as [E|_]; [contradiction|].
  destruct table as [|s0 r]; [unfold zlen in Hn; cbn in Hn; lia|].
  cbn [hd] in Hs. unfold shnum_fields in *.
  destruct (Z.ltb_spec (zlen (s0 :: r)) SHN_LORESERVE) as [Hlt|Hge]; cbn [fst snd] in *.
  - destruct (Z.eqb_spec (zlen (s0 :: r)) 0) as [E|_]; [lia|].
    rewrite Z.leb_refl. reflexivity.
  - cbn [Z.eqb]. rewrite Hs, Z.leb_refl. reflexivity.
Qed.

Theorem read_dwarf_file_refines le is64 em img e_shoff table section flag :
  e_shoff <> 0 -> 1 <= zlen table ->
  s_size (hd (mkSec [] 0 0 0 0 0) table) = snd (shnum_fields (zlen table)) ->
  read_dwarf_section_file le is64 em img e_shoff (fst (shnum_fields (zlen table))) table section flag
  = read_dwarf_section le is64 em img table section flag.
Proof.
  intros H1 H2 H3. unfold read_dwarf_section_file. rewrite sections_all_visible by assumption. reflexivity.
Qed.

(* ------------------------------------------------------------------ machines outside the supported set *)
(* no row of the psABI table speaks about a machine that is not listed *)
Lemma psabi_unlisted em rela typ : ~ In em listed_machines -> psabi_lookup em rela typ = None.
Proof.
  intros H. unfold psabi_lookup.
  assert (Hrow : forall t, (forall m r ty nm n f, In (m, r, ty, nm, n, f) t -> In m listed_machines) ->
                           psabi_find t em rela typ = None).
  { induction t as [|[[[[[m r] ty] nm] n] f] t IH]; intros Ht; [reflexivity|].
    cbn [psabi_find]. destruct (Z.eqb_spec m em) as [E|_].
    - exfalso. apply H. subst em. apply (Ht m r ty nm n f). left. reflexivity.
    - cbn [andb]. apply IH. intros m' r' ty' nm' n' f' Hin. apply (Ht m' r' ty' nm' n' f'). right. exact Hin. }
  apply Hrow. intros m r ty nm n f Hin.
  unfold psabi_table in Hin. cbn [In] in Hin.
  repeat (destruct Hin as [Hin|Hin]; [inversion Hin; subst; cbv; tauto|]). contradiction.
Qed.

Lemma rent_wf_sym_nonneg' is64 m64 rela e : rent_wf is64 m64 rela e = true -> 0 <= r_sym e.
Proof.
  intros H. destruct m64; [|destruct is64]; wf_split H; unfold inr in *; lia.
Qed.

Section unlisted.
Variables (le is64 : bool) (em : Z) (rela : bool) (symvals : list Z) (symval : Z -> res Z).
Hypothesis Hem : ~ In em listed_machines.
Hypothesis Hfam : family_for em rela = None.          (* the code reaches no recipe table for it *)
Hypothesis Hsymval : forall n, 0 <= n < zlen symvals -> symval n = Ok (nth (Z.to_nat n) symvals 0).

(* one entry: rejected with the relocation error by the code, as the reference demands *)
Lemma apply_one_unlisted s e :
  rent_wf is64 (is64 && is_mips em) rela e = true ->
  do_apply_relocation le is64 em (zlen symvals) symval s (rent_view is64 (is64 && is_mips em) rela e) = Err EReloc
  /\ spec_apply_one le is64 em rela symvals s e = Err EReloc.
Proof.
  intros Hwf.
  destruct (view_fields is64 (is64 && is_mips em) rela e) as (Vsym & Vtyp & Voff & Vrela & Vadd & Vm).
  cbv zeta in Vsym, Vtyp, Vrela.
  split.
  - destruct (model_reloc_errors le is64 em (zlen symvals) symval s _ _ Vsym) as [Hhi Hlo].
    destruct (Z.le_gt_cases (zlen symvals) (r_sym e)) as [Hge|Hlt]; [exact (Hhi Hge)|].
    pose proof (rent_wf_sym_nonneg' _ _ _ _ Hwf) as H0.
    apply (Hlo (nth (Z.to_nat (r_sym e)) symvals 0) (r_typ e)); try assumption.
    + apply Hsymval. lia.
    + rewrite Vrela. exact Hfam.
  - unfold spec_apply_one. rewrite (psabi_unlisted em rela (r_typ e) Hem).
    destruct (negb (r_sym e <? zlen symvals)); [reflexivity|].
    destruct (negb (flavour_ok em rela)); [reflexivity|].
    destruct ((em =? EM_MIPS) && rela && is64 && (r_typ e =? 18) && mips64_compound e); reflexivity.
Qed.

(* the loop over a non-empty encoded table stops at the first entry with the relocation error *)
Lemma apply_loop_unlisted tail e es pre s :
  forallb (rent_wf is64 (is64 && is_mips em) rela) (e :: es) = true ->
  apply_loop le is64 em (rel_struct le is64 (is_mips em) rela)
             (pre ++ encode_table le is64 (is64 && is_mips em) rela (e :: es) ++ tail) (zlen pre)
             (zlen symvals) symval (length (e :: es)) 0 s
  = Err EReloc
  /\ spec_apply_all le is64 em rela symvals s (e :: es) = Err EReloc.
Proof.
  intros Hwf. cbn [forallb] in Hwf. apply andb_prop in Hwf. destruct Hwf as [He _].
  destruct (apply_one_unlisted s e He) as [Hm Hs].
  split.
  - cbn [length apply_loop]. unfold get_relocation, struct_parse_at.
    replace (zlen pre + 0 * sizeof (rel_struct le is64 (is_mips em) rela)) with (zlen pre) by lia.
    destruct (Z.ltb_spec (zlen pre) 0) as [Hneg|_]; [pose proof (zlen_nonneg pre); lia|].
    unfold encode_table. cbn [map concat]. rewrite <- app_assoc, zskipn_app.
    rewrite rent_roundtrip by exact He. cbn [bind]. rewrite Hm. reflexivity.
  - cbn [spec_apply_all]. rewrite Hs. reflexivity.
Qed.
End unlisted.

(* the whole path: a debug section of an object for such a machine, with a non-empty relocation
   table, is REJECTED by get_dwarf_info(relocate_dwarf_sections=True), not handed out unrelocated *)
Theorem read_dwarf_section_unsupported_machine le is64 em img secs section rs symtab (rela : bool) e es syms
        pre tail pre2 tail2 :
  ~ In em listed_machines -> family_for em rela = None ->
  find_relocations_for_section secs (s_name section) = Some rs ->
  s_type rs = (if rela then SHT_RELA else SHT_REL) ->
  s_entsize rs = rel_entsize is64 (is64 && is_mips em) rela ->
  nth_error secs (Z.to_nat (s_link rs)) = Some symtab ->
  s_entsize symtab = sym_entsize is64 -> s_size symtab = zlen (encode_symtab le is64 syms) ->
  img = pre ++ encode_table le is64 (is64 && is_mips em) rela (e :: es) ++ tail ->
  s_off rs = zlen pre -> s_size rs = zlen (encode_table le is64 (is64 && is_mips em) rela (e :: es)) ->
  img = pre2 ++ encode_symtab le is64 syms ++ tail2 -> s_off symtab = zlen pre2 ->
  forallb (sym_wf is64) syms = true ->
  forallb (rent_wf is64 (is64 && is_mips em) rela) (e :: es) = true ->
  read_dwarf_section le is64 em img secs section true = Err EReloc
  /\ spec_apply_all le is64 em rela (map snd syms)
                    (firstn (Z.to_nat (s_size section)) (zskipn (s_off section) img)) (e :: es) = Err EReloc.
Proof.
  intros Hem Hfam Hfind Htype Hent Hlink Hsent Hssize Himg Hroff Hrsize Himg2 Hsoff Hswf Hwf.
  destruct (read_dwarf_to_loop le is64 em img secs section rs symtab rela (e :: es) syms pre tail pre2 tail2
              Hfind Htype Hent Hlink Hsent Hssize Himg Hroff Hrsize Himg2 Hsoff Hswf Hwf) as [Hloop Hsv].
  rewrite Hloop.
  exact (apply_loop_unlisted le is64 em rela (map snd syms) _ Hem Hfam Hsv tail e es pre _ Hwf).
Qed.

(* ------------------------------------------------------------------ S does not depend on the symbol's type *)
(* a symbol table entry with ANY binding, type (STT_FUNC, STT_OBJECT, STT_SECTION, ...), st_other,
   section index and size: what the apply loop takes as S is its st_value, unmodified (no Thumb
   bit stripping, no section-relative adjustment) *)
Definition sym_any_wf (is64 : bool) (name value size sbind styp ol ov shndx : Z) : bool :=
  inr 0 (2 ^ 32) name && inr 0 (2 ^ wordbits is64) value && inr 0 (2 ^ wordbits is64) size &&
  inr 0 16 sbind && inr 0 16 styp && inr 0 8 ol && inr 0 8 ov && inr 0 (2 ^ 16) shndx.

Theorem symbol_value_any_type le is64 name value size sbind styp ol ov shndx pre tail :
  sym_any_wf is64 name value size sbind styp ol ov shndx = true ->
  symtab_value le is64
    (pre ++ encode_layout (spec_Elf_Sym le is64) (sym_vals_of is64 name value size sbind styp ol ov shndx) ++ tail)
    (zlen pre) (sym_entsize is64) 0
  = Ok value.
Proof.
  intros H. unfold sym_any_wf in H. wf_split H.
  repeat match goal with Hx : inr _ _ _ = true |- _ => apply inr_iff in Hx end.
  unfold symtab_value, struct_parse_at.
  replace (zlen pre + 0 * sym_entsize is64) with (zlen pre) by lia.
  destruct (Z.ltb_spec (zlen pre) 0) as [Hneg|_]; [pose proof (zlen_nonneg pre); lia|].
  rewrite zskipn_app, gen_Elf_Sym_gabi, decode_encode_layout.
  - cbn [bind]. destruct is64; cbv - [Z.add Z.mul]; reflexivity.
  - destruct is64; unfold fits_layout, spec_Elf_Sym, sym_vals_of, st_info_bits, st_other_bits, wordbits in *;
      layout_cbn; cbn [fits_bits bits_total fold_right snd Nat.add Nat.mul Nat.eqb];
      unfold in_urange; norm_consts; lia.
Qed.
