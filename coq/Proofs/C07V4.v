(* Proofs/C07V4.v — .debug_loc / .debug_ranges (pre-v5) lists: the model of
   _parse_location_list_from_stream / _parse_range_list_from_stream decodes every well-formed list
   placed anywhere in a section, whatever follows it, to exactly the encoded entries with their
   offsets and lengths. *)
From Coq Require Import String.
From PV Require Import Base.Bytes Base.Outcome Base.Prim Spec.PrimSpec Proofs.PrimProofs
  Model.C07Kinds Model.C07Lists Spec.C07Lists.
From Coq Require Import ZArith List Bool Lia ZifyBool.
Import ListNotations.
Open Scope string_scope.
Open Scope list_scope.
Open Scope Z_scope.

(* ------------------------------------------------------------------ shared small facts *)
(* equalities between results that differ only in integer expressions: congruence on the
   constructors (never on Z operations), then linear arithmetic *)
Ltac congr_step :=
  match goal with
  | |- Ok _ = Ok _ => apply f_equal
  | |- Some _ = Some _ => apply f_equal
  | |- (_ :: _) = (_ :: _) => apply f_equal2
  | |- (_, _) = (_, _) => apply f_equal2
  | |- FInt _ = FInt _ => apply f_equal
  | |- layout_tups ?e ?m _ ?l = layout_tups ?e ?m _ ?l => apply (f_equal (fun p => layout_tups e m p l))
  | |- layout_raw ?e ?m _ ?l = layout_raw ?e ?m _ ?l => apply (f_equal (fun p => layout_raw e m p l))
  end.
Ltac congr_lia := repeat congr_step; try reflexivity; try lia.

Lemma at_pos_app (pre x : list Z) : at_pos (pre ++ x) (zlen pre) = x.
Proof.
  unfold at_pos, zlen. rewrite Nat2Z.id, skipn_app, skipn_all, Nat.sub_diag. reflexivity.
Qed.

Lemma zlen_int_encode le n v : zlen (int_encode le n v) = Z.of_nat n.
Proof. unfold zlen. rewrite int_encode_length. reflexivity. Qed.

Lemma max_addr_all_ones asz : max_addr asz = all_ones asz.
Proof. unfold max_addr, all_ones, addr_bound. rewrite Z.mul_comm. reflexivity. Qed.

Lemma addr_bound_big asz : (0 < asz)%nat -> 256 <= addr_bound asz.
Proof.
  intros H. unfold addr_bound. destruct asz as [|n]; [lia|].
  rewrite pow256. pose proof (pow256_pos n). lia.
Qed.

Lemma in_addr_iff asz a : in_addr asz a = true <-> 0 <= a < 2 ^ (8 * Z.of_nat asz).
Proof. unfold in_addr, addr_bound. lia. Qed.

Lemma uint_addr le asz a t :
  in_addr asz a = true -> uint_decode le asz (int_encode le asz a ++ t) = Some (a, t).
Proof. intros H. apply uint_decode_valid. apply in_addr_iff. exact H. Qed.

Lemma uint_all_ones le asz t :
  (0 < asz)%nat -> uint_decode le asz (int_encode le asz (all_ones asz) ++ t) = Some (all_ones asz, t).
Proof.
  intros H. apply uint_decode_valid. pose proof (addr_bound_big asz H).
  unfold all_ones, addr_bound in *. lia.
Qed.

Lemma uint_zero le asz t : uint_decode le asz (int_encode le asz 0 ++ t) = Some (0, t).
Proof. apply uint_decode_valid. pose proof (pow256_pos asz). lia. Qed.

(* ------------------------------------------------------------------ .debug_loc *)
Lemma parse_loc_v4_valid le asz : (0 < asz)%nat -> forall l fuel pos tail,
  forallb (wf_v4loc asz) l = true -> (length l < fuel)%nat ->
  parse_loc_v4 fuel le asz (concat (map (enc_v4loc le asz) l) ++ enc_v4_end le asz ++ tail) pos
  = Ok (v4loc_meaning le asz pos l).
Proof.
  intros Hasz. pose proof (addr_bound_big asz Hasz) as Hbig.
  induction l as [|x l IH]; intros fuel pos tail Hwf Hfuel.
  - destruct fuel as [|f]; [cbn in Hfuel; lia|].
    unfold enc_v4_end. cbn [map concat app parse_loc_v4].
    rewrite <- !app_assoc, uint_zero, uint_zero. cbn [Z.eqb andb]. reflexivity.
  - destruct fuel as [|f]; [cbn in Hfuel; lia|].
    cbn [forallb] in Hwf. apply andb_prop in Hwf. destruct Hwf as [Hx Hl].
    assert (Hf : (length l < f)%nat) by (cbn [length] in Hfuel; lia).
    cbn [map concat]. rewrite <- !app_assoc.
    unfold v4loc_meaning. cbn [layout_tups]. fold (v4loc_meaning le asz).
    destruct x as [a | b e expr]; cbn [wf_v4loc] in Hx.
    + (* base address selection *)
      cbn [enc_v4loc parse_loc_v4]. rewrite <- !app_assoc.
      rewrite uint_all_ones by exact Hasz. rewrite (uint_addr le asz a) by exact Hx.
      rewrite max_addr_all_ones, Z.eqb_refl.
      replace ((all_ones asz =? 0) && (a =? 0)) with false
        by (unfold all_ones; destruct (Z.eqb_spec (addr_bound asz - 1) 0); [lia | reflexivity]).
      rewrite IH by assumption.
      cbn [bind v4loc_tup]. rewrite !zlen_app, !zlen_int_encode.
      unfold v4loc_meaning, v4rng_meaning. congr_lia.
    + (* location entry *)
      apply andb_prop in Hx. destruct Hx as [Hx Hbytes].
      apply andb_prop in Hx. destruct Hx as [Hx Hlen].
      apply andb_prop in Hx. destruct Hx as [Hx Hnmax].
      apply andb_prop in Hx. destruct Hx as [Hx Hnz].
      apply andb_prop in Hx. destruct Hx as [Hb He].
      cbn [enc_v4loc parse_loc_v4]. rewrite <- !app_assoc.
      rewrite (uint_addr le asz b) by exact Hb. rewrite (uint_addr le asz e) by exact He.
      apply negb_true_iff in Hnz. rewrite Hnz.
      rewrite max_addr_all_ones. apply negb_true_iff in Hnmax. rewrite Hnmax.
      rewrite uint_decode_valid by (pose proof (zlen_nonneg expr); change (2 ^ (8 * Z.of_nat 2)) with 65536; lia).
      unfold zlen at 1. rewrite Nat2Z.id, take_app.
      rewrite IH by assumption.
      cbn [bind v4loc_tup]. rewrite !zlen_app, !zlen_int_encode.
      unfold v4loc_meaning, v4rng_meaning. congr_lia.
Qed.

(* every entry occupies at least one byte: the fuel the model takes is enough *)
Lemma v4loc_list_length le asz l : (0 < asz)%nat ->
  (length l < S (length (enc_v4loc_list le asz l)))%nat.
Proof.
  intros Hasz. unfold enc_v4loc_list. rewrite app_length.
  induction l as [|x l IH]; cbn [map concat length]; [lia|].
  rewrite app_length.
  assert (1 <= length (enc_v4loc le asz x))%nat.
  { destruct x; cbn [enc_v4loc]; rewrite !app_length, !int_encode_length; lia. }
  lia.
Qed.

Theorem v4_loc_roundtrip le asz l pre tail :
  (0 < asz)%nat -> forallb (wf_v4loc asz) l = true ->
  parse_loc_v4 (S (length (pre ++ enc_v4loc_list le asz l ++ tail))) le asz
               (at_pos (pre ++ enc_v4loc_list le asz l ++ tail) (zlen pre)) (zlen pre)
  = Ok (v4loc_meaning le asz (zlen pre) l).
Proof.
  intros Hasz Hwf. rewrite at_pos_app. unfold enc_v4loc_list at 2. rewrite <- app_assoc.
  apply parse_loc_v4_valid; auto.
  pose proof (v4loc_list_length le asz l Hasz). rewrite !app_length. lia.
Qed.

(* ------------------------------------------------------------------ .debug_ranges *)
Lemma parse_rng_v4_valid le asz : (0 < asz)%nat -> forall l fuel pos tail,
  forallb (wf_v4rng asz) l = true -> (length l < fuel)%nat ->
  parse_rng_v4 fuel le asz (concat (map (enc_v4rng le asz) l) ++ enc_v4_end le asz ++ tail) pos
  = Ok (v4rng_meaning le asz pos l).
Proof.
  intros Hasz. pose proof (addr_bound_big asz Hasz) as Hbig.
  induction l as [|x l IH]; intros fuel pos tail Hwf Hfuel.
  - destruct fuel as [|f]; [cbn in Hfuel; lia|].
    unfold enc_v4_end. cbn [map concat app parse_rng_v4].
    rewrite <- !app_assoc, uint_zero, uint_zero. cbn [Z.eqb andb]. reflexivity.
  - destruct fuel as [|f]; [cbn in Hfuel; lia|].
    cbn [forallb] in Hwf. apply andb_prop in Hwf. destruct Hwf as [Hx Hl].
    assert (Hf : (length l < f)%nat) by (cbn [length] in Hfuel; lia).
    cbn [map concat]. rewrite <- !app_assoc.
    unfold v4rng_meaning. cbn [layout_tups]. fold (v4rng_meaning le asz).
    destruct x as [a | b e]; cbn [wf_v4rng] in Hx.
    + cbn [enc_v4rng parse_rng_v4]. rewrite <- !app_assoc.
      rewrite uint_all_ones by exact Hasz. rewrite (uint_addr le asz a) by exact Hx.
      rewrite max_addr_all_ones, Z.eqb_refl.
      replace ((all_ones asz =? 0) && (a =? 0)) with false
        by (unfold all_ones; destruct (Z.eqb_spec (addr_bound asz - 1) 0); [lia | reflexivity]).
      rewrite IH by assumption.
      cbn [bind v4rng_tup]. rewrite !zlen_app, !zlen_int_encode.
      unfold v4loc_meaning, v4rng_meaning. congr_lia.
    + apply andb_prop in Hx. destruct Hx as [Hx Hnmax].
      apply andb_prop in Hx. destruct Hx as [Hx Hnz].
      apply andb_prop in Hx. destruct Hx as [Hb He].
      cbn [enc_v4rng parse_rng_v4]. rewrite <- !app_assoc.
      rewrite (uint_addr le asz b) by exact Hb. rewrite (uint_addr le asz e) by exact He.
      apply negb_true_iff in Hnz. rewrite Hnz.
      rewrite max_addr_all_ones. apply negb_true_iff in Hnmax. rewrite Hnmax.
      rewrite IH by assumption.
      cbn [bind v4rng_tup]. rewrite !zlen_app, !zlen_int_encode.
      unfold v4loc_meaning, v4rng_meaning. congr_lia.
Qed.

Lemma v4rng_list_length le asz l : (0 < asz)%nat ->
  (length l < S (length (enc_v4rng_list le asz l)))%nat.
Proof.
  intros Hasz. unfold enc_v4rng_list. rewrite app_length.
  induction l as [|x l IH]; cbn [map concat length]; [lia|].
  rewrite app_length.
  assert (1 <= length (enc_v4rng le asz x))%nat.
  { destruct x; cbn [enc_v4rng]; rewrite !app_length, !int_encode_length; lia. }
  lia.
Qed.

Theorem v4_rng_roundtrip le asz l pre tail :
  (0 < asz)%nat -> forallb (wf_v4rng asz) l = true ->
  parse_rng_v4 (S (length (pre ++ enc_v4rng_list le asz l ++ tail))) le asz
               (at_pos (pre ++ enc_v4rng_list le asz l ++ tail) (zlen pre)) (zlen pre)
  = Ok (v4rng_meaning le asz (zlen pre) l).
Proof.
  intros Hasz Hwf. rewrite at_pos_app. unfold enc_v4rng_list at 2. rewrite <- app_assoc.
  apply parse_rng_v4_valid; auto.
  pose proof (v4rng_list_length le asz l Hasz). rewrite !app_length. lia.
Qed.
