(* Proofs/FmtProofs.v — ONE generic round-trip theorem for every record layout:
   decoding the encoding of any fitting value list, followed by any tail,
   returns exactly the annotated values and the tail; static layouts have the
   advertised size. *)
From PV Require Import Base.Bytes Base.Fmt.
From Coq Require Import ZifyBool.
Ltac Zify.zify_post_hook ::= Z.to_euclidean_division_equations.

(* ---------- bits ---------- *)
Lemma split_join_rev rparts : forall rvals,
  length rvals = length rparts ->
  Forall2 (fun (p : string * nat) x => 0 <= x < 2 ^ Z.of_nat (snd p)) rparts rvals ->
  split_bits_rev rparts (join_bits_rev rparts rvals) = combine (map fst rparts) (map VZ rvals).
Proof.
  induction rparts as [|[nm w] r IH]; intros rvals Hl HF.
  - destruct rvals; [reflexivity|discriminate].
  - destruct rvals as [|x xs]; [discriminate|].
    inversion HF as [|? ? ? ? Hx HF']; subst. cbn [snd] in Hx.
    cbn [split_bits_rev join_bits_rev map combine fst].
    pose proof (Z.pow_pos_nonneg 2 (Z.of_nat w) ltac:(lia) ltac:(lia)) as Hp.
    set (m := 2 ^ Z.of_nat w) in *.
    replace ((x + m * join_bits_rev r xs) mod m) with x.
    2:{ rewrite (Z.mul_comm m), Z.mod_add by lia. rewrite Z.mod_small; lia. }
    replace ((x + m * join_bits_rev r xs) / m) with (join_bits_rev r xs).
    2:{ rewrite (Z.mul_comm m), Z.div_add by lia. rewrite (Z.div_small x m); lia. }
    rewrite IH; auto.
Qed.

Lemma join_bits_rev_bound rparts : forall rvals,
  Forall2 (fun (p : string * nat) x => 0 <= x < 2 ^ Z.of_nat (snd p)) rparts rvals ->
  0 <= join_bits_rev rparts rvals < 2 ^ Z.of_nat (bits_total (rev rparts)).
Proof.
  induction rparts as [|[nm w] r IH]; intros rvals HF.
  - inversion HF; subst. cbn. lia.
  - inversion HF as [|? ? ? ? Hx HF']; subst. cbn [snd] in Hx.
    cbn [join_bits_rev rev].
    assert (Hbt : bits_total (rev r ++ [(nm, w)]) = (bits_total (rev r) + w)%nat).
    { unfold bits_total. rewrite fold_right_app. cbn [fold_right snd].
      generalize (rev r). intros l. induction l as [|a l IHl]; cbn [fold_right]; lia. }
    rewrite Hbt. specialize (IH _ HF').
    rewrite Nat2Z.inj_add, Z.pow_add_r by lia.
    pose proof (Z.pow_pos_nonneg 2 (Z.of_nat w) ltac:(lia) ltac:(lia)) as Hp.
    nia.
Qed.

Lemma fits_bits_Forall2 parts vs :
  fits_bits parts vs = true ->
  length vs = length parts /\ vs = map VZ (zs_of vs) /\
  Forall2 (fun (p : string * nat) x => 0 <= x < 2 ^ Z.of_nat (snd p)) parts (zs_of vs).
Proof.
  revert vs. induction parts as [|[nm w] ps IH]; intros vs H.
  - destruct vs; [cbn; auto|discriminate].
  - destruct vs as [|[z|?|?] r]; try discriminate.
    cbn [fits_bits] in H. rewrite !andb_true_iff in H. destruct H as [[H1 H2] H3].
    destruct (IH r H3) as (Hl & Hm & HF).
    cbn [length zs_of map]. repeat split.
    + lia.
    + f_equal. exact Hm.
    + constructor; [cbn; lia | exact HF].
Qed.

Lemma Forall2_rev {A B} (P : A -> B -> Prop) l1 l2 :
  Forall2 P l1 l2 -> Forall2 P (rev l1) (rev l2).
Proof.
  induction 1 as [|a b l1 l2 Hab HF IH]; [constructor|].
  cbn [rev]. apply Forall2_app; auto.
Qed.

Lemma combine_app' {A B} (a1 a2 : list A) (b1 b2 : list B) :
  length a1 = length b1 -> combine (a1 ++ a2) (b1 ++ b2) = combine a1 b1 ++ combine a2 b2.
Proof.
  revert b1. induction a1 as [|x a1 IH]; intros b1 Hl.
  - destruct b1; [reflexivity|discriminate].
  - destruct b1 as [|y b1]; [discriminate|]. cbn [app combine]. cbn [length] in Hl.
    rewrite IH by lia. reflexivity.
Qed.

Lemma combine_rev {A B} (l1 : list A) (l2 : list B) :
  length l1 = length l2 -> rev (combine l1 l2) = combine (rev l1) (rev l2).
Proof.
  revert l2. induction l1 as [|a l1 IH]; intros l2 Hl.
  - destruct l2; [reflexivity|discriminate].
  - destruct l2 as [|b l2]; [discriminate|]. cbn [combine rev].
    cbn [length] in Hl. rewrite IH by lia.
    rewrite combine_app' by (rewrite !rev_length; lia). reflexivity.
Qed.

Lemma split_join parts vs nb :
  fits_bits parts vs = true -> bits_total parts = (8 * nb)%nat ->
  split_bits parts (be_decode (be_encode nb (join_bits parts (zs_of vs)))) =
  combine (map fst parts) vs.
Proof.
  intros Hf Hb. destruct (fits_bits_Forall2 parts vs Hf) as (Hl & Hm & HF).
  unfold be_decode, be_encode. rewrite rev_involutive, le_decode_encode.
  unfold split_bits, join_bits.
  pose proof (join_bits_rev_bound (rev parts) (rev (zs_of vs)) (Forall2_rev _ _ _ HF)) as Hbd.
  rewrite rev_involutive, Hb in Hbd.
  replace (Z.of_nat (8 * nb)) with (8 * Z.of_nat nb) in Hbd by lia.
  rewrite Z.mod_small by exact Hbd.
  rewrite split_join_rev.
  - rewrite !map_rev. rewrite <- combine_rev.
    + rewrite rev_involutive. rewrite <- Hm. reflexivity.
    + rewrite !map_length. unfold zs_of. rewrite map_length. lia.
  - rewrite !rev_length. unfold zs_of. rewrite map_length. exact Hl.
  - apply Forall2_rev. exact HF.
Qed.

(* ---------- arrays ---------- *)
Lemma decode_encode_arr le n zs tail :
  forallb (in_urange n) zs = true ->
  decode_arr le n (length zs) (encode_arr le n zs ++ tail) = Some (zs, tail).
Proof.
  unfold encode_arr. induction zs as [|z zs IH]; intros H; [reflexivity|].
  cbn [forallb] in H. apply andb_prop in H. destruct H as [Hz Hzs].
  cbn [length decode_arr map concat]. rewrite <- app_assoc.
  rewrite <- (int_encode_length le n z) at 1. rewrite take_app.
  rewrite IH by exact Hzs.
  rewrite int_decode_encode_u; [reflexivity|]. unfold in_urange in Hz. lia.
Qed.

(* ---------- one field ---------- *)
Lemma decode_encode_kind nm k e vs tail :
  length vs = nvals k -> fits_kind k e vs = true ->
  decode_kind nm k e (encode_kind k vs ++ tail) = Some (annot_kind nm k e vs, tail).
Proof.
  intros Hl Hf. destruct k as [le n|le n|n|n|nb parts|c le n|x]; cbn [nvals] in Hl.
  - destruct vs as [|[z|?|?] [|? ?]]; try discriminate. cbn [fits_kind] in Hf.
    cbn [decode_kind encode_kind annot_kind].
    rewrite <- (int_encode_length le n z) at 1. rewrite take_app.
    rewrite int_decode_encode_u; [reflexivity|]. unfold in_urange in Hf. lia.
  - destruct vs as [|[z|?|?] [|? ?]]; try discriminate. cbn [fits_kind] in Hf.
    cbn [decode_kind encode_kind annot_kind].
    rewrite <- (int_encode_length le n z) at 1. rewrite take_app.
    apply andb_prop in Hf. destruct Hf as [Hn Hr].
    rewrite sint_decode_encode; [reflexivity| lia | unfold in_srange in Hr; lia].
  - destruct vs as [|[?|a|?] [|? ?]]; try discriminate. cbn [fits_kind] in Hf.
    apply andb_prop in Hf. destruct Hf as [Hn Hb]. apply Nat.eqb_eq in Hn. subst n.
    cbn [decode_kind encode_kind annot_kind]. rewrite take_app. reflexivity.
  - destruct vs as [|[?|a|?] [|? ?]]; try discriminate. cbn [fits_kind] in Hf.
    apply andb_prop in Hf. destruct Hf as [Hn Hb]. apply Nat.eqb_eq in Hn. subst n.
    cbn [decode_kind encode_kind annot_kind]. rewrite take_app. reflexivity.
  - cbn [fits_kind] in Hf. apply andb_prop in Hf. destruct Hf as [Hfb Ht].
    apply Nat.eqb_eq in Ht.
    cbn [decode_kind encode_kind annot_kind].
    rewrite <- (be_encode_length nb (join_bits parts (zs_of vs))) at 1. rewrite take_app.
    rewrite split_join by assumption. reflexivity.
  - destruct vs as [|[?|?|zs] [|? ?]]; try discriminate. cbn [fits_kind] in Hf.
    apply andb_prop in Hf. destruct Hf as [Hc Hr].
    cbn [decode_kind encode_kind annot_kind].
    replace (Z.to_nat (eval e c)) with (length zs) by (unfold zlen in Hc; lia).
    rewrite decode_encode_arr by exact Hr. reflexivity.
  - destruct vs; [|discriminate]. reflexivity.
Qed.

(* ---------- whole layouts ---------- *)
Theorem decode_encode_fields L : forall e vals tail,
  fits_fields L e vals = true ->
  decode_fields L e (encode_fields L vals ++ tail) = Some (annot_fields L e vals, tail).
Proof.
  induction L as [|[nm k] L IH]; intros e vals tail Hf.
  - reflexivity.
  - cbn [fits_fields] in Hf. rewrite !andb_true_iff in Hf. destruct Hf as [[Hl Hk] Hr].
    apply Nat.eqb_eq in Hl.
    cbn [decode_fields encode_fields annot_fields]. rewrite <- app_assoc.
    rewrite decode_encode_kind by assumption.
    rewrite IH by exact Hr. reflexivity.
Qed.

Theorem decode_encode_layout L vals tail :
  fits_layout L vals = true ->
  decode_layout L (encode_layout L vals ++ tail) = Some (annot_layout L vals, tail).
Proof. apply decode_encode_fields. Qed.

(* a record placed anywhere in an image is decoded from its offset *)
Theorem decode_layout_at L vals pre tail :
  fits_layout L vals = true ->
  decode_layout L (skipn (length pre) (pre ++ encode_layout L vals ++ tail))
  = Some (annot_layout L vals, tail).
Proof.
  intros H. rewrite skipn_app, skipn_all, Nat.sub_diag. cbn [skipn app].
  apply decode_encode_layout. exact H.
Qed.

Lemma encode_kind_length k e vs sz :
  length vs = nvals k -> fits_kind k e vs = true -> kind_size k = Some sz ->
  length (encode_kind k vs) = sz.
Proof.
  intros Hl Hf Hs. destruct k as [le n|le n|n|n|nb parts|c le n|x]; cbn [kind_size] in Hs;
    inversion Hs; subst; cbn [nvals] in Hl.
  - destruct vs as [|[z|?|?] [|? ?]]; try discriminate. apply int_encode_length.
  - destruct vs as [|[z|?|?] [|? ?]]; try discriminate. apply int_encode_length.
  - destruct vs as [|[?|a|?] [|? ?]]; try discriminate. cbn [fits_kind] in Hf.
    apply andb_prop in Hf. destruct Hf as [Hn _]. apply Nat.eqb_eq in Hn. exact Hn.
  - destruct vs as [|[?|a|?] [|? ?]]; try discriminate. cbn [fits_kind] in Hf.
    apply andb_prop in Hf. destruct Hf as [Hn _]. apply Nat.eqb_eq in Hn. exact Hn.
  - cbn [encode_kind]. apply be_encode_length.
  - destruct vs; [reflexivity|discriminate].
Qed.

Theorem encode_fields_length L : forall e vals sz,
  fits_fields L e vals = true -> layout_size L = Some sz ->
  length (encode_fields L vals) = sz.
Proof.
  induction L as [|[nm k] L IH]; intros e vals sz Hf Hs.
  - cbn in Hs. inversion Hs. reflexivity.
  - cbn [fits_fields] in Hf. rewrite !andb_true_iff in Hf. destruct Hf as [[Hl Hk] Hr].
    apply Nat.eqb_eq in Hl. cbn [layout_size] in Hs.
    destruct (kind_size k) as [a|] eqn:Ek; [|discriminate].
    destruct (layout_size L) as [b|] eqn:El; [|discriminate].
    inversion Hs; subst. cbn [encode_fields]. rewrite app_length.
    rewrite (encode_kind_length k e _ a Hl Hk Ek).
    rewrite (IH _ _ b Hr eq_refl). reflexivity.
Qed.

(* truncation: a static layout fails on any input shorter than its size *)
Lemma decode_kind_short nm k e bs sz :
  kind_size k = Some sz -> (length bs < sz)%nat -> decode_kind nm k e bs = None.
Proof.
  intros Hs Hl. destruct k as [le n|le n|n|n|nb parts|c le n|x]; cbn [kind_size] in Hs;
    inversion Hs; subst; cbn [decode_kind]; try (rewrite take_short by lia; reflexivity).
  lia.
Qed.

Lemma decode_kind_consumes nm k e bs es t sz :
  kind_size k = Some sz -> decode_kind nm k e bs = Some (es, t) -> length bs = (sz + length t)%nat.
Proof.
  intros Hs Hd. destruct k as [le n|le n|n|n|nb parts|c le n|x]; cbn [kind_size] in Hs;
    inversion Hs; subst; cbn [decode_kind] in Hd;
    try (match type of Hd with
         | context [take ?n ?bs] => destruct (take n bs) as [[a r]|] eqn:Et; [|discriminate];
             inversion Hd; subst; apply take_some in Et; destruct Et as [-> Hla];
             rewrite app_length; lia
         end).
  inversion Hd; subst. lia.
Qed.

Theorem decode_fields_short L : forall e bs sz,
  layout_size L = Some sz -> (length bs < sz)%nat -> decode_fields L e bs = None.
Proof.
  induction L as [|[nm k] L IH]; intros e bs sz Hs Hl.
  - cbn in Hs. inversion Hs. lia.
  - cbn [layout_size] in Hs.
    destruct (kind_size k) as [a|] eqn:Ek; [|discriminate].
    destruct (layout_size L) as [b|] eqn:El; [|discriminate].
    inversion Hs; subst. cbn [decode_fields].
    destruct (decode_kind nm k e bs) as [[es r]|] eqn:Ed; [|reflexivity].
    pose proof (decode_kind_consumes _ _ _ _ _ _ _ Ek Ed) as Hc.
    rewrite (IH _ r b eq_refl) by lia. reflexivity.
Qed.
