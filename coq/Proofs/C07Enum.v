(* Proofs/C07Enum.v — enumeration driven by the debugging entries: the offsets collected from the
   DIEs, de-duplicated and sorted, are exactly the first bytes of the referenced lists in section
   order; RangeLists.iter_range_lists and the pre-v5 branch of LocationLists.iter_location_lists
   visit those lists, each once, in that order. *)
From Coq Require Import String.
From PV Require Import Base.Bytes Base.Outcome Base.Prim Base.PyData Model.C07Kinds Model.C07Lists
  Spec.C07Lists Spec.C07Sections.
From Coq Require Import ZArith List Bool Lia ZifyBool Permutation.
Import ListNotations.
Open Scope string_scope.
Open Scope list_scope.
Open Scope Z_scope.

Lemma Zeqb_eq : forall a b : Z, (a =? b) = true <-> a = b.
Proof. intros a b. apply Z.eqb_eq. Qed.

(* ------------------------------------------------------------------ dedup *)
Lemma dedup_in (l : list Z) x : In x (dedup Z.eqb l) <-> In x l.
Proof.
  induction l as [|y r IH]; cbn [dedup In]; [tauto|].
  rewrite filter_In, IH. split.
  - intros [H|[H _]]; auto.
  - intros [H|H]; auto. destruct (Z.eq_dec y x) as [E|E]; auto.
    right. split; auto. apply negb_true_iff. apply Z.eqb_neq. auto.
Qed.

Lemma dedup_nodup (l : list Z) : NoDup (dedup Z.eqb l).
Proof.
  induction l as [|y r IH]; cbn [dedup]; constructor.
  - rewrite filter_In. intros [_ H]. rewrite Z.eqb_refl in H. discriminate.
  - apply NoDup_filter. exact IH.
Qed.

(* ------------------------------------------------------------------ strictly increasing lists *)
Fixpoint incr (l : list Z) : Prop :=
  match l with
  | [] => True
  | x :: r => (forall y, In y r -> x < y) /\ incr r
  end.

Lemma incr_unique : forall a b, incr a -> incr b -> (forall x, In x a <-> In x b) -> a = b.
Proof.
  induction a as [|x a IH]; intros b Ha Hb Hab.
  - destruct b as [|y b]; [reflexivity|]. exfalso. apply (proj2 (Hab y)). cbn. auto.
  - destruct b as [|y b]; [exfalso; apply (proj1 (Hab x)); cbn; auto|].
    cbn [incr] in Ha, Hb. destruct Ha as [Hx Ha], Hb as [Hy Hb].
    assert (x = y).
    { destruct (proj1 (Hab x) (or_introl eq_refl)) as [E|Hin]; [auto|].
      destruct (proj2 (Hab y) (or_introl eq_refl)) as [E|Hin']; [auto|].
      specialize (Hy x Hin). specialize (Hx y Hin'). lia. }
    subst y. f_equal. apply IH; auto.
    intros z. split; intros Hz.
    + destruct (proj1 (Hab z) (or_intror Hz)) as [E|H]; [|exact H].
      subst z. specialize (Hx x Hz). lia.
    + destruct (proj2 (Hab z) (or_intror Hz)) as [E|H]; [|exact H].
      subst z. specialize (Hy x Hz). lia.
Qed.

Lemma sorted_nodup_incr : forall l, sorted l -> NoDup l -> incr l.
Proof.
  induction l as [|x r IH]; intros Hs Hn; cbn [incr]; [exact I|].
  cbn [sorted] in Hs. destruct Hs as [Hx Hr]. inversion Hn as [|? ? Hnin Hnr]; subst.
  split; [|apply IH; auto].
  intros y Hy. specialize (Hx y Hy). assert (x <> y) by (intros ->; contradiction). lia.
Qed.

Lemma sorted_offsets_incr (l : list Z) :
  incr (sorted_by (fun x => x) (dedup Z.eqb l))
  /\ forall x, In x (sorted_by (fun x => x) (dedup Z.eqb l)) <-> In x l.
Proof.
  split.
  - apply sorted_nodup_incr.
    + pose proof (sorted_by_sorted (fun x : Z => x) (dedup Z.eqb l)) as H. rewrite map_id in H. exact H.
    + eapply Permutation_NoDup; [apply Permutation_sym; apply sorted_by_perm | apply dedup_nodup].
  - intros x. rewrite sorted_by_in. apply dedup_in.
Qed.

Lemma incr_filter (p : Z -> bool) : forall l, incr l -> incr (filter p l).
Proof.
  induction l as [|x r IH]; intros H; cbn [filter]; [exact I|].
  cbn [incr] in H. destruct H as [Hx Hr]. destruct (p x); [|apply IH; exact Hr].
  cbn [incr]. split; [|apply IH; exact Hr].
  intros y Hy. apply filter_In in Hy. apply Hx. tauto.
Qed.

(* ------------------------------------------------------------------ expected items *)
Definition ex_item := (Z * Z * list tup)%type.
Definition ex_start (e : ex_item) : Z := fst (fst e).

Lemma map_filter_start (refs : list Z) (ex : list ex_item) :
  map ex_start (filter (fun e => existsb (Z.eqb (ex_start e)) refs) ex)
  = filter (fun o => existsb (Z.eqb o) refs) (map ex_start ex).
Proof.
  induction ex as [|e r IH]; cbn [filter map]; [reflexivity|].
  destruct (existsb (Z.eqb (ex_start e)) refs); cbn [map]; rewrite IH; reflexivity.
Qed.

Lemma existsb_Zeqb o refs : existsb (Z.eqb o) refs = true <-> In o refs.
Proof.
  rewrite existsb_exists. split.
  - intros (x & Hx & E). apply Z.eqb_eq in E. subst. exact Hx.
  - intros H. exists o. split; auto. apply Z.eqb_refl.
Qed.

(* the offsets the code visits = the starts of the referenced items, in section order *)
Lemma visited_offsets (refs : list Z) (ex : list ex_item) :
  incr (map ex_start ex) -> (forall o, In o refs -> In o (map ex_start ex)) ->
  sorted_by (fun x => x) (dedup Z.eqb refs)
  = map ex_start (filter (fun e => existsb (Z.eqb (ex_start e)) refs) ex).
Proof.
  intros Hincr Hsub. destruct (sorted_offsets_incr refs) as [Hi Hin].
  apply incr_unique; auto.
  - rewrite map_filter_start. apply incr_filter. exact Hincr.
  - intros x. rewrite Hin, map_filter_start, filter_In, existsb_Zeqb. split; [|tauto].
    intros H. split; auto.
Qed.

Lemma incr_nodup : forall l, incr l -> NoDup l.
Proof.
  induction l as [|x r IH]; intros H; constructor; cbn [incr] in H; destruct H as [Hx Hr].
  - intros Hin. specialize (Hx x Hin). lia.
  - apply IH. exact Hr.
Qed.

Lemma start_determines (ex : list ex_item) e1 e2 :
  incr (map ex_start ex) -> In e1 ex -> In e2 ex -> ex_start e1 = ex_start e2 -> e1 = e2.
Proof.
  induction ex as [|e r IH]; intros Hincr H1 H2 E; [destruct H1|].
  cbn [map incr] in Hincr. destruct Hincr as [He Hr].
  destruct H1 as [<-|H1], H2 as [<-|H2]; auto.
  - specialize (He (ex_start e2) (in_map ex_start _ _ H2)). lia.
  - specialize (He (ex_start e1) (in_map ex_start _ _ H1)). lia.
Qed.

(* fetching every visited offset gives the items' meanings *)
Lemma mapM_items {B} (f : Z -> res B) (g : ex_item -> B) (ex fl : list ex_item) :
  (forall e, In e fl -> f (ex_start e) = Ok (g e)) ->
  mapM f (map ex_start fl) = Ok (map g fl).
Proof.
  induction fl as [|e r IH]; intros H; cbn [map mapM]; [reflexivity|].
  rewrite H by (cbn; auto). cbn [bind]. rewrite IH by (intros e' He'; apply H; cbn; auto). reflexivity.
Qed.

(* ------------------------------------------------------------------ dict_of_list lookups *)
Lemma dict_get_in {V} (d : list (Z * V)) k v : PyData.dict_get Z.eqb d k = Some v -> In (k, v) d.
Proof.
  induction d as [|[k' v'] r IH]; cbn [PyData.dict_get]; [discriminate|].
  destruct (Z.eqb_spec k k') as [->|Hne].
  - intros E. inversion E. cbn. auto.
  - intros E. right. apply IH. exact E.
Qed.

Lemma dict_get_some {V} (d : list (Z * V)) k : In k (map fst d) -> exists v, PyData.dict_get Z.eqb d k = Some v.
Proof.
  induction d as [|[k' v'] r IH]; cbn [map In fst PyData.dict_get]; [tauto|].
  intros [->|H].
  - rewrite Z.eqb_refl. eauto.
  - destruct (k =? k'); eauto.
Qed.

Lemma cu_map_lookup {V} (refs : list (Z * V)) o :
  In o (map fst refs) ->
  exists v, PyData.dict_get Z.eqb (dict_of_list Z.eqb refs) o = Some v /\ In (o, v) refs.
Proof.
  intros H. rewrite (dict_of_list_get Z.eqb Zeqb_eq). unfold assoc_last.
  destruct (dict_get_some (rev refs) o) as (v & Hv).
  { rewrite map_rev. apply in_rev. rewrite rev_involutive. exact H. }
  exists v. split; auto. apply dict_get_in in Hv. apply in_rev. exact Hv.
Qed.

(* ------------------------------------------------------------------ RangeLists.iter_range_lists *)
(* enumeration_exact for range lists: refs = the (offset, unit) pairs the DIEs of the units of the
   section's generation carry in DW_AT_ranges; ex = the lists of the section in section order; every
   referenced offset is the first byte of one of them and decodes to it (round-trip theorems).
   Then the enumeration yields exactly the referenced lists, each once, in section order. *)
Theorem iter_range_lists_exact T S version stream cus refs (ex : list ex_item) :
  range_refs S (5 <=? version) cus = Ok refs ->
  incr (map ex_start ex) ->
  (forall o cv, In (o, cv) refs ->
     exists e, In e ex /\ ex_start e = o /\
               get_range_list_at_offset T S version stream o (Some (cuinfo_of cv)) = Ok (snd e)) ->
  iter_range_lists T S version stream cus = Ok (enum_expected (map fst refs) ex).
Proof.
  intros Hrefs Hincr Hget. unfold iter_range_lists, range_cu_map. rewrite Hrefs. cbn [bind].
  rewrite (dict_of_list_keys Z.eqb Zeqb_eq).
  assert (Hsub : forall o, In o (map fst refs) -> In o (map ex_start ex)).
  { intros o Ho. apply in_map_iff in Ho. destruct Ho as ([o' cv] & <- & Hin).
    destruct (Hget o' cv Hin) as (e & He & Hs & _). cbn [fst]. rewrite <- Hs. apply in_map. exact He. }
  rewrite (visited_offsets (map fst refs) ex Hincr Hsub).
  unfold enum_expected. fold ex_start.
  apply (mapM_items _ (fun e : ex_item => snd e) ex).
  intros e He. apply filter_In in He. destruct He as [Hex Href].
  apply existsb_Zeqb in Href.
  destruct (cu_map_lookup refs (ex_start e) Href) as (cv & Hcv & Hin).
  rewrite Hcv. cbn [option_map].
  destruct (Hget _ cv Hin) as (e' & He' & Hs & Hg).
  rewrite Hg. f_equal. f_equal. apply (start_determines ex); auto.
Qed.
