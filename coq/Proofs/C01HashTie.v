(* Proofs/C01HashTie.v — the wide SysV hash layout and the (machine, class) pairs that use it, written by hand
   in Spec/C01Obs.v, are what tools/gen/gen_c09.py tabulates from the live ELFStructs objects for every machine
   name x class x byte order (Gen/C09Hash.v): the hand copy is tied to the code by translation. *)
From Coq Require Import String List Bool.
From PV Require Import Base.Fmt Spec.C01Obs Gen.C09Hash.
Import ListNotations.
Open Scope string_scope.

Lemma Elf_Hash_wide_translated (le : bool) : Elf_Hash_wide le = gen_Elf_Hash_wide le.
Proof. destruct le; reflexivity. Qed.

Lemma hash_is_wide_translated (is64 : bool) (m : hval) :
  hash_is_wide is64 m
  = existsb (fun p => (fst p =? machine_key m) && Bool.eqb (snd p) is64) gen_hash_wide.
Proof.
  unfold hash_is_wide, wide_hash_machines, gen_hash_wide.
  cbn [existsb fst snd].
  rewrite (String.eqb_sym "EM_S390" (machine_key m)), (String.eqb_sym "EM_ALPHA" (machine_key m)).
  destruct is64, (machine_key m =? "EM_ALPHA"), (machine_key m =? "EM_S390"); reflexivity.
Qed.
