(* Proofs/C04Unit.v — a whole unit (DESIGN 4.4 T3, T4): over the standard's encoding of a
   unit placed anywhere in its section, with its abbreviation table anywhere in .debug_abbrev,
   the header parses to the unit's parameters, the table to its declarations, and parsing an
   entry at each successive offset yields exactly the pre-order entry list; the entries tile the
   unit from the end of the header to unit_length + initial-length size. *)
From Coq Require Import String.
From PV Require Import Base.Outcome Base.Prim Spec.PrimSpec Spec.C04Desc Spec.C04Spec Spec.C04Sem Gen.C04Forms Model.C04Model
                       Proofs.PrimProofs Proofs.C04Forms Proofs.C04Header Proofs.C04Abbrev Proofs.C04Entry.
From Coq Require Import ZArith List Bool Lia ZifyBool.
Import ListNotations.
Open Scope string_scope.
Open Scope list_scope.
Open Scope Z_scope.

Definition expect_dies (c : cfg) (ds : list adecl) (es : list fentry) (off : Z) : list xdie :=
  expect_entries dn_tag dn_at dn_form c ds es off.

Lemma expect_dies_app c ds a b off :
  expect_dies c ds (a ++ b) off = expect_dies c ds a off ++ expect_dies c ds b (off + zlen (encode_entries c ds a)).
Proof.
  unfold expect_dies, encode_entries. revert off. induction a as [|e r IH]; intros off.
  - cbn. rewrite Z.add_0_r. reflexivity.
  - cbn [app expect_entries map concat]. rewrite IH, zlen_app, Z.add_assoc. reflexivity.
Qed.

(* ------------------------------------------------------------------ T3: every entry, at its offset *)
Section Entries.
  Variable c : cfg.
  Variable abbrevs : list (Z * mdecl).
  Variable ds : list adecl.
  Hypothesis Hc : cfg_ok c = true.
  Hypothesis Hab : forall code, zfind abbrevs code = option_map expect_mdecl (find_decl ds code).
  Hypothesis Hds : forallb adecl_wf ds = true.

  Lemma entries_exact : forall (es : list fentry) (sec pre tail : list Z),
    forallb (entry_wf c ds) es = true ->
    sec = pre ++ encode_entries c ds es ++ tail ->
    Forall (fun x => parse_die (cfg_forms c) abbrevs sec (x_off x) = Ok x) (expect_dies c ds es (zlen pre)).
  Proof.
    induction es as [|e r IH]; intros sec pre tail Hwf Hsec; [constructor|].
    cbn [forallb] in Hwf. apply andb_prop in Hwf. destruct Hwf as [He Hr].
    unfold expect_dies. cbn [expect_entries]. constructor.
    - assert (Hoff : x_off (expect_entry dn_tag dn_at dn_form c ds e (zlen pre)) = zlen pre)
        by (destruct e as [code vals|enc]; cbn [expect_entry]; [destruct (find_decl ds (lv code))|]; reflexivity).
      rewrite Hoff.
      apply parse_die_ok with (tail := encode_entries c ds r ++ tail); auto.
      rewrite Hsec. unfold encode_entries. cbn [map concat]. rewrite <- app_assoc. apply zskipn_app.
    - specialize (IH sec (pre ++ encode_entry c ds e) tail Hr).
      rewrite zlen_app in IH. apply IH.
      rewrite Hsec. unfold encode_entries. cbn [map concat]. rewrite <- !app_assoc. reflexivity.
  Qed.
End Entries.

(* ------------------------------------------------------------------ T4: tiling *)
Fixpoint tiles (xs : list xdie) (start stop : Z) : Prop :=
  match xs with
  | [] => start = stop
  | x :: r => x_off x = start /\ 0 < x_size x /\ tiles r (start + x_size x) stop
  end.

Lemma expect_entry_off c ds e off : x_off (expect_entry dn_tag dn_at dn_form c ds e off) = off.
Proof. destruct e as [code vals|enc]; cbn [expect_entry]; [destruct (find_decl ds (lv code))|]; reflexivity. Qed.
Lemma expect_entry_size c ds e off :
  x_size (expect_entry dn_tag dn_at dn_form c ds e off) = zlen (encode_entry c ds e).
Proof. destruct e as [code vals|enc]; cbn [expect_entry]; [destruct (find_decl ds (lv code))|]; reflexivity. Qed.

Lemma entries_tile c ds : forall es off,
  forallb (entry_wf c ds) es = true ->
  tiles (expect_dies c ds es off) off (off + zlen (encode_entries c ds es)).
Proof.
  induction es as [|e r IH]; intros off Hwf.
  - cbn. lia.
  - cbn [forallb] in Hwf. apply andb_prop in Hwf. destruct Hwf as [He Hr].
    unfold expect_dies, encode_entries. cbn [expect_entries tiles map concat].
    rewrite expect_entry_off, expect_entry_size. split; [reflexivity|]. split.
    + apply encode_entry_nonempty. exact He.
    + rewrite zlen_app, Z.add_assoc. apply IH. exact Hr.
Qed.

(* ------------------------------------------------------------------ the unit *)
Definition expect_unit_ctx (u : unit) (off : Z) : uctx :=
  expect_uctx (u_cfg u) (u_kind u) (u_abbrev_off u) (unit_length u) off.
Definition expect_munit (u : unit) (sec : list Z) (off : Z) : munit :=
  mkmunit (expect_unit_ctx u off) sec (expect_abbrevs (u_table u)).
Definition parse_unit_at (u : unit) : bool -> list Z -> Z -> res uctx :=
  if is_types4 (u_kind u) then parse_tu_at else parse_cu_at.

Lemma unit_wf_parts u : unit_wf u = true ->
  header_wf (u_cfg u) (u_kind u) (u_abbrev_off u) = true /\ atable_wf (u_table u) = true /\
  tree_wf (t_decls (u_table u)) (u_root u) = true /\
  forallb (entry_wf (u_cfg u) (t_decls (u_table u))) (unit_entries u) = true /\
  initial_length_wf (unit_length u) (c_is64 (u_cfg u)) = true.
Proof.
  unfold unit_wf. intros H.
  apply andb_prop in H. destruct H as [H H5]. apply andb_prop in H. destruct H as [H H4].
  apply andb_prop in H. destruct H as [H H3]. apply andb_prop in H. destruct H as [H1 H2]. auto.
Qed.

Lemma uc_forms_expect u off : uc_forms (expect_unit_ctx u off) = cfg_forms (u_cfg u).
Proof.
  unfold uc_forms, expect_unit_ctx, expect_uctx, cfg_forms. cbn [uc_le uc_is64 uc_asz uc_ver].
  unfold addr_size_z. destruct (c_asz8 (u_cfg u)); reflexivity.
Qed.

Lemma hdr_abbrev_off c k aoff : fget (hdr_fields c k aoff) "debug_abbrev_offset" = aoff.
Proof. destruct k; reflexivity. Qed.

Theorem unit_header_exact (u : unit) (pre tail : list Z) :
  unit_wf u = true ->
  parse_unit_at u (c_le (u_cfg u)) (pre ++ encode_unit u ++ tail) (zlen pre) = Ok (expect_unit_ctx u (zlen pre)).
Proof.
  intros Hwf. destruct (unit_wf_parts u Hwf) as (Hh & _ & _ & _ & Hl).
  unfold parse_unit_at, encode_unit, unit_body, expect_unit_ctx. rewrite <- !app_assoc.
  destruct (u_kind u) as [ | | |id|id|sg toff|sg toff|sg toff] eqn:Ek; cbn [is_types4];
    first [ apply cu_header_roundtrip; auto | apply tu_header_roundtrip; auto ].
Qed.

(* table_at of the spec, in the form the parser needs *)
Theorem unit_abbrevs_exact (u : unit) (abbrev_sec sec : list Z) (off : Z) :
  unit_wf u = true -> table_at abbrev_sec u ->
  open_unit abbrev_sec sec (expect_unit_ctx u off) = Ok (expect_munit u sec off).
Proof.
  intros Hwf (tl & Hat & Hlt). destruct (unit_wf_parts u Hwf) as (Hh & Ht & _).
  destruct (header_wf_parts _ _ _ Hh) as (_ & _ & Hoff).
  unfold open_unit, expect_unit_ctx, expect_uctx. cbn [uc_fields]. rewrite hdr_abbrev_off.
  rewrite (abbrev_roundtrip (u_table u) abbrev_sec (u_abbrev_off u) tl Ht); auto. lia.
Qed.

Theorem unit_entries_exact (u : unit) (pre tail : list Z) :
  unit_wf u = true ->
  let sec := pre ++ encode_unit u ++ tail in
  let M := expect_munit u sec (zlen pre) in
  Forall (fun x => get_die M (x_off x) = Ok x)
         (expect_dies (u_cfg u) (t_decls (u_table u)) (unit_entries u) (zlen pre + header_size u)).
Proof.
  intros Hwf sec M. destruct (unit_wf_parts u Hwf) as (Hh & Ht & _ & He & Hl).
  destruct (header_wf_parts _ _ _ Hh) as (Hver & _).
  assert (Hc : cfg_ok (u_cfg u) = true) by (unfold cfg_ok; lia).
  unfold get_die, M, expect_munit. cbn [mu_ctx mu_abbrevs mu_sec]. rewrite uc_forms_expect.
  set (hdr := initial_length_encode (c_le (u_cfg u)) (unit_length u) (c_is64 (u_cfg u)) ++
              encode_header_rest (u_cfg u) (u_kind u) (u_abbrev_off u)).
  assert (Hz : zlen pre + header_size u = zlen (pre ++ hdr)).
  { unfold hdr, header_size. rewrite !zlen_app, zlen_initial_length.
    unfold initial_length_field_size, initlen_size. lia. }
  rewrite Hz.
  apply entries_exact with (tail := tail); auto.
  - intros code. apply abbrev_lookup. exact Ht.
  - unfold atable_wf in Ht. apply andb_prop in Ht. destruct Ht as [Ht _].
    apply andb_prop in Ht. tauto.
  - unfold sec, encode_unit, unit_body, hdr. rewrite <- !app_assoc. reflexivity.
Qed.

Theorem unit_tiling (u : unit) (off : Z) :
  unit_wf u = true ->
  let U := expect_unit_ctx u off in
  tiles (expect_dies (u_cfg u) (t_decls (u_table u)) (unit_entries u) (uc_die_off U))
        (uc_die_off U) (uc_off U + uc_size U)
  /\ uc_die_off U = off + header_size u
  /\ uc_off U + uc_size U = off + zlen (encode_unit u).
Proof.
  intros Hwf U. destruct (unit_wf_parts u Hwf) as (_ & _ & _ & He & _).
  assert (H1 : uc_die_off U = off + header_size u).
  { unfold U, expect_unit_ctx, expect_uctx, header_size. cbn [uc_die_off]. lia. }
  assert (H2 : uc_off U + uc_size U = uc_die_off U + zlen (encode_entries (u_cfg u) (t_decls (u_table u)) (unit_entries u))).
  { rewrite H1. unfold U, expect_unit_ctx, expect_uctx, uc_size, header_size, unit_length, unit_body.
    cbn [uc_off uc_len uc_is64]. rewrite zlen_app. unfold initial_length_field_size, initlen_size. lia. }
  split; [|split].
  - rewrite H2. apply entries_tile. exact He.
  - exact H1.
  - rewrite H2, H1. unfold encode_unit, unit_body, header_size. rewrite !zlen_app, zlen_initial_length.
    unfold initial_length_field_size, initlen_size. lia.
Qed.

(* ------------------------------------------------------------------ T7: several units in one section *)
(* DWARFInfo._parse_CUs_iter over the concatenation of units of mixed parameters: each is found at the
   running sum of the encoded sizes and parsed with its own parameters *)
Fixpoint expect_units (us : list unit) (off : Z) : list uctx :=
  match us with
  | [] => []
  | u :: r => expect_unit_ctx u off :: expect_units r (off + zlen (encode_unit u))
  end.

Lemma encode_unit_nonempty u : 4 <= zlen (encode_unit u).
Proof.
  unfold encode_unit. rewrite zlen_app, zlen_initial_length. pose proof (zlen_nonneg (unit_body u)).
  unfold initial_length_field_size. destruct (c_is64 (u_cfg u)); lia.
Qed.

Lemma units_loop_ok (types : bool) (le : bool) : forall (us : list unit) (sec pre : list Z) (fuel : nat),
  forallb unit_wf us = true ->
  forallb (fun u => Bool.eqb (c_le (u_cfg u)) le && Bool.eqb (is_types4 (u_kind u)) types) us = true ->
  sec = pre ++ encode_section us ->
  (length us < fuel)%nat ->
  units_loop ((if types then parse_tu_at else parse_cu_at) le sec) fuel (zlen sec) (zlen pre)
  = Ok (expect_units us (zlen pre)).
Proof.
  induction us as [|u r IH]; intros sec pre fuel Hwf Hk Hsec Hfuel.
  - destruct fuel as [|f]; [cbn in Hfuel; lia|]. cbn [units_loop expect_units].
    rewrite Hsec. unfold encode_section. cbn [map concat]. rewrite app_nil_r.
    destruct (Z.ltb_spec (zlen pre) (zlen pre)); [lia|reflexivity].
  - destruct fuel as [|f]; [cbn in Hfuel; lia|].
    cbn [forallb] in Hwf, Hk. apply andb_prop in Hwf. destruct Hwf as [Hu Hr].
    apply andb_prop in Hk. destruct Hk as [Hku Hkr]. apply andb_prop in Hku. destruct Hku as [Hle Hty].
    apply Bool.eqb_prop in Hle, Hty.
    cbn [units_loop expect_units].
    assert (Hsec' : sec = pre ++ encode_unit u ++ encode_section r).
    { rewrite Hsec. unfold encode_section. cbn [map concat]. reflexivity. }
    pose proof (encode_unit_nonempty u) as Hne.
    destruct (Z.ltb_spec (zlen pre) (zlen sec)) as [_|Hge].
    2: { rewrite Hsec', !zlen_app in Hge. pose proof (zlen_nonneg (encode_section r)). lia. }
    pose proof (unit_header_exact u pre (encode_section r) Hu) as Hh.
    unfold parse_unit_at in Hh. rewrite Hty, Hle, <- Hsec' in Hh. rewrite Hh.
    assert (Hnext : zlen pre + uc_len (expect_unit_ctx u (zlen pre)) +
                    initial_length_field_size (uc_is64 (expect_unit_ctx u (zlen pre)))
                    = zlen (pre ++ encode_unit u)).
    { unfold expect_unit_ctx, expect_uctx. cbn [uc_len uc_is64]. rewrite zlen_app.
      unfold encode_unit, unit_length. rewrite zlen_app, zlen_initial_length. lia. }
    rewrite Hnext.
    rewrite (IH sec (pre ++ encode_unit u) f Hr Hkr); [|rewrite Hsec', <- app_assoc; reflexivity|cbn [length] in Hfuel; lia].
    rewrite zlen_app. reflexivity.
Qed.

Lemma section_length_ge (l : list unit) : (length l <= length (encode_section l))%nat.
Proof.
  induction l as [|u r IH]; [cbn; lia|]. unfold encode_section in *. cbn [map concat length].
  rewrite app_length. pose proof (encode_unit_nonempty u) as H. unfold zlen in H. lia.
Qed.

Definition units_in (le types : bool) (us : list unit) : bool :=
  forallb (fun u => Bool.eqb (c_le (u_cfg u)) le && Bool.eqb (is_types4 (u_kind u)) types) us.

Theorem iter_CUs_exact (le : bool) (us : list unit) :
  forallb unit_wf us = true -> units_in le false us = true ->
  iter_CUs le (encode_section us) = Ok (expect_units us 0).
Proof.
  intros Hwf Hk. unfold iter_CUs.
  apply (units_loop_ok false le us (encode_section us) [] _ Hwf Hk eq_refl).
  pose proof (section_length_ge us). lia.
Qed.

Theorem iter_TUs_exact (le : bool) (us : list unit) :
  forallb unit_wf us = true -> units_in le true us = true ->
  iter_TUs le (encode_section us) = Ok (expect_units us 0).
Proof.
  intros Hwf Hk. unfold iter_TUs.
  apply (units_loop_ok true le us (encode_section us) [] _ Hwf Hk eq_refl).
  pose proof (section_length_ge us). lia.
Qed.
