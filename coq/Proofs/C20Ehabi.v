(* Proofs/C20Ehabi.v — arm_expand_prel31, EHABIInfo.get_entry and the byte-code
   disassembler (Model/C20Ehabi.v) against Spec/C20Ehabi.v. *)
From PV Require Import Base.Bytes Base.Outcome Base.Prim Spec.PrimSpec Proofs.PrimProofs
  Model.C20Types Spec.C20Ehabi Model.C20Ehabi Gen.C20Tables Proofs.C20Attr.
From Coq Require Import ZifyBool.
Ltac Zify.zify_post_hook ::= Z.to_euclidean_division_equations.
Open Scope list_scope.
Open Scope Z_scope.

(* ---------------- bit fields as div / mod ---------------- *)
Lemma land_field a s k : 0 <= s -> 0 <= k ->
  Z.land a (Z.shiftl (Z.ones k) s) = ((a / 2 ^ s) mod 2 ^ k) * 2 ^ s.
Proof.
  intros Hs Hk. apply Z.bits_inj'. intros n Hn.
  rewrite Z.land_spec.
  destruct (Z.lt_ge_cases n s) as [Hlt|Hge].
  - rewrite Z.shiftl_spec_low by exact Hlt. rewrite andb_false_r.
    rewrite Z.mul_pow2_bits_low by lia. reflexivity.
  - rewrite Z.shiftl_spec by lia. rewrite Z.mul_pow2_bits by lia.
    destruct (Z.lt_ge_cases (n - s) k) as [Hin|Hout].
    + rewrite Z.ones_spec_low by lia. rewrite andb_true_r.
      rewrite Z.mod_pow2_bits_low by lia. rewrite Z.div_pow2_bits by lia.
      f_equal. lia.
    + rewrite Z.ones_spec_high by lia. rewrite andb_false_r.
      rewrite Z.mod_pow2_bits_high by lia. reflexivity.
Qed.

Lemma land_low a k : 0 <= k -> Z.land a (Z.ones k) = a mod 2 ^ k.
Proof. intros Hk. apply Z.land_ones. exact Hk. Qed.

Lemma land_80000000 w : Z.land w 0x80000000 = ((w / 2 ^ 31) mod 2 ^ 1) * 2 ^ 31.
Proof. change 0x80000000 with (Z.shiftl (Z.ones 1) 31). apply land_field; lia. Qed.
Lemma land_40000000 w : Z.land w 0x40000000 = ((w / 2 ^ 30) mod 2 ^ 1) * 2 ^ 30.
Proof. change 0x40000000 with (Z.shiftl (Z.ones 1) 30). apply land_field; lia. Qed.
Lemma land_7f000000 w : Z.land w 0x7f000000 = ((w / 2 ^ 24) mod 2 ^ 7) * 2 ^ 24.
Proof. change 0x7f000000 with (Z.shiftl (Z.ones 7) 24). apply land_field; lia. Qed.
Lemma land_70000000 w : Z.land w 0x70000000 = ((w / 2 ^ 28) mod 2 ^ 3) * 2 ^ 28.
Proof. change 0x70000000 with (Z.shiftl (Z.ones 3) 28). apply land_field; lia. Qed.
Lemma land_FF0000 w : Z.land w 0xFF0000 = ((w / 2 ^ 16) mod 2 ^ 8) * 2 ^ 16.
Proof. change 0xFF0000 with (Z.shiftl (Z.ones 8) 16). apply land_field; lia. Qed.
Lemma land_FF00 w : Z.land w 0xFF00 = ((w / 2 ^ 8) mod 2 ^ 8) * 2 ^ 8.
Proof. change 0xFF00 with (Z.shiftl (Z.ones 8) 8). apply land_field; lia. Qed.
Lemma land_FF w : Z.land w 0xFF = w mod 2 ^ 8.
Proof. change 0xFF with (Z.ones 8). apply land_low. lia. Qed.
Lemma land_7f w : Z.land w 0x7f = w mod 2 ^ 7.
Proof. change 0x7f with (Z.ones 7). apply land_low. lia. Qed.
Lemma land_7fffffff w : Z.land w 0x7fffffff = w mod 2 ^ 31.
Proof. change 0x7fffffff with (Z.ones 31). apply land_low. lia. Qed.
Lemma land_64ones w : Z.land w 0xffffffffffffffff = w mod 2 ^ 64.
Proof. change 0xffffffffffffffff with (Z.ones 64). apply land_low. lia. Qed.

(* turn every closed power of two into a numeral so that lia sees constants *)
Ltac norm_pow :=
  repeat match goal with
  | |- context [2 ^ ?n] =>
      let v := eval vm_compute in (2 ^ n) in change (2 ^ n) with v
  | H : context [2 ^ ?n] |- _ =>
      let v := eval vm_compute in (2 ^ n) in change (2 ^ n) with v in H
  end.

Ltac bits_to_arith :=
  rewrite ?land_80000000, ?land_40000000, ?land_7f000000, ?land_70000000, ?land_FF0000, ?land_FF00,
          ?land_FF, ?land_7f, ?land_7fffffff, ?land_64ones, ?Z.shiftr_div_pow2 by lia.

(* ---------------- prel31 ---------------- *)
Theorem prel31_model_spec w place : arm_expand_prel31 w place = prel31_spec w place.
Proof.
  unfold arm_expand_prel31, prel31_spec, sext31.
  rewrite land_7fffffff, land_64ones, land_40000000.
  set (loc := w mod 2 ^ 31).
  assert (Hloc : 0 <= loc < 2 ^ 31) by (unfold loc; apply Z.mod_pos_bound; lia).
  destruct (Z.ltb_spec loc (2 ^ 30)) as [Hlo|Hhi].
  - replace (loc / 2 ^ 30) with 0 by (norm_pow; lia).
    cbn [Z.modulo Z.div_eucl Z.mul Z.eqb negb]. f_equal. lia.
  - replace (loc / 2 ^ 30) with 1 by (norm_pow; lia).
    replace (negb (1 mod 2 ^ 1 * 2 ^ 30 =? 0)) with true by reflexivity.
    change 0xffffffff80000000 with (Z.shiftl 8589934591 31).
    rewrite lor_shift_add by lia. norm_pow. lia.
Qed.

(* the field encoding a displacement in range decodes to place + displacement;
   bit 31 of the word is not part of the field *)
Theorem prel31_roundtrip w d place :
  disp_ok d = true -> w mod 2 ^ 31 = prel31_encode d ->
  prel31_spec w place = (place + d) mod 2 ^ 64.
Proof.
  unfold disp_ok, prel31_spec, prel31_encode, sext31. intros Hd Hw. rewrite Hw.
  f_equal. f_equal. destruct (Z.ltb_spec (d mod 2 ^ 31) (2 ^ 30)); norm_pow; lia.
Qed.

Lemma prel31_encode_range d : 0 <= prel31_encode d < 2 ^ 31.
Proof. unfold prel31_encode. apply Z.mod_pos_bound. lia. Qed.

Lemma expand_encoded d place : disp_ok d = true ->
  arm_expand_prel31 (prel31_encode d) place = (place + d) mod 2 ^ 64.
Proof.
  intros H. rewrite prel31_model_spec. apply prel31_roundtrip; [exact H|].
  pose proof (prel31_encode_range d). apply Z.mod_small. lia.
Qed.

(* ---------------- reading words ---------------- *)
Lemma p_u32_valid le w t : 0 <= w < 2 ^ 32 -> p_u32 le (int_encode le 4 w ++ t) = Ok (w, t).
Proof.
  intros H. unfold p_u32. rewrite uint_decode_valid; [reflexivity|].
  change (2 ^ (8 * Z.of_nat 4)) with (2 ^ 32). exact H.
Qed.

Lemma byteb_range b : byteb b = true -> 0 <= b < 256.
Proof. unfold byteb. lia. Qed.

Lemma quad_facts q : quadb q = true ->
  0 <= quad_word q < 2 ^ 32 /\
  [Z.land (Z.shiftr (quad_word q) 24) 0xFF; Z.land (Z.shiftr (quad_word q) 16) 0xFF;
   Z.land (Z.shiftr (quad_word q) 8) 0xFF; Z.land (Z.shiftr (quad_word q) 0) 0xFF] = quad_bytes q.
Proof.
  destruct q as [[[a b] c] d]. unfold quadb, quad_word, quad_bytes. rewrite !andb_true_iff.
  intros [[[Ha Hb] Hc] Hd]. apply byteb_range in Ha, Hb, Hc, Hd.
  split; [norm_pow; lia|].
  bits_to_arith. norm_pow. repeat f_equal; lia.
Qed.

Lemma more_words_valid le t : forall more, forallb quadb more = true ->
  more_words le (List.length more)
             (List.concat (map (int_encode le 4) (map quad_word more)) ++ t)
  = Ok (List.concat (map quad_bytes more)).
Proof.
  induction more as [|q r IH]; intros H; [reflexivity|].
  cbn [forallb] in H. apply andb_prop in H. destruct H as [Hq Hr].
  destruct (quad_facts q Hq) as [Hrange Hbytes].
  cbn [List.length map List.concat more_words]. rewrite <- app_assoc.
  rewrite p_u32_valid by exact Hrange. cbn [bind]. rewrite IH by exact Hr. cbn [bind].
  f_equal. rewrite <- Hbytes. reflexivity.
Qed.

(* ---------------- where things lie in the file ---------------- *)
Definition at_ (img : list Z) (off : Z) (bytes : list Z) : Prop :=
  exists t, seek img off = bytes ++ t.

Lemma at_lt img off bytes : at_ img off bytes -> bytes <> [] -> off < zlen img.
Proof.
  intros [t H] Hne. unfold seek in H. destruct (off <? 0) eqn:E0.
  - destruct bytes; [contradiction|discriminate].
  - destruct (Z.leb_spec (zlen img) off) as [Hge|Hlt]; [|exact Hlt].
    destruct bytes; [contradiction|discriminate].
Qed.

Lemma at_le img off bytes t : 0 <= off -> seek img off = bytes ++ t -> bytes <> [] ->
  off + zlen bytes <= zlen img.
Proof.
  intros Hoff H Hne. pose proof (tell_seek img off bytes t Hoff H Hne) as Ht.
  unfold tell in Ht. pose proof (zlen_nonneg t). lia.
Qed.

Lemma seek_chk_ok img off : off < 2 ^ 63 -> seek_chk img off = Ok (seek img off).
Proof. intros H. unfold seek_chk. destruct (Z.leb_spec (2 ^ 63) off); [lia|reflexivity]. Qed.

(* ---------------- tests on words ---------------- *)
Lemma bit31_clear w : 0 <= w < 2 ^ 31 -> (Z.land w 0x80000000 =? 0) = true.
Proof. intros H. rewrite land_80000000. apply Z.eqb_eq. revert H. norm_pow. lia. Qed.
Lemma bit31_set w : 2 ^ 31 <= w < 2 ^ 32 -> (Z.land w 0x80000000 =? 0) = false.
Proof. intros H. rewrite land_80000000. apply Z.eqb_neq. revert H. norm_pow. lia. Qed.

(* ---------------- handler-table entries ---------------- *)
Lemma dte_generic img le fn tbl pd t :
  0 <= tbl < 2 ^ 63 -> disp_ok pd = true ->
  seek img tbl = int_encode le 4 (prel31_encode pd) ++ t ->
  decode_table_entry img le fn tbl = Ok (mk_entry fn (Some ((tbl + pd) mod 2 ^ 64)) None None).
Proof.
  intros Ht Hpd Hseek. pose proof (prel31_encode_range pd) as Hr.
  unfold decode_table_entry. rewrite seek_chk_ok by lia. cbn [bind]. rewrite Hseek.
  rewrite p_u32_valid by (revert Hr; norm_pow; lia). cbn [bind].
  rewrite bit31_clear by exact Hr. rewrite expand_encoded by exact Hpd. reflexivity.
Qed.

Lemma dte_corrupt_table img le fn tbl tw t :
  0 <= tbl < 2 ^ 63 -> 2 ^ 31 <= tw < 2 ^ 32 -> (tw / 2 ^ 28) mod 8 <> 0 ->
  seek img tbl = int_encode le 4 tw ++ t ->
  decode_table_entry img le fn tbl = Ok mk_corrupt.
Proof.
  intros Ht Hw Hbits Hseek.
  unfold decode_table_entry. rewrite seek_chk_ok by lia. cbn [bind]. rewrite Hseek.
  rewrite p_u32_valid by lia. cbn [bind]. rewrite bit31_set by exact Hw.
  destruct (Z.eqb_spec (Z.land tw 0x70000000) 0) as [E|E]; [|reflexivity].
  exfalso. revert E Hw Hbits. bits_to_arith. norm_pow. lia.
Qed.

Lemma dte_corrupt_model img le fn tbl idx low t :
  0 <= tbl < 2 ^ 63 -> 3 <= idx < 16 -> 0 <= low < 2 ^ 24 ->
  seek img tbl = int_encode le 4 (2 ^ 31 + idx * 2 ^ 24 + low) ++ t ->
  decode_table_entry img le fn tbl = Ok mk_corrupt.
Proof.
  intros Ht Hi Hl Hseek.
  unfold decode_table_entry. rewrite seek_chk_ok by lia. cbn [bind]. rewrite Hseek.
  rewrite p_u32_valid by (revert Hi Hl; norm_pow; lia). cbn [bind].
  rewrite bit31_set by (revert Hi Hl; norm_pow; lia).
  assert (Hidx : Z.land (Z.shiftr (2 ^ 31 + idx * 2 ^ 24 + low) 24) 0x7f = idx).
  { bits_to_arith. revert Hi Hl. norm_pow. lia. }
  assert (Hhi : Z.land (2 ^ 31 + idx * 2 ^ 24 + low) 0x70000000 = 0).
  { bits_to_arith. revert Hi Hl. norm_pow. lia. }
  rewrite Hhi, Hidx. cbn [Z.eqb negb].
  destruct (Z.eqb_spec idx 0); [lia|]. destruct (Z.eqb_spec idx 1); [lia|].
  destruct (Z.eqb_spec idx 2); [lia|]. reflexivity.
Qed.

Lemma dte_su16 img le fn tbl b0 b1 b2 t :
  0 <= tbl < 2 ^ 63 -> 0 <= b0 < 256 -> 0 <= b1 < 256 -> 0 <= b2 < 256 ->
  seek img tbl = int_encode le 4 (2 ^ 31 + b0 * 2 ^ 16 + b1 * 2 ^ 8 + b2) ++ t ->
  decode_table_entry img le fn tbl = Ok (mk_entry fn (Some 0) (Some [b0; b1; b2]) None).
Proof.
  intros Ht H0 H1 H2 Hseek. set (w := 2 ^ 31 + b0 * 2 ^ 16 + b1 * 2 ^ 8 + b2) in *.
  assert (Hw : 2 ^ 31 <= w < 2 ^ 32) by (unfold w; norm_pow; lia).
  unfold decode_table_entry. rewrite seek_chk_ok by lia. cbn [bind]. rewrite Hseek.
  rewrite p_u32_valid by lia. cbn [bind]. rewrite bit31_set by exact Hw.
  assert (Hhi : Z.land w 0x70000000 = 0) by (bits_to_arith; unfold w; norm_pow; lia).
  assert (Hidx : Z.land (Z.shiftr w 24) 0x7f = 0) by (bits_to_arith; unfold w; norm_pow; lia).
  assert (E0 : Z.shiftr (Z.land w 0xFF0000) 16 = b0) by (bits_to_arith; unfold w; norm_pow; lia).
  assert (E1 : Z.shiftr (Z.land w 0xFF00) 8 = b1) by (bits_to_arith; unfold w; norm_pow; lia).
  assert (E2 : Z.land w 0xFF = b2) by (bits_to_arith; unfold w; norm_pow; lia).
  rewrite Hhi, Hidx, E0, E1, E2. reflexivity.
Qed.

Lemma dte_lu img le fn tbl idx b0 b1 more t :
  0 <= tbl -> tbl + 4 < 2 ^ 63 -> idx = 1 \/ idx = 2 -> 0 <= b0 < 256 -> 0 <= b1 < 256 ->
  forallb quadb more = true -> zlen more < 256 ->
  seek img tbl = int_encode le 4 (2 ^ 31 + idx * 2 ^ 24 + zlen more * 2 ^ 16 + b0 * 2 ^ 8 + b1)
                 ++ List.concat (map (int_encode le 4) (map quad_word more)) ++ t ->
  decode_table_entry img le fn tbl
  = Ok (mk_entry fn (Some idx) (Some (b0 :: b1 :: List.concat (map quad_bytes more))) (Some tbl)).
Proof.
  intros Ht Ht4 Hi H0 H1 Hq Hn Hseek. pose proof (zlen_nonneg more) as Hnn.
  set (w := 2 ^ 31 + idx * 2 ^ 24 + zlen more * 2 ^ 16 + b0 * 2 ^ 8 + b1) in *.
  assert (Hw : 2 ^ 31 <= w < 2 ^ 32) by (unfold w; norm_pow; lia).
  unfold decode_table_entry. rewrite seek_chk_ok by lia. cbn [bind]. rewrite Hseek.
  rewrite p_u32_valid by lia. cbn [bind]. rewrite bit31_set by exact Hw.
  assert (Hhi : Z.land w 0x70000000 = 0) by (bits_to_arith; unfold w; norm_pow; lia).
  assert (Hidx : Z.land (Z.shiftr w 24) 0x7f = idx) by (bits_to_arith; unfold w; norm_pow; lia).
  assert (Hmore : Z.land (Z.shiftr w 16) 0xff = zlen more) by (bits_to_arith; unfold w; norm_pow; lia).
  assert (E0 : Z.land (Z.shiftr w 8) 0xff = b0) by (bits_to_arith; unfold w; norm_pow; lia).
  assert (E1 : Z.land (Z.shiftr w 0) 0xff = b1) by (bits_to_arith; unfold w; norm_pow; lia).
  rewrite Hhi, Hidx, Hmore, E0, E1. cbn [Z.eqb negb].
  assert (Hsel : (idx =? 0) = false /\ ((idx =? 1) || (idx =? 2)) = true) by (destruct Hi as [Hi|Hi]; rewrite Hi; auto).
  destruct Hsel as [-> ->].
  rewrite seek_chk_ok by lia. cbn [bind].
  pose proof (seek_app img tbl (int_encode le 4 w) _ Ht Hseek) as Hs4.
  unfold zlen at 1 in Hs4. rewrite int_encode_length in Hs4. change (Z.of_nat 4) with 4 in Hs4.
  rewrite Hs4. unfold zlen. rewrite Nat2Z.id.
  rewrite more_words_valid by exact Hq. reflexivity.
Qed.

(* ---------------- index entries ---------------- *)
Lemma tbl_decoded place tbl : tbl_ok place tbl = true -> tbl < 2 ^ 63 ->
  0 <= prel31_encode (tbl - (place + 4)) < 2 ^ 31 /\
  prel31_encode (tbl - (place + 4)) <> 1 /\
  arm_expand_prel31 (prel31_encode (tbl - (place + 4))) (place + 4) = tbl.
Proof.
  unfold tbl_ok. rewrite !andb_true_iff, negb_true_iff. intros [[H0 Hd] Hne] Hlt.
  split; [apply prel31_encode_range|]. split; [apply Z.eqb_neq, Hne|].
  rewrite expand_encoded by exact Hd.
  replace (place + 4 + (tbl - (place + 4))) with tbl by lia.
  apply Z.mod_small. revert Hlt. norm_pow. lia.
Qed.

Lemma diw_table img le place fd tbl : disp_ok fd = true -> tbl_ok place tbl = true -> tbl < 2 ^ 63 ->
  decode_index_words img le place (prel31_encode fd) (prel31_encode (tbl - (place + 4)))
  = decode_table_entry img le ((place + fd) mod 2 ^ 64) tbl.
Proof.
  intros Hfd Htbl Hlt. destruct (tbl_decoded place tbl Htbl Hlt) as (Hr & Hne & Hdec).
  unfold decode_index_words. rewrite bit31_clear by apply prel31_encode_range. cbn [negb].
  rewrite expand_encoded by exact Hfd.
  destruct (Z.eqb_spec (prel31_encode (tbl - (place + 4))) 1) as [E|_]; [contradiction|].
  rewrite bit31_clear by exact Hr. rewrite Hdec. reflexivity.
Qed.

Lemma get_entry_words img le sh_off sh_size n w0 w1 t :
  zlen img < 2 ^ 63 -> 0 <= sh_off -> 0 <= n < sh_size / 8 ->
  0 <= w0 < 2 ^ 32 -> 0 <= w1 < 2 ^ 32 ->
  seek img (sh_off + n * 8) = int_encode le 4 w0 ++ int_encode le 4 w1 ++ t ->
  get_entry img le sh_off sh_size n = decode_index_words img le (sh_off + n * 8) w0 w1.
Proof.
  intros Himg Hoff Hn H0 H1 Hseek.
  assert (Hlt : sh_off + n * 8 < zlen img).
  { apply (at_lt img _ (int_encode le 4 w0)); [eexists; exact Hseek|].
    intros E. apply (f_equal (@List.length Z)) in E. rewrite int_encode_length in E. discriminate. }
  unfold get_entry, num_entry. change gen_ehabi_index_entry_size with 8.
  destruct (Z.leb_spec (sh_size / 8) n) as [Hc|_]; [lia|].
  rewrite seek_chk_ok by lia. cbn [bind]. rewrite Hseek.
  rewrite p_u32_valid by exact H0. cbn [bind]. rewrite p_u32_valid by exact H1. reflexivity.
Qed.

Lemma at_first_word img off le w rest : at_ img off (int_encode le 4 w ++ rest) ->
  off < zlen img /\ exists t, seek img off = int_encode le 4 w ++ rest ++ t.
Proof.
  intros H. split.
  - apply (at_lt img off _ H). intros E. apply (f_equal (@List.length Z)) in E.
    rewrite app_length, int_encode_length in E. discriminate.
  - destruct H as [t H]. exists t. rewrite H, <- app_assoc. reflexivity.
Qed.

Theorem get_entry_valid img le sh_off sh_size n a :
  zlen img < 2 ^ 63 -> 0 <= sh_off -> 0 <= n < sh_size / 8 ->
  wf_entry (sh_off + n * 8) a = true ->
  at_ img (sh_off + n * 8) (enc_index le (sh_off + n * 8) a) ->
  (table_words a <> [] -> at_ img (table_offset a) (enc_table le a)) ->
  exists r, get_entry img le sh_off sh_size n = Ok r /\
            mask_tbl a r = expected_entry (sh_off + n * 8) a.
Proof.
  intros Himg Hoff Hn Hwf Hidx Htab. set (place := sh_off + n * 8) in *.
  assert (Hidx' : forall w0 w1, index_words place a = (w0, w1) -> 0 <= w0 < 2 ^ 32 -> 0 <= w1 < 2 ^ 32 ->
            get_entry img le sh_off sh_size n = decode_index_words img le place w0 w1).
  { intros w0 w1 E H0 H1. unfold enc_index in Hidx. rewrite E in Hidx.
    destruct Hidx as [t Hs]. rewrite <- app_assoc in Hs.
    apply (get_entry_words img le sh_off sh_size n w0 w1 t); auto. }
  assert (P31 : forall d, 0 <= prel31_encode d < 2 ^ 32).
  { intros d. pose proof (prel31_encode_range d) as H. revert H. norm_pow. lia. }
  destruct a as [fd | fd b0 b1 b2 | fd tbl b0 b1 b2 | fd tbl idx b0 b1 more | fd tbl pd
                 | w0 w1 | fd w1 | fd tbl tw | fd tbl idx low];
    cbn [wf_entry] in Hwf; rewrite ?andb_true_iff in Hwf;
    cbn [table_words table_offset enc_table map List.concat] in Htab.
  - (* cannot unwind *)
    rewrite (Hidx' _ _ eq_refl) by (auto; lia).
    unfold decode_index_words. rewrite bit31_clear by apply prel31_encode_range. cbn [negb].
    rewrite expand_encoded by exact Hwf. cbn [Z.eqb Pos.eqb].
    eexists. split; [reflexivity|]. reflexivity.
  - (* inline compact model *)
    destruct Hwf as [[[Hfd H0] H1] H2]. apply byteb_range in H0, H1, H2.
    set (w := 2 ^ 31 + b0 * 2 ^ 16 + b1 * 2 ^ 8 + b2).
    assert (Hw : 2 ^ 31 <= w < 2 ^ 32) by (unfold w; norm_pow; lia).
    rewrite (Hidx' (prel31_encode fd) w eq_refl) by (auto; lia).
    unfold decode_index_words. rewrite bit31_clear by apply prel31_encode_range. cbn [negb].
    rewrite expand_encoded by exact Hfd.
    destruct (Z.eqb_spec w 1) as [E|_]; [lia|]. rewrite bit31_set by exact Hw.
    assert (Hhi : Z.land w 0x7f000000 = 0) by (bits_to_arith; unfold w; norm_pow; lia).
    assert (E0 : Z.shiftr (Z.land w 0xFF0000) 16 = b0) by (bits_to_arith; unfold w; norm_pow; lia).
    assert (E1 : Z.shiftr (Z.land w 0xFF00) 8 = b1) by (bits_to_arith; unfold w; norm_pow; lia).
    assert (E2 : Z.land w 0xFF = b2) by (bits_to_arith; unfold w; norm_pow; lia).
    rewrite Hhi, E0, E1, E2. cbn [Z.eqb negb].
    eexists. split; [reflexivity|]. reflexivity.
  - (* table, Su16 *)
    destruct Hwf as [[[[Hfd Htbl] H0] H1] H2]. apply byteb_range in H0, H1, H2.
    destruct (at_first_word img tbl le _ [] (Htab ltac:(discriminate))) as [Hlt [t Hs]].
    rewrite (Hidx' _ _ eq_refl) by auto.
    rewrite diw_table by (auto; lia).
    assert (Ht0 : 0 <= tbl) by (unfold tbl_ok in Htbl; lia).
    rewrite (dte_su16 img le _ tbl b0 b1 b2 t) by (auto; lia).
    eexists. split; [reflexivity|]. reflexivity.
  - (* table, Lu16 / Lu32 *)
    destruct Hwf as [[[[[[Hfd Htbl] Hi] H0] H1] Hq] Hn256]. apply byteb_range in H0, H1.
    destruct (at_first_word img tbl le _ _ (Htab ltac:(discriminate))) as [Hlt [t Hs]].
    rewrite (Hidx' _ _ eq_refl) by auto.
    rewrite diw_table by (auto; lia).
    assert (Ht0 : 0 <= tbl) by (unfold tbl_ok in Htbl; lia).
    assert (Ht4 : tbl + 4 <= zlen img).
    { match type of Hs with seek _ _ = ?x ++ ?r => pose proof (at_le img tbl x r Ht0 Hs) as H4 end.
      unfold zlen in H4. rewrite int_encode_length in H4. unfold zlen.
      assert (Hne : forall w, int_encode le 4 w <> []).
      { intros w E. apply (f_equal (@List.length Z)) in E. rewrite int_encode_length in E. discriminate. }
      specialize (H4 (Hne _)). lia. }
    assert (Hi' : idx = 1 \/ idx = 2) by lia.
    rewrite (dte_lu img le _ tbl idx b0 b1 more t) by (auto; lia).
    eexists. split; [reflexivity|]. reflexivity.
  - (* table, generic model *)
    destruct Hwf as [[Hfd Htbl] Hpd].
    destruct (at_first_word img tbl le _ [] (Htab ltac:(discriminate))) as [Hlt [t Hs]].
    rewrite (Hidx' _ _ eq_refl) by auto.
    rewrite diw_table by (auto; lia).
    assert (Ht0 : 0 <= tbl) by (unfold tbl_ok in Htbl; lia).
    rewrite (dte_generic img le _ tbl pd t) by (auto; lia).
    eexists. split; [reflexivity|]. reflexivity.
  - (* corrupt: bit 31 of the first index word *)
    destruct Hwf as [[[Ha Hb] Hc] Hd].
    rewrite (Hidx' w0 w1 eq_refl) by lia.
    unfold decode_index_words. rewrite bit31_set by lia. cbn [negb].
    eexists. split; [reflexivity|]. reflexivity.
  - (* corrupt: inline word with a personality index *)
    destruct Hwf as [[[Hfd Ha] Hb] Hc]. rewrite negb_true_iff in Hc. apply Z.eqb_neq in Hc.
    rewrite (Hidx' (prel31_encode fd) w1 eq_refl) by (auto; lia).
    unfold decode_index_words. rewrite bit31_clear by apply prel31_encode_range. cbn [negb].
    destruct (Z.eqb_spec w1 1) as [E|_]; [revert Ha; norm_pow; lia|].
    rewrite bit31_set by lia.
    destruct (Z.eqb_spec (Z.land w1 0x7f000000) 0) as [E|_].
    + exfalso. revert E Hc. bits_to_arith. norm_pow. lia.
    + cbn [negb]. eexists. split; [reflexivity|]. reflexivity.
  - (* corrupt: compact table word with bits 30-28 *)
    destruct Hwf as [[[[Hfd Htbl] Ha] Hb] Hc]. rewrite negb_true_iff in Hc. apply Z.eqb_neq in Hc.
    destruct (at_first_word img tbl le _ [] (Htab ltac:(discriminate))) as [Hlt [t Hs]].
    rewrite (Hidx' _ _ eq_refl) by auto.
    rewrite diw_table by (auto; lia).
    assert (Ht0 : 0 <= tbl) by (unfold tbl_ok in Htbl; lia).
    rewrite (dte_corrupt_table img le _ tbl tw t) by (auto; lia).
    eexists. split; [reflexivity|]. reflexivity.
  - (* corrupt: unknown compact model *)
    destruct Hwf as [[[[[Hfd Htbl] Ha] Hb] Hc] Hd].
    destruct (at_first_word img tbl le _ [] (Htab ltac:(discriminate))) as [Hlt [t Hs]].
    rewrite (Hidx' _ _ eq_refl) by auto.
    rewrite diw_table by (auto; lia).
    assert (Ht0 : 0 <= tbl) by (unfold tbl_ok in Htbl; lia).
    rewrite (dte_corrupt_model img le _ tbl idx low t) by (auto; lia).
    eexists. split; [reflexivity|]. reflexivity.
Qed.

(* ---------------- byte-code: first-byte dispatch, swept over all 256 bytes ---------------- *)
Definition bytes256 : list Z := map Z.of_nat (seq 0 256).

Lemma in_bytes256 b : 0 <= b < 256 -> In b bytes256.
Proof.
  intros H. unfold bytes256. rewrite <- (Z2Nat.id b) by lia.
  apply in_map, in_seq. lia.
Qed.

Definition hshape_matches (h : option hshape) (s : opshape) : bool :=
  match h, s with
  | Some H1, Sh1 | Some H2, Sh2 | Some HUleb, ShUleb => true
  | _, _ => false
  end.

(* for first byte b: the ring selects a handler that consumes what Table 4 says and whose
   text is the text of Table 4, for every operand byte *)
Definition ring_ok_byte (b : Z) : bool :=
  match ring_find gen_ehabi_ring b with
  | None => false
  | Some h =>
      hshape_matches (handler_shape h) (op_shape b) &&
      match op_shape b with
      | Sh1 => String.eqb (h1_text h b) (text1 b)
      | Sh2 => forallb (fun op => String.eqb (h2_text h b op) (text2 b op)) bytes256
      | ShUleb => true
      end
  end.

Theorem ring_sweep : forallb ring_ok_byte bytes256 = true.
Proof. vm_compute. reflexivity. Qed.

Lemma ring_byte b : 0 <= b < 256 -> ring_ok_byte b = true.
Proof.
  intros H. pose proof ring_sweep as S. rewrite forallb_forall in S. apply S, in_bytes256, H.
Qed.

Lemma ring_sh1 b : 0 <= b < 256 -> op_shape b = Sh1 ->
  exists h, ring_find gen_ehabi_ring b = Some h /\ handler_shape h = Some H1 /\ h1_text h b = text1 b.
Proof.
  intros Hb Hs. pose proof (ring_byte b Hb) as R. unfold ring_ok_byte in R.
  destruct (ring_find gen_ehabi_ring b) as [h|]; [|discriminate]. rewrite Hs in R.
  apply andb_prop in R. destruct R as [R1 R2]. exists h. split; [reflexivity|].
  split; [|apply String.eqb_eq, R2].
  destruct (handler_shape h) as [[| |]|]; cbn in R1; congruence.
Qed.

Lemma ring_sh2 b op : 0 <= b < 256 -> 0 <= op < 256 -> op_shape b = Sh2 ->
  exists h, ring_find gen_ehabi_ring b = Some h /\ handler_shape h = Some H2 /\ h2_text h b op = text2 b op.
Proof.
  intros Hb Ho Hs. pose proof (ring_byte b Hb) as R. unfold ring_ok_byte in R.
  destruct (ring_find gen_ehabi_ring b) as [h|]; [|discriminate]. rewrite Hs in R.
  apply andb_prop in R. destruct R as [R1 R2]. exists h. split; [reflexivity|].
  split.
  - destruct (handler_shape h) as [[| |]|]; cbn in R1; congruence.
  - rewrite forallb_forall in R2. apply String.eqb_eq, R2, in_bytes256, Ho.
Qed.

Lemma ring_b2 : exists h, ring_find gen_ehabi_ring 0xb2 = Some h /\ handler_shape h = Some HUleb.
Proof.
  pose proof (ring_byte 0xb2 ltac:(lia)) as R. unfold ring_ok_byte in R.
  destruct (ring_find gen_ehabi_ring 0xb2) as [h|]; [|discriminate].
  change (op_shape 0xb2) with ShUleb in R. apply andb_prop in R. destruct R as [R1 _].
  exists h. split; [reflexivity|]. destruct (handler_shape h) as [[| |]|]; cbn in R1; congruence.
Qed.

(* ---------------- the uleb128 operand of 0xb2 ---------------- *)
Lemma collect_uleb_valid e v t : uleb_valid e v -> collect_uleb (e ++ t) = Ok (e, t).
Proof.
  induction 1 as [b Hb | b r v Hb Hr IH]; cbn [app collect_uleb].
  - rewrite land128_low by lia. reflexivity.
  - rewrite land128_high by lia. replace (128 =? 0) with false by reflexivity.
    rewrite IH. reflexivity.
Qed.

Lemma uleb_buffer_value_valid e v : uleb_valid e v -> uleb_buffer_value e = v.
Proof.
  intros H. unfold uleb_buffer_value.
  rewrite <- (fold_left_rev_right (fun b value => Z.shiftl value 7 + Z.land b 0x7F)).
  rewrite rev_involutive.
  induction H as [b Hb | b r v Hb Hr IH]; cbn [fold_right].
  - rewrite Z.shiftl_0_l, land127, Z.mod_small by lia. lia.
  - rewrite IH, Z.shiftl_mul_pow2, land127 by lia. change (2 ^ 7) with 128. lia.
Qed.

Lemma uleb_text_valid e v : uleb_valid e v -> uleb_text e = text_uleb v.
Proof.
  intros H. unfold uleb_text, text_uleb. rewrite (uleb_buffer_value_valid e v H).
  rewrite Z.shiftl_mul_pow2 by lia. change (2 ^ 2) with 4. f_equal. f_equal. lia.
Qed.

(* ---------------- instruction lists of any length ---------------- *)
Lemma opshape_eqb_eq a b : opshape_eqb a b = true -> a = b.
Proof. destruct a, b; cbn; congruence. Qed.

Lemma bc_decode_go_valid : forall l fuel,
  forallb wf_insn l = true -> (List.length (enc_insns l) <= fuel)%nat ->
  bc_decode_go fuel (enc_insns l) = Ok (expected_insns l).
Proof.
  unfold enc_insns, expected_insns.
  induction l as [|i r IH]; intros fuel Hwf Hf; [destruct fuel; reflexivity|].
  cbn [forallb] in Hwf. apply andb_prop in Hwf. destruct Hwf as [Hi Hr].
  cbn [map List.concat] in *. rewrite app_length in Hf.
  destruct i as [b | b op | v pad]; cbn [wf_insn enc_insn text_insn] in *.
  - apply andb_prop in Hi. destruct Hi as [Hb Hs]. apply byteb_range in Hb. apply opshape_eqb_eq in Hs.
    destruct (ring_sh1 b Hb Hs) as (h & Hring & Hshape & Htext).
    destruct fuel as [|f]; [cbn in Hf; lia|].
    cbn [app bc_decode_go]. rewrite Hring, Hshape, IH by (auto; cbn in Hf; lia).
    cbn [bind]. rewrite Htext. reflexivity.
  - rewrite !andb_true_iff in Hi. destruct Hi as [[Hb Ho] Hs].
    apply byteb_range in Hb, Ho. apply opshape_eqb_eq in Hs.
    destruct (ring_sh2 b op Hb Ho Hs) as (h & Hring & Hshape & Htext).
    destruct fuel as [|f]; [cbn in Hf; lia|].
    cbn [app bc_decode_go]. rewrite Hring, Hshape, IH by (auto; cbn in Hf; lia).
    cbn [bind]. rewrite Htext. reflexivity.
  - destruct ring_b2 as (h & Hring & Hshape).
    assert (Hv : uleb_valid (uleb_pad (uleb_encode v) pad) v) by (apply (upad_valid v pad); lia).
    destruct fuel as [|f]; [cbn in Hf; lia|].
    cbn [app bc_decode_go]. rewrite Hring, Hshape.
    rewrite (collect_uleb_valid _ v _ Hv). cbn [bind].
    rewrite IH by (auto; cbn [List.length] in Hf; lia).
    cbn [bind]. rewrite (uleb_text_valid _ v Hv). reflexivity.
Qed.

Theorem bc_decode_valid l : forallb wf_insn l = true ->
  bc_decode (enc_insns l) = Ok (expected_insns l).
Proof. intros H. unfold bc_decode. apply bc_decode_go_valid; [exact H|lia]. Qed.

(* the reference disassembler of the specification agrees on encoded instruction lists *)
Theorem mnemonic_array_valid r l : forallb wf_insn l = true -> l <> [] ->
  eo_bytecode r = Some (enc_insns l) ->
  mnemonic_array r = Ok (Some (expected_insns l)).
Proof.
  intros Hwf Hne Hbc. unfold mnemonic_array. rewrite Hbc.
  destruct (enc_insns l) as [|x xs] eqn:E.
  - destruct l as [|i r']; [contradiction|]. unfold enc_insns in E. cbn [map List.concat] in E.
    destruct i; cbn [enc_insn] in E; discriminate.
  - rewrite <- E, bc_decode_valid by exact Hwf. reflexivity.
Qed.

(* ---------------- total agreement with the reference disassembler, on ALL byte strings ------
   (complete instruction sequences and sequences whose last instruction is cut off) *)
Definition of_disasm (o : option (list (list Z * string))) : res (list (list Z * string)) :=
  match o with Some l => Ok l | None => Err (EPy "IndexError") end.

Lemma of_disasm_cons c (X : res (list (list Z * string))) Y :
  X = of_disasm Y -> (do l <- X; Ok (c :: l)) = of_disasm (option_map (cons c) Y).
Proof. intros ->. destruct Y; reflexivity. Qed.

Lemma collect_uleb_none bs : all_bytes bs = true -> uleb_spec bs = None ->
  collect_uleb bs = Err (EPy "IndexError").
Proof.
  induction bs as [|b r IH]; intros Hb E; [reflexivity|].
  cbn [all_bytes forallb] in Hb. apply andb_prop in Hb. destruct Hb as [Hb Hr].
  apply is_byte_iff in Hb. cbn [uleb_spec] in E. cbn [collect_uleb].
  destruct (Z.ltb_spec b 128); [discriminate|].
  destruct (uleb_spec r) as [[v' t']|] eqn:Er; [discriminate|].
  rewrite land128_high by lia. replace (128 =? 0) with false by reflexivity.
  rewrite IH by auto. reflexivity.
Qed.

Lemma op_shape_uleb b : op_shape b = ShUleb -> b = 0xb2.
Proof.
  unfold op_shape, in_range.
  destruct ((0x80 <=? b) && (b <=? 0x8f)); [discriminate|].
  destruct (Z.eqb_spec b 0xb1); [discriminate|].
  destruct (Z.eqb_spec b 0xb2); [auto|].
  destruct (Z.eqb_spec b 0xb3); [discriminate|].
  destruct ((0xc6 <=? b) && (b <=? 0xc9)); discriminate.
Qed.

Lemma all_bytes_cons b r : all_bytes (b :: r) = true -> 0 <= b < 256 /\ all_bytes r = true.
Proof.
  cbn [all_bytes forallb]. intros H. apply andb_prop in H. destruct H as [Hb Hr].
  apply is_byte_iff in Hb. auto.
Qed.

Lemma bc_decode_go_total : forall n bs fuel sfuel,
  (List.length bs <= n)%nat -> (List.length bs <= fuel)%nat -> (List.length bs < sfuel)%nat ->
  all_bytes bs = true ->
  bc_decode_go fuel bs = of_disasm (spec_disasm sfuel bs).
Proof.
  induction n as [|n IH]; intros bs fuel sfuel Hn Hf Hs Hb.
  - destruct bs; [|cbn in Hn; lia]. destruct sfuel; [lia|]. destruct fuel; reflexivity.
  - destruct bs as [|b rest]; [destruct sfuel; [lia|]; destruct fuel; reflexivity|].
    destruct (all_bytes_cons _ _ Hb) as [Hb0 Hrest].
    destruct fuel as [|f]; [cbn in Hf; lia|]. destruct sfuel as [|sf]; [lia|].
    cbn [List.length] in Hn, Hf, Hs. cbn [bc_decode_go spec_disasm].
    destruct (op_shape b) eqn:Hshape.
    + destruct (ring_sh1 b Hb0 Hshape) as (h & Hring & Hsh & Htext).
      rewrite Hring, Hsh, Htext. apply of_disasm_cons. apply IH; auto; lia.
    + destruct rest as [|op rest'].
      * pose proof (ring_byte b Hb0) as R. unfold ring_ok_byte in R.
        destruct (ring_find gen_ehabi_ring b) as [h|]; [|discriminate]. rewrite Hshape in R.
        apply andb_prop in R. destruct R as [R1 _].
        destruct (handler_shape h) as [[| |]|]; cbn in R1; try discriminate. reflexivity.
      * destruct (all_bytes_cons _ _ Hrest) as [Ho Hrest'].
        destruct (ring_sh2 b op Hb0 Ho Hshape) as (h & Hring & Hsh & Htext).
        rewrite Hring, Hsh, Htext. apply of_disasm_cons.
        cbn [List.length] in Hn, Hf, Hs. apply IH; auto; lia.
    + pose proof (op_shape_uleb b Hshape) as ->.
      destruct ring_b2 as (h & Hring & Hsh). rewrite Hring, Hsh.
      destruct (uleb_spec rest) as [[v t]|] eqn:Eu.
      * destruct (uleb_spec_sound rest Hrest v t Eu) as (e & -> & Hv).
        rewrite (collect_uleb_valid e v t Hv). cbn [bind].
        rewrite app_length, Nat.add_sub, firstn_app, firstn_all, Nat.sub_diag. cbn [firstn].
        rewrite app_nil_r, (uleb_text_valid e v Hv).
        apply of_disasm_cons.
        pose proof (uleb_valid_nonempty e v Hv) as He. rewrite app_length in Hn, Hf, Hs.
        rewrite all_bytes_app in Hrest. apply andb_prop in Hrest.
        apply IH; try tauto; lia.
      * rewrite (collect_uleb_none rest Hrest Eu). reflexivity.
Qed.

Theorem bc_decode_total bs : all_bytes bs = true ->
  bc_decode bs = of_disasm (spec_disasm (S (List.length bs)) bs).
Proof. intros H. unfold bc_decode. apply (bc_decode_go_total (List.length bs)); auto. Qed.

(* ---------------- statements about the regenerated layouts ---------------- *)
Theorem ehabi_layouts_agree le :
  gen_eh_index_struct le = spec_eh_index_struct le /\
  gen_eh_table_struct le = spec_eh_table_struct le /\
  gen_ehabi_index_entry_size = spec_ehabi_index_entry_size.
Proof. destruct le; repeat split; reflexivity. Qed.
