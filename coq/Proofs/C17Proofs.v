(* Proofs/C17Proofs.v — the tables of the library (Gen/Tables.v, regenerated from the live
   modules on every run) agree with the registry (Gen/Registry.v, regenerated from the vendored
   headers).  The domain is finite and enumerated completely: the bound IS the table; the
   boolean check is computed by vm_compute and lifted with forallb_forall (Base/Enum.v
   agreesb_sound). *)
From Coq Require Import ZArith List Bool String.
From PV Require Import Base.Enum Spec.C17Registry Gen.Tables Gen.Registry.
Import ListNotations.
Open Scope Z_scope.
Open Scope string_scope.

Lemma registry_agreesb_sound : forall T, registry_agreesb T = true -> registry_agrees T.
Proof. intros T H. exact (agreesb_sound registry_lookup T H). Qed.

Ltac table_agrees := apply registry_agreesb_sound; vm_compute; reflexivity.

(* ---- all tables at once *)
Lemma all_tables_agree_b : forallb (fun t => registry_agreesb (snd t)) all_tables = true.
Proof. vm_compute. reflexivity. Qed.

Lemma all_tables_agree : forall t T, In (t, T) all_tables -> registry_agrees T.
Proof.
  intros t T Hin. apply registry_agreesb_sound.
  pose proof all_tables_agree_b as H. rewrite forallb_forall in H. exact (H (t, T) Hin).
Qed.

Lemma all_tables_agree_flat : forall t T n v v',
  In (t, T) all_tables -> In (n, v) T -> registry_lookup n = Some v' -> v = v'.
Proof. intros t T n v v' Ht. exact (all_tables_agree t T Ht n v v'). Qed.

Lemma in_all_tables : forall t T,
  find (fun x => String.eqb (fst x) t) all_tables = Some (t, T) -> In (t, T) all_tables.
Proof. intros t T H. apply find_some in H. destruct H as [H _]. exact H. Qed.

(* ---- the registry is a function: no name twice, so lookup = membership *)
Lemma names_distinct_nodup : forall l, names_distinct l = true -> NoDup l.
Proof.
  induction l as [|n r IH]; intros H; [constructor|].
  cbn [names_distinct] in H. apply andb_true_iff in H. destruct H as [Hn Hr].
  constructor; [|exact (IH Hr)].
  intro Hin. apply negb_true_iff in Hn.
  assert (existsb (String.eqb n) r = true) as E.
  { apply existsb_exists. exists n. split; [exact Hin|apply String.eqb_refl]. }
  rewrite E in Hn. discriminate.
Qed.

Lemma registry_names_distinct_b : names_distinct (map fst registry) = true.
Proof. vm_compute. reflexivity. Qed.

Lemma registry_nodup : NoDup (map fst registry).
Proof. exact (names_distinct_nodup _ registry_names_distinct_b). Qed.

Lemma tfind_of_in_nodup : forall (T : table) n v, NoDup (map fst T) -> In (n, v) T -> tfind T n = Some v.
Proof.
  induction T as [|[m x] r IH]; intros n v Hnd Hin; [destruct Hin|].
  cbn [map fst] in Hnd. inversion Hnd as [|? ? Hnotin Hnd']. subst.
  cbn [tfind]. destruct Hin as [Heq|Hin].
  - injection Heq as Hm Hx. subst m x. rewrite String.eqb_refl. reflexivity.
  - destruct (String.eqb m n) eqn:E.
    + apply String.eqb_eq in E. subst m. exfalso. apply Hnotin.
      change n with (fst (n, v)). apply in_map. exact Hin.
    + exact (IH n v Hnd' Hin).
Qed.

Lemma registry_lookup_iff : forall n v, registry_lookup n = Some v <-> In (n, v) registry.
Proof.
  intros n v. split.
  - exact (tfind_in registry n v).
  - exact (tfind_of_in_nodup registry n v registry_nodup).
Qed.

(* the statement without any lookup function: membership in the two lists *)
Lemma all_tables_agree_membership : forall t T n v v',
  In (t, T) all_tables -> In (n, v) T -> In (n, v') registry -> v = v'.
Proof.
  intros t T n v v' Ht Hn Hr. apply (all_tables_agree_flat t T n v v' Ht Hn).
  apply registry_lookup_iff. exact Hr.
Qed.

(* names on which the registries disagree are not in the registry: an inconsistency between
   glibc and LLVM can never count against the library *)
Lemma conflicts_excluded : forall n, In n (map fst registry_conflicts) -> registry_lookup n = None.
Proof.
  assert (forallb (fun n => match registry_lookup n with None => true | Some _ => false end)
                  (map fst registry_conflicts) = true) as H by (vm_compute; reflexivity).
  rewrite forallb_forall in H. intros n Hin. specialize (H n Hin).
  destruct (registry_lookup n); [discriminate|reflexivity].
Qed.

(* ---- per table, grouped as the property text groups them *)
Lemma agrees_file_header :
  registry_agrees tbl_ENUM_EI_CLASS /\ registry_agrees tbl_ENUM_EI_DATA /\ registry_agrees tbl_ENUM_E_VERSION /\
  registry_agrees tbl_ENUM_EI_OSABI /\ registry_agrees tbl_ENUM_E_TYPE /\ registry_agrees tbl_ENUM_E_MACHINE /\
  registry_agrees tbl_E_FLAGS.
Proof. repeat split; table_agrees. Qed.

Lemma agrees_sections :
  registry_agrees tbl_ENUM_SH_TYPE_BASE /\ registry_agrees tbl_ENUM_SH_TYPE_AMD64 /\
  registry_agrees tbl_ENUM_SH_TYPE_ARM /\ registry_agrees tbl_ENUM_SH_TYPE_AARCH64 /\
  registry_agrees tbl_ENUM_SH_TYPE_RISCV /\ registry_agrees tbl_ENUM_SH_TYPE_MIPS /\
  registry_agrees tbl_SH_FLAGS /\ registry_agrees tbl_SHN_INDICES /\ registry_agrees tbl_ENUM_ST_SHNDX /\
  registry_agrees tbl_ENUM_ELFCOMPRESS_TYPE.
Proof. repeat split; table_agrees. Qed.

Lemma agrees_segments :
  registry_agrees tbl_ENUM_P_TYPE_BASE /\ registry_agrees tbl_ENUM_P_TYPE_ARM /\
  registry_agrees tbl_ENUM_P_TYPE_AARCH64 /\ registry_agrees tbl_ENUM_P_TYPE_MIPS /\
  registry_agrees tbl_ENUM_P_TYPE_RISCV /\ registry_agrees tbl_P_FLAGS.
Proof. repeat split; table_agrees. Qed.

Lemma agrees_dynamic :
  registry_agrees tbl_ENUM_D_TAG_COMMON /\ registry_agrees tbl_ENUM_D_TAG_SOLARIS /\
  registry_agrees tbl_ENUM_D_TAG_MIPS /\ registry_agrees tbl_ENUM_D_TAG_AARCH64 /\ registry_agrees tbl_ENUM_D_TAG /\
  registry_agrees tbl_ENUM_DT_FLAGS /\ registry_agrees tbl_ENUM_DT_FLAGS_1 /\ registry_agrees tbl_RH_FLAGS.
Proof. repeat split; table_agrees. Qed.

Lemma agrees_symbols :
  registry_agrees tbl_ENUM_ST_INFO_BIND /\ registry_agrees tbl_ENUM_ST_INFO_TYPE /\
  registry_agrees tbl_ENUM_ST_VISIBILITY /\ registry_agrees tbl_ENUM_ST_LOCAL /\
  registry_agrees tbl_ENUM_VERSYM /\ registry_agrees tbl_VER_FLAGS /\
  registry_agrees tbl_ENUM_SUNW_SYMINFO_BOUNDTO /\ registry_agrees tbl_SUNW_SYMINFO_FLAGS.
Proof. repeat split; table_agrees. Qed.

Lemma agrees_notes :
  registry_agrees tbl_ENUM_NOTE_N_TYPE /\ registry_agrees tbl_ENUM_CORE_NOTE_N_TYPE /\
  registry_agrees tbl_ENUM_NOTE_ABI_TAG_OS /\ registry_agrees tbl_ENUM_NOTE_GNU_PROPERTY_TYPE /\
  registry_agrees tbl_ENUM_GNU_PROPERTY_X86_FEATURE_1_FLAGS.
Proof. repeat split; table_agrees. Qed.

Lemma agrees_relocations :
  registry_agrees tbl_ENUM_RELOC_TYPE_i386 /\ registry_agrees tbl_ENUM_RELOC_TYPE_x64 /\
  registry_agrees tbl_ENUM_RELOC_TYPE_ARM /\ registry_agrees tbl_ENUM_RELOC_TYPE_AARCH64 /\
  registry_agrees tbl_ENUM_RELOC_TYPE_MIPS /\ registry_agrees tbl_ENUM_RELOC_TYPE_PPC /\
  registry_agrees tbl_ENUM_RELOC_TYPE_PPC64 /\ registry_agrees tbl_ENUM_RELOC_TYPE_S390X /\
  registry_agrees tbl_ENUM_RELOC_TYPE_BPF /\ registry_agrees tbl_ENUM_RELOC_TYPE_LOONGARCH.
Proof. repeat split; table_agrees. Qed.

Lemma agrees_dwarf_dies :
  registry_agrees tbl_ENUM_DW_TAG /\ registry_agrees tbl_ENUM_DW_CHILDREN /\ registry_agrees tbl_ENUM_DW_AT /\
  registry_agrees tbl_ENUM_DW_FORM /\ registry_agrees tbl_DW_FORM_raw2name /\ registry_agrees tbl_ENUM_DW_UT /\
  registry_agrees tbl_CONST_DW_UT.
Proof. repeat split; table_agrees. Qed.

Lemma agrees_dwarf_attribute_values :
  registry_agrees tbl_ENUM_DW_LANG /\ registry_agrees tbl_CONST_DW_LANG /\ registry_agrees tbl_ENUM_DW_ATE /\
  registry_agrees tbl_CONST_DW_ATE /\ registry_agrees tbl_ENUM_DW_ACCESS /\ registry_agrees tbl_CONST_DW_ACCESS /\
  registry_agrees tbl_ENUM_DW_INL /\ registry_agrees tbl_CONST_DW_INL /\ registry_agrees tbl_ENUM_DW_CC /\
  registry_agrees tbl_CONST_DW_CC /\ registry_agrees tbl_CONST_DW_VIS /\ registry_agrees tbl_CONST_DW_VIRTUALITY /\
  registry_agrees tbl_CONST_DW_ID /\ registry_agrees tbl_CONST_DW_ORD.
Proof. repeat split; table_agrees. Qed.

Lemma agrees_dwarf_expressions :
  registry_agrees tbl_DW_OP_name2opcode /\ registry_agrees tbl_DW_OP_opcode2name.
Proof. repeat split; table_agrees. Qed.

Lemma agrees_dwarf_line_programs :
  registry_agrees tbl_CONST_DW_LNS /\ registry_agrees tbl_CONST_DW_LNE /\ registry_agrees tbl_CONST_DW_LNCT /\
  registry_agrees tbl_ENUM_DW_LNCT.
Proof. repeat split; table_agrees. Qed.

Lemma agrees_dwarf_call_frames :
  registry_agrees tbl_CONST_DW_CFA /\ registry_agrees tbl_callframe_DW_CFA /\
  registry_agrees tbl_callframe_OPCODE_NAME_MAP /\ registry_agrees tbl_DW_EH_encoding_flags.
Proof. repeat split; table_agrees. Qed.

Lemma agrees_dwarf_list_entries : registry_agrees tbl_ENUM_DW_LLE /\ registry_agrees tbl_ENUM_DW_RLE.
Proof. repeat split; table_agrees. Qed.

(* ---- the derived (inverse) maps carry the pairs of the tables they are computed from *)
Definition inclb (A B : table) : bool :=
  forallb (fun nv => existsb (fun mw => String.eqb (fst nv) (fst mw) && Z.eqb (snd nv) (snd mw)) B) A.

Lemma inclb_sound : forall A B, inclb A B = true -> incl A B.
Proof.
  intros A B H [n v] Hin. unfold inclb in H. rewrite forallb_forall in H. specialize (H (n, v) Hin).
  apply existsb_exists in H. destruct H as [[m w] [Hm Heq]]. cbn [fst snd] in Heq.
  apply andb_true_iff in Heq. destruct Heq as [E1 E2].
  apply String.eqb_eq in E1. apply Z.eqb_eq in E2. subst m w. exact Hm.
Qed.

Lemma inverse_maps_consistent :
  incl tbl_DW_FORM_raw2name tbl_ENUM_DW_FORM /\ incl tbl_DW_OP_opcode2name tbl_DW_OP_name2opcode /\
  incl tbl_callframe_OPCODE_NAME_MAP tbl_callframe_DW_CFA /\ incl tbl_callframe_DW_CFA tbl_CONST_DW_CFA.
Proof. repeat split; apply inclb_sound; vm_compute; reflexivity. Qed.

(* ---- consequences for decoding and encoding through construct's Enum *)
Lemma code_reported_under_registry_name : forall t T d v n v',
  In (t, T) all_tables -> enum_decode T d v = Name n -> registry_lookup n = Some v' -> v' = v.
Proof.
  intros t T d v n v' Ht Hd Hl.
  exact (decode_registry_value registry_lookup T d v n v' (all_tables_agree t T Ht) Hd Hl).
Qed.

Lemma name_selects_registry_code : forall t T n v v',
  In (t, T) all_tables -> enum_encode T n = Some v -> registry_lookup n = Some v' -> v = v'.
Proof.
  intros t T n v v' Ht He Hl.
  exact (encode_registry_value registry_lookup T n v v' (all_tables_agree t T Ht) He Hl).
Qed.

(* a code that carries a registry name in the table is never reported raw: it is reported
   under a name of the table with that value (the last one in dict order) *)
Lemma registry_code_is_named : forall t T d n v,
  In (t, T) all_tables -> In (n, v) T -> exists m, enum_decode T d v = Name m /\ In (m, v) T /\
    forall v', registry_lookup m = Some v' -> v' = v.
Proof.
  intros t T d n v Ht Hin. destruct (enum_decode_named T d v n Hin) as [m [Hd Hm]].
  exists m. split; [exact Hd|]. split; [exact Hm|].
  intros v' Hl. symmetry. exact (all_tables_agree t T Ht m v v' Hm Hl).
Qed.
