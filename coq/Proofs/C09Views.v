(* Proofs/C09Views.v — for images satisfying the boolean consistency predicate of
   Spec/C09Dyn.v, the DynamicSegment of the image with its section header table removed
   yields what the DynamicSection of the original yields. *)
From PV Require Import Model.C09Dynamic Base.Enum Spec.PrimSpec.
From PV Require Import Proofs.PrimProofs Proofs.FmtProofs Proofs.ElfLayoutFacts Proofs.C09Tables Proofs.C09Tags.
From Coq Require Import ZifyBool.
Open Scope string_scope.
Open Scope list_scope.
Open Scope Z_scope.

(* ---------- generic ---------- *)
Lemma combine_eqb_eq : forall a b : list Z, length a = length b ->
  forallb (fun p => fst p =? snd p) (combine a b) = true -> a = b.
Proof.
  induction a as [|x a IH]; intros [|y b] Hl H; try discriminate; [reflexivity|].
  cbn [combine forallb fst snd] in H. apply andb_prop in H. destruct H as [Hx Hr].
  cbn [length] in Hl. f_equal; [lia|]. apply IH; [lia|exact Hr].
Qed.

Lemma dents_eqb_eq : forall a b : list dent, dents_eqb a b = true -> a = b.
Proof.
  unfold dents_eqb. induction a as [|[x1 x2] a IH]; intros [|[y1 y2] b] H; try discriminate; [reflexivity|].
  cbn [length Nat.eqb combine forallb fst snd] in H. rewrite !andb_true_iff in H.
  destruct H as [Hl [[H1 H2] Hr]]. f_equal; [f_equal; lia|]. apply IH. rewrite Hl, Hr. reflexivity.
Qed.

Lemma seekz_0 {A} (l : list A) : seekz l 0 = l.
Proof. rewrite seekz_skipn. reflexivity. Qed.

Lemma decode_in_bounds L img pos sz r t :
  layout_size L = Some sz -> (0 < sz)%nat -> 0 <= pos ->
  decode_layout L (seekz img pos) = Some (r, t) -> pos + Z.of_nat sz <= zlen img.
Proof.
  intros Hs Hpos Hp Hd. destruct (Z.leb_spec (pos + Z.of_nat sz) (zlen img)) as [|Hlt]; [assumption|].
  unfold decode_layout in Hd. rewrite (decode_fields_short L [] _ sz Hs) in Hd; [discriminate|].
  pose proof (seekz_length img pos Hp) as Hl. unfold zlen in *. lia.
Qed.

(* the records of a header table, one by one *)
Lemma read_recs_nth L img stride : forall n off rs, read_recs L img off stride n = Some rs ->
  length rs = n /\
  forall i, (i < n)%nat -> exists t, decode_layout L (seekz img (off + Z.of_nat i * stride)) = Some (nth i rs [], t).
Proof.
  induction n as [|n IH]; intros off rs H; cbn [read_recs] in H.
  - inversion H; subst. split; [reflexivity|]. intros i Hi. lia.
  - destruct (decode_layout L (seekz img off)) as [[r t]|] eqn:Ed; [|discriminate].
    destruct (read_recs L img (off + stride) stride n) as [rs'|] eqn:Er; [|discriminate].
    inversion H; subst. destruct (IH _ _ Er) as [Hl Hn]. split; [cbn [length]; lia|].
    intros [|i] Hi.
    + exists t. cbn [nth]. replace (off + Z.of_nat 0 * stride) with off by lia. exact Ed.
    + destruct (Hn i ltac:(lia)) as [t' Ht']. exists t'. cbn [nth].
      replace (off + Z.of_nat (S i) * stride) with (off + stride + Z.of_nat i * stride) by lia. exact Ht'.
Qed.

(* bytes behind the ELF header are shared by an image and its stripped form *)
Definition same_behind (k : Z) (img img' : list Z) : Prop :=
  length img = length img' /\ skipn (Z.to_nat k) img = skipn (Z.to_nat k) img'.
Lemma same_behind_seekz k img img' pos : same_behind k img img' -> 0 <= k <= pos ->
  seekz img pos = seekz img' pos.
Proof.
  intros [_ H] Hk. replace pos with (k + (pos - k)) by lia.
  rewrite !seekz_add, !(seekz_skipn _ k), H by lia. reflexivity.
Qed.

(* ---------- ELFFile.__init__ ---------- *)
Lemma spec_open_elf_open img le is64 h : spec_open img = Some (le, is64, h) ->
  exists f, elf_open img = Ok f /\ f_img f = img /\ f_le f = le /\ f_is64 f = is64 /\ f_eh f = h.
Proof.
  unfold spec_open, elf_open. destruct img as [|m0 [|m1 [|m2 [|m3 [|c [|d img']]]]]]; try discriminate.
  set (img := m0 :: m1 :: m2 :: m3 :: c :: d :: img').
  destruct ((m0 =? 127) && (m1 =? 69) && (m2 =? 76) && (m3 =? 70)) eqn:Em; cbn [andb negb]; [|discriminate].
  destruct ((c =? 1) || (c =? 2)) eqn:Ec; cbn [andb negb]; [|discriminate].
  destruct ((d =? 1) || (d =? 2)) eqn:Edd; cbn [andb negb]; [|discriminate].
  unfold parse_at. rewrite seekz_0, gen_Elf_Ehdr_gabi.
  destruct (decode_layout _ img) as [[r t]|]; [|discriminate]. intros H. inversion H; subst. cbn [bind].
  destruct (ptab_ok (e_machine (ehdr_of r))) as [pt [-> Hpt]].
  destruct (stab_ok (e_machine (ehdr_of r))) as [st [-> Hst]].
  rewrite dtab_selection. cbn [bind]. eexists. split; [reflexivity|]. cbn. auto.
Qed.

(* ---------- header tables: what the model reads is what the standard's reader reads ---------- *)
Lemma segment_headers_go_read f : phdr_size (f_is64 f) <= e_phentsize (f_eh f) ->
  forall n i rs,
  read_recs (spec_Elf_Phdr (f_le f) (f_is64 f)) (f_img f) (e_phoff (f_eh f) + i * e_phentsize (f_eh f))
            (e_phentsize (f_eh f)) n = Some rs ->
  segment_headers_go f i n = Ok (map phdr_of rs).
Proof.
  intros Hsz. induction n as [|n IH]; intros i rs H; cbn [read_recs] in H.
  - inversion H; subst. reflexivity.
  - match type of H with context [decode_layout ?a ?b] => destruct (decode_layout a b) as [[r t]|] eqn:Ed end; [|discriminate].
    match type of H with context [read_recs ?a ?b ?c ?d n] => destruct (read_recs a b c d n) as [rs'|] eqn:Er end; [|discriminate]. inversion H; subst.
    cbn [segment_headers_go]. unfold segment_header at 1. unfold Phdr_sizeof.
    replace (e_phentsize (f_eh f) <? phdr_size (f_is64 f)) with false by lia. rewrite andb_false_r.
    unfold parse_at. rewrite gen_Elf_Phdr_gabi, Ed. cbn [bind].
    rewrite (IH (i + 1) rs'); [reflexivity|].
    replace (e_phoff (f_eh f) + (i + 1) * e_phentsize (f_eh f))
      with (e_phoff (f_eh f) + i * e_phentsize (f_eh f) + e_phentsize (f_eh f)) by lia. exact Er.
Qed.

Lemma segment_headers_read f prs : phdr_size (f_is64 f) <= e_phentsize (f_eh f) ->
  e_phnum (f_eh f) < 0xffff ->
  read_recs (spec_Elf_Phdr (f_le f) (f_is64 f)) (f_img f) (e_phoff (f_eh f)) (e_phentsize (f_eh f))
            (Z.to_nat (e_phnum (f_eh f))) = Some prs ->
  segment_headers f = Ok (map phdr_of prs).
Proof.
  intros Hsz Hn H. unfold segment_headers. replace (e_phnum (f_eh f) <? 65535) with true by lia.
  apply segment_headers_go_read; [exact Hsz|].
  replace (e_phoff (f_eh f) + 0 * e_phentsize (f_eh f)) with (e_phoff (f_eh f)) by lia. exact H.
Qed.

Lemma shdr_size_nat (is64 : bool) : Z.of_nat (if is64 then 64%nat else 40%nat) = shdr_size is64.
Proof. destruct is64; reflexivity. Qed.

Lemma section_header_at f n r t :
  shdr_size (f_is64 f) <= e_shentsize (f_eh f) -> 0 <= e_shoff (f_eh f) + n * e_shentsize (f_eh f) ->
  decode_layout (spec_Elf_Shdr (f_le f) (f_is64 f))
                (seekz (f_img f) (e_shoff (f_eh f) + n * e_shentsize (f_eh f))) = Some (r, t) ->
  section_header f n = Ok (shdr_of r).
Proof.
  intros Hsz Hpos Hd. unfold section_header, Shdr_sizeof, stream_len.
  replace (e_shentsize (f_eh f) <? shdr_size (f_is64 f)) with false by lia. rewrite andb_false_r.
  pose proof (decode_in_bounds _ _ _ _ _ _ (size_Shdr (f_le f) (f_is64 f))
                ltac:(destruct (f_is64 f); lia) Hpos Hd) as Hb.
  rewrite shdr_size_nat in Hb. assert (0 < shdr_size (f_is64 f)) by (destruct (f_is64 f); cbn; lia).
  replace (zlen (f_img f) <? e_shoff (f_eh f) + n * e_shentsize (f_eh f)) with false by lia.
  unfold parse_at. rewrite gen_Elf_Shdr_gabi, Hd. reflexivity.
Qed.

Lemma section_headers_go_read f : shdr_size (f_is64 f) <= e_shentsize (f_eh f) -> 0 <= e_shoff (f_eh f) ->
  forall n i rs, 0 <= i ->
  read_recs (spec_Elf_Shdr (f_le f) (f_is64 f)) (f_img f) (e_shoff (f_eh f) + i * e_shentsize (f_eh f))
            (e_shentsize (f_eh f)) n = Some rs ->
  section_headers_go f i n = Ok (map shdr_of rs).
Proof.
  intros Hsz Hoff. assert (Hpos : 0 < shdr_size (f_is64 f)) by (destruct (f_is64 f); cbn; lia).
  induction n as [|n IH]; intros i rs Hi H; cbn [read_recs] in H.
  - inversion H; subst. reflexivity.
  - match type of H with context [decode_layout ?a ?b] => destruct (decode_layout a b) as [[r t]|] eqn:Ed end; [|discriminate].
    match type of H with context [read_recs ?a ?b ?c ?d n] => destruct (read_recs a b c d n) as [rs'|] eqn:Er end; [|discriminate]. inversion H; subst.
    cbn [section_headers_go]. rewrite (section_header_at f i r t Hsz ltac:(nia) Ed). cbn [bind].
    rewrite (IH (i + 1) rs'); [reflexivity|lia|].
    replace (e_shoff (f_eh f) + (i + 1) * e_shentsize (f_eh f))
      with (e_shoff (f_eh f) + i * e_shentsize (f_eh f) + e_shentsize (f_eh f)) by lia. exact Er.
Qed.

Lemma nthz_nth_error {A} (l : list A) i x : nthz l i = Some x -> 0 <= i /\ nth_error l (Z.to_nat i) = Some x.
Proof.
  unfold nthz. destruct (Z.ltb_spec i 0) as [Hi|Hi]; [discriminate|]. rewrite seekz_skipn. intros H. split; [lia|].
  revert H. generalize (Z.to_nat i). intros n. revert l. induction n as [|n IH]; intros [|y l] H; cbn in *; try discriminate; auto.
Qed.

Lemma nth_error_map_inv {A B} (g : A -> B) (d : A) : forall l n y, nth_error (map g l) n = Some y ->
  (n < length l)%nat /\ y = g (nth n l d).
Proof.
  induction l as [|x l IH]; intros [|n] y H; cbn in *; try discriminate.
  - inversion H. split; [lia|reflexivity].
  - destruct (IH n y H). split; [lia|assumption].
Qed.

(* get_section(n) for n inside the table *)
Lemma section_header_nth f srs n st :
  shdr_size (f_is64 f) <= e_shentsize (f_eh f) -> 0 <= e_shoff (f_eh f) ->
  read_recs (spec_Elf_Shdr (f_le f) (f_is64 f)) (f_img f) (e_shoff (f_eh f)) (e_shentsize (f_eh f))
            (Z.to_nat (e_shnum (f_eh f))) = Some srs ->
  nthz (map shdr_of srs) n = Some st ->
  section_header f n = Ok st.
Proof.
  intros Hsz Hoff Hr Hn. apply nthz_nth_error in Hn. destruct Hn as [Hn0 Hn].
  apply (nth_error_map_inv shdr_of []) in Hn. destruct Hn as [Hlt ->].
  destruct (read_recs_nth _ _ _ _ _ _ Hr) as [Hl Hnth]. rewrite Hl in Hlt.
  destruct (Hnth (Z.to_nat n) Hlt) as [t Ht]. rewrite Z2Nat.id in Ht by lia.
  assert (0 < shdr_size (f_is64 f)) by (destruct (f_is64 f); cbn; lia).
  apply (section_header_at f n _ t Hsz); [nia|exact Ht].
Qed.

(* iter_sections of an image with a section header table *)
Lemma section_headers_read f srs :
  shdr_size (f_is64 f) <= e_shentsize (f_eh f) -> 0 < e_shoff (f_eh f) -> 0 < e_shnum (f_eh f) ->
  read_recs (spec_Elf_Shdr (f_le f) (f_is64 f)) (f_img f) (e_shoff (f_eh f)) (e_shentsize (f_eh f))
            (Z.to_nat (e_shnum (f_eh f))) = Some srs ->
  section_headers f = Ok (map shdr_of srs).
Proof.
  intros Hsz Hoff Hnum Hr. unfold section_headers, num_sections.
  replace (e_shoff (f_eh f) =? 0) with false by lia. replace (e_shnum (f_eh f) =? 0) with false by lia.
  cbn [bind].
  assert (Hcl : clampn (f_img f) (e_shnum (f_eh f)) = Z.to_nat (e_shnum (f_eh f))).
  { unfold clampn. f_equal.
    destruct (read_recs_nth _ _ _ _ _ _ Hr) as [Hl Hnth].
    destruct (Hnth (Z.to_nat (e_shnum (f_eh f) - 1)) ltac:(lia)) as [t Ht].
    rewrite Z2Nat.id in Ht by lia.
    assert (0 < shdr_size (f_is64 f)) by (destruct (f_is64 f); cbn; lia).
    assert (Hp : 0 <= e_shoff (f_eh f) + (e_shnum (f_eh f) - 1) * e_shentsize (f_eh f)) by nia.
    assert (Hs0 : (0 < (if f_is64 f then 64 else 40))%nat) by (destruct (f_is64 f); lia).
    pose proof (decode_in_bounds _ _ _ _ _ _ (size_Shdr (f_le f) (f_is64 f)) Hs0 Hp Ht) as Hb.
    rewrite shdr_size_nat in Hb. nia. }
  rewrite Hcl. apply section_headers_go_read; [exact Hsz|lia|lia|].
  replace (e_shoff (f_eh f) + 0 * e_shentsize (f_eh f)) with (e_shoff (f_eh f)) by lia. exact Hr.
Qed.

(* ... and of one without *)
Lemma section_headers_stripped f : e_shoff (f_eh f) = 0 -> section_headers f = Ok [].
Proof.
  intros H. unfold section_headers, num_sections. rewrite H. cbn [Z.eqb bind].
  unfold clampn. replace (Z.to_nat (Z.min 0 (zlen (f_img f) + 1))) with O by (pose proof (zlen_nonneg (f_img f)); lia).
  reflexivity.
Qed.

(* ---------- the tag iterator is the standard's reader of the dynamic array ---------- *)
Lemma decode_dyn_read le is64 bs :
  decode_layout (spec_Elf_Dyn le is64) bs =
  match take (wbytes is64) bs with
  | None => None
  | Some (t, r1) =>
      match take (wbytes is64) r1 with
      | None => None
      | Some (v, r2) => Some ([("d_tag", VZ (sint_decode le t)); ("d_val", VZ (int_decode le v));
                               ("d_ptr", VZ (int_decode le v))], r2)
      end
  end.
Proof.
  destruct le, is64; unfold decode_layout; cbn [spec_Elf_Dyn decode_fields decode_kind wbytes];
    (destruct (take _ bs) as [[t r1]|]; [|reflexivity]); cbn [rev app];
    (destruct (take _ r1) as [[v r2]|]; [|reflexivity]); reflexivity.
Qed.

Lemma raw_tags_go_read f dy : dy_empty dy = false -> name_is (f_dtab f) DT_NULL "DT_NULL" -> 0 <= dy_off dy ->
  forall fuel fuel' n l, 0 <= n -> (fuel <= fuel')%nat ->
  dyn_read (f_le f) (f_is64 f) fuel (seekz (f_img f) (dy_off dy + n * Dyn_sizeof f)) = Some l ->
  raw_tags_go fuel' f dy n = Ok (map (raw_of (f_dtab f)) l).
Proof.
  intros Hne Hnull Hoff. assert (Hsz : 0 < Dyn_sizeof f) by (unfold Dyn_sizeof; destruct (f_is64 f); cbn; lia).
  induction fuel as [|k IH]; intros fuel' n l Hn Hle H; cbn [dyn_read] in H; [discriminate|].
  destruct fuel' as [|k']; [lia|]. cbn [raw_tags_go]. unfold get_tag_raw. rewrite Hne.
  unfold parse_at. rewrite gen_Elf_Dyn_gabi, decode_dyn_read.
  set (bs := seekz (f_img f) (dy_off dy + n * Dyn_sizeof f)) in *.
  destruct (take (wbytes (f_is64 f)) bs) as [[t r1]|] eqn:E1; [|discriminate].
  destruct (take (wbytes (f_is64 f)) r1) as [[v r2]|] eqn:E2; [|discriminate].
  cbn [bind fst]. change (rec_z _ "d_tag") with (sint_decode (f_le f) t).
  change (rec_z _ "d_val") with (int_decode (f_le f) v).
  rewrite (Hnull (sint_decode (f_le f) t)). cbn [fst] in H.
  destruct (sint_decode (f_le f) t =? DT_NULL).
  - inversion H; subst. reflexivity.
  - match type of H with context [dyn_read ?a ?b k r2] => destruct (dyn_read a b k r2) as [l'|] eqn:Er end; [|discriminate].
    inversion H; subst. rewrite (IH k' (n + 1) l'); [reflexivity|lia|lia|].
    apply take_some in E1, E2. destruct E1 as [Hb1 Hl1]. destruct E2 as [Hb2 Hl2].
    replace (dy_off dy + (n + 1) * Dyn_sizeof f) with (dy_off dy + n * Dyn_sizeof f + Dyn_sizeof f) by lia.
    rewrite seekz_add by nia. fold bs. rewrite Hb1, Hb2, seekz_skipn, app_assoc, skipn_app.
    replace (Z.to_nat (Dyn_sizeof f)) with (length (t ++ v))
      by (rewrite app_length, Hl1, Hl2; unfold Dyn_sizeof, wbytes; destruct (f_is64 f); reflexivity).
    rewrite skipn_all, Nat.sub_diag. exact Er.
Qed.

Lemma raw_tags_read f dy l : dy_empty dy = false -> name_is (f_dtab f) DT_NULL "DT_NULL" -> 0 <= dy_off dy ->
  dyn_table (f_le f) (f_is64 f) (seekz (f_img f) (dy_off dy)) = Some l ->
  raw_tags f dy = Ok (map (raw_of (f_dtab f)) l).
Proof.
  intros Hne Hnull Hoff H. unfold raw_tags. rewrite Hne. unfold dyn_table in H.
  apply (raw_tags_go_read f dy Hne Hnull Hoff (S (length (seekz (f_img f) (dy_off dy))))); [lia| |].
  - rewrite seekz_skipn, skipn_length. lia.
  - replace (dy_off dy + 0 * Dyn_sizeof f) with (dy_off dy) by lia. exact H.
Qed.

(* ---------- what describe / consistent_b say ---------- *)
Lemma describe_inv img d : describe img = Some d ->
  spec_open img = Some (di_le d, di_is64 d, di_eh d) /\
  ehdr_size (di_is64 d) <= e_phoff (di_eh d) /\ phdr_size (di_is64 d) <= e_phentsize (di_eh d) /\
  e_phnum (di_eh d) < 0xffff /\
  ehdr_size (di_is64 d) <= e_shoff (di_eh d) /\ shdr_size (di_is64 d) <= e_shentsize (di_eh d) /\
  0 < e_shnum (di_eh d) /\
  exists prs srs,
    read_recs (spec_Elf_Phdr (di_le d) (di_is64 d)) img (e_phoff (di_eh d)) (e_phentsize (di_eh d))
              (Z.to_nat (e_phnum (di_eh d))) = Some prs /\
    read_recs (spec_Elf_Shdr (di_le d) (di_is64 d)) img (e_shoff (di_eh d)) (e_shentsize (di_eh d))
              (Z.to_nat (e_shnum (di_eh d))) = Some srs /\
    di_phdrs d = map phdr_of prs /\ di_shdrs d = map shdr_of srs /\
    first_where (fun p => p_type p =? PT_DYNAMIC) (di_phdrs d) = Some (di_seg d) /\
    filter (fun s => sh_type s =? SHT_DYNAMIC) (di_shdrs d) = [di_sec d] /\
    nthz (di_shdrs d) (sh_link (di_sec d)) = Some (di_str d) /\
    dyn_table (di_le d) (di_is64 d) (seekz img (p_offset (di_seg d))) = Some (di_entries d).
Proof.
  unfold describe. destruct (spec_open img) as [[[le is64] h]|]; [|discriminate].
  destruct (_ && _) eqn:Ec; [|discriminate]. rewrite !andb_true_iff in Ec.
  destruct Ec as [[[[[C1 C2] C3] C4] C5] C6].
  destruct (read_recs (spec_Elf_Phdr le is64) _ _ _ _) as [prs|] eqn:Ep; [|discriminate].
  destruct (read_recs (spec_Elf_Shdr le is64) _ _ _ _) as [srs|] eqn:Es; [|discriminate].
  destruct (first_where _ (map phdr_of prs)) as [seg|] eqn:Eseg; [|discriminate].
  destruct (filter _ (map shdr_of srs)) as [|sec [|? ?]] eqn:Esec; try discriminate.
  destruct (nthz _ _) as [st|] eqn:Est; [|discriminate].
  destruct (dyn_table _ _ _) as [es|] eqn:Ees; [|discriminate].
  intros H. inversion H; subst d. cbn [di_le di_is64 di_eh di_phdrs di_shdrs di_seg di_sec di_str di_entries].
  repeat (split; [first [reflexivity | lia]|]). exists prs, srs. repeat (split; [assumption || reflexivity|]). assumption.
Qed.

(* ---------- pieces of an image ---------- *)
Lemma img_split (img : list Z) off len : 0 <= off -> 0 <= len -> off + len <= zlen img ->
  exists pre tail, img = pre ++ firstn (Z.to_nat len) (seekz img off) ++ tail /\ zlen pre = off.
Proof.
  intros Ho Hl Hb. exists (firstn (Z.to_nat off) img), (skipn (Z.to_nat len) (seekz img off)). split.
  - rewrite firstn_skipn, seekz_skipn, firstn_skipn. reflexivity.
  - unfold zlen in *. rewrite firstn_length. lia.
Qed.

Lemma read_recs_same_behind L k img img' stride : same_behind k img img' -> 0 <= k -> 0 <= stride ->
  forall n off, k <= off -> read_recs L img off stride n = read_recs L img' off stride n.
Proof.
  intros Hs Hk Hst. induction n as [|n IH]; intros off Ho; [reflexivity|]. cbn [read_recs].
  rewrite (same_behind_seekz k img img' off Hs) by lia. rewrite (IH (off + stride)) by lia. reflexivity.
Qed.

Lemma first_where_filter {A} (g : A -> bool) l x : first_where g l = Some x -> exists r, filter g l = x :: r.
Proof. unfold first_where. destruct (filter g l) as [|y r]; [discriminate|]. intros H. inversion H. eauto. Qed.

Lemma filter_singleton_in {A} (g : A -> bool) l x : filter g l = [x] -> g x = true.
Proof. intros H. assert (Hin : In x (filter g l)) by (rewrite H; left; reflexivity). apply filter_In in Hin. tauto. Qed.

(* ---------- constructors ---------- *)
Section ctor.
Variable f : elf.
Hypothesis Hsht : forall val name, In (val, name) spec_sht_names -> name_is (f_stab f) val name.
Hypothesis Hpt : forall val name, In (val, name) spec_pt_names -> name_is (f_ptab f) val name.

Lemma sht_is_num s val name : In (val, name) spec_sht_names -> sht_is f s name = (sh_type s =? val).
Proof. intros H. unfold sht_is. apply (Hsht _ _ H). Qed.
Lemma pt_is_num p val name : In (val, name) spec_pt_names -> pt_is f p name = (p_type p =? val).
Proof. intros H. unfold pt_is. apply (Hpt _ _ H). Qed.

Lemma filter_dynamic_sections ss :
  filter (fun s => sht_is f s "SHT_DYNAMIC") ss = filter (fun s => sh_type s =? SHT_DYNAMIC) ss.
Proof. apply filter_ext. intros s. apply sht_is_num. cbn; tauto. Qed.
Lemma filter_dynamic_segments ps :
  filter (fun p => pt_is f p "PT_DYNAMIC") ps = filter (fun p => p_type p =? PT_DYNAMIC) ps.
Proof. apply filter_ext. intros p. apply pt_is_num. cbn; tauto. Qed.

(* DynamicSection.__init__ of the one SHT_DYNAMIC section whose link is a string table *)
Lemma dynamic_section_init_ok sec str :
  sh_type sec = SHT_DYNAMIC -> sh_type str = SHT_STRTAB -> section_header f (sh_link sec) = Ok str ->
  dynamic_section_init f sec = Ok (mkDyn (sh_offset sec) false (Some (StSection (sh_offset str) true))).
Proof.
  intros Hsec Hstr Hh. unfold dynamic_section_init. rewrite Hh. cbn [bind].
  rewrite (sht_is_num str SHT_STRTAB "SHT_STRTAB"), (sht_is_num sec SHT_NOBITS "SHT_NOBITS") by (cbn; tauto).
  rewrite Hstr, Hsec. reflexivity.
Qed.

(* DynamicSegment.__init__: the string table is found through the section at the segment's offset *)
Lemma find_dynsec_strtab_one p sec str :
  sh_type sec = SHT_DYNAMIC -> sh_type str = SHT_STRTAB -> section_header f (sh_link sec) = Ok str ->
  forall ss, (filter (fun s => sh_type s =? SHT_DYNAMIC) ss = [] -> find_dynsec_strtab f p ss = Ok None) /\
             (filter (fun s => sh_type s =? SHT_DYNAMIC) ss = [sec] ->
              find_dynsec_strtab f p ss =
              Ok (if sh_offset sec =? p_offset p then Some (StSection (sh_offset str) true) else None)).
Proof.
  intros Hsec Hstr Hh. induction ss as [|s r [IH0 IH1]].
  - split; intros H; [reflexivity|discriminate].
  - cbn [find_dynsec_strtab filter]. rewrite (sht_is_num s SHT_DYNAMIC "SHT_DYNAMIC") by (cbn; tauto).
    destruct (sh_type s =? SHT_DYNAMIC) eqn:Es.
    + split; intros H; [discriminate|]. inversion H as [[Hs Hr]]. subst s.
      rewrite (dynamic_section_init_ok sec str Hsec Hstr Hh). cbn [bind].
      destruct (sh_offset sec =? p_offset p).
      * rewrite Hh. cbn [bind]. rewrite (sht_is_num str SHT_STRTAB "SHT_STRTAB") by (cbn; tauto).
        rewrite Hstr. reflexivity.
      * apply IH0. exact Hr.
    + split; intros H; [apply IH0|apply IH1]; exact H.
Qed.
End ctor.

(* ---------- the views, each computed from what the headers say ---------- *)
Section views.
Variable f : elf.
Variables (m o : Z).
Hypothesis HT : f_dtab f = spec_dtab m o.
Hypothesis Hsht : forall val name, In (val, name) spec_sht_names -> name_is (f_stab f) val name.
Hypothesis Hpt : forall val name, In (val, name) spec_pt_names -> name_is (f_ptab f) val name.
Let sol := spec_is_solaris m o.
Let Hnull : name_is (f_dtab f) DT_NULL "DT_NULL" := dt_name f m o DT_NULL "DT_NULL" HT ltac:(cbn; tauto).

(* iter_tags when the constructor got no string table *)
Lemma iter_tags_all_pointed ps off es sp len (pre2 tab tail2 : list Z) :
  f_img f = pre2 ++ tab ++ tail2 ->
  first_val DT_STRTAB es = Some sp -> sp <> 0 -> addr_to_off ps sp len = Some (zlen pre2) ->
  strings_ok sol tab es = true ->
  iter_tags_all f ps (map (raw_of (f_dtab f)) es) (mkDyn off false None)
  = Ok (map (expected_tag (f_dtab f) sol tab) es).
Proof.
  intros Himg Hsp Hnz Hmap Hok. unfold iter_tags_all, get_stringtable. cbn [dy_str].
  rewrite (get_table_offset_spec f ps es DT_STRTAB "DT_STRTAB") by (apply (dt_name _ _ _ _ _ HT); cbn; tauto).
  rewrite Hsp. cbn [snd]. destruct (Z.eqb_spec sp 0) as [|_]; [contradiction|].
  rewrite (address_offset_first f ps sp len _ (Hpt _ _ ltac:(cbn; tauto)) Hmap).
  apply (dynamic_tags_exact f (StDynamic (zlen pre2)) m o pre2 tab tail2 es HT Himg); try reflexivity. exact Hok.
Qed.

(* DynamicSection *)
Lemma section_view ss sec str es (pre2 tab tail2 : list Z) :
  section_headers f = Ok ss -> filter (fun s => sh_type s =? SHT_DYNAMIC) ss = [sec] ->
  section_header f (sh_link sec) = Ok str -> sh_type str = SHT_STRTAB -> 0 <= sh_offset sec ->
  dyn_table (f_le f) (f_is64 f) (seekz (f_img f) (sh_offset sec)) = Some es ->
  f_img f = pre2 ++ tab ++ tail2 -> zlen pre2 = sh_offset str -> strings_ok sol tab es = true ->
  (do dy <- the_dynamic_section f; view_tags f dy) = Ok (map (expected_tag (f_dtab f) sol tab) es).
Proof.
  intros Hss Hfil Hstr Hty Hoff Hes Himg Hpre Hok.
  unfold the_dynamic_section. rewrite Hss. cbn [bind].
  rewrite (filter_dynamic_sections f Hsht), Hfil. cbn [first_res bind].
  assert (Hsec : sh_type sec = SHT_DYNAMIC) by (apply filter_singleton_in in Hfil; lia).
  rewrite (dynamic_section_init_ok f Hsht sec str Hsec Hty Hstr). cbn [bind].
  unfold view_tags. match goal with |- context [raw_tags f ?dy] => rewrite (raw_tags_read f dy es eq_refl Hnull) by (cbn [dy_off]; assumption) end.
  cbn [bind dy_str]. unfold iter_tags_all, get_stringtable. cbn [dy_str].
  apply (dynamic_tags_exact f _ m o pre2 tab tail2 es HT Himg); [cbn [st_off]; lia|reflexivity|exact Hok].
Qed.

(* DynamicSegment of an image without section headers *)
Lemma make_segments_stripped : section_headers f = Ok [] -> forall ps, make_segments f ps = Ok tt.
Proof.
  intros Hss. induction ps as [|p r IH]; [reflexivity|]. cbn [make_segments].
  unfold dynamic_segment_init. rewrite Hss. cbn [bind find_dynsec_strtab].
  destruct (pt_is f p "PT_DYNAMIC"); cbn [bind]; exact IH.
Qed.

Lemma segment_view_stripped ps seg es sp len (pre2 tab tail2 : list Z) :
  section_headers f = Ok [] -> segment_headers f = Ok ps ->
  first_where (fun p => p_type p =? PT_DYNAMIC) ps = Some seg -> 0 < p_filesz seg -> 0 <= p_offset seg ->
  dyn_table (f_le f) (f_is64 f) (seekz (f_img f) (p_offset seg)) = Some es ->
  f_img f = pre2 ++ tab ++ tail2 ->
  first_val DT_STRTAB es = Some sp -> sp <> 0 -> addr_to_off ps sp len = Some (zlen pre2) ->
  strings_ok sol tab es = true ->
  (do dy <- the_dynamic_segment f; view_tags f dy) = Ok (map (expected_tag (f_dtab f) sol tab) es).
Proof.
  intros Hss Hps Hseg Hfs Hoff Hes Himg Hsp Hnz Hmap Hok.
  assert (Hit : iter_segments f = Ok ps).
  { unfold iter_segments. rewrite Hps. cbn [bind]. rewrite (make_segments_stripped Hss). reflexivity. }
  unfold the_dynamic_segment. rewrite Hit. cbn [bind].
  rewrite (filter_dynamic_segments f Hpt). destruct (first_where_filter _ _ _ Hseg) as [r ->].
  cbn [first_res bind]. unfold dynamic_segment_init. rewrite Hss. cbn [bind find_dynsec_strtab].
  replace (p_filesz seg =? 0) with false by lia.
  unfold view_tags. match goal with |- context [raw_tags f ?dy] => rewrite (raw_tags_read f dy es eq_refl Hnull) by (cbn [dy_off]; assumption) end.
  cbn [bind dy_str]. rewrite Hit. cbn [bind].
  apply (iter_tags_all_pointed ps _ es sp len pre2 tab tail2); assumption.
Qed.

(* DynamicSegment of an image with section headers: the table comes from the section at the
   segment's offset when there is one, else from DT_STRTAB *)
Lemma make_segments_full ss sec str :
  section_headers f = Ok ss -> filter (fun s => sh_type s =? SHT_DYNAMIC) ss = [sec] ->
  section_header f (sh_link sec) = Ok str -> sh_type str = SHT_STRTAB ->
  forall ps, make_segments f ps = Ok tt.
Proof.
  intros Hss Hfil Hstr Hty.
  assert (Hsec : sh_type sec = SHT_DYNAMIC) by (apply filter_singleton_in in Hfil; lia).
  induction ps as [|p r IH]; [reflexivity|]. cbn [make_segments].
  unfold dynamic_segment_init. rewrite Hss. cbn [bind].
  rewrite (proj2 (find_dynsec_strtab_one f Hsht p sec str Hsec Hty Hstr ss) Hfil).
  destruct (pt_is f p "PT_DYNAMIC"); cbn [bind]; exact IH.
Qed.

Lemma segment_view_full ss sec str ps seg es sp len (pre2 tab tail2 : list Z) :
  section_headers f = Ok ss -> filter (fun s => sh_type s =? SHT_DYNAMIC) ss = [sec] ->
  section_header f (sh_link sec) = Ok str -> sh_type str = SHT_STRTAB ->
  segment_headers f = Ok ps ->
  first_where (fun p => p_type p =? PT_DYNAMIC) ps = Some seg -> 0 < p_filesz seg -> 0 <= p_offset seg ->
  dyn_table (f_le f) (f_is64 f) (seekz (f_img f) (p_offset seg)) = Some es ->
  f_img f = pre2 ++ tab ++ tail2 -> zlen pre2 = sh_offset str ->
  first_val DT_STRTAB es = Some sp -> sp <> 0 -> addr_to_off ps sp len = Some (zlen pre2) ->
  strings_ok sol tab es = true ->
  (do dy <- the_dynamic_segment f; view_tags f dy) = Ok (map (expected_tag (f_dtab f) sol tab) es).
Proof.
  intros Hss Hfil Hstr Hty Hps Hseg Hfs Hoff Hes Himg Hpre Hsp Hnz Hmap Hok.
  assert (Hsec : sh_type sec = SHT_DYNAMIC) by (apply filter_singleton_in in Hfil; lia).
  assert (Hit : iter_segments f = Ok ps).
  { unfold iter_segments. rewrite Hps. cbn [bind]. rewrite (make_segments_full ss sec str Hss Hfil Hstr Hty). reflexivity. }
  unfold the_dynamic_segment. rewrite Hit. cbn [bind].
  rewrite (filter_dynamic_segments f Hpt). destruct (first_where_filter _ _ _ Hseg) as [r ->].
  cbn [first_res bind]. unfold dynamic_segment_init. rewrite Hss. cbn [bind].
  rewrite (proj2 (find_dynsec_strtab_one f Hsht seg sec str Hsec Hty Hstr ss) Hfil). cbn [bind].
  replace (p_filesz seg =? 0) with false by lia.
  unfold view_tags. match goal with |- context [raw_tags f ?dy] => rewrite (raw_tags_read f dy es eq_refl Hnull) by (cbn [dy_off]; assumption) end.
  cbn [bind dy_str]. destruct (sh_offset sec =? p_offset seg).
  - unfold iter_tags_all, get_stringtable. cbn [dy_str].
    apply (dynamic_tags_exact f _ m o pre2 tab tail2 es HT Himg); [cbn [st_off]; lia|reflexivity|exact Hok].
  - rewrite Hit. cbn [bind]. apply (iter_tags_all_pointed ps _ es sp len pre2 tab tail2); assumption.
Qed.
End views.

(* ---------- views_agree (tags and strings) ---------- *)
Lemma ptr_ok_inv is64 img ps ptr len off : ptr_ok is64 img ps ptr len = Some off ->
  addr_to_off ps ptr len = Some off /\ ptr <> 0 /\ 0 <= len /\ ehdr_size is64 <= off /\ off + len <= zlen img.
Proof.
  unfold ptr_ok. destruct (addr_to_off ps ptr len) as [o|]; [|discriminate].
  destruct (_ && _) eqn:E; [|discriminate]. intros H. inversion H; subst. rewrite !andb_true_iff in E.
  repeat split; try lia.
Qed.

Lemma stripped_of_inv img img' : stripped_of_b img img' = true ->
  exists le is64 h h', spec_open img = Some (le, is64, h) /\ spec_open img' = Some (le, is64, h') /\
    e_osabi h' = e_osabi h /\ e_machine h' = e_machine h /\ e_phoff h' = e_phoff h /\
    e_phentsize h' = e_phentsize h /\ e_phnum h' = e_phnum h /\ e_shoff h' = 0 /\
    same_behind (ehdr_size is64) img img'.
Proof.
  unfold stripped_of_b. destruct (spec_open img) as [[[le is64] h]|]; [|discriminate].
  destruct (spec_open img') as [[[le' is64'] h']|]; [|discriminate].
  rewrite !andb_true_iff. intros [[[[[[[[[[[Hle His] H1] H2] H3] H4] H5] H6] H7] H8] Hlen] Heq].
  apply Bool.eqb_prop in Hle, His. subst le' is64'. exists le, is64, h, h'.
  apply Nat.eqb_eq in Hlen.
  repeat split; try lia; try assumption.
  apply combine_eqb_eq; [rewrite !skipn_length; lia|exact Heq].
Qed.

(* lia over a context cleared of the large non-arithmetic facts (zify inspects every hypothesis) *)
Ltac clear_nonarith :=
  repeat match goal with
         | H : _ = Some _ |- _ => clear H
         | H : _ = Ok _ |- _ => clear H
         | H : _ = [_] |- _ => clear H
         | H : _ = map _ _ |- _ => clear H
         | H : _ = _ ++ _ |- _ => clear H
         | H : strings_ok _ _ _ = true |- _ => clear H
         | H : same_behind _ _ _ |- _ => clear H
         end.
Ltac zl := clear_nonarith; lia.

Definition expected_view (img : list Z) (d : dyninfo) : list dyntag :=
  let m := e_machine (di_eh d) in let o := e_osabi (di_eh d) in
  map (expected_tag (spec_dtab m o) (spec_is_solaris m o) (strtab_bytes d img)) (di_entries d).

Lemma elf_open_ptab img f : elf_open img = Ok f ->
  table_of_id (assoc_s gen_p_type_table_of_machine (machine_key (e_machine (f_eh f)))) = Ok (f_ptab f).
Proof.
  unfold elf_open. destruct img as [|m0 [|m1 [|m2 [|m3 [|c [|d0 img']]]]]]; try discriminate.
  destruct (negb _); [discriminate|]. destruct (negb _); [discriminate|]. destruct (negb _); [discriminate|].
  destruct (parse_at _ _ 0) as [r|]; [|discriminate]. cbn [bind].
  destruct (table_of_id (assoc_s gen_p_type_table_of_machine _)) as [pt|] eqn:Ept; [|discriminate]. cbn [bind].
  destruct (table_of_id (assoc_s gen_sh_type_table_of_machine _)) as [st|]; [|discriminate]. cbn [bind].
  destruct (table_of_id (dtab_id _ _)) as [dt|]; [|discriminate]. cbn [bind].
  intros H. inversion H; subst f. cbn [f_eh f_ptab]. exact Ept.
Qed.

(* everything consistent_b and stripped_of_b say, in the model's terms *)
Record vctx (img img' : list Z) (d : dyninfo) (f f' : elf) (sp : Z) : Prop := {
  c_open : elf_open img = Ok f;  c_open' : elf_open img' = Ok f';
  c_img : f_img f = img;  c_img' : f_img f' = img';
  c_le' : f_le f' = f_le f;  c_64' : f_is64 f' = f_is64 f;
  c_mach' : e_machine (f_eh f') = e_machine (f_eh f);
  c_dtab : f_dtab f = spec_dtab (e_machine (f_eh f)) (e_osabi (f_eh f));
  c_dtab' : f_dtab f' = spec_dtab (e_machine (f_eh f)) (e_osabi (f_eh f));
  c_pt : forall val name, In (val, name) spec_pt_names -> name_is (f_ptab f) val name;
  c_sht : forall val name, In (val, name) spec_sht_names -> name_is (f_stab f) val name;
  c_pt' : forall val name, In (val, name) spec_pt_names -> name_is (f_ptab f') val name;
  c_sht' : forall val name, In (val, name) spec_sht_names -> name_is (f_stab f') val name;
  c_same : same_behind (ehdr_size (f_is64 f)) img img';
  c_ehpos : 0 < ehdr_size (f_is64 f);
  c_ss : section_headers f = Ok (di_shdrs d);  c_ss' : section_headers f' = Ok [];
  c_ps : segment_headers f = Ok (di_phdrs d);  c_ps' : segment_headers f' = Ok (di_phdrs d);
  c_sec : filter (fun s => sh_type s =? SHT_DYNAMIC) (di_shdrs d) = [di_sec d];
  c_str : section_header f (sh_link (di_sec d)) = Ok (di_str d);
  c_strty : sh_type (di_str d) = SHT_STRTAB;
  c_seg : first_where (fun p => p_type p =? PT_DYNAMIC) (di_phdrs d) = Some (di_seg d);
  c_fs : 0 < p_filesz (di_seg d);
  c_segoff : ehdr_size (f_is64 f) <= p_offset (di_seg d);
  c_secoff : ehdr_size (f_is64 f) <= sh_offset (di_sec d);
  c_es_sec : dyn_table (f_le f) (f_is64 f) (seekz img (sh_offset (di_sec d))) = Some (di_entries d);
  c_es_seg : dyn_table (f_le f) (f_is64 f) (seekz img (p_offset (di_seg d))) = Some (di_entries d);
  c_sp : first_val DT_STRTAB (di_entries d) = Some sp;  c_spnz : sp <> 0;
  c_spmap : addr_to_off (di_phdrs d) sp (sh_size (di_str d)) = Some (sh_offset (di_str d));
  c_stroff : ehdr_size (f_is64 f) <= sh_offset (di_str d);
  c_strlen : 0 <= sh_size (di_str d);
  c_strend : sh_offset (di_str d) + sh_size (di_str d) <= zlen img;
  c_strings : strings_ok (spec_is_solaris (e_machine (f_eh f)) (e_osabi (f_eh f))) (strtab_bytes d img) (di_entries d) = true;
  c_eh : f_eh f = di_eh d;  c_64 : f_is64 f = di_is64 d;  c_le : f_le f = di_le d;
  c_ptab' : f_ptab f' = f_ptab f;
  c_shdr_nth : forall n st, nthz (di_shdrs d) n = Some st -> section_header f n = Ok st;
  c_ptrs : forallb (fun tag => match first_val tag (di_entries d) with
                               | Some ptr => match ptr_ok (f_is64 f) img (di_phdrs d) ptr 1 with Some _ => true | None => false end
                               | None => true
                               end) [DT_SYMTAB; DT_HASH; DT_GNU_HASH] = true;
  c_rel : reloc_ok (f_is64 f) img (di_phdrs d) (di_entries d) DT_REL DT_RELSZ DT_RELENT [if f_is64 f then 16 else 8] = true;
  c_rela : reloc_ok (f_is64 f) img (di_phdrs d) (di_entries d) DT_RELA DT_RELASZ DT_RELAENT [if f_is64 f then 24 else 12] = true;
  c_relr : reloc_ok (f_is64 f) img (di_phdrs d) (di_entries d) DT_RELR DT_RELRSZ DT_RELRENT [if f_is64 f then 8 else 4] = true;
  c_jmprel : reloc_ok (f_is64 f) img (di_phdrs d) (di_entries d) DT_JMPREL DT_PLTRELSZ DT_PLTREL [DT_REL; DT_RELA] = true
}.

Lemma consistent_ctx img img' d :
  describe img = Some d -> consistent_b img = true -> stripped_of_b img img' = true ->
  exists f f' sp, vctx img img' d f f' sp.
Proof.
  intros Hd Hc Hst. unfold consistent_b in Hc. rewrite Hd in Hc.
  rewrite !andb_true_iff in Hc.
  destruct Hc as [[[[[[[[[[[[[K1 K2] K3] K4] K5] K6] K7] K8] K9] K10] K11] K12] K13] K14].
  destruct (describe_inv _ _ Hd) as [Hso [D1 [D2 [D3 [D4 [D5 [D6 [prs [srs [Rp [Rs [Eps [Ess [Hseg [Hsec [Hstr Hes]]]]]]]]]]]]]]]].
  destruct (spec_open_elf_open _ _ _ _ Hso) as [f [Ho [Hi [Hle [His Heh]]]]].
  destruct (elf_open_inv _ _ Ho) as [_ [HT [Hpt Hsht]]].
  destruct (dyn_table (di_le d) (di_is64 d) (seekz img (sh_offset (di_sec d)))) as [es2|] eqn:Hes2; [|discriminate].
  apply dents_eqb_eq in K6. subst es2.
  destruct (first_val DT_STRTAB (di_entries d)) as [sp|] eqn:Hsp; [|discriminate].
  destruct (ptr_ok (di_is64 d) img (di_phdrs d) sp (sh_size (di_str d))) as [soff|] eqn:Hptr; [|discriminate].
  destruct (ptr_ok_inv _ _ _ _ _ _ Hptr) as [Hmap [Hnz [Hlen0 [Hoff1 Hoff2]]]].
  assert (Hsoff : soff = sh_offset (di_str d)) by (clear - K8; lia). subst soff.
  assert (Heh0 : 0 < ehdr_size (di_is64 d)) by (clear; destruct (di_is64 d); cbn; lia).
  assert (Hph0 : 0 < phdr_size (di_is64 d)) by (clear; destruct (di_is64 d); cbn; lia).
  destruct (stripped_of_inv _ _ Hst) as [le [is64 [h [h' [Hso1 [Hso' [E1 [E2 [E3 [E4 [E5 [E6 Hsame]]]]]]]]]]]].
  rewrite Hso in Hso1. inversion Hso1; subst le is64 h. clear Hso1.
  destruct (spec_open_elf_open _ _ _ _ Hso') as [f' [Ho' [Hi' [Hle' [His' Heh']]]]].
  destruct (elf_open_inv _ _ Ho') as [_ [HT' [Hpt' Hsht']]].
  rewrite Heh', E1, E2 in HT'.
  rewrite <- Hle, <- His, <- Heh in *.
  exists f, f', sp. constructor; try assumption; try (rewrite Heh'; assumption);
    try (clear - K1 K2 K3 K7; lia).
  - rewrite Ess. apply section_headers_read; try (clear - D1 D2 D3 D4 D5 D6 K1 K2 K3 K7 Heh0 Hph0 E3 E4 E5 E6 Hoff1 Hoff2 Hlen0; lia). rewrite Hi. exact Rs.
  - apply section_headers_stripped. rewrite Heh'. exact E6.
  - rewrite Eps. apply segment_headers_read; try (clear - D1 D2 D3 D4 D5 D6 K1 K2 K3 K7 Heh0 Hph0 E3 E4 E5 E6 Hoff1 Hoff2 Hlen0; lia). rewrite Hi. exact Rp.
  - rewrite Eps. apply segment_headers_read; rewrite ?Heh', ?His', ?Hle', ?Hi', ?E3, ?E4, ?E5; try (clear - D1 D2 D3 D4 D5 D6 K1 K2 K3 K7 Heh0 Hph0 E3 E4 E5 E6 Hoff1 Hoff2 Hlen0; lia).
    rewrite <- (read_recs_same_behind _ (ehdr_size (f_is64 f)) img img') by (assumption || (clear - D1 D2 D3 D4 D5 D6 K1 K2 K3 K7 Heh0 Hph0 E3 E4 E5 E6 Hoff1 Hoff2 Hlen0; lia)). exact Rp.
  - apply (section_header_nth f srs); try (clear - D1 D2 D3 D4 D5 D6 K1 K2 K3 K7 Heh0 Hph0 E3 E4 E5 E6 Hoff1 Hoff2 Hlen0; lia); [rewrite Hi; exact Rs | rewrite <- Ess; exact Hstr].
  - pose proof (elf_open_ptab _ _ Ho) as P1. pose proof (elf_open_ptab _ _ Ho') as P2.
    rewrite Heh', E2 in P2. rewrite P1 in P2. inversion P2. reflexivity.
  - intros n st Hn. apply (section_header_nth f srs); try (clear - D1 D2 D3 D4 D5 D6 K1 K2 K3 K7 Heh0 Hph0 E3 E4 E5 E6 Hoff1 Hoff2 Hlen0; lia);
      [rewrite Hi; exact Rs | rewrite <- Ess; exact Hn].
Qed.

Section with_ctx.
Variables (img img' : list Z) (d : dyninfo) (f f' : elf) (sp : Z).
Hypothesis C : vctx img img' d f f' sp.
Let m := e_machine (f_eh f).
Let o := e_osabi (f_eh f).

(* the string table seen from the original and from the stripped image *)
Lemma ctx_split : exists pre2 tail2, img = pre2 ++ strtab_bytes d img ++ tail2 /\ zlen pre2 = sh_offset (di_str d).
Proof.
  destruct C. apply img_split; clear - c_ehpos0 c_stroff0 c_strlen0 c_strend0; lia.
Qed.
Lemma ctx_split' : exists pre2 tail2, img' = pre2 ++ strtab_bytes d img ++ tail2 /\ zlen pre2 = sh_offset (di_str d).
Proof.
  destruct C. exists (firstn (Z.to_nat (sh_offset (di_str d))) img'),
                     (skipn (Z.to_nat (sh_size (di_str d))) (seekz img' (sh_offset (di_str d)))). split.
  - unfold strtab_bytes. rewrite (same_behind_seekz _ _ _ (sh_offset (di_str d)) c_same0) by (clear - c_ehpos0 c_stroff0; lia).
    rewrite firstn_skipn, seekz_skipn, firstn_skipn. reflexivity.
  - destruct c_same0 as [Hl _]. unfold zlen in *. rewrite firstn_length. clear - Hl c_ehpos0 c_stroff0 c_strlen0 c_strend0. lia.
Qed.
Lemma ctx_es_seg' : dyn_table (f_le f') (f_is64 f') (seekz (f_img f') (p_offset (di_seg d))) = Some (di_entries d).
Proof.
  destruct C. rewrite c_img'0, c_le'0, c_64'0, <- (same_behind_seekz _ _ _ _ c_same0) by (clear - c_ehpos0 c_segoff0; lia). assumption.
Qed.
End with_ctx.

Theorem views_agree_tags img img' :
  consistent_b img = true -> stripped_of_b img img' = true ->
  exists d, describe img = Some d /\
    section_tags img = Ok (expected_view img d) /\
    segment_tags img = Ok (expected_view img d) /\
    segment_tags img' = Ok (expected_view img d).
Proof.
  intros Hc Hst. destruct (describe img) as [d|] eqn:Hd; [|unfold consistent_b in Hc; rewrite Hd in Hc; discriminate].
  exists d. split; [reflexivity|].
  destruct (consistent_ctx _ _ _ Hd Hc Hst) as [f [f' [sp C]]].
  destruct (ctx_split _ _ _ _ _ _ C) as [pre2 [tail2 [Hsplit Hpre2]]].
  destruct (ctx_split' _ _ _ _ _ _ C) as [pre2' [tail2' [Hsplit' Hpre2']]].
  pose proof (ctx_es_seg' _ _ _ _ _ _ C) as Hes'.
  destruct C.
  assert (Hexp : expected_view img d =
                 map (expected_tag (f_dtab f) (spec_is_solaris (e_machine (f_eh f)) (e_osabi (f_eh f))) (strtab_bytes d img))
                     (di_entries d)).
  { unfold expected_view. rewrite c_dtab0, c_eh0. reflexivity. }
  rewrite Hexp. split; [|split].
  - unfold section_tags. rewrite c_open0. cbn [bind].
    apply (section_view f _ _ c_dtab0 c_sht0 (di_shdrs d) (di_sec d) (di_str d) (di_entries d) pre2 _ tail2);
      try assumption; try (clear - c_ehpos0 c_segoff0 c_secoff0 c_stroff0 c_strlen0 c_strend0 c_fs0 c_strty0 Hpre2 Hpre2'; lia); rewrite c_img0; assumption.
  - unfold segment_tags. rewrite c_open0. cbn [bind].
    apply (segment_view_full f _ _ c_dtab0 c_sht0 c_pt0 (di_shdrs d) (di_sec d) (di_str d) (di_phdrs d) (di_seg d)
                             (di_entries d) sp (sh_size (di_str d)) pre2 _ tail2);
      try assumption; try (clear - c_ehpos0 c_segoff0 c_secoff0 c_stroff0 c_strlen0 c_strend0 c_fs0 c_strty0 Hpre2 Hpre2'; lia); try (rewrite c_img0; assumption).
    rewrite Hpre2. assumption.
  - unfold segment_tags. rewrite c_open'0. cbn [bind].
    assert (Hdt : f_dtab f = f_dtab f') by congruence. rewrite Hdt. rewrite Hdt in c_dtab0.
    apply (segment_view_stripped f' _ _ c_dtab0 c_pt'0 (di_phdrs d) (di_seg d) (di_entries d) sp (sh_size (di_str d))
                                 pre2' _ tail2'); try assumption; try (clear - c_ehpos0 c_segoff0 c_secoff0 c_stroff0 c_strlen0 c_strend0 c_fs0 c_strty0 Hpre2 Hpre2'; lia).
    + rewrite c_img'0. exact Hsplit'.
    + rewrite Hpre2'. assumption.
Qed.
