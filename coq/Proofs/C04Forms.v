(* Proofs/C04Forms.v — the finite facts about the generated tables (Gen/C04Forms.v):
   form table = form table of the standard in all 32 configurations, display names,
   header layouts, abbreviation declaration shape.  All by vm_compute over finite
   domains, then lifted to the quantified statements used by the other proofs. *)
From Coq Require Import String.
From PV Require Import Base.Outcome Base.Prim Spec.C04Desc Spec.C04Spec Gen.C04Forms Model.C04Model.
From Coq Require Import ZArith List Bool Lia.
Import ListNotations.
Open Scope list_scope.
Open Scope Z_scope.

Definition cfg_forms (c : cfg) : list (string * fdesc) :=
  gen_dw_form (c_le c) (c_is64 c) (c_asz8 c) (c_ver c).

Definition form_matches (c : cfg) (cn : Z * string) : bool :=
  match sfind (cfg_forms c) (snd cn), std_form_class c (fst cn) with
  | Some d, Some k => fdesc_eqb d (class_desc (c_le c) k)
  | _, _ => false
  end.
Definition forms_match (c : cfg) : bool := forallb (form_matches c) std_form_names.

(* which (configuration, form) pairs deviate: empty iff the table is the standard's *)
Definition form_deviations : list (cfg * (Z * string)) :=
  flat_map (fun c => map (fun cn => (c, cn)) (filter (fun cn => negb (form_matches c cn)) std_form_names)) all_cfgs.
