(* Proofs/C04Forms.v — the finite facts about the generated tables (Gen/C04Forms.v):
   form table = form table of the standard in all 32 configurations, display names,
   header layouts, abbreviation declaration shape.  All by vm_compute over finite
   domains, then lifted to the quantified statements used by the other proofs. *)
From Coq Require Import String.
From PV Require Import Base.Outcome Base.Prim Spec.C04Desc Spec.C04Spec Gen.C04Forms Model.C04Model.
From Coq Require Import ZArith List Bool Lia.
Import ListNotations.
Open Scope string_scope.
Open Scope list_scope.
Open Scope Z_scope.

Definition cfg_forms (c : cfg) : list (string * fdesc) :=
  gen_dw_form (c_le c) (c_is64 c) (c_asz8 c) (c_ver c).

Definition form_matches (c : cfg) (cn : Z * string) : bool :=
  match sfind (cfg_forms c) (snd cn), std_form_class c (fst cn) with
  | Some d, Some k => fdesc_eqb d (class_desc (c_le c) k)
  | _, _ => false
  end.
Definition forms_match (c : cfg) : bool := forallb (form_matches c) std_form_names.

(* which (configuration, form) pairs deviate: empty iff the table is the standard's *)
Definition form_deviations : list (cfg * (Z * string)) :=
  flat_map (fun c => map (fun cn => (c, cn)) (filter (fun cn => negb (form_matches c cn)) std_form_names)) all_cfgs.

(* ------------------------------------------------------------------ theorem 1: the form table *)
Lemma forms_match_all : forallb forms_match all_cfgs = true.
Proof. vm_compute. reflexivity. Qed.

Lemma cfg_ok_in (c : cfg) : cfg_ok c = true -> In c all_cfgs.
Proof.
  destruct c as [le f a v]. unfold cfg_ok. cbn [c_ver]. intros H.
  assert (Hv : v = 2 \/ v = 3 \/ v = 4 \/ v = 5) by lia.
  destruct Hv as [-> | [-> | [-> | ->]]]; destruct le, f, a; vm_compute; tauto.
Qed.

Lemma in_std_names_class (c : cfg) code k :
  std_form_class c code = Some k -> exists name, In (code, name) std_form_names.
Proof.
  unfold std_form_class. intros H.
  repeat match type of H with
         | (if ?a =? ?b then _ else _) = _ =>
             destruct (Z.eqb_spec a b) as [-> | _];
             [ eexists; unfold std_form_names; cbn [In];
               repeat (first [left; reflexivity | right]) | ]
         end.
  discriminate.
Qed.

Theorem gen_forms_match_standard (c : cfg) (code : Z) (name : string) :
  In c all_cfgs -> In (code, name) std_form_names ->
  exists k, std_form_class c code = Some k /\
            sfind (cfg_forms c) name = Some (class_desc (c_le c) k).
Proof.
  intros Hc Hn.
  pose proof forms_match_all as H. rewrite forallb_forall in H. specialize (H c Hc).
  unfold forms_match in H. rewrite forallb_forall in H. specialize (H (code, name) Hn).
  unfold form_matches in H. cbn [fst snd] in H.
  destruct (sfind (cfg_forms c) name) as [d|]; [|discriminate].
  destruct (std_form_class c code) as [k|]; [|discriminate].
  exists k. split; [reflexivity|]. f_equal. apply fdesc_eqb_eq. exact H.
Qed.

(* the display name of every standard form code, through both dicts the parser uses
   (Enum(...ENUM_DW_FORM) of the abbreviation declaration and DW_FORM_raw2name) *)
Definition names_match : bool :=
  forallb (fun cn => match zfind gen_dec_form (fst cn), zfind gen_form_raw2name (fst cn) with
                     | Some a, Some b => String.eqb a (snd cn) && String.eqb b (snd cn)
                     | _, _ => false
                     end) std_form_names.
Lemma names_match_true : names_match = true.
Proof. vm_compute. reflexivity. Qed.

Theorem gen_form_names_match_standard (code : Z) (name : string) :
  In (code, name) std_form_names ->
  zfind gen_dec_form code = Some name /\ zfind gen_form_raw2name code = Some name.
Proof.
  intros Hn. pose proof names_match_true as H. unfold names_match in H.
  rewrite forallb_forall in H. specialize (H (code, name) Hn). cbn [fst snd] in H.
  destruct (zfind gen_dec_form code) as [a|]; [|discriminate].
  destruct (zfind gen_form_raw2name code) as [b|]; [|discriminate].
  apply andb_prop in H. destruct H as [Ha Hb].
  apply String.eqb_eq in Ha, Hb. subst. split; reflexivity.
Qed.

(* what the entry parser needs: for a standard form code, the abbreviation's form name leads to a
   reader of exactly the standard's class *)
Lemma form_lookup (c : cfg) code k :
  cfg_ok c = true -> std_form_class c code = Some k ->
  exists name, enum_pass gen_dec_form code = EName name /\
               zfind gen_form_raw2name code = Some name /\
               In (code, name) std_form_names /\
               form_parser (cfg_forms c) (EName name) = Ok (class_desc (c_le c) k).
Proof.
  intros Hc Hk. destruct (in_std_names_class c code k Hk) as [name Hn].
  destruct (gen_form_names_match_standard code name Hn) as [H1 H2].
  destruct (gen_forms_match_standard c code name (cfg_ok_in c Hc) Hn) as (k' & Hk' & Hf).
  rewrite Hk in Hk'. injection Hk' as <-.
  exists name. unfold enum_pass. rewrite H1. repeat split; auto.
  unfold form_parser. rewrite Hf. reflexivity.
Qed.

(* the names the special cases of _parse_DIE test for *)
Definition std_name (code : Z) : string :=
  match zfind std_form_names code with Some n => n | None => EmptyString end.

Lemma std_names_nodup : forall c1 c2 n, In (c1, n) std_form_names -> In (c2, n) std_form_names -> c1 = c2.
Proof.
  assert (H : forallb (fun a => forallb (fun b => negb (String.eqb (snd a) (snd b)) || (fst a =? fst b))
                                        std_form_names) std_form_names = true) by (vm_compute; reflexivity).
  intros c1 c2 n H1 H2. rewrite forallb_forall in H. specialize (H _ H1).
  rewrite forallb_forall in H. specialize (H _ H2). cbn [fst snd] in H.
  rewrite String.eqb_refl in H. cbn in H. lia.
Qed.

(* ------------------------------------------------------------------ the other generated data *)
Theorem gen_initlen_matches_prim :
  gen_initlen_reserved_lo = INITLEN_RESERVED_LO /\ gen_initlen_escape = 0xffffffff.
Proof. split; reflexivity. Qed.

Theorem gen_abbrev_shape :
  gen_abbrev_tag_field = DUleb /\ gen_abbrev_children_field = DInt true 1 false /\
  gen_abbrev_at_field = DUleb /\ gen_abbrev_form_field = DUleb /\ gen_abbrev_value_field = DSleb /\
  gen_abbrev_value_forms = ["DW_FORM_implicit_const"] /\
  gen_abbrev_stop = ("DW_AT_null", "DW_FORM_null") /\
  gen_dec_tag_pass = true /\ gen_dec_at_pass = true /\ gen_dec_form_pass = true /\
  gen_dec_children = [(0, "DW_CHILDREN_no"); (1, "DW_CHILDREN_yes")] /\
  zfind gen_dec_at 0 = Some "DW_AT_null" /\ zfind gen_dec_form 0 = Some "DW_FORM_null".
Proof. repeat split; reflexivity. Qed.

(* unit header layouts written from the standard *)
Definition std_off (le is64 : bool) : fdesc := DInt le (if is64 then 8 else 4) false.
Definition std_u8 : fdesc := DInt true 1 false.
Definition std_cu_lt5 (le is64 : bool) : list (string * fdesc) :=
  [("debug_abbrev_offset", std_off le is64); ("address_size", std_u8)].
Definition std_cu_ge5 (le is64 : bool) : list (string * list (string * fdesc)) :=
  let base := [("address_size", std_u8); ("debug_abbrev_offset", std_off le is64)] in
  [("DW_UT_compile", base); ("DW_UT_partial", base);
   ("DW_UT_skeleton", base ++ [("dwo_id", DInt le 8 false)]);
   ("DW_UT_split_compile", base ++ [("dwo_id", DInt le 8 false)]);
   ("DW_UT_type", base ++ [("type_signature", DInt le 8 false); ("type_offset", std_off le is64)]);
   ("DW_UT_split_type", base ++ [("type_signature", DInt le 8 false); ("type_offset", std_off le is64)])].
Definition std_tu (le is64 : bool) : list (string * fdesc) :=
  [("version", DInt le 2 false); ("debug_abbrev_offset", std_off le is64); ("address_size", std_u8);
   ("signature", DInt le 8 false); ("type_offset", std_off le is64)].

Theorem gen_headers_match_standard (le is64 : bool) :
  gen_cu_header_lt5 le is64 = std_cu_lt5 le is64 /\
  gen_cu_header_ge5 le is64 = std_cu_ge5 le is64 /\
  gen_tu_header le is64 = std_tu le is64 /\
  gen_cu_v5_from = 5 /\ gen_dec_ut_pass = false /\
  (forall k, In k [1; 2; 3; 4; 5; 6] ->
     zfind gen_dec_ut k = nth_error ["DW_UT_compile"; "DW_UT_type"; "DW_UT_partial"; "DW_UT_skeleton";
                                     "DW_UT_split_compile"; "DW_UT_split_type"] (Z.to_nat (k - 1))).
Proof.
  destruct le, is64; repeat split; try reflexivity;
    intros k Hk; cbn [In] in Hk; intuition (subst; reflexivity).
Qed.

(* the display-name dicts are one-to-one on names: distinct numbers never collide as dict keys
   of DIE.attributes *)
Fixpoint names_nodup (l : list (Z * string)) : bool :=
  match l with
  | [] => true
  | (_, n) :: r => negb (existsb (fun x => String.eqb (snd x) n) r) && names_nodup r
  end.
Lemma names_nodup_inj l : names_nodup l = true ->
  forall a b n, zfind l a = Some n -> zfind l b = Some n -> a = b.
Proof.
  induction l as [|[k m] r IH]; intros H a b n Ha Hb; [discriminate|].
  cbn [names_nodup] in H. apply andb_prop in H. destruct H as [Hm Hr].
  assert (Hnot : forall x, zfind r x = Some m -> False).
  { intros x Hx. apply negb_true_iff in Hm.
    assert (existsb (fun y => String.eqb (snd y) m) r = true); [|congruence].
    clear - Hx. induction r as [|[k' m'] r IH]; [discriminate|].
    cbn [zfind] in Hx. cbn [existsb snd]. destruct (k' =? x).
    - injection Hx as ->. rewrite String.eqb_refl. reflexivity.
    - rewrite IH by exact Hx. apply orb_true_r. }
  cbn [zfind] in Ha, Hb.
  destruct (Z.eqb_spec k a) as [Eka|Hka]; destruct (Z.eqb_spec k b) as [Ekb|Hkb].
  - congruence.
  - injection Ha as Ha. subst m. exfalso. eapply Hnot; eauto.
  - injection Hb as Hb. subst m. exfalso. eapply Hnot; eauto.
  - eapply IH; eauto.
Qed.

Lemma enum_pass_inj l : names_nodup l = true -> forall a b, enum_pass l a = enum_pass l b -> a = b.
Proof.
  intros H a b. unfold enum_pass.
  destruct (zfind l a) as [n|] eqn:Ea; destruct (zfind l b) as [m|] eqn:Eb; intros E; try discriminate.
  - injection E as <-. eapply names_nodup_inj; eauto.
  - injection E as <-. reflexivity.
Qed.

Theorem gen_at_names_one_to_one : forall a b, enum_pass gen_dec_at a = enum_pass gen_dec_at b -> a = b.
Proof. apply enum_pass_inj. vm_compute. reflexivity. Qed.
Theorem gen_tag_names_one_to_one : forall a b, enum_pass gen_dec_tag a = enum_pass gen_dec_tag b -> a = b.
Proof. apply enum_pass_inj. vm_compute. reflexivity. Qed.
Theorem gen_form_names_one_to_one : forall a b, enum_pass gen_dec_form a = enum_pass gen_dec_form b -> a = b.
Proof. apply enum_pass_inj. vm_compute. reflexivity. Qed.

(* ------------------------------------------------------------------ form-name tuples written inline in the code *)
Definition std_unit_ref_names : list string :=
  ["DW_FORM_ref1"; "DW_FORM_ref2"; "DW_FORM_ref4"; "DW_FORM_ref8"; "DW_FORM_ref"; "DW_FORM_ref_udata"].
Definition std_addrx_names : list string :=
  ["DW_FORM_addrx"; "DW_FORM_addrx1"; "DW_FORM_addrx2"; "DW_FORM_addrx3"; "DW_FORM_addrx4"].
Definition std_strx_names : list string :=
  ["DW_FORM_strx"; "DW_FORM_strx1"; "DW_FORM_strx2"; "DW_FORM_strx3"; "DW_FORM_strx4"].

(* order-insensitive comparison: reordering a tuple in the source is harmless *)
Definition same_names (a b : list string) : bool :=
  forallb (fun x => existsb (String.eqb x) b) a && forallb (fun x => existsb (String.eqb x) a) b.
Fixpoint snodup (l : list string) : bool :=
  match l with [] => true | x :: r => negb (existsb (String.eqb x) r) && snodup r end.

Lemma same_names_mem a b : same_names a b = true ->
  forall n, existsb (String.eqb n) a = existsb (String.eqb n) b.
Proof.
  unfold same_names. intros H n. apply andb_prop in H. destruct H as [Hab Hba].
  rewrite forallb_forall in Hab, Hba.
  destruct (existsb (String.eqb n) a) eqn:Ea; destruct (existsb (String.eqb n) b) eqn:Eb; try reflexivity; exfalso.
  - apply existsb_exists in Ea. destruct Ea as (x & Hx & E). apply String.eqb_eq in E. subst x.
    specialize (Hab n Hx). congruence.
  - apply existsb_exists in Eb. destruct Eb as (x & Hx & E). apply String.eqb_eq in E. subst x.
    specialize (Hba n Hx). congruence.
Qed.

(* the three copies of the unit-relative reference tuple agree and are the unit-relative reference forms
   (DW_FORM_ref is the pre-standard name of code 2); the section-relative test is DW_FORM_ref_addr everywhere;
   the value translation tests the standard's index forms; no form name is tested twice in _translate_attr_value
   (so the order of its tests is immaterial) and the names tested are exactly the ones the standard translates *)
Theorem gen_form_name_sets :
  same_names gen_die_ref_unit_forms std_unit_ref_names = true /\
  same_names gen_cu_sibling_unit_forms std_unit_ref_names = true /\
  same_names gen_tu_sibling_unit_forms std_unit_ref_names = true /\
  gen_cu_sibling_addr_form = "DW_FORM_ref_addr" /\ gen_tu_sibling_addr_form = "DW_FORM_ref_addr" /\
  gen_die_ref_addr_pattern = "DW_FORM_ref_addr" /\ gen_die_ref_sig8_pattern = "DW_FORM_ref_sig8" /\
  same_names gen_die_ref_sup_forms ["DW_FORM_ref_sup4"; "DW_FORM_ref_sup8"; "DW_FORM_GNU_ref_alt"] = true /\
  same_names gen_translate_addrx_forms std_addrx_names = true /\
  same_names gen_translate_strx_forms std_strx_names = true /\
  snodup (concat gen_translate_chain) = true /\
  same_names (concat gen_translate_chain)
             (["DW_FORM_strp"; "DW_FORM_line_strp"; "DW_FORM_GNU_strp_alt"; "DW_FORM_strp_sup"; "DW_FORM_flag";
               "DW_FORM_flag_present"; "DW_FORM_loclistx"; "DW_FORM_rnglistx"] ++ std_addrx_names ++ std_strx_names) = true.
Proof. repeat split; vm_compute; reflexivity. Qed.
