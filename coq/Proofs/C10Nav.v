(* Proofs/C10Nav.v — C10 refinement, entry-tree navigation: CompileUnit.iter_DIE_children (one resumption
   and draining, with the nested draining of a child's generator when its _terminator is not yet known),
   the _parent / _terminator links it sets as side effects. *)
From PV Require Import Spec.C10Spec Proofs.C10Base Proofs.C10Tree Proofs.C10Nodes Proofs.C10Elf Proofs.C10Units.
From Coq Require Import ZArith List Bool Lia ZifyBool.
Import ListNotations.
Open Scope Z_scope.

Definition bnext (n : node) : nat := S (fold_right (fun k acc => Nat.max (nav_fuel k) acc) 0%nat (node_kids n)).

Lemma nav_fuel_unfold n : nav_fuel n = (S (length (node_kids n)) + bnext n)%nat.
Proof. destruct n. unfold bnext. cbn [nav_fuel node_kids]. lia. Qed.

Lemma max_fold_ge (l : list node) k : In k l -> (nav_fuel k <= fold_right (fun k acc => Nat.max (nav_fuel k) acc) 0 l)%nat.
Proof. induction l as [|x r IH]; intros H; [destruct H|]. cbn [fold_right]. destruct H as [->|H]; [lia|]. specialize (IH H). lia. Qed.

Lemma nav_fuel_kid n k : In k (node_kids n) -> (S (nav_fuel k) <= bnext n)%nat.
Proof. intros H. unfold bnext. pose proof (max_fold_ge _ _ H). lia. Qed.

Lemma nav_fuel_sub root : forall p0 par n, In (par, n) (subnodes p0 root) -> (nav_fuel n <= nav_fuel root)%nat.
Proof.
  induction root as [off raw kids toff traw IH] using node_ind'. intros p0 par n Hin.
  rewrite subnodes_unfold in Hin. destruct Hin as [E|Hin]; [inversion E; lia|].
  apply in_flat_map in Hin. destruct Hin as (k & Hk & Hin). rewrite Forall_forall in IH.
  specialize (IH k Hk _ _ _ Hin). pose proof (nav_fuel_kid (Node off raw kids toff traw) k Hk).
  rewrite (nav_fuel_unfold (Node off raw kids toff traw)). lia.
Qed.

Definition parent_set (s : state) (id : nat) : Prop :=
  exists d, nth_error (dies s) id = Some d /\ d_parent d <> None.

Lemma parent_set_ext s s' id : ext s s' -> parent_set s id -> parent_set s' id.
Proof.
  intros (_ & B & _) (d & Hd & Hp). destruct (B _ _ Hd) as (d' & Hd' & _ & _ & _ & L & _). exists d'. auto.
Qed.

Section Nav.
  Set Default Proof Using "All".
  Variable F : file.
  Hypothesis WF : wf_file F = true.
  Variable fuel : nat.
  Hypothesis Hfuel : (length (f_units F) < fuel)%nat.
  Let P := parsers_of F.

  (* ---------------------------------------------------------------- updating one entry object *)
  Lemma dies_mono_upd D x f :
    (forall d, nth_error D x = Some d ->
       d_cu (f d) = d_cu d /\ d_off (f d) = d_off d /\ d_raw (f d) = d_raw d /\
       (d_parent d <> None -> d_parent (f d) <> None) /\ (d_term d <> None -> d_term (f d) <> None)) ->
    dies_mono D (upd_nth x f D).
  Proof.
    intros Hf id d H. destruct (Nat.eq_dec x id) as [->|Hne].
    - exists (f d). destruct (Hf _ H) as (A & B & C0 & L1 & L2). repeat split; auto.
      apply nth_error_upd_nth_same. exact H.
    - exists d. rewrite nth_error_upd_nth_other by exact Hne. repeat split; auto.
  Qed.

  Lemma Inv_upd_die s x dx f : Inv F s -> nth_error (dies s) x = Some dx ->
    d_cu (f dx) = d_cu dx -> d_off (f dx) = d_off dx -> d_raw (f dx) = d_raw dx ->
    (d_parent dx <> None -> d_parent (f dx) <> None) -> (d_term dx <> None -> d_term (f dx) <> None) ->
    (forall c e, nth_error (cus s) (d_cu dx) = Some c -> entry_at F (c_off c) (d_off dx) = Some e ->
       (forall p, d_parent (f dx) = Some p ->
          exists pd, nth_error (dies s) p = Some pd /\ d_cu pd = d_cu dx /\ en_parent e = Some (d_off pd)) /\
       (forall t, d_term (f dx) = Some t ->
          exists td, nth_error (dies s) t = Some td /\ d_cu td = d_cu dx /\ en_term e = Some (d_off td))) ->
    let s' := set_dies s (upd_nth x f (dies s)) in Inv F s' /\ ext s s'.
  Proof.
    intros HI Hx Ecu Eoff Eraw Lp Lt Hlinks s'.
    assert (Hdm : dies_mono (dies s) (upd_nth x f (dies s))).
    { apply dies_mono_upd. intros d Hd. assert (d = dx) by congruence. subst d. auto. }
    split.
    - destruct HI as [I1 I2 I3 I4 I5 I6 I7 I8 I9 I10 I11 I12 I13]. unfold s'. constructor; scbn; auto.
      + intros id c Hc. eapply (cu_ok_mono F WF fuel Hfuel); [exact Hdm|auto].
      + intros id d Hd. apply nth_error_upd_nth in Hd. destruct Hd as [(-> & y & Hy & ->)|(Hne & Hd)].
        * assert (y = dx) by congruence. subst y.
          destruct (I5 _ _ Hx) as (c & e & Hc & He & Hr & Hin & _ & _).
          destruct (Hlinks c e Hc He) as [Hp Ht].
          exists c, e. rewrite Ecu, Eoff, Eraw. split; [exact Hc|]. split; [exact He|]. split; [exact Hr|].
          split; [exact Hin|]. split.
          -- intros p Ep. destruct (Hp p Ep) as (pd & Hpd & A & B).
             destruct (Hdm _ _ Hpd) as (pd' & Hpd' & A' & B' & _). exists pd'. repeat split; congruence.
          -- intros t Et. destruct (Ht t Et) as (td & Htd & A & B).
             destruct (Hdm _ _ Htd) as (td' & Htd' & A' & B' & _). exists td'. repeat split; congruence.
        * eapply (die_ok_mono F WF fuel Hfuel); [apply cus_mono_refl|exact Hdm|auto].
    - unfold s'. split; [scbn; apply cus_mono_refl|]. split; [scbn; exact Hdm|reflexivity].
  Qed.

  (* ---------------------------------------------------------------- what a set link says *)
  Lemma term_facts s id u o d t : Inv F s -> die_at s id u o -> nth_error (dies s) id = Some d ->
    d_term d = Some t ->
    exists e td et, entry_at F u o = Some e /\ nth_error (dies s) t = Some td /\ en_term e = Some (d_off td) /\
                    entry_at F u (d_off td) = Some et /\ d_raw td = en_raw et /\ die_at s t u (d_off td).
  Proof.
    intros HI (d0 & c & Hd0 & Hc & Eu & Eo) Hd Et. assert (d0 = d) by congruence. subst d0.
    destruct (inv_dies _ _ HI _ _ Hd) as (c' & e & Hc' & He & Hr & _ & _ & Ht).
    assert (c' = c) by congruence. subst c'.
    destruct (Ht _ Et) as (td & Htd & Ecu & Een).
    destruct (inv_dies _ _ HI _ _ Htd) as (c2 & et & Hc2 & Het & Hrt & _).
    rewrite Ecu in Hc2. assert (c2 = c) by congruence. subst c2.
    exists e, td, et. subst u o. repeat split; auto.
    exists td, c. rewrite Ecu. repeat split; auto.
  Qed.

  Lemma parent_facts s id u o d p : Inv F s -> die_at s id u o -> nth_error (dies s) id = Some d ->
    d_parent d = Some p ->
    exists e pd, entry_at F u o = Some e /\ nth_error (dies s) p = Some pd /\ en_parent e = Some (d_off pd) /\
                 die_at s p u (d_off pd).
  Proof.
    intros HI (d0 & c & Hd0 & Hc & Eu & Eo) Hd Ep. assert (d0 = d) by congruence. subst d0.
    destruct (inv_dies _ _ HI _ _ Hd) as (c' & e & Hc' & He & Hr & _ & Hp & _).
    assert (c' = c) by congruence. subst c'.
    destruct (Hp _ Ep) as (pd & Hpd & Ecu & Een).
    exists e, pd. subst u o. repeat split; auto.
    exists pd, c. rewrite Ecu. repeat split; auto.
  Qed.

  (* two objects of the same unit object at the same offset are the same object *)
  Lemma die_identity s id1 id2 cu o : Inv F s -> die_in s id1 cu o -> die_in s id2 cu o -> id1 = id2.
  Proof.
    intros HI (d1 & H1 & C1 & O1) (d2 & H2 & C2 & O2).
    destruct (inv_dies _ _ HI _ _ H1) as (c1 & e1 & Hc1 & _ & _ & In1 & _).
    destruct (inv_dies _ _ HI _ _ H2) as (c2 & e2 & Hc2 & _ & _ & In2 & _).
    rewrite C1 in Hc1. rewrite C2 in Hc2. assert (c2 = c1) by congruence. subst c2.
    destruct (inv_cus _ _ HI _ _ Hc1) as (ud & _ & (_ & Hnd & _) & _).
    rewrite O1 in In1. rewrite O2 in In2. eapply combine_functional; eauto.
  Qed.

  (* ---------------------------------------------------------------- the unit of an entry object *)
  Record in_unit (s : state) (die : nat) (u : Z) (ud : udesc) (dd : die_obj) (c : cu_obj) : Prop := {
    iu_die : nth_error (dies s) die = Some dd;
    iu_cu : nth_error (cus s) (d_cu dd) = Some c;
    iu_off : c_off c = u;
    iu_unit : unit_at F u = Some ud;
    iu_wf : wf_unit F ud = true
  }.

  Lemma die_at_unit s die u o : Inv F s -> die_at s die u o ->
    exists ud dd c, in_unit s die u ud dd c /\ d_off dd = o.
  Proof.
    intros HI (dd & c & Hd & Hc & Eu & Eo). destruct (cu_facts F WF fuel Hfuel _ _ _ HI Hc) as (ud & Hu & _ & _ & Hw).
    exists ud, dd, c. split; [|exact Eo]. constructor; auto. congruence.
  Qed.

  Lemma entry_of_unit u ud o e : unit_at F u = Some ud -> zassoc o (ud_entries ud) = Some e -> entry_at F u o = Some e.
  Proof. intros Hu Hz. unfold entry_at. rewrite Hu. exact Hz. Qed.

  Lemma unit_off u ud : unit_at F u = Some ud -> ud_off ud = u.
  Proof. intros H. apply (unit_at_in F WF _ _ H). Qed.

  (* ---------------------------------------------------------------- the loop body of iter_DIE_children *)
  Definition term_at (s : state) (die : nat) (u toff : Z) : Prop :=
    exists d t, nth_error (dies s) die = Some d /\ d_term d = Some t /\ die_at s t u toff /\ parent_set s t.

  Definition fetch_post (s' : state) (u : Z) (die : nat) (n : node) (x : Z) (isterm : bool) (r : cframe * option nat) : Prop :=
    if isterm then r = (CDone, None) /\ term_at s' die u (node_toff n)
    else exists child, r = (CYield die child x, Some child) /\ die_at s' child u x /\ parent_set s' child.

  Lemma children_fetch_ok s die u ud par n x (isterm : bool) : Inv F s -> unit_at F u = Some ud -> wf_unit F ud = true ->
    die_at s die u (node_off n) -> In (par, n) (subnodes None (ud_tree ud)) -> dr_hc (node_raw n) = true ->
    (if isterm then x = node_toff n else exists k, In k (node_kids n) /\ x = node_off k) ->
    exists s' r, children_fetch P die x s = (s', Ok r) /\ Inv F s' /\ ext s s' /\ fetch_post s' u die n x isterm r.
  Proof.
    intros HI Hu Hw Hat Hn Hhc Hx.
    destruct (die_at_unit s die u _ HI Hat) as (ud' & dd & c & [Hd Hc Eu Hu' _] & Eo).
    assert (ud' = ud) by congruence. subst ud'. clear Hu'.
    destruct (node_entries F WF ud par n Hw Hn) as (Hown & Hterm & Hwn). specialize (Hterm Hhc).
    (* the entry at x *)
    assert (Hex : exists ex, entry_at F (c_off c) x = Some ex /\ en_parent ex = Some (d_off dd) /\
                  dr_null (en_raw ex) = isterm).
    { rewrite Eu, Eo. destruct isterm.
      - subst x. exists (term_entry n). split; [eapply entry_of_unit; eauto|]. split; [reflexivity|].
        apply (node_hc_facts F WF ud par n Hw Hn Hhc).
      - destruct Hx as (k & Hk & ->). pose proof (subnodes_kid _ _ _ _ _ Hn Hk) as Hnk.
        destruct (node_entries F WF ud _ k Hw Hnk) as (Hownk & _ & Hwk).
        exists (own_entry (Some (node_off n)) k). split; [eapply entry_of_unit; eauto|]. split; [reflexivity|].
        destruct k as [ko kraw kk kt ktr]. destruct (wf_node_unfold _ _ _ _ _ _ Hwk) as (Hnn & _). exact Hnn. }
    destruct Hex as (ex & Hex & Hpar & Hnull).
    unfold children_fetch. rewrite (bind_get_die _ _ _ _ Hd).
    destruct (get_cached_DIE_ok' F WF fuel Hfuel s (d_cu dd) c x ex HI Hc Hex) as (s1 & child & E1 & HI1 & X1 & Hat1 & Hin1).
    fold P in E1. rewrite (bind_ok _ _ _ _ _ E1).
    destruct Hin1 as (dch & Hdch & Ecu1 & Eoff1).
    pose proof X1 as X1'. destruct X1 as (XA & XB & XF). destruct (XB _ _ Hd) as (dd1 & Hdd1 & Ecud & Eoffd & Erawd & _).
    destruct (XA _ _ Hc) as (c1 & Hc1 & Eoc1 & _).
    (* set_parent *)
    unfold set_parent, upd_die. rewrite bind_modify.
    edestruct (Inv_upd_die s1 child dch (fun d => set_d_parent d (Some die)) HI1 Hdch) as (HI2 & X2); try reflexivity.
    { intros _. discriminate. }
    { auto. }
    { intros c' e' Hc' He'. rewrite Ecu1 in Hc'. assert (c' = c1) by congruence. subst c'.
      rewrite Eoc1, Eoff1 in He'. assert (e' = ex) by congruence. subst e'. split.
      - intros p Ep. cbn in Ep. inversion Ep. subst p. exists dd1. split; [exact Hdd1|]. split; congruence.
      - intros t Et. cbn [set_d_parent d_term] in Et.
        destruct (inv_dies _ _ HI1 _ _ Hdch) as (c2 & e2 & Hc2 & He2 & _ & _ & _ & Ht).
        rewrite Ecu1 in Hc2. assert (c2 = c1) by congruence. subst c2.
        rewrite Eoc1, Eoff1 in He2. assert (e2 = ex) by congruence. subst e2. apply Ht. exact Et. }
    set (s2 := set_dies s1 (upd_nth child (fun d => set_d_parent d (Some die)) (dies s1))) in *.
    assert (Hch2 : nth_error (dies s2) child = Some (set_d_parent dch (Some die))).
    { unfold s2. scbn. apply (nth_error_upd_nth_same child (fun d => set_d_parent d (Some die)) _ dch Hdch). }
    rewrite (bind_get_die _ _ _ _ Hch2). cbn [set_d_parent d_raw].
    assert (Hraw : d_raw dch = en_raw ex).
    { destruct (inv_dies _ _ HI1 _ _ Hdch) as (c2 & e2 & Hc2 & He2 & Hr2 & _).
      rewrite Ecu1 in Hc2. assert (c2 = c1) by congruence. subst c2.
      rewrite Eoc1, Eoff1 in He2. congruence. }
    rewrite Hraw, Hnull.
    assert (X12 : ext s s2) by (eapply ext_trans; [exact X1'|exact X2]).
    assert (Hps : parent_set s2 child) by (eexists; split; [exact Hch2|cbn; discriminate]).
    assert (Hat2 : die_at s2 child u x) by (eapply die_at_ext; [exact X2|rewrite <- Eu; exact Hat1]).
    destruct isterm.
    - (* the closing null entry: die._terminator = child *)
      subst x. destruct X2 as (XA2 & XB2 & XF2). destruct (XB2 _ _ Hdd1) as (dd2 & Hdd2 & Ecud2 & Eoffd2 & Erawd2 & _).
      rewrite bind_modify.
      edestruct (Inv_upd_die s2 die dd2 (fun d => set_d_term d (Some child)) HI2 Hdd2) as (HI3 & X3); try reflexivity.
      { auto. }
      { intros _. discriminate. }
      { intros c' e' Hc' He'. split.
        - intros p Ep. cbn [set_d_term d_parent] in Ep.
          destruct (inv_dies _ _ HI2 _ _ Hdd2) as (c2 & e2 & Hc2 & He2 & _ & _ & Hp & _).
          assert (c2 = c') by congruence. subst c2. assert (e2 = e') by congruence. subst e2. apply Hp. exact Ep.
        - intros t Et. cbn in Et. inversion Et. subst t. eexists. split; [exact Hch2|]. cbn [set_d_parent d_cu d_off].
          split; [congruence|].
          destruct (XA2 _ _ Hc1) as (c2 & Hc2 & Eoc2 & _).
          rewrite Ecud2, Ecud in Hc'. assert (c' = c2) by congruence. subst c'.
          rewrite Eoc2, Eoc1, Eu, Eoffd2, Eoffd, Eo in He'.
          rewrite (entry_of_unit _ _ _ _ Hu Hown) in He'. inversion He'. cbn [own_entry en_term]. rewrite Hhc.
          congruence. }
      eexists _, _. split; [reflexivity|]. split; [exact HI3|]. split; [eapply ext_trans; eauto|].
      unfold fetch_post. split; [reflexivity|].
      eexists _, child. split; [scbn; apply (nth_error_upd_nth_same die (fun d => set_d_term d (Some child)) _ dd2 Hdd2)|]. split; [reflexivity|].
      split; [eapply die_at_ext; [exact X3|exact Hat2] | eapply parent_set_ext; [exact X3|exact Hps]].
    - eexists _, _. split; [reflexivity|]. split; [exact HI2|]. split; [exact X12|].
      unfold fetch_post. exists child. auto.
  Qed.

  (* ---------------------------------------------------------------- one resumption / draining, by induction
     over the tree *)
  Definition at_pos (s : state) (u : Z) (die : nat) (n : node) (cf : cframe) (post : list node) : Prop :=
    (cf = CStart die /\ post = node_kids n) \/
    (exists child k pre, cf = CYield die child (node_off k) /\ node_kids n = pre ++ k :: post /\
                         die_at s child u (node_off k)).

  Definition next_post (s' : state) (u : Z) (die : nat) (n : node) (post : list node) (r : cframe * option nat) : Prop :=
    match post with
    | k' :: _ => exists child', r = (CYield die child' (node_off k'), Some child') /\
                                die_at s' child' u (node_off k') /\ parent_set s' child'
    | [] => r = (CDone, None) /\ term_at s' die u (node_toff n)
    end.

  Section OneUnit.
    Variables (u : Z) (ud : udesc).
    Hypothesis Hu : unit_at F u = Some ud.
    Hypothesis Hw : wf_unit F ud = true.

    Lemma fetch_at s die par n x post : Inv F s -> die_at s die u (node_off n) ->
      In (par, n) (subnodes None (ud_tree ud)) -> dr_hc (node_raw n) = true ->
      chain x post (node_toff n) = true -> (forall k, In k post -> In k (node_kids n)) ->
      exists s' r, children_fetch P die x s = (s', Ok r) /\ Inv F s' /\ ext s s' /\ next_post s' u die n post r.
    Proof.
      intros HI Hat Hn Hhc Hch Hsub. destruct post as [|k' post'].
      - apply chain_nil in Hch. subst x.
        destruct (children_fetch_ok s die u ud par n (node_toff n) true HI Hu Hw Hat Hn Hhc eq_refl)
          as (s' & r & E & HI' & X & Hp). exists s', r. auto.
      - apply chain_head in Hch. subst x.
        destruct (children_fetch_ok s die u ud par n (node_off k') false HI Hu Hw Hat Hn Hhc)
          as (s' & r & E & HI' & X & Hp).
        { exists k'. split; [apply Hsub; cbn; auto|reflexivity]. }
        exists s', r. auto.
    Qed.

    (* the contents of the object of a node's own entry *)
    Lemma node_die_raw s die par n : Inv F s -> die_at s die u (node_off n) ->
      In (par, n) (subnodes None (ud_tree ud)) ->
      exists dd c, nth_error (dies s) die = Some dd /\ nth_error (cus s) (d_cu dd) = Some c /\ c_off c = u /\
                   d_off dd = node_off n /\ d_raw dd = node_raw n.
    Proof.
      intros HI Hat Hn. destruct (die_facts F WF fuel Hfuel _ _ _ _ HI Hat) as (dd & c & e & Hd & Hc & Eu & Eo & He & Hr).
      destruct (node_entries F WF ud par n Hw Hn) as (Hown & _).
      rewrite (entry_of_unit _ _ _ _ Hu Hown) in He. inversion He. subst e.
      exists dd, c. repeat split; auto.
    Qed.

    Definition next_stmt (n : node) : Prop := forall m s die cf post,
      (bnext n <= m)%nat -> Inv F s -> die_at s die u (node_off n) -> at_pos s u die n cf post ->
      exists s' r, children_next P m cf s = (s', Ok r) /\ Inv F s' /\ ext s s' /\ next_post s' u die n post r.

    Definition drain_stmt (n : node) : Prop := forall post m s die cf acc,
      (length post + 1 + bnext n <= m)%nat -> Inv F s -> die_at s die u (node_off n) -> at_pos s u die n cf post ->
      exists s' ids, children_drain P m cf acc s = (s', Ok (rev acc ++ ids)) /\ Inv F s' /\ ext s s' /\
        Forall2 (fun id k => die_at s' id u (node_off k) /\ parent_set s' id) ids post /\
        term_at s' die u (node_toff n).

    Lemma drain_of_next n : next_stmt n -> drain_stmt n.
    Proof.
      intros HA post. induction post as [|k' post' IH]; intros m s die cf acc Hm HI Hat Hpos.
      - destruct m as [|m']; [cbn in Hm; lia|]. cbn [children_drain].
        destruct (HA m' s die cf [] ltac:(cbn in Hm; lia) HI Hat Hpos) as (s1 & r & E1 & HI1 & X1 & Hp).
        rewrite (bind_ok _ _ _ _ _ E1). cbn [next_post] in Hp. destruct Hp as [-> Ht].
        exists s1, []. rewrite app_nil_r. split; [reflexivity|]. split; [exact HI1|]. split; [exact X1|].
        split; [constructor|exact Ht].
      - destruct m as [|m']; [cbn in Hm; lia|]. cbn [children_drain].
        destruct (HA m' s die cf (k' :: post') ltac:(cbn [length] in Hm; lia) HI Hat Hpos) as (s1 & r & E1 & HI1 & X1 & Hp).
        rewrite (bind_ok _ _ _ _ _ E1). cbn [next_post] in Hp. destruct Hp as (child' & -> & Hc' & Hps').
        assert (Hpos1 : at_pos s1 u die n (CYield die child' (node_off k')) post').
        { right. destruct Hpos as [[_ Ek]|(ch & k & pre & _ & Ek & _)].
          - exists child', k', []. repeat split; auto.
          - exists child', k', (pre ++ [k]). rewrite <- app_assoc. repeat split; auto. }
        destruct (IH m' s1 die _ (child' :: acc) ltac:(cbn [length] in Hm; lia) HI1 (die_at_ext _ _ _ _ _ X1 Hat) Hpos1)
          as (s2 & ids & E2 & HI2 & X2 & Hall & Ht).
        exists s2, (child' :: ids). rewrite E2. cbn [rev]. rewrite <- app_assoc. cbn [app].
        split; [reflexivity|]. split; [exact HI2|]. split; [eapply ext_trans; eauto|].
        split; [|exact Ht]. constructor; [|exact Hall].
        split; [eapply die_at_ext; eauto|eapply parent_set_ext; eauto].
    Qed.

    Lemma nav_node n : forall par, In (par, n) (subnodes None (ud_tree ud)) -> dr_hc (node_raw n) = true ->
      next_stmt n /\ drain_stmt n.
    Proof.
      induction n as [off raw kids toff traw IH] using node_ind'. intros par Hn Hhc.
      set (n := Node off raw kids toff traw) in *.
      assert (HA : next_stmt n); [|split; [exact HA|apply drain_of_next; exact HA]].
      intros m s die cf post Hm HI Hat Hpos.
      destruct m as [|m']; [unfold bnext in Hm; lia|].
      destruct (node_hc_facts F WF ud par n Hw Hn Hhc) as (Hchain & Htnull & Htsz & Hkpos & Hend).
      destruct (node_die_raw s die par n HI Hat Hn) as (dd & c & Hd & Hc & Ecu & Eoff & Eraw).
      destruct Hpos as [[-> ->]|(child & k & pre & -> & Ekids & Hchild)].
      - (* first resumption *)
        cbn [children_next]. rewrite (bind_get_die _ _ _ _ Hd). rewrite Eraw.
        rewrite Hhc. cbn [negb].
        rewrite Eoff. apply (fetch_at s die par n _ (node_kids n) HI Hat Hn Hhc Hchain). auto.
      - (* resumption after the child k *)
        assert (Hk : In k (node_kids n)) by (rewrite Ekids; apply in_or_app; right; cbn; auto).
        pose proof (subnodes_kid _ _ _ _ _ Hn Hk) as Hnk.
        destruct (node_die_raw s child _ k HI Hchild Hnk) as (dch & cch & Hdch & Hcch & Ecuch & Eoffch & Erawch).
        pose proof (chain_after _ _ _ _ _ (eq_ind _ (fun l => chain _ l _ = true) Hchain _ Ekids)) as Hafter.
        assert (Hsub : forall x, In x post -> In x (node_kids n)).
        { intros x Hx. rewrite Ekids. apply in_or_app. right. cbn. auto. }
        assert (Hgoal : forall s1, Inv F s1 -> ext s s1 ->
                  exists s' r, children_fetch P die (node_end k) s1 = (s', Ok r) /\ Inv F s' /\ ext s s' /\
                               next_post s' u die n post r).
        { intros s1 HI1 X1.
          destruct (fetch_at s1 die par n _ post HI1 (die_at_ext _ _ _ _ _ X1 Hat) Hn Hhc Hafter Hsub)
            as (s' & r & E & HI' & X' & Hp).
          exists s', r. split; [exact E|]. split; [exact HI'|]. split; [eapply ext_trans; eauto|exact Hp]. }
        destruct (node_entries F WF ud _ k Hw Hnk) as (Hownk & Htermk & Hwk).
        cbn [children_next]. rewrite (bind_get_die _ _ _ _ Hdch). rewrite Erawch.
        destruct (dr_hc (node_raw k)) eqn:Ehk; cbn [negb].
        + (* the child has children *)
          assert (Hsib : sib_ok (ud_off ud) k = true).
          { destruct k as [ko kraw kk kt ktr]. apply (wf_node_unfold _ _ _ _ _ _ Hwk). }
          unfold sib_ok in Hsib. rewrite Ehk in Hsib. rewrite (unit_off _ _ Hu) in Hsib.
          destruct (dr_sib (node_raw k)) as [[[| |] v]|] eqn:Esib; try discriminate.
          * rewrite (bind_get_die _ _ _ _ Hd), (bind_get_cu _ _ _ _ Hc). rewrite Ecu.
            replace (v + u) with (node_end k) by lia. apply Hgoal; auto using ext_refl.
          * replace v with (node_end k) by lia. apply Hgoal; auto using ext_refl.
          * (* no DW_AT_sibling: the child's terminator is needed *)
            destruct (node_hc_facts F WF ud _ k Hw Hnk Ehk) as (_ & _ & _ & _ & Hendk).
            assert (Hstep : exists s1, (match d_term dch with
                                        | None => children_drain P m' (CStart child) [];;; ret tt
                                        | Some _ => ret tt end) s = (s1, Ok tt) /\ Inv F s1 /\ ext s s1 /\
                              exists dch1 t, nth_error (dies s1) child = Some dch1 /\ d_term dch1 = Some t).
            { destruct (d_term dch) as [t|] eqn:Et.
              - exists s. split; [reflexivity|]. split; [exact HI|]. split; [apply ext_refl|]. eauto.
              - rewrite Forall_forall in IH. destruct (IH k Hk _ Hnk Ehk) as [_ HB].
                destruct (HB (node_kids k) m' s child (CStart child) []) as (s1 & ids & E1 & HI1 & X1 & _ & Ht); auto.
                + pose proof (nav_fuel_kid n k Hk). rewrite nav_fuel_unfold in H. lia.
                + left. auto.
                + exists s1. rewrite (bind_ok _ _ _ _ _ E1). split; [reflexivity|]. split; [exact HI1|]. split; [exact X1|].
                  destruct Ht as (d1 & t & Hd1 & Et1 & _). eauto. }
            destruct Hstep as (s1 & E1 & HI1 & X1 & dch1 & t & Hdch1 & Et1).
            rewrite (bind_ok _ _ _ _ _ E1). rewrite (bind_get_die _ _ _ _ Hdch1). rewrite Et1.
            destruct (term_facts s1 child u (node_off k) dch1 t HI1 (die_at_ext _ _ _ _ _ X1 Hchild) Hdch1 Et1)
              as (e & td & et & He & Htd & Een & Het & Hrt & _).
            rewrite (entry_of_unit _ _ _ _ Hu Hownk) in He. inversion He. subst e.
            cbn [own_entry en_term] in Een. rewrite Ehk in Een. inversion Een as [Etoff].
            rewrite <- Etoff in Het. rewrite (entry_of_unit _ _ _ _ Hu (Htermk eq_refl)) in Het. inversion Het. subst et.
            rewrite (bind_get_die _ _ _ _ Htd). rewrite Hrt, <- Etoff. cbn [term_entry en_raw].
            rewrite <- Hendk. apply Hgoal; auto.
        + (* the child has no children *)
          replace (node_off k + dr_size (node_raw k)) with (node_end k).
          * apply Hgoal; auto using ext_refl.
          * destruct k as [ko kraw kk kt ktr]. cbn [node_end node_raw node_off] in *. rewrite Ehk. reflexivity.
    Qed.
  End OneUnit.
End Nav.
