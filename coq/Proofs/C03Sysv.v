(* Proofs/C03Sysv.v — ELFHashTable.get_symbol / get_number_of_symbols over ANY table
   accepted by wf_sysv_hash (no builder): the walk returns the first symbol of the
   bucket's chain bearing the queried name; hence soundness, completeness, totality,
   count exactness.  The symbol table is abstract here: a function [getsym] answering
   the symbol views [vs]; Proofs/C03Image.v instantiates it with the decoded section. *)
From PV Require Import Base.Fmt Base.Outcome Base.Prim Spec.C03Sym Spec.C03Hash
                       Model.C03Sections Model.C03Hash Proofs.C03HashFn.
From Coq Require Import Lia ZifyBool.
Open Scope list_scope.
Open Scope Z_scope.

(* the parameters ELFHashTable.__init__ obtains from a table *)
Definition sysv_params (T : sysv_table) : elf_hash_params :=
  mkEHP (zlen (sv_buckets T)) (zlen (sv_chains T)) (sv_buckets T) (sv_chains T).

Lemma bytes_eq_beqb a b : bytes_eq a b = beqb a b.
Proof. reflexivity. Qed.

Lemma beqb_true a b : beqb a b = true <-> a = b.
Proof. unfold beqb. destruct (list_eq_dec Z.eq_dec a b); split; intros; congruence. Qed.

Lemma forallb_zrange f a b i : forallb f (zrange a b) = true -> a <= i < b -> f i = true.
Proof.
  intros H Hi. rewrite forallb_forall in H. apply H. unfold zrange.
  apply in_map_iff. exists (Z.to_nat (i - a)). split; [lia|]. apply in_seq. lia.
Qed.

Lemma zrange_forallb f a b : (forall i, a <= i < b -> f i = true) -> forallb f (zrange a b) = true.
Proof.
  intros H. apply forallb_forall. intros x Hx. unfold zrange in Hx. apply in_map_iff in Hx.
  destruct Hx as [k [<- Hk]]. apply in_seq in Hk. apply H. lia.
Qed.

Lemma names_nth (vs : list symview) i : nth (Z.to_nat i) (map fst vs) [] = fst (vth vs i).
Proof. unfold vth. change (@nil Z) with (fst dview). apply map_nth. Qed.

Lemma list_index_ok l i : 0 <= i < zlen l -> list_index l i = Ok (zth l i).
Proof.
  intros Hi. unfold list_index, zth.
  destruct (Z.leb_spec 0 i); [|lia]. destruct (Z.ltb_spec i (zlen l)); [|lia]. reflexivity.
Qed.

(* ------------------------------------------------------------------ chains *)
Lemma chain_from_len chains : forall f i l, chain_from chains f i = Some l -> (length l <= f)%nat.
Proof.
  induction f as [|f IH]; intros i l H; cbn [chain_from] in H.
  - destruct (i =? 0); inversion H; subst; cbn; lia.
  - destruct (i =? 0); [inversion H; subst; cbn; lia|].
    destruct (below i (zlen chains)); [|discriminate].
    destruct (chain_from chains f (zth chains i)) as [l'|] eqn:E; [|discriminate].
    inversion H; subst. cbn [length]. apply IH in E. lia.
Qed.

Lemma chain_from_in chains : forall f i l, chain_from chains f i = Some l ->
  forall j, In j l -> 1 <= j < zlen chains.
Proof.
  induction f as [|f IH]; intros i l H j Hj; cbn [chain_from] in H.
  - destruct (i =? 0); inversion H; subst; destruct Hj.
  - destruct (Z.eqb_spec i 0) as [|Hi]; [inversion H; subst; destruct Hj|].
    destruct (below i (zlen chains)) eqn:Hb; [|discriminate].
    destruct (chain_from chains f (zth chains i)) as [l'|] eqn:E; [|discriminate].
    inversion H; subst. destruct Hj as [<-|Hj].
    + unfold below in Hb. lia.
    + eapply IH; eassumption.
Qed.

Section walk.
Variables (chains : list Z) (vs : list symview) (getsym : Z -> res symbol) (q : list Z).
Hypothesis Hlen : zlen chains = zlen vs.
Hypothesis Hget : forall i, 0 <= i < zlen vs -> getsym i = Ok (vth vs i).

Definition named (j : Z) : bool := beqb (fst (vth vs j)) q.

Lemma walk_char : forall f i l fuel, chain_from chains f i = Some l -> (length l < fuel)%nat ->
  elf_hash_walk getsym chains q fuel i = Ok (option_map (vth vs) (find named l)).
Proof.
  induction f as [|f IH]; intros i l fuel H Hf; cbn [chain_from] in H.
  - destruct fuel as [|fuel]; [lia|]. cbn [elf_hash_walk].
    destruct (i =? 0); [|discriminate]. inversion H; subst. reflexivity.
  - destruct fuel as [|fuel]; [lia|]. cbn [elf_hash_walk].
    destruct (Z.eqb_spec i 0) as [|Hi]; [inversion H; subst; reflexivity|].
    destruct (below i (zlen chains)) eqn:Hb; [|discriminate].
    destruct (chain_from chains f (zth chains i)) as [l'|] eqn:E; [|discriminate].
    inversion H; subst. unfold below in Hb.
    rewrite Hget by lia. cbn [bind find]. rewrite bytes_eq_beqb. fold (named i).
    destruct (named i); [reflexivity|].
    rewrite list_index_ok by lia. cbn [bind].
    apply IH; [exact E|]. cbn [length] in Hf. lia.
Qed.
End walk.

(* ------------------------------------------------------------------ the table predicate, unpacked *)
Section table.
Variables (T : sysv_table) (vs : list symview) (getsym : Z -> res symbol).
Hypothesis Hwf : wf_sysv_hash T (map fst vs) = true.
Hypothesis Hget : forall i, 0 <= i < zlen vs -> getsym i = Ok (vth vs i).

Let nb := zlen (sv_buckets T).
Let chains := sv_chains T.

Lemma wf_nb : 1 <= nb.
Proof.
  pose proof Hwf as W. unfold wf_sysv_hash in W. cbv zeta in W. rewrite !andb_true_iff in W.
  destruct W as [[[[[[[H _] _] _] _] _] _] _]. apply Z.leb_le in H. exact H.
Qed.

Lemma wf_len : zlen chains = zlen vs.
Proof.
  pose proof Hwf as W. unfold wf_sysv_hash in W. cbv zeta in W. rewrite !andb_true_iff in W.
  destruct W as [[[[[[[_ _] H] _] _] _] _] _]. subst chains. apply Z.eqb_eq in H.
  rewrite H. unfold zlen. rewrite map_length. reflexivity.
Qed.

(* every bucket has a chain ending in STN_UNDEF within the table *)
Lemma wf_bucket_chain b : 0 <= b < nb ->
  exists l, chain_from chains (length chains) (zth (sv_buckets T) b) = Some l.
Proof.
  intros Hb. pose proof Hwf as W. unfold wf_sysv_hash in W. cbv zeta in W. rewrite !andb_true_iff in W.
  destruct W as [[_ H] _]. rewrite forallb_forall in H.
  specialize (H (chain_from chains (length chains) (zth (sv_buckets T) b))).
  destruct (chain_from chains (length chains) (zth (sv_buckets T) b)) as [l|] eqn:E; [exists l; reflexivity|].
  assert (false = true); [|discriminate]. apply H. rewrite <- E.
  unfold zth. apply in_map. apply nth_In. subst nb. unfold zlen in Hb. lia.
Qed.

(* every hashed symbol is on the chain of its name's bucket *)
Lemma wf_member i l : 1 <= i < zlen vs ->
  chain_from chains (length chains) (zth (sv_buckets T) (sysv_hash (fst (vth vs i)) mod nb)) = Some l ->
  In i l.
Proof.
  intros Hi Hl. pose proof Hwf as W. unfold wf_sysv_hash in W. cbv zeta in W. rewrite !andb_true_iff in W.
  destruct W as [_ H].
  assert (Hn : zlen (map fst vs) = zlen vs) by (unfold zlen; rewrite map_length; reflexivity).
  apply forallb_zrange with (i := i) in H; [|lia].
  rewrite names_nth in H. fold nb chains in H.
  assert (Hb : 0 <= sysv_hash (fst (vth vs i)) mod nb < nb) by (apply Z.mod_pos_bound; pose proof wf_nb; lia).
  revert H.
  set (k := Z.to_nat (sysv_hash (fst (vth vs i)) mod nb)).
  intros H.
  assert (Hk : (k < length (sv_buckets T))%nat) by (subst k nb; unfold zlen in *; lia).
  rewrite (nth_indep _ None (chain_from chains (length chains) 0)) in H by (rewrite map_length; exact Hk).
  rewrite (map_nth (chain_from chains (length chains)) (sv_buckets T) 0 k) in H.
  unfold zth in Hl. fold k in Hl. fold chains in H. rewrite Hl in H.
  unfold memz in H. apply existsb_exists in H. destruct H as [x [Hx Hix]]. apply Z.eqb_eq in Hix. subst x. exact Hx.
Qed.

(* ------------------------------------------------------------------ get_symbol *)
Definition bucket_chain (q : list Z) : list Z :=
  match chain_from chains (length chains) (zth (sv_buckets T) (sysv_hash q mod nb)) with
  | Some l => l
  | None => []
  end.

Theorem sysv_get_symbol_char q :
  elf_hash_get_symbol getsym (sysv_params T) q
  = Ok (option_map (vth vs) (find (named vs q) (bucket_chain q))).
Proof.
  unfold elf_hash_get_symbol, sysv_params. cbn [eh_nbuckets eh_buckets eh_chains]. fold nb chains.
  pose proof wf_nb as Hnb.
  destruct (Z.eqb_spec nb 0); [lia|].
  rewrite elf_hash_spec.
  assert (Hb : 0 <= sysv_hash q mod nb < nb) by (apply Z.mod_pos_bound; lia).
  rewrite list_index_ok by exact Hb. cbn [bind].
  destruct (wf_bucket_chain _ Hb) as [l Hl]. unfold bucket_chain. rewrite Hl.
  apply walk_char with (f := length chains).
  - exact wf_len.
  - exact Hget.
  - exact Hl.
  - apply chain_from_len in Hl. lia.
Qed.

Lemma bucket_chain_in q j : In j (bucket_chain q) -> 1 <= j < zlen vs.
Proof.
  unfold bucket_chain.
  destruct (chain_from chains (length chains) (zth (sv_buckets T) (sysv_hash q mod nb))) as [l|] eqn:E;
    [|intros []].
  intros Hj. rewrite <- wf_len. eapply chain_from_in; eassumption.
Qed.

(* a returned symbol bears the queried name and is an entry of the hashed part (index >= 1) *)
Theorem sysv_lookup_sound q v :
  elf_hash_get_symbol getsym (sysv_params T) q = Ok (Some v) ->
  fst v = q /\ exists i, 1 <= i < zlen vs /\ v = vth vs i.
Proof.
  rewrite sysv_get_symbol_char. intros H.
  destruct (find (named vs q) (bucket_chain q)) as [j|] eqn:E; [|discriminate].
  cbn [option_map] in H. inversion H; subst v.
  apply find_some in E. destruct E as [Hin Hn]. unfold named in Hn. apply beqb_true in Hn.
  split; [exact Hn|]. exists j. split; [apply (bucket_chain_in q); exact Hin|reflexivity].
Qed.

(* whenever a symbol of the hashed part bears the name, one is returned *)
Theorem sysv_lookup_complete q :
  (exists i, 1 <= i < zlen vs /\ fst (vth vs i) = q) ->
  exists v, elf_hash_get_symbol getsym (sysv_params T) q = Ok (Some v) /\ fst v = q.
Proof.
  intros [i [Hi Hq]]. rewrite sysv_get_symbol_char.
  destruct (find (named vs q) (bucket_chain q)) as [j|] eqn:E.
  - exists (vth vs j). split; [reflexivity|].
    apply find_some in E. destruct E as [_ Hn]. unfold named in Hn. apply beqb_true in Hn. exact Hn.
  - exfalso.
    assert (Hin : In i (bucket_chain q)).
    { unfold bucket_chain. pose proof wf_nb as Hnb.
      assert (Hb : 0 <= sysv_hash q mod nb < nb) by (apply Z.mod_pos_bound; lia).
      destruct (wf_bucket_chain _ Hb) as [l Hl]. rewrite Hl.
      apply wf_member; [exact Hi|]. rewrite Hq. exact Hl. }
    pose proof (find_none _ _ E i Hin) as Hn. unfold named in Hn.
    rewrite Hq in Hn. assert (beqb q q = true) by (apply beqb_true; reflexivity). congruence.
Qed.

(* no symbol of the hashed part bears the name (bucket and full-hash collisions included): None *)
Theorem sysv_lookup_absent q :
  (forall i, 1 <= i < zlen vs -> fst (vth vs i) <> q) ->
  elf_hash_get_symbol getsym (sysv_params T) q = Ok None.
Proof.
  intros Habs. rewrite sysv_get_symbol_char.
  destruct (find (named vs q) (bucket_chain q)) as [j|] eqn:E; [|reflexivity].
  exfalso. apply find_some in E. destruct E as [Hin Hn]. unfold named in Hn. apply beqb_true in Hn.
  apply (Habs j); [apply (bucket_chain_in q); exact Hin|exact Hn].
Qed.

Theorem sysv_count_exact : elf_hash_number_of_symbols (sysv_params T) = zlen vs.
Proof. unfold elf_hash_number_of_symbols, sysv_params. cbn [eh_nchains]. exact wf_len. Qed.
End table.
