(* Proofs/C13NameLUT.v — .debug_pubnames/.debug_pubtypes: the set parser builds exactly
   the dict of the encoded (name, unit offset, absolute entry offset) triples. *)
From PV Require Import Base.PyData Base.Prim Spec.PrimSpec Spec.C13Spec Proofs.PrimProofs
     Model.C13NameLUT Proofs.C13Aranges.
From Coq Require Import ZArith List Bool Lia ZifyBool.
Import ListNotations.
Open Scope Z_scope.

Definition dset (d : lut_dict) (kv : list Z * lut_entry) : lut_dict :=
  dict_set bytes_eqb d (fst kv) (snd kv).

Lemma namelut_header_decode_valid le ul v io il rest :
  0 <= ul < 0xfffffff0 -> u_ok 2 v = true -> u_ok 4 io = true -> u_ok 4 il = true ->
  namelut_header_decode le
    (int_encode le 4 ul ++ int_encode le 2 v ++ int_encode le 4 io ++ int_encode le 4 il ++ rest) =
  Some (mk_name_header ul v io il, rest).
Proof.
  intros Hul Hv Hio Hil. unfold namelut_header_decode.
  change (int_encode le 4 ul) with (initial_length_encode le ul false).
  rewrite initial_length_valid by (unfold initial_length_wf; lia).
  rewrite uint_decode_valid by (apply u_ok_range; exact Hv).
  rewrite uint_decode_valid by (apply u_ok_range; exact Hio).
  rewrite uint_decode_valid by (apply u_ok_range; exact Hil).
  reflexivity.
Qed.

Lemma name_entry_ok_facts e : name_entry_ok e = true ->
  u_ok 4 (fst e) = true /\ fst e <> 0 /\ no_nul (snd e) = true.
Proof.
  unfold name_entry_ok. intros H.
  apply andb_prop in H. destruct H as [H _]. apply andb_prop in H. destruct H as [H Hn].
  apply andb_prop in H. destruct H as [Hu Hz]. repeat split; auto.
  intros E. rewrite E in Hz. discriminate.
Qed.

Lemma name_entry_decode_entry le e rest : name_entry_ok e = true ->
  name_entry_decode le (encode_name_entry le e ++ rest) = Some (e, rest).
Proof.
  intros H. destruct (name_entry_ok_facts e H) as (Hu & Hz & Hn).
  unfold name_entry_decode, encode_name_entry. rewrite <- app_assoc.
  rewrite uint_decode_valid by (apply u_ok_range; exact Hu).
  destruct (Z.eqb_spec (fst e) 0) as [E|_]; [contradiction|].
  rewrite cstring_decode_valid by exact Hn. destruct e; reflexivity.
Qed.

Lemma name_entry_decode_term le rest :
  name_entry_decode le (int_encode le 4 0 ++ rest) = Some ((0, []), rest).
Proof.
  unfold name_entry_decode. rewrite uint_decode_valid by (apply u_ok_range; apply u_ok_0).
  reflexivity.
Qed.

Lemma names_loop_valid le cu tail : forall es d fuel,
  forallb name_entry_ok es = true -> (length es < fuel)%nat ->
  names_loop fuel le cu d (concat (map (encode_name_entry le) es) ++ int_encode le 4 0 ++ tail) =
  Ok (fold_left dset (map (fun e => (snd e, (cu, cu + fst e))) es) d).
Proof.
  induction es as [|e r IH]; intros d fuel Hes Hf; (destruct fuel as [|f]; [cbn in Hf; lia|]).
  - cbn [map concat app names_loop fold_left]. rewrite name_entry_decode_term. reflexivity.
  - cbn [forallb] in Hes. apply andb_prop in Hes. destruct Hes as [He Hr].
    cbn [map concat names_loop fold_left]. rewrite <- app_assoc.
    rewrite name_entry_decode_entry by exact He.
    destruct (name_entry_ok_facts e He) as (_ & Hz & _).
    destruct e as [dofs nm]. cbn [fst snd] in *.
    destruct (Z.eqb_spec dofs 0) as [E|_]; [contradiction|].
    rewrite IH; auto. cbn [length] in Hf. lia.
Qed.

Lemma zlen_name_entries le es :
  zlen (concat (map (encode_name_entry le) es)) =
  fold_right (fun e acc => ns_entry_len e + acc) 0 es.
Proof.
  induction es as [|e r IH]; cbn [map concat fold_right]; [reflexivity|].
  rewrite zlen_app, IH. change (ns_entry_len e) with (4 + zlen (snd e) + 1). unfold encode_name_entry, cstring_encode.
  rewrite !zlen_app, zlen_int_encode. change (zlen [0]) with 1. lia.
Qed.

Lemma name_entries_len_ge es : zlen es <= fold_right (fun e acc => ns_entry_len e + acc) 0 es.
Proof.
  induction es as [|e r IH]; cbn [fold_right]; [rewrite zlen_nil; lia|].
  rewrite zlen_cons. change (ns_entry_len e) with (4 + zlen (snd e) + 1). pose proof (zlen_nonneg (snd e)). lia.
Qed.

Lemma ns_body_length le s : zlen (ns_body le s) = ns_unit_length s.
Proof.
  unfold ns_body, ns_unit_length. rewrite !zlen_app, !zlen_int_encode, zlen_name_entries. lia.
Qed.

Lemma wf_name_set_facts s : wf_name_set s = true ->
  u_ok 2 (ns_version s) = true /\ u_ok 4 (ns_info_offset s) = true /\ u_ok 4 (ns_info_length s) = true /\
  forallb name_entry_ok (ns_entries s) = true /\ 0 <= ns_unit_length s < 0xfffffff0.
Proof.
  unfold wf_name_set. intros H. repeat (apply andb_prop in H; destruct H as [H ?]).
  repeat split; auto; try lia; try (unfold u_ok; lia).
  unfold ns_unit_length. pose proof (name_entries_len_ge (ns_entries s)).
  pose proof (zlen_nonneg (ns_entries s)). pose proof (zlen_nonneg (ns_trail s)). lia.
Qed.

Lemma zlen_encode_name_set le s : zlen (encode_name_set le s) = 4 + ns_unit_length s.
Proof. unfold encode_name_set. rewrite zlen_app, zlen_int_encode, ns_body_length. lia. Qed.

Definition set_header_of (s : name_set) : name_header :=
  mk_name_header (ns_unit_length s) (ns_version s) (ns_info_offset s) (ns_info_length s).

Lemma namelut_step le s pre post f size d hs :
  wf_name_set s = true -> zlen pre < size ->
  namelut_loop (S f) le (pre ++ encode_name_set le s ++ post) size (zlen pre) d hs =
  namelut_loop f le (pre ++ encode_name_set le s ++ post) size
    (zlen pre + zlen (encode_name_set le s)) (fold_left dset (set_items s) d) (hs ++ [set_header_of s]).
Proof.
  intros Hwf Hsz. destruct (wf_name_set_facts s Hwf) as (Hv & Hio & Hil & Hes & Hul).
  rewrite zlen_encode_name_set.
  cbn [namelut_loop]. destruct (Z.ltb_spec (zlen pre) size) as [_|]; [|lia].
  rewrite skipn_zlen_app by reflexivity.
  unfold encode_name_set at 1. rewrite ns_body_length. unfold ns_body. rewrite <- !app_assoc.
  rewrite namelut_header_decode_valid by auto.
  cbn [nh_info_offset nh_unit_length].
  rewrite names_loop_valid; auto.
  - cbn [bind]. unfold set_items, set_header_of.
    replace (zlen pre + ns_unit_length s + 4) with (zlen pre + (4 + ns_unit_length s)) by lia.
    reflexivity.
  - assert (Hl : zlen (ns_entries s) <=
                 zlen (concat (map (encode_name_entry le) (ns_entries s)) ++ int_encode le 4 0 ++ ns_trail s ++ post)).
    { rewrite zlen_app, zlen_name_entries.
      pose proof (name_entries_len_ge (ns_entries s)).
      pose proof (zlen_nonneg (int_encode le 4 0 ++ ns_trail s ++ post)). lia. }
    unfold zlen in Hl. lia.
Qed.

Lemma namelut_loop_valid le : forall sets pre fuel d hs,
  wf_names sets = true -> (length sets < fuel)%nat ->
  namelut_loop fuel le (pre ++ encode_names le sets)
    (zlen pre + zlen (encode_names le sets)) (zlen pre) d hs =
  Ok (fold_left dset (names_items sets) d, hs ++ names_headers sets).
Proof.
  induction sets as [|s r IH]; intros pre fuel d hs Hwf Hf.
  - destruct fuel as [|f]; [cbn in Hf; lia|]. cbn [namelut_loop].
    unfold encode_names, names_items, names_headers. cbn [map concat fold_left].
    rewrite zlen_nil, Z.add_0_r, Z.ltb_irrefl, app_nil_r. reflexivity.
  - destruct fuel as [|f]; [cbn in Hf; lia|]. cbn [length] in Hf.
    unfold wf_names in Hwf. cbn [forallb] in Hwf. apply andb_prop in Hwf. destruct Hwf as [Hs Hr].
    destruct (wf_name_set_facts s Hs) as (_ & _ & _ & _ & Hul).
    unfold encode_names. cbn [map concat]. fold (encode_names le r).
    rewrite namelut_step; auto.
    2:{ rewrite zlen_app, zlen_encode_name_set. pose proof (zlen_nonneg (encode_names le r)). lia. }
    replace (pre ++ encode_name_set le s ++ encode_names le r)
      with ((pre ++ encode_name_set le s) ++ encode_names le r) by (rewrite <- app_assoc; reflexivity).
    replace (zlen pre + zlen (encode_name_set le s ++ encode_names le r))
      with (zlen (pre ++ encode_name_set le s) + zlen (encode_names le r)) by (rewrite !zlen_app; lia).
    replace (zlen pre + zlen (encode_name_set le s)) with (zlen (pre ++ encode_name_set le s))
      by (rewrite zlen_app; reflexivity).
    rewrite IH; [|exact Hr|lia].
    unfold names_items, names_headers. cbn [map concat]. rewrite fold_left_app, <- app_assoc.
    reflexivity.
Qed.

Lemma encode_names_length_ge le sets : wf_names sets = true -> zlen sets <= zlen (encode_names le sets).
Proof.
  induction sets as [|s r IH]; intros Hwf; [unfold encode_names; cbn [map concat]; unfold zlen; cbn [length]; lia|].
  unfold wf_names in Hwf. cbn [forallb] in Hwf. apply andb_prop in Hwf. destruct Hwf as [Hs Hr].
  destruct (wf_name_set_facts s Hs) as (_ & _ & _ & _ & Hul).
  unfold encode_names. cbn [map concat]. fold (encode_names le r).
  rewrite zlen_app, zlen_cons, zlen_encode_name_set. specialize (IH Hr). lia.
Qed.

(* the parser builds the dict of all encoded triples (inserted in encoded order) and the
   list of set headers in order *)
Theorem names_exact le sets : wf_names sets = true ->
  namelut_get_entries le (encode_names le sets) (zlen (encode_names le sets)) =
  Ok (dict_of_list bytes_eqb (names_items sets), names_headers sets).
Proof.
  intros Hwf. unfold namelut_get_entries.
  pose proof (namelut_loop_valid le sets [] (S (Z.to_nat (zlen (encode_names le sets)))) [] [] Hwf) as H.
  cbn [app] in H. rewrite zlen_nil, Z.add_0_l in H. apply H.
  pose proof (encode_names_length_ge le sets Hwf) as Hl. unfold zlen in *. lia.
Qed.

(* distinct names: the item list IS the encoded list *)
Theorem names_items_distinct le sets : wf_names sets = true ->
  NoDup (map fst (names_items sets)) ->
  exists p, namelut_get_entries le (encode_names le sets) (zlen (encode_names le sets)) = Ok p /\
            nl_items p = names_items sets /\ nl_cu_headers p = names_headers sets.
Proof.
  intros Hwf Hnd. eexists. split; [apply names_exact; exact Hwf|]. cbn [nl_items nl_cu_headers fst snd].
  split; [|reflexivity]. apply dict_of_list_nodup; [exact bytes_eqb_eq | exact Hnd].
Qed.

(* in general: each name maps to its LAST encoded entry, the key order is the order of
   FIRST occurrences, [] raises KeyError exactly for absent names, headers in order *)
Theorem names_mapping le sets : wf_names sets = true ->
  exists p, namelut_get_entries le (encode_names le sets) (zlen (encode_names le sets)) = Ok p /\
    (forall name, nl_get p name = assoc_last bytes_eqb (names_items sets) name) /\
    (forall name, nl_getitem p name =
                  match assoc_last bytes_eqb (names_items sets) name with
                  | Some v => Ok v | None => Err (EPy "KeyError") end) /\
    nl_iter p = dedup bytes_eqb (map fst (names_items sets)) /\
    nl_len p = zlen (dedup bytes_eqb (map fst (names_items sets))) /\
    nl_cu_headers p = names_headers sets.
Proof.
  intros Hwf. eexists. split; [apply names_exact; exact Hwf|].
  unfold nl_get, nl_getitem, nl_iter, nl_len, nl_cu_headers. cbn [fst snd].
  repeat split.
  - intros name. apply dict_of_list_get. exact bytes_eqb_eq.
  - intros name. rewrite dict_of_list_get by exact bytes_eqb_eq. reflexivity.
  - apply dict_of_list_keys. exact bytes_eqb_eq.
  - rewrite <- (dict_of_list_keys bytes_eqb bytes_eqb_eq (names_items sets)).
    unfold dict_keys, zlen. rewrite map_length. reflexivity.
Qed.

(* the lazy memo: once filled, accessors never parse again and see the same pair *)
Theorem nl_force_stable le stream size st p st' :
  nl_force le stream size st = Ok (st', p) ->
  st' = Some p /\ nl_force le stream size st' = Ok (st', p).
Proof.
  unfold nl_force. destruct st as [q|].
  - intros E. inversion E. subst. auto.
  - destruct (namelut_get_entries le stream size) as [q|e]; cbn [bind]; intros E; inversion E; auto.
Qed.
