(* Proofs/C04Entry.v — one debugging-information entry (DESIGN 4.4 T3, the step):
   DIE._parse_DIE over the standard's encoding of an entry gives offset, size, code, tag,
   child flag and, in order, every attribute's name, final form, raw value, offset and
   indirection length; every operand class of the standard's form table, DW_FORM_indirect
   chains of any length, DW_FORM_implicit_const. *)
From Coq Require Import String.
From PV Require Import Base.Outcome Base.Prim Spec.PrimSpec Spec.C04Desc Spec.C04Spec Gen.C04Forms Model.C04Model
                       Proofs.PrimProofs Proofs.C04Forms Proofs.C04Header Proofs.C04Abbrev.
From Coq Require Import ZArith List Bool Lia ZifyBool.
Import ListNotations.
Open Scope string_scope.
Open Scope list_scope.
Open Scope Z_scope.

(* display names: what construct's Enum / DW_FORM_raw2name give for a number *)
Definition dn_tag : Z -> ename := enum_pass gen_dec_tag.
Definition dn_at : Z -> ename := enum_pass gen_dec_at.
Definition dn_form : Z -> ename := enum_pass gen_dec_form.

(* ------------------------------------------------------------------ operand readers *)
Lemma block_decode_g_valid (len : dec Z) (lenc payload tail : list Z) :
  (forall t, len (lenc ++ t) = Some (zlen payload, t)) ->
  block_decode_g len (lenc ++ payload ++ tail) = Some (payload, tail).
Proof.
  intros Hlen. unfold block_decode_g. rewrite Hlen. rewrite zlen_app.
  destruct (Z.ltb_spec (zlen payload + zlen tail) (zlen payload)) as [H|_].
  - pose proof (zlen_nonneg tail). lia.
  - unfold zlen. rewrite Nat2Z.id. apply take_app.
Qed.

Lemma arr_decode_bytes (b t : list Z) :
  arr_decode (length b) (uint_decode true 1) (b ++ t) = Some (b, t).
Proof.
  induction b as [|x r IH]; [reflexivity|].
  cbn [length app arr_decode]. rewrite uint_decode_byte, IH. reflexivity.
Qed.

Definition plain_class (k : oclass) : bool :=
  match k with CImplicit | CIndirect => false | _ => true end.

(* struct_parse(structs.Dwarf_dw_form[form], stream) for every class but the two special ones *)
Lemma parse_desc_operand c k op t :
  operand_wf c k op = true -> plain_class k = true ->
  parse_desc (class_desc (c_le c) k) (encode_operand c k op ++ t) = Ok (raw_of op, t).
Proof.
  intros Hwf Hk.
  destruct k as [n| | | |n| |n| | | ]; try discriminate Hk; destruct op; try discriminate Hwf;
    cbn [operand_wf encode_operand raw_of] in *.
  - (* CFixed *)
    destruct n as [|[|[|[|m]]]]; cbn [class_desc parse_desc parse_int].
    + rewrite uint_decode_valid by lia. reflexivity.
    + rewrite int_encode_1 by (change (2 ^ (8 * Z.of_nat 1)) with 256 in Hwf; lia).
      cbn [app]. rewrite uint_decode_byte. reflexivity.
    + rewrite uint_decode_valid by lia. reflexivity.
    + rewrite u24_decode_valid by (change (2 ^ (8 * Z.of_nat 3)) with (2 ^ 24) in Hwf; lia). reflexivity.
    + rewrite uint_decode_valid by lia. reflexivity.
  - (* CUleb *) cbn [class_desc parse_desc parse_int]. rewrite (uleb_ok_decode _ _ _ Hwf). reflexivity.
  - (* CSleb *) cbn [class_desc parse_desc parse_int]. rewrite (sleb_ok_decode _ _ _ Hwf). reflexivity.
  - (* CStr *)
    apply andb_prop in Hwf. destruct Hwf as [_ Hnn]. cbn [class_desc parse_desc].
    change (s ++ [0]) with (cstring_encode s). rewrite cstring_decode_valid by exact Hnn. reflexivity.
  - (* CBlockN *)
    apply andb_prop in Hwf. destruct Hwf as [_ Hlen]. rewrite <- app_assoc.
    assert (Hb : 0 <= zlen payload < 2 ^ (8 * Z.of_nat n)) by (pose proof (zlen_nonneg payload); lia).
    destruct n as [|[|m]]; cbn [class_desc parse_desc parse_int].
    + rewrite block_decode_g_valid; [reflexivity|]. intros t'. apply uint_decode_valid. exact Hb.
    + rewrite int_encode_1 by (change (2 ^ (8 * Z.of_nat 1)) with 256 in Hb; lia).
      change ([zlen payload] ++ payload ++ t) with ([zlen payload] ++ payload ++ t).
      rewrite block_decode_g_valid; [reflexivity|]. intros t'. cbn [app]. apply uint_decode_byte.
    + rewrite block_decode_g_valid; [reflexivity|]. intros t'. apply uint_decode_valid. exact Hb.
  - (* CBlockU *)
    apply andb_prop in Hwf. destruct Hwf as [_ Hlen]. rewrite <- app_assoc.
    cbn [class_desc parse_desc parse_int].
    rewrite block_decode_g_valid; [reflexivity|]. intros t'. apply uleb_ok_decode. exact Hlen.
  - (* CBytes *)
    apply andb_prop in Hwf. destruct Hwf as [_ Hlen]. apply Nat.eqb_eq in Hlen. subst n.
    cbn [class_desc parse_desc parse_int]. rewrite arr_decode_bytes. reflexivity.
  - (* CNone *) reflexivity.
Qed.

(* ------------------------------------------------------------------ the two special form codes *)
Lemma class_indirect_code c code : std_form_class c code = Some CIndirect -> code = 0x16.
Proof.
  unfold std_form_class. intros H.
  repeat match type of H with
         | (if ?a =? ?b then _ else _) = _ =>
             destruct (Z.eqb_spec a b) as [E|_];
             [ first [ exact E | exfalso; destruct (c_ver c =? 2); discriminate H ] | ]
         end.
  discriminate.
Qed.
Lemma class_implicit_code c code : std_form_class c code = Some CImplicit -> code = 0x21.
Proof.
  unfold std_form_class. intros H.
  repeat match type of H with
         | (if ?a =? ?b then _ else _) = _ =>
             destruct (Z.eqb_spec a b) as [E|_];
             [ first [ exact E | exfalso; destruct (c_ver c =? 2); discriminate H ] | ]
         end.
  discriminate.
Qed.

Lemma name_is_indirect code name :
  In (code, name) std_form_names -> (name =? "DW_FORM_indirect")%string = (code =? 0x16).
Proof.
  intros Hin. destruct (Z.eqb_spec code 0x16) as [->|Hne].
  - assert (In (0x16, "DW_FORM_indirect") std_form_names) as H0 by (vm_compute; tauto).
    destruct (String.eqb_spec name "DW_FORM_indirect") as [|Hn]; [reflexivity|].
    exfalso. apply Hn.
    destruct (gen_form_names_match_standard _ _ Hin) as [H1 _].
    destruct (gen_form_names_match_standard _ _ H0) as [H2 _]. congruence.
  - destruct (String.eqb_spec name "DW_FORM_indirect") as [->|]; [|reflexivity].
    exfalso. apply Hne. eapply std_names_nodup; [exact Hin|]. vm_compute; tauto.
Qed.

(* ------------------------------------------------------------------ DIE._resolve_indirect *)
Lemma chain_length_nonneg op : 0 <= chain_length op.
Proof. induction op; cbn [chain_length]; lia. Qed.

Lemma chain_length_le c : forall op k, operand_wf c k op = true ->
  chain_length op <= zlen (encode_operand c k op).
Proof.
  induction op as [v|l|s|p|e p|b| | |f inner IH]; intros k Hwf;
    try (cbn [chain_length]; apply zlen_nonneg).
  destruct k; try discriminate Hwf. cbn [operand_wf] in Hwf. apply andb_prop in Hwf. destruct Hwf as [Hf Hin].
  cbn [chain_length encode_operand]. rewrite zlen_app.
  pose proof (uleb_ok_nonempty _ _ Hf) as Hne. unfold zlen at 1.
  destruct (std_form_class c (lv f)) as [k'|]; [|discriminate].
  assert (operand_wf c k' inner = true) as Hin' by (destruct k'; try exact Hin; discriminate).
  specialize (IH k' Hin'). lia.
Qed.

Lemma indirect_loop_ok c : cfg_ok c = true ->
  forall inner code k fuel len t,
  std_form_class c code = Some k -> k <> CImplicit -> operand_wf c k inner = true ->
  chain_length inner < Z.of_nat fuel ->
  indirect_loop (cfg_forms c) fuel code len (encode_operand c k inner ++ t)
  = Ok (dn_form (final_form code inner), raw_of inner, len + chain_length inner, t).
Proof.
  intros Hc.
  induction inner as [v|l|s|p|e p|b| | |f inner IH]; intros code k fuel len t Hk Hni Hwf Hfuel.
  9: { (* OpIndirect *)
    destruct k; try discriminate Hwf. apply class_indirect_code in Hk as Hcode. subst code.
    cbn [operand_wf] in Hwf. apply andb_prop in Hwf. destruct Hwf as [Hf Hin].
    destruct (std_form_class c (lv f)) as [k'|] eqn:Hk'; [|discriminate].
    assert (operand_wf c k' inner = true /\ k' <> CImplicit) as [Hin' Hni']
      by (destruct k'; try (split; [exact Hin|discriminate]); discriminate).
    destruct fuel as [|fu]; [pose proof (chain_length_nonneg (OpIndirect f inner)); lia|].
    destruct (form_lookup c 0x16 CIndirect Hc Hk) as (name & _ & Hraw & Hstd & Hfp).
    cbn [indirect_loop]. rewrite Hraw, Hfp. cbn [class_desc parse_desc parse_int encode_operand].
    rewrite <- app_assoc. rewrite (uleb_ok_decode _ _ _ Hf).
    rewrite (name_is_indirect _ _ Hstd). cbn [Z.eqb Pos.eqb negb]. rewrite Hk'.
    rewrite (IH (lv f) k' fu (len + 1) t Hk' Hni' Hin'); [|cbn [chain_length] in Hfuel; lia].
    cbn [final_form raw_of chain_length]. f_equal. f_equal. f_equal. lia. }
  all: destruct fuel as [|fu]; [cbn [chain_length] in Hfuel; lia|];
    assert (Hp : plain_class k = true) by (destruct k; try reflexivity; try discriminate Hwf; contradiction);
    destruct (form_lookup c code k Hc Hk) as (name & Hdn & Hraw & Hstd & Hfp);
    cbn [indirect_loop]; rewrite Hraw, Hfp;
    rewrite (parse_desc_operand c k _ t Hwf Hp);
    rewrite (name_is_indirect _ _ Hstd);
    (destruct (Z.eqb_spec code 0x16) as [->|_];
     [ exfalso; destruct k; try discriminate Hp; vm_compute in Hk; discriminate Hk | ]);
    cbn [negb final_form chain_length]; unfold dn_form; rewrite Hdn, Z.add_0_r; reflexivity.
Qed.

Lemma resolve_indirect_ok c f inner t :
  cfg_ok c = true -> operand_wf c CIndirect (OpIndirect f inner) = true ->
  resolve_indirect (cfg_forms c) (encode_operand c CIndirect (OpIndirect f inner) ++ t)
  = Ok (dn_form (final_form 0x16 (OpIndirect f inner)), raw_of inner, chain_length (OpIndirect f inner), t).
Proof.
  intros Hc Hwf. cbn [operand_wf] in Hwf. apply andb_prop in Hwf. destruct Hwf as [Hf Hin].
  destruct (std_form_class c (lv f)) as [k'|] eqn:Hk'; [|discriminate].
  assert (operand_wf c k' inner = true /\ k' <> CImplicit) as [Hin' Hni']
    by (destruct k'; try (split; [exact Hin|discriminate]); discriminate).
  unfold resolve_indirect. cbn [encode_operand]. rewrite Hk', <- app_assoc.
  rewrite (uleb_ok_decode _ _ _ Hf).
  rewrite (indirect_loop_ok c Hc inner (lv f) k' _ 1 t Hk' Hni' Hin').
  - cbn [final_form chain_length]. reflexivity.
  - pose proof (chain_length_le c inner k' Hin'). rewrite app_length, Nat2Z.inj_succ, Nat2Z.inj_add.
    unfold zlen in H. lia.
Qed.

(* ------------------------------------------------------------------ the attribute loop of _parse_DIE *)
(* self.attributes[name] = AttributeValue(...) for each attribute in turn *)
Definition attrs_fold (l acc : list xattr) : list xattr := fold_left attrs_set l acc.

Definition spec_readable (c : cfg) (a : aspec) (v : operand) : bool :=
  aspec_readable a &&
  match form_class c a with Some k => operand_wf c k v | None => false end.

Lemma vals_wf_cons c a sr v vr : vals_wf c (a :: sr) (v :: vr) = true ->
  exists k, form_class c a = Some k /\ operand_wf c k v = true /\ vals_wf c sr vr = true.
Proof.
  cbn [vals_wf]. destruct (form_class c a) as [k|]; [|discriminate].
  intros H. apply andb_prop in H. destruct H. exists k. auto.
Qed.

Lemma parse_attrs_fold c : cfg_ok c = true ->
  forall specs vals t pos acc,
  forallb aspec_wf specs = true -> vals_wf c specs vals = true ->
  parse_attrs (cfg_forms c) (map expect_mspec specs) (encode_vals c specs vals ++ t) pos acc
  = Ok (attrs_fold (expect_attrs dn_at dn_form c specs vals pos) acc, pos + zlen (encode_vals c specs vals)).
Proof.
  intros Hc. induction specs as [|a sr IH]; intros vals t pos acc Hs Hv.
  - destruct vals; [|discriminate]. cbn. rewrite Z.add_0_r. reflexivity.
  - destruct vals as [|v vr]; [discriminate|].
    destruct (vals_wf_cons _ _ _ _ _ Hv) as (k & Hk & Hop & Hvr).
    cbn [forallb] in Hs. apply andb_prop in Hs. destruct Hs as [Ha Hsr].
    destruct (aspec_wf_readable a Ha) as [Hra _].
    unfold aspec_readable in Hra. apply andb_prop in Hra. destruct Hra as [_ Hconst].
    unfold FORM_implicit_const in Hconst.
    cbn [map parse_attrs encode_vals expect_attrs]. rewrite Hk.
    unfold form_class in Hk.
    cbn [ms_name ms_form ms_value expect_mspec].
    rewrite form_is_implicit. rewrite <- app_assoc.
    destruct (Z.eqb_spec (lv (a_form a)) 0x21) as [E21|N21].
    + (* implicit_const: nothing in the entry, the value comes from the abbreviation *)
      rewrite E21 in Hk. vm_compute in Hk. injection Hk as <-.
      destruct v; try discriminate Hop. cbn [encode_operand app].
      destruct (a_const a) as [l|]; [|discriminate Hconst].
      cbn [option_map]. rewrite (IH vr t pos _ Hsr Hvr).
      unfold operand_size. cbn [encode_operand final_form chain_length zlen length Z.of_nat].
      rewrite Z.add_0_r. cbn [app]. unfold dn_form, dn_at. rewrite E21. reflexivity.
    + assert (Hnc : a_const a = None).
      { destruct (a_const a); [discriminate Hconst|reflexivity]. }
      rewrite Hnc.
      assert (Hind : is_name (enum_pass gen_dec_form (lv (a_form a))) "DW_FORM_indirect" = (lv (a_form a) =? 0x16)).
      { apply is_name_enum_pass; [exact gen_form_names_one_to_one | reflexivity]. }
      rewrite Hind.
      destruct (Z.eqb_spec (lv (a_form a)) 0x16) as [E16|N16].
      * (* indirect *)
        rewrite E16 in Hk. vm_compute in Hk. injection Hk as <-.
        destruct v as [ | | | | | | | |f inner]; try discriminate Hop.
        rewrite (resolve_indirect_ok c f inner _ Hc Hop).
        rewrite pos_after_app. rewrite (IH vr t _ _ Hsr Hvr).
        unfold operand_size. rewrite E16. cbn [raw_of]. unfold dn_at.
        rewrite zlen_app, Z.add_assoc. reflexivity.
      * assert (Hp : plain_class k = true).
        { destruct k; try reflexivity.
          - apply class_implicit_code in Hk. contradiction.
          - apply class_indirect_code in Hk. contradiction. }
        destruct (form_lookup c _ k Hc Hk) as (name & Hdn & _ & _ & Hfp).
        rewrite Hdn in *. rewrite Hfp.
        rewrite (parse_desc_operand c k v _ Hop Hp).
        rewrite pos_after_app. rewrite (IH vr t _ _ Hsr Hvr).
        unfold operand_size.
        assert (Hff : final_form (lv (a_form a)) v = lv (a_form a) /\ chain_length v = 0).
        { destruct v; try (split; reflexivity). destruct k; discriminate. }
        destruct Hff as [-> ->]. unfold dn_form, dn_at. rewrite Hdn.
        rewrite zlen_app, Z.add_assoc. reflexivity.
Qed.

(* ------------------------------------------------------------------ dict assignment = append when names are distinct *)
Fixpoint xname_mem (n : ename) (l : list xattr) : bool :=
  match l with [] => false | b :: r => ename_eqb (xa_name b) n || xname_mem n r end.
Fixpoint xnames_nodup (l : list xattr) : bool :=
  match l with [] => true | a :: r => negb (xname_mem (xa_name a) r) && xnames_nodup r end.

Lemma attrs_set_fresh acc a : xname_mem (xa_name a) acc = false -> attrs_set acc a = acc ++ [a].
Proof.
  induction acc as [|b r IH]; intros H; [reflexivity|].
  cbn [xname_mem] in H. apply orb_false_iff in H. destruct H as [H1 H2].
  cbn [attrs_set app]. rewrite H1, IH by exact H2. reflexivity.
Qed.

Lemma xname_mem_app n a b : xname_mem n (a ++ b) = xname_mem n a || xname_mem n b.
Proof. induction a as [|x r IH]; [reflexivity|]. cbn [app xname_mem]. rewrite IH, orb_assoc. reflexivity. Qed.

Lemma ename_eqb_sym a b : ename_eqb a b = ename_eqb b a.
Proof. destruct a, b; cbn; auto using String.eqb_sym, Z.eqb_sym. Qed.

Lemma attrs_fold_distinct l : forall acc,
  xnames_nodup l = true -> (forall x, In x l -> xname_mem (xa_name x) acc = false) ->
  attrs_fold l acc = acc ++ l.
Proof.
  unfold attrs_fold. induction l as [|a r IH]; intros acc Hnd Hacc; [cbn; rewrite app_nil_r; reflexivity|].
  cbn [xnames_nodup] in Hnd. apply andb_prop in Hnd. destruct Hnd as [Ha Hr]. apply negb_true_iff in Ha.
  cbn [fold_left]. rewrite attrs_set_fresh by (apply Hacc; left; reflexivity).
  rewrite IH; [rewrite <- app_assoc; reflexivity|exact Hr|].
  intros x Hx. rewrite xname_mem_app. rewrite (Hacc x (or_intror Hx)). cbn [xname_mem orb].
  rewrite orb_false_r.
  destruct (ename_eqb (xa_name a) (xa_name x)) eqn:E; [|reflexivity].
  apply ename_eqb_eq in E. exfalso.
  assert (xname_mem (xa_name a) r = true); [|congruence].
  clear - Hx E. induction r as [|y r IH]; [destruct Hx|].
  cbn [xname_mem]. destruct Hx as [->|Hx].
  - rewrite E, ename_eqb_refl. reflexivity.
  - rewrite IH by exact Hx. apply orb_true_r.
Qed.

Lemma expect_attrs_names c : forall specs vals pos,
  vals_wf c specs vals = true ->
  map xa_name (expect_attrs dn_at dn_form c specs vals pos) = map (fun a => dn_at (lv (a_name a))) specs.
Proof.
  induction specs as [|a sr IH]; intros vals pos Hv; destruct vals as [|v vr]; try discriminate Hv; [reflexivity|].
  destruct (vals_wf_cons _ _ _ _ _ Hv) as (k & Hk & _ & Hvr).
  cbn [expect_attrs map]. rewrite Hk. cbn [map xa_name]. rewrite IH by exact Hvr. reflexivity.
Qed.

Lemma xname_mem_map n l : xname_mem n l = existsb (fun m => ename_eqb m n) (map xa_name l).
Proof. induction l as [|a r IH]; [reflexivity|]. cbn [xname_mem map existsb]. rewrite IH. reflexivity. Qed.
Lemma xnames_nodup_map l : forall l', map xa_name l = map xa_name l' -> xnames_nodup l = xnames_nodup l'.
Proof.
  induction l as [|a r IH]; intros l' H; destruct l' as [|a' r']; try discriminate H; [reflexivity|].
  cbn [map] in H. injection H as Ha Hr. cbn [xnames_nodup]. rewrite !xname_mem_map, Ha, Hr, (IH r' Hr). reflexivity.
Qed.

Lemma dn_at_nodup (codes : list Z) : znodup codes = true ->
  forall l, map xa_name l = map dn_at codes -> xnames_nodup l = true.
Proof.
  induction codes as [|x r IH]; intros Hnd l Hl; destruct l as [|a l]; try discriminate Hl; [reflexivity|].
  cbn [map] in Hl. injection Hl as Ha Hr.
  cbn [znodup] in Hnd. apply andb_prop in Hnd. destruct Hnd as [Hx Hnd].
  cbn [xnames_nodup]. rewrite (IH Hnd l Hr), andb_true_r. apply negb_true_iff in Hx. apply negb_true_iff.
  rewrite xname_mem_map, Hr, Ha. clear - Hx. induction r as [|y r IH]; [reflexivity|].
  cbn [zmem] in Hx. apply orb_false_iff in Hx. destruct Hx as [H1 H2].
  cbn [map existsb]. rewrite (IH H2), orb_false_r.
  destruct (ename_eqb (dn_at y) (dn_at x)) eqn:E; [|reflexivity].
  apply ename_eqb_eq, gen_at_names_one_to_one in E. lia.
Qed.

Lemma expect_attrs_nodup c d vals pos :
  names_distinct d = true -> vals_wf c (d_attrs d) vals = true ->
  xnames_nodup (expect_attrs dn_at dn_form c (d_attrs d) vals pos) = true.
Proof.
  intros Hnd Hv. apply (dn_at_nodup (map (fun a => lv (a_name a)) (d_attrs d)) Hnd).
  rewrite expect_attrs_names by exact Hv. rewrite map_map. reflexivity.
Qed.

(* ------------------------------------------------------------------ DIE._parse_DIE *)
Lemma encode_vals_size c : forall specs vals, vals_wf c specs vals = true -> 0 <= zlen (encode_vals c specs vals).
Proof. intros. apply zlen_nonneg. Qed.

Theorem parse_die_ok c (abbrevs : list (Z * mdecl)) (ds : list adecl) (e : fentry) (sec : list Z) (off : Z) (tail : list Z) :
  cfg_ok c = true ->
  (forall code, zfind abbrevs code = option_map expect_mdecl (find_decl ds code)) ->
  forallb adecl_wf ds = true ->
  entry_wf c ds e = true ->
  zskipn off sec = encode_entry c ds e ++ tail ->
  parse_die (cfg_forms c) abbrevs sec off = Ok (expect_entry dn_tag dn_at dn_form c ds e off).
Proof.
  intros Hc Hab Hds Hwf Hat. unfold parse_die. rewrite Hat.
  destruct e as [code vals|enc]; cbn [entry_wf encode_entry expect_entry] in *.
  - apply andb_prop in Hwf. destruct Hwf as [Hwf Hd]. apply andb_prop in Hwf. destruct Hwf as [Hcode Hnz].
    rewrite <- app_assoc. rewrite (uleb_ok_decode _ _ _ Hcode).
    apply negb_true_iff in Hnz. rewrite Hnz. rewrite Hab.
    destruct (find_decl ds (lv code)) as [d|] eqn:Hfd; [|discriminate].
    apply andb_prop in Hd. destruct Hd as [Hvals Hnames].
    assert (Hdwf : forallb aspec_wf (d_attrs d) = true).
    { rewrite forallb_forall in Hds.
      assert (In d ds) as Hin.
      { clear - Hfd. induction ds as [|x r IH]; [discriminate|]. cbn [find_decl] in Hfd.
        destruct (lv (d_code x) =? lv code); [injection Hfd as ->; left; reflexivity|right; auto]. }
      destruct (adecl_wf_parts d (Hds d Hin)) as (_ & _ & _ & H & _). exact H. }
    cbn [option_map]. unfold expect_mdecl at 1. cbn [md_specs].
    rewrite (parse_attrs_fold c Hc _ _ tail _ [] Hdwf Hvals).
    rewrite attrs_fold_distinct; [|apply expect_attrs_nodup; assumption|reflexivity].
    rewrite !pos_after_app. cbn [app expect_mdecl md_tag md_kids].
    rewrite zlen_app. f_equal. f_equal; lia.
  - rewrite (uleb_ok_decode _ _ _ Hwf). cbn [Z.eqb]. rewrite pos_after_app. f_equal. f_equal. lia.
Qed.

Lemma encode_entry_nonempty c ds e : entry_wf c ds e = true -> 0 < zlen (encode_entry c ds e).
Proof.
  destruct e as [code vals|enc]; cbn [entry_wf encode_entry]; intros H.
  - apply andb_prop in H. destruct H as [H _]. apply andb_prop in H. destruct H as [H _].
    rewrite zlen_app. pose proof (uleb_ok_nonempty _ _ H). pose proof (zlen_nonneg
      match find_decl ds (lv code) with Some d => encode_vals c (d_attrs d) vals | None => [] end).
    unfold zlen at 1. lia.
  - pose proof (uleb_ok_nonempty _ _ H). unfold zlen. lia.
Qed.
