(* Proofs/C14Proofs.v — lemmas for property C14 (notes and stabs).
   Model: Model/C14Notes.v; meaning: Spec/C14Notes.v; statements restated in Props/C14.v. *)
From PV Require Import Base.Outcome Base.Fmt Base.Enum Base.Prim.
From PV Require Import Gen.ElfLayouts Gen.C14Notes Spec.ElfGabi Spec.PrimSpec Spec.C14Notes Model.C14Notes.
From PV Require Import Proofs.PrimProofs Proofs.FmtProofs Proofs.ElfLayoutFacts.
From Coq Require Import Lia ZifyBool.
Ltac Zify.zify_post_hook ::= Z.to_euclidean_division_equations.
Open Scope string_scope.
Open Scope list_scope.
Open Scope Z_scope.

(* ================================================================== roundup *)
Lemma roundup_unfold n b : roundup n b = Z.lor (n - 1) (Z.shiftl 1 b - 1) + 1.
Proof. reflexivity. Qed.

Lemma lor_mod_ones x b : 0 <= b -> Z.lor (x mod 2 ^ b) (Z.ones b) = Z.ones b.
Proof.
  intros Hb. apply Z.bits_inj'. intros i Hi. rewrite Z.lor_spec.
  destruct (Z.lt_ge_cases i b) as [Hlt|Hge].
  - rewrite (Z.ones_spec_low b i) by lia. apply orb_true_r.
  - rewrite Z.mod_pow2_bits_high by lia. rewrite Z.ones_spec_high by lia. reflexivity.
Qed.

(* or-ing the low b bits in: x with its low b bits all set *)
Lemma lor_ones x b : 0 <= b -> Z.lor x (Z.ones b) = x - x mod 2 ^ b + (2 ^ b - 1).
Proof.
  intros Hb.
  pose proof (Z.pow_pos_nonneg 2 b ltac:(lia) Hb) as Hp.
  assert (Hx : x = Z.lor (x mod 2 ^ b) (Z.shiftl (x / 2 ^ b) b)).
  { rewrite lor_shift_add by (try apply Z.mod_pos_bound; lia).
    rewrite (Z.div_mod x (2 ^ b)) at 1 by lia. ring. }
  rewrite Hx at 1.
  rewrite <- Z.lor_assoc, (Z.lor_comm (Z.shiftl _ _)), Z.lor_assoc.
  rewrite lor_mod_ones by exact Hb.
  assert (Ho : Z.ones b = 2 ^ b - 1) by (rewrite Z.ones_equiv; lia).
  rewrite Ho. rewrite lor_shift_add by lia.
  rewrite (Z.div_mod x (2 ^ b)) at 2 by lia. ring.
Qed.

Lemma roundup_closed n b : 0 <= b -> roundup n b = (n - 1) - (n - 1) mod 2 ^ b + 2 ^ b.
Proof.
  intros Hb. rewrite roundup_unfold, Z.shiftl_1_l.
  replace (2 ^ b - 1) with (Z.ones b) by (rewrite Z.ones_equiv; lia).
  rewrite lor_ones by exact Hb. ring.
Qed.

(* roundup n b is a multiple of 2^b in [n, n + 2^b): the least multiple of 2^b that is >= n *)
Theorem roundup_spec n b : 0 <= b ->
  roundup n b mod 2 ^ b = 0 /\ n <= roundup n b < n + 2 ^ b.
Proof.
  intros Hb. rewrite roundup_closed by exact Hb.
  pose proof (Z.pow_pos_nonneg 2 b ltac:(lia) Hb) as Hp.
  set (m := 2 ^ b) in *.
  pose proof (Z.mod_pos_bound (n - 1) m Hp) as Hr.
  split; [|lia].
  replace (n - 1 - (n - 1) mod m + m) with (((n - 1) / m + 1) * m).
  - apply Z.mod_mul. lia.
  - pose proof (Z.div_mod (n - 1) m ltac:(lia)) as Hd. lia.
Qed.

Theorem roundup_least n b k : 0 <= b -> k mod 2 ^ b = 0 -> n <= k -> roundup n b <= k.
Proof.
  intros Hb Hk Hn. destruct (roundup_spec n b Hb) as [Hm Hr].
  pose proof (Z.pow_pos_nonneg 2 b ltac:(lia) Hb) as Hp.
  set (m := 2 ^ b) in *. set (r := roundup n b) in *.
  apply Z.mod_divide in Hk; [|lia]. apply Z.mod_divide in Hm; [|lia].
  destruct Hk as [qk Hqk]. destruct Hm as [qr Hqr].
  assert (qr <= qk) by nia. nia.
Qed.

Lemma roundup_pad n b : 0 <= b -> roundup n b = n + pad_to (2 ^ b) n.
Proof.
  intros Hb. destruct (roundup_spec n b Hb) as [Hm Hr].
  pose proof (Z.pow_pos_nonneg 2 b ltac:(lia) Hb) as Hp.
  unfold pad_to. set (m := 2 ^ b) in *. set (r := roundup n b) in *.
  apply Z.mod_divide in Hm; [|lia]. destruct Hm as [q Hq].
  assert (Hmod : (- n) mod m = r - n).
  { symmetry. apply (Z.mod_unique (- n) m (- q) (r - n)); [left; lia | lia]. }
  lia.
Qed.

Lemma roundup_2 n : roundup n 2 = n + pad4 n.
Proof. exact (roundup_pad n 2 ltac:(lia)). Qed.
Lemma roundup_3 n : roundup n 3 = n + pad_to 8 n.
Proof. exact (roundup_pad n 3 ltac:(lia)). Qed.

Lemma pad_to_bound m n : 0 < m -> 0 <= pad_to m n < m.
Proof. intros H. unfold pad_to. apply Z.mod_pos_bound. exact H. Qed.

(* ================================================================== stream primitives *)
Lemma to_nat_zlen {A} (l : list A) : Z.to_nat (zlen l) = length l.
Proof. unfold zlen. apply Nat2Z.id. Qed.

Lemma skipn_z_app (a b : list Z) : skipn_z (zlen a) (a ++ b) = b.
Proof.
  unfold skipn_z. rewrite zlen_app.
  destruct (Z.ltb_spec (zlen a) (zlen a + zlen b)) as [H|H].
  - rewrite to_nat_zlen, skipn_app, skipn_all, Nat.sub_diag. reflexivity.
  - destruct b as [|x b]; [reflexivity|]. rewrite zlen_cons in H. pose proof (zlen_nonneg b). lia.
Qed.

Lemma skipn_z_at img (A B : list Z) off : img = A ++ B -> off = zlen A -> skipn_z off img = B.
Proof. intros -> ->. apply skipn_z_app. Qed.

Lemma firstn_z_app (a b : list Z) : firstn_z (zlen a) (a ++ b) = a.
Proof.
  unfold firstn_z. rewrite zlen_app.
  destruct (Z.ltb_spec (zlen a) (zlen a + zlen b)) as [H|H].
  - rewrite to_nat_zlen, firstn_app, firstn_all, Nat.sub_diag. cbn. apply app_nil_r.
  - destruct b as [|x b]; [apply app_nil_r|]. rewrite zlen_cons in H. pose proof (zlen_nonneg b). lia.
Qed.

Lemma read_at_at img (A X B : list Z) off n :
  img = A ++ X ++ B -> off = zlen A -> n = zlen X -> read_at img off n = X.
Proof. intros -> -> ->. unfold read_at. rewrite skipn_z_app. apply firstn_z_app. Qed.

Lemma take_z_app (a t : list Z) : take_z (zlen a) (a ++ t) = Some (a, t).
Proof.
  unfold take_z. rewrite zlen_app. pose proof (zlen_nonneg t).
  destruct (Z.leb_spec (zlen a) (zlen a + zlen t)); [|lia].
  rewrite to_nat_zlen, firstn_app, firstn_all, Nat.sub_diag, skipn_app, skipn_all, Nat.sub_diag.
  cbn. rewrite app_nil_r. reflexivity.
Qed.

Lemma take_z_at (a t : list Z) n : n = zlen a -> take_z n (a ++ t) = Some (a, t).
Proof. intros ->. apply take_z_app. Qed.

Lemma struct_parse_at_ok L vals img (A R : list Z) off :
  fits_layout L vals = true -> img = A ++ encode_layout L vals ++ R -> off = zlen A ->
  struct_parse_at L img off = Ok (annot_layout L vals).
Proof.
  intros Hf Hi Ho. unfold struct_parse_at.
  rewrite (skipn_z_at img A _ off Hi Ho). rewrite decode_encode_layout by exact Hf. reflexivity.
Qed.

Lemma zlen_concat_ge {A} (f : A -> list Z) (l : list A) :
  (forall x, In x l -> (1 <= length (f x))%nat) -> (length l <= length (concat (map f l)))%nat.
Proof.
  induction l as [|x l IH]; intros H; [cbn; lia|].
  cbn [map concat length]. rewrite app_length.
  pose proof (H x (or_introl eq_refl)). specialize (IH (fun y Hy => H y (or_intror Hy))). lia.
Qed.

(* ================================================================== tables: Gen = Spec *)
Ltac split_orb H :=
  repeat match type of H with
         | (_ || _)%bool = true => apply orb_prop in H; destruct H as [H|H]
         end.

Lemma n_type_table_spec c : wf_cfg c = true ->
  n_type_table c = spec_n_types (s_core (scfg_of c)).
Proof.
  destruct c as [le is64 et em]. unfold wf_cfg. cbn [c_etype]. intros H. cbn in H.
  split_orb H; try discriminate; apply String.eqb_eq in H; subst et; vm_compute; reflexivity.
Qed.

Lemma n_type_strict_false c : n_type_strict c = false.
Proof. destruct c as [le [|] et em]; vm_compute; reflexivity. Qed.

Lemma abi_os_table c :
  table_by_id (fst (abi_os_bind c)) = spec_abi_os /\ snd (abi_os_bind c) = false.
Proof. destruct c as [le [|] et em]; vm_compute; split; reflexivity. Qed.

Lemma prop_type_table : gen_prop_type_table = spec_prop_types /\ gen_prop_type_strict = false.
Proof. vm_compute. split; reflexivity. Qed.

Lemma Elf_Prop_head_spec le is64 :
  gen_Elf_Prop_head le is64 = [("pr_type", KU le 4); ("pr_datasz", KU le 4)].
Proof. destruct le, is64; reflexivity. Qed.

Lemma Elf_Nt_File_head_spec le is64 :
  gen_Elf_Nt_File_head le is64 =
  [("num_map_entries", KU le (if is64 then 8 else 4)); ("page_size", KU le (if is64 then 8 else 4))]%nat.
Proof. destruct le, is64; reflexivity. Qed.

Lemma Elf_Nt_File_entry_spec le is64 :
  gen_Elf_Nt_File_entry le is64 =
  [("vm_start", KU le (if is64 then 8 else 4)); ("vm_end", KU le (if is64 then 8 else 4));
   ("page_offset", KU le (if is64 then 8 else 4))]%nat.
Proof. destruct le, is64; reflexivity. Qed.

Lemma nt_file_counts :
  gen_nt_file_count_entries = CField "num_map_entries" /\ gen_nt_file_count_names = CField "num_map_entries".
Proof. split; reflexivity. Qed.

(* the machines with 16-bit uid/gid: same set (order-insensitive) *)
Definition subset_s (a b : list string) : bool := forallb (fun x => existsb (String.eqb x) b) a.

Lemma existsb_eqb_In m l : existsb (String.eqb m) l = true <-> In m l.
Proof.
  rewrite existsb_exists. split.
  - intros [x [Hin He]]. apply String.eqb_eq in He. subst. exact Hin.
  - intros H. exists m. split; [exact H | apply String.eqb_refl].
Qed.

Lemma subset_s_sound a b : subset_s a b = true -> forall m, In m a -> In m b.
Proof.
  unfold subset_s. rewrite forallb_forall. intros H m Hin.
  specialize (H m Hin). apply existsb_eqb_In in H. exact H.
Qed.

Lemma existsb_same_set m a b :
  subset_s a b = true -> subset_s b a = true ->
  existsb (String.eqb m) a = existsb (String.eqb m) b.
Proof.
  intros Hab Hba.
  destruct (existsb (String.eqb m) a) eqn:Ea, (existsb (String.eqb m) b) eqn:Eb; try reflexivity.
  - apply existsb_eqb_In in Ea. apply (subset_s_sound _ _ Hab) in Ea.
    apply existsb_eqb_In in Ea. congruence.
  - apply existsb_eqb_In in Eb. apply (subset_s_sound _ _ Hba) in Eb.
    apply existsb_eqb_In in Eb. congruence.
Qed.

Lemma ugid_half_machines_spec :
  subset_s gen_ugid_half_machines spec_ugid_half_machines = true /\
  subset_s spec_ugid_half_machines gen_ugid_half_machines = true.
Proof. vm_compute. split; reflexivity. Qed.

Lemma Elf_Prpsinfo_spec c : Elf_Prpsinfo c = prps_layout (scfg_of c).
Proof.
  destruct c as [le is64 et em]. unfold Elf_Prpsinfo, prps_layout, scfg_of.
  cbn [c_le c_is64 c_machine s_le s_is64 s_half].
  destruct ugid_half_machines_spec as [H1 H2].
  rewrite (existsb_same_set em _ _ H1 H2).
  destruct is64.
  - cbn [negb andb]. apply gen_Elf_Prpsinfo_gabi.
  - cbn [negb andb]. destruct (existsb (String.eqb em) spec_ugid_half_machines).
    + apply gen_Elf_Prpsinfo_half32_gabi.
    + apply gen_Elf_Prpsinfo_gabi.
Qed.

Lemma enum_field_pass T v : enum_field T false v = Ok (name_of T v).
Proof. unfold enum_field, name_of. destruct (dict_get T v); reflexivity. Qed.
