(* Proofs/C11Crc.v — the bit-by-bit register algorithm of binascii.crc32
   (Model/C11Dwarf.v crc32_model) computes the remainder of polynomial long
   division over GF(2) (Spec/C11Container.v crc32_poly), for byte strings of any length. *)
From PV Require Import Base.Bytes Spec.C11Container Model.C11Dwarf.
From Coq Require Import ZifyBool.
Open Scope Z_scope.

Lemma G_refl_value : G_refl = 0x1DB710641.
Proof. reflexivity. Qed.

(* one step of long division is one step of the shift register *)
Lemma div_step_crc_bit p : div_step p = crc_bit p.
Proof.
  unfold div_step, crc_bit. destruct (Z.odd p); [|reflexivity].
  rewrite Z.shiftr_lxor. f_equal.
Qed.

Lemma iter_S {A} (f : A -> A) n x : Nat.iter (S n) f x = f (Nat.iter n f x).
Proof. reflexivity. Qed.
Lemma iter_S_r {A} (f : A -> A) n : forall x, Nat.iter (S n) f x = Nat.iter n f (f x).
Proof. induction n as [|n IH]; intros x; [reflexivity|]. rewrite iter_S, IH. reflexivity. Qed.
Lemma iter_plus {A} (f : A -> A) n m x : Nat.iter (n + m) f x = Nat.iter n f (Nat.iter m f x).
Proof. induction n as [|n IH]; [reflexivity|]. cbn [Nat.add]. rewrite !iter_S, IH. reflexivity. Qed.
Lemma iter_ext {A} (f g : A -> A) (H : forall x, f x = g x) n x : Nat.iter n f x = Nat.iter n g x.
Proof. induction n as [|n IH]; [reflexivity|]. rewrite !iter_S, IH. apply H. Qed.

Lemma odd_lxor_shiftl x r k : 0 < k -> Z.odd (Z.lxor x (Z.shiftl r k)) = Z.odd x.
Proof.
  intros Hk. rewrite <- !Z.bit0_odd, Z.lxor_spec, Z.shiftl_spec_low by lia.
  apply xorb_false_r.
Qed.

(* the step is linear; coefficients further down the message are only moved *)
Lemma crc_bit_shifted x r k : 0 < k ->
  crc_bit (Z.lxor x (Z.shiftl r k)) = Z.lxor (crc_bit x) (Z.shiftl r (k - 1)).
Proof.
  intros Hk. unfold crc_bit. rewrite odd_lxor_shiftl by assumption.
  rewrite Z.shiftr_lxor, Z.shiftr_shiftl_l by lia.
  destruct (Z.odd x).
  - rewrite !Z.lxor_assoc. f_equal. apply Z.lxor_comm.
  - reflexivity.
Qed.

Lemma iter_crc_bit_shifted n : forall x r,
  Nat.iter n crc_bit (Z.lxor x (Z.shiftl r (Z.of_nat n))) = Z.lxor (Nat.iter n crc_bit x) r.
Proof.
  induction n as [|n IH]; intros x r.
  - cbn [Nat.iter]. rewrite Z.shiftl_0_r. reflexivity.
  - rewrite !iter_S_r.
    rewrite crc_bit_shifted by lia.
    replace (Z.of_nat (S n) - 1) with (Z.of_nat n) by lia.
    apply IH.
Qed.

Lemma byte_plus_shift b r : 0 <= b < 256 -> b + 256 * r = Z.lxor b (Z.shiftl r 8).
Proof.
  intros Hb. rewrite Z.shiftl_mul_pow2 by lia. change (2 ^ 8) with 256.
  symmetry. rewrite <- Z.add_nocarry_lxor; [lia|].
  apply Z.bits_inj'. intros n Hn. rewrite Z.land_spec, Z.bits_0.
  destruct (Z.ltb_spec n 8) as [Hlt|Hge].
  - replace (r * 256) with (r * 2 ^ 8) by reflexivity.
    rewrite Z.mul_pow2_bits_low by lia. apply andb_false_r.
  - rewrite (Z.bits_above_log2 b n); [reflexivity|lia|].
    destruct (Z.eq_dec b 0) as [->|Hnz]; [cbn; lia|].
    apply Z.lt_le_trans with 8; [|lia]. apply Z.log2_lt_pow2; lia.
Qed.

(* register after the bytes = whole-message division, any start value *)
Lemma register_is_division bs : all_bytes bs = true -> forall c,
  fold_left crc_byte bs c = Nat.iter (8 * length bs) crc_bit (Z.lxor c (le_decode bs)).
Proof.
  induction bs as [|b r IH]; intros Hb c.
  - cbn. rewrite Z.lxor_0_r. reflexivity.
  - cbn [all_bytes forallb] in Hb. apply andb_prop in Hb. destruct Hb as [Hb Hr].
    apply is_byte_iff in Hb.
    cbn [fold_left le_decode length]. rewrite IH by exact Hr.
    replace (8 * S (length r))%nat with (8 * length r + 8)%nat by lia.
    rewrite iter_plus. f_equal.
    rewrite byte_plus_shift by assumption.
    rewrite <- Z.lxor_assoc. symmetry.
    unfold crc_byte.
    exact (iter_crc_bit_shifted 8 (Z.lxor c b) (le_decode r)).
Qed.

Theorem crc32_model_is_poly bs : all_bytes bs = true -> crc32_model bs = crc32_poly bs.
Proof.
  intros Hb. unfold crc32_model, crc32_update, crc32_poly, ONES32.
  rewrite Z.lxor_0_l. rewrite register_is_division by exact Hb.
  f_equal. rewrite (iter_ext div_step crc_bit div_step_crc_bit).
  f_equal. apply Z.lxor_comm.
Qed.

(* binascii.crc32(d, running): feeding the file in pieces gives the checksum of the whole *)
Lemma crc32_update_app v a b :
  crc32_update (crc32_update v a) b = crc32_update v (a ++ b).
Proof.
  unfold crc32_update. rewrite fold_left_app. f_equal. f_equal.
  rewrite Z.lxor_assoc, Z.lxor_nilpotent, Z.lxor_0_r. reflexivity.
Qed.

Lemma file_crc32_go_whole fuel : forall rest v,
  (length rest < fuel)%nat -> file_crc32_go fuel rest v = crc32_update v rest.
Proof.
  induction fuel as [|f IH]; intros rest v Hl; [lia|].
  cbn [file_crc32_go].
  destruct (firstn 4096 rest) as [|x d] eqn:Ed.
  - destruct rest as [|y rest']; [|discriminate].
    unfold crc32_update. cbn [fold_left]. rewrite Z.lxor_assoc, Z.lxor_nilpotent, Z.lxor_0_r. reflexivity.
  - rewrite IH.
    + rewrite crc32_update_app. rewrite <- Ed, firstn_skipn. reflexivity.
    + rewrite skipn_length. destruct rest as [|y rest']; [discriminate|]. cbn [length] in *. lia.
Qed.

Theorem file_crc32_is_model file : file_crc32 file = crc32_model file.
Proof. unfold file_crc32, crc32_model. apply file_crc32_go_whole. lia. Qed.
