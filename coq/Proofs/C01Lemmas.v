(* Proofs/C01Lemmas.v — generic facts used by the C01 proofs: positions in a byte
   list, the layout predicates of Spec/C01Image.v read pointwise, records decoded
   in place, construct's Enum adapter, loops over range(n). *)
From Coq Require Import String.
From PV Require Import Base.Bytes Base.Outcome Base.Prim Base.Fmt Base.Enum Base.PyData.
From PV Require Import Proofs.FmtProofs Proofs.PrimProofs.
From PV Require Import Spec.PrimSpec Spec.C01Obs Spec.C01Image Model.C01ElfFile.
From Coq Require Import ZifyBool.
Ltac Zify.zify_post_hook ::= Z.to_euclidean_division_equations.
Open Scope string_scope.
Open Scope list_scope.
Open Scope Z_scope.

(* ------------------------------------------------------------------ positions *)
Lemma skipn_skipn' {A} (a b : nat) (l : list A) : skipn a (skipn b l) = skipn (b + a) l.
Proof.
  revert l. induction b as [|b IH]; intros l; [reflexivity|].
  destruct l as [|x l]; [destruct a; reflexivity|]. cbn [skipn Nat.add]. apply IH.
Qed.

Lemma zlen_from_eq {A} (l : list A) : forall acc, zlen_from acc l = acc + zlen l.
Proof.
  induction l as [|x l IH]; intros acc; cbn [zlen_from].
  - unfold zlen. cbn [length]. lia.
  - rewrite IH, zlen_cons. lia.
Qed.
Lemma zlenT_eq {A} (l : list A) : zlenT l = zlen l.
Proof. unfold zlenT. rewrite zlen_from_eq. lia. Qed.
Lemma stream_len_eq c : stream_len c = zlen (c_img c).
Proof. unfold stream_len. apply zlenT_eq. Qed.

Lemma skipn_tail {A} n : forall (l : list A),
  match skipn n l with [] => [] | _ :: t => t end = skipn (S n) l.
Proof.
  induction n as [|n IH]; intros l.
  - destruct l; reflexivity.
  - destruct l as [|x l]; [reflexivity|]. cbn [skipn]. rewrite IH. reflexivity.
Qed.

Lemma dropP_skipn {A} p : forall (l : list A), dropP p l = skipn (Pos.to_nat p) l.
Proof.
  induction p as [q IH|q IH|]; intros l.
  - destruct l as [|x t]; [cbn [dropP]; rewrite skipn_nil; reflexivity|].
    cbn [dropP]. rewrite !IH, skipn_skipn', skipn_tail. f_equal. lia.
  - destruct l as [|x t]; [cbn [dropP]; rewrite skipn_nil; reflexivity|].
    cbn [dropP]. rewrite !IH, skipn_skipn'. f_equal. lia.
  - destruct l; reflexivity.
Qed.

Lemma drop_skipn off (l : list Z) : drop off l = skipn (Z.to_nat off) l.
Proof.
  unfold drop. destruct off as [|p|p]; [reflexivity| |reflexivity].
  rewrite dropP_skipn. reflexivity.
Qed.

Lemma prefix_eqb_app bs : forall l, prefix_eqb bs l = true -> exists t, l = bs ++ t.
Proof.
  induction bs as [|x bs IH]; intros l H.
  - exists l. reflexivity.
  - destruct l as [|y l]; [discriminate|]. cbn [prefix_eqb] in H.
    apply andb_prop in H. destruct H as [Hxy H]. apply Z.eqb_eq in Hxy. subst y.
    destruct (IH l H) as [t Ht]. exists t. rewrite Ht. reflexivity.
Qed.

Lemma prefix_eqb_refl bs t : prefix_eqb bs (bs ++ t) = true.
Proof. induction bs as [|x bs IH]; [reflexivity|]. cbn [prefix_eqb app]. rewrite Z.eqb_refl. exact IH. Qed.

Lemma at_skipn img off bs :
  at_ img off bs = true -> 0 <= off /\ exists t, skipn (Z.to_nat off) img = bs ++ t.
Proof.
  unfold at_. intros H. apply andb_prop in H. destruct H as [H0 H]. split; [lia|].
  rewrite drop_skipn in H. apply prefix_eqb_app. exact H.
Qed.

(* a nonempty record at [pos] lies inside the list *)
Lemma skipn_nonempty_lt {A} n (l r t : list A) :
  skipn n l = r ++ t -> r <> [] -> (n < length l)%nat.
Proof.
  intros H Hr. destruct (Nat.lt_ge_cases n (length l)) as [Hlt|Hge]; [exact Hlt|].
  rewrite skipn_all2 in H by lia. destruct r; [contradiction|discriminate].
Qed.

Lemma skipn_split {A} n (l r t : list A) :
  skipn n l = r ++ t -> (n <= length l)%nat -> l = firstn n l ++ r ++ t /\ length (firstn n l) = n.
Proof.
  intros H Hn. split.
  - rewrite <- H. symmetry. apply firstn_skipn.
  - apply firstn_length_le. exact Hn.
Qed.

(* consecutive table entries, read pointwise: entry i sits i * stride after the start *)
Lemma table_at_nth stride recs : forall l i r,
  table_at l stride recs = true -> nth_error recs i = Some r ->
  exists t, skipn (i * stride) l = r ++ t.
Proof.
  induction recs as [|r0 recs IH]; intros l i r H Hn.
  - destruct i; discriminate.
  - cbn [table_at] in H. apply andb_prop in H. destruct H as [Hp Ht].
    destruct i as [|i].
    + cbn [nth_error] in Hn. inversion Hn; subst r0. cbn [Nat.mul skipn].
      apply prefix_eqb_app. exact Hp.
    + cbn [nth_error] in Hn. destruct (IH _ i r Ht Hn) as [t Hs].
      exists t. rewrite skipn_skipn' in Hs. cbn [Nat.mul]. exact Hs.
Qed.

Lemma nth_error_map_some {A B} (f : A -> B) l i x :
  nth_error l i = Some x -> nth_error (map f l) i = Some (f x).
Proof. intros H. rewrite nth_error_map, H. reflexivity. Qed.

Lemma forallb_nth_error {A} (p : A -> bool) l i x :
  forallb p l = true -> nth_error l i = Some x -> p x = true.
Proof.
  intros H Hn. rewrite forallb_forall in H. apply H. eapply nth_error_In. exact Hn.
Qed.

(* ------------------------------------------------------------------ construct Enum *)
Lemma enum_lookup_nonstrict tbl z : enum_lookup tbl false z = Some (named tbl z).
Proof. unfold enum_lookup, named. destruct (Enum.dict_get tbl z); reflexivity. Qed.

Definition nonstrict (b : binds) : bool := forallb (fun x => negb (snd x)) b.

Lemma bind_of_nonstrict b f id st : nonstrict b = true -> bind_of b f = Some (id, st) -> st = false.
Proof.
  induction b as [|[[k i] s0] b IH]; intros Hn H; [discriminate|].
  cbn [nonstrict forallb snd] in Hn. apply andb_prop in Hn. destruct Hn as [Hs Hn].
  cbn [bind_of] in H. destruct (k =? f)%string.
  - inversion H; subst. destruct st; [discriminate|reflexivity].
  - exact (IH Hn H).
Qed.

Lemma adapt_nonstrict b r : nonstrict b = true -> exists h, adapt b r = Some h.
Proof.
  intros Hn. induction r as [|[f v] r [h IH]]; [exists []; reflexivity|].
  cbn [adapt]. rewrite IH.
  assert (Hf : exists hv, adapt_field b f v = Some hv).
  { destruct v as [z|bs|zs]; cbn [adapt_field]; try (eexists; reflexivity).
    destruct (bind_of b f) as [[id st]|] eqn:Eb; [|eexists; reflexivity].
    rewrite (bind_of_nonstrict _ _ _ _ Hn Eb). rewrite enum_lookup_nonstrict. eexists; reflexivity. }
  destruct Hf as [hv Hf]. rewrite Hf. eexists; reflexivity.
Qed.

(* "standard name or raw integer" *)
Lemma named_cases tbl z :
  (exists n, named tbl z = HName n /\ In (z, n) tbl) \/
  (named tbl z = HZ z /\ forall n, ~ In (z, n) tbl).
Proof.
  unfold named. induction tbl as [|[k x] tbl IH]; cbn [Enum.dict_get].
  - right. split; [reflexivity|]. intros n [].
  - destruct (Z.eqb_spec k z) as [->|Hne].
    + left. exists x. split; [reflexivity|left; reflexivity].
    + destruct IH as [[n [Hn Hin]]|[Hr Hno]].
      * left. exists n. split; [exact Hn|right; exact Hin].
      * right. split; [exact Hr|]. intros n [Heq|Hin]; [inversion Heq; contradiction|exact (Hno n Hin)].
Qed.

(* ------------------------------------------------------------------ a record decoded in place *)
Lemma decode_rec_encoded L vals t n :
  layout_size L = Some n -> fits_layout L vals = true ->
  exists t', decode_rec L (encode_layout L vals ++ t) = Some (annot_layout L vals, t').
Proof.
  intros En Hf. unfold decode_rec. rewrite En.
  pose proof (encode_fields_length L [] vals n Hf En) as Hl. fold (encode_layout L vals) in Hl.
  exists []. rewrite <- Hl, firstn_app, firstn_all, Nat.sub_diag. cbn [firstn].
  apply decode_encode_layout. exact Hf.
Qed.

(* a statically sized record *)
Lemma struct_parse_at_exact Lgen L b img pos vals t h n :
  Lgen = L -> layout_size L = Some n -> fits_layout L vals = true ->
  skipn (Z.to_nat pos) img = encode_layout L vals ++ t ->
  pos < SEEK_LIMIT ->
  adapt b (annot_layout L vals) = Some h ->
  struct_parse_at Lgen b img pos = Ok h.
Proof.
  intros -> En Hf Hs Hp Ha. unfold struct_parse_at.
  destruct (Z.leb_spec SEEK_LIMIT pos) as [H|_]; [lia|].
  destruct (decode_rec_encoded L vals t n En Hf) as [t' Hd].
  rewrite drop_skipn, Hs, Hd, Ha. reflexivity.
Qed.

Lemma struct_parse_at_readable Lgen L b img pos :
  Lgen = L -> readable img pos L = true -> zlen img < SEEK_LIMIT -> nonstrict b = true ->
  exists h, struct_parse_at Lgen b img pos = Ok h.
Proof.
  intros -> Hr Hl Hn. unfold readable in Hr.
  apply andb_prop in Hr. destruct Hr as [Hr Hd]. apply andb_prop in Hr. destruct Hr as [H0 H1].
  rewrite zlenT_eq in H1.
  unfold struct_parse_at. destruct (Z.leb_spec SEEK_LIMIT pos) as [H|_]; [lia|].
  destruct (decode_rec L (drop pos img)) as [[r t]|]; [|discriminate].
  destruct (adapt_nonstrict b r Hn) as [h Hh]. rewrite Hh. exists h. reflexivity.
Qed.

(* ------------------------------------------------------------------ loops *)
Lemma mapM_ok {A B} (f : A -> res B) (g : A -> B) l :
  (forall x, In x l -> f x = Ok (g x)) -> mapM f l = Ok (map g l).
Proof.
  induction l as [|x l IH]; intros H; [reflexivity|].
  cbn [mapM map]. rewrite (H x (or_introl eq_refl)). cbn [bind].
  rewrite IH by (intros y Hy; apply H; right; exact Hy). reflexivity.
Qed.

Lemma range_in k x : In x (range k) -> 0 <= x < Z.of_nat k.
Proof.
  unfold range. rewrite in_map_iff. intros [i [<- Hi]]. apply in_seq in Hi. lia.
Qed.

(* nth over a list indexed by range *)
Lemma map_seq_nth {A B} (f : A -> B) (g : nat -> B) : forall (l : list A) (a : nat),
  (forall i x, nth_error l i = Some x -> g (a + i)%nat = f x) ->
  map g (seq a (length l)) = map f l.
Proof.
  induction l as [|x l IH]; intros a H; [reflexivity|].
  cbn [length seq map]. f_equal.
  - rewrite <- (H O x eq_refl). f_equal. lia.
  - apply IH. intros i y Hy. rewrite <- (H (S i) y Hy). f_equal. lia.
Qed.

Lemma map_range_nth {A B} (l : list A) (g : Z -> B) (f : A -> B) :
  (forall i x, nth_error l i = Some x -> g (Z.of_nat i) = f x) ->
  map g (range (length l)) = map f l.
Proof.
  intros H. unfold range. rewrite map_map. apply (map_seq_nth f (fun i => g (Z.of_nat i)) l O).
  intros i x Hx. cbn [Nat.add]. exact (H i x Hx).
Qed.
