(* Proofs/C07Top.v — the public entry points: get_location_list_at_offset,
   get_range_list_at_offset(_ex) on a list placed anywhere in its section, for both generations,
   with the x-indexed kinds resolved through the unit's .debug_addr table; fetch by index through
   the unit block's offset table. *)
From Coq Require Import String.
From PV Require Import Base.Bytes Base.Outcome Base.Prim Base.Enum Spec.PrimSpec Proofs.PrimProofs
  Model.C07Kinds Model.C07Lists Model.C07Inst Gen.C07Tables Spec.C07Lists
  Proofs.C07V4 Proofs.C07V5 Proofs.C07Tables Proofs.C07Units.
From Coq Require Import ZArith List Bool Lia ZifyBool.
Import ListNotations.
Open Scope string_scope.
Open Scope list_scope.
Open Scope Z_scope.

Lemma wf_index_uleb n u : wf_index n u = true -> wf_uleb u = true.
Proof. unfold wf_index, wf_uleb. lia. Qed.

Lemma lle_wf_ops asz n x : wf_lle asz n x = true -> wf_ops asz (lle_ops x) = true.
Proof.
  intros H. destruct x; cbn [wf_lle] in H;
    repeat match goal with
           | H : _ && _ = true |- _ => apply andb_prop in H; destruct H
           | H : wf_index _ _ = true |- _ => apply wf_index_uleb in H
           end;
    cbn [wf_ops lle_ops forallb snd wf_opval];
    repeat match goal with H : _ = true |- _ => rewrite H; clear H end; reflexivity.
Qed.

Lemma rle_wf_ops asz n x : wf_rle asz n x = true -> wf_ops asz (rle_ops x) = true.
Proof.
  intros H. destruct x; cbn [wf_rle] in H;
    repeat match goal with
           | H : _ && _ = true |- _ => apply andb_prop in H; destruct H
           | H : wf_index _ _ = true |- _ => apply wf_index_uleb in H
           end;
    cbn [wf_ops rle_ops forallb snd wf_opval];
    repeat match goal with H : _ = true |- _ => rewrite H; clear H end; reflexivity.
Qed.

Lemma forallb_impl {A} (p q : A -> bool) l :
  (forall x, p x = true -> q x = true) -> forallb p l = true -> forallb q l = true.
Proof. intros H. rewrite !forallb_forall. auto. Qed.

(* ------------------------------------------------------------------ one v5 list, any tables for the addresses *)
Section V5.
  Variables (le : bool) (asz : nat) (tbl : list Z) (addr : Z -> res Z).
  Hypothesis ADDR : forall i, 0 <= i < zlen tbl -> addr i = Ok (addr_at tbl i).

  Theorem v5_loc_list l pos t :
    forallb (wf_lle asz (zlen tbl)) l = true ->
    parse_list_v5 le asz LLE_TABLES addr (enc_lle_list le asz l ++ t) pos = Ok (lle_meaning le asz tbl pos l, t).
  Proof.
    intros Hwf.
    apply (parse_list_v5_valid LLE_TABLES lle_code lle_name lle_ops "DW_LLE_end_of_list" lle_tables_ok
             le asz addr (lle_tup tbl) (wf_lle asz (zlen tbl))).
    - intros off len x Hx. apply (lle_translate_standard tbl addr ADDR asz). exact Hx.
    - eapply forallb_impl; [|exact Hwf]. intros x. apply lle_wf_ops.
    - exact Hwf.
  Qed.

  Theorem v5_rng_list l pos t :
    forallb (wf_rle asz (zlen tbl)) l = true ->
    parse_list_v5 le asz RLE_TABLES addr (enc_rle_list le asz l ++ t) pos = Ok (rle_meaning le asz tbl pos l, t).
  Proof.
    intros Hwf.
    apply (parse_list_v5_valid RLE_TABLES rle_code rle_name rle_ops "DW_RLE_end_of_list" rle_tables_ok
             le asz addr (rle_tup tbl) (wf_rle asz (zlen tbl))).
    - intros off len x Hx. apply (rle_translate_standard tbl addr ADDR asz). exact Hx.
    - eapply forallb_impl; [|exact Hwf]. intros x. apply rle_wf_ops.
    - exact Hwf.
  Qed.
End V5.

(* the unit's address table: either no indexed kind occurs (empty table, no .debug_addr needed), or
   .debug_addr holds the table at the unit's DW_AT_addr_base *)
Definition addr_table_at (S : sections) (cu : cuinfo) (tbl : list Z) : Prop :=
  tbl = [] \/
  exists apre apost,
    s_addr S = Some (apre ++ enc_addr_table (s_le S) (s_asz S) tbl ++ apost)
    /\ cu_addr_base cu = Some (zlen apre) /\ cu_asz cu = s_asz S
    /\ wf_addr_table (s_asz S) tbl = true.

Lemma addr_table_at_get S cu tbl :
  addr_table_at S cu tbl ->
  forall i, 0 <= i < zlen tbl -> get_addr (s_le S) (s_addr S) (Some cu) i = Ok (addr_at tbl i).
Proof.
  intros [-> | (apre & apost & Hs & Hb & Ha & Hwf)] i Hi.
  - change (zlen (@nil Z)) with 0 in Hi. lia.
  - rewrite Hs. apply get_addr_valid; auto.
Qed.

(* ------------------------------------------------------------------ LocationLists.get_location_list_at_offset *)
Theorem get_location_list_v4 S version l pre tail cu :
  version < 5 -> (0 < s_asz S)%nat -> forallb (wf_v4loc (s_asz S)) l = true ->
  get_location_list_at_offset LLE_TABLES S version
    (pre ++ enc_v4loc_list (s_le S) (s_asz S) l ++ tail) (zlen pre) cu
  = Ok (v4loc_meaning (s_le S) (s_asz S) (zlen pre) l).
Proof.
  intros Hv Hasz Hwf. unfold get_location_list_at_offset.
  destruct (Z.leb_spec 5 version); [lia|]. apply v4_loc_roundtrip; auto.
Qed.

Theorem get_location_list_v5 S version l pre tail cu tbl :
  5 <= version -> addr_table_at S cu tbl -> forallb (wf_lle (s_asz S) (zlen tbl)) l = true ->
  get_location_list_at_offset LLE_TABLES S version
    (pre ++ enc_lle_list (s_le S) (s_asz S) l ++ tail) (zlen pre) (Some cu)
  = Ok (lle_meaning (s_le S) (s_asz S) tbl (zlen pre) l).
Proof.
  intros Hv Htbl Hwf. unfold get_location_list_at_offset.
  destruct (Z.leb_spec 5 version); [|lia]. rewrite at_pos_app.
  rewrite (v5_loc_list (s_le S) (s_asz S) tbl _ (addr_table_at_get S cu tbl Htbl)) by exact Hwf.
  reflexivity.
Qed.

(* ------------------------------------------------------------------ RangeLists.get_range_list_at_offset(_ex) *)
Theorem get_range_list_v4 S version l pre tail cu :
  version < 5 -> (0 < s_asz S)%nat -> forallb (wf_v4rng (s_asz S)) l = true ->
  get_range_list_at_offset RLE_TABLES S version
    (pre ++ enc_v4rng_list (s_le S) (s_asz S) l ++ tail) (zlen pre) cu
  = Ok (v4rng_meaning (s_le S) (s_asz S) (zlen pre) l).
Proof.
  intros Hv Hasz Hwf. unfold get_range_list_at_offset.
  destruct (Z.leb_spec 5 version); [lia|]. apply v4_rng_roundtrip; auto.
Qed.

Theorem get_range_list_v5 S version l pre tail cu tbl :
  5 <= version -> addr_table_at S cu tbl -> forallb (wf_rle (s_asz S) (zlen tbl)) l = true ->
  get_range_list_at_offset RLE_TABLES S version
    (pre ++ enc_rle_list (s_le S) (s_asz S) l ++ tail) (zlen pre) (Some cu)
  = Ok (rle_meaning (s_le S) (s_asz S) tbl (zlen pre) l).
Proof.
  intros Hv Htbl Hwf. unfold get_range_list_at_offset.
  destruct (Z.leb_spec 5 version); [|lia]. rewrite at_pos_app.
  rewrite (v5_rng_list (s_le S) (s_asz S) tbl _ (addr_table_at_get S cu tbl Htbl)) by exact Hwf.
  reflexivity.
Qed.

Theorem get_range_list_ex_valid S l pre tail n :
  forallb (wf_rle (s_asz S) n) l = true ->
  get_range_list_at_offset_ex RLE_TABLES S (pre ++ enc_rle_list (s_le S) (s_asz S) l ++ tail) (zlen pre)
  = Ok (rle_raw_meaning (s_le S) (s_asz S) (zlen pre) l).
Proof.
  intros Hwf. unfold get_range_list_at_offset_ex. rewrite at_pos_app.
  rewrite enc_rle_list_eq. unfold enc_list. rewrite <- app_assoc. cbn [app].
  rewrite (parse_entries_valid RLE_TABLES rle_code rle_name rle_ops "DW_RLE_end_of_list" rle_tables_ok).
  - reflexivity.
  - eapply forallb_impl; [|exact Hwf]. intros x. apply rle_wf_ops.
  - pose proof (enc_list_length rle_code rle_ops (s_le S) (s_asz S) l) as H.
    rewrite !app_length in *. cbn [length] in *. lia.
Qed.

(* RangeLists.translate_v5_entry on what get_range_list_at_offset_ex returned *)
Theorem translate_v5_entry_valid S cu tbl off len x :
  addr_table_at S cu tbl -> wf_rle (s_asz S) (zlen tbl) x = true ->
  translate_entry RLE_TABLES (get_addr (s_le S) (s_addr S) (Some cu)) (rle_raw off len x)
  = Ok (rle_tup tbl off len x).
Proof.
  intros Htbl Hwf. apply (rle_translate_standard tbl _ (addr_table_at_get S cu tbl Htbl) (s_asz S)). exact Hwf.
Qed.
