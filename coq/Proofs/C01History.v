(* Proofs/C01History.v — C01 on call histories: whatever was done before on the same ELFFile
   object (enumerations abandoned after k items, full enumerations, lookups), every answer is the
   history-free one of Props/C01.v, and _section_name_map is always None or the COMPLETE map. *)
From Coq Require Import String.
From PV Require Import Base.Bytes Base.Outcome Base.Prim Base.Fmt Base.Enum Base.PyData.
From PV Require Import Gen.ElfLayouts Gen.Tables Gen.PyFuns.
From PV Require Import Spec.PrimSpec Spec.ElfGabi Spec.C01Obs Spec.C01Image Model.C01ElfFile Model.C01History.
From PV Require Import Proofs.C01Lemmas Proofs.C01Records Proofs.C01Open Proofs.C01Sections Proofs.C01Iter.
From Coq Require Import ZifyBool.
Open Scope string_scope.
Open Scope list_scope.
Open Scope Z_scope.

Definition map_inv (s : image_spec) (st : hstate) : Prop := st = None \/ st = Some (full_map s).

Lemma full_map_get s name : PyData.dict_get bytes_eqb (full_map s) name = exp_index_by_name s name.
Proof.
  unfold full_map. rewrite (dict_of_list_get bytes_eqb bytes_eqb_eq).
  apply (name_map_get (sec_of s) name (sec_of_name s)).
Qed.

Lemma firstn_map {A B} (f : A -> B) n : forall l, firstn n (map f l) = map f (firstn n l).
Proof. induction n as [|n IH]; intros [|x l]; cbn [firstn map]; try reflexivity. rewrite IH. reflexivity. Qed.

Section WF.
Variable img : list Z.
Variable s : image_spec.
Hypothesis Hwf : wf_image img s = true.

Local Notation C := (exp_core img s).
Local Notation EF := (exp_file img s).

Definition sect_at (i : Z) : sect :=
  match nth_sec s i with Some x => sec_of s x | None => dummy_sect end.
Definition ty_match (ty : option hval) (sec : sect) : bool :=
  match ty with None => true | Some v => hval_eqb (hty (s_hdr sec) "sh_type") v end.

Lemma take_sections_ok ty : forall idx k,
  (forall i, In i idx -> 0 <= i < n_sections s) ->
  take_sections EF ty idx k = Ok (firstn k (filter (ty_match ty) (map sect_at idx))).
Proof.
  induction idx as [|i t IH]; intros k H.
  - destruct k; reflexivity.
  - destruct k as [|k']; [reflexivity|]. cbn [take_sections map filter].
    destruct (nth_sec_some s i (H i (or_introl eq_refl))) as [x Hx].
    rewrite (get_section_ok img s Hwf i x Hx). cbn [bind].
    assert (Ei : sect_at i = sec_of s x) by (unfold sect_at; rewrite Hx; reflexivity).
    rewrite Ei. fold (ty_match ty (sec_of s x)).
    assert (Ht : forall j, In j t -> 0 <= j < n_sections s) by (intros j Hj; apply H; right; exact Hj).
    destruct (ty_match ty (sec_of s x)).
    + rewrite (IH k' Ht). reflexivity.
    + apply IH. exact Ht.
Qed.

Lemma sect_at_range : map sect_at (range (length (i_sections s))) = map (sec_of s) (i_sections s).
Proof.
  apply map_range_nth. intros i x Hx. unfold sect_at, nth_sec, n_sections, zlen.
  assert (Hlt : (i < length (i_sections s))%nat) by (apply nth_error_Some; congruence).
  destruct (Z.leb_spec 0 (Z.of_nat i)) as [_|E]; [|lia].
  destruct (Z.ltb_spec (Z.of_nat i) (Z.of_nat (length (i_sections s)))) as [_|E]; [|lia].
  cbn [andb]. rewrite Nat2Z.id, Hx. reflexivity.
Qed.

Lemma filter_ty ty :
  filter (ty_match ty) (map (sec_of s) (i_sections s)) = map (sec_of s) (filtered s ty).
Proof.
  destruct ty as [t|]; cbn [filtered].
  - rewrite filter_map_comm.
    rewrite (filter_ext _ (fun x => hval_eqb (sh_tyname s (snd x)) t)); [reflexivity|].
    intros x. unfold ty_match. rewrite sec_of_hdr, shdr_get_type. reflexivity.
  - unfold ty_match. clear. induction (map (sec_of s) (i_sections s)) as [|a l IH]; [reflexivity|].
    cbn [filter]. rewrite IH. reflexivity.
Qed.

Lemma loop_bound_sections : loop_bound C (n_sections s) = length (i_sections s).
Proof.
  unfold loop_bound. rewrite (stream_len_eq C). change (c_img C) with img.
  pose proof (sections_fit img s Hwf) as H. unfold n_sections, zlen in *. lia.
Qed.

Lemma iter_take_ok ty k :
  iter_sections_take EF ty k = Ok (map (sec_of s) (firstn (Z.to_nat k) (filtered s ty))).
Proof.
  unfold iter_sections_take. destruct (Z.leb_spec k 0) as [E|E].
  - replace (Z.to_nat k) with O by lia. reflexivity.
  - rewrite (num_sections_ok img s Hwf). cbn [bind ef_core exp_file].
    rewrite loop_bound_sections, take_sections_ok.
    + rewrite sect_at_range, filter_ty, firstn_map. reflexivity.
    + intros i Hi. apply range_in in Hi. unfold n_sections, zlen. lia.
Qed.

Lemma make_map_ok : make_section_name_map EF = Ok (full_map s).
Proof.
  unfold make_section_name_map. rewrite (iter_sections_ok img s Hwf None). reflexivity.
Qed.

Lemma ensure_map_ok st : map_inv s st ->
  ensure_map EF st = (Some (full_map s), Ok (full_map s)).
Proof.
  intros [->| ->]; cbn [ensure_map]; [rewrite make_map_ok|]; reflexivity.
Qed.

Lemma hstep_ok st op : map_inv s st ->
  exists st', hstep EF st op = (st', Ok (exp_hans s op)) /\ map_inv s st'.
Proof.
  intros Hi. destruct op as [ty k|ty|ty|name|name|name]; cbn [hstep exp_hans].
  - exists st. rewrite iter_take_ok. split; [reflexivity|exact Hi].
  - exists st. rewrite (iter_sections_ok img s Hwf ty). split; [reflexivity|exact Hi].
  - exists st. rewrite (iter_segments_ok img s Hwf ty). split; [reflexivity|exact Hi].
  - exists (Some (full_map s)). rewrite (ensure_map_ok st Hi). cbn [bind].
    rewrite memb_keys_get, full_map_get. split; [reflexivity|right; reflexivity].
  - exists (Some (full_map s)). rewrite (ensure_map_ok st Hi). cbn [bind].
    rewrite full_map_get. split; [reflexivity|right; reflexivity].
  - exists (Some (full_map s)). rewrite (ensure_map_ok st Hi). cbn [bind].
    rewrite full_map_get. split; [|right; reflexivity].
    destruct (exp_index_by_name s name) as [j|] eqn:E; [|reflexivity].
    destruct (index_by_name_nth s name j E) as (x & Hx & _). rewrite Hx.
    rewrite (get_section_ok img s Hwf j x Hx). reflexivity.
Qed.

(* any history, from any reachable state *)
Lemma hrun_ok : forall ops st, map_inv s st ->
  exists st', hrun EF st ops = (st', map (fun op => Ok (exp_hans s op)) ops) /\ map_inv s st'.
Proof.
  induction ops as [|op t IH]; intros st Hi.
  - exists st. split; [reflexivity|exact Hi].
  - destruct (hstep_ok st op Hi) as (st1 & H1 & Hi1).
    destruct (IH st1 Hi1) as (st2 & H2 & Hi2).
    exists st2. cbn [hrun map]. rewrite H1, H2. split; [reflexivity|exact Hi2].
Qed.
End WF.

Lemma history_independent img s ef ops : wf_image img s = true -> elf_open img = Ok ef ->
  exists st', hrun ef None ops = (st', map (fun op => Ok (exp_hans s op)) ops) /\ map_inv s st'.
Proof.
  intros Hwf Ho. rewrite (open_ok img s Hwf) in Ho. inversion Ho. subst ef.
  apply hrun_ok; [exact Hwf|left; reflexivity].
Qed.
