(* Proofs/C05Total.v — on ARBITRARY bytes (not only valid programs) every iteration of the decoding
   loop either fails with the error the library raises or strictly shortens the stream, so the fuel
   S (length stream) of Model.C05LineProgram.decode_line_program is never exhausted: the model is a
   total description of LineProgram._decode_line_program, Err EFuel is not an observable result. *)
From PV Require Import Base.Outcome Base.Prim Spec.PrimSpec Spec.C05Line Model.C05LineProgram Gen.C05Tables.
From Coq Require Import ZifyBool.
Ltac Zify.zify_post_hook ::= Z.to_euclidean_division_equations.
Open Scope list_scope.
Open Scope Z_scope.

(* a reader's result: the rest is a suffix no longer than the input, an error is not EFuel *)
Definition good {A} (bs : list Z) (r : res (A * list Z)) : Prop :=
  match r with
  | Ok (_, rest) => (length rest <= length bs)%nat
  | Err e => e <> EFuel
  end.

Lemma uleb_go_len bs : forall v s x r, uleb_go bs v s = Some (x, r) -> (length r < length bs)%nat.
Proof.
  induction bs as [|b bs IH]; intros v s x r H; cbn [uleb_go] in H; [discriminate|].
  destruct (Z.land b 128 =? 0).
  - injection H as _ <-. cbn [length]. lia.
  - apply IH in H. cbn [length]. lia.
Qed.
Lemma sleb_go_len bs : forall v s x r, sleb_go bs v s = Some (x, r) -> (length r < length bs)%nat.
Proof.
  induction bs as [|b bs IH]; intros v s x r H; cbn [sleb_go] in H; [discriminate|].
  destruct (Z.land b 128 =? 0).
  - injection H as _ <-. cbn [length]. lia.
  - apply IH in H. cbn [length]. lia.
Qed.
Lemma cstring_decode_len bs : forall s r, cstring_decode bs = Some (s, r) -> (length r < length bs)%nat.
Proof.
  induction bs as [|b bs IH]; intros s r H; cbn [cstring_decode] in H; [discriminate|].
  destruct (b =? 0).
  - injection H as _ <-. cbn [length]. lia.
  - destruct (cstring_decode bs) as [[s' t]|] eqn:E; [|discriminate].
    injection H as _ <-. specialize (IH s' t eq_refl). cbn [length]. lia.
Qed.
Lemma take_len n bs a r : take n bs = Some (a, r) -> (length r <= length bs)%nat.
Proof.
  rewrite take_unfold. destruct (n <=? length bs)%nat; [|discriminate]. intros H. injection H as _ <-.
  rewrite skipn_length. lia.
Qed.

Lemma good_uleb bs : good bs (rd_uleb bs).
Proof.
  unfold good, rd_uleb, uleb_decode. destruct (uleb_go bs 0 0) as [[v r]|] eqn:E; cbn [of_opt].
  - apply uleb_go_len in E. lia.
  - discriminate.
Qed.
Lemma good_sleb bs : good bs (rd_sleb bs).
Proof.
  unfold good, rd_sleb, sleb_decode. destruct (sleb_go bs 0 0) as [[v r]|] eqn:E; cbn [of_opt].
  - apply sleb_go_len in E. lia.
  - discriminate.
Qed.
Lemma good_uint le n bs : good bs (of_opt EParse (uint_decode le n bs)).
Proof.
  unfold good, uint_decode. destruct (take n bs) as [[a r]|] eqn:E; cbn [of_opt].
  - apply take_len in E. exact E.
  - discriminate.
Qed.
Lemma rd_uint8_strict bs : match rd_uint8 bs with
                           | Ok (_, r) => (length r < length bs)%nat
                           | Err e => e <> EFuel
                           end.
Proof.
  unfold rd_uint8, uint_decode. rewrite take_unfold. destruct bs as [|b bs]; cbn [length Nat.leb of_opt]; [discriminate|].
  cbn [skipn length]. lia.
Qed.

Lemma good_bind {A B} bs (r : res (A * list Z)) (f : A * list Z -> res (B * list Z)) :
  good bs r -> (forall a rest, (length rest <= length bs)%nat -> good bs (f (a, rest))) -> good bs (bind r f).
Proof.
  intros Hr Hf. destruct r as [[a rest]|e]; cbn [bind good] in *; [apply Hf; exact Hr|exact Hr].
Qed.
Lemma good_weaken {A} bs bs' (r : res (A * list Z)) : (length bs' <= length bs)%nat -> good bs' r -> good bs r.
Proof. intros Hl Hr. destruct r as [[a rest]|e]; cbn [good] in *; [lia|exact Hr]. Qed.

Lemma good_file_entry bs : good bs (file_entry_decode bs).
Proof.
  unfold file_entry_decode.
  destruct (cstring_decode bs) as [[name r0]|] eqn:E; cbn [of_opt bind]; [|cbn; discriminate].
  apply cstring_decode_len in E.
  destruct name as [|b name]; [cbn [good]; lia|].
  apply (good_weaken bs r0); [lia|].
  apply good_bind; [apply good_uleb|]. intros d r1 H1.
  apply (good_weaken r0 r1); [lia|]. apply good_bind; [apply good_uleb|]. intros m r2 H2.
  apply (good_weaken r1 r2); [lia|]. apply good_bind; [apply good_uleb|]. intros l r3 H3.
  cbn [good]. exact H3.
Qed.

Lemma seek_fwd_len n bs : (length (seek_fwd n bs) <= length bs)%nat.
Proof. unfold seek_fwd. destruct (zlen bs <=? n); [cbn; lia|]. rewrite skipn_length. lia. Qed.

(* the result of one loop iteration: the stream got strictly shorter *)
Definition step_good (bs : list Z) (r : res step_out) : Prop :=
  match r with
  | Ok o => (length (o_rest o) < length bs)%nat
  | Err e => e <> EFuel
  end.

Lemma step_good_out st es fs bs rest : (length rest < length bs)%nat -> step_good bs (out st es fs bs rest).
Proof. intros H. exact H. Qed.

Lemma step_good_bind {A} bs r1 (r : res (A * list Z)) (f : A * list Z -> res step_out) :
  (length r1 < length bs)%nat -> good r1 r ->
  (forall a rest, (length rest < length bs)%nat -> step_good bs (f (a, rest))) -> step_good bs (bind r f).
Proof.
  intros Hl Hr Hf. destruct r as [[a rest]|e]; cbn [bind good step_good] in *; [apply Hf; lia|exact Hr].
Qed.

Section Total.
  Variable c : lcfg.
  Variable h : lparams.
  Variable apnd : bool.

  Lemma lp_special_good st op bs r1 : (length r1 < length bs)%nat -> step_good bs (lp_special h st op bs r1).
  Proof. intros H. unfold lp_special, add_entry_new_state. apply step_good_out. exact H. Qed.

  Lemma lp_extended_good st bs r1 : (length r1 < length bs)%nat -> step_good bs (lp_extended c h apnd st bs r1).
  Proof.
    intros H. unfold lp_extended.
    apply (step_good_bind bs r1); [exact H|apply good_uleb|]. intros inst_len r2 H2.
    apply (step_good_bind bs r2); [exact H2| |].
    { pose proof (rd_uint8_strict r2) as G. unfold good. destruct (rd_uint8 r2) as [[v r]|e]; [lia|exact G]. }
    intros ex r3 H3.
    destruct (ex =? DW_LNE_end_sequence).
    { unfold add_entry_new_state. apply step_good_out. exact H3. }
    destruct (ex =? DW_LNE_set_address).
    { apply (step_good_bind bs r3); [exact H3|apply good_uint|]. intros a r4 H4. apply step_good_out. exact H4. }
    destruct (ex =? DW_LNE_define_file).
    { apply (step_good_bind bs r3); [exact H3|apply good_file_entry|]. intros a r4 H4.
      destruct apnd; [apply step_good_out; exact H4|cbn; discriminate]. }
    destruct (ex =? DW_LNE_set_discriminator).
    { apply (step_good_bind bs r3); [exact H3|apply good_uleb|]. intros a r4 H4. apply step_good_out. exact H4. }
    destruct (inst_len - 1 <? 0); cbn [step_good o_rest]; [exact H2|].
    pose proof (seek_fwd_len (inst_len - 1) r3). lia.
  Qed.

  Lemma lp_standard_good st op bs r1 : (length r1 < length bs)%nat -> step_good bs (lp_standard c h st op bs r1).
  Proof.
    intros H. unfold lp_standard.
    destruct (op =? DW_LNS_copy).
    { unfold add_entry_new_state. apply step_good_out. exact H. }
    destruct (op =? DW_LNS_advance_pc).
    { apply (step_good_bind bs r1); [exact H|apply good_uleb|]. intros a r2 H2.
      unfold advance_pc. apply step_good_out. exact H2. }
    destruct (op =? DW_LNS_advance_line).
    { apply (step_good_bind bs r1); [exact H|apply good_sleb|]. intros a r2 H2. apply step_good_out. exact H2. }
    destruct (op =? DW_LNS_set_file).
    { apply (step_good_bind bs r1); [exact H|apply good_uleb|]. intros a r2 H2. apply step_good_out. exact H2. }
    destruct (op =? DW_LNS_set_column).
    { apply (step_good_bind bs r1); [exact H|apply good_uleb|]. intros a r2 H2. apply step_good_out. exact H2. }
    destruct (op =? DW_LNS_negate_stmt); [apply step_good_out; exact H|].
    destruct (op =? DW_LNS_set_basic_block); [apply step_good_out; exact H|].
    destruct (op =? DW_LNS_const_add_pc); [unfold advance_pc; apply step_good_out; exact H|].
    destruct (op =? DW_LNS_fixed_advance_pc).
    { apply (step_good_bind bs r1); [exact H|apply good_uint|]. intros a r2 H2. apply step_good_out. exact H2. }
    destruct (op =? DW_LNS_set_prologue_end); [apply step_good_out; exact H|].
    destruct (op =? DW_LNS_set_epilogue_begin); [apply step_good_out; exact H|].
    destruct (op =? DW_LNS_set_isa).
    { apply (step_good_bind bs r1); [exact H|apply good_uleb|]. intros a r2 H2. apply step_good_out. exact H2. }
    cbn. discriminate.
  Qed.

  Theorem lp_step_good st bs : step_good bs (lp_step c h apnd st bs).
  Proof.
    unfold lp_step. pose proof (rd_uint8_strict bs) as G.
    destruct (rd_uint8 bs) as [[op r1]|e]; cbn [bind]; [|exact G].
    destruct (op >=? p_opcode_base h); [apply lp_special_good; exact G|].
    destruct (op =? 0); [apply lp_extended_good; exact G|apply lp_standard_good; exact G].
  Qed.

  Theorem lp_loop_no_fuel : forall fuel st bs rem, (length bs < fuel)%nat ->
    lp_loop c h apnd fuel st bs rem <> Err EFuel.
  Proof.
    induction fuel as [|f IH]; intros st bs rem Hf; [lia|]. cbn [lp_loop].
    destruct (rem <=? 0); [discriminate|].
    pose proof (lp_step_good st bs) as G.
    destruct (lp_step c h apnd st bs) as [o|e]; cbn [bind step_good] in *.
    - specialize (IH (o_state o) (o_rest o) (rem - o_consumed o) ltac:(lia)).
      destruct (lp_loop c h apnd f (o_state o) (o_rest o) (rem - o_consumed o)) as [[[[es fs] rem'] rest']|e];
        cbn [bind]; [discriminate|exact IH].
    - intros Heq. injection Heq as ->. apply G. reflexivity.
  Qed.
End Total.

(* LineProgram._decode_line_program is described completely: fuel exhaustion is not a result *)
Theorem decode_line_program_total c h apnd sec start end_ :
  decode_line_program c h apnd sec start end_ <> Err EFuel.
Proof.
  unfold decode_line_program. apply lp_loop_no_fuel.
  rewrite skipn_length. lia.
Qed.
