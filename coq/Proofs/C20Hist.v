(* Proofs/C20Hist.v — the objects of Model/C20Hist.v under ANY history of calls answer every
   call from the stateless decoding (Spec/C20Hist.v).
   A. list bookkeeping;
   B. build attributes, the three walks: a frame whose offset stands before the encoding of the
      remaining items yields the next item of the decoding and stands before the rest
      ([step_sim]); a fresh frame stands before all items ([start_sim]);
   C. limited walks and complete walks, by induction over the remaining items;
   D. the simulation: related states give equal answers and related states, for EVERY call;
      lifted over histories;
   E. the EHABI objects: the memo invariant "None, or sh_size / 8" and the decoder invariant
      "items = disassembly of the array" are kept by every call. *)
From PV Require Import Base.Bytes Base.Outcome Base.Prim Spec.PrimSpec Proofs.PrimProofs Spec.C20Ehabi Proofs.C20Ehabi
  Model.C20Types Spec.C20Attr Model.C20Attr Gen.C20Tables Proofs.C20Attr
  Model.C20Ehabi Spec.C20Hist Model.C20Hist.
From Coq Require Import ZifyBool.
Ltac Zify.zify_post_hook ::= Z.to_euclidean_division_equations.
Open Scope list_scope.
Open Scope Z_scope.

(* ------------------------------------------------------------------ A. lists *)
Lemma skipn_nth_cons {A} (l : list A) : forall n x, nth_error l n = Some x -> skipn n l = x :: skipn (S n) l.
Proof.
  induction l as [|a r IH]; intros n x H; destruct n as [|n]; try discriminate.
  - inversion H. reflexivity.
  - cbn [nth_error] in H. cbn [skipn]. rewrite (IH n x H). reflexivity.
Qed.

Lemma skipn_nth_nil {A} (l : list A) n : nth_error l n = None -> skipn n l = [].
Proof. intros H. apply skipn_all2. apply nth_error_None. exact H. Qed.

Lemma nth_error_mapi_from {A B} (f : nat -> A -> B) : forall l k n,
  nth_error (mapi_from k f l) n = option_map (f (k + n)%nat) (nth_error l n).
Proof.
  induction l as [|a r IH]; intros k n.
  - destruct n; reflexivity.
  - destruct n as [|n]; cbn [mapi_from nth_error option_map].
    + rewrite Nat.add_0_r. reflexivity.
    + rewrite IH. rewrite Nat.add_succ_r. reflexivity.
Qed.

Lemma mapi_from_length {A B} (f : nat -> A -> B) : forall l k, List.length (mapi_from k f l) = List.length l.
Proof. induction l as [|a r IH]; intros k; cbn [mapi_from List.length]; [reflexivity|]. rewrite IH. reflexivity. Qed.

Lemma set_nth_length {A} (l : list A) i x : (i < List.length l)%nat -> List.length (set_nth l i x) = List.length l.
Proof.
  intros H. unfold set_nth. rewrite app_length. cbn [List.length]. rewrite firstn_length, skipn_length. lia.
Qed.

Lemma set_nth_same {A} : forall (x : list A) d a, nth_error x d = Some a -> set_nth x d a = x.
Proof.
  unfold set_nth. induction x as [|y r IH]; intros d a H; destruct d as [|d]; try discriminate.
  - inversion H. reflexivity.
  - cbn [nth_error] in H. cbn [firstn skipn app]. f_equal. apply (IH d a H).
Qed.

Lemma Forall2_set_nth {A B} (R : A -> B -> Prop) : forall l1 l2 i x y,
  Forall2 R l1 l2 -> R x y -> Forall2 R (set_nth l1 i x) (set_nth l2 i y).
Proof.
  intros l1 l2 i x y H Hxy. revert i. induction H as [|a b r1 r2 Hab Hr IH]; intros i.
  - unfold set_nth. destruct i; cbn; repeat constructor; exact Hxy.
  - destruct i as [|i].
    + unfold set_nth. cbn. constructor; assumption.
    + unfold set_nth in *. cbn [firstn skipn app]. constructor; [exact Hab|]. apply IH.
Qed.

Lemma Forall2_nth_error {A B} (R : A -> B -> Prop) l1 l2 i :
  Forall2 R l1 l2 ->
  match nth_error l1 i, nth_error l2 i with
  | Some a, Some b => R a b
  | None, None => True
  | _, _ => False
  end.
Proof.
  intros H. revert i. induction H as [|a b r1 r2 Hab Hr IH]; intros i.
  - destruct i; exact I.
  - destruct i as [|i]; [exact Hab|apply IH].
Qed.

Lemma Forall2_length' {A B} (R : A -> B -> Prop) l1 l2 : Forall2 R l1 l2 -> List.length l1 = List.length l2.
Proof. induction 1; cbn; congruence. Qed.

(* ================================================================== B. the three walks *)
Section Sim.
Variables (fl : flavour) (le : bool) (pre post : list Z) (l : list subsec).
Hypothesis Hwf : wf_section fl l = true.

Local Notation img := (pre ++ enc_section le l ++ post).
Local Notation c := (mkCtx (impl_of fl) le img (zlen pre) (zlen (enc_section le l))).
Local Notation exp := (expected_section fl l).

Lemma wf_nth i sb : nth_error l i = Some sb -> wf_subsec fl sb = true.
Proof.
  intros H. unfold wf_section in Hwf. rewrite forallb_forall in Hwf. apply Hwf. eapply nth_error_In, H.
Qed.

Lemma wf_subsec_parts sb : wf_subsec fl sb = true ->
  no_nul (sb_vendor sb) = true /\ forallb (wf_ssub fl) (sb_subs sb) = true /\ 5 <= subsec_length sb < 2 ^ 32.
Proof.
  unfold wf_subsec. rewrite !andb_true_iff. intros [[Hv Hs] Hl]. repeat split; auto.
  - unfold subsec_length. pose proof (zlen_nonneg (sb_vendor sb)).
    assert (0 <= ssubs_size (sb_subs sb)) by (rewrite <- (enc_ssubs_length le); apply zlen_nonneg). lia.
  - lia.
Qed.

Lemma wf_nth_ss sb j ss : wf_subsec fl sb = true -> nth_error (sb_subs sb) j = Some ss -> wf_ssub fl ss = true.
Proof.
  intros H E. destruct (wf_subsec_parts sb H) as (_ & Hs & _). rewrite forallb_forall in Hs.
  apply Hs. eapply nth_error_In, E.
Qed.

Lemma wf_ssub_attrs ss : wf_ssub fl ss = true -> forallb (wf_attr fl) (ss_attrs ss) = true.
Proof. unfold wf_ssub. rewrite !andb_true_iff. tauto. Qed.

Lemma forallb_skipn {A} (p : A -> bool) (x : list A) n : forallb p x = true -> forallb p (skipn n x) = true.
Proof.
  intros H. rewrite forallb_forall in *. intros a Ha. apply H.
  rewrite <- (firstn_skipn n x). apply in_or_app. right. exact Ha.
Qed.

(* ---- what the reference walk holds at each position, in terms of the encoded objects ---- *)
Lemma sitems_sec_nth pos :
  nth_error (sitems exp SSec) pos
  = match nth_error l pos with
    | Some sb => Some (Some (SSubsec pos), VSubsec (subsec_length sb) (sb_vendor sb))
    | None => None
    end.
Proof.
  cbn [sitems]. rewrite nth_error_mapi_from. unfold expected_section. rewrite nth_error_map.
  destruct (nth_error l pos) as [sb|]; reflexivity.
Qed.

Lemma sitems_subsec_nth i sb pos : nth_error l i = Some sb ->
  nth_error (sitems exp (SSubsec i)) pos
  = match nth_error (sb_subs sb) pos with
    | Some ss => Some (Some (SSubsub i pos), VSubsub (fst (expected_ssub fl ss)))
    | None => None
    end.
Proof.
  intros E. cbn [sitems]. unfold expected_section. rewrite nth_error_map, E. cbn [option_map expected_subsec].
  rewrite nth_error_mapi_from, nth_error_map. destruct (nth_error (sb_subs sb) pos) as [ss|]; reflexivity.
Qed.

Lemma ssub_at_exp i j sb ss : nth_error l i = Some sb -> nth_error (sb_subs sb) j = Some ss ->
  ssub_at exp i j = Some (expected_ssub fl ss).
Proof.
  intros E1 E2. unfold ssub_at, expected_section. rewrite nth_error_map, E1. cbn [option_map expected_subsec].
  rewrite nth_error_map, E2. reflexivity.
Qed.

Lemma sitems_subsub_nth i j sb ss pos : nth_error l i = Some sb -> nth_error (sb_subs sb) j = Some ss ->
  nth_error (sitems exp (SSubsub i j)) pos
  = match nth_error (ss_attrs ss) pos with
    | Some a => Some (None, VAttr (expected_attr fl a))
    | None => None
    end.
Proof.
  intros E1 E2. cbn [sitems]. rewrite (ssub_at_exp i j sb ss E1 E2). cbn [expected_ssub].
  rewrite nth_error_map, nth_error_map. destruct (nth_error (ss_attrs ss) pos) as [a|]; reflexivity.
Qed.

(* ---- model object ~ path: the object's fields are those of the encoded thing at its offset ---- *)
Definition orel (m : mobj) (s : sobj) : Prop :=
  match m, s with
  | MSec start, SSec => start = zlen pre + 1
  | MSubsec off len vendor start, SSubsec i =>
      exists sb t, nth_error l i = Some sb /\ 0 <= off /\ seek img off = enc_subsec le sb ++ t /\
                   len = subsec_length sb /\ vendor = sb_vendor sb /\ start = off + zlen (subsec_head le sb)
  | MSubsub off header astart, SSubsub i j =>
      exists sb ss t, nth_error l i = Some sb /\ nth_error (sb_subs sb) j = Some ss /\ 0 <= off /\
                      seek img off = enc_ssub le ss ++ t /\
                      header = fst (expected_ssub fl ss) /\ astart = off + zlen (ssub_head le ss)
  | _, _ => False
  end.

(* a frame of the walk of [m] holding [off] ~ the reference walk of [s] at item [pos]:
   the encodings of the remaining items begin at [off] and end at the walk's `end` *)
Definition frel (m : mobj) (off : Z) (s : sobj) (pos : nat) : Prop :=
  match m, s with
  | MSec _, SSec =>
      exists t, 0 <= off /\ seek img off = enc_subsecs le (skipn pos l) ++ t /\
                off + subsecs_size (skipn pos l) = zlen pre + zlen (enc_section le l)
  | MSubsec o len _ _, SSubsec i =>
      exists sb t, nth_error l i = Some sb /\ 0 <= off /\
                   seek img off = enc_ssubs le (skipn pos (sb_subs sb)) ++ t /\
                   off + ssubs_size (skipn pos (sb_subs sb)) = o + len
  | MSubsub o header _, SSubsub i j =>
      exists sb ss t, nth_error l i = Some sb /\ nth_error (sb_subs sb) j = Some ss /\ 0 <= off /\
                      header = fst (expected_ssub fl ss) /\
                      seek img off = enc_attrs (skipn pos (ss_attrs ss)) ++ t /\
                      off + zlen (enc_attrs (skipn pos (ss_attrs ss))) = o + ssub_size ss
  | _, _ => False
  end.

Definition crel (mc : option mobj) (sc : option sobj) : Prop :=
  match mc, sc with
  | Some m, Some s => orel m s
  | None, None => True
  | _, _ => False
  end.

Lemma seek_section : seek img (zlen pre) = [65] ++ enc_subsecs le l ++ post.
Proof. rewrite seek_pre. reflexivity. Qed.

Lemma section_length : zlen (enc_section le l) = 1 + subsecs_size l.
Proof. unfold enc_section. rewrite zlen_cons, enc_subsecs_length. reflexivity. Qed.

(* ---- a fresh walk stands before all items ---- *)
Lemma start_sim m s : orel m s -> frel m (mstart m) s 0.
Proof.
  destruct m as [start|off len vendor start|off header astart], s as [|i|i j]; cbn [orel frel mstart]; try tauto.
  - intros ->. exists post. pose proof (zlen_nonneg pre) as Hp. cbn [skipn].
    split; [lia|]. split.
    + replace (zlen pre + 1) with (zlen pre + zlen [65]) by (unfold zlen; cbn; lia).
      apply (seek_app img (zlen pre) [65] _ Hp seek_section).
    + rewrite section_length. lia.
  - intros (sb & t & E & Hoff & Hseek & -> & -> & ->). exists sb, t. cbn [skipn].
    pose proof (zlen_nonneg (subsec_head le sb)) as Hh.
    split; [exact E|]. split; [lia|]. split.
    + apply (seek_app img off (subsec_head le sb)); [exact Hoff|].
      rewrite Hseek. unfold enc_subsec, subsec_head. rewrite <- !app_assoc. reflexivity.
    + rewrite subsec_head_length. unfold subsec_length. lia.
  - intros (sb & ss & t & E1 & E2 & Hoff & Hseek & -> & ->). exists sb, ss, t. cbn [skipn].
    pose proof (zlen_nonneg (ssub_head le ss)) as Hh.
    repeat split; auto; try lia.
    + apply (seek_app img off (ssub_head le ss)); [exact Hoff|].
      rewrite Hseek, enc_ssub_split, <- app_assoc. reflexivity.
    + rewrite (ssub_size_split le ss). lia.
Qed.

(* ---- one resumption ---- *)
Lemma step_sim m off s pos : frel m off s pos ->
  match nth_error (sitems exp s) pos with
  | Some (sc, v) => exists mc off', mstep c m off = WYield ((mc, v), off') /\ crel mc sc /\ frel m off' s (S pos)
  | None => mstep c m off = WStop
  end.
Proof.
  destruct m as [start|o len vendor start|o header astart], s as [|i|i j]; cbn [frel]; try tauto.
  - (* _make_subsections *)
    intros (t & Hoff & Hseek & Hend). rewrite sitems_sec_nth.
    destruct (nth_error l pos) as [sb|] eqn:E.
    + rewrite (skipn_nth_cons l pos sb E) in Hseek, Hend.
      destruct (wf_subsec_parts sb (wf_nth pos sb E)) as (Hv & Hsubs & Hlen).
      unfold enc_subsecs in Hseek. cbn [map List.concat] in Hseek. fold (enc_subsecs le (skipn (S pos) l)) in Hseek.
      rewrite <- app_assoc in Hseek.
      unfold subsecs_size in Hend. cbn [map zsum fold_right] in Hend. fold (zsum (map subsec_length (skipn (S pos) l))) in Hend.
      fold (subsecs_size (skipn (S pos) l)) in Hend.
      assert (Hrest : 0 <= subsecs_size (skipn (S pos) l)) by (rewrite <- (enc_subsecs_length le); apply zlen_nonneg).
      exists (Some (MSubsec off (subsec_length sb) (sb_vendor sb) (off + zlen (subsec_head le sb)))), (off + subsec_length sb).
      split; [|split].
      * cbn [mstep c_sh_offset c_sh_size].
        destruct (Z.eqb_spec off (zlen pre + zlen (enc_section le l))) as [Hc|_]; [lia|].
        unfold subsec_init. cbn [c_le c_img]. rewrite Hseek. unfold enc_subsec. rewrite <- !app_assoc.
        rewrite p_word_valid by lia. cbn [bind]. rewrite p_ntbs_valid by exact Hv. cbn [bind].
        assert (Hseek2 : seek img off = subsec_head le sb ++ enc_ssubs le (sb_subs sb) ++ enc_subsecs le (skipn (S pos) l) ++ t).
        { rewrite Hseek. unfold enc_subsec, subsec_head. rewrite <- !app_assoc. reflexivity. }
        pose proof (subsec_head_length le sb) as Hh. pose proof (zlen_nonneg (sb_vendor sb)) as Hvn.
        rewrite (tell_seek img off _ _ Hoff Hseek2 (nonempty_zlen (subsec_head le sb) ltac:(lia))).
        cbn [obj_length bind obj_view]. reflexivity.
      * cbn [crel orel]. exists sb, (enc_subsecs le (skipn (S pos) l) ++ t). repeat split; auto.
      * cbn [frel]. exists t. split; [lia|]. split; [|lia].
        rewrite <- (enc_subsec_length le sb). apply (seek_app img off _ _ Hoff Hseek).
    + rewrite (skipn_nth_nil l pos E) in Hend. unfold subsecs_size in Hend. cbn [map zsum fold_right] in Hend.
      cbn [mstep c_sh_offset c_sh_size].
      destruct (Z.eqb_spec off (zlen pre + zlen (enc_section le l))) as [_|Hc]; [reflexivity|lia].
  - (* _make_subsubsections *)
    intros (sb & t & E & Hoff & Hseek & Hend). rewrite (sitems_subsec_nth i sb pos E).
    destruct (nth_error (sb_subs sb) pos) as [ss|] eqn:E2.
    + rewrite (skipn_nth_cons _ pos ss E2) in Hseek, Hend.
      pose proof (wf_nth_ss sb pos ss (wf_nth i sb E) E2) as Hss.
      pose proof (wf_ssub_scope_nonneg fl ss Hss) as Hsc.
      pose proof (ssub_size_nonneg ss Hsc) as Hsz.
      unfold enc_ssubs in Hseek. cbn [map List.concat] in Hseek. fold (enc_ssubs le (skipn (S pos) (sb_subs sb))) in Hseek.
      rewrite <- app_assoc in Hseek.
      unfold ssubs_size in Hend. cbn [map zsum fold_right] in Hend. fold (zsum (map ssub_size (skipn (S pos) (sb_subs sb)))) in Hend.
      fold (ssubs_size (skipn (S pos) (sb_subs sb))) in Hend.
      assert (Hrest : 0 <= ssubs_size (skipn (S pos) (sb_subs sb))) by (rewrite <- (enc_ssubs_length le); apply zlen_nonneg).
      exists (Some (MSubsub off (fst (expected_ssub fl ss)) (off + zlen (ssub_head le ss)))), (off + ssub_size ss).
      split; [|split].
      * cbn [mstep]. destruct (Z.eqb_spec off (o + len)) as [Hc|_]; [lia|].
        unfold subsubsec_init. cbn [c_ai c_le c_img].
        assert (Hseek2 : seek img off = ssub_head le ss ++ enc_attrs (ss_attrs ss) ++ enc_ssubs le (skipn (S pos) (sb_subs sb)) ++ t).
        { rewrite Hseek, enc_ssub_split, <- !app_assoc. reflexivity. }
        rewrite Hseek2, p_attr_header by exact Hss. cbn [bind].
        pose proof (ssub_head_length le ss Hsc) as Hh.
        rewrite (tell_seek img off _ _ Hoff Hseek2 (nonempty_zlen (ssub_head le ss) ltac:(lia))).
        cbn [obj_length attr_int_value bind obj_view expected_ssub fst]. reflexivity.
      * cbn [crel orel]. exists sb, ss, (enc_ssubs le (skipn (S pos) (sb_subs sb)) ++ t). repeat split; auto.
      * cbn [frel]. exists sb, t. split; [exact E|]. split; [lia|]. split; [|lia].
        rewrite <- (enc_ssub_length le ss). apply (seek_app img off _ _ Hoff Hseek).
    + rewrite (skipn_nth_nil _ pos E2) in Hend. unfold ssubs_size in Hend. cbn [map zsum fold_right] in Hend.
      cbn [mstep]. destruct (Z.eqb_spec off (o + len)) as [_|Hc]; [reflexivity|lia].
  - (* _make_attributes *)
    intros (sb & ss & t & E1 & E2 & Hoff & -> & Hseek & Hend).
    rewrite (sitems_subsub_nth i j sb ss pos E1 E2).
    pose proof (wf_nth_ss sb j ss (wf_nth i sb E1) E2) as Hss.
    pose proof (wf_ssub_attrs ss Hss) as Hattrs.
    destruct (nth_error (ss_attrs ss) pos) as [a|] eqn:E3.
    + rewrite (skipn_nth_cons _ pos a E3) in Hseek, Hend.
      assert (Ha : wf_attr fl a = true).
      { rewrite forallb_forall in Hattrs. apply Hattrs. eapply nth_error_In, E3. }
      pose proof (enc_attr_length a fl Ha) as Hl.
      unfold enc_attrs in Hseek, Hend. cbn [map List.concat] in Hseek, Hend.
      fold (enc_attrs (skipn (S pos) (ss_attrs ss))) in Hseek, Hend.
      rewrite <- app_assoc in Hseek. rewrite zlen_app in Hend.
      pose proof (zlen_nonneg (enc_attrs (skipn (S pos) (ss_attrs ss)))) as Hrest.
      exists None, (off + zlen (enc_attr a)).
      split; [|split].
      * cbn [mstep expected_ssub fst attr_int_value].
        destruct (Z.eqb_spec off (o + ssub_size ss)) as [Hc|_]; [lia|].
        cbn [c_ai c_le c_img]. rewrite Hseek, p_attr_valid by exact Ha.
        rewrite (tell_seek img off _ _ Hoff Hseek (nonempty_zlen (enc_attr a) ltac:(lia))). reflexivity.
      * exact I.
      * cbn [frel]. exists sb, ss, t. repeat split; auto; try lia.
        apply (seek_app img off _ _ Hoff Hseek).
    + rewrite (skipn_nth_nil _ pos E3) in Hend. unfold enc_attrs in Hend. cbn [map List.concat] in Hend.
      change (zlen (@nil Z)) with 0 in Hend.
      cbn [mstep expected_ssub fst attr_int_value].
      destruct (Z.eqb_spec off (o + ssub_size ss)) as [_|Hc]; [reflexivity|lia].
Qed.


(* ---- how many items a walk can have: fewer than the file has bytes ---- *)
Lemma orel_bound m s : orel m s -> (List.length (sitems exp s) <= List.length img)%nat.
Proof.
  destruct m as [start|off len vendor start|off header astart], s as [|i|i j]; cbn [orel]; try tauto.
  - intros _. cbn [sitems]. rewrite mapi_from_length. unfold expected_section. rewrite map_length.
    pose proof (subsecs_length_le fl le l Hwf) as H. rewrite !app_length. unfold enc_section. cbn [List.length]. lia.
  - intros (sb & t & E & Hoff & Hseek & _).
    cbn [sitems]. unfold expected_section. rewrite nth_error_map, E. cbn [option_map expected_subsec].
    rewrite mapi_from_length, map_length.
    destruct (wf_subsec_parts sb (wf_nth i sb E)) as (_ & Hsubs & _).
    pose proof (ssubs_length_le fl le _ Hsubs) as H1.
    pose proof (seek_prefix_length _ _ _ _ Hseek) as H2.
    assert (H3 : (List.length (enc_ssubs le (sb_subs sb)) <= List.length (enc_subsec le sb))%nat)
      by (unfold enc_subsec; rewrite !app_length; lia).
    lia.
  - intros (sb & ss & t & E1 & E2 & Hoff & Hseek & _).
    cbn [sitems]. rewrite (ssub_at_exp i j sb ss E1 E2). cbn [expected_ssub]. rewrite !map_length.
    pose proof (enc_attrs_length fl _ (wf_ssub_attrs ss (wf_nth_ss sb j ss (wf_nth i sb E1) E2))) as H1.
    pose proof (seek_prefix_length _ _ _ _ Hseek) as H2.
    assert (H3 : (List.length (enc_attrs (ss_attrs ss)) <= List.length (enc_ssub le ss))%nat)
      by (rewrite enc_ssub_split, app_length; lia).
    lia.
Qed.

Lemma head_sim m s : orel m s -> mhead m = shead exp s.
Proof.
  destruct m as [start|off len vendor start|off header astart], s as [|i|i j]; cbn [orel mhead shead]; try tauto; try reflexivity.
  intros (sb & ss & t & E1 & E2 & _ & _ & -> & _). rewrite (ssub_at_exp i j sb ss E1 E2). reflexivity.
Qed.

(* ================================================================== C. limited and complete walks *)
Definition irel (mi : item mobj) (si : item sobj) : Prop := snd mi = snd si /\ crel (fst mi) (fst si).

Lemma mnext_sim f : forall fuel m off s pos,
  frel m off s pos -> (List.length (sitems exp s) - pos < fuel)%nat ->
  match find_match f (skipn pos (sitems exp s)) pos with
  | Some (k, (sc, v)) => exists mc off', mnext c fuel m f off = WYield ((mc, v), off') /\ crel mc sc /\ frel m off' s (S k)
  | None => mnext c fuel m f off = WStop
  end.
Proof.
  induction fuel as [|fuel IH]; intros m off s pos Hfr Hfuel; [lia|].
  pose proof (step_sim m off s pos Hfr) as Hstep.
  destruct (nth_error (sitems exp s) pos) as [[sc v]|] eqn:E.
  - destruct Hstep as (mc & off' & Hm & Hc & Hfr').
    rewrite (skipn_nth_cons _ pos _ E). cbn [find_match snd].
    cbn [mnext]. rewrite Hm. cbn [snd].
    destruct (fmatch f v).
    + exists mc, off'. auto.
    + apply IH; [exact Hfr'|].
      assert (pos < List.length (sitems exp s))%nat by (apply nth_error_Some; congruence). lia.
  - rewrite (skipn_nth_nil _ pos E). cbn [find_match mnext]. rewrite Hstep. reflexivity.
Qed.

Lemma mwalk_sim f : forall fuel m off s pos,
  frel m off s pos -> (List.length (sitems exp s) - pos < fuel)%nat ->
  exists ml, mwalk c fuel m f off = Ok ml /\ Forall2 irel ml (keep f (skipn pos (sitems exp s))).
Proof.
  induction fuel as [|fuel IH]; intros m off s pos Hfr Hfuel; [lia|].
  pose proof (step_sim m off s pos Hfr) as Hstep.
  destruct (nth_error (sitems exp s) pos) as [[sc v]|] eqn:E.
  - destruct Hstep as (mc & off' & Hm & Hc & Hfr').
    rewrite (skipn_nth_cons _ pos _ E). cbn [mwalk]. rewrite Hm. cbn [snd].
    assert (Hlt : (pos < List.length (sitems exp s))%nat) by (apply nth_error_Some; congruence).
    destruct (IH m off' s (S pos) Hfr' ltac:(lia)) as (ml & Hw & Hall).
    rewrite Hw. cbn [bind]. unfold keep. cbn [filter snd]. fold (keep f (skipn (S pos) (sitems exp s))).
    destruct (fmatch f v).
    + eexists. split; [reflexivity|]. constructor; [|exact Hall]. split; [reflexivity|exact Hc].
    + eexists. split; [reflexivity|]. exact Hall.
  - rewrite (skipn_nth_nil _ pos E). cbn [mwalk]. rewrite Hstep. exists []. split; [reflexivity|]. constructor.
Qed.

Lemma keep_none {O} (x : list (item O)) : keep None x = x.
Proof. unfold keep. induction x as [|a r IH]; cbn [filter fmatch]; [reflexivity|]. f_equal. exact IH. Qed.

Lemma irel_views ml sl : Forall2 irel ml sl -> map snd ml = map snd sl.
Proof. induction 1 as [|a b r1 r2 [Hv _] _ IH]; cbn [map]; [reflexivity|]. rewrite Hv, IH. reflexivity. Qed.

Lemma irel_children ml sl : Forall2 irel ml sl -> Forall2 orel (children ml) (children sl).
Proof.
  induction 1 as [|[mc mv] [sc sv] r1 r2 [_ Hc] _ IH]; [constructor|].
  unfold children in *. cbn [flat_map fst] in *. cbn [fst] in Hc.
  destruct mc as [m|], sc as [s|]; cbn [crel] in Hc; try tauto; cbn [app].
  constructor; assumption.
Qed.

(* a complete fresh walk, limited or not *)
Lemma fresh_walk f m s : orel m s ->
  exists ml, mwalk c (walk_fuel c) m f (mstart m) = Ok ml /\ Forall2 irel ml (keep f (sitems exp s)).
Proof.
  intros Ho. pose proof (orel_bound m s Ho) as Hb.
  apply (mwalk_sim f (walk_fuel c) m (mstart m) s 0 (start_sim m s Ho)).
  unfold walk_fuel. cbn [c_img]. lia.
Qed.

(* ================================================================== D. histories *)
Definition grel (mg : mgen) (sg : sgen) : Prop :=
  mg_filter mg = sg_filter sg /\ mg_done mg = sg_done sg /\ orel (mg_owner mg) (sg_owner sg) /\
  (sg_done sg = false -> frel (mg_owner mg) (mg_offset mg) (sg_owner sg) (sg_pos sg)).
Definition strel (ms : mstate) (ss : sstate) : Prop :=
  Forall2 orel (m_objs ms) (s_objs ss) /\ Forall2 grel (m_gens ms) (s_gens ss).

Lemma reg_sim mobjs sobjs mc sc : Forall2 orel mobjs sobjs -> crel mc sc ->
  Forall2 orel (reg mobjs mc) (reg sobjs sc) /\ reg_id mobjs mc = reg_id sobjs sc.
Proof.
  intros Ho Hc. pose proof (Forall2_length' _ _ _ Ho) as Hl.
  destruct mc as [m|], sc as [s|]; cbn [crel] in Hc; try tauto; cbn [reg reg_id].
  split; [|rewrite Hl; reflexivity]. apply Forall2_app; [exact Ho|]. constructor; [exact Hc|constructor].
Qed.

(* EVERY call: equal answers, related states afterwards *)
Lemma hstep_sim ms ss op : strel ms ss ->
  snd (mhstep c ms op) = snd (sstep exp ss op) /\ strel (fst (mhstep c ms op)) (fst (sstep exp ss op)).
Proof.
  intros [Hobjs Hgens]. pose proof (Forall2_length' _ _ _ Hobjs) as Hlen.
  destruct op as [o f|g|g|o|o|o f|p|o].
  - (* iter_...(f) *)
    cbn [mhstep sstep]. pose proof (Forall2_nth_error _ _ _ o Hobjs) as Ho.
    destruct (nth_error (m_objs ms) o) as [m|], (nth_error (s_objs ss) o) as [s|]; try tauto; cbn [fst snd].
    + split; [reflexivity|]. split; [exact Hobjs|]. cbn [m_gens s_gens].
      apply Forall2_app; [exact Hgens|]. constructor; [|constructor].
      unfold grel. cbn [mg_filter sg_filter mg_done sg_done mg_owner sg_owner mg_offset sg_pos].
      repeat split; auto. intros _. apply start_sim, Ho.
    + split; [reflexivity|]. split; assumption.
  - (* next(g) *)
    cbn [mhstep sstep]. pose proof (Forall2_nth_error _ _ _ g Hgens) as Hg.
    destruct (nth_error (m_gens ms) g) as [mg|], (nth_error (s_gens ss) g) as [sg|]; try tauto; cbn [fst snd];
      [|split; [reflexivity|split; assumption]].
    destruct Hg as (Hf & Hd & Ho & Hfr). rewrite Hd.
    destruct (sg_done sg) eqn:Ed; [split; [reflexivity|split; assumption]|].
    specialize (Hfr eq_refl). pose proof (orel_bound _ _ Ho) as Hb.
    pose proof (mnext_sim (mg_filter mg) (walk_fuel c) _ _ _ _ Hfr) as Hn.
    unfold walk_fuel in *. cbn [c_img] in *. specialize (Hn ltac:(lia)). rewrite <- Hf.
    destruct (find_match (mg_filter mg) (skipn (sg_pos sg) (sitems exp (sg_owner sg))) (sg_pos sg)) as [[k [sc v]]|].
    + destruct Hn as (mc & off' & Hm & Hc & Hfr'). rewrite Hm. cbn [fst snd].
      destruct (reg_sim _ _ _ _ Hobjs Hc) as [Hreg Hid]. rewrite Hid.
      split; [reflexivity|]. split; [exact Hreg|]. cbn [m_gens s_gens].
      apply Forall2_set_nth; [exact Hgens|].
      unfold grel. cbn [mg_filter sg_filter mg_done sg_done mg_owner sg_owner mg_offset sg_pos]. auto.
    + rewrite Hn. cbn [fst snd]. split; [reflexivity|]. split; [exact Hobjs|]. cbn [m_gens s_gens].
      apply Forall2_set_nth; [exact Hgens|].
      unfold grel. cbn [mg_filter sg_filter mg_done sg_done mg_owner sg_owner mg_offset sg_pos].
      repeat split; auto; discriminate.
  - (* close / drop / break *)
    cbn [mhstep sstep]. pose proof (Forall2_nth_error _ _ _ g Hgens) as Hg.
    destruct (nth_error (m_gens ms) g) as [mg|], (nth_error (s_gens ss) g) as [sg|]; try tauto; cbn [fst snd];
      [|split; [reflexivity|split; assumption]].
    destruct Hg as (Hf & Hd & Ho & Hfr).
    split; [reflexivity|]. split; [exact Hobjs|]. cbn [m_gens s_gens].
    apply Forall2_set_nth; [exact Hgens|].
    unfold grel. cbn [mg_filter sg_filter mg_done sg_done mg_owner sg_owner mg_offset sg_pos].
    repeat split; auto; discriminate.
  - (* num_... *)
    cbn [mhstep sstep]. pose proof (Forall2_nth_error _ _ _ o Hobjs) as Ho.
    destruct (nth_error (m_objs ms) o) as [m|], (nth_error (s_objs ss) o) as [s|]; try tauto; cbn [fst snd];
      [|split; [reflexivity|split; assumption]].
    destruct (fresh_walk None m s Ho) as (ml & Hw & Hall). rewrite Hw, keep_none in *. cbn [fst snd].
    split; [|split; assumption].
    rewrite (head_sim m s Ho). unfold zlen. rewrite (Forall2_length' _ _ _ Hall). reflexivity.
  - (* the list property *)
    cbn [mhstep sstep]. pose proof (Forall2_nth_error _ _ _ o Hobjs) as Ho.
    destruct (nth_error (m_objs ms) o) as [m|], (nth_error (s_objs ss) o) as [s|]; try tauto; cbn [fst snd];
      [|split; [reflexivity|split; assumption]].
    destruct (fresh_walk None m s Ho) as (ml & Hw & Hall). rewrite Hw, keep_none in *. cbn [fst snd].
    split.
    + rewrite (head_sim m s Ho), (irel_views _ _ Hall), Hlen. reflexivity.
    + split; [|exact Hgens]. cbn [m_objs s_objs]. apply Forall2_app; [exact Hobjs|]. apply irel_children, Hall.
  - (* list(iter_...(f)) *)
    cbn [mhstep sstep]. pose proof (Forall2_nth_error _ _ _ o Hobjs) as Ho.
    destruct (nth_error (m_objs ms) o) as [m|], (nth_error (s_objs ss) o) as [s|]; try tauto; cbn [fst snd];
      [|split; [reflexivity|split; assumption]].
    destruct (fresh_walk f m s Ho) as (ml & Hw & Hall). rewrite Hw. cbn [fst snd].
    split.
    + rewrite (irel_views _ _ Hall), Hlen. reflexivity.
    + split; [|exact Hgens]. cbn [m_objs s_objs]. apply Forall2_app; [exact Hobjs|]. apply irel_children, Hall.
  - cbn [mhstep sstep fst snd]. split; [reflexivity|split; assumption].
  - cbn [mhstep sstep]. pose proof (Forall2_nth_error _ _ _ o Hobjs) as Ho.
    destruct (nth_error (m_objs ms) o) as [m|], (nth_error (s_objs ss) o) as [s|]; try tauto; cbn [fst snd];
      (split; [reflexivity|split; assumption]).
Qed.

Lemma run_sim : forall h ms ss, strel ms ss -> mrun c ms h = srun exp ss h.
Proof.
  induction h as [|op r IH]; intros ms ss Hrel; [reflexivity|].
  cbn [mrun srun]. destruct (hstep_sim ms ss op Hrel) as [Ha Hs].
  destruct (mhstep c ms op) as [ms' a], (sstep exp ss op) as [ss' a']. cbn [fst snd] in *.
  rewrite Ha, (IH ms' ss' Hs). reflexivity.
Qed.

(* the section object of a well-formed section anywhere in a file, under any history *)
Theorem attr_hist_exact_sec h :
  attr_hist (impl_of fl) le img (zlen pre) (zlen (enc_section le l)) h = Ok (spec_hist exp h).
Proof.
  pose proof (zlen_nonneg pre) as Hp. unfold attr_hist. rewrite seek_section. unfold p_byte.
  change ([65] ++ enc_subsecs le l ++ post) with (int_encode true 1 65 ++ enc_subsecs le l ++ post).
  rewrite uint_decode_valid by (cbn; lia). cbn [of_opt bind Z.eqb Pos.eqb negb].
  change (int_encode true 1 65) with [65].
  rewrite (tell_seek img (zlen pre) [65] _ Hp seek_section ltac:(discriminate)).
  unfold spec_hist. f_equal. apply run_sim. split; [|constructor].
  constructor; [|constructor]. cbn [orel]. unfold zlen. cbn [List.length]. lia.
Qed.

End Sim.

Theorem attr_hist_exact fl le pre post l h :
  wf_section fl l = true ->
  attr_hist (impl_of fl) le (pre ++ enc_section le l ++ post) (zlen pre) (zlen (enc_section le l)) h
  = Ok (spec_hist (expected_section fl l) h).
Proof. intros H. apply attr_hist_exact_sec. exact H. Qed.

(* ================================================================== E. the EHABI objects *)
Section Ehabi.
Variables (img : list Z) (le : bool) (sh_offset sh_size : Z).

(* the memo is None or the section's entry count; a decoder holds the disassembly of its array *)
Definition dec_ok (d : dec_obj) (bc : list Z) : Prop := d_bytes d = bc /\ bc_decode bc = Ok (d_items d).
Definition erel (st : einfo) (sp : espec) : Prop :=
  (ei_num st = None \/ ei_num st = Some (num_entry sh_size)) /\
  ei_entries st = es_entries sp /\ Forall2 dec_ok (ei_decoders st) (es_decoders sp).

Lemma info_num_ok memo : memo = None \/ memo = Some (num_entry sh_size) ->
  info_num sh_size memo = (num_entry sh_size, Some (num_entry sh_size)).
Proof. intros [-> | ->]; reflexivity. Qed.

Lemma estep_sim st sp op : erel st sp ->
  snd (estep img le sh_offset sh_size st op)
  = snd (estep_spec (num_entry sh_size) (get_entry img le sh_offset sh_size) bc_decode sp op) /\
  erel (fst (estep img le sh_offset sh_size st op))
       (fst (estep_spec (num_entry sh_size) (get_entry img le sh_offset sh_size) bc_decode sp op)).
Proof.
  intros (Hmemo & Hents & Hdecs).
  destruct op as [|n|e|e|e|d|d| | |e]; cbn [estep estep_spec].
  - rewrite (info_num_ok _ Hmemo). cbn [fst snd]. split; [reflexivity|]. repeat split; auto.
  - rewrite (info_num_ok _ Hmemo).
    change (info_get img le sh_offset (num_entry sh_size) n) with (get_entry img le sh_offset sh_size n).
    destruct (get_entry img le sh_offset sh_size n) as [r|x]; cbn [fst snd]; (split; [reflexivity|]).
    + repeat split; auto. cbn [ei_entries es_entries]. rewrite Hents. reflexivity.
    + repeat split; auto.
  - rewrite Hents. destruct (nth_error (es_entries sp) e) as [r|]; cbn [fst snd]; (split; [reflexivity|]); repeat split; auto.
  - rewrite Hents. destruct (nth_error (es_entries sp) e) as [r|]; cbn [fst snd]; [|split; [reflexivity|repeat split; auto]].
    unfold mnemonic_array.
    destruct (eo_bytecode r) as [[|b bc]|]; cbn [fst snd]; try (split; [reflexivity|repeat split; auto]).
    destruct (bc_decode (b :: bc)) as [items|x]; cbn [bind fst snd]; (split; [reflexivity|repeat split; auto]).
  - rewrite Hents. destruct (nth_error (es_entries sp) e) as [r|]; cbn [fst snd]; [|split; [reflexivity|repeat split; auto]].
    destruct (eo_bytecode r) as [bc|]; cbn [fst snd]; [|split; [reflexivity|repeat split; auto]].
    unfold dec_decode. cbn [d_bytes].
    destruct (bc_decode bc) as [items|x] eqn:E; cbn [bind fst snd d_items]; (split; [reflexivity|]).
    + repeat split; auto. cbn [ei_decoders es_decoders]. apply Forall2_app; [exact Hdecs|].
      constructor; [|constructor]. split; [reflexivity|exact E].
    + repeat split; auto.
  - pose proof (Forall2_nth_error _ _ _ d Hdecs) as Hd.
    destruct (nth_error (ei_decoders st) d) as [o|], (nth_error (es_decoders sp) d) as [bc|] eqn:Ebc; try tauto; cbn [fst snd];
      [|split; [reflexivity|repeat split; auto]].
    destruct Hd as [Hb Hi]. unfold dec_decode. rewrite Hb, Hi. cbn [bind fst snd d_items].
    split; [reflexivity|]. repeat split; auto. cbn [ei_decoders].
    rewrite <- (set_nth_same (es_decoders sp) d bc Ebc).
    apply Forall2_set_nth; [exact Hdecs|]. split; [reflexivity|exact Hi].
  - pose proof (Forall2_nth_error _ _ _ d Hdecs) as Hd.
    destruct (nth_error (ei_decoders st) d) as [o|], (nth_error (es_decoders sp) d) as [bc|]; try tauto; cbn [fst snd];
      [|split; [reflexivity|repeat split; auto]].
    destruct Hd as [Hb Hi]. rewrite Hi. split; [reflexivity|]. repeat split; auto.
  - cbn [fst snd]. split; [reflexivity|]. repeat split; auto.
  - cbn [fst snd]. split; [reflexivity|]. repeat split; auto.
  - rewrite Hents. destruct (nth_error (es_entries sp) e) as [r|]; cbn [fst snd]; (split; [reflexivity|]).
    + repeat split; auto.
    + repeat split; auto.
Qed.

Lemma erun_sim : forall h st sp, erel st sp ->
  erun img le sh_offset sh_size st h
  = erun_spec (num_entry sh_size) (get_entry img le sh_offset sh_size) bc_decode sp h.
Proof.
  induction h as [|op r IH]; intros st sp Hrel; [reflexivity|].
  cbn [erun erun_spec]. destruct (estep_sim st sp op Hrel) as [Ha Hs].
  destruct (estep img le sh_offset sh_size st op) as [st' a],
           (estep_spec (num_entry sh_size) (get_entry img le sh_offset sh_size) bc_decode sp op) as [sp' a'].
  cbn [fst snd] in *. rewrite Ha, (IH st' sp' Hs). reflexivity.
Qed.

(* for EVERY file and EVERY history: each answer is the stateless one *)
Theorem eh_hist_transparent h :
  eh_hist img le sh_offset sh_size h
  = eh_spec_hist (num_entry sh_size) (get_entry img le sh_offset sh_size) bc_decode h.
Proof. apply erun_sim. repeat split; auto. constructor. Qed.
End Ehabi.

(* ================================================================== F. corollaries: the answer at any point of any history *)
(* the state a history leaves behind, and the answer to the call that follows it *)
Definition sstate_after (exp : list osubsec) (st : sstate) (h : list hop) : sstate :=
  fold_left (fun s o => fst (sstep exp s o)) h st.

Lemma srun_nth exp : forall h1 st op h2,
  nth (List.length h1) (srun exp st (h1 ++ op :: h2)) HBad = snd (sstep exp (sstate_after exp st h1) op).
Proof.
  induction h1 as [|o r IH]; intros st op h2.
  - cbn [app srun List.length sstate_after fold_left]. destruct (sstep exp st op). reflexivity.
  - cbn [app srun List.length sstate_after fold_left]. destruct (sstep exp st o) as [st' a] eqn:E.
    cbn [nth fst]. apply IH.
Qed.

Lemma nth0_app {A} (x y : list A) a : nth_error x 0 = Some a -> nth_error (x ++ y) 0 = Some a.
Proof. destruct x; [discriminate|]. intros H. exact H. Qed.

(* object #0 stays the section: objects are only ever appended *)
Lemma sstep_obj0 exp st op : nth_error (s_objs st) 0 = Some SSec ->
  nth_error (s_objs (fst (sstep exp st op))) 0 = Some SSec.
Proof.
  intros H. destruct op as [o f|g|g|o|o|o f|p|o]; cbn [sstep].
  - destruct (nth_error (s_objs st) o); exact H.
  - destruct (nth_error (s_gens st) g) as [s|]; [|exact H]. destruct (sg_done s); [exact H|].
    destruct (find_match _ _ _) as [[k [c v]]|]; cbn [fst s_objs]; [|exact H].
    destruct c; cbn [reg]; [apply nth0_app|]; exact H.
  - destruct (nth_error (s_gens st) g); exact H.
  - destruct (nth_error (s_objs st) o); exact H.
  - destruct (nth_error (s_objs st) o); [|exact H]. cbn [fst s_objs]. apply nth0_app, H.
  - destruct (nth_error (s_objs st) o); [|exact H]. cbn [fst s_objs]. apply nth0_app, H.
  - exact H.
  - destruct (nth_error (s_objs st) o); exact H.
Qed.

Lemma sstate_after_obj0 exp : forall h st, nth_error (s_objs st) 0 = Some SSec ->
  nth_error (s_objs (sstate_after exp st h)) 0 = Some SSec.
Proof.
  induction h as [|o r IH]; intros st H; [exact H|].
  cbn [sstate_after fold_left]. apply IH, sstep_obj0, H.
Qed.

Lemma sitems_sec_views : forall (x : list osubsec) k,
  map snd (mapi_from k (fun i (s : osubsec) => let '(len, vendor, _) := s in (Some (SSubsec i), VSubsec len vendor)) x)
  = map (fun s : osubsec => let '(len, vendor, _) := s in VSubsec len vendor) x.
Proof.
  induction x as [|[[len vendor] subs] r IH]; intros k; cbn [mapi_from map snd]; [reflexivity|].
  rewrite IH. reflexivity.
Qed.

(* whatever was done before — walks started, advanced, abandoned, limited, nested — the section
   object reports the number of encoded subsections, and its list property shows all of them *)
Theorem attr_hist_num_subsections fl le pre post l h1 h2 :
  wf_section fl l = true ->
  exists answers,
    attr_hist (impl_of fl) le (pre ++ enc_section le l ++ post) (zlen pre) (zlen (enc_section le l))
              (h1 ++ ONum 0 :: h2) = Ok answers /\
    nth (List.length h1) answers HBad = HInt (zlen l).
Proof.
  intros Hwf. eexists. split; [apply attr_hist_exact, Hwf|].
  unfold spec_hist. rewrite srun_nth. cbn [sstep].
  rewrite (sstate_after_obj0 _ h1 (mkSState [SSec] []) eq_refl). cbn [snd shead sitems].
  unfold zlen. cbn [List.length]. rewrite mapi_from_length. unfold expected_section. rewrite map_length. reflexivity.
Qed.

Theorem attr_hist_subsections fl le pre post l h1 h2 :
  wf_section fl l = true ->
  exists answers first,
    attr_hist (impl_of fl) le (pre ++ enc_section le l ++ post) (zlen pre) (zlen (enc_section le l))
              (h1 ++ OList 0 :: h2) = Ok answers /\
    nth (List.length h1) answers HBad
    = HItems first (map (fun sb => VSubsec (subsec_length sb) (sb_vendor sb)) l).
Proof.
  intros Hwf. eexists. eexists. split; [apply attr_hist_exact, Hwf|].
  unfold spec_hist. rewrite srun_nth. cbn [sstep].
  rewrite (sstate_after_obj0 _ h1 (mkSState [SSec] []) eq_refl). cbn [snd shead sitems app].
  f_equal.
  rewrite sitems_sec_views. unfold expected_section. rewrite map_map. reflexivity.
Qed.

(* EHABI: what get_entry(n) answers at any point of any history *)
Lemma erun_spec_get num entry disasm n : forall h1 st h2,
  nth (List.length h1) (erun_spec num entry disasm st (h1 ++ EGet n :: h2)) EABad
  = match entry n with Ok r => EAEntry r | Err e => EAErr e end.
Proof.
  induction h1 as [|o r IH]; intros st h2.
  - cbn [app erun_spec List.length estep_spec]. destruct (entry n); reflexivity.
  - cbn [app erun_spec List.length]. destruct (estep_spec num entry disasm st o) as [st' a]. cbn [nth]. apply IH.
Qed.

Theorem eh_hist_get_exact img le sh_off sh_size n a h1 h2 :
  zlen img < 2 ^ 63 -> 0 <= sh_off -> 0 <= n < sh_size / 8 ->
  Spec.C20Ehabi.wf_entry (sh_off + n * 8) a = true ->
  Proofs.C20Ehabi.at_ img (sh_off + n * 8) (Spec.C20Ehabi.enc_index le (sh_off + n * 8) a) ->
  (Spec.C20Ehabi.table_words a <> [] -> Proofs.C20Ehabi.at_ img (Spec.C20Ehabi.table_offset a) (Spec.C20Ehabi.enc_table le a)) ->
  exists r, nth (List.length h1) (eh_hist img le sh_off sh_size (h1 ++ EGet n :: h2)) EABad = EAEntry r /\
            Spec.C20Ehabi.mask_tbl a r = Spec.C20Ehabi.expected_entry (sh_off + n * 8) a.
Proof.
  intros Himg Hoff Hn Hwf Hidx Htab.
  destruct (Proofs.C20Ehabi.get_entry_valid img le sh_off sh_size n a Himg Hoff Hn Hwf Hidx Htab) as (r & Hr & Hm).
  exists r. split; [|exact Hm].
  rewrite eh_hist_transparent. unfold eh_spec_hist. rewrite erun_spec_get, Hr. reflexivity.
Qed.

Theorem eh_hist_num_exact img le sh_off sh_size h1 h2 :
  nth (List.length h1) (eh_hist img le sh_off sh_size (h1 ++ ENum :: h2)) EABad = EAInt (sh_size / 8).
Proof.
  rewrite eh_hist_transparent. unfold eh_spec_hist. generalize (mkESpec [] []) as st.
  induction h1 as [|o r IH]; intros st.
  - reflexivity.
  - cbn [app erun_spec List.length]. destruct (estep_spec _ _ _ st o) as [st' a']. cbn [nth]. apply IH.
Qed.

(* ================================================================== G. the section header: only sh_offset and sh_size are read *)
Lemma hget_other (h : shdr) k v k' : k <> k' -> hget ((k, v) :: h) k' = hget h k'.
Proof. intros H. cbn [hget]. destruct (String.eqb_spec k k') as [E|_]; [contradiction|reflexivity]. Qed.

(* EHABI: ANY header field other than sh_offset / sh_size (sh_entsize, sh_link, sh_info,
   sh_addralign, sh_addr, sh_flags, sh_name, sh_type) may hold anything *)
Theorem eh_hist_field_irrelevant img le (h : shdr) k v hist :
  k <> "sh_offset"%string -> k <> "sh_size"%string ->
  eh_hist_sec img le ((k, v) :: h) hist = eh_hist_sec img le h hist.
Proof. intros H1 H2. unfold eh_hist_sec. rewrite !hget_other by assumption. reflexivity. Qed.

Theorem get_entry_field_irrelevant img le (h : shdr) k v n :
  k <> "sh_offset"%string -> k <> "sh_size"%string ->
  get_entry_sec img le ((k, v) :: h) n = get_entry_sec img le h n.
Proof. intros H1 H2. unfold get_entry_sec. rewrite !hget_other by assumption. reflexivity. Qed.

(* build attributes: likewise, sh_flags being free as long as SHF_COMPRESSED stays clear *)
Theorem attr_hist_field_irrelevant ai le img (h : shdr) k v hist :
  k <> "sh_offset"%string -> k <> "sh_size"%string -> k <> "sh_flags"%string ->
  attr_hist_sec ai le img ((k, v) :: h) hist = attr_hist_sec ai le img h hist.
Proof. intros H1 H2 H3. unfold attr_hist_sec. rewrite !hget_other by assumption. reflexivity. Qed.

Theorem read_attr_section_field_irrelevant ai le img (h : shdr) k v :
  k <> "sh_offset"%string -> k <> "sh_size"%string -> k <> "sh_flags"%string ->
  read_attr_section_sec ai le img ((k, v) :: h) = read_attr_section_sec ai le img h.
Proof. intros H1 H2 H3. unfold read_attr_section_sec. rewrite !hget_other by assumption. reflexivity. Qed.

Theorem attr_hist_flags_irrelevant ai le img (h : shdr) f hist :
  Z.land f SHF_COMPRESSED = 0 -> Z.land (hget h "sh_flags") SHF_COMPRESSED = 0 ->
  attr_hist_sec ai le img (("sh_flags"%string, f) :: h) hist = attr_hist_sec ai le img h hist.
Proof.
  intros Hf Hh. unfold attr_hist_sec. cbn [hget String.eqb Ascii.eqb Bool.eqb]. rewrite Hf, Hh. reflexivity.
Qed.

(* the exactness theorems restated over a header: every field but the two locating ones is
   universally quantified *)
Theorem attr_hist_sec_exact fl le pre post l (h : shdr) hist :
  wf_section fl l = true ->
  hget h "sh_offset" = zlen pre -> hget h "sh_size" = zlen (enc_section le l) ->
  Z.land (hget h "sh_flags") SHF_COMPRESSED = 0 ->
  attr_hist_sec (impl_of fl) le (pre ++ enc_section le l ++ post) h hist
  = Ok (spec_hist (expected_section fl l) hist).
Proof.
  intros Hwf Ho Hs Hf. unfold attr_hist_sec. rewrite Hf, Ho, Hs. cbn [Z.eqb negb]. apply attr_hist_exact, Hwf.
Qed.

Theorem get_entry_sec_exact img le (h : shdr) n a :
  zlen img < 2 ^ 63 -> 0 <= hget h "sh_offset" -> 0 <= n < hget h "sh_size" / 8 ->
  wf_entry (hget h "sh_offset" + n * 8) a = true ->
  at_ img (hget h "sh_offset" + n * 8) (enc_index le (hget h "sh_offset" + n * 8) a) ->
  (table_words a <> [] -> at_ img (table_offset a) (enc_table le a)) ->
  exists r, get_entry_sec img le h n = Ok r /\ mask_tbl a r = expected_entry (hget h "sh_offset" + n * 8) a.
Proof. intros. unfold get_entry_sec. apply get_entry_valid; assumption. Qed.
