(* Proofs/C01Sections.v — C01, part 3: every section of a well-formed image becomes the
   object its type calls for (_make_section and the constructors it runs). *)
From Coq Require Import String.
From PV Require Import Base.Bytes Base.Outcome Base.Prim Base.Fmt Base.Enum Base.PyData.
From PV Require Import Proofs.FmtProofs Proofs.PrimProofs Proofs.ElfLayoutFacts.
From PV Require Import Gen.ElfLayouts Gen.Tables Gen.PyFuns.
From PV Require Import Spec.PrimSpec Spec.ElfGabi Spec.C01Obs Spec.C01Image Model.C01ElfFile.
From PV Require Import Model.C01History.
From PV Require Export Spec.C01History.
From PV Require Import Proofs.C01Lemmas Proofs.C01Records Proofs.C01Open.
From Coq Require Import ZifyBool.
Ltac Zify.zify_post_hook ::= Z.to_euclidean_division_equations.
Open Scope string_scope.
Open Scope list_scope.
Open Scope Z_scope.

(* ------------------------------------------------------------------ the kind table *)
Lemma assoc_str_none {A} (l : list (string * A)) t :
  (forall k v, In (k, v) l -> k <> t) -> assoc_str l t = None.
Proof.
  induction l as [|[k v] l IH]; intros H; [reflexivity|]. cbn [assoc_str].
  destruct (String.eqb_spec k t) as [E|_]; [exfalso; exact (H k v (or_introl eq_refl) E)|].
  apply IH. intros k' v' Hin. apply (H k' v'). right. exact Hin.
Qed.

Lemma kind_entry_tbl t nm e :
  t <> "SHT_PROGBITS" -> assoc_str kind_table t = Some e -> kind_entry (HName t) nm = e.
Proof.
  intros Hn He. unfold kind_entry. rewrite (proj2 (String.eqb_neq _ _) Hn). cbn [andb]. rewrite He. reflexivity.
Qed.

(* unfolding equations of the requirement predicates (see the remark in C01Open.v) *)
Lemma strtab_link_ok_eq img s link : strtab_link_ok img s link =
  match nth_sec s link with
  | Some x => is_name (sh_tyname s (snd x)) "SHT_STRTAB" && base_ok img s (snd x)
  | None => false
  end.
Proof. reflexivity. Qed.
Lemma symtab_ok_eq img s h : symtab_ok img s h =
  strtab_link_ok img s (sh_link h) && base_ok img s h &&
  (0 <? sh_entsize h) && (sh_size h mod sh_entsize h =? 0).
Proof. reflexivity. Qed.
Lemma symtab_link_ok_eq img s link : symtab_link_ok img s link =
  match nth_sec s link with
  | Some x =>
      (is_name (sh_tyname s (snd x)) "SHT_SYMTAB" || is_name (sh_tyname s (snd x)) "SHT_DYNSYM")
      && symtab_ok img s (snd x)
  | None => false
  end.
Proof. reflexivity. Qed.
Lemma dynamic_link_ok_eq img s link : dynamic_link_ok img s link =
  match nth_sec s link with
  | Some x =>
      (is_name (sh_tyname s (snd x)) "SHT_STRTAB" || is_name (sh_tyname s (snd x)) "SHT_NOBITS")
      && base_ok img s (snd x)
  | None => false
  end.
Proof. reflexivity. Qed.

(* evaluate comparisons of two string literals *)
Ltac str_const :=
  repeat match goal with
  | |- context [String.eqb (String ?a ?x) (String ?b ?y)] =>
      let e := constr:(String.eqb (String a x) (String b y)) in
      let v := eval vm_compute in e in change e with v
  | H : context [String.eqb (String ?a ?x) (String ?b ?y)] |- _ =>
      let e := constr:(String.eqb (String a x) (String b y)) in
      let v := eval vm_compute in e in change e with v in H
  | |- context [assoc_str kind_table (String ?a ?x)] =>
      let e := constr:(assoc_str kind_table (String a x)) in
      let v := eval vm_compute in e in change e with v
  | H : context [assoc_str kind_table (String ?a ?x)] |- _ =>
      let e := constr:(assoc_str kind_table (String a x)) in
      let v := eval vm_compute in e in change e with v in H
  end.

Ltac known_kind :=
  match goal with
  | Hr : req_ok _ _ _ (snd (kind_entry (HName ?t) ?nm)) = true |- _ =>
      rewrite (kind_entry_tbl t nm _ ltac:(discriminate) eq_refl) in Hr;
      rewrite (kind_entry_tbl t nm _ ltac:(discriminate) eq_refl);
      cbn [fst snd req_ok] in Hr |- *
  end.

Section WF.
Variable img : list Z.
Variable s : image_spec.
Hypothesis Hwf : wf_image img s = true.

Local Notation C := (exp_core img s).
Local Notation EF := (exp_file img s).

Lemma mk_sect_ok h nm k : base_ok img s h = true ->
  mk_sect EF (exp_shdr s h) nm k = Ok {| s_name := nm; s_hdr := exp_shdr s h; s_kind := k |}.
Proof.
  intros Hb. unfold mk_sect. cbn [ef_core exp_file].
  rewrite (section_init_ok img s Hwf h Hb). reflexivity.
Qed.

Lemma linked_strtab_ok link : strtab_link_ok img s link = true ->
  exists sec, get_linked_strtab_section EF link = Ok sec.
Proof.
  intros H. rewrite strtab_link_ok_eq in H.
  destruct (nth_sec s link) as [x|] eqn:Hx; [|discriminate].
  apply andb_prop in H. destruct H as [Hty Hb].
  unfold get_linked_strtab_section. cbn [ef_core exp_file].
  rewrite (section_header_ok img s Hwf link x Hx). cbn [bind some_hdr].
  rewrite shdr_get_type, Hty. cbn [negb].
  rewrite (section_name_ok img s Hwf x (nth_sec_in _ _ _ Hx)). cbn [bind].
  rewrite (mk_sect_ok _ _ _ Hb). eexists. reflexivity.
Qed.

Lemma symtab_sect_ok h nm : symtab_ok img s h = true ->
  make_symbol_table_section EF (exp_shdr s h) nm
  = Ok {| s_name := nm; s_hdr := exp_shdr s h; s_kind := "SymbolTableSection" |}.
Proof.
  intros H. rewrite symtab_ok_eq in H. rewrite !andb_true_iff in H.
  destruct H as [[[Hl Hb] He] Hm].
  unfold make_symbol_table_section. rewrite shdr_get_link, shdr_get_entsize, shdr_get_size.
  destruct (linked_strtab_ok _ Hl) as [sec Hs]. rewrite Hs. cbn [bind].
  rewrite (mk_sect_ok _ _ _ Hb). cbn [bind]. rewrite He, Hm. reflexivity.
Qed.

Lemma linked_symtab_ok link : symtab_link_ok img s link = true ->
  exists sec, get_linked_symtab_section EF link = Ok sec.
Proof.
  intros H. rewrite symtab_link_ok_eq in H.
  destruct (nth_sec s link) as [x|] eqn:Hx; [|discriminate].
  apply andb_prop in H. destruct H as [Hty Hs].
  unfold get_linked_symtab_section. cbn [ef_core exp_file].
  rewrite (section_header_ok img s Hwf link x Hx). cbn [bind some_hdr].
  rewrite shdr_get_type, Hty. cbn [negb].
  rewrite (section_name_ok img s Hwf x (nth_sec_in _ _ _ Hx)). cbn [bind].
  rewrite (symtab_sect_ok _ _ Hs). eexists. reflexivity.
Qed.

Lemma dynamic_strtab_ok link : dynamic_link_ok img s link = true ->
  exists sec, get_dynamic_stringtable EF link = Ok sec.
Proof.
  intros H. rewrite dynamic_link_ok_eq in H.
  destruct (nth_sec s link) as [x|] eqn:Hx; [|discriminate].
  apply andb_prop in H. destruct H as [Hty Hb].
  unfold get_dynamic_stringtable. cbn [ef_core exp_file].
  rewrite (section_header_ok img s Hwf link x Hx). cbn [bind].
  rewrite shdr_get_type, Hty. cbn [negb].
  rewrite (section_name_ok img s Hwf x (nth_sec_in _ _ _ Hx)). cbn [bind].
  rewrite (mk_sect_ok _ _ _ Hb). eexists. reflexivity.
Qed.

Lemma attributes_init_ok h :
  (sh_offset h <? zlenT img) && at_ img (sh_offset h) [65] = true ->
  attributes_init EF (exp_shdr s h) = Ok tt.
Proof.
  intros H. apply andb_prop in H. destruct H as [Hlt Hat]. rewrite zlenT_eq in Hlt.
  apply at_skipn in Hat. destruct Hat as [Hpos [t Ht]].
  unfold attributes_init. cbn [ef_core exp_file]. rewrite shdr_get_offset.
  change (c_img C) with img. change (c_le C) with (i_le s).
  rewrite (struct_parse_at_exact _ [("format_version", KU (i_le s) 1)] [] img (sh_offset h)
             [VZ 65] t [("format_version", HZ 65)] 1%nat eq_refl).
  - reflexivity.
  - reflexivity.
  - reflexivity.
  - rewrite Ht. destruct (i_le s); reflexivity.
  - pose proof (wf_len img s Hwf). rewrite SEEK_LIMIT_val. lia.
  - reflexivity.
Qed.

Lemma core_machine : hty (c_hdr C) "e_machine" = exp_machine s.
Proof. reflexivity. Qed.

Lemma hash_parse_ok off : readable img off (spec_hash_layout s) = true ->
  exists r, struct_parse_at (hash_layout C) [] (c_img C) off = Ok r.
Proof.
  intros H. unfold hash_layout. rewrite core_machine.
  change (c_is64 C) with (i_is64 s). change (c_le C) with (i_le s).
  unfold spec_hash_layout in H.
  destruct (hash_is_wide (i_is64 s) (exp_machine s)).
  - apply struct_parse_at_readable with (L := Elf_Hash_wide (i_le s)); [reflexivity|exact H| |reflexivity].
    pose proof (wf_len img s Hwf). rewrite SEEK_LIMIT_val. assumption.
  - apply struct_parse_at_readable with (L := spec_Elf_Hash (i_le s)); [apply gen_Elf_Hash_gabi|exact H| |reflexivity].
    pose proof (wf_len img s Hwf). rewrite SEEK_LIMIT_val. assumption.
Qed.
Lemma gnuhash_parse_ok off : readable img off (spec_Gnu_Hash (i_le s) (i_is64 s)) = true ->
  exists r, struct_parse_at (gen_Gnu_Hash (c_le C) (c_is64 C)) [] (c_img C) off = Ok r.
Proof.
  intros H. apply struct_parse_at_readable with (L := spec_Gnu_Hash (i_le s) (i_is64 s)).
  - apply gen_Gnu_Hash_gabi.
  - exact H.
  - pose proof (wf_len img s Hwf). rewrite SEEK_LIMIT_val. assumption.
  - reflexivity.
Qed.

Lemma rel_size is_rela :
  sizeof (rel_layout C is_rela) =
  if is_rela then (if i_is64 s then 24 else 12) else (if i_is64 s then 16 else 8).
Proof.
  unfold rel_layout. change (c_le C) with (i_le s). change (c_is64 C) with (i_is64 s).
  destruct (c_mips64rel C) eqn:Em.
  - assert (E64 : i_is64 s = true).
    { unfold exp_core, mk_core in Em. cbn [c_mips64rel] in Em. apply andb_prop in Em. tauto. }
    rewrite E64. destruct is_rela; [apply sizeof_Rela_mips64|apply sizeof_Rel_mips64].
  - destruct is_rela; [apply sizeof_Rela|apply sizeof_Rel].
Qed.
(* a type name other than the 20 the dispatch knows gives the plain Section *)
Lemma kind_entry_other t nm :
  t <> "SHT_PROGBITS" ->
  (forall k v, In (k, v) kind_table -> k <> t) -> kind_entry (HName t) nm = ("Section", RNone).
Proof.
  intros Hn H. unfold kind_entry. rewrite (proj2 (String.eqb_neq _ _) Hn). cbn [andb].
  rewrite (assoc_str_none _ _ H). reflexivity.
Qed.

Lemma make_section_ok x : In x (i_sections s) ->
  make_section EF (Some (exp_shdr s (snd x))) = Ok (sec_of s x).
Proof.
  intros Hx. unfold make_section.
  rewrite (section_name_ok img s Hwf x Hx). cbn [bind some_hdr].
  rewrite shdr_get_type, shdr_get_link, shdr_get_entsize, shdr_get_offset. cbn [ef_core exp_file].
  pose proof (in_base_ok img s Hwf x Hx) as Hb. pose proof (in_req_ok img s Hwf x Hx) as Hr.
  unfold sec_of, spec_kind.
  destruct x as [nm h]. cbn [fst snd] in *.
  generalize dependent (sh_tyname s h). intros ty Hr.
  destruct ty as [z|bs|zs|t]; try (cbn [is_name orb andb kind_entry fst]; apply mk_sect_ok; exact Hb).
  cbn [is_name].
  destruct (String.eqb_spec t "SHT_STRTAB") as [->|N1].
  { known_kind. apply mk_sect_ok; exact Hb. }
  destruct (String.eqb_spec t "SHT_NULL") as [->|N2].
  { known_kind. apply mk_sect_ok; exact Hb. }
  destruct (String.eqb_spec t "SHT_SYMTAB") as [->|N3].
  { known_kind. cbn [orb]. apply symtab_sect_ok; exact Hr. }
  destruct (String.eqb_spec t "SHT_DYNSYM") as [->|N4].
  { known_kind. cbn [orb]. apply symtab_sect_ok; exact Hr. }
  destruct (String.eqb_spec t "SHT_SUNW_LDYNSYM") as [->|N5].
  { known_kind. cbn [orb]. apply symtab_sect_ok; exact Hr. }
  cbn [orb].
  destruct (String.eqb_spec t "SHT_SYMTAB_SHNDX") as [->|N6].
  { known_kind. apply mk_sect_ok; exact Hb. }
  destruct (String.eqb_spec t "SHT_SUNW_syminfo") as [->|N7].
  { known_kind. destruct (linked_symtab_ok _ Hr) as [sec Hs]. rewrite Hs. cbn [bind].
    apply mk_sect_ok; exact Hb. }
  destruct (String.eqb_spec t "SHT_GNU_verneed") as [->|N8].
  { known_kind. destruct (linked_strtab_ok _ Hr) as [sec Hs]. rewrite Hs. cbn [bind].
    apply mk_sect_ok; exact Hb. }
  destruct (String.eqb_spec t "SHT_GNU_verdef") as [->|N9].
  { known_kind. destruct (linked_strtab_ok _ Hr) as [sec Hs]. rewrite Hs. cbn [bind].
    apply mk_sect_ok; exact Hb. }
  destruct (String.eqb_spec t "SHT_GNU_versym") as [->|N10].
  { known_kind. destruct (linked_symtab_ok _ Hr) as [sec Hs]. rewrite Hs. cbn [bind].
    apply mk_sect_ok; exact Hb. }
  destruct (String.eqb_spec t "SHT_REL") as [->|N11].
  { known_kind. cbn [orb]. rewrite (mk_sect_ok _ _ _ Hb). cbn [bind]. str_const.
    rewrite rel_size, Hr. reflexivity. }
  destruct (String.eqb_spec t "SHT_RELA") as [->|N12].
  { known_kind. cbn [orb]. rewrite (mk_sect_ok _ _ _ Hb). cbn [bind].
    rewrite rel_size, Hr. reflexivity. }
  cbn [orb].
  destruct (String.eqb_spec t "SHT_DYNAMIC") as [->|N13].
  { known_kind. rewrite (mk_sect_ok _ _ _ Hb). cbn [bind].
    destruct (dynamic_strtab_ok _ Hr) as [sec Hs]. rewrite Hs. reflexivity. }
  destruct (String.eqb_spec t "SHT_NOTE") as [->|N14].
  { known_kind. apply mk_sect_ok; exact Hb. }
  destruct (String.eqb_spec t "SHT_PROGBITS") as [->|N15].
  { str_const. cbn [andb]. unfold kind_entry in *. str_const. cbn [andb] in *.
    unfold STAB_NAME in *. destruct (bytes_eqb nm [46; 115; 116; 97; 98]).
    - apply mk_sect_ok; exact Hb.
    - apply mk_sect_ok; exact Hb. }
  cbn [andb].
  destruct (String.eqb_spec t "SHT_ARM_ATTRIBUTES") as [->|N16].
  { known_kind. rewrite (mk_sect_ok _ _ _ Hb). cbn [bind].
    rewrite (attributes_init_ok _ Hr). reflexivity. }
  destruct (String.eqb_spec t "SHT_RISCV_ATTRIBUTES") as [->|N17].
  { known_kind. rewrite (mk_sect_ok _ _ _ Hb). cbn [bind].
    rewrite (attributes_init_ok _ Hr). reflexivity. }
  destruct (String.eqb_spec t "SHT_HASH") as [->|N18].
  { known_kind. apply andb_prop in Hr. destruct Hr as [Hl Hrd].
    destruct (linked_symtab_ok _ Hl) as [sec Hs]. rewrite Hs. cbn [bind].
    rewrite (mk_sect_ok _ _ _ Hb). cbn [bind].
    destruct (hash_parse_ok _ Hrd) as [r Hp]. rewrite Hp. reflexivity. }
  destruct (String.eqb_spec t "SHT_GNU_HASH") as [->|N19].
  { known_kind. apply andb_prop in Hr. destruct Hr as [Hl Hrd].
    destruct (linked_symtab_ok _ Hl) as [sec Hs]. rewrite Hs. cbn [bind].
    rewrite (mk_sect_ok _ _ _ Hb). cbn [bind].
    destruct (gnuhash_parse_ok _ Hrd) as [r Hp]. rewrite Hp. reflexivity. }
  destruct (String.eqb_spec t "SHT_RELR") as [->|N20].
  { known_kind. rewrite (mk_sect_ok _ _ _ Hb). cbn [bind].
    change (c_le C) with (i_le s). change (c_is64 C) with (i_is64 s).
    rewrite sizeof_Relr, Z.eqb_sym, Hr. reflexivity. }
  rewrite kind_entry_other; [apply mk_sect_ok; exact Hb|exact N15|].
  intros k v Hin. unfold kind_table in Hin. cbn [In] in Hin.
  repeat (destruct Hin as [Hin|Hin]; [inversion Hin; subst k; intros E; subst t; congruence|]).
  destruct Hin.
Qed.

(* ---- get_section(i) *)
Lemma get_section_ok i x : nth_sec s i = Some x -> get_section EF i = Ok (sec_of s x).
Proof.
  intros Hx. unfold get_section. cbn [ef_core exp_file].
  rewrite (section_header_ok img s Hwf i x Hx). cbn [bind].
  apply make_section_ok. exact (nth_sec_in _ _ _ Hx).
Qed.
End WF.
