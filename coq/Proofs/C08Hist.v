(* Proofs/C08Hist.v — relocation table objects under a history of calls (Model/C08Hist.v) answer
   every call from the stateless expansion (Spec/C08Hist.v).
   A. the lazy RELR walk collapses to C08Reloc.relr_loop (so everything proved about
      relr_iter_relocations speaks about the lazy walk too);
   B. generator bookkeeping; Python list indexing;
   C. RELR object: the memo invariant "None, or the full expansion" is kept by EVERY call,
      lifted over fold_left; with it every answer equals the reference answer;
   D. REL/RELA object: no state to keep, the same histories are transparent. *)
From PV Require Import Base.Fmt Base.Outcome Spec.ElfGabi Spec.C08Spec Spec.C08Hist Gen.ElfLayouts
     Model.C08Reloc Model.C08Hist Proofs.C08Proofs.
From Coq Require Import ZifyBool.
Ltac Zify.zify_post_hook ::= Z.to_euclidean_division_equations.
Open Scope Z_scope.
Open Scope list_scope.

(* ------------------------------------------------------------------ A. lazy walk *)
Lemma collapse_lcons {A} (x : A) w : collapse (lcons x w) = (do r <- collapse w; Ok (x :: r)).
Proof. destruct w as [l [e|]]; reflexivity. Qed.

Lemma collapse_lapp {A} (xs : list A) w : collapse (lapp xs w) = (do r <- collapse w; Ok (xs ++ r)).
Proof. destruct w as [l [e|]]; reflexivity. Qed.

Lemma relr_lazy_collapse le is64 img : forall cnt relr base,
  relr_loop le is64 img cnt relr base = collapse (relr_lazy_loop le is64 img cnt relr base).
Proof.
  induction cnt as [|k IH]; intros relr base; [reflexivity|].
  cbn [relr_loop relr_lazy_loop]. cbv zeta.
  destruct (struct_parse_at (gen_Elf_Relr le is64) img relr) as [e|x]; [|reflexivity].
  cbn [bind]. destruct (getf e "r_offset") as [eo|x]; [|reflexivity].
  cbn [bind]. destruct (Z.land eo 1 =? 0).
  - rewrite collapse_lcons, IH. reflexivity.
  - destruct base as [b|]; [|reflexivity].
    destruct (relr_bitmap (Z.to_nat (8 * sizeof (gen_Elf_Relr le is64))) eo b 0 (sizeof (gen_Elf_Relr le is64)))
      as [here|x]; [|reflexivity].
    cbn [bind]. rewrite collapse_lapp, IH. reflexivity.
Qed.

(* list(iter_relocations()) of an accepted object = the eager model the RELR theorems are about *)
Theorem relr_source_collapse le is64 img off size :
  relr_iter_relocations le is64 img off size (wordsize is64) = collapse (relr_source le is64 img off size).
Proof.
  unfold relr_iter_relocations, relr_source. rewrite relr_sizeof, Z.eqb_refl. cbn [negb].
  destruct (size =? 0); [reflexivity|]. apply relr_lazy_collapse.
Qed.

Lemma relr_source_spec le is64 ws pre tail :
  relr_words_wf is64 ws = true ->
  collapse (relr_source le is64 (pre ++ encode_relr le is64 ws ++ tail) (zlen pre) (zlen (encode_relr le is64 ws)))
  = relr_spec is64 ws.
Proof. intros H. rewrite <- relr_source_collapse. apply relr_equal. exact H. Qed.

(* ------------------------------------------------------------------ B. generators, indexing *)
Lemma gen_op_ext {A} (w1 w2 : nat -> gstep A) gs o :
  (forall i, w1 i = w2 i) -> gen_op w1 gs o = gen_op w2 gs o.
Proof.
  intros H. destruct o as [|g|g| |n|]; try reflexivity.
  cbn [gen_op]. destruct (nth_error gs g) as [s|]; [|reflexivity].
  destruct (g_done s); [reflexivity|]. rewrite H. reflexivity.
Qed.

(* the lazy walk and the reference walk are the same walk *)
Definition walk_agrees {A} (w : lazy A) : Prop := forall i, lazy_walk w i = spec_walk (collapse w) i.

Lemma collapse_ok {A} (w : lazy A) l : collapse w = Ok l -> w = (l, None).
Proof. destruct w as [l' [e|]]; unfold collapse; cbn [fst snd]; intros H; inversion H; reflexivity. Qed.

Lemma walk_agrees_ok {A} (w : lazy A) l : collapse w = Ok l -> walk_agrees w.
Proof. intros H i. rewrite (collapse_ok w l H). reflexivity. Qed.

(* a walk that fails before yielding anything (RELR: a leading bitmap) *)
Lemma walk_agrees_nil {A} (w : lazy A) : fst w = [] -> walk_agrees w.
Proof.
  destruct w as [l [e|]]; cbn [fst]; intros H i; subst l; unfold lazy_walk, collapse, spec_walk; cbn [fst snd];
    destruct i; reflexivity.
Qed.

Lemma nth_error_zlen {A} (l : list A) n :
  0 <= n < zlen l -> exists a, nth_error l (Z.to_nat n) = Some a.
Proof.
  intros H. destruct (nth_error l (Z.to_nat n)) as [a|] eqn:E; [exists a; reflexivity|].
  apply nth_error_None in E. unfold zlen in H. lia.
Qed.

Lemma py_index_spec {A} (l : list A) n :
  0 <= n ->
  match py_index l n with Ok a => AItem a | Err e => AErr e end
  = if (0 <=? n) && (n <? zlen l)
    then match nth_error l (Z.to_nat n) with Some a => AItem a | None => AErr (EPy "IndexError") end
    else AErr (EPy "IndexError").
Proof.
  intros Hn. unfold py_index.
  assert (E : (n <? 0) = false) by lia.
  rewrite E. cbv zeta. rewrite E.
  destruct (Z.leb_spec 0 n) as [_|Hneg]; [|lia]. cbn [orb andb].
  destruct (Z.leb_spec (zlen l) n) as [Hge|Hlt].
  - destruct (Z.ltb_spec n (zlen l)) as [Hlt|_]; [lia|reflexivity].
  - destruct (Z.ltb_spec n (zlen l)) as [_|Hge]; [|lia].
    destruct (nth_error l (Z.to_nat n)); reflexivity.
Qed.

(* ------------------------------------------------------------------ C. the RELR object *)
(* the memo is None, or it holds exactly what a complete walk yields *)
Definition cache_ok (src : lazy Z) (c : option (list Z)) : Prop :=
  match c with None => True | Some l => collapse src = Ok l end.

(* EVERY call keeps the invariant (no side condition on the call) *)
Lemma relr_hstep_cache src st o :
  cache_ok src (r_cache st) -> cache_ok src (r_cache (fst (relr_hstep src st o))).
Proof.
  intros Hc. destruct o as [|g|g| |n|]; cbn [relr_hstep].
  - destruct (gen_op (lazy_walk src) (r_gens st) HStart); exact Hc.
  - destruct (gen_op (lazy_walk src) (r_gens st) (HNext g)); exact Hc.
  - destruct (gen_op (lazy_walk src) (r_gens st) (HClose g)); exact Hc.
  - unfold relr_fill. destruct (r_cache st) as [l|]; [exact Hc|].
    destruct (collapse src) as [l|e] eqn:E; cbn [fst r_cache cache_ok]; [exact E|exact I].
  - unfold relr_fill. destruct (r_cache st) as [l|]; [exact Hc|].
    destruct (collapse src) as [l|e] eqn:E; cbn [fst r_cache cache_ok]; [exact E|exact I].
  - exact Hc.
Qed.

Definition relr_after (src : lazy Z) (st : relr_obj) (h : list hop) : relr_obj :=
  fold_left (fun s o => fst (relr_hstep src s o)) h st.

Theorem relr_cache_invariant src : forall h st,
  cache_ok src (r_cache st) -> cache_ok src (r_cache (relr_after src st h)).
Proof.
  induction h as [|o h IH]; intros st Hc; [exact Hc|].
  unfold relr_after. cbn [fold_left]. apply IH. apply relr_hstep_cache. exact Hc.
Qed.

(* from the state __init__ leaves *)
Theorem relr_memo_invariant (src : lazy Z) (h : list hop) :
  match r_cache (fold_left (fun s o => fst (relr_hstep src s o)) h relr_new) with
  | None => True
  | Some l => collapse src = Ok l
  end.
Proof. exact (relr_cache_invariant src h relr_new I). Qed.

(* one call: with the invariant, the answer is the reference answer and the generators move alike *)
Lemma relr_hstep_sim src st o :
  walk_agrees src -> cache_ok src (r_cache st) -> hop_ok false 0 o = true ->
  spec_step (collapse src) (r_gens st) o
  = (r_gens (fst (relr_hstep src st o)), snd (relr_hstep src st o)).
Proof.
  intros Hw Hc Ho. destruct o as [|g|g| |n|]; cbn [relr_hstep spec_step].
  - rewrite (gen_op_ext _ _ _ _ Hw). destruct (gen_op (spec_walk (collapse src)) (r_gens st) HStart); reflexivity.
  - rewrite (gen_op_ext _ _ _ _ Hw). destruct (gen_op (spec_walk (collapse src)) (r_gens st) (HNext g)); reflexivity.
  - rewrite (gen_op_ext _ _ _ _ Hw). destruct (gen_op (spec_walk (collapse src)) (r_gens st) (HClose g)); reflexivity.
  - unfold relr_fill. destruct (r_cache st) as [l|].
    + cbn [cache_ok] in Hc. rewrite Hc. reflexivity.
    + destruct (collapse src); reflexivity.
  - cbn [hop_ok] in Ho. apply andb_prop in Ho. destruct Ho as [Hn _]. apply Z.leb_le in Hn.
    unfold relr_fill. destruct (r_cache st) as [l|].
    + cbn [cache_ok] in Hc. rewrite Hc. cbn [fst snd r_gens]. rewrite py_index_spec by exact Hn. reflexivity.
    + destruct (collapse src) as [l|e]; cbn [fst snd r_gens]; [|reflexivity].
      rewrite py_index_spec by exact Hn. reflexivity.
  - reflexivity.
Qed.

(* a table-level question asked after ANY history (no condition on the history) *)
Definition table_op (o : hop) : bool :=
  match o with HNum | HGet _ | HIter => true | _ => false end.

Lemma spec_step_table {A} (exp : res (list A)) gs gs' o :
  table_op o = true -> snd (spec_step exp gs o) = snd (spec_step exp gs' o).
Proof. destruct o; cbn [table_op]; intros H; try discriminate H; reflexivity. Qed.

Theorem relr_answer_after src h o :
  table_op o = true -> hop_ok false 0 o = true ->
  snd (relr_hstep src (relr_after src relr_new h) o) = snd (spec_step (collapse src) [] o).
Proof.
  intros Ht Ho.
  pose proof (relr_cache_invariant src h relr_new I) as Hc.
  set (st := relr_after src relr_new h) in *.
  destruct o as [|g|g| |n|]; cbn [table_op] in Ht; try discriminate Ht; cbn [relr_hstep spec_step].
  - unfold relr_fill. destruct (r_cache st) as [l|].
    + cbn [cache_ok] in Hc. rewrite Hc. reflexivity.
    + destruct (collapse src); reflexivity.
  - cbn [hop_ok] in Ho. apply andb_prop in Ho. destruct Ho as [Hn _]. apply Z.leb_le in Hn.
    unfold relr_fill. destruct (r_cache st) as [l|].
    + cbn [cache_ok] in Hc. rewrite Hc. cbn [snd]. rewrite py_index_spec by exact Hn. reflexivity.
    + destruct (collapse src) as [l|e]; cbn [snd]; [|reflexivity].
      rewrite py_index_spec by exact Hn. reflexivity.
  - reflexivity.
Qed.

(* whole histories, generators included *)
Lemma relr_hrun_sim src : walk_agrees src -> forall h st,
  cache_ok src (r_cache st) -> forallb (hop_ok false 0) h = true ->
  relr_hrun src st h = spec_run (collapse src) (r_gens st) h.
Proof.
  intros Hw. induction h as [|o h IH]; intros st Hc Hh; [reflexivity|].
  cbn [forallb] in Hh. apply andb_prop in Hh. destruct Hh as [Ho Hh].
  cbn [relr_hrun spec_run].
  rewrite (relr_hstep_sim src st o Hw Hc Ho).
  pose proof (relr_hstep_cache src st o Hc) as Hc'.
  destruct (relr_hstep src st o) as [st' a]. cbn [fst snd] in *.
  rewrite (IH st' Hc' Hh). reflexivity.
Qed.

Theorem relr_history_exact le is64 ws pre tail h l :
  relr_words_wf is64 ws = true ->
  relr_spec is64 ws = Ok l ->
  forallb (hop_ok false 0) h = true ->
  relr_hist le is64 (pre ++ encode_relr le is64 ws ++ tail) (zlen pre) (zlen (encode_relr le is64 ws))
            (wordsize is64) h
  = Ok (spec_hist (Ok l) h).
Proof.
  intros Hwf Hs Hh. unfold relr_hist. rewrite relr_sizeof, Z.eqb_refl. cbn [negb].
  pose proof (relr_source_spec le is64 ws pre tail Hwf) as Hsrc. rewrite Hs in Hsrc.
  rewrite relr_hrun_sim; [| exact (walk_agrees_ok _ _ Hsrc) | exact I | exact Hh].
  rewrite Hsrc. reflexivity.
Qed.

Theorem relr_answers_history_free le is64 ws pre tail h o :
  relr_words_wf is64 ws = true ->
  table_op o = true -> hop_ok false 0 o = true ->
  let src := relr_source le is64 (pre ++ encode_relr le is64 ws ++ tail) (zlen pre)
                         (zlen (encode_relr le is64 ws)) in
  snd (relr_hstep src (relr_after src relr_new h) o) = snd (spec_step (relr_spec is64 ws) [] o).
Proof.
  intros Hwf Ht Ho src. rewrite <- (relr_source_spec le is64 ws pre tail Hwf).
  apply relr_answer_after; assumption.
Qed.

(* ------------------------------------------------------------------ D. REL / RELA objects *)
Section RelHist.
  Variables (le is64 mips rela : bool) (es : list rent) (pre tail : list Z) (slack : Z).
  Hypothesis Hwf : forallb (rent_wf is64 (is64 && mips) rela) es = true.
  Hypothesis Hslack : 0 <= slack < rel_entsize is64 (is64 && mips) rela.

  Let L := rel_struct le is64 mips rela.
  Let img := pre ++ encode_table le is64 (is64 && mips) rela es ++ tail.
  Let size := zlen (encode_table le is64 (is64 && mips) rela es) + slack.
  Let views := map (rent_view is64 (is64 && mips) rela) es.

  Lemma views_nth_error i : (i < length es)%nat ->
    nth_error views i = Some (rent_view is64 (is64 && mips) rela (nth i es (mkRent 0 0 0 0 0 0 0))).
  Proof.
    intros Hi. unfold views. rewrite nth_error_map.
    rewrite (nth_error_nth' es (mkRent 0 0 0 0 0 0 0) Hi). reflexivity.
  Qed.

  Lemma rel_walk_spec i : rel_walk L img (zlen pre) size i = spec_walk (Ok views) i.
  Proof.
    unfold rel_walk, L, size. rewrite num_relocations_exact by assumption.
    cbn [spec_walk].
    destruct (Z.ltb_spec (Z.of_nat i) (zlen es)) as [Hlt|Hge]; unfold zlen in *.
    - assert (Hi : (i < length es)%nat) by lia. fold (zlen pre).
      unfold img. rewrite (get_relocation_exact le is64 mips rela es pre tail i (mkRent 0 0 0 0 0 0 0) Hwf Hi).
      rewrite views_nth_error by exact Hi. reflexivity.
    - assert (Hn : nth_error views i = None).
      { apply nth_error_None. unfold views. rewrite map_length. lia. }
      rewrite Hn. reflexivity.
  Qed.

  Lemma rel_hstep_sim gs o :
    hop_ok true (zlen es) o = true ->
    rel_hstep L img (zlen pre) size gs o = spec_step (Ok views) gs o.
  Proof.
    intros Ho. destruct o as [|g|g| |n|]; cbn [rel_hstep spec_step].
    - apply gen_op_ext. exact rel_walk_spec.
    - apply gen_op_ext. exact rel_walk_spec.
    - apply gen_op_ext. exact rel_walk_spec.
    - unfold L, size. rewrite num_relocations_exact by assumption.
      unfold views, zlen. rewrite map_length. reflexivity.
    - cbn [hop_ok negb orb] in Ho. apply andb_prop in Ho. destruct Ho as [H0 H1].
      apply Z.leb_le in H0. apply Z.ltb_lt in H1.
      assert (Hi : (Z.to_nat n < length es)%nat) by (unfold zlen in H1; lia).
      replace (zlen views) with (zlen es) by (unfold views, zlen; rewrite map_length; reflexivity).
      destruct (Z.leb_spec 0 n) as [_|Hneg]; [|lia].
      destruct (Z.ltb_spec n (zlen es)) as [_|Hge]; [|lia]. cbn [andb].
      rewrite views_nth_error by exact Hi.
      rewrite <- (Z2Nat.id n) at 1 by exact H0.
      unfold L, img.
      rewrite (get_relocation_exact le is64 mips rela es pre tail (Z.to_nat n) (mkRent 0 0 0 0 0 0 0) Hwf Hi).
      reflexivity.
    - unfold L, img, size. rewrite table_roundtrip by assumption. reflexivity.
  Qed.

  Theorem rel_history_exact h :
    forallb (hop_ok true (zlen es)) h = true ->
    rel_hist L img (zlen pre) size h = spec_hist (Ok views) h.
  Proof.
    unfold rel_hist, spec_hist. generalize (@nil gen) as gs.
    induction h as [|o h IH]; intros gs Hh; [reflexivity|].
    cbn [forallb] in Hh. apply andb_prop in Hh. destruct Hh as [Ho Hh].
    cbn [rel_hrun spec_run]. rewrite (rel_hstep_sim gs o Ho).
    destruct (spec_step (Ok views) gs o) as [gs' a]. rewrite (IH gs' Hh). reflexivity.
  Qed.
End RelHist.

(* ------------------------------------------------------------------ E. repeated get_dwarf_info *)
(* the n-th call on one ELFFile object answers as a first call with the same flag would, and
   the file image is what it was: for EVERY image and flag sequence *)
Lemma dwarf_calls_map le is64 em secs section : forall flags st,
  dwarf_calls le is64 em secs section st flags
  = (map (read_dwarf_section le is64 em (eo_stream st) secs section) flags, st).
Proof.
  induction flags as [|f r IH]; intros st; [reflexivity|].
  cbn [dwarf_calls dwarf_call map]. rewrite IH. reflexivity.
Qed.

Theorem dwarf_call_own_flag le is64 em img secs section flags n :
  (n < length flags)%nat ->
  nth n (fst (dwarf_calls le is64 em secs section (mkElfObj img) flags)) (Err EFuel)
  = read_dwarf_section le is64 em img secs section (nth n flags false)
  /\ snd (dwarf_calls le is64 em secs section (mkElfObj img) flags) = mkElfObj img.
Proof.
  intros Hn. rewrite dwarf_calls_map. cbn [fst snd eo_stream]. split; [|reflexivity].
  rewrite (nth_indep _ (Err EFuel) (read_dwarf_section le is64 em img secs section false))
    by (rewrite map_length; exact Hn).
  apply map_nth.
Qed.

(* on an image holding the section, its .rel/.rela table and the symbol table: every call with
   the flag set yields the reference application to the RAW section bytes, every call without
   it the raw bytes, in any order and any number of times *)
Theorem dwarf_calls_exact le is64 em img secs section rs symtab (rela : bool) es syms
        pre tail pre2 tail2 :
  In em listed_machines ->
  find_relocations_for_section secs (s_name section) = Some rs ->
  s_type rs = (if rela then SHT_RELA else SHT_REL) ->
  s_entsize rs = rel_entsize is64 (is64 && is_mips em) rela ->
  nth_error secs (Z.to_nat (s_link rs)) = Some symtab ->
  s_entsize symtab = sym_entsize is64 -> s_size symtab = zlen (encode_symtab le is64 syms) ->
  img = pre ++ encode_table le is64 (is64 && is_mips em) rela es ++ tail ->
  s_off rs = zlen pre -> s_size rs = zlen (encode_table le is64 (is64 && is_mips em) rela es) ->
  img = pre2 ++ encode_symtab le is64 syms ++ tail2 -> s_off symtab = zlen pre2 ->
  forallb (sym_wf is64) syms = true -> snd (nth 0 syms (0, 0)) = 0 ->
  forallb (rent_wf is64 (is64 && is_mips em) rela) es = true ->
  let data := firstn (Z.to_nat (s_size section)) (zskipn (s_off section) img) in
  all_bytes data = true -> zlen data < 2 ^ 63 ->
  forallb (apply_entry_wf is64 em rela (zlen data)) es = true ->
  forall flags,
  dwarf_calls le is64 em secs section (mkElfObj img) flags
  = (map (fun f : bool => if f then spec_apply_all le is64 em rela (map snd syms) data es else Ok data) flags,
     mkElfObj img).
Proof.
  intros H1 H2 H3 H4 H5 H6 H7 H8 H9 H10 H11 H12 H13 H14 H15 data H16 H17 H18 flags.
  rewrite dwarf_calls_map. cbn [eo_stream]. f_equal.
  apply map_ext. intros f. destruct f.
  - exact (read_dwarf_section_exact le is64 em img secs section rs symtab rela es syms pre tail pre2 tail2
             H1 H2 H3 H4 H5 H6 H7 H8 H9 H10 H11 H12 H13 H14 H15 H16 H17 H18).
  - apply no_relocation_when_disabled.
Qed.

(* ------------------------------------------------------------------ F. through .gnu_debuglink *)
(* a stripped file with a valid link: the answer is that of the debug file for the CALLER's flag;
   with the flag off, the debug file's raw section bytes *)
Theorem debuglink_flag_forwarded le is64 em img secs section own flag :
  dwarf_via_debuglink true false true (read_dwarf_section le is64 em img secs section) own flag
  = read_dwarf_section le is64 em img secs section flag
  /\ dwarf_via_debuglink true false true (read_dwarf_section le is64 em img secs section) own false
     = Ok (firstn (Z.to_nat (s_size section)) (zskipn (s_off section) img)).
Proof. split; reflexivity. Qed.
