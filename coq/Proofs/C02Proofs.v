(* Proofs/C02Proofs.v — lemmas behind Props/C02.v: section / segment contents, string
   tables, address mapping.  (Containment: Proofs/C02Containment.v.) *)
From Coq Require Import String.
From PV Require Import Base.Bytes Base.Outcome Base.Prim Base.Fmt Base.Enum
     Gen.ElfLayouts Gen.Tables Spec.ElfGabi Spec.PrimSpec Spec.C02Spec
     Proofs.PrimProofs Proofs.FmtProofs Proofs.ElfLayoutFacts Model.C02Contents.
From Coq Require Import ZifyBool.
Open Scope Z_scope.

(* ------------------------------------------------------------------ BytesIO *)
Lemma zlen_length {A} (l : list A) : Z.to_nat (zlen l) = length l.
Proof. unfold zlen. lia. Qed.

Lemma drop_at_app (pre rest : list Z) : drop_at (pre ++ rest) (zlen pre) = rest.
Proof.
  unfold drop_at. rewrite zlen_app.
  destruct (Z.leb_spec (zlen pre + zlen rest) (zlen pre)) as [H|H].
  - pose proof (zlen_nonneg rest) as Hn. assert (Hz : zlen rest = 0) by lia.
    destruct rest as [|x r]; [reflexivity|]. rewrite zlen_cons in Hz.
    pose proof (zlen_nonneg r). lia.
  - rewrite zlen_length, skipn_app, skipn_all, Nat.sub_diag. reflexivity.
Qed.

Lemma read_at_exact (pre body tail : list Z) :
  read_at (pre ++ body ++ tail) (zlen pre) (zlen body) = body.
Proof.
  unfold read_at. rewrite drop_at_app.
  pose proof (zlen_nonneg body) as Hb. pose proof (zlen_nonneg tail) as Ht.
  destruct (Z.ltb_spec (zlen body) 0) as [H|H]; [lia|].
  rewrite zlen_app. rewrite Z.min_l by lia. rewrite zlen_length.
  rewrite firstn_app, firstn_all, Nat.sub_diag. cbn [firstn]. apply app_nil_r.
Qed.

(* reading more than is there stops at the end of the file *)
Lemma read_at_short (pre rest : list Z) n :
  zlen rest <= n -> read_at (pre ++ rest) (zlen pre) n = rest.
Proof.
  intros Hn. unfold read_at. rewrite drop_at_app. pose proof (zlen_nonneg rest) as Hr.
  destruct (Z.ltb_spec n 0) as [H|H]; [lia|].
  rewrite Z.min_r by lia. rewrite zlen_length. apply firstn_all.
Qed.

(* ------------------------------------------------------------------ tables from Gen *)
Lemma gen_sh_flags : (F_ALLOC, F_TLS, F_COMPRESSED) = (SHF_ALLOC, SHF_TLS, SHF_COMPRESSED).
Proof. reflexivity. Qed.

Lemma dict_get_in (T : list (Z * string)) v n : dict_get T v = Some n -> In (v, n) T.
Proof.
  induction T as [|[k m] r IH]; cbn [dict_get]; [discriminate|].
  destruct (Z.eqb_spec k v) as [E|E]; intros H.
  - inversion H; subst. left. reflexivity.
  - right. apply IH. exact H.
Qed.

Lemma is_name_dec T n c v :
  name_code_ok T n c = true -> is_name (dec_enum T v) n = (v =? c).
Proof.
  unfold name_code_ok. rewrite andb_true_iff. intros [Hc Hall].
  rewrite forallb_forall in Hall. unfold dec_enum.
  destruct (Z.eqb_spec v c) as [E|E].
  - subst v. destruct (dict_get T c) as [m|]; [exact Hc|discriminate].
  - destruct (dict_get T v) as [m|] eqn:Eg; cbn [is_name]; [|reflexivity].
    specialize (Hall (v, m) (dict_get_in T v m Eg)). cbn [fst snd] in Hall.
    destruct (String.eqb m n); [|reflexivity].
    cbn [implb] in Hall. apply Z.eqb_eq in Hall. contradiction.
Qed.

Lemma raw_between_dec T lo hi v :
  no_key_between T lo hi = true ->
  raw_between (dec_enum T v) lo hi = (lo <=? v) && (v <=? hi).
Proof.
  unfold no_key_between. rewrite forallb_forall. intros Hall. unfold dec_enum.
  destruct (dict_get T v) as [m|] eqn:Eg; cbn [raw_between]; [|reflexivity].
  specialize (Hall (v, m) (dict_get_in T v m Eg)). cbn [fst] in Hall.
  destruct ((lo <=? v) && (v <=? hi)); [discriminate|reflexivity].
Qed.

(* every table ELFStructs can select (per e_machine) has these facts — finite, by computation *)
Lemma gen_sh_type_tables_ok :
  forallb (fun mt => sh_type_table_ok (enum_table (snd mt))) gen_sh_type_table_of_machine = true.
Proof. vm_compute. reflexivity. Qed.
Lemma gen_p_type_tables_ok :
  forallb (fun mt => p_type_table_ok (enum_table (snd mt))) gen_p_type_table_of_machine = true.
Proof. vm_compute. reflexivity. Qed.
Lemma gen_ch_type_table_ok : forall is64,
  name_code_ok (ch_type_table is64) "ELFCOMPRESS_ZLIB" ELFCOMPRESS_ZLIB = true.
Proof. intros [|]; vm_compute; reflexivity. Qed.

Lemma machine_table_in (m : list (string * string)) (P : list (Z * string) -> bool) machine :
  forallb (fun mt => P (enum_table (snd mt))) m = true ->
  In machine (map fst m) -> P (machine_table m machine) = true.
Proof.
  unfold machine_table. induction m as [|[k id] r IH]; cbn [forallb map In find fst snd]; intros H Hin.
  - destruct Hin.
  - apply andb_prop in H. destruct H as [H1 H2].
    destruct (String.eqb_spec k machine) as [E|E]; [exact H1|].
    destruct Hin as [Hk|Hin]; [contradiction|]. apply IH; assumption.
Qed.

Lemma sh_type_table_machine_ok machine :
  In machine (map fst gen_sh_type_table_of_machine) -> sh_type_table_ok (sh_type_table machine) = true.
Proof. apply machine_table_in. exact gen_sh_type_tables_ok. Qed.
Lemma p_type_table_machine_ok machine :
  In machine (map fst gen_p_type_table_of_machine) -> p_type_table_ok (p_type_table machine) = true.
Proof. apply machine_table_in. exact gen_p_type_tables_ok. Qed.

Lemma chdr_sizeof_spec le is64 : chdr_sizeof le is64 = chdr_size is64.
Proof. destruct le, is64; reflexivity. Qed.

(* ------------------------------------------------------------------ plain and no-bits sections *)
Definition plain_flags (flags : Z) : Prop := Z.land flags SHF_COMPRESSED = 0.

Lemma section_init_plain stream le is64 h :
  plain_flags (h_flags h) ->
  section_init stream le is64 h = Ok (mk_section h 0 (Raw 0) (h_size h) (h_addralign h)).
Proof.
  unfold plain_flags, section_init. change F_COMPRESSED with SHF_COMPRESSED.
  intros ->. reflexivity.
Qed.

Section with_zlib.
Variable inflate : list Z -> Z -> option (list Z * bool).
(* [zvalid z p]: z is a complete zlib stream whose payload is p *)
Variable zvalid : list Z -> list Z -> Prop.
(* decompress(z) returns the whole payload and reaches the end of the stream *)
Hypothesis inflate_all : forall z p, zvalid z p -> inflate z 0 = Some (p, true).
(* max_length = n > 0 caps the output at n bytes: the result is the prefix of the payload,
   and the end of the stream is reached exactly when nothing was cut off *)
Hypothesis inflate_prefix : forall z p n, zvalid z p -> 0 < n ->
  inflate z n = Some (firstn (Z.to_nat n) p, zlen p <=? n).

(* a section that is neither SHT_NOBITS nor SHF_COMPRESSED: exactly the file bytes of its extent *)
Theorem data_plain : forall T sht flags addr align le is64 pre body tail,
  sh_type_table_ok T = true -> sht <> SHT_NOBITS -> plain_flags flags ->
  let h := mk_sheader (dec_enum T sht) flags addr (zlen pre) (zlen body) align in
  exists s, section_init (pre ++ body ++ tail) le is64 h = Ok s /\
            compressed s = 0 /\ data_size s = zlen body /\ data_alignment s = align /\
            section_data inflate (pre ++ body ++ tail) le is64 s = Ok body.
Proof.
  intros T sht flags addr align le is64 pre body tail HT Hsht Hfl h.
  eexists. split; [apply section_init_plain; exact Hfl|].
  repeat split. unfold section_data. cbn [s_header h_type h compressed s_compressed].
  rewrite (is_name_dec T "SHT_NOBITS" SHT_NOBITS) by exact HT.
  destruct (Z.eqb_spec sht SHT_NOBITS) as [E|E]; [contradiction|].
  cbn [Z.eqb negb s_decompressed_size h_offset]. rewrite read_at_exact. reflexivity.
Qed.

(* SHT_NOBITS: a zero block of the declared size, whatever the file holds *)
Theorem data_nobits : forall T flags addr off size align le is64 stream,
  sh_type_table_ok T = true -> plain_flags flags ->
  let h := mk_sheader (dec_enum T SHT_NOBITS) flags addr off size align in
  exists s, section_init stream le is64 h = Ok s /\
            compressed s = 0 /\ data_size s = size /\ data_alignment s = align /\
            section_data inflate stream le is64 s = Ok (nobits_data size).
Proof.
  intros T flags addr off size align le is64 stream HT Hfl h.
  eexists. split; [apply section_init_plain; exact Hfl|].
  repeat split. unfold section_data. cbn [s_header h_type h].
  rewrite (is_name_dec T "SHT_NOBITS" SHT_NOBITS) by exact HT. rewrite Z.eqb_refl. reflexivity.
Qed.

(* ------------------------------------------------------------------ compressed sections *)
Lemma chdr_decode le is64 ty res sz al rest :
  chdr_fits le is64 ty res sz al = true ->
  decode_layout (gen_Elf_Chdr le is64) (enc_chdr le is64 ty res sz al ++ rest) =
  Some (annot_layout (spec_Elf_Chdr le is64) (chdr_vals is64 ty res sz al), rest).
Proof.
  intros Hf. rewrite gen_Elf_Chdr_gabi. apply decode_encode_layout. exact Hf.
Qed.

Lemma chdr_fields le is64 ty res sz al :
  let r := annot_layout (spec_Elf_Chdr le is64) (chdr_vals is64 ty res sz al) in
  rec_z r "ch_type" = ty /\ rec_z r "ch_size" = sz /\ rec_z r "ch_addralign" = al.
Proof. destruct le, is64; cbn; auto. Qed.

Lemma enc_chdr_length le is64 ty res sz al :
  chdr_fits le is64 ty res sz al = true -> zlen (enc_chdr le is64 ty res sz al) = chdr_size is64.
Proof.
  intros Hf. unfold zlen, enc_chdr, encode_layout.
  rewrite (encode_fields_length _ [] _ (if is64 then 24 else 12)%nat).
  - destruct is64; reflexivity.
  - exact Hf.
  - rewrite size_Chdr. reflexivity.
Qed.

Lemma chdr_fits_size le is64 ty res sz al : chdr_fits le is64 ty res sz al = true -> 0 <= sz.
Proof.
  unfold chdr_fits, fits_layout.
  destruct le, is64;
    cbn [spec_Elf_Chdr chdr_vals fits_fields nvals firstn skipn fits_kind length Nat.eqb annot_kind rev app];
    unfold in_urange; rewrite !andb_true_iff; intros H; lia.
Qed.

Definition compressed_flags (flags : Z) : Prop := Z.land flags SHF_COMPRESSED <> 0.

(* what Section.__init__ learns from the compression header of the file's class *)
Lemma section_init_compressed le is64 T sht flags addr size align pre ty res sz al rest :
  compressed_flags flags -> chdr_fits le is64 ty res sz al = true ->
  let h := mk_sheader (dec_enum T sht) flags addr (zlen pre) size align in
  section_init (pre ++ enc_chdr le is64 ty res sz al ++ rest) le is64 h =
  Ok (mk_section h (Z.land flags SHF_COMPRESSED) (dec_enum (ch_type_table is64) ty) sz al).
Proof.
  intros Hfl Hf h. unfold section_init. change F_COMPRESSED with SHF_COMPRESSED.
  cbn [h_flags h h_offset]. unfold compressed_flags in Hfl.
  destruct (Z.eqb_spec (Z.land flags SHF_COMPRESSED) 0) as [E|E]; [contradiction|]. cbn [negb].
  unfold struct_parse_at. rewrite drop_at_app, chdr_decode by exact Hf. cbn [bind].
  destruct (chdr_fields le is64 ty res sz al) as (H1 & H2 & H3). rewrite H1, H2, H3. reflexivity.
Qed.

(* SHF_COMPRESSED, declared size = inflated size: the fully inflated payload, logical size and
   alignment from the compression header of the right class; any byte order, any reserved word,
   any zlib stream of the payload, anything before and after the section in the file *)
Theorem data_compressed : forall T sht flags addr align le is64 pre res al z p tail,
  sh_type_table_ok T = true -> sht <> SHT_NOBITS -> compressed_flags flags ->
  zvalid z p -> chdr_fits le is64 ELFCOMPRESS_ZLIB res (zlen p) al = true ->
  let body := compressed_section le is64 res (zlen p) al z in
  let h := mk_sheader (dec_enum T sht) flags addr (zlen pre) (zlen body) align in
  exists s, section_init (pre ++ body ++ tail) le is64 h = Ok s /\
            compressed s <> 0 /\ data_size s = zlen p /\ data_alignment s = al /\
            section_data inflate (pre ++ body ++ tail) le is64 s = Ok p.
Proof.
  intros T sht flags addr align le is64 pre res al z p tail HT Hsht Hfl Hz Hf body h.
  unfold body, compressed_section in *. rewrite <- !app_assoc.
  eexists. split; [apply section_init_compressed; assumption|].
  split; [exact Hfl|]. split; [reflexivity|]. split; [reflexivity|].
  unfold section_data. cbn [s_header h_type h compressed s_compressed s_compression_type
                            data_size s_decompressed_size h_offset h_size].
  rewrite (is_name_dec T "SHT_NOBITS" SHT_NOBITS) by exact HT.
  destruct (Z.eqb_spec sht SHT_NOBITS) as [E|E]; [contradiction|].
  destruct (Z.eqb_spec (Z.land flags SHF_COMPRESSED) 0) as [E2|E2]; [contradiction|]. cbn [negb].
  rewrite (is_name_dec _ "ELFCOMPRESS_ZLIB" ELFCOMPRESS_ZLIB) by apply gen_ch_type_table_ok. rewrite Z.eqb_refl.
  rewrite chdr_sizeof_spec, zlen_app, enc_chdr_length by exact Hf.
  replace (chdr_size is64 + zlen z - chdr_size is64) with (zlen z) by lia.
  rewrite <- (enc_chdr_length le is64 ELFCOMPRESS_ZLIB res (zlen p) al Hf) at 1.
  rewrite <- zlen_app, app_assoc, read_at_exact.
  pose proof (zlen_nonneg p) as Hp.
  destruct (Z.eq_dec (zlen p) 0) as [E0|E0].
  - rewrite E0, (inflate_all z p Hz). cbn [negb]. rewrite E0. reflexivity.
  - rewrite (inflate_prefix z p (zlen p) Hz) by lia.
    rewrite Z.leb_refl. cbn [negb]. rewrite zlen_length, firstn_all, Z.eqb_refl. reflexivity.
Qed.

(* a declared size that disagrees with the inflated size is rejected (ELFCompressionError),
   smaller or larger *)
Theorem data_compressed_size_mismatch_rejected :
  forall T sht flags addr align le is64 pre res declared al z p tail,
  sh_type_table_ok T = true -> sht <> SHT_NOBITS -> compressed_flags flags ->
  zvalid z p -> chdr_fits le is64 ELFCOMPRESS_ZLIB res declared al = true ->
  declared <> zlen p ->
  let body := compressed_section le is64 res declared al z in
  let h := mk_sheader (dec_enum T sht) flags addr (zlen pre) (zlen body) align in
  exists s, section_init (pre ++ body ++ tail) le is64 h = Ok s /\
            data_size s = declared /\
            section_data inflate (pre ++ body ++ tail) le is64 s = Err ECompress.
Proof.
  intros T sht flags addr align le is64 pre res declared al z p tail HT Hsht Hfl Hz Hf Hne body h.
  unfold body, compressed_section in *. rewrite <- !app_assoc.
  eexists. split; [apply section_init_compressed; assumption|]. split; [reflexivity|].
  unfold section_data. cbn [s_header h_type h compressed s_compressed s_compression_type
                            data_size s_decompressed_size h_offset h_size].
  rewrite (is_name_dec T "SHT_NOBITS" SHT_NOBITS) by exact HT.
  destruct (Z.eqb_spec sht SHT_NOBITS) as [E|E]; [contradiction|].
  destruct (Z.eqb_spec (Z.land flags SHF_COMPRESSED) 0) as [E2|E2]; [contradiction|]. cbn [negb].
  rewrite (is_name_dec _ "ELFCOMPRESS_ZLIB" ELFCOMPRESS_ZLIB) by apply gen_ch_type_table_ok. rewrite Z.eqb_refl.
  rewrite chdr_sizeof_spec, zlen_app, enc_chdr_length by exact Hf.
  replace (chdr_size is64 + zlen z - chdr_size is64) with (zlen z) by lia.
  rewrite <- (enc_chdr_length le is64 ELFCOMPRESS_ZLIB res declared al Hf) at 1.
  rewrite <- zlen_app, app_assoc, read_at_exact.
  pose proof (zlen_nonneg p) as Hp.
  pose proof (chdr_fits_size _ _ _ _ _ _ Hf) as Hd.
  destruct (Z.eq_dec declared 0) as [E0|E0].
  - subst declared. rewrite (inflate_all z p Hz). cbn [negb].
    destruct (Z.eqb_spec (zlen p) 0) as [E3|E3]; [congruence|reflexivity].
  - rewrite (inflate_prefix z p declared Hz) by lia.
    destruct (Z.leb_spec (zlen p) declared) as [Hle|Hgt]; cbn [negb]; [|reflexivity].
    rewrite firstn_all2 by (unfold zlen in *; lia).
    destruct (Z.eqb_spec (zlen p) declared) as [E3|E3]; [congruence|reflexivity].
Qed.
End with_zlib.

(* ------------------------------------------------------------------ segments *)
Theorem segment_data_exact : forall pre body tail,
  segment_data (pre ++ body ++ tail) (zlen pre) (zlen body) = body.
Proof. intros. apply read_at_exact. Qed.

Theorem interp_name_exact : forall pre s tail,
  no_nul s = true -> get_interp_name (pre ++ s ++ 0 :: tail) (zlen pre) = Ok s.
Proof.
  intros pre s tail Hs. unfold get_interp_name. rewrite drop_at_app.
  change (s ++ 0 :: tail)%list with (s ++ [0] ++ tail)%list. rewrite app_assoc.
  change (s ++ [0])%list with (cstring_encode s).
  rewrite cstring_decode_valid by exact Hs. reflexivity.
Qed.

(* ------------------------------------------------------------------ string tables *)
(* the table sits anywhere in the file; the string starts anywhere in the table; any length *)
Theorem get_string_any_length : forall filepre tbl filepost off s,
  strtab_at tbl off s -> get_string (filepre ++ tbl ++ filepost) (zlen filepre) off = s.
Proof.
  intros filepre tbl filepost off s (before & after & Htbl & Hoff & Hs). subst tbl off.
  unfold get_string. rewrite <- zlen_app.
  replace ((filepre ++ (before ++ s ++ 0 :: after) ++ filepost))%list
    with ((filepre ++ before) ++ s ++ 0 :: (after ++ filepost))%list
    by (rewrite <- !app_assoc; cbn [app]; reflexivity).
  set (pre := (filepre ++ before)%list).
  destruct (Z.leb_spec (zlen (pre ++ s ++ 0 :: after ++ filepost)) (zlen pre)) as [H|H].
  - rewrite !zlen_app, zlen_cons in H. pose proof (zlen_nonneg s). pose proof (zlen_nonneg (after ++ filepost)). lia.
  - rewrite zlen_length, parse_cstring_at_valid by exact Hs. reflexivity.
Qed.

Lemma upto_nul_app s rest : no_nul s = true -> upto_nul (s ++ 0 :: rest) = Some s.
Proof.
  induction s as [|b s IH]; intros H; [reflexivity|].
  apply no_nul_cons in H. destruct H as [Hb Hs]. cbn [app upto_nul].
  destruct (Z.eqb_spec b 0); [contradiction|]. rewrite IH by exact Hs. reflexivity.
Qed.

(* the executable reading used by the driver agrees with strtab_at *)
Lemma string_at_strtab filepre tbl filepost off s :
  strtab_at tbl off s -> string_at (filepre ++ tbl ++ filepost) (zlen filepre + off) = Some s.
Proof.
  intros (before & after & Htbl & Hoff & Hs). subst tbl off. unfold string_at.
  rewrite <- zlen_app.
  replace ((filepre ++ (before ++ s ++ 0 :: after) ++ filepost))%list
    with ((filepre ++ before) ++ s ++ 0 :: (after ++ filepost))%list
    by (rewrite <- !app_assoc; cbn [app]; reflexivity).
  set (pre := (filepre ++ before)%list).
  rewrite !zlen_app, zlen_cons.
  pose proof (zlen_nonneg pre). pose proof (zlen_nonneg s). pose proof (zlen_nonneg (after ++ filepost)).
  destruct (Z.leb_spec 0 (zlen pre)); [|lia].
  destruct (Z.ltb_spec (zlen pre) (zlen pre + (zlen s + (1 + zlen (after ++ filepost))))); [|lia].
  cbn [andb]. rewrite zlen_length, skipn_app, skipn_all, Nat.sub_diag. cbn [skipn app].
  apply upto_nul_app. exact Hs.
Qed.

(* ------------------------------------------------------------------ address mapping *)
Lemma phdr_decode le is64 h rest :
  phdr_fits le is64 h = true ->
  decode_layout (gen_Elf_Phdr le is64) (enc_phdr le is64 h ++ rest) =
  Some (annot_layout (spec_Elf_Phdr le is64) (phdr_vals is64 h), rest).
Proof. intros Hf. rewrite gen_Elf_Phdr_gabi. apply decode_encode_layout. exact Hf. Qed.

Lemma phdr_fields le is64 h :
  let r := annot_layout (spec_Elf_Phdr le is64) (phdr_vals is64 h) in
  rec_z r "p_type" = p_type h /\ rec_z r "p_offset" = p_offset h /\
  rec_z r "p_vaddr" = p_vaddr h /\ rec_z r "p_filesz" = p_filesz h /\ rec_z r "p_memsz" = p_memsz h.
Proof. destruct le, is64; cbn; auto. Qed.

Lemma bytes_eqb_eq a b : bytes_eqb a b = true -> a = b.
Proof. unfold bytes_eqb. destruct (list_eq_dec Z.eq_dec a b); [auto|discriminate]. Qed.

Lemma address_offsets_from_exact stream le is64 T start size phentsize : forall phs phoff i base,
  p_type_table_ok T = true ->
  forallb (phdr_fits le is64) phs = true ->
  phdrs_at le is64 stream base phentsize phs = true ->
  base = phoff + i * phentsize ->
  address_offsets_from stream le is64 T phoff phentsize start size (length phs) i =
  Ok (addr_map phs start size).
Proof.
  induction phs as [|h r IH]; intros phoff i base HT Hfits Hat Hbase; [reflexivity|].
  cbn [forallb] in Hfits. apply andb_prop in Hfits. destruct Hfits as [Hf Hfr].
  cbn [phdrs_at] in Hat. rewrite !andb_true_iff in Hat. destruct Hat as [[[H0 Hlt] Heq] Hrest].
  apply bytes_eqb_eq in Heq.
  cbn [length address_offsets_from]. rewrite <- Hbase.
  unfold struct_parse_at, drop_at.
  destruct (Z.leb_spec (zlen stream) base) as [Hb|Hb]; [lia|].
  rewrite <- (firstn_skipn (length (enc_phdr le is64 h)) (skipn (Z.to_nat base) stream)), Heq.
  rewrite phdr_decode by exact Hf. cbn [bind].
  rewrite (IH phoff (i + 1) (base + phentsize)); [|assumption|assumption|assumption|lia].
  cbn [bind].
  destruct (phdr_fields le is64 h) as (H1 & H2 & H3 & H4 & H5). rewrite H1, H2, H3, H4.
  unfold p_type_table_ok in HT. rewrite !andb_true_iff in HT.
  destruct HT as [[[[[[[[HL _] _] _] _] _] _] _] _].
  rewrite (is_name_dec T "PT_LOAD" PT_LOAD) by exact HL.
  unfold addr_map. cbn [filter]. unfold seg_contains.
  destruct ((p_type h =? PT_LOAD) && (p_vaddr h <=? start) && (start + size <=? p_vaddr h + p_filesz h));
    reflexivity.
Qed.

(* the offsets yielded are exactly those of the PT_LOAD segments wholly containing the range,
   in program-header order, for any table position and entry size *)
Theorem address_offsets_exact : forall stream le is64 T phoff phentsize phs start size,
  p_type_table_ok T = true ->
  forallb (phdr_fits le is64) phs = true ->
  phdrs_at le is64 stream phoff phentsize phs = true ->
  address_offsets stream le is64 T phoff phentsize (zlen phs) start size = Ok (addr_map phs start size).
Proof.
  intros stream le is64 T phoff phentsize phs start size HT Hf Hat.
  unfold address_offsets. rewrite zlen_length.
  apply (address_offsets_from_exact stream le is64 T start size phentsize phs phoff 0 phoff); auto. lia.
Qed.
