(* Proofs/PyFunsC02.v — the body of Segment.section_in_segment as TRANSLATED from the live source
   (Gen/PyFuns.v, tools/gen/pyast.py) equals the hand model of Model/C02Contents.v, for all header
   values; hence the strict-containment theorem holds of the translated code itself.
   The proof is propositional over the comparison atoms (decision-tree walk), so it survives
   reorderings of the checks and of the operands of and/or in the Python source. *)
From Coq Require Import String ZArith List Bool Lia.
From PV Require Import Base.Bytes Base.Enum Gen.PyFuns Spec.C02Spec Model.C02Contents Proofs.C02Containment.
Open Scope Z_scope.

Ltac head_var e := match e with
  | andb ?a _ => head_var a | orb ?a _ => head_var a | negb ?a => head_var a
  | (if ?a then _ else _) => head_var a
  | _ => e end.
Ltac bstep := match goal with
  | |- ?l = ?r => let v := head_var l in is_var v; destruct v; cbn [andb orb negb]
  | |- ?l = ?r => let v := head_var r in is_var v; destruct v; cbn [andb orb negb]
  end.
Ltac abstract_atoms := repeat match goal with
  | |- context[String.eqb ?a ?b] => generalize (String.eqb a b); intro
  | |- context[Z.eqb ?a ?b] => generalize (Z.eqb a b); intro
  | |- context[Z.leb ?a ?b] => generalize (Z.leb a b); intro
  end.

Lemma gen_section_in_segment_is_model : forall pt po pv pf pm st sf sa so ss al,
  gen_section_in_segment pf pm po pt pv sa sf so ss st
  = section_in_segment (mk_pheader pt po pv pf pm) (mk_sheader st sf sa so ss al).
Proof.
  intros. unfold gen_section_in_segment, section_in_segment.
  cbn [g_type g_offset g_vaddr g_filesz g_memsz h_type h_flags h_addr h_offset h_size].
  change F_ALLOC with 2. change F_TLS with 1024.
  change PT_GNU_SFRAME_raw with 1685382484. change PT_GNU_MBIND_HI_raw with 1685386580.
  cbv beta zeta.
  rewrite ?Z.geb_leb, ?Z.gtb_ltb, ?Z.ltb_antisym.
  unfold raw_between, enum_is_raw, enum_raw, is_name, enum_is_name.
  destruct pt as [n|v|]; destruct st as [m|w|]; abstract_atoms; cbn [andb orb negb];
  repeat (try reflexivity; bstep); reflexivity.
Qed.

Theorem gen_section_in_segment_strict_exact : forall Tp Ts (s : shdr) (g : phdr),
  p_type_table_ok Tp = true -> sh_type_table_ok Ts = true ->
  sis_domain s g = true ->
  gen_section_in_segment (p_filesz g) (p_memsz g) (p_offset g) (dec_enum Tp (p_type g)) (p_vaddr g)
                         (sh_addr s) (sh_flags s) (sh_offset s) (sh_size s) (dec_enum Ts (sh_type s))
  = section_in_segment_strict s g.
Proof.
  intros Tp Ts s g HTp HTs Hd.
  rewrite (gen_section_in_segment_is_model _ _ _ _ _ _ _ _ _ _ 1).
  exact (section_in_segment_strict_exact Tp Ts s g 1 HTp HTs Hd).
Qed.
