(* Proofs/C01Iter.v — C01, part 4: program headers, the two enumerations with their type
   filter, and the lookups by name. *)
From Coq Require Import String.
From PV Require Import Base.Bytes Base.Outcome Base.Prim Base.Fmt Base.Enum Base.PyData.
From PV Require Import Proofs.FmtProofs Proofs.PrimProofs Proofs.ElfLayoutFacts.
From PV Require Import Gen.ElfLayouts Gen.Tables Gen.PyFuns.
From PV Require Import Spec.PrimSpec Spec.ElfGabi Spec.C01Obs Spec.C01Image Model.C01ElfFile.
From PV Require Import Proofs.C01Lemmas Proofs.C01Records Proofs.C01Open Proofs.C01Sections.
From Coq Require Import ZifyBool.
Ltac Zify.zify_post_hook ::= Z.to_euclidean_division_equations.
Open Scope string_scope.
Open Scope list_scope.
Open Scope Z_scope.

Lemma nth_seg_inv s j p : nth_seg s j = Some p ->
  0 <= j < n_segments s /\ nth_error (i_segments s) (Z.to_nat j) = Some p.
Proof.
  unfold nth_seg. destruct (Z.leb_spec 0 j) as [H0|H0]; destruct (Z.ltb_spec j (n_segments s)) as [H1|H1];
    cbn [andb]; intros H; try discriminate. split; [lia|exact H].
Qed.
Lemma nth_seg_some s j : 0 <= j < n_segments s -> exists p, nth_seg s j = Some p.
Proof.
  intros H. unfold nth_seg. destruct (Z.leb_spec 0 j) as [H0|H0]; [|lia].
  destruct (Z.ltb_spec j (n_segments s)) as [H1|H1]; [|lia]. cbn [andb].
  destruct (nth_error (i_segments s) (Z.to_nat j)) as [p|] eqn:E; [exists p; reflexivity|].
  apply nth_error_None in E. unfold n_segments, zlen in H. lia.
Qed.

(* ------------------------------------------------------------------ generic loop facts *)
Lemma filter_map_comm {A B} (f : A -> B) (p : B -> bool) l :
  filter p (map f l) = map f (filter (fun x => p (f x)) l).
Proof.
  induction l as [|x l IH]; [reflexivity|]. cbn [map filter].
  destruct (p (f x)); cbn [map]; rewrite IH; reflexivity.
Qed.

Lemma for_range_ok {B} c n (f : Z -> res B) (g : Z -> B) :
  0 <= n <= stream_len c + 1 -> (forall i, 0 <= i < n -> f i = Ok (g i)) ->
  for_range c n f = Ok (map g (range (Z.to_nat n))).
Proof.
  intros Hn Hf. unfold for_range, loop_bound.
  replace (Z.min n (stream_len c + 1)) with n by lia.
  rewrite (mapM_ok f g).
  - cbn [bind]. destruct (Z.ltb_spec (Z.of_nat (Z.to_nat n)) n) as [E|_]; [lia|reflexivity].
  - intros i Hi. apply range_in in Hi. apply Hf. lia.
Qed.

(* the dispatch table: only SHT_DYNAMIC gives a DynamicSection *)
Lemma kind_table_dynamic t e :
  assoc_str kind_table t = Some e -> fst e = "DynamicSection" -> snd e = RDynamic.
Proof.
  unfold kind_table. cbn [assoc_str].
  repeat (match goal with |- context [if ?b then _ else _] => destruct b end;
          [intros E; inversion E; subst e; cbn [fst snd]; intros H; first [discriminate H|reflexivity]|]).
  discriminate.
Qed.
Lemma kind_dynamic ty nm : spec_kind ty nm = "DynamicSection" -> snd (kind_entry ty nm) = RDynamic.
Proof.
  unfold spec_kind, kind_entry. destruct ty as [z|bs|zs|t]; try (cbn [fst]; discriminate).
  destruct ((t =? "SHT_PROGBITS")%string && bytes_eqb nm STAB_NAME); [cbn [fst]; discriminate|].
  destruct (assoc_str kind_table t) as [e|] eqn:E; [|cbn [fst]; discriminate].
  apply kind_table_dynamic with (t := t). exact E.
Qed.

(* ------------------------------------------------------------------ dict facts *)
Lemma bytes_eqb_sym a b : bytes_eqb a b = bytes_eqb b a.
Proof.
  destruct (bytes_eqb a b) eqn:E1; destruct (bytes_eqb b a) eqn:E2; try reflexivity.
  - apply bytes_eqb_eq in E1. subst b. rewrite (proj2 (bytes_eqb_eq a a) eq_refl) in E2. discriminate.
  - apply bytes_eqb_eq in E2. subst b. rewrite (proj2 (bytes_eqb_eq a a) eq_refl) in E1. discriminate.
Qed.

Lemma pydict_get_app {V} (a b : dict (list Z) V) k :
  PyData.dict_get bytes_eqb (a ++ b) k =
  match PyData.dict_get bytes_eqb a k with Some v => Some v | None => PyData.dict_get bytes_eqb b k end.
Proof.
  induction a as [|[ka va] a IH]; cbn [app PyData.dict_get]; [reflexivity|].
  destruct (bytes_eqb k ka); [reflexivity|exact IH].
Qed.

Lemma memb_keys_get {V} (d : dict (list Z) V) k :
  memb bytes_eqb k (dict_keys d) =
  match PyData.dict_get bytes_eqb d k with Some _ => true | None => false end.
Proof.
  unfold memb, dict_keys. induction d as [|[k' v] d IH]; [reflexivity|].
  cbn [map fst existsb PyData.dict_get]. destruct (bytes_eqb k k'); [reflexivity|exact IH].
Qed.

(* the name map built by enumeration keeps, for each name, the LAST index bearing it *)
Lemma name_map_get (sec : list Z * shdr_spec -> sect) name :
  (forall x, s_name (sec x) = fst x) ->
  forall l i0,
  assoc_last bytes_eqb (map (fun p => (s_name (snd p), fst p)) (enumerate_from i0 (map sec l))) name
  = index_of_last name i0 l.
Proof.
  intros Hsec. unfold assoc_last. induction l as [|x l IH]; intros i0; [reflexivity|].
  cbn [map enumerate_from rev fst snd index_of_last]. rewrite pydict_get_app, IH.
  destruct (index_of_last name (i0 + 1) l); [reflexivity|].
  cbn [PyData.dict_get]. rewrite Hsec, bytes_eqb_sym. reflexivity.
Qed.

Lemma index_of_last_some name : forall l i0 j,
  index_of_last name i0 l = Some j ->
  i0 <= j < i0 + zlen l /\
  (exists x, nth_error l (Z.to_nat (j - i0)) = Some x /\ fst x = name) /\
  (forall k x', nth_error l k = Some x' -> fst x' = name -> i0 + Z.of_nat k <= j).
Proof.
  induction l as [|x l IH]; intros i0 j H; [discriminate|].
  cbn [index_of_last] in H. rewrite zlen_cons.
  destruct (index_of_last name (i0 + 1) l) as [j'|] eqn:E.
  - inversion H; subst j'. destruct (IH _ _ E) as (Hr & (y & Hy & Hn) & Hmax).
    split; [lia|]. split.
    + exists y. split; [|exact Hn].
      replace (Z.to_nat (j - i0)) with (S (Z.to_nat (j - (i0 + 1)))) by lia. exact Hy.
    + intros k x' Hk Hx'. destruct k as [|k]; [lia|]. cbn [nth_error] in Hk.
      specialize (Hmax k x' Hk Hx'). lia.
  - destruct (bytes_eqb (fst x) name) eqn:Eb; [|discriminate]. inversion H; subst j.
    apply bytes_eqb_eq in Eb. pose proof (zlen_nonneg l). split; [lia|]. split.
    + exists x. rewrite Z.sub_diag. split; [reflexivity|exact Eb].
    + intros k x' Hk Hx'. destruct k as [|k]; [lia|]. cbn [nth_error] in Hk. exfalso.
      clear -E Hk Hx'. revert i0 k E Hk. induction l as [|y l IHl]; intros i0 k E Hk; [destruct k; discriminate|].
      cbn [index_of_last] in E. destruct (index_of_last name (i0 + 1 + 1) l) eqn:E'; [discriminate|].
      destruct k as [|k]; cbn [nth_error] in Hk.
      * inversion Hk; subst y. rewrite (proj2 (bytes_eqb_eq _ _) Hx') in E. discriminate.
      * exact (IHl _ _ E' Hk).
Qed.

Lemma index_of_last_none name : forall l i0,
  index_of_last name i0 l = None <-> (forall x, In x l -> fst x <> name).
Proof.
  induction l as [|x l IH]; intros i0.
  - split; [intros _ x []|reflexivity].
  - cbn [index_of_last]. split.
    + intros H. destruct (index_of_last name (i0 + 1) l) eqn:E; [discriminate|].
      destruct (bytes_eqb (fst x) name) eqn:Eb; [discriminate|].
      intros y [<-|Hy].
      * intros Hn. rewrite (proj2 (bytes_eqb_eq _ _) Hn) in Eb. discriminate.
      * exact (proj1 (IH _) E y Hy).
    + intros H. rewrite (proj2 (IH (i0 + 1)) (fun y Hy => H y (or_intror Hy))).
      destruct (bytes_eqb (fst x) name) eqn:Eb; [|reflexivity].
      apply bytes_eqb_eq in Eb. exfalso. exact (H x (or_introl eq_refl) Eb).
Qed.

Definition dummy_sect : sect := {| s_name := []; s_hdr := []; s_kind := "" |}.
Definition dummy_segm : segm := {| g_hdr := []; g_kind := "" |}.

Lemma sec_of_kind s x : s_kind (sec_of s x) = spec_kind (sh_tyname s (snd x)) (fst x).
Proof. reflexivity. Qed.
Lemma sec_of_hdr s x : s_hdr (sec_of s x) = exp_shdr s (snd x). Proof. reflexivity. Qed.
Lemma sec_of_name s x : s_name (sec_of s x) = fst x. Proof. reflexivity. Qed.

Lemma index_by_name_nth s name j : exp_index_by_name s name = Some j ->
  exists x, nth_sec s j = Some x /\ fst x = name.
Proof.
  intros H. unfold exp_index_by_name in H.
  destruct (index_of_last_some name _ _ _ H) as (Hr & (x & Hx & Hn) & _).
  exists x. split; [|exact Hn]. unfold nth_sec, n_sections.
  destruct (Z.leb_spec 0 j) as [_|E]; [|lia].
  destruct (Z.ltb_spec j (zlen (i_sections s))) as [_|E]; [|lia].
  cbn [andb]. rewrite Z.sub_0_r in Hx. exact Hx.
Qed.

Section WF.
Variable img : list Z.
Variable s : image_spec.
Hypothesis Hwf : wf_image img s = true.

Local Notation C := (exp_core img s).
Local Notation EF := (exp_file img s).

(* ---- the tables lie inside the stream, so the counts are bounded by its length *)
Lemma sections_fit : 0 <= n_sections s <= zlen img + 1.
Proof.
  assert (H0 : 0 <= n_sections s) by (unfold n_sections; apply zlen_nonneg).
  split; [exact H0|].
  destruct (Z.eq_dec (n_sections s) 0) as [E|E]; [pose proof (zlen_nonneg img); lia|].
  destruct (nth_sec_some s (n_sections s - 1) ltac:(lia)) as [x Hx].
  destruct (section_record img s Hwf _ x Hx) as [Hpos _].
  destruct (sections_parts img s Hwf ltac:(lia)) as (Hsz & Hoff & _).
  pose proof (shdr_size_pos img s). nia.
Qed.

(* ---- program headers *)
Lemma segments_parts : 0 < n_segments s ->
  phdr_size s <= e_phentsize (i_ehdr s) /\ 0 < e_phoff (i_ehdr s) /\
  forallb (fun p => fits_layout (L_phdr s) (phdr_vals (i_is64 s) p)) (i_segments s) = true /\
  table_at (drop (e_phoff (i_ehdr s)) img) (Z.to_nat (e_phentsize (i_ehdr s)))
           (map (encode_phdr s) (i_segments s)) = true.
Proof.
  intros Hn. pose proof (wf_segments img s Hwf) as H. rewrite segments_ok_eq in H.
  destruct (Z.eqb_spec (n_segments s) 0) as [E|_]; [lia|]. cbn [orb] in H.
  rewrite !andb_true_iff in H. destruct H as [[[H1 H2] H3] H4].
  destruct (counts_segments img s Hwf) as [[Hc _]|[Hc _]]; [lia|].
  repeat split; try assumption; lia.
Qed.

Lemma phdr_size_pos : 0 < phdr_size s. Proof. unfold phdr_size. destruct (i_is64 s); lia. Qed.

Lemma segment_record j p : nth_seg s j = Some p ->
  let pos := e_phoff (i_ehdr s) + j * e_phentsize (i_ehdr s) in
  0 <= pos < zlen img /\
  struct_parse_at (gen_Elf_Phdr (i_le s) (i_is64 s)) [("p_type", p_id s, false)] img pos
  = Ok (exp_phdr s p).
Proof.
  intros Hx pos. apply nth_seg_inv in Hx. destruct Hx as [Hi Hx].
  destruct (segments_parts ltac:(lia)) as (Hsz & Hoff & Hfits & Htab).
  pose proof phdr_size_pos as Hp.
  assert (Hf : fits_layout (L_phdr s) (phdr_vals (i_is64 s) p) = true)
    by exact (forallb_nth_error _ _ _ _ Hfits Hx).
  assert (Hoff0 : 0 <= e_phoff (i_ehdr s)) by lia.
  assert (Hst : 0 <= e_phentsize (i_ehdr s)) by lia.
  assert (Hi0 : 0 <= j) by lia.
  destruct (table_entry img _ _ _ j _ Hoff0 Hst Hi0 Htab
              (nth_error_map_some (encode_phdr s) _ _ _ Hx)) as [t Ht].
  fold pos in Ht.
  assert (Hpos : 0 <= pos) by (unfold pos; apply Z.add_nonneg_nonneg; [lia|apply Z.mul_nonneg_nonneg; lia]).
  assert (Hlt : pos < zlen img).
  { eapply record_inside; [exact Hpos|exact Ht|].
    unfold encode_phdr.
    apply encode_layout_nonempty with (sz := if i_is64 s then 55%nat else 31%nat); [exact Hf|].
    unfold L_phdr. rewrite size_Phdr. destruct (i_is64 s); reflexivity. }
  split; [lia|].
  apply struct_parse_at_exact with (L := L_phdr s) (vals := phdr_vals (i_is64 s) p) (t := t)
                                   (n := if i_is64 s then 56%nat else 32%nat).
  - apply gen_Elf_Phdr_gabi.
  - apply size_Phdr.
  - exact Hf.
  - exact Ht.
  - pose proof (wf_len img s Hwf). rewrite SEEK_LIMIT_val. lia.
  - rewrite exp_phdr_rec. apply adapt_phdr.
Qed.

Lemma segments_fit : 0 <= n_segments s <= zlen img + 1.
Proof.
  assert (H0 : 0 <= n_segments s) by (unfold n_segments; apply zlen_nonneg).
  split; [exact H0|].
  destruct (Z.eq_dec (n_segments s) 0) as [E|E]; [pose proof (zlen_nonneg img); lia|].
  destruct (nth_seg_some s (n_segments s - 1) ltac:(lia)) as [p Hp].
  destruct (segment_record _ p Hp) as [Hpos _].
  destruct (segments_parts ltac:(lia)) as (Hsz & Hoff & _).
  pose proof phdr_size_pos. nia.
Qed.

Lemma segment_header_ok j p : nth_seg s j = Some p ->
  get_segment_header C j = Ok (exp_phdr s p).
Proof.
  intros Hx. destruct (segment_record j p Hx) as [Hpos Hparse].
  pose proof (nth_seg_inv _ _ _ Hx) as [Hi _].
  destruct (segments_parts ltac:(lia)) as (Hsz & _).
  unfold get_segment_header, segment_offset, gen_segment_offset.
  rewrite hdr_phoff, hdr_phentsize.
  change (Phdr C) with (gen_Elf_Phdr (i_le s) (i_is64 s)). rewrite sizeof_Phdr.
  unfold phdr_size in Hsz.
  replace (e_phentsize (i_ehdr s) <? (if i_is64 s then 56 else 32)) with false
    by (symmetry; apply Z.ltb_ge; exact Hsz).
  rewrite andb_false_r. cbn [bind].
  rewrite core_phb. change (c_img C) with img. exact Hparse.
Qed.

(* ---- counts *)
Lemma num_segments_ok : num_segments EF = Ok (n_segments s).
Proof.
  unfold num_segments. cbn [ef_core exp_file]. rewrite hdr_phoff, hdr_phnum.
  destruct (counts_segments img s Hwf) as [[Hm Ho]|(Ho & Hc)].
  - rewrite Ho, Hm. reflexivity.
  - destruct (Z.eqb_spec (e_phoff (i_ehdr s)) 0) as [E|_]; [lia|].
    unfold PN_XNUM in Hc.
    destruct (Z.ltb_spec (e_phnum (i_ehdr s)) 65535) as [E|E].
    + f_equal. lia.
    + destruct Hc as [Hc|(Hc & Hn & Hi)]; [lia|].
      destruct (nth_sec_some s 0 ltac:(lia)) as [x0 Hx0]. pose proof (sec0_nth s x0 Hx0) as Hs0.
      rewrite (get_section_ok img s Hwf 0 x0 Hx0). cbn [bind]. rewrite sec_of_hdr.
      rewrite shdr_get_info, <- Hs0, Hi. reflexivity.
Qed.

(* ---- DynamicSegment.__init__: the scan over the sections never fails *)
Lemma dynseg_scan_ok off idx :
  (forall i, In i idx -> 0 <= i < n_sections s) -> dynseg_scan EF off idx = Ok tt.
Proof.
  induction idx as [|i idx IH]; intros H; [reflexivity|].
  cbn [dynseg_scan].
  destruct (nth_sec_some s i (H i (or_introl eq_refl))) as [x Hx].
  rewrite (get_section_ok img s Hwf i x Hx). cbn [bind].
  rewrite sec_of_kind, sec_of_hdr.
  destruct ((spec_kind (sh_tyname s (snd x)) (fst x) =? "DynamicSection")%string &&
            (hz (exp_shdr s (snd x)) "sh_offset" =? off)) eqn:E.
  - apply andb_prop in E. destruct E as [Ek _]. apply String.eqb_eq in Ek.
    pose proof (in_req_ok img s Hwf x (nth_sec_in _ _ _ Hx)) as Hr.
    rewrite (kind_dynamic _ _ Ek) in Hr. cbn [req_ok] in Hr.
    rewrite dynamic_link_ok_eq in Hr. rewrite shdr_get_link.
    destruct (nth_sec s (sh_link (snd x))) as [y|] eqn:Hy; [|discriminate].
    rewrite (get_section_ok img s Hwf _ y Hy). reflexivity.
  - apply IH. intros k Hk. apply H. right. exact Hk.
Qed.

(* ---- _make_segment / get_segment *)
Lemma make_segment_ok p : make_segment EF (exp_phdr s p) = Ok (seg_of s p).
Proof.
  unfold make_segment, seg_of. rewrite phdr_get_type, phdr_get_offset.
  generalize (p_tyname s p). intros ty.
  destruct ty as [z|bs|zs|t]; try reflexivity.
  cbn [is_name spec_segment_kind].
  destruct (String.eqb_spec t "PT_INTERP") as [->|N1]; [reflexivity|].
  destruct (String.eqb_spec t "PT_DYNAMIC") as [->|N2].
  { rewrite (num_sections_ok img s Hwf). cbn [bind ef_core exp_file].
    rewrite dynseg_scan_ok; [reflexivity|].
    intros i Hi. apply range_in in Hi. unfold loop_bound in Hi. pose proof sections_fit.
    rewrite (stream_len_eq C) in Hi; change (c_img C) with img in Hi. lia. }
  destruct (String.eqb_spec t "PT_NOTE") as [->|N3]; [reflexivity|].
  unfold segment_kind_table. cbn [assoc_str].
  rewrite (proj2 (String.eqb_neq _ _) (not_eq_sym N1)), (proj2 (String.eqb_neq _ _) (not_eq_sym N2)),
    (proj2 (String.eqb_neq _ _) (not_eq_sym N3)). reflexivity.
Qed.

Lemma get_segment_ok j p : nth_seg s j = Some p -> get_segment EF j = Ok (seg_of s p).
Proof.
  intros Hp. unfold get_segment. cbn [ef_core exp_file].
  rewrite (segment_header_ok j p Hp). cbn [bind]. apply make_segment_ok.
Qed.
(* ---- the enumerations *)
Lemma all_sections_ok :
  for_range C (n_sections s) (get_section EF) = Ok (map (sec_of s) (i_sections s)).
Proof.
  rewrite (for_range_ok C _ _ (fun i => match nth_sec s i with Some x => sec_of s x | None => dummy_sect end)).
  - f_equal. unfold n_sections, zlen. rewrite Nat2Z.id. apply map_range_nth.
    intros i x Hx. unfold nth_sec, n_sections, zlen.
    assert (Hlt : (i < length (i_sections s))%nat) by (apply nth_error_Some; congruence).
    destruct (Z.leb_spec 0 (Z.of_nat i)) as [_|E]; [|lia].
    destruct (Z.ltb_spec (Z.of_nat i) (Z.of_nat (length (i_sections s)))) as [_|E]; [|lia].
    cbn [andb]. rewrite Nat2Z.id, Hx. reflexivity.
  - rewrite (stream_len_eq C). exact sections_fit.
  - intros i Hi. destruct (nth_sec_some s i Hi) as [x Hx]. rewrite Hx.
    apply (get_section_ok img s Hwf). exact Hx.
Qed.

Lemma iter_sections_ok ty :
  iter_sections EF ty =
  Ok (map (sec_of s) (match ty with
                      | None => i_sections s
                      | Some t => filter (fun x => hval_eqb (sh_tyname s (snd x)) t) (i_sections s)
                      end)).
Proof.
  unfold iter_sections. rewrite (num_sections_ok img s Hwf). cbn [bind ef_core exp_file].
  rewrite all_sections_ok. cbn [bind]. destruct ty as [t|]; [|reflexivity].
  rewrite filter_map_comm.
  rewrite (filter_ext _ (fun x => hval_eqb (sh_tyname s (snd x)) t)); [reflexivity|].
  intros x. rewrite sec_of_hdr, shdr_get_type. reflexivity.
Qed.

Lemma all_segments_ok :
  for_range C (n_segments s) (get_segment EF) = Ok (map (seg_of s) (i_segments s)).
Proof.
  rewrite (for_range_ok C _ _ (fun j => match nth_seg s j with Some p => seg_of s p | None => dummy_segm end)).
  - f_equal. unfold n_segments, zlen. rewrite Nat2Z.id. apply map_range_nth.
    intros i p Hp. unfold nth_seg, n_segments, zlen.
    assert (Hlt : (i < length (i_segments s))%nat) by (apply nth_error_Some; congruence).
    destruct (Z.leb_spec 0 (Z.of_nat i)) as [_|E]; [|lia].
    destruct (Z.ltb_spec (Z.of_nat i) (Z.of_nat (length (i_segments s)))) as [_|E]; [|lia].
    cbn [andb]. rewrite Nat2Z.id, Hp. reflexivity.
  - rewrite (stream_len_eq C). exact segments_fit.
  - intros j Hj. destruct (nth_seg_some s j Hj) as [p Hp]. rewrite Hp.
    apply get_segment_ok. exact Hp.
Qed.

Lemma seg_of_hdr p : g_hdr (seg_of s p) = exp_phdr s p. Proof. reflexivity. Qed.

Lemma iter_segments_ok ty :
  iter_segments EF ty =
  Ok (map (seg_of s) (match ty with
                      | None => i_segments s
                      | Some t => filter (fun p => hval_eqb (p_tyname s p) t) (i_segments s)
                      end)).
Proof.
  unfold iter_segments. rewrite num_segments_ok. cbn [bind ef_core exp_file].
  rewrite all_segments_ok. cbn [bind]. destruct ty as [t|]; [|reflexivity].
  rewrite filter_map_comm.
  rewrite (filter_ext _ (fun p => hval_eqb (p_tyname s p) t)); [reflexivity|].
  intros p. rewrite seg_of_hdr, phdr_get_type. reflexivity.
Qed.

(* ---- lookups by name *)
Lemma name_map_lookup name : exists m,
  make_section_name_map EF = Ok m /\
  PyData.dict_get bytes_eqb m name = exp_index_by_name s name.
Proof.
  eexists. split.
  - unfold make_section_name_map. rewrite (iter_sections_ok None). cbn [bind]. reflexivity.
  - rewrite (dict_of_list_get bytes_eqb bytes_eqb_eq).
    apply (name_map_get (sec_of s) name (sec_of_name s)).
Qed.

Lemma section_index_ok name : get_section_index EF name = Ok (exp_index_by_name s name).
Proof.
  destruct (name_map_lookup name) as (m & Hm & Hg). unfold get_section_index.
  rewrite Hm. cbn [bind]. rewrite Hg. reflexivity.
Qed.

Lemma has_section_ok name :
  has_section EF name = Ok (match exp_index_by_name s name with Some _ => true | None => false end).
Proof.
  destruct (name_map_lookup name) as (m & Hm & Hg). unfold has_section.
  rewrite Hm. cbn [bind]. rewrite memb_keys_get, Hg. reflexivity.
Qed.

Lemma section_by_name_ok name :
  get_section_by_name EF name =
  Ok (match exp_index_by_name s name with
      | Some j => match nth_sec s j with Some x => Some (sec_of s x) | None => None end
      | None => None
      end).
Proof.
  destruct (name_map_lookup name) as (m & Hm & Hg). unfold get_section_by_name.
  rewrite Hm. cbn [bind]. rewrite Hg.
  destruct (exp_index_by_name s name) as [j|] eqn:E; [|reflexivity].
  destruct (index_by_name_nth s name j E) as (x & Hx & _). rewrite Hx.
  rewrite (get_section_ok img s Hwf j x Hx). reflexivity.
Qed.
End WF.
