(* Proofs/C03HashFn.v — the two hash FUNCTIONS of elf/hash.py equal the standard
   recurrences on unsigned 32-bit words, for every input list (no bound on the
   length, no hypothesis on the elements). *)
From PV Require Import Base.Fmt Base.Outcome Base.Prim Spec.C03Sym Spec.C03Hash
                       Model.C03Sections Model.C03Hash.
From Coq Require Import Lia ZifyBool.
Open Scope list_scope.
Open Scope Z_scope.

(* ------------------------------------------------------------------ GNU *)
Lemma gnu_step_mod h c : gnu_hash_step (h mod 2 ^ 32) c = (h * 33 + c) mod 2 ^ 32.
Proof.
  unfold gnu_hash_step.
  rewrite Z.add_mod by lia. rewrite Z.mul_mod_idemp_r by lia.
  rewrite <- Z.add_mod by lia. f_equal. lia.
Qed.

Lemma gnu_fold key : forall h,
  fold_left gnu_hash_step key (h mod 2 ^ 32) = fold_left (fun h c => h * 33 + c) key h mod 2 ^ 32.
Proof.
  induction key as [|c key IH]; intros h; [reflexivity|].
  cbn [fold_left]. rewrite gnu_step_mod. apply IH.
Qed.

Theorem gnu_hash_spec : forall key, gnu_hash_m key = gnu_hash key.
Proof.
  intros key. unfold gnu_hash_m, gnu_hash.
  change 0xFFFFFFFF with (Z.ones 32). rewrite Z.land_ones by lia.
  rewrite <- gnu_fold. reflexivity.
Qed.

Lemma gnu_fold_range key : forall h, 0 <= h < 2 ^ 32 -> 0 <= fold_left gnu_hash_step key h < 2 ^ 32.
Proof.
  induction key as [|c key IH]; intros h Hh; [exact Hh|].
  cbn [fold_left]. apply IH. unfold gnu_hash_step. apply Z.mod_pos_bound. lia.
Qed.

Theorem gnu_hash_range : forall key, 0 <= gnu_hash key < 2 ^ 32.
Proof. intros key. apply gnu_fold_range. lia. Qed.

(* appending one byte: the defining recurrence, read from the other end *)
Theorem gnu_hash_snoc : forall key c, gnu_hash (key ++ [c]) = (33 * gnu_hash key + c) mod 2 ^ 32.
Proof. intros key c. unfold gnu_hash. rewrite fold_left_app. reflexivity. Qed.

(* ------------------------------------------------------------------ SysV *)
Lemma testbit_mask_hi n : 0 <= n -> Z.testbit 0xF0000000 n = (28 <=? n) && (n <? 32).
Proof.
  intros Hn. change 0xF0000000 with (Z.shiftl (Z.ones 4) 28).
  destruct (Z.ltb_spec n 28) as [Hlt|Hge].
  - rewrite Z.shiftl_spec_low by lia. symmetry. apply andb_false_iff. left. apply Z.leb_gt. lia.
  - rewrite Z.shiftl_spec by lia. rewrite Z.testbit_ones_nonneg by lia.
    replace (28 <=? n) with true by (symmetry; apply Z.leb_le; lia). cbn [andb].
    destruct (Z.ltb_spec (n - 28) 4), (Z.ltb_spec n 32); try reflexivity; lia.
Qed.

Lemma land_mask_mod H : Z.land (H mod 2 ^ 32) 0xF0000000 = Z.land H 0xF0000000.
Proof.
  apply Z.bits_inj'. intros n Hn. rewrite !Z.land_spec, testbit_mask_hi by exact Hn.
  destruct (Z.ltb_spec n 32) as [Hlt|Hge].
  - rewrite Z.mod_pow2_bits_low by lia. reflexivity.
  - rewrite !andb_false_r. reflexivity.
Qed.

Lemma elf_step_bits H g : g = Z.land H 0xF0000000 ->
  Z.land (Z.lxor H (Z.shiftr g 24)) 0x0FFFFFFF = Z.ldiff (Z.lxor (H mod 2 ^ 32) (Z.shiftr g 24)) g.
Proof.
  intros ->. apply Z.bits_inj'. intros n Hn.
  change 0x0FFFFFFF with (Z.ones 28).
  rewrite Z.land_spec, Z.ldiff_spec, !Z.lxor_spec, Z.shiftr_spec, !Z.land_spec by exact Hn.
  rewrite Z.testbit_ones_nonneg by lia.
  rewrite !testbit_mask_hi by lia.
  destruct (Z.ltb_spec n 28) as [H28|H28].
  - rewrite Z.mod_pow2_bits_low by lia.
    replace (28 <=? n) with false by (symmetry; apply Z.leb_gt; lia).
    cbn [andb]. rewrite andb_false_r. cbn [negb]. rewrite !andb_true_r. reflexivity.
  - rewrite andb_false_r.
    replace (28 <=? n + 24) with true by (symmetry; apply Z.leb_le; lia).
    replace (n + 24 <? 32) with false by (symmetry; apply Z.ltb_ge; lia).
    rewrite !andb_false_r. rewrite xorb_false_r.
    replace (28 <=? n) with true by (symmetry; apply Z.leb_le; lia). cbn [andb].
    destruct (Z.ltb_spec n 32) as [H32|H32].
    + rewrite Z.mod_pow2_bits_low by lia. rewrite andb_true_r.
      destruct (Z.testbit H n); reflexivity.
    + rewrite Z.mod_pow2_bits_high by lia. reflexivity.
Qed.

Lemma elf_step_eq h c : elf_hash_step h c = sysv_hash_step h c.
Proof.
  unfold elf_hash_step, sysv_hash_step.
  rewrite Z.shiftl_mul_pow2 by lia. change (2 ^ 4) with 16.
  replace (16 * h + c) with (h * 16 + c) by lia.
  set (H := h * 16 + c).
  rewrite land_mask_mod.
  set (g := Z.land H 0xF0000000).
  destruct (Z.eqb_spec g 0) as [Hg|Hg].
  - cbn [negb]. assert (E := elf_step_bits H g eq_refl). rewrite Hg in E.
    change (Z.shiftr 0 24) with 0 in E. rewrite !Z.lxor_0_r in E. rewrite Hg. exact E.
  - cbn [negb]. apply elf_step_bits. reflexivity.
Qed.

Lemma elf_fold name : forall h, fold_left elf_hash_step name h = fold_left sysv_hash_step name h.
Proof.
  induction name as [|c name IH]; intros h; [reflexivity|].
  cbn [fold_left]. rewrite elf_step_eq. apply IH.
Qed.

Theorem elf_hash_spec : forall name, elf_hash name = sysv_hash name.
Proof. intros name. apply elf_fold. Qed.

Lemma elf_step_range h c : 0 <= elf_hash_step h c < 2 ^ 28.
Proof.
  unfold elf_hash_step. change 0x0FFFFFFF with (Z.ones 28). rewrite Z.land_ones by lia.
  apply Z.mod_pos_bound. lia.
Qed.

Theorem sysv_hash_range : forall name, 0 <= sysv_hash name < 2 ^ 28.
Proof.
  intros name. rewrite <- elf_hash_spec. unfold elf_hash.
  destruct name as [|c name] using rev_ind; [cbn; lia|].
  rewrite fold_left_app. cbn [fold_left]. apply elf_step_range.
Qed.

Theorem sysv_hash_snoc : forall name c, sysv_hash (name ++ [c]) = sysv_hash_step (sysv_hash name) c.
Proof. intros name c. unfold sysv_hash. rewrite fold_left_app. reflexivity. Qed.

(* what was wrong before the repair: evaluated on unbounded integers the gABI fragment leaves
   32 bits (the same happens with a 64-bit unsigned long) *)
Theorem elf_hash_unrepaired_differs :
  exists name, forallb is_byte name = true /\ elf_hash_unrepaired name <> sysv_hash name.
Proof.
  exists [33; 40; 120; 120; 120; 118; 119; 95; 33]. split; [reflexivity|]. vm_compute. discriminate.
Qed.
