(* Proofs/C03GenHash.v — the tie to the hash functions TRANSLATED from the live source.
   Kept apart from Proofs/C03HashFn.v so that an edit of elf_hash / gnu_hash in /repo that the
   proofs below do not survive is reported here and nowhere else. *)
From PV Require Import Base.Fmt Base.Outcome Base.Prim Spec.C03Sym Spec.C03Hash
                       Model.C03Sections Model.C03Hash Proofs.C03HashFn.
From Coq Require Import Lia ZifyBool.
Open Scope list_scope.
Open Scope Z_scope.

(* ------------------------------------------------------------------ the translated functions
   Gen/PyFuns.v holds elf_hash / gnu_hash translated statement by statement from the live
   source on every run; the hand models above are the same functions. *)
From PV Require Import Gen.PyFuns.

Theorem gen_elf_hash_model : forall name, gen_elf_hash name = elf_hash name.
Proof.
  intros name. unfold gen_elf_hash, elf_hash. cbv zeta.
  match goal with
  | |- (let '(a, _) := fold_left ?F name _ in a) = _ =>
      assert (H : forall l h x, (let '(a, _) := fold_left F l (h, x) in a) = fold_left elf_hash_step l h)
  end.
  { induction l as [|c l IH]; intros h x; [reflexivity|].
    cbn [fold_left]. cbv beta iota zeta. exact (IH _ _). }
  apply H.
Qed.

Theorem gen_gnu_hash_model : forall key, gen_gnu_hash key = gnu_hash_m key.
Proof. intros key. reflexivity. Qed.

Theorem gen_elf_hash_spec : forall name, gen_elf_hash name = sysv_hash name.
Proof. intros name. rewrite gen_elf_hash_model. apply elf_hash_spec. Qed.

Theorem gen_gnu_hash_spec : forall key, gen_gnu_hash key = gnu_hash key.
Proof. intros key. rewrite gen_gnu_hash_model. apply gnu_hash_spec. Qed.
