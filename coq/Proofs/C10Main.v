(* Proofs/C10Main.v — C10: one step of the machine refines one step of the reference machine
   ([step_refines_*]), for every operation whose proof is complete. *)
From PV Require Import Spec.C10Spec Proofs.C10Base Proofs.C10Tree Proofs.C10Elf Proofs.C10Units Proofs.C10Lines.
From Coq Require Import ZArith List Bool Lia ZifyBool.
Import ListNotations.
Open Scope Z_scope.

Ltac qf := try assumption; try (cbn [spec_step]; reflexivity).
Ltac ext_triv := split; [scbn; apply cus_mono_refl|split; [scbn; apply dies_mono_refl|reflexivity]].

Section Main.
  Set Default Proof Using "All".
  Variable F : file.
  Hypothesis WF : wf_file F = true.
  Variable fuel : nat.
  Hypothesis Hfuel : fuel_ok F fuel = true.
  Let P := parsers_of F.

  Lemma WFe : wf_elf F = true.
  Proof. apply (wf_file_parts F WF). Qed.
  Lemma Hfu : (length (f_units F) < fuel)%nat.
  Proof. unfold fuel_ok, fuel_bound in Hfuel. apply Nat.ltb_lt in Hfuel. lia. Qed.
  Lemma Hfd : zlen (f_dyns F) <= Z.of_nat fuel.
  Proof. unfold fuel_ok, fuel_bound in Hfuel. apply Nat.ltb_lt in Hfuel. unfold zlen. lia. Qed.

  (* the conclusion of the refinement theorem for one operation *)
  Definition refines (s : state) (afs : list aframe) (o : op) : Prop :=
    snd (step P fuel s o) = snd (spec_step F afs o) /\
    Inv F (fst (step P fuel s o)) /\ frames_rel F (fst (step P fuel s o)) (fst (spec_step F afs o)).

  Lemma query_finish s afs o s' r : frames_rel F s afs -> run_op P fuel o s = (s', r) -> Inv F s' -> ext s s' ->
    ans_of r = query_spec F o -> spec_step F afs o = (afs, query_spec F o) -> refines s afs o.
  Proof.
    intros Hfr Hrun HI Hx Ha Hs. unfold refines, step. rewrite Hrun, Hs.
    destruct r; cbn [fst snd ans_of] in *; (split; [exact Ha|]); (split; [exact HI|]); eapply frames_rel_ext; eauto.
  Qed.

  Lemma new_finish s afs o slot f af s1 : frames_rel F s afs ->
    run_op P fuel o s = (set_frames s1 (upd_nth slot (fun _ => f) (frames s1)), Ok ADone) ->
    Inv F s1 -> ext s s1 -> frame_rel F s1 f af -> spec_step F afs o = (upd_slot slot af afs, ADone) ->
    refines s afs o.
  Proof.
    intros Hfr Hrun HI Hx Hf Hs. unfold refines, step. rewrite Hrun, Hs. cbn [fst snd].
    split; [reflexivity|]. split; [apply Inv_set_frames; exact HI|].
    apply frames_rel_set_slot; [eapply frames_rel_ext; eauto|exact Hf].
  Qed.

  (* ---- answers *)
  Lemma cu_answer_ok s id u ud : Inv F s -> cu_at s id u -> unit_at F u = Some ud ->
    cu_answer id s = (s, Ok (unit_ans ud)).
  Proof.
    intros HI Hat Hu. destruct (cu_at_facts F WF fuel Hfu _ _ _ HI Hat) as (c & ud' & Hc & Eo & Hu' & Eh & _).
    assert (ud' = ud) by congruence. subst ud'. unfold cu_answer. rewrite (bind_get_cu _ _ _ _ Hc).
    unfold ret, unit_ans. destruct (unit_at_in F WF _ _ Hu) as [_ E]. rewrite Eo, Eh, E. reflexivity.
  Qed.

  Lemma die_answer_ok s id u o : Inv F s -> die_at s id u o -> die_answer id s = (s, Ok (die_ans F u o)).
  Proof.
    intros HI Hat. destruct (die_facts F WF fuel Hfu _ _ _ _ HI Hat) as (d & c & e & Hd & Hc & Eu & Eo & He & Hr).
    unfold die_answer. rewrite (bind_get_die _ _ _ _ Hd), (bind_get_cu _ _ _ _ Hc).
    unfold ret, die_ans. rewrite He, Eu, Eo, Hr. reflexivity.
  Qed.

  Lemma has_unit_some u : has_unit F u = true -> exists ud, unit_at F u = Some ud.
  Proof. unfold has_unit. destruct (unit_at F u); [eauto|discriminate]. Qed.
  Lemma valid_die_some u o : valid_die F u o = true -> exists e, entry_at F u o = Some e.
  Proof. unfold valid_die. destruct (entry_at F u o); [eauto|discriminate]. Qed.

  Lemma unit_containing_self a ud : unit_containing F a = Some ud -> unit_at F (ud_off ud) = Some ud.
  Proof. intros H. apply find_some in H. apply (unit_at_self F WF). tauto. Qed.

  (* ================================================================ queries *)
  Lemma ref_Disturb s afs sid pos : Inv F s -> frames_rel F s afs -> refines s afs (Disturb sid pos).
  Proof.
    intros HI Hfr. eapply query_finish with (s' := set_cur s (upd_nth sid (fun _ => pos) (cur s))) (r := Ok ADone); qf.
    - apply Inv_set_cur; auto. apply upd_nth_length.
    - apply ext_set_cur.
  Qed.

  Lemma ref_CUAt s afs u : Inv F s -> frames_rel F s afs -> valid_op F (CUAt u) = true -> refines s afs (CUAt u).
  Proof.
    intros HI Hfr Hv. cbn [valid_op] in Hv. destruct (has_unit_some _ Hv) as (ud & Hu).
    destruct (get_CU_at_ok F WF fuel Hfu s u ud HI Hu) as (s1 & id & E1 & HI1 & X1 & Hat).
    eapply query_finish with (s' := s1) (r := Ok (unit_ans ud)); qf.
    - cbn [run_op]. rewrite (bind_ok _ _ _ _ _ E1). eapply cu_answer_ok; eauto.
    - cbn [ans_of query_spec]. rewrite Hu. reflexivity.
  Qed.

  Lemma ref_CUContaining s afs a : Inv F s -> frames_rel F s afs -> valid_op F (CUContaining a) = true ->
    refines s afs (CUContaining a).
  Proof.
    intros HI Hfr Hv. cbn [valid_op] in Hv.
    assert (Ha : 0 <= a < f_info_size F) by lia.
    destruct (get_CU_containing_ok F WF fuel Hfu s a HI Ha) as (ud & s1 & id & Hu & E1 & HI1 & X1 & Hat).
    eapply query_finish with (s' := s1) (r := Ok (unit_ans ud)); qf.
    - cbn [run_op]. rewrite (bind_ok _ _ _ _ _ E1). eapply cu_answer_ok; eauto using unit_containing_self.
    - cbn [ans_of query_spec]. rewrite Hu. reflexivity.
  Qed.

  Lemma ref_TopDIE s afs u : Inv F s -> frames_rel F s afs -> valid_op F (TopDIE u) = true -> refines s afs (TopDIE u).
  Proof.
    intros HI Hfr Hv. cbn [valid_op] in Hv. destruct (has_unit_some _ Hv) as (ud & Hu).
    destruct (get_CU_at_ok F WF fuel Hfu s u ud HI Hu) as (s1 & id & E1 & HI1 & X1 & Hat).
    destruct (cu_at_facts F WF fuel Hfu _ _ _ HI1 Hat) as (c & ud' & Hc & Eo & Hu' & Eh & Ed & _).
    assert (ud' = ud) by congruence. subst ud'.
    destruct (get_top_DIE_ok F WF fuel Hfu s1 id c HI1 Hc) as (s2 & top & E2 & HI2 & X2 & Htop & _).
    rewrite Eo, Ed in Htop.
    eapply query_finish with (s' := s2) (r := Ok (die_ans F u (ud_die_off ud))); qf.
    - cbn [run_op]. rewrite (bind_ok _ _ _ _ _ E1), (bind_ok _ _ _ _ _ E2). eapply die_answer_ok; eauto.
    - eapply ext_trans; eauto.
    - cbn [ans_of query_spec]. rewrite Hu. reflexivity.
  Qed.

  Lemma ref_DIEAt s afs u o : Inv F s -> frames_rel F s afs -> valid_op F (DIEAt u o) = true -> refines s afs (DIEAt u o).
  Proof.
    intros HI Hfr Hv. cbn [valid_op] in Hv. destruct (valid_die_some _ _ Hv) as (e & He).
    destruct (the_DIE_ok F WF fuel Hfu s u o e HI He) as (s1 & id & E1 & HI1 & X1 & Hat).
    eapply query_finish with (s' := s1) (r := Ok (die_ans F u o)); qf.
    cbn [run_op]. rewrite (bind_ok _ _ _ _ _ E1). eapply die_answer_ok; eauto.
  Qed.

  Lemma valid_global a : (0 <=? a) && (a <? f_info_size F) &&
      match unit_containing F a with Some ud => valid_die F (ud_off ud) a | None => false end = true ->
    0 <= a < f_info_size F /\ exists ud e, unit_containing F a = Some ud /\ entry_at F (ud_off ud) a = Some e.
  Proof.
    intros H. apply andb_prop in H. destruct H as [H1 H2]. split; [lia|].
    destruct (unit_containing F a) as [ud|]; [|discriminate].
    destruct (valid_die_some _ _ H2) as (e & He). eauto.
  Qed.

  Lemma ref_DIEGlobal s afs a : Inv F s -> frames_rel F s afs -> valid_op F (DIEGlobal a) = true ->
    refines s afs (DIEGlobal a).
  Proof.
    intros HI Hfr Hv. cbn [valid_op] in Hv. destruct (valid_global _ Hv) as (Ha & ud & e & Hu & He).
    destruct (di_get_DIE_ok F WF fuel Hfu s a ud e HI Ha Hu He) as (s1 & id & E1 & HI1 & X1 & Hat).
    eapply query_finish with (s' := s1) (r := Ok (die_ans F (ud_off ud) a)); qf.
    - cbn [run_op]. rewrite (bind_ok _ _ _ _ _ E1). eapply die_answer_ok; eauto.
    - cbn [ans_of query_spec]. unfold die_global_ans. rewrite Hu. reflexivity.
  Qed.

  Lemma ref_FollowRef s afs u o k : Inv F s -> frames_rel F s afs -> valid_op F (FollowRef u o k) = true ->
    refines s afs (FollowRef u o k).
  Proof.
    intros HI Hfr Hv. cbn [valid_op] in Hv.
    destruct (entry_at F u o) as [e|] eqn:He; [|discriminate].
    destruct (the_DIE_ok F WF fuel Hfu s u o e HI He) as (s1 & id & E1 & HI1 & X1 & Hat).
    destruct (die_facts F WF fuel Hfu _ _ _ _ HI1 Hat) as (d & c & e' & Hd & Hc & Eu & Eo & He' & Hr).
    assert (e' = e) by congruence. subst e'.
    destruct (nth_error (dr_refs (en_raw e)) k) as [[[| |] v]|] eqn:Hk; try discriminate.
    - destruct (valid_die_some _ _ Hv) as (e2 & He2).
      rewrite <- Eu in He2.
      destruct (cu_get_DIE_ok F WF fuel Hfu s1 (d_cu d) c (c_off c + v) e2 HI1 Hc He2) as (s2 & t & E2 & HI2 & X2 & Hat2).
      rewrite Eu in Hat2.
      eapply query_finish with (s' := s2) (r := Ok (die_ans F u (u + v))); qf.
      + assert (Eattr : get_DIE_from_attribute P fuel id k s1 = (s2, Ok t)).
        { unfold get_DIE_from_attribute. rewrite (bind_get_die _ _ _ _ Hd). rewrite Hr, Hk.
          rewrite (bind_get_cu _ _ _ _ Hc). exact E2. }
        cbn [run_op]. rewrite (bind_ok _ _ _ _ _ E1), (bind_ok _ _ _ _ _ Eattr). eapply die_answer_ok; eauto.
      + eapply ext_trans; eauto.
      + cbn [ans_of query_spec]. rewrite He, Hk. reflexivity.
    - destruct (valid_global _ Hv) as (Ha & ud & e2 & Hu & He2).
      destruct (di_get_DIE_ok F WF fuel Hfu s1 v ud e2 HI1 Ha Hu He2) as (s2 & t & E2 & HI2 & X2 & Hat2).
      eapply query_finish with (s' := s2) (r := Ok (die_ans F (ud_off ud) v)); qf.
      + assert (Eattr : get_DIE_from_attribute P fuel id k s1 = (s2, Ok t)).
        { unfold get_DIE_from_attribute. rewrite (bind_get_die _ _ _ _ Hd). rewrite Hr, Hk. exact E2. }
        cbn [run_op]. rewrite (bind_ok _ _ _ _ _ E1), (bind_ok _ _ _ _ _ Eattr). eapply die_answer_ok; eauto.
      + eapply ext_trans; eauto.
      + cbn [ans_of query_spec]. rewrite He, Hk. unfold die_global_ans. rewrite Hu. reflexivity.
  Qed.

  Lemma no_define_file_at off ld : no_define_file F = true -> zassoc off (f_lines F) = Some ld ->
    lb_defs (ld_body ld) = 0.
  Proof.
    unfold no_define_file. intros H Hz. rewrite forallb_forall in H. apply zassoc_in in Hz.
    specialize (H _ Hz). cbn [snd] in H. lia.
  Qed.

  Lemma ref_LineProg s afs u : no_define_file F = true -> Inv F s -> frames_rel F s afs ->
    valid_op F (LineProg u) = true -> refines s afs (LineProg u).
  Proof.
    intros NDF HI Hfr Hv. cbn [valid_op] in Hv. destruct (has_unit_some _ Hv) as (ud & Hu).
    destruct (get_CU_at_ok F WF fuel Hfu s u ud HI Hu) as (s1 & id & E1 & HI1 & X1 & Hat).
    destruct (line_program_for_CU_ok F WF fuel Hfu s1 id u ud HI1 Hat Hu) as (s2 & E2 & HI2 & X2 & Hlp).
    eapply query_finish with (s' := s2) (r := Ok (query_spec F (LineProg u))); qf.
    - cbn [run_op]. rewrite (bind_ok _ _ _ _ _ E1), (bind_ok _ _ _ _ _ E2).
      cbn [query_spec]. rewrite Hu.
      destruct (dr_stmt (node_raw (ud_tree ud))) as [off|]; [|reflexivity].
      destruct (Hlp off eq_refl) as (lp & ld & Hd & Hz).
      assert (Hget : get_lp off s2 = (s2, Ok lp)) by (unfold get_lp; rewrite bind_get_state, Hd; reflexivity).
      rewrite (bind_ok _ _ _ _ _ Hget). rewrite Hz.
      destruct (inv_lines _ _ HI2 _ _ Hd) as (ld' & Hz' & Eraw & Estart & Hent).
      assert (ld' = ld) by congruence. subst ld'.
      pose proof (no_define_file_at _ _ NDF Hz) as Hdefs.
      assert (Efiles : l_files lp = lr_files (ld_raw ld)).
      { destruct (l_entries lp); [destruct Hent as [_ ->]; lia | exact Hent]. }
      unfold ret. rewrite Eraw, Efiles. reflexivity.
    - eapply ext_trans; eauto.
  Qed.

  Lemma ref_LineEntries s afs u : Inv F s -> frames_rel F s afs ->
    valid_op F (LineEntries u) = true -> refines s afs (LineEntries u).
  Proof.
    intros HI Hfr Hv. cbn [valid_op] in Hv. destruct (has_unit_some _ Hv) as (ud & Hu).
    destruct (get_CU_at_ok F WF fuel Hfu s u ud HI Hu) as (s1 & id & E1 & HI1 & X1 & Hat).
    destruct (line_program_for_CU_ok F WF fuel Hfu s1 id u ud HI1 Hat Hu) as (s2 & E2 & HI2 & X2 & Hlp).
    destruct (dr_stmt (node_raw (ud_tree ud))) as [off|] eqn:Es.
    - destruct (Hlp off eq_refl) as (lp & ld & Hd & Hz).
      destruct (lp_get_entries_ok F WF fuel Hfu s2 off lp ld HI2 Hd Hz) as (s3 & E3 & HI3 & X3).
      eapply query_finish with (s' := s3) (r := Ok (AVals [lb_pid (ld_body ld)])); qf.
      + cbn [run_op]. rewrite (bind_ok _ _ _ _ _ E1), (bind_ok _ _ _ _ _ E2), (bind_ok _ _ _ _ _ E3). reflexivity.
      + eapply ext_trans; [|exact X3]. eapply ext_trans; eauto.
      + cbn [ans_of query_spec]. rewrite Hu, Es, Hz. reflexivity.
    - eapply query_finish with (s' := s2) (r := Ok ANone); qf.
      + cbn [run_op]. rewrite (bind_ok _ _ _ _ _ E1), (bind_ok _ _ _ _ _ E2). reflexivity.
      + eapply ext_trans; eauto.
      + cbn [ans_of query_spec]. rewrite Hu, Es. reflexivity.
  Qed.

  (* a decode that raises leaves the memo unset: the retry fails the same way, later queries are unaffected *)
  Lemma ref_LineEntriesFailing s afs u e c : Inv F s -> frames_rel F s afs ->
    valid_op F (LineEntriesFailing u e c) = true -> refines s afs (LineEntriesFailing u e c).
  Proof.
    intros HI Hfr Hv. cbn [valid_op] in Hv. destruct (has_unit_some _ Hv) as (ud & Hu).
    destruct (get_CU_at_ok F WF fuel Hfu s u ud HI Hu) as (s1 & id & E1 & HI1 & X1 & Hat).
    destruct (line_program_for_CU_ok F WF fuel Hfu s1 id u ud HI1 Hat Hu) as (s2 & E2 & HI2 & X2 & Hlp).
    destruct (dr_stmt (node_raw (ud_tree ud))) as [off|] eqn:Es.
    - destruct (Hlp off eq_refl) as (lp & ld & Hd & Hz).
      destruct (Z.leb_spec 0 c).
      + eapply query_finish with (s' := set_cur s2 (upd_nth S_LINE (fun _ => c) (cur s2))) (r := Err e);
          [exact Hfr| | | | |reflexivity].
        * cbn [run_op]. rewrite (bind_ok _ _ _ _ _ E1), (bind_ok _ _ _ _ _ E2).
          destruct (Z.leb_spec 0 c); [reflexivity|lia].
        * apply Inv_set_cur; auto. apply upd_nth_length.
        * eapply ext_trans; [|apply ext_set_cur]. eapply ext_trans; eauto.
        * cbn [ans_of query_spec]. rewrite Hu, Es, Hz. reflexivity.
      + eapply query_finish with (s' := s2) (r := Err e); [exact Hfr| |exact HI2| | |reflexivity].
        * cbn [run_op]. rewrite (bind_ok _ _ _ _ _ E1), (bind_ok _ _ _ _ _ E2).
          destruct (Z.leb_spec 0 c); [lia|reflexivity].
        * eapply ext_trans; eauto.
        * cbn [ans_of query_spec]. rewrite Hu, Es, Hz. reflexivity.
    - eapply query_finish with (s' := s2) (r := Ok ANone); [exact Hfr| |exact HI2| | |reflexivity].
      + cbn [run_op]. rewrite (bind_ok _ _ _ _ _ E1), (bind_ok _ _ _ _ _ E2). reflexivity.
      + eapply ext_trans; eauto.
      + cbn [ans_of query_spec]. rewrite Hu, Es. reflexivity.
  Qed.

  (* ---- call-frame information: the list a client holds and the decoded-table memos of its entries *)
  Definition upd_held (s : state) (eh : bool) (v : option (list (option Z))) : state :=
    set_cfis s (if eh then (fst (cfis s), v) else (v, snd (cfis s))).

  Lemma held_upd_same s eh v : held eh (upd_held s eh v) = v.
  Proof. unfold held, upd_held. destruct eh; reflexivity. Qed.

  Lemma Inv_upd_held s eh v : Inv F s -> (forall l, v = Some l -> held_ok F eh l) -> Inv F (upd_held s eh v).
  Proof.
    intros [I1 I2 I3 I4 I5 I6 I7 I8 I9 I10 I11 I12 I13] Hv. unfold upd_held. constructor; scbn; auto.
    intros eh' l H. destruct eh, eh'; unfold held in H; cbn [cfis set_cfis fst snd] in H;
      try (apply Hv; exact H); apply I12; exact H.
  Qed.

  Lemma ext_upd_held s eh v : ext s (upd_held s eh v).
  Proof. unfold upd_held. ext_triv. Qed.

  Lemma held_ok_fresh eh : held_ok F eh (repeat None (Z.to_nat (p_cfi_count P eh))).
  Proof.
    unfold P. pcbn. unfold zlen. rewrite Nat2Z.id. split; [apply repeat_length|].
    intros i t H. apply nth_error_In in H. apply repeat_spec in H. discriminate.
  Qed.

  Lemma held_ok_upd eh l i e : held_ok F eh l -> nth_error (cfi_ents F eh) i = Some e ->
    held_ok F eh (upd_nth i (fun _ => Some (ent_table e)) l).
  Proof.
    intros [Hl Hm] He. split; [rewrite upd_nth_length; exact Hl|].
    intros i' t H. apply nth_error_upd_nth in H. destruct H as [(-> & y & Hy & Et)|(Hne & H)].
    - inversion Et. eauto.
    - apply Hm. exact H.
  Qed.

  Lemma cfi_fetch_ok s (eh : bool) v e : Inv F s -> (if eh then f_ehcfi F else f_cfi F) = Some (v, e) ->
    exists c1, cfi_fetch P eh s = (upd_held (set_cur s c1) eh (Some (repeat None (Z.to_nat (p_cfi_count P eh)))), Ok v) /\
               length c1 = length (cur s).
  Proof.
    intros HI Hv. destruct (cfi_entries_ok F WF fuel Hfu s eh v e HI Hv) as (c1 & E1 & L1).
    exists c1. unfold cfi_fetch. fold P in E1. rewrite (bind_ok _ _ _ _ _ E1). split; [reflexivity|exact L1].
  Qed.

  Lemma ref_CFI s afs eh : Inv F s -> frames_rel F s afs -> valid_op F (CFI eh) = true -> refines s afs (CFI eh).
  Proof.
    intros HI Hfr Hv. cbn [valid_op] in Hv.
    destruct (if eh then f_ehcfi F else f_cfi F) as [[v e]|] eqn:Ev; [|discriminate].
    destruct (cfi_fetch_ok s eh v e HI Ev) as (c1 & E1 & L1).
    eapply query_finish with (r := Ok (AVals [v])); [exact Hfr| | | | |reflexivity].
    - cbn [run_op]. rewrite (bind_ok _ _ _ _ _ E1). reflexivity.
    - apply Inv_upd_held; [apply Inv_set_cur; auto|]. intros l E. inversion E. apply held_ok_fresh.
    - eapply ext_trans; [apply ext_set_cur|apply ext_upd_held].
    - cbn [ans_of query_spec]. rewrite Ev. reflexivity.
  Qed.

  Lemma memo_get_ok s eh i l m : held eh s = Some l -> nth_error l (Z.to_nat i) = Some m ->
    memo_get eh i s = (s, Ok m).
  Proof. intros Hh Hn. unfold memo_get. rewrite bind_get_state, Hh, Hn. reflexivity. Qed.

  Lemma memo_set_ok s eh i l t : held eh s = Some l ->
    memo_set eh i t s = (upd_held s eh (Some (upd_nth (Z.to_nat i) (fun _ => Some t) l)), Ok tt).
  Proof. intros Hh. unfold memo_set. rewrite bind_get_state, Hh. reflexivity. Qed.

  Lemma cie_get_decoded_ok s eh j l ce : Inv F s -> held eh s = Some l -> 0 <= j ->
    nth_error (cfi_ents F eh) (Z.to_nat j) = Some ce -> ent_kind ce = 0 ->
    exists s' l', cie_get_decoded P eh j s = (s', Ok (ent_table ce)) /\ Inv F s' /\ ext s s' /\ held eh s' = Some l'.
  Proof.
    intros HI Hh Hj Hce Hk. pose proof (inv_cfis _ _ HI _ _ Hh) as [Hlen Hm].
    destruct (nth_error l (Z.to_nat j)) as [m|] eqn:Hn.
    2:{ apply nth_error_None in Hn. assert (Z.to_nat j < length (cfi_ents F eh))%nat by (apply nth_error_Some; congruence). lia. }
    unfold cie_get_decoded. rewrite (bind_ok _ _ _ _ _ (memo_get_ok s eh j l m Hh Hn)).
    destruct m as [t|].
    - destruct (Hm _ _ Hn) as (e & He & Et). assert (e = ce) by congruence. subst e.
      exists s, l. rewrite <- Et. split; [reflexivity|]. split; [exact HI|]. split; [apply ext_refl|exact Hh].
    - assert (Hp : p_cfi_table P eh j None = Ok (ent_table ce)).
      { unfold P. pcbn. rewrite Hce, Hk. reflexivity. }
      rewrite Hp, bind_lift_ok. rewrite (bind_ok _ _ _ _ _ (memo_set_ok s eh j l _ Hh)).
      eexists _, _. split; [reflexivity|]. split; [|split; [apply ext_upd_held|apply held_upd_same]].
      apply Inv_upd_held; [exact HI|]. intros l' E. inversion E. apply held_ok_upd; [split; auto|exact Hce].
  Qed.

  Lemma ref_CFIDecoded s afs eh i : Inv F s -> frames_rel F s afs -> valid_op F (CFIDecoded eh i) = true ->
    refines s afs (CFIDecoded eh i).
  Proof.
    intros HI Hfr Hv. cbn [valid_op] in Hv. apply andb_prop in Hv. destruct Hv as [Hv Hkind].
    apply andb_prop in Hv. destruct Hv as [Hsec Hi].
    destruct (if eh then f_ehcfi F else f_cfi F) as [[v e0]|] eqn:Ev; [|discriminate].
    destruct (nth_error (cfi_ents F eh) (Z.to_nat i)) as [e|] eqn:He; [|discriminate].
    (* the client holds a list *)
    assert (Hstep : exists s1 l, (s0 <- get_state;; match held eh s0 with None => cfi_fetch P eh;;; ret tt | Some _ => ret tt end) s = (s1, Ok tt) /\
                      Inv F s1 /\ ext s s1 /\ held eh s1 = Some l).
    { rewrite bind_get_state. destruct (held eh s) as [l|] eqn:Hh.
      - exists s, l. split; [reflexivity|]. split; [exact HI|]. split; [apply ext_refl|exact Hh].
      - destruct (cfi_fetch_ok s eh v e0 HI Ev) as (c1 & E1 & L1). rewrite (bind_ok _ _ _ _ _ E1).
        eexists _, _. split; [reflexivity|]. split; [|split; [eapply ext_trans; [apply ext_set_cur|apply ext_upd_held]|apply held_upd_same]].
        apply Inv_upd_held; [apply Inv_set_cur; auto|]. intros l E. inversion E. apply held_ok_fresh. }
    destruct Hstep as (s1 & l & E1 & HI1 & X1 & Hh1).
    pose proof (inv_cfis _ _ HI1 _ _ Hh1) as [Hlen Hm].
    assert (Hrange : (0 <=? i) && (i <? p_cfi_count P eh) = true).
    { unfold P. pcbn. unfold zlen. assert (Z.to_nat i < length (cfi_ents F eh))%nat by (apply nth_error_Some; congruence). lia. }
    assert (Hdec : exists s2, entry_get_decoded P eh i s1 = (s2, Ok (ent_table e)) /\ Inv F s2 /\ ext s1 s2).
    { destruct (nth_error l (Z.to_nat i)) as [m|] eqn:Hn.
      2:{ apply nth_error_None in Hn. assert (Z.to_nat i < length (cfi_ents F eh))%nat by (apply nth_error_Some; congruence). lia. }
      unfold entry_get_decoded. rewrite (bind_ok _ _ _ _ _ (memo_get_ok s1 eh i l m Hh1 Hn)).
      destruct m as [t|].
      - destruct (Hm _ _ Hn) as (e' & He' & Et). assert (e' = e) by congruence. subst e'.
        exists s1. rewrite <- Et. split; [reflexivity|]. split; [exact HI1|apply ext_refl].
      - assert (Hk : p_cfi_kind P eh i = (ent_kind e, ent_cie e)) by (unfold P; pcbn; rewrite He; reflexivity).
        rewrite Hk. destruct (Z.eqb_spec (ent_kind e) 0) as [Ek0|Ek0].
        + destruct (cie_get_decoded_ok s1 eh i l e HI1 Hh1 ltac:(lia) He Ek0) as (s2 & l2 & E2 & HI2 & X2 & _).
          exists s2. auto.
        + destruct (Z.eqb_spec (ent_kind e) 1) as [Ek1|Ek1]; [|lia].
          pose proof (wf_file_cfi F WF eh) as Hwf. unfold wf_cfi in Hwf. rewrite forallb_forall in Hwf.
          specialize (Hwf e (nth_error_In _ _ He)). rewrite Ek1 in Hwf. cbn [Z.eqb negb orb] in Hwf.
          apply andb_prop in Hwf. destruct Hwf as [Hj Hce].
          destruct (nth_error (cfi_ents F eh) (Z.to_nat (ent_cie e))) as [ce|] eqn:Ece; [|discriminate].
          destruct (cie_get_decoded_ok s1 eh (ent_cie e) l ce HI1 Hh1 ltac:(lia) Ece ltac:(lia)) as (s2 & l2 & E2 & HI2 & X2 & Hh2).
          rewrite (bind_ok _ _ _ _ _ E2).
          assert (Hp : p_cfi_table P eh i (Some (ent_table ce)) = Ok (ent_table e)).
          { unfold P. pcbn. rewrite He. destruct (Z.eqb_spec (ent_kind e) 0); [lia|]. rewrite Ece, Z.eqb_refl. reflexivity. }
          rewrite Hp, bind_lift_ok. rewrite (bind_ok _ _ _ _ _ (memo_set_ok s2 eh i l2 _ Hh2)).
          eexists. split; [reflexivity|]. split; [|eapply ext_trans; [exact X2|apply ext_upd_held]].
          apply Inv_upd_held; [exact HI2|]. intros l' E. inversion E.
          apply held_ok_upd; [apply (inv_cfis _ _ HI2 _ _ Hh2)|exact He]. }
    destruct Hdec as (s2 & E2 & HI2 & X2).
    eapply query_finish with (s' := s2) (r := Ok (AVals [ent_table e])); [exact Hfr| |exact HI2|eapply ext_trans; eauto| |reflexivity].
    - assert (Ecd : cfi_decoded P eh i s = (s2, Ok (ent_table e))).
      { unfold cfi_decoded. rewrite bind_get_state. rewrite bind_get_state in E1. rewrite (bind_ok _ _ _ _ _ E1).
        rewrite Hrange. exact E2. }
      cbn [run_op]. rewrite (bind_ok _ _ _ _ _ Ecd). reflexivity.
    - cbn [ans_of query_spec]. rewrite He. reflexivity.
  Qed.

  (* ================================================================ ELF level *)
  Lemma Inv_curlen s : Inv F s -> curlen s.
  Proof. intros HI. apply (inv_cur _ _ HI). Qed.

  Lemma ref_ENumSections s afs : Inv F s -> frames_rel F s afs -> refines s afs ENumSections.
  Proof.
    intros HI Hfr. eapply query_finish with (s' := s) (r := Ok (AVals [f_shnum F])); qf.
    - cbn [run_op]. rewrite (bind_ok _ _ _ _ _ (num_sections_ok F WFe fuel Hfd s)). reflexivity.
    - apply ext_refl.
  Qed.

  Lemma ref_ESection s afs n : Inv F s -> frames_rel F s afs -> valid_op F (ESection n) = true -> refines s afs (ESection n).
  Proof.
    intros HI Hfr Hv. cbn [valid_op] in Hv.
    destruct (get_section_ok F WFe fuel Hfd s n (Inv_curlen _ HI) Hv) as (v & Hsv & (c1 & E1 & L1)).
    eapply query_finish with (s' := set_cur s c1) (r := Ok (AVals v)); qf.
    - cbn [run_op]. rewrite (bind_ok _ _ _ _ _ E1). reflexivity.
    - apply Inv_set_cur; auto.
    - apply ext_set_cur.
    - cbn [ans_of query_spec]. rewrite Hv, Hsv. reflexivity.
  Qed.

  Lemma ref_ESectionTyped s afs n ty : Inv F s -> frames_rel F s afs -> valid_op F (ESectionTyped n ty) = true ->
    refines s afs (ESectionTyped n ty).
  Proof.
    intros HI Hfr Hv. cbn [valid_op] in Hv.
    destruct (in_table_nth _ _ Hv) as ([h e] & Hnth). pose proof (in_table_range _ _ Hv) as Hr.
    destruct (get_section_header_ok F WFe fuel Hfd s n h e (Inv_curlen _ HI) ltac:(lia) Hnth) as (c1 & E1 & L1).
    fold P in E1.
    destruct (Z.eqb_spec (sh_ty h) ty) as [Ety|Ety].
    - destruct (get_section_ok F WFe fuel Hfd s n (Inv_curlen _ HI) Hv) as (v & Hsv & (c2 & E2 & L2)).
      eapply query_finish with (s' := set_cur s c2) (r := Ok (AVals v)); [exact Hfr| | | | |reflexivity].
      + assert (Eg : get_section_typed P n ty s = (set_cur s c2, Ok v)).
        { unfold get_section_typed. rewrite (bind_ok _ _ _ _ _ E1).
          destruct (Z.eqb_spec (sh_ty h) ty); [|contradiction]. cbn [negb].
          unfold get_section in E2. fold P in E2. rewrite (bind_ok _ _ _ _ _ E1) in E2. exact E2. }
        cbn [run_op]. rewrite (bind_ok _ _ _ _ _ Eg). reflexivity.
      + apply Inv_set_cur; auto.
      + apply ext_set_cur.
      + cbn [ans_of query_spec]. rewrite Hnth. destruct (Z.eqb_spec (sh_ty h) ty); [|contradiction]. rewrite Hsv. reflexivity.
    - eapply query_finish with (s' := set_cur s c1) (r := Err EElf); [exact Hfr| | | | |reflexivity].
      + assert (Eg : get_section_typed P n ty s = (set_cur s c1, Err EElf)).
        { unfold get_section_typed. rewrite (bind_ok _ _ _ _ _ E1).
          destruct (Z.eqb_spec (sh_ty h) ty); [contradiction|]. reflexivity. }
        cbn [run_op]. rewrite (bind_err _ _ _ _ _ Eg). reflexivity.
      + apply Inv_set_cur; auto.
      + apply ext_set_cur.
      + cbn [ans_of query_spec]. rewrite Hnth. destruct (Z.eqb_spec (sh_ty h) ty); [contradiction|]. reflexivity.
  Qed.

  Lemma ref_RefetchDwarf s afs : Inv F s -> frames_rel F s afs -> refines s afs RefetchDwarf.
  Proof.
    intros HI Hfr. eapply query_finish with (s' := s) (r := Ok ADone); [exact Hfr|reflexivity|exact HI|apply ext_refl|reflexivity|reflexivity].
  Qed.

  (* an entry lookup outside the entries of its unit raises DWARFError after the unit was fetched (and cached) *)
  Lemma ref_DIEAtOutside s afs u o : Inv F s -> frames_rel F s afs -> valid_op F (DIEAtOutside u o) = true ->
    refines s afs (DIEAtOutside u o).
  Proof.
    intros HI Hfr Hv. cbn [valid_op] in Hv. destruct (unit_at F u) as [ud|] eqn:Hu; [|discriminate].
    destruct (get_CU_at_ok F WF fuel Hfu s u ud HI Hu) as (s1 & cu & E1 & HI1 & X1 & (c & Hc & Eo)).
    destruct (cu_facts F WF fuel Hfu _ _ _ HI1 Hc) as (ud' & Hu' & Eh & Ed & _).
    rewrite Eo in Hu'. assert (ud' = ud) by congruence. subst ud'.
    destruct (unit_at_in F WF _ _ Hu) as [_ Euo].
    eapply query_finish with (s' := s1) (r := Err EDwarf); [exact Hfr| |exact HI1|exact X1|reflexivity|reflexivity].
    assert (Ed' : the_DIE P u o s = (s1, Err EDwarf)).
    { unfold the_DIE. fold P in E1. rewrite (bind_ok _ _ _ _ _ E1). unfold cu_get_DIE_from_refaddr.
      rewrite (bind_get_cu _ _ _ _ Hc). rewrite Ed, Eo, Eh.
      destruct ((ud_die_off ud <=? o) && (o <? u + uh_size (ud_hdr ud))) eqn:Hc2; [exfalso; lia|reflexivity]. }
    cbn [run_op]. rewrite (bind_err _ _ _ _ _ Ed'). reflexivity.
  Qed.

  (* a unit lookup that raises leaves nothing behind but the cursor: every later query still gets its stateless answer *)
  Lemma ref_CUAtFailing s afs off e c : Inv F s -> frames_rel F s afs -> refines s afs (CUAtFailing off e c).
  Proof.
    intros HI Hfr. destruct (Z.leb_spec 0 c).
    - eapply query_finish with (s' := set_cur s (upd_nth S_INFO (fun _ => c) (cur s))) (r := Err e);
        [exact Hfr| | | |reflexivity|reflexivity].
      + cbn [run_op]. destruct (Z.leb_spec 0 c); [reflexivity|lia].
      + apply Inv_set_cur; auto. apply upd_nth_length.
      + apply ext_set_cur.
    - eapply query_finish with (s' := s) (r := Err e); [exact Hfr| |exact HI|apply ext_refl|reflexivity|reflexivity].
      cbn [run_op]. destruct (Z.leb_spec 0 c); [lia|reflexivity].
  Qed.

  Lemma ref_ESectionByName s afs name : Inv F s -> frames_rel F s afs -> refines s afs (ESectionByName name).
  Proof.
    intros HI Hfr.
    assert (Hmap : exists c1, (match e_secmap s with None => make_section_name_map P | Some _ => ret tt end) s =
                     (set_cur (set_secmap s (Some (secmap_spec F))) c1, Ok tt) /\ length c1 = length (cur s)).
    { destruct (e_secmap s) as [m|] eqn:Em.
      - exists (cur s). split; [|reflexivity]. rewrite (inv_secmap _ _ HI _ Em) in Em. unfold ret. f_equal.
        destruct s; cbn in *; subst; reflexivity.
      - apply (make_section_name_map_ok F WFe fuel Hfd s (Inv_curlen _ HI)). }
    destruct Hmap as (c1 & E1 & L1).
    set (s1 := set_cur (set_secmap s (Some (secmap_spec F))) c1) in *.
    assert (HI1 : Inv F s1).
    { destruct HI as [I1 I2 I3 I4 I5 I6 I7 I8 I9 I10 I11 I12 I13]. unfold s1. constructor; scbn; auto; [congruence|]. intros m E. congruence. }
    assert (X1 : ext s s1) by ext_triv.
    destruct (dict_get Z.eqb (secmap_spec F) name) as [i|] eqn:Hg.
    - pose proof (secmap_spec_in F WFe fuel Hfd _ _ Hg) as Hin.
      destruct (get_section_ok F WFe fuel Hfd s1 i (Inv_curlen _ HI1) Hin) as (v & Hsv & (c2 & E2 & L2)).
      eapply query_finish with (s' := set_cur s1 c2) (r := Ok (AVals v)); qf.
      + assert (Egs : get_section_by_name P name s = (set_cur s1 c2, Ok (Some v))).
        { unfold get_section_by_name. rewrite bind_get_state, (bind_ok _ _ _ _ _ E1), bind_get_state.
          replace (e_secmap s1) with (Some (secmap_spec F)) by reflexivity.
          rewrite Hg. rewrite (bind_ok _ _ _ _ _ E2). reflexivity. }
        cbn [run_op]. rewrite (bind_ok _ _ _ _ _ Egs). reflexivity.
      + apply Inv_set_cur; auto.
      + cbn [ans_of query_spec]. rewrite Hg, Hsv. reflexivity.
    - eapply query_finish with (s' := s1) (r := Ok ANone); qf.
      + assert (Egs : get_section_by_name P name s = (s1, Ok None)).
        { unfold get_section_by_name. rewrite bind_get_state, (bind_ok _ _ _ _ _ E1), bind_get_state.
          replace (e_secmap s1) with (Some (secmap_spec F)) by reflexivity.
          rewrite Hg. reflexivity. }
        cbn [run_op]. rewrite (bind_ok _ _ _ _ _ Egs). reflexivity.
      + cbn [ans_of query_spec]. rewrite Hg. reflexivity.
  Qed.

  Lemma ref_ESegment s afs n : Inv F s -> frames_rel F s afs -> valid_op F (ESegment n) = true -> refines s afs (ESegment n).
  Proof.
    intros HI Hfr Hv. cbn [valid_op] in Hv.
    destruct (get_segment_ok F WFe fuel Hfd s n (Inv_curlen _ HI) Hv) as (h & e & Hn & (c1 & E1 & L1)).
    eapply query_finish with (s' := set_cur s c1) (r := Ok (AVals [ph_pid h])); qf.
    - cbn [run_op]. rewrite (bind_ok _ _ _ _ _ E1). reflexivity.
    - apply Inv_set_cur; auto.
    - apply ext_set_cur.
    - cbn [ans_of query_spec]. rewrite Hv, Hn. reflexivity.
  Qed.

  Lemma ref_ESymbol s afs n : Inv F s -> frames_rel F s afs -> valid_op F (ESymbol n) = true -> refines s afs (ESymbol n).
  Proof.
    intros HI Hfr Hv. cbn [valid_op] in Hv.
    destruct (get_symbol_ok F WFe fuel Hfd s n (Inv_curlen _ HI) Hv) as (v & Hsv & (c1 & E1 & L1)).
    eapply query_finish with (s' := set_cur s c1) (r := Ok (AVals v)); qf.
    - cbn [run_op]. rewrite (bind_ok _ _ _ _ _ E1). reflexivity.
    - apply Inv_set_cur; auto.
    - apply ext_set_cur.
    - cbn [ans_of query_spec]. rewrite Hv, Hsv. reflexivity.
  Qed.

  Lemma ref_EString s afs off : Inv F s -> frames_rel F s afs -> valid_op F (EString off) = true -> refines s afs (EString off).
  Proof.
    intros HI Hfr Hv. cbn [valid_op] in Hv.
    destruct (str_at F (f_strtab_base F + off)) as [v|] eqn:Hs; [|discriminate].
    destruct (get_string_ok F WFe fuel Hfd s _ _ v (Inv_curlen _ HI) Hs) as (c1 & E1 & L1).
    eapply query_finish with (s' := set_cur s c1) (r := Ok (AVals [v])); qf.
    - cbn [run_op]. replace (p_strtab_base P) with (f_strtab_base F) by reflexivity.
      rewrite (bind_ok _ _ _ _ _ E1). reflexivity.
    - apply Inv_set_cur; auto.
    - apply ext_set_cur.
    - cbn [ans_of query_spec]. rewrite Hs. reflexivity.
  Qed.

  Lemma ref_ESymbolByName s afs name : Inv F s -> frames_rel F s afs -> valid_op F (ESymbolByName name) = true ->
    refines s afs (ESymbolByName name).
  Proof.
    intros HI Hfr Hv. cbn [valid_op] in Hv.
    assert (Hmap : exists c1, (match e_symmap s with
                     | None => modify (fun s1 => set_symmap s1 (Some []));;; symmap_loop P (Z.to_nat (p_sym_count P)) 0
                     | Some _ => ret tt end) s =
                     (set_cur (set_symmap s (Some (symmap_spec F))) c1, Ok tt) /\ length c1 = length (cur s)).
    { destruct (e_symmap s) as [m|] eqn:Em.
      - exists (cur s). split; [|reflexivity]. rewrite (inv_symmap _ _ HI _ Em) in Em. unfold ret. f_equal.
        destruct s; cbn in *; subst; reflexivity.
      - rewrite bind_modify.
        edestruct (symmap_loop_ok F WFe fuel Hfd (Z.to_nat (p_sym_count P)) 0%nat (set_symmap s (Some [])) [])
          as (c1 & E1 & L1); [apply (Inv_curlen _ HI) | reflexivity | |].
        + unfold P. pcbn. unfold f_sym_count, zlen. lia.
        + exists c1. cbn [Z.of_nat] in E1. fold P in E1. rewrite E1. split; [|exact L1].
          unfold symmap_spec, symbol_names. unfold P. pcbn. unfold f_sym_count, zlen. rewrite Nat2Z.id. reflexivity. }
    destruct Hmap as (c1 & E1 & L1).
    set (s1 := set_cur (set_symmap s (Some (symmap_spec F))) c1) in *.
    assert (HI1 : Inv F s1).
    { destruct HI as [I1 I2 I3 I4 I5 I6 I7 I8 I9 I10 I11 I12 I13]. unfold s1. constructor; scbn; auto; [congruence|]. intros m E. congruence. }
    assert (X1 : ext s s1) by ext_triv.
    destruct (dict_get Z.eqb (symmap_spec F) name) as [[|i0 l]|] eqn:Hg.
    - eapply query_finish with (s' := s1) (r := Ok ANone); qf.
      + assert (Egs : get_symbol_by_name P name s = (s1, Ok None)).
        { unfold get_symbol_by_name. rewrite bind_get_state, (bind_ok _ _ _ _ _ E1), bind_get_state.
          replace (e_symmap s1) with (Some (symmap_spec F)) by reflexivity.
          rewrite Hg. reflexivity. }
        cbn [run_op]. rewrite (bind_ok _ _ _ _ _ Egs). reflexivity.
      + cbn [ans_of query_spec]. rewrite Hg. reflexivity.
    - pose proof (symmap_spec_in F WFe fuel Hfd _ _ Hg) as Hin.
      destruct (get_symbols_ok F WFe fuel Hfd (i0 :: l) s1 (Inv_curlen _ HI1) Hin) as (v & Hsv & (c2 & E2 & L2)).
      eapply query_finish with (s' := set_cur s1 c2) (r := Ok (AVals v)); qf.
      + assert (Egs : get_symbol_by_name P name s = (set_cur s1 c2, Ok (Some v))).
        { unfold get_symbol_by_name. rewrite bind_get_state, (bind_ok _ _ _ _ _ E1), bind_get_state.
          replace (e_symmap s1) with (Some (symmap_spec F)) by reflexivity.
          rewrite Hg. rewrite (bind_ok _ _ _ _ _ E2). reflexivity. }
        cbn [run_op]. rewrite (bind_ok _ _ _ _ _ Egs). reflexivity.
      + apply Inv_set_cur; auto.
      + cbn [ans_of query_spec]. rewrite Hg, Hsv. reflexivity.
    - eapply query_finish with (s' := s1) (r := Ok ANone); qf.
      + assert (Egs : get_symbol_by_name P name s = (s1, Ok None)).
        { unfold get_symbol_by_name. rewrite bind_get_state, (bind_ok _ _ _ _ _ E1), bind_get_state.
          replace (e_symmap s1) with (Some (symmap_spec F)) by reflexivity.
          rewrite Hg. reflexivity. }
        cbn [run_op]. rewrite (bind_ok _ _ _ _ _ Egs). reflexivity.
      + cbn [ans_of query_spec]. rewrite Hg. reflexivity.
  Qed.

  Lemma has_dyn_facts : has_dyn F = true -> 0 < f_dyn_entsize F /\ exists nt, count_tags (f_dyns F) = Some nt.
  Proof.
    unfold has_dyn. intros H. apply andb_prop in H. destruct H as [H1 H2]. split; [lia|].
    destruct (count_tags (f_dyns F)); [eauto|discriminate].
  Qed.

  Lemma Inv_numtags s nt c : Inv F s -> count_tags (f_dyns F) = Some nt -> length c = length (cur s) ->
    Inv F (set_cur (set_numtags s nt) c).
  Proof. intros [I1 I2 I3 I4 I5 I6 I7 I8 I9 I10 I11 I12 I13] Hc Hl. constructor; scbn; auto. congruence. Qed.

  Lemma numtags_state s nt : Inv F s -> count_tags (f_dyns F) = Some nt -> e_numtags s = -1 \/ e_numtags s = nt.
  Proof. intros HI Hc. destruct (inv_numtags _ _ HI) as [E|E]; [auto|right; congruence]. Qed.

  Lemma ref_ENumTags s afs : Inv F s -> frames_rel F s afs -> valid_op F ENumTags = true -> refines s afs ENumTags.
  Proof.
    intros HI Hfr Hv. cbn [valid_op] in Hv. destruct (has_dyn_facts Hv) as (Hes & nt & Hct).
    destruct (num_tags_ok F WFe fuel Hfd s nt (Inv_curlen _ HI) Hct Hes (numtags_state _ _ HI Hct)) as (c1 & E1 & L1).
    eapply query_finish with (s' := set_cur (set_numtags s nt) c1) (r := Ok (AVals [nt])); qf.
    - cbn [run_op]. rewrite (bind_ok _ _ _ _ _ E1). reflexivity.
    - apply Inv_numtags; auto.
    - ext_triv.
    - cbn [ans_of query_spec]. rewrite Hct. reflexivity.
  Qed.

  Lemma ref_EGetTag s afs n : Inv F s -> frames_rel F s afs -> valid_op F (EGetTag n) = true -> refines s afs (EGetTag n).
  Proof.
    intros HI Hfr Hv. cbn [valid_op] in Hv. apply andb_prop in Hv. destruct Hv as [Hv Hn].
    destruct (has_dyn_facts Hv) as (Hes & nt & Hct).
    destruct (num_tags_ok F WFe fuel Hfd s nt (Inv_curlen _ HI) Hct Hes (numtags_state _ _ HI Hct)) as (c1 & E1 & L1).
    set (s1 := set_cur (set_numtags s nt) c1) in *.
    assert (HI1 : Inv F s1) by (apply Inv_numtags; auto).
    assert (X1 : ext s s1) by ext_triv.
    destruct (Z.leb_spec nt n) as [Hge|Hlt].
    - eapply query_finish with (s' := s1) (r := Err (EPy "IndexError")); qf.
      + assert (Egt : get_tag P fuel n s = (s1, Err (EPy "IndexError"))).
        { unfold get_tag. rewrite (bind_ok _ _ _ _ _ E1). destruct (Z.leb_spec nt n); [reflexivity|lia]. }
        cbn [run_op]. rewrite (bind_err _ _ _ _ _ Egt). reflexivity.
      + cbn [ans_of query_spec]. rewrite Hct. destruct (Z.leb_spec nt n); [reflexivity|lia].
    - destruct (count_tags_spec _ _ Hct) as (Hb & _).
      destruct (nth_error (f_dyns F) (Z.to_nat n)) as [[t e]|] eqn:Hnth; [|apply nth_error_None in Hnth; unfold zlen in Hb; lia].
      assert (X : cur_only (raw_get_tag P n) s1 (Ok t)).
      { eapply (raw_get_tag_ok F WFe fuel Hfd); eauto; try lia; try (apply (Inv_curlen _ HI1)); try (right; exact Hlt). }
      destruct X as (c2 & E2 & L2).
      destruct (cur_only_apply_eff (dy_eff t) (set_cur s1 c2)) as (c3 & E3 & L3).
      eapply query_finish with (s' := set_cur s1 c3) (r := Ok (AVals [dy_pid t])); qf.
      + assert (Egt : get_tag P fuel n s = (set_cur s1 c3, Ok [dy_pid t])).
        { unfold get_tag. rewrite (bind_ok _ _ _ _ _ E1). fold s1.
          destruct (Z.leb_spec nt n); [lia|]. rewrite (bind_ok _ _ _ _ _ E2).
          rewrite (bind_ok _ _ _ _ _ E3). reflexivity. }
        cbn [run_op]. rewrite (bind_ok _ _ _ _ _ Egt). reflexivity.
      + apply Inv_set_cur; auto. cbn [cur set_cur] in L3. congruence.
      + cbn [ans_of query_spec]. rewrite Hct. destruct (Z.leb_spec nt n); [lia|]. rewrite Hnth. reflexivity.
  Qed.
End Main.
