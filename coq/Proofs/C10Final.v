(* Proofs/C10Final.v — C10: the refinement theorem for one step, its lift to every finite history,
   the corollaries (an answer does not depend on the history; repeated queries agree; sequential
   iteration and random access agree), the witness of the known finding. *)
From PV Require Import Spec.C10Spec Proofs.C10Base Proofs.C10Tree Proofs.C10Elf Proofs.C10Units Proofs.C10Lines
  Proofs.C10Main Proofs.C10Top Proofs.C10TUs Proofs.C10NavTop.
From Coq Require Import ZArith List Bool Lia ZifyBool.
Import ListNotations.
Open Scope Z_scope.

Lemma is_query_spec F afs o : is_query o = true -> spec_step F afs o = (afs, query_spec F o).
Proof. destruct o; cbn; intros H; try discriminate; reflexivity. Qed.

(* ---- run / spec_run, unfolded *)
Section Runs.
  Variable P : parsers.
  Variable fuel : nat.
  Variable F : file.

  Let f := fun (acc : state * list answer) (o : op) => let '(s', a) := step P fuel (fst acc) o in (s', snd acc ++ [a]).
  Let g := fun (acc : list aframe * list answer) (o : op) => let '(a', x) := spec_step F (fst acc) o in (a', snd acc ++ [x]).

  Lemma run_acc h : forall s acc,
    fold_left f h (s, acc) = (fst (run P fuel s h), acc ++ snd (run P fuel s h)).
  Proof.
    unfold run. fold f. induction h as [|o h IH]; intros s acc; cbn [fold_left].
    - cbn. rewrite app_nil_r. reflexivity.
    - unfold f at 2 4 6. cbn [fst snd]. destruct (step P fuel s o) as [s' a]. cbn [app].
      rewrite (IH s' (acc ++ [a])), (IH s' [a]). cbn [fst snd]. rewrite <- app_assoc. reflexivity.
  Qed.

  Lemma run_cons s o h :
    run P fuel s (o :: h) = (fst (run P fuel (fst (step P fuel s o)) h),
                             snd (step P fuel s o) :: snd (run P fuel (fst (step P fuel s o)) h)).
  Proof.
    unfold run at 1. fold f. cbn [fold_left]. unfold f at 2. cbn [fst snd].
    destruct (step P fuel s o) as [s' a]. cbn [app fst snd]. rewrite run_acc. reflexivity.
  Qed.

  Lemma spec_run_acc h : forall afs acc,
    fold_left g h (afs, acc) = (fst (spec_run F afs h), acc ++ snd (spec_run F afs h)).
  Proof.
    unfold spec_run. fold g. induction h as [|o h IH]; intros afs acc; cbn [fold_left].
    - cbn. rewrite app_nil_r. reflexivity.
    - unfold g at 2 4 6. cbn [fst snd]. destruct (spec_step F afs o) as [a' x]. cbn [app].
      rewrite (IH a' (acc ++ [x])), (IH a' [x]). cbn [fst snd]. rewrite <- app_assoc. reflexivity.
  Qed.

  Lemma spec_run_cons afs o h :
    spec_run F afs (o :: h) = (fst (spec_run F (fst (spec_step F afs o)) h),
                               snd (spec_step F afs o) :: snd (spec_run F (fst (spec_step F afs o)) h)).
  Proof.
    unfold spec_run at 1. fold g. cbn [fold_left]. unfold g at 2. cbn [fst snd].
    destruct (spec_step F afs o) as [a' x]. cbn [app fst snd]. rewrite spec_run_acc. reflexivity.
  Qed.

  Lemma run_app s h1 h2 :
    run P fuel s (h1 ++ h2) = (fst (run P fuel (fst (run P fuel s h1)) h2),
                               snd (run P fuel s h1) ++ snd (run P fuel (fst (run P fuel s h1)) h2)).
  Proof.
    revert s. induction h1 as [|o h1 IH]; intros s.
    - cbn [app]. change (run P fuel s []) with (s, @nil answer). cbn [fst snd app]. destruct (run P fuel s h2); reflexivity.
    - cbn [app]. rewrite !run_cons. cbn [fst snd]. rewrite IH. cbn [fst snd]. reflexivity.
  Qed.

  Lemma spec_run_app afs h1 h2 :
    spec_run F afs (h1 ++ h2) = (fst (spec_run F (fst (spec_run F afs h1)) h2),
                                 snd (spec_run F afs h1) ++ snd (spec_run F (fst (spec_run F afs h1)) h2)).
  Proof.
    revert afs. induction h1 as [|o h1 IH]; intros afs.
    - cbn [app]. change (spec_run F afs []) with (afs, @nil answer). cbn [fst snd app]. destruct (spec_run F afs h2); reflexivity.
    - cbn [app]. rewrite !spec_run_cons. cbn [fst snd]. rewrite IH. cbn [fst snd]. reflexivity.
  Qed.

End Runs.

Section Final.
  Set Default Proof Using "All".
  Variable F : file.
  Hypothesis WF : wf_file F = true.
  Variable fuel : nat.
  Hypothesis Hfuel : fuel_ok F fuel = true.
  Let P := parsers_of F.

  (* ================================================================ one step *)
  Theorem step_refines s afs o : Inv F s -> frames_rel F s afs -> op_ok F o = true ->
    snd (step P fuel s o) = snd (spec_step F afs o) /\
    Inv F (fst (step P fuel s o)) /\ frames_rel F (fst (step P fuel s o)) (fst (spec_step F afs o)).
  Proof.
    intros HI Hfr Hok. unfold op_ok in Hok. apply andb_prop in Hok. destruct Hok as [Hv Hout].
    change (refines F fuel s afs o).
    destruct o.
    - apply ref_Disturb; auto.
    - apply ref_CUAt; auto.
    - apply ref_CUContaining; auto.
    - apply ref_TopDIE; auto.
    - apply ref_DIEAt; auto.
    - apply ref_DIEGlobal; auto.
    - apply ref_Parent; auto.
    - apply ref_FollowRef; auto.
    - apply ref_LineProg; auto.
    - apply ref_LineEntries; auto.
    - apply ref_CFI; auto.
    - apply ref_CFIDecoded; auto.
    - apply ref_TUBySig; auto.
    - apply ref_NewIterTUs; auto.
    - apply ref_NewIterCUs; auto.
    - apply ref_NewIterDIEs; auto.
    - apply ref_NewIterChildren; auto.
    - apply ref_NewIterSiblings; auto.
    - apply ref_NewIterSections; auto.
    - apply ref_NewIterSymbols; auto.
    - apply ref_NewIterTags; auto.
    - apply ref_Next; auto.
    - apply ref_ENumSections; auto.
    - apply ref_ESection; auto.
    - apply ref_ESectionByName; auto.
    - apply ref_ESegment; auto.
    - apply ref_ESymbol; auto.
    - apply ref_ESymbolByName; auto.
    - apply ref_EString; auto.
    - apply ref_ENumTags; auto.
    - apply ref_EGetTag; auto.
    - apply ref_ESectionTyped; auto.
    - apply ref_RefetchDwarf; auto.
    - apply ref_DIEAtOutside; auto.
    - apply ref_LineEntriesFailing; auto.
    - apply ref_CUAtFailing; auto.
  Qed.

  (* ================================================================ every finite history *)
  Theorem history_refines h : forall s afs, Inv F s -> frames_rel F s afs -> forallb (op_ok F) h = true ->
    snd (run P fuel s h) = snd (spec_run F afs h) /\
    Inv F (fst (run P fuel s h)) /\ frames_rel F (fst (run P fuel s h)) (fst (spec_run F afs h)).
  Proof.
    induction h as [|o h IH]; intros s afs HI Hfr Hok.
    - cbn. auto.
    - cbn [forallb] in Hok. apply andb_prop in Hok. destruct Hok as [Ho Hh].
      destruct (step_refines s afs o HI Hfr Ho) as (Ea & HI1 & Hfr1).
      destruct (IH _ _ HI1 Hfr1 Hh) as (Er & HI2 & Hfr2).
      rewrite run_cons, spec_run_cons. cbn [fst snd]. rewrite Ea, Er. auto.
  Qed.

  Lemma frames_rel_init n : frames_rel F (init_state n) (repeat AFEmpty n).
  Proof.
    unfold frames_rel. cbn [frames init_state]. generalize (init_state n). intros s.
    induction n as [|n IH]; cbn [repeat]; constructor; [constructor|exact IH].
  Qed.

  (* from a freshly opened object *)
  Theorem history_independent n h : forallb (op_ok F) h = true ->
    snd (run P fuel (init_state n) h) = snd (spec_run F (repeat AFEmpty n) h).
  Proof.
    intros Hok. apply (history_refines h (init_state n) (repeat AFEmpty n)); auto.
    - apply Inv_init.
    - apply frames_rel_init.
  Qed.

  (* a query asked after ANY history gets the stateless answer, i.e. the answer a freshly opened
     object gives *)
  Theorem query_after_history n h o : forallb (op_ok F) (h ++ [o]) = true -> is_query o = true ->
    snd (step P fuel (fst (run P fuel (init_state n) h)) o) = query_spec F o /\
    snd (step P fuel (init_state n) o) = query_spec F o.
  Proof.
    intros Hok Hq. rewrite forallb_app in Hok. apply andb_prop in Hok. destruct Hok as [Hh Ho].
    cbn [forallb] in Ho. rewrite andb_true_r in Ho.
    destruct (history_refines h (init_state n) (repeat AFEmpty n) (Inv_init F n) (frames_rel_init n) Hh)
      as (_ & HI & Hfr).
    destruct (step_refines _ _ o HI Hfr Ho) as (Ea & _).
    rewrite (is_query_spec F _ o Hq) in Ea. split; [exact Ea|].
    destruct (step_refines _ _ o (Inv_init F n) (frames_rel_init n) Ho) as (Eb & _).
    rewrite (is_query_spec F _ o Hq) in Eb. exact Eb.
  Qed.

  (* in particular the decoded call-frame table of an entry does not depend on which entries of the list were
     decoded before (an FDE decodes its CIE on the way; a CIE may have been decoded by any of its FDEs) *)
  Corollary cfi_decoded_after_history n h eh i : forallb (op_ok F) (h ++ [CFIDecoded eh i]) = true ->
    snd (step P fuel (fst (run P fuel (init_state n) h)) (CFIDecoded eh i)) = query_spec F (CFIDecoded eh i).
  Proof. intros Hok. apply (query_after_history n h (CFIDecoded eh i) Hok eq_refl). Qed.

  (* repeated identical queries return equal results, whatever happens in between *)
  Theorem repeated_queries_equal n h1 h2 o :
    forallb (op_ok F) (h1 ++ o :: h2 ++ [o]) = true -> is_query o = true ->
    let s1 := fst (run P fuel (init_state n) h1) in
    let s2 := fst (run P fuel (init_state n) (h1 ++ o :: h2)) in
    snd (step P fuel s1 o) = snd (step P fuel s2 o).
  Proof.
    intros Hok Hq s1 s2.
    assert (E : h1 ++ o :: h2 ++ [o] = (h1 ++ o :: h2) ++ [o]) by (rewrite <- app_assoc; reflexivity).
    pose proof Hok as Hok2. rewrite E in Hok2.
    destruct (query_after_history n (h1 ++ o :: h2) o Hok2 Hq) as [E2 _].
    assert (Hok1 : forallb (op_ok F) (h1 ++ [o]) = true).
    { rewrite forallb_app in Hok |- *. apply andb_prop in Hok. destruct Hok as [A B]. rewrite A.
      cbn [forallb] in B |- *. apply andb_prop in B. destruct B as [B _]. rewrite B. reflexivity. }
    destruct (query_after_history n h1 o Hok1 Hq) as [E1 _].
    unfold s1, s2. rewrite E1, E2. reflexivity.
  Qed.

  (* ================================================================ sequential iteration = random access *)
  Lemma slot_rel s afs slot : frames_rel F s afs -> frame_rel F s (nth slot (frames s) FEmpty) (nth slot afs AFEmpty).
  Proof. intros H. apply Forall2_nth; [exact H|constructor]. Qed.

  Lemma next_spec s afs slot : Inv F s -> frames_rel F s afs ->
    snd (step P fuel s (Next slot)) = snd (spec_step F afs (Next slot)).
  Proof. intros HI Hfr. apply (step_refines s afs (Next slot) HI Hfr). reflexivity. Qed.

  Theorem iter_CUs_agrees s afs slot off : Inv F s -> frames_rel F s afs ->
    nth slot afs AFEmpty = AFCUs off -> off < f_info_size F ->
    valid_op F (CUAt off) = true /\ snd (step P fuel s (Next slot)) = query_spec F (CUAt off).
  Proof.
    intros HI Hfr Hs Hlt. pose proof (slot_rel s afs slot Hfr) as Hrel. rewrite Hs in Hrel.
    inversion Hrel as [|? Hu| | | | | | | |]. subst. destruct (Hu Hlt) as (ud & Hud).
    split; [cbn [valid_op]; unfold has_unit; rewrite Hud; reflexivity|].
    rewrite (next_spec s afs slot HI Hfr). cbn [spec_step]. rewrite Hs. cbn [aframe_next query_spec].
    destruct (Z.ltb_spec off (f_info_size F)); [|lia]. rewrite Hud. reflexivity.
  Qed.

  Theorem iter_sections_agrees s afs slot i : Inv F s -> frames_rel F s afs ->
    nth slot afs AFEmpty = AFSections i -> in_table i (f_shdrs F) = true ->
    snd (step P fuel s (Next slot)) = query_spec F (ESection i).
  Proof.
    intros HI Hfr Hs Hin.
    rewrite (next_spec s afs slot HI Hfr). cbn [spec_step]. rewrite Hs. cbn [aframe_next query_spec]. rewrite Hin.
    destruct (get_section_ok F (WFe F WF fuel Hfuel) fuel (Hfd F WF fuel Hfuel) s i (Inv_curlen F WF fuel Hfuel _ HI) Hin)
      as (v & Hv & _).
    rewrite Hv. reflexivity.
  Qed.

  Theorem iter_symbols_agrees s afs slot i : Inv F s -> frames_rel F s afs ->
    nth slot afs AFEmpty = AFSymbols i -> in_table i (f_syms F) = true ->
    snd (step P fuel s (Next slot)) = query_spec F (ESymbol i).
  Proof.
    intros HI Hfr Hs Hin.
    rewrite (next_spec s afs slot HI Hfr). cbn [spec_step]. rewrite Hs. cbn [aframe_next query_spec]. rewrite Hin.
    destruct (get_symbol_ok F (WFe F WF fuel Hfuel) fuel (Hfd F WF fuel Hfuel) s i (Inv_curlen F WF fuel Hfuel _ HI) Hin)
      as (v & Hv & _).
    rewrite Hv. reflexivity.
  Qed.

  Theorem iter_tags_agrees s afs slot n : Inv F s -> frames_rel F s afs ->
    nth slot afs AFEmpty = AFTags n false ->
    valid_op F (EGetTag n) = true /\ snd (step P fuel s (Next slot)) = query_spec F (EGetTag n).
  Proof.
    intros HI Hfr Hs. pose proof (slot_rel s afs slot Hfr) as Hrel. rewrite Hs in Hrel.
    inversion Hrel as [| | | | | | | | |? ? Hn Hdy Hlt]. subst.
    destruct (has_dyn_facts F WF fuel Hfuel Hdy) as (Hes & nt & Hct). specialize (Hlt eq_refl nt Hct).
    split; [cbn [valid_op]; rewrite Hdy; destruct (Z.leb_spec 0 n); [reflexivity|lia]|].
    rewrite (next_spec s afs slot HI Hfr). cbn [spec_step]. rewrite Hs. cbn [aframe_next query_spec]. rewrite Hct.
    destruct (Z.leb_spec nt n); [lia|].
    destruct (count_tags_spec _ _ Hct) as (Hb & _).
    destruct (nth_error (f_dyns F) (Z.to_nat n)) as [[t e]|] eqn:Hnth; [reflexivity|].
    apply nth_error_None in Hnth. unfold zlen in Hb. lia.
  Qed.

  (* entries: what iter_children / iter_DIEs yield next is the answer of get_DIE_from_refaddr at that offset *)
  Theorem iter_children_agrees s afs slot u acf ud acf' c : Inv F s -> frames_rel F s afs ->
    nth slot afs AFEmpty = AFChildren u acf -> unit_at F u = Some ud ->
    achildren_next (ud_entries ud) acf = (acf', Some c) ->
    snd (step P fuel s (Next slot)) = query_spec F (DIEAt u c).
  Proof.
    intros HI Hfr Hs Hu Hn.
    rewrite (next_spec s afs slot HI Hfr). cbn [spec_step]. rewrite Hs. cbn [aframe_next query_spec]. rewrite Hu, Hn.
    reflexivity.
  Qed.

  Theorem iter_DIEs_agrees s afs slot u ast ud ast' d : Inv F s -> frames_rel F s afs ->
    nth slot afs AFEmpty = AFSubtree u ast -> unit_at F u = Some ud ->
    asubtree_next (ud_entries ud) ast = Some (ast', Some d) ->
    snd (step P fuel s (Next slot)) = query_spec F (DIEAt u d).
  Proof.
    intros HI Hfr Hs Hu Hn.
    rewrite (next_spec s afs slot HI Hfr). cbn [spec_step]. rewrite Hs. cbn [aframe_next query_spec]. rewrite Hu, Hn.
    reflexivity.
  Qed.
End Final.

(* ================================================================ two file objects in one process *)
Theorem product_refines F1 F2 (WF1 : wf_file F1 = true) (WF2 : wf_file F2 = true) fuel1 fuel2
    (Hf1 : fuel_ok F1 fuel1 = true) (Hf2 : fuel_ok F2 fuel2 = true) h :
  forall s1 s2 a1 a2, Inv F1 s1 -> frames_rel F1 s1 a1 -> Inv F2 s2 -> frames_rel F2 s2 a2 ->
    forallb (fun wo : bool * op => op_ok (if fst wo then F2 else F1) (snd wo)) h = true ->
    prod_run (parsers_of F1) (parsers_of F2) fuel1 fuel2 (s1, s2) h = spec_prod_run F1 F2 (a1, a2) h.
Proof.
  induction h as [|[w o] h IH]; intros s1 s2 a1 a2 HI1 Hr1 HI2 Hr2 Hok; [reflexivity|].
  cbn [forallb fst snd] in Hok. apply andb_prop in Hok. destruct Hok as [Ho Hh].
  cbn [prod_run spec_prod_run]. unfold prod_step, spec_prod_step. cbn [fst snd]. destruct w.
  - destruct (step_refines F2 WF2 fuel2 Hf2 s2 a2 o HI2 Hr2 Ho) as (Ea & HI2' & Hr2').
    destruct (step (parsers_of F2) fuel2 s2 o) as [s2' x]. destruct (spec_step F2 a2 o) as [a2' y].
    cbn [fst snd] in *. rewrite Ea. f_equal. apply IH; auto.
  - destruct (step_refines F1 WF1 fuel1 Hf1 s1 a1 o HI1 Hr1 Ho) as (Ea & HI1' & Hr1').
    destruct (step (parsers_of F1) fuel1 s1 o) as [s1' x]. destruct (spec_step F1 a1 o) as [a1' y].
    cbn [fst snd] in *. rewrite Ea. f_equal. apply IH; auto.
Qed.

(* ================================================================ the known finding *)
(* header.file_entry grows when get_entries() runs a DW_LNE_define_file: the answer of LineProg depends
   on whether LineEntries was asked before *)
Theorem lineprog_file_entry_refuted :
  exists F fuel h o, wf_file F = true /\ fuel_ok F fuel = true /\ forallb (valid_op F) (h ++ [o]) = true /\
    is_query o = true /\
    snd (step (parsers_of F) fuel (fst (run (parsers_of F) fuel (init_state 0) h)) o) <>
    snd (step (parsers_of F) fuel (init_state 0) o).
Proof.
  exists ex_file, 40%nat, [LineEntries 0], (LineProg 0).
  split; [vm_compute; reflexivity|]. split; [vm_compute; reflexivity|]. split; [vm_compute; reflexivity|].
  split; [reflexivity|]. vm_compute. discriminate.
Qed.
