(* Proofs/C12Proofs.v — lemmas for property C12 (DWARF expressions). *)
From Coq Require Import ZifyBool.
From PV Require Import Base.Outcome Base.Prim Spec.PrimSpec Proofs.PrimProofs
                       Spec.C12Spec Model.C12Expr.
Open Scope string_scope.
Open Scope Z_scope.
Open Scope list_scope.

(* ================================================================ tables *)
(* the dispatch table of the live module with the live names attached *)
Definition gen_optable : list (Z * (string * list opkind)) :=
  map (fun '(o, ks) => (o, (opcode2name o, ks))) gen_dispatch.

(* finite: both sides are closed terms (the Gen table has at most 256 rows) *)
Lemma dispatch_matches_standard : gen_optable = spec_optable.
Proof. vm_compute. reflexivity. Qed.

Lemma zlookup_map_names (f : Z -> string) (l : list (Z * list opkind)) k :
  zlookup (map (fun '(o, ks) => (o, (f o, ks))) l) k =
  match zlookup l k with Some ks => Some (f k, ks) | None => None end.
Proof.
  induction l as [|[o ks] r IH]; [reflexivity|].
  cbn [map zlookup]. destruct (Z.eqb_spec o k) as [->|Hne]; [reflexivity|exact IH].
Qed.

Lemma spec_row_dispatch opc n ks :
  spec_row opc = Some (n, ks) ->
  zlookup gen_dispatch opc = Some ks /\ opcode2name opc = n.
Proof.
  unfold spec_row. rewrite <- dispatch_matches_standard. unfold gen_optable.
  rewrite zlookup_map_names.
  destruct (zlookup gen_dispatch opc) as [ks'|]; [|discriminate].
  intros E. inversion E; subst. split; reflexivity.
Qed.

Lemma spec_row_none_dispatch opc :
  spec_row opc = None -> zlookup gen_dispatch opc = None.
Proof.
  unfold spec_row. rewrite <- dispatch_matches_standard. unfold gen_optable.
  rewrite zlookup_map_names.
  destruct (zlookup gen_dispatch opc) as [ks'|]; [discriminate|reflexivity].
Qed.

(* ================================================================ operands *)
Lemma uleb_ok_valid enc v : uleb_ok enc v = true -> uleb_valid enc v.
Proof.
  unfold uleb_ok. intros H. apply andb_prop in H. destruct H as [Hb H].
  destruct (uleb_spec enc) as [[v' t]|] eqn:E; [|discriminate].
  destruct t as [|x t]; [|discriminate].
  apply Z.eqb_eq in H. subst v'.
  destruct (uleb_spec_sound enc Hb v [] E) as (e & He & Hv).
  rewrite app_nil_r in He. subst e. exact Hv.
Qed.

Lemma sleb_ok_valid enc v : sleb_ok enc v = true -> sleb_valid enc v.
Proof.
  unfold sleb_ok. intros H. apply andb_prop in H. destruct H as [Hb H].
  destruct (sleb_spec enc) as [[v' t]|] eqn:E; [|discriminate].
  destruct t as [|x t]; [|discriminate].
  apply Z.eqb_eq in H. subst v'.
  destruct (sleb_spec_sound enc Hb v [] E) as (e & He & Hv).
  rewrite app_nil_r in He. subst e. exact Hv.
Qed.

Lemma uleb_ok_decode enc v t : uleb_ok enc v = true -> uleb_decode (enc ++ t) = Some (v, t).
Proof. intros H. apply uleb_decode_valid, uleb_ok_valid, H. Qed.
Lemma sleb_ok_decode enc v t : sleb_ok enc v = true -> sleb_decode (enc ++ t) = Some (v, t).
Proof. intros H. apply sleb_decode_valid, sleb_ok_valid, H. Qed.

Lemma uleb_valid_nonempty enc v : uleb_valid enc v -> (1 <= length enc)%nat.
Proof. intros H. destruct H; cbn [length]; lia. Qed.

Lemma in_range_u n v : in_range n false v = true -> 0 <= v < 2 ^ (8 * Z.of_nat n).
Proof. unfold in_range. intros H. apply andb_prop in H. lia. Qed.
Lemma in_range_s n v : in_range n true v = true ->
  - (2 ^ (8 * Z.of_nat n) / 2) <= v < 2 ^ (8 * Z.of_nat n) / 2.
Proof. unfold in_range. intros H. apply andb_prop in H. lia. Qed.

Lemma cfg_ok_addr c : cfg_ok c = true ->
  Z.to_nat (c_addr c) = target_addr_size c /\ (0 < target_addr_size c)%nat.
Proof.
  unfold cfg_ok, target_addr_size. intros H. apply andb_prop in H. destruct H as [H _].
  destruct (Z.eqb_spec (c_addr c) 4) as [->|N4]; [split; [reflexivity|lia]|].
  destruct (Z.eqb_spec (c_addr c) 8) as [E8|N8]; [rewrite E8; split; [reflexivity|lia]|discriminate].
Qed.
Lemma cfg_ok_fmt c : cfg_ok c = true ->
  (if c_fmt c =? 64 then 8%nat else 4%nat) = offset_size c.
Proof.
  unfold cfg_ok, offset_size. intros H. apply andb_prop in H. destruct H as [_ H].
  destruct (Z.eqb_spec (c_fmt c) 32) as [->|N32]; [reflexivity|].
  destruct (Z.eqb_spec (c_fmt c) 64) as [E64|N64]; [reflexivity|discriminate].
Qed.

Lemma read_blob_app (a t : list Z) : read_blob (zlen a) (a ++ t) = Ok (a, t).
Proof.
  unfold read_blob. rewrite zlen_app.
  pose proof (zlen_nonneg t) as Ht.
  destruct (Z.ltb_spec (zlen a + zlen t) (zlen a)) as [Hlt|_]; [lia|].
  unfold zlen. rewrite Nat2Z.id, take_app. reflexivity.
Qed.

Lemma u8_cons le b (t : list Z) : 0 <= b < 256 -> uint_decode le 1 (b :: t) = Some (b, t).
Proof.
  intros Hb. change (b :: t) with ([b] ++ t).
  rewrite (uint_decode_any le [b] t : uint_decode le 1 ([b] ++ t) = _).
  destruct le; cbn; f_equal; f_equal; lia.
Qed.

(* the fixed-size kinds *)
Lemma atom_ok c k n s v t :
  cfg_ok c = true -> fixed_kind c k = Some (n, s) -> (0 < n)%nat -> in_range n s v = true ->
  exists d, read_atom c k = Some d /\ d (int_encode (c_le c) n v ++ t) = Some (v, t).
Proof.
  intros Hc Hk Hn Hr.
  destruct (cfg_ok_addr c Hc) as [Ha Hapos]. pose proof (cfg_ok_fmt c Hc) as Hf.
  destruct k; cbn [fixed_kind] in Hk; try discriminate; inversion Hk; subst n s;
    cbn [read_atom]; eexists; (split; [reflexivity|]);
    try (apply uint_decode_valid; apply in_range_u; exact Hr);
    try (apply sint_decode_valid; [lia|apply in_range_s; exact Hr]).
  - rewrite Ha. apply uint_decode_valid. rewrite <- Ha. apply in_range_u. exact Hr.
  - rewrite Hf. apply uint_decode_valid. rewrite <- Hf. apply in_range_u. exact Hr.
Qed.

Lemma parse_kind_ok self c k x t :
  cfg_ok c = true -> wf_val c k x = true ->
  parse_kind self c k (enc_val c k x ++ t) = Ok (args_of_val x, t).
Proof.
  intros Hc Hw.
  destruct x as [v|enc v|lenc bs|tenc ty bs|tag enc v|v].
  - (* VInt *)
    assert (exists n s, fixed_kind c k = Some (n, s) /\ (0 < n)%nat /\ in_range n s v = true)
      as (n & s & Hk & Hn & Hr).
    { destruct k; cbn [wf_val] in Hw;
        (destruct (fixed_kind c _) as [[n s]|] eqn:E; [|discriminate]);
        apply andb_prop in Hw; destruct Hw as [Hn Hr];
        exists n, s; (split; [reflexivity|split; [apply Nat.ltb_lt; exact Hn|exact Hr]]). }
    destruct (atom_ok c k n s v t Hc Hk Hn Hr) as (d & Hd & Hdec).
    cbn [enc_val args_of_val]. rewrite Hk.
    destruct k; cbn [fixed_kind] in Hk; try discriminate;
      cbn [parse_kind]; rewrite Hd; unfold struct_parse; rewrite Hdec; reflexivity.
  - (* VLeb *)
    destruct k; cbn [wf_val] in Hw; try discriminate; cbn [enc_val args_of_val parse_kind read_atom];
      unfold struct_parse.
    + rewrite (uleb_ok_decode enc v t Hw). reflexivity.
    + rewrite (sleb_ok_decode enc v t Hw). reflexivity.
  - (* VBlock *)
    destruct k; cbn [wf_val] in Hw; try discriminate.
    apply andb_prop in Hw. destruct Hw as [Hl Hb].
    cbn [enc_val args_of_val parse_kind]. unfold struct_parse.
    rewrite <- app_assoc. rewrite (uleb_ok_decode lenc (zlen bs) _ Hl).
    cbn [of_opt bind]. rewrite read_blob_app. reflexivity.
  - (* VTyped *)
    destruct k; cbn [wf_val] in Hw; try discriminate.
    apply andb_prop in Hw. destruct Hw as [Hw Hb]. apply andb_prop in Hw. destruct Hw as [Ht Hlen].
    cbn [enc_val args_of_val parse_kind]. unfold struct_parse.
    rewrite <- app_assoc. rewrite (uleb_ok_decode tenc ty _ Ht). cbn [of_opt bind].
    cbn [app]. rewrite u8_cons by (pose proof (zlen_nonneg bs); apply Z.ltb_lt in Hlen; lia).
    cbn [of_opt bind]. rewrite read_blob_app. reflexivity.
  - (* VWasmLeb *)
    destruct k; cbn [wf_val] in Hw; try discriminate.
    apply andb_prop in Hw. destruct Hw as [Hw Hl]. apply andb_prop in Hw. destruct Hw as [H0 H2].
    cbn [enc_val args_of_val parse_kind]. unfold struct_parse.
    cbn [app]. rewrite u8_cons by lia.
    cbn [of_opt bind]. rewrite H0, H2. cbn [andb].
    rewrite (uleb_ok_decode enc v t Hl). reflexivity.
  - (* VWasmU32 *)
    destruct k; cbn [wf_val] in Hw; try discriminate.
    cbn [enc_val args_of_val parse_kind]. unfold struct_parse.
    cbn [app]. rewrite u8_cons by lia.
    cbn [of_opt bind]. change ((0 <=? 3) && (3 <=? 2)) with false. change (3 =? 3) with true.
    cbn iota. rewrite uint_decode_valid by (apply in_range_u; exact Hw). reflexivity.
Qed.

Lemma parse_args_ok self c : cfg_ok c = true -> forall ks xs t,
  wf_vals c ks xs = true ->
  parse_args self c ks (enc_vals c ks xs ++ t) = Ok (concat (map args_of_val xs), t).
Proof.
  intros Hc ks. induction ks as [|k ks IH]; intros xs t Hw.
  - destruct xs; [reflexivity|discriminate].
  - destruct xs as [|x xs]; [discriminate|].
    cbn [wf_vals] in Hw. apply andb_prop in Hw. destruct Hw as [Hx Hxs].
    cbn [enc_vals parse_args map concat]. rewrite <- app_assoc.
    rewrite (parse_kind_ok self c k x _ Hc Hx). cbn [bind].
    rewrite (IH xs t Hxs). reflexivity.
Qed.

Lemma parse_nested_ok self c lenc (body t : list Z) inner :
  uleb_ok lenc (zlen body) = true -> self body = Ok inner ->
  parse_args self c [NESTED] (lenc ++ body ++ t) = Ok ([AExpr inner], t).
Proof.
  intros Hl Hs. cbn [parse_args parse_kind]. unfold struct_parse.
  rewrite (uleb_ok_decode lenc (zlen body) _ Hl). cbn [of_opt bind].
  rewrite read_blob_app. cbn [bind]. rewrite Hs. reflexivity.
Qed.

Lemma is_nested_eq ks : is_nested ks = true -> ks = [NESTED].
Proof.
  destruct ks as [|k [|k2 r]]; try discriminate; destruct k; try discriminate. reflexivity.
Qed.

Lemma wf_vals_not_nested c xs : wf_vals c [NESTED] xs = false.
Proof.
  destruct xs as [|x xs]; [reflexivity|]. cbn [wf_vals].
  destruct x; reflexivity.
Qed.

(* ================================================================ expressions *)
(* induction over nested expressions (sop is a rose tree through list) *)
Fixpoint sop_ind' (P : sop -> Prop)
    (Hop : forall opc vals, P (SOp opc vals))
    (Hnest : forall opc lenc body, Forall P body -> P (SNest opc lenc body))
    (o : sop) {struct o} : P o :=
  match o with
  | SOp opc vals => Hop opc vals
  | SNest opc lenc body =>
      Hnest opc lenc body
        ((fix go (l : list sop) : Forall P l :=
            match l with
            | [] => Forall_nil P
            | x :: r => Forall_cons x (sop_ind' P Hop Hnest x) (go r)
            end) body)
  end.

Lemma annot_nested c off opc lenc body :
  annot_op c off (SNest opc lenc body) =
  POp opc (name_of opc) [AExpr (annot_from c body 0)] off.
Proof.
  cbn [annot_op]. f_equal. f_equal. f_equal.
  generalize 0 as p. induction body as [|x r IH]; intros p; [reflexivity|].
  cbn [annot_from]. f_equal. apply IH.
Qed.

Lemma encode_ops_cons c x r : encode_ops c (x :: r) = encode_op c x ++ encode_ops c r.
Proof. reflexivity. Qed.

Lemma encode_op_nonempty c o : (1 <= length (encode_op c o))%nat.
Proof. destruct o; cbn [encode_op length]; lia. Qed.

(* one operation followed by anything: the loop body of parse_expr *)
Definition step_ok (c : cfg) (o : sop) : Prop :=
  wf_op c o = true -> forall f rest pos,
  (length (encode_op c o ++ rest) <= f)%nat ->
  parse_expr_fuel (S f) c (encode_op c o ++ rest) pos =
  match parse_expr_fuel f c rest (pos + zlen (encode_op c o)) with
  | Err e => Err e
  | Ok tl => Ok (annot_op c pos o :: tl)
  end.

(* a whole expression *)
Definition list_ok (c : cfg) (ops : list sop) : Prop :=
  wf_ops c ops = true -> forall f pos,
  (length (encode_ops c ops) <= f)%nat ->
  parse_expr_fuel (S f) c (encode_ops c ops) pos = Ok (annot_from c ops pos).

Lemma list_ok_of_steps c ops : Forall (step_ok c) ops -> list_ok c ops.
Proof.
  induction 1 as [|x r Hx Hr IH]; intros Hw f pos Hf.
  - reflexivity.
  - cbn [wf_ops forallb] in Hw. apply andb_prop in Hw. destruct Hw as [Hwx Hwr].
    rewrite encode_ops_cons in *. rewrite (Hx Hwx f (encode_ops c r) pos Hf).
    rewrite app_length in Hf. pose proof (encode_op_nonempty c x) as Hne.
    destruct f as [|f']; [lia|].
    rewrite (IH Hwr f' (pos + zlen (encode_op c x))) by lia.
    reflexivity.
Qed.

Lemma step_ok_all c : cfg_ok c = true -> forall o, step_ok c o.
Proof.
  intros Hc. apply sop_ind'.
  - (* plain operation *)
    intros opc vals Hw f rest pos Hf. cbn [wf_op] in Hw.
    destruct (spec_row opc) as [[n ks]|] eqn:Erow; [|discriminate].
    destruct (spec_row_dispatch opc n ks Erow) as [Hd Hn].
    assert (Hk : kinds_of opc = ks) by (unfold kinds_of; rewrite Erow; reflexivity).
    assert (Hnm : name_of opc = n) by (unfold name_of; rewrite Erow; reflexivity).
    cbn [encode_op]. rewrite Hk. cbn [app parse_expr_fuel]. rewrite Hd.
    rewrite (parse_args_ok _ c Hc ks vals rest Hw).
    cbn [annot_op]. rewrite Hnm, Hn.
    replace (pos + (zlen (opc :: enc_vals c ks vals ++ rest) - zlen rest))
      with (pos + zlen (opc :: enc_vals c ks vals)).
    2:{ rewrite !zlen_cons, zlen_app. lia. }
    reflexivity.
  - (* nested expression *)
    intros opc lenc body Hbody Hw f rest pos Hf. cbn [wf_op] in Hw.
    destruct (spec_row opc) as [[n ks]|] eqn:Erow; [|discriminate].
    apply andb_prop in Hw. destruct Hw as [Hw Hl]. apply andb_prop in Hw. destruct Hw as [Hnest Hwb].
    apply is_nested_eq in Hnest. subst ks.
    destruct (spec_row_dispatch opc n _ Erow) as [Hd Hn].
    assert (Hnm : name_of opc = n) by (unfold name_of; rewrite Erow; reflexivity).
    pose proof (list_ok_of_steps c body Hbody Hwb) as Hlist.
    fold (encode_ops c body) in Hl.
    rewrite annot_nested. cbn [encode_op]. fold (encode_ops c body).
    cbn [app parse_expr_fuel]. rewrite Hd.
    cbn [encode_op] in Hf. fold (encode_ops c body) in Hf.
    cbn [app length] in Hf. rewrite !app_length in Hf.
    pose proof (uleb_valid_nonempty _ _ (uleb_ok_valid _ _ Hl)) as Hlen1.
    destruct f as [|f']; [lia|].
    rewrite <- app_assoc.
    rewrite (parse_nested_ok _ c lenc (encode_ops c body) rest (annot_from c body 0) Hl).
    2:{ apply Hlist. lia. }
    rewrite Hnm, Hn.
    replace (pos + (zlen (opc :: lenc ++ encode_ops c body ++ rest) - zlen rest))
      with (pos + zlen (opc :: lenc ++ encode_ops c body)).
    2:{ rewrite !zlen_cons, !zlen_app. lia. }
    reflexivity.
Qed.

(* C12 main theorem *)
Theorem expr_roundtrip c ops :
  cfg_ok c = true -> wf_ops c ops = true ->
  parse_expr c (encode_ops c ops) = Ok (annotate c ops).
Proof.
  intros Hc Hw. unfold parse_expr, annotate.
  apply list_ok_of_steps; auto.
  apply Forall_forall. intros o _. apply step_ok_all; exact Hc.
Qed.

(* the same with the fuel made explicit: any fuel above the length works, so the
   EFuel outcome of the model is unreachable on the theorem's domain *)
Theorem expr_roundtrip_fuel c ops fuel :
  cfg_ok c = true -> wf_ops c ops = true -> (length (encode_ops c ops) < fuel)%nat ->
  parse_expr_fuel fuel c (encode_ops c ops) 0 = Ok (annotate c ops).
Proof.
  intros Hc Hw Hf. destruct fuel as [|f]; [lia|].
  apply list_ok_of_steps; auto; [|lia].
  apply Forall_forall. intros o _. apply step_ok_all; exact Hc.
Qed.

(* an opcode outside the table (hence outside the property) is a KeyError *)
Theorem unknown_opcode_keyerror c opc rest :
  spec_row opc = None -> parse_expr c (opc :: rest) = Err (EPy "KeyError").
Proof.
  intros H. unfold parse_expr. cbn [length parse_expr_fuel].
  rewrite (spec_row_none_dispatch opc H). reflexivity.
Qed.

(* ================================================================ ill-formed expressions *)
(* what the implementation raises for the two reasons: dict lookup / read_blob *)
Definition bad_err (w : why_bad) : err :=
  match w with NotAnOperation => EPy "KeyError" | BlockTruncated => EParse end.

(* an error behind well-formed operations is the error of the whole expression *)
Lemma prefix_err c : cfg_ok c = true -> forall pre bad e,
  wf_ops c pre = true ->
  (forall f pos, (length bad <= f)%nat -> parse_expr_fuel (S f) c bad pos = Err e) ->
  forall f pos, (length (encode_ops c pre ++ bad) <= f)%nat ->
  parse_expr_fuel (S f) c (encode_ops c pre ++ bad) pos = Err e.
Proof.
  intros Hc pre bad e. induction pre as [|x r IH]; intros Hw Hbad f pos Hf.
  - apply Hbad. exact Hf.
  - cbn [wf_ops forallb] in Hw. apply andb_prop in Hw. destruct Hw as [Hwx Hwr].
    rewrite encode_ops_cons in *. rewrite <- app_assoc in *.
    rewrite (step_ok_all c Hc x Hwx f (encode_ops c r ++ bad) pos Hf).
    rewrite app_length in Hf. pose proof (encode_op_nonempty c x) as Hne.
    destruct f as [|f']; [lia|].
    rewrite (IH Hwr Hbad f' (pos + zlen (encode_op c x))) by lia.
    reflexivity.
Qed.

Lemma bad_opcode_err c opc rest f pos :
  spec_row opc = None -> parse_expr_fuel (S f) c (opc :: rest) pos = Err (EPy "KeyError").
Proof.
  intros H. cbn [parse_expr_fuel]. rewrite (spec_row_none_dispatch opc H). reflexivity.
Qed.

Lemma is_block_eq ks : is_block ks = true -> ks = [BLOCK].
Proof.
  destruct ks as [|k [|k2 r]]; try discriminate; destruct k; try discriminate. reflexivity.
Qed.

(* read_blob on a stream shorter than the announced length *)
Lemma trunc_err c opc n ks lenc size body f pos :
  spec_row opc = Some (n, ks) -> is_nested ks || is_block ks = true ->
  uleb_ok lenc size = true -> zlen body < size ->
  parse_expr_fuel (S f) c (opc :: lenc ++ body) pos = Err EParse.
Proof.
  intros Erow Hk Hl Hlt. destruct (spec_row_dispatch opc n ks Erow) as [Hd _].
  cbn [parse_expr_fuel]. rewrite Hd.
  assert (Hb : read_blob size body = Err EParse).
  { unfold read_blob. destruct (Z.ltb_spec (zlen body) size) as [_|Hge]; [reflexivity|lia]. }
  apply orb_prop in Hk. destruct Hk as [Hk|Hk].
  - apply is_nested_eq in Hk. subst ks. cbn [parse_args parse_kind]. unfold struct_parse.
    rewrite (uleb_ok_decode lenc size body Hl). cbn [of_opt bind]. rewrite Hb. reflexivity.
  - apply is_block_eq in Hk. subst ks. cbn [parse_args parse_kind]. unfold struct_parse.
    rewrite (uleb_ok_decode lenc size body Hl). cbn [of_opt bind]. rewrite Hb. reflexivity.
Qed.

(* an error of the nested parse is the error of the enclosing expression *)
Lemma inner_err c opc n lenc body rest e :
  spec_row opc = Some (n, [NESTED]) -> uleb_ok lenc (zlen body) = true ->
  (forall f pos, (length body <= f)%nat -> parse_expr_fuel (S f) c body pos = Err e) ->
  forall f pos, (length (opc :: lenc ++ body ++ rest) <= f)%nat ->
  parse_expr_fuel (S f) c (opc :: lenc ++ body ++ rest) pos = Err e.
Proof.
  intros Erow Hl Hbody f pos Hf. destruct (spec_row_dispatch opc n _ Erow) as [Hd _].
  cbn [parse_expr_fuel]. rewrite Hd.
  cbn [parse_args parse_kind]. unfold struct_parse.
  rewrite (uleb_ok_decode lenc (zlen body) _ Hl). cbn [of_opt bind].
  rewrite read_blob_app. cbn [bind].
  cbn [length] in Hf. rewrite !app_length in Hf.
  destruct f as [|f']; [lia|].
  rewrite (Hbody f' 0) by lia. reflexivity.
Qed.

Lemma bad_rejected_fuel c : cfg_ok c = true -> forall b, wf_bad c b = true ->
  forall f pos, (length (encode_bad c b) <= f)%nat ->
  parse_expr_fuel (S f) c (encode_bad c b) pos = Err (bad_err (why_of b)).
Proof.
  intros Hc b. induction b as [pre opc rest|pre opc lenc size body|pre opc lenc inner IH rest];
    intros Hw f pos Hf; cbn [wf_bad] in Hw; cbn [encode_bad why_of] in *.
  - apply andb_prop in Hw. destruct Hw as [Hpre Hrow].
    destruct (spec_row opc) as [row|] eqn:Erow; [discriminate|].
    apply (prefix_err c Hc pre (opc :: rest)); auto.
    intros f0 pos0 _. apply bad_opcode_err. exact Erow.
  - apply andb_prop in Hw. destruct Hw as [Hw Hlt]. apply andb_prop in Hw. destruct Hw as [Hw Hl].
    apply andb_prop in Hw. destruct Hw as [Hpre Hrow].
    destruct (spec_row opc) as [[n ks]|] eqn:Erow; [|discriminate].
    apply (prefix_err c Hc pre (opc :: lenc ++ body)); auto.
    intros f0 pos0 _. apply (trunc_err c opc n ks lenc size body f0 pos0 Erow Hrow Hl). lia.
  - apply andb_prop in Hw. destruct Hw as [Hw Hin]. apply andb_prop in Hw. destruct Hw as [Hw Hl].
    apply andb_prop in Hw. destruct Hw as [Hpre Hrow].
    destruct (spec_row opc) as [[n ks]|] eqn:Erow; [|discriminate].
    apply is_nested_eq in Hrow. subst ks.
    apply (prefix_err c Hc pre (opc :: lenc ++ encode_bad c inner ++ rest)); auto.
    apply (inner_err c opc n lenc (encode_bad c inner) rest _ Erow Hl).
    intros f0 pos0 Hf0. apply IH; auto.
Qed.

(* the accept/reject boundary: an expression with a byte that is not an operation in
   opcode position, or with an entry-value / implicit-value block announced longer
   than what is left, at any nesting depth and behind any well-formed operations,
   is refused -- never reported as some other sequence of operations *)
Theorem illformed_rejected c b :
  cfg_ok c = true -> wf_bad c b = true ->
  parse_expr c (encode_bad c b) = Err (bad_err (why_of b)).
Proof.
  intros Hc Hw. unfold parse_expr. apply bad_rejected_fuel; auto.
Qed.

(* the entry_value block of C16's block_truncated: the simplest instance *)
Theorem nested_truncated c opc n lenc size body :
  cfg_ok c = true -> spec_row opc = Some (n, [NESTED]) ->
  uleb_ok lenc size = true -> zlen body < size ->
  parse_expr c (opc :: lenc ++ body) = Err EParse.
Proof.
  intros Hc Erow Hl Hlt. unfold parse_expr.
  apply (trunc_err c opc n [NESTED] lenc size body _ 0 Erow); auto.
Qed.

(* parse_expr is a function of (configuration, bytes): whatever was parsed before on the
   same parser, the i-th call returns the expected parse of the i-th expression *)
Theorem parse_history c calls :
  cfg_ok c = true -> forallb (wf_ops c) calls = true ->
  map (fun ops => parse_expr c (encode_ops c ops)) calls =
  map (fun ops => Ok (annotate c ops)) calls.
Proof.
  intros Hc Hw. apply map_ext_in. intros ops Hin.
  rewrite forallb_forall in Hw. apply expr_roundtrip; auto.
Qed.

(* ================================================================ re-encoding *)
Lemma list_eqb_eq a : forall b, list_eqb a b = true -> a = b.
Proof.
  unfold list_eqb. induction a as [|x a IH]; intros [|y b] H; cbn in H; try discriminate; auto.
  apply andb_prop in H. destruct H as [Hl H]. apply andb_prop in H. destruct H as [Hxy H].
  apply Z.eqb_eq in Hxy. subst y. f_equal. apply IH. rewrite Hl, H. reflexivity.
Qed.

(* kinds whose operand is one argument re-encoded on its own *)
Definition simple_kind (k : opkind) : bool :=
  match k with TYPEDBLOCK | NESTED | WASM => false | _ => true end.
Definition shape_ok (ks : list opkind) : bool :=
  match ks with
  | [TYPEDBLOCK] | [NESTED] | [WASM] => true
  | _ => forallb simple_kind ks
  end.

(* finite: the composite kinds only occur alone in the table *)
Lemma spec_shapes : forallb (fun '(_, (_, ks)) => shape_ok ks) spec_optable = true.
Proof. vm_compute. reflexivity. Qed.

Lemma zlookup_In {A} (l : list (Z * A)) k v : zlookup l k = Some v -> In (k, v) l.
Proof.
  induction l as [|[k' v'] r IH]; [discriminate|]. cbn [zlookup].
  destruct (Z.eqb_spec k' k) as [->|Hne]; intros E.
  - inversion E; subst. left. reflexivity.
  - right. apply IH, E.
Qed.

Lemma spec_row_shape opc n ks : spec_row opc = Some (n, ks) -> shape_ok ks = true.
Proof.
  intros H. apply zlookup_In in H.
  pose proof spec_shapes as Hs. rewrite forallb_forall in Hs. exact (Hs _ H).
Qed.

Lemma reenc_simple c : forall ks xs,
  forallb simple_kind ks = true -> wf_vals c ks xs = true -> canon_vals ks xs = true ->
  reenc_args c ks (concat (map args_of_val xs)) = enc_vals c ks xs.
Proof.
  induction ks as [|k ks IH]; intros xs Hs Hw Hcn.
  - destruct xs; [reflexivity|discriminate].
  - destruct xs as [|x xs]; [discriminate|].
    cbn [forallb] in Hs. apply andb_prop in Hs. destruct Hs as [Hk Hks].
    cbn [wf_vals] in Hw. apply andb_prop in Hw. destruct Hw as [Hx Hxs].
    cbn [canon_vals] in Hcn. apply andb_prop in Hcn. destruct Hcn as [Hcx Hcxs].
    cbn [enc_vals map concat].
    destruct x as [v|enc v|lenc bs|tenc ty bs|tag enc v|v].
    + (* VInt *)
      cbn [args_of_val app reenc_args]. rewrite (IH xs Hks Hxs Hcxs). f_equal.
      destruct k; cbn [wf_val] in Hx; cbn [reenc_arg enc_val]; try reflexivity; discriminate.
    + (* VLeb *)
      cbn [args_of_val app reenc_args]. rewrite (IH xs Hks Hxs Hcxs). f_equal.
      destruct k; cbn [wf_val] in Hx; try discriminate; cbn [canon_val] in Hcx;
        apply list_eqb_eq in Hcx; cbn [reenc_arg enc_val]; congruence.
    + (* VBlock *)
      cbn [args_of_val app reenc_args]. rewrite (IH xs Hks Hxs Hcxs). f_equal.
      destruct k; cbn [wf_val] in Hx; try discriminate; cbn [canon_val] in Hcx;
        apply list_eqb_eq in Hcx; cbn [reenc_arg enc_val]; congruence.
    + destruct k; cbn [wf_val] in Hx; try discriminate.
    + destruct k; cbn [wf_val] in Hx; try discriminate.
    + destruct k; cbn [wf_val] in Hx; try discriminate.
Qed.

Definition reenc_ok (c : cfg) (o : sop) : Prop :=
  wf_op c o = true -> canon_op c o = true ->
  forall off, reencode_op c (annot_op c off o) = encode_op c o.

Lemma reenc_list c ops : Forall (reenc_ok c) ops ->
  wf_ops c ops = true -> canon_ops c ops = true ->
  forall off, reencode c (annot_from c ops off) = encode_ops c ops.
Proof.
  induction 1 as [|x r Hx Hr IH]; intros Hw Hcn off; [reflexivity|].
  cbn [wf_ops forallb] in Hw. apply andb_prop in Hw. destruct Hw as [Hwx Hwr].
  cbn [canon_ops forallb] in Hcn. apply andb_prop in Hcn. destruct Hcn as [Hcx Hcr].
  cbn [annot_from]. unfold reencode in *. cbn [map concat].
  rewrite (Hx Hwx Hcx off). rewrite (IH Hwr Hcr). reflexivity.
Qed.

Lemma reenc_ok_all c : forall o, reenc_ok c o.
Proof.
  apply sop_ind'.
  - intros opc vals Hw Hcn off. cbn [wf_op] in Hw. cbn [canon_op] in Hcn.
    destruct (spec_row opc) as [[n ks]|] eqn:Erow; [|discriminate].
    pose proof (spec_row_shape opc n ks Erow) as Hsh.
    assert (Hk : kinds_of opc = ks) by (unfold kinds_of; rewrite Erow; reflexivity).
    cbn [annot_op reencode_op encode_op]. rewrite Hk in *. f_equal.
    destruct ks as [|k ks'].
    + destruct vals; [reflexivity|discriminate].
    + destruct k;
        try (cbn [shape_ok] in Hsh; apply (reenc_simple c _ vals Hsh Hw Hcn)).
      * (* TYPEDBLOCK *)
        destruct ks' as [|k2 ks2]; [|cbn in Hsh; discriminate].
        destruct vals as [|x [|x2 r]]; try discriminate;
          [|cbn [wf_vals] in Hw; apply andb_prop in Hw; destruct Hw as [_ Hw]; discriminate].
        destruct x; cbn [wf_vals wf_val] in Hw; try discriminate.
        cbn [canon_vals canon_val] in Hcn. rewrite andb_true_r in Hcn. apply list_eqb_eq in Hcn.
        cbn [map concat args_of_val app enc_vals enc_val]. rewrite app_nil_r. congruence.
      * (* NESTED *)
        destruct ks' as [|k2 ks2]; [|cbn in Hsh; discriminate].
        rewrite wf_vals_not_nested in Hw. discriminate.
      * (* WASM *)
        destruct ks' as [|k2 ks2]; [|cbn in Hsh; discriminate].
        destruct vals as [|x [|x2 r]]; try discriminate;
          [|cbn [wf_vals] in Hw; apply andb_prop in Hw; destruct Hw as [_ Hw]; discriminate].
        destruct x; cbn [wf_vals wf_val] in Hw; try discriminate.
        -- rewrite andb_true_r in Hw. apply andb_prop in Hw. destruct Hw as [Hw _].
           apply andb_prop in Hw. destruct Hw as [H0 H2].
           cbn [canon_vals canon_val] in Hcn. rewrite andb_true_r in Hcn. apply list_eqb_eq in Hcn.
           cbn [map concat args_of_val app enc_vals enc_val]. rewrite app_nil_r.
           destruct (Z.eqb_spec tag 3) as [E3|N3]; [lia|]. congruence.
        -- cbn [map concat args_of_val app enc_vals enc_val]. rewrite app_nil_r. reflexivity.
  - intros opc lenc body Hbody Hw Hcn off. cbn [wf_op] in Hw. cbn [canon_op] in Hcn.
    destruct (spec_row opc) as [[n ks]|] eqn:Erow; [|discriminate].
    apply andb_prop in Hw. destruct Hw as [Hw Hl]. apply andb_prop in Hw. destruct Hw as [Hnest Hwb].
    apply is_nested_eq in Hnest. subst ks.
    apply andb_prop in Hcn. destruct Hcn as [Hcb Hcl]. apply list_eqb_eq in Hcl.
    assert (Hk : kinds_of opc = [NESTED]) by (unfold kinds_of; rewrite Erow; reflexivity).
    rewrite annot_nested. cbn [reencode_op encode_op]. rewrite Hk. f_equal.
    fold (reencode c (annot_from c body 0)).
    rewrite (reenc_list c body Hbody Hwb Hcb 0). fold (encode_ops c body) in Hcl.
    rewrite <- Hcl. reflexivity.
Qed.

Theorem reencode_annotate c ops :
  wf_ops c ops = true -> canon_ops c ops = true ->
  reencode c (annotate c ops) = encode_ops c ops.
Proof.
  intros Hw Hcn. unfold annotate. apply reenc_list; auto.
  apply Forall_forall. intros o _. apply reenc_ok_all.
Qed.

(* the corollary of the property text: re-encoding what the parser returned
   reproduces the input bytes *)
Theorem reencode_parse c ops r :
  cfg_ok c = true -> wf_ops c ops = true -> canon_ops c ops = true ->
  parse_expr c (encode_ops c ops) = Ok r -> reencode c r = encode_ops c ops.
Proof.
  intros Hc Hw Hcn Hp. rewrite (expr_roundtrip c ops Hc Hw) in Hp.
  inversion Hp; subst. apply reencode_annotate; auto.
Qed.

(* ================================================================ canonical LEB128 *)
(* the minimal encodings are valid encodings, so canonical operations exist for
   every operand value (non-vacuity of canon_ops for all values) *)
Lemma uleb_valid_ok enc v : uleb_valid enc v -> uleb_ok enc v = true.
Proof.
  unfold uleb_ok. induction 1 as [b Hb|b r v Hb Hr IH].
  - cbn [all_bytes forallb uleb_spec]. unfold is_byte.
    destruct (Z.ltb_spec b 128); [|lia]. lia.
  - apply andb_prop in IH. destruct IH as [IHb IHs].
    cbn [all_bytes forallb uleb_spec]. fold (all_bytes r). rewrite IHb. unfold is_byte.
    destruct (Z.ltb_spec b 128); [lia|].
    destruct (uleb_spec r) as [[v' t]|]; [|discriminate].
    destruct t; [|discriminate]. apply Z.eqb_eq in IHs. subst v'. lia.
Qed.

Theorem uleb_canonical_ok v : 0 <= v -> uleb_ok (uleb_encode v) v = true.
Proof. intros H. apply uleb_valid_ok, uleb_encode_valid, H. Qed.

Lemma sleb_valid_ok enc v : sleb_valid enc v -> sleb_ok enc v = true.
Proof.
  unfold sleb_ok. induction 1 as [b Hb|b Hb|b r v Hb Hr IH].
  - cbn [all_bytes forallb sleb_spec]. unfold is_byte.
    destruct (Z.ltb_spec b 64); [|lia]. lia.
  - cbn [all_bytes forallb sleb_spec]. unfold is_byte.
    destruct (Z.ltb_spec b 64); [lia|]. destruct (Z.ltb_spec b 128); [|lia]. lia.
  - apply andb_prop in IH. destruct IH as [IHb IHs].
    cbn [all_bytes forallb sleb_spec]. fold (all_bytes r). rewrite IHb. unfold is_byte.
    destruct (Z.ltb_spec b 64); [lia|]. destruct (Z.ltb_spec b 128); [lia|].
    destruct (sleb_spec r) as [[v' t]|]; [|discriminate].
    destruct t; [|discriminate]. apply Z.eqb_eq in IHs. subst v'. lia.
Qed.

Lemma sv_more' b r v v' : 128 <= b < 256 -> sleb_valid r v ->
  v' = (b - 128) + 128 * v -> sleb_valid (b :: r) v'.
Proof. intros Hb Hr ->. constructor; auto. Qed.

Lemma sleb_small_valid v : -64 <= v < 64 -> sleb_valid [v mod 128] v.
Proof.
  intros H. destruct (Z.ltb_spec v 0) as [Hn|Hp].
  - replace v with (v mod 128 - 128) at 2 by lia. apply sv_neg. lia.
  - rewrite Z.mod_small by lia. apply sv_pos. lia.
Qed.

Lemma sleb_encode_fuel_valid fuel : forall v,
  - 2 ^ (7 * Z.of_nat fuel + 6) <= v < 2 ^ (7 * Z.of_nat fuel + 6) ->
  sleb_valid (sleb_encode_fuel fuel v) v.
Proof.
  induction fuel as [|f IH]; intros v Hv.
  - cbn [sleb_encode_fuel]. change (2 ^ (7 * Z.of_nat 0 + 6)) with 64 in Hv.
    apply sleb_small_valid. lia.
  - cbn [sleb_encode_fuel].
    destruct ((-64 <=? v) && (v <? 64)) eqn:E.
    + apply sleb_small_valid. lia.
    + eapply sv_more'; [lia| apply IH | lia].
      replace (7 * Z.of_nat (S f) + 6) with (7 + (7 * Z.of_nat f + 6)) in Hv by lia.
      rewrite Z.pow_add_r in Hv by lia. change (2 ^ 7) with 128 in Hv.
      pose proof (Z.pow_pos_nonneg 2 (7 * Z.of_nat f + 6)) as Hp.
      set (m := 2 ^ (7 * Z.of_nat f + 6)) in *. lia.
Qed.

Theorem sleb_encode_valid v : sleb_valid (sleb_encode v) v.
Proof.
  unfold sleb_encode. apply sleb_encode_fuel_valid.
  destruct (Z.eq_dec v 0) as [->|Hnz].
  - cbn. lia.
  - pose proof (Z.log2_nonneg (Z.abs v)) as Hl0.
    pose proof (Z.log2_spec (Z.abs v) ltac:(lia)) as [_ Hhi].
    assert (2 ^ Z.succ (Z.log2 (Z.abs v)) <= 2 ^ (7 * Z.of_nat (S (Z.to_nat (Z.log2 (Z.abs v)))) + 6)).
    { apply Z.pow_le_mono_r; lia. }
    lia.
Qed.

Theorem sleb_canonical_ok v : sleb_ok (sleb_encode v) v = true.
Proof. apply sleb_valid_ok, sleb_encode_valid. Qed.

(* ================================================================ names *)
Fixpoint slookup (l : list (string * Z)) (n : string) : option Z :=
  match l with
  | [] => None
  | (n', v) :: r => if String.eqb n' n then Some v else slookup r n
  end.

Lemma slookup_In l n v : slookup l n = Some v -> In (n, v) l.
Proof.
  induction l as [|[n' v'] r IH]; [discriminate|]. cbn [slookup].
  destruct (String.eqb_spec n' n) as [->|Hne]; intros E.
  - inversion E; subst. left. reflexivity.
  - right. apply IH, E.
Qed.

Definition name_is (o : option string) (n : string) : bool :=
  match o with Some m => String.eqb m n | None => false end.
Definition opc_is (o : option Z) (v : Z) : bool :=
  match o with Some w => w =? v | None => false end.
Lemma name_is_eq o n : name_is o n = true -> o = Some n.
Proof. destruct o as [m|]; [|discriminate]. cbn. intros H. apply String.eqb_eq in H. congruence. Qed.
Lemma opc_is_eq o v : opc_is o v = true -> o = Some v.
Proof. destruct o as [w|]; [|discriminate]. cbn. intros H. apply Z.eqb_eq in H. congruence. Qed.

(* finite checks over the two live dicts (at most a few hundred entries) *)
Lemma names_fwd_check :
  forallb (fun '(n, o) => is_marker n || name_is (zlookup gen_DW_OP_opcode2name o) n)
          gen_DW_OP_name2opcode = true.
Proof. vm_compute. reflexivity. Qed.
Lemma names_bwd_check :
  forallb (fun '(o, n) => is_marker n || opc_is (slookup gen_DW_OP_name2opcode n) o)
          gen_DW_OP_opcode2name = true.
Proof. vm_compute. reflexivity. Qed.

(* operation names and opcodes are in one-to-one correspondence: on the names
   that are not range markers the two dicts are mutually inverse partial maps *)
Theorem names_bijective n o : is_marker n = false ->
  (slookup gen_DW_OP_name2opcode n = Some o <-> zlookup gen_DW_OP_opcode2name o = Some n).
Proof.
  intros Hm. split; intros H.
  - apply slookup_In in H. pose proof names_fwd_check as Hc. rewrite forallb_forall in Hc.
    specialize (Hc _ H). cbn beta iota in Hc. rewrite Hm in Hc. apply name_is_eq, Hc.
  - apply zlookup_In in H. pose proof names_bwd_check as Hc. rewrite forallb_forall in Hc.
    specialize (Hc _ H). cbn beta iota in Hc. rewrite Hm in Hc. apply opc_is_eq, Hc.
Qed.

(* and they are the names of the standard: same names for the same opcodes *)
Lemma names_std_fwd_check :
  forallb (fun '(n, o) => is_marker n ||
             match spec_row o with Some (m, _) => String.eqb m n | None => false end)
          gen_DW_OP_name2opcode = true.
Proof. vm_compute. reflexivity. Qed.
Lemma names_std_bwd_check :
  forallb (fun '(o, (n, _)) => opc_is (slookup gen_DW_OP_name2opcode n) o && negb (is_marker n))
          spec_optable = true.
Proof. vm_compute. reflexivity. Qed.

Theorem names_match_standard n o : is_marker n = false ->
  (slookup gen_DW_OP_name2opcode n = Some o <-> exists ks, spec_row o = Some (n, ks)).
Proof.
  intros Hm. split.
  - intros H. apply slookup_In in H. pose proof names_std_fwd_check as Hc.
    rewrite forallb_forall in Hc. specialize (Hc _ H). cbn beta iota in Hc. rewrite Hm in Hc.
    cbn [orb] in Hc. destruct (spec_row o) as [[m ks]|]; [|discriminate].
    apply String.eqb_eq in Hc. subst m. exists ks. reflexivity.
  - intros [ks H]. apply zlookup_In in H. pose proof names_std_bwd_check as Hc.
    rewrite forallb_forall in Hc. specialize (Hc _ H). cbn beta iota in Hc.
    apply andb_prop in Hc. destruct Hc as [Hc _]. apply opc_is_eq, Hc.
Qed.
