(* Proofs/C10Nav2.v — C10 refinement, entry-tree navigation at the level of generator frames:
   resuming iter_children, DIE.get_parent / _search_ancestor_offspring, iter_siblings, iter_DIEs. *)
From PV Require Import Spec.C10Spec Proofs.C10Base Proofs.C10Tree Proofs.C10Nodes Proofs.C10Elf Proofs.C10Units
  Proofs.C10Nav.
From Coq Require Import ZArith List Bool Lia ZifyBool.
Import ListNotations.
Open Scope Z_scope.

Definition remaining (E : list (Z * entry)) (acf : acframe) : list Z :=
  match acf with ACStart p => kids_of E p | ACYield p c => after c (kids_of E p) | ACDone => [] end.

Lemma achildren_next_remaining E acf :
  achildren_next E acf =
  match acframe_parent acf, remaining E acf with
  | Some p, k :: _ => (ACYield p k, Some k)
  | _, _ => (ACDone, None)
  end.
Proof. destruct acf; cbn; try reflexivity; destruct (kids_of E p); try reflexivity; destruct (after c _); reflexivity. Qed.

Lemma Forall2_cons_r {A B} (R : A -> B -> Prop) l b r : Forall2 R l (b :: r) ->
  exists a l', l = a :: l' /\ R a b /\ Forall2 R l' r.
Proof. intros H. inversion H; subst. eauto. Qed.

Lemma Forall2_len {A B} (R : A -> B -> Prop) l l' : Forall2 R l l' -> length l = length l'.
Proof. intros H. induction H; cbn; auto. Qed.

Lemma combine_app_eq {A B} (l1 l2 : list A) (m1 m2 : list B) : length l1 = length m1 ->
  combine (l1 ++ l2) (m1 ++ m2) = combine l1 m1 ++ combine l2 m2.
Proof.
  revert m1. induction l1 as [|a l1 IH]; intros [|b m1] H; cbn in *; try discriminate; [reflexivity|].
  f_equal. apply IH. lia.
Qed.

Lemma nav_fuel_ge2 n : (2 <= nav_fuel n)%nat.
Proof. destruct n. cbn [nav_fuel]. lia. Qed.

Section Nav2.
  Set Default Proof Using "All".
  Variable F : file.
  Hypothesis WF : wf_file F = true.
  Variable fuel : nat.
  Hypothesis Hfuel : (length (f_units F) < fuel)%nat.
  Hypothesis Hnav : forall ud, In ud (f_units F) -> (2 * nav_fuel (ud_tree ud) < fuel)%nat.
  Let P := parsers_of F.

  (* ---------------------------------------------------------------- identity of objects *)
  Lemma cu_identity s id1 id2 c1 c2 : Inv F s -> nth_error (cus s) id1 = Some c1 -> nth_error (cus s) id2 = Some c2 ->
    c_off c1 = c_off c2 -> id1 = id2.
  Proof.
    intros HI H1 H2 E. destruct (inv_culists _ _ HI) as (_ & Hnd & _).
    pose proof (inv_cuheap _ _ HI _ _ H1) as I1. pose proof (inv_cuheap _ _ HI _ _ H2) as I2. rewrite E in I1.
    eapply combine_functional; eauto.
  Qed.

  Lemma die_at_identity s id1 id2 u o : Inv F s -> die_at s id1 u o -> die_at s id2 u o -> id1 = id2.
  Proof.
    intros HI (d1 & c1 & Hd1 & Hc1 & Eu1 & Eo1) (d2 & c2 & Hd2 & Hc2 & Eu2 & Eo2).
    assert (Ecu : d_cu d1 = d_cu d2) by (eapply cu_identity; eauto; congruence).
    eapply (die_identity F WF fuel Hfuel s id1 id2 (d_cu d1) o HI); [exists d1; auto|exists d2; auto].
  Qed.

  Lemma die_at_fun s id u o u' o' : die_at s id u o -> die_at s id u' o' -> u = u' /\ o = o'.
  Proof.
    intros (d1 & c1 & Hd1 & Hc1 & Eu1 & Eo1) (d2 & c2 & Hd2 & Hc2 & Eu2 & Eo2).
    assert (d2 = d1) by congruence. subst d2. assert (c2 = c1) by congruence. subst c2. split; congruence.
  Qed.

  Lemma node_fuel u ud par n : unit_at F u = Some ud -> In (par, n) (subnodes None (ud_tree ud)) ->
    (nav_fuel n < fuel)%nat /\ (bnext n <= fuel)%nat.
  Proof.
    intros Hu Hn. destruct (unit_at_in F WF _ _ Hu) as [Hin _]. pose proof (Hnav _ Hin).
    pose proof (nav_fuel_sub _ _ _ _ Hn). rewrite (nav_fuel_unfold n) in *. lia.
  Qed.

  Lemma fuel_pos u ud : unit_at F u = Some ud -> exists f', fuel = S (S f').
  Proof.
    intros Hu. destruct (unit_at_in F WF _ _ Hu) as [Hin _]. pose proof (Hnav _ Hin).
    pose proof (nav_fuel_ge2 (ud_tree ud)). exists (fuel - 2)%nat. lia.
  Qed.

  (* ---------------------------------------------------------------- a suspended iter_DIE_children generator *)
  Lemma cframe_cases s u ud cf acf : Inv F s -> unit_at F u = Some ud -> cframe_rel F s u cf acf ->
    (children_next P fuel cf s = (s, Ok (CDone, None)) /\ remaining (ud_entries ud) acf = [] /\
     (forall die, cframe_die cf = Some die -> forall o e, die_at s die u o -> entry_at F u o = Some e ->
                  dr_hc (en_raw e) = false)) \/
    (exists par n post die, In (par, n) (subnodes None (ud_tree ud)) /\ dr_hc (node_raw n) = true /\
       die_at s die u (node_off n) /\ at_pos s u die n cf post /\
       remaining (ud_entries ud) acf = map node_off post /\ acframe_parent acf = Some (node_off n) /\
       cframe_die cf = Some die /\ (forall k, In k post -> In k (node_kids n))).
  Proof.
    intros HI Hu Hrel. pose proof (unit_wf F WF _ _ Hu) as Hw.
    inversion Hrel as [die p Hat|die child p c Hat Hch Hkid|]; subst.
    all: destruct (fuel_pos _ _ Hu) as (f' & Ef).
    - destruct (die_facts F WF fuel Hfuel _ _ _ _ HI Hat) as (dd & c & e & Hd & Hc & Eu & Eo & He & Hr).
      destruct (entry_at_unit F WF fuel Hfuel _ _ _ He) as (ud' & Hu' & Hz). assert (ud' = ud) by congruence. subst ud'.
      destruct (dr_hc (en_raw e)) eqn:Ehc.
      + right. destruct (entry_node_hc F WF ud _ _ Hw Hz Ehc) as (par & n & Hn & -> & ->).
        exists par, n, (node_kids n), die. repeat split; auto.
        * left. auto.
        * cbn [remaining]. apply (kids_of_node F WF ud par n Hw Hn).
      + left. split; [|split].
        * rewrite Ef. cbn [children_next]. rewrite (bind_get_die _ _ _ _ Hd). rewrite Hr, Ehc. reflexivity.
        * cbn [remaining]. unfold kids_of. rewrite Hz.
          destruct (entry_node F WF ud _ _ Hz) as (par & n & Hn & [[-> ->]|(_ & -> & ->)]); [|reflexivity].
          destruct (node_entries F WF ud par n Hw Hn) as (_ & _ & Hwn).
          destruct n as [no nraw nk nt ntr]. destruct (wf_node_unfold _ _ _ _ _ _ Hwn) as (_ & _ & Hk & _).
          cbn [own_entry en_raw node_raw] in Ehc. rewrite Ehc in Hk. subst nk. reflexivity.
        * intros die' Ed o e' Hat' He'. cbn in Ed. inversion Ed. subst die'.
          destruct (die_at_fun _ _ _ _ _ _ Hat Hat') as [_ <-]. congruence.
    - right. destruct Hkid as (ud' & Hu' & Hin). assert (ud' = ud) by congruence. subst ud'.
      unfold kids_of in Hin. destruct (zassoc p (ud_entries ud)) as [e|] eqn:Hz; [|destruct Hin].
      destruct (entry_node F WF ud _ _ Hz) as (par & n & Hn & [[-> ->]|(_ & -> & ->)]); [|destruct Hin].
      cbn [own_entry en_kids] in Hin. apply in_map_iff in Hin. destruct Hin as (k & <- & Hk).
      destruct (in_split _ _ Hk) as (pre & post & Ekids).
      assert (Hhc : dr_hc (node_raw n) = true).
      { destruct (node_entries F WF ud par n Hw Hn) as (_ & _ & Hwn).
        destruct n as [no nraw nk nt ntr]. destruct (wf_node_unfold _ _ _ _ _ _ Hwn) as (_ & _ & Hk' & _).
        cbn [node_raw node_kids] in *. destruct (dr_hc nraw); [reflexivity|]. subst nk. destruct pre; discriminate. }
      exists par, n, post, die. repeat split; auto.
      + right. exists child, k, pre. auto.
      + cbn [remaining]. rewrite (kids_of_node F WF ud par n Hw Hn), Ekids, map_app. cbn [map].
        apply after_skip. intros Hc. apply in_map_iff in Hc. destruct Hc as (x & Ex & Hx).
        destruct (node_hc_facts F WF ud par n Hw Hn Hhc) as (Hchain & _ & _ & Hpos & _).
        destruct (chain_offsets _ _ _ Hchain Hpos pre k post Ekids) as [Hlt _]. specialize (Hlt x Hx). lia.
      + intros x Hx. rewrite Ekids. apply in_or_app. right. cbn. auto.
    - left. split; [rewrite Ef; reflexivity|]. split; [reflexivity|]. intros die Hd. discriminate.
  Qed.

  (* one resumption, in terms of the frame *)
  Definition cnext_post (s' : state) (u : Z) (cf cf' : cframe) (r : option nat) (acf : acframe) (ar : option Z) : Prop :=
    match r, ar with
    | Some id, Some o => die_at s' id u o /\ parent_set s' id /\ cframe_die cf' = cframe_die cf /\
                         exists p, acframe_parent acf = Some p /\ is_kid F u p o
    | None, None => cf' = CDone /\
                    forall die o e, cframe_die cf = Some die -> die_at s' die u o -> entry_at F u o = Some e ->
                                    dr_hc (en_raw e) = true -> exists toff, en_term e = Some toff /\ term_at s' die u toff
    | _, _ => False
    end.

  Lemma children_next_frame s u ud cf acf : Inv F s -> unit_at F u = Some ud -> cframe_rel F s u cf acf ->
    exists s' cf' r, children_next P fuel cf s = (s', Ok (cf', r)) /\ Inv F s' /\ ext s s' /\
      cframe_rel F s' u cf' (fst (achildren_next (ud_entries ud) acf)) /\
      cnext_post s' u cf cf' r acf (snd (achildren_next (ud_entries ud) acf)).
  Proof.
    intros HI Hu Hrel. pose proof (unit_wf F WF _ _ Hu) as Hw.
    rewrite achildren_next_remaining.
    destruct (cframe_cases s u ud cf acf HI Hu Hrel) as [(E & Hrem & Hnohc)|(par & n & post & die & Hn & Hhc & Hat & Hpos & Hrem & Hpar & Hdie & Hsub)].
    - exists s, CDone, None. rewrite Hrem. split; [exact E|]. split; [exact HI|]. split; [apply ext_refl|].
      destruct (acframe_parent acf); cbn [fst snd]; (split; [constructor|]); (split; [reflexivity|]);
        intros die o e Hd Hat He Hhc; rewrite (Hnohc die Hd o e Hat He) in Hhc; discriminate.
    - destruct (nav_node F WF fuel Hfuel u ud Hu Hw n par Hn Hhc) as [HA _].
      destruct (node_fuel u ud par n Hu Hn) as [_ Hb].
      destruct (HA fuel s die cf post Hb HI Hat Hpos) as (s' & r & E & HI' & X & Hp).
      rewrite Hpar, Hrem. destruct post as [|k' post']; cbn [map next_post fst snd] in *.
      + destruct Hp as [-> Ht]. exists s', CDone, None. split; [exact E|]. split; [exact HI'|]. split; [exact X|].
        split; [constructor|]. split; [reflexivity|].
        intros die' o e Hd' Hat' He' _. assert (die' = die) by congruence. subst die'.
        destruct (die_at_fun _ _ _ _ _ _ (die_at_ext _ _ _ _ _ X Hat) Hat') as [_ <-].
        destruct (node_entries F WF ud par n Hw Hn) as (Hown & _).
        rewrite (entry_of_unit F WF fuel Hfuel _ _ _ _ Hu Hown) in He'. inversion He'. subst e.
        exists (node_toff n). cbn [own_entry en_term]. rewrite Hhc. auto.
      + destruct Hp as (child' & -> & Hc' & Hps'). exists s', (CYield die child' (node_off k')), (Some child').
        split; [exact E|]. split; [exact HI'|]. split; [exact X|].
        assert (Hkid : is_kid F u (node_off n) (node_off k')).
        { exists ud. split; [exact Hu|]. rewrite (kids_of_node F WF ud par n Hw Hn). apply in_map. apply Hsub. cbn; auto. }
        split; [constructor; [eapply die_at_ext; eauto|exact Hc'|exact Hkid]|].
        split; [exact Hc'|]. split; [exact Hps'|]. split; [cbn; auto|]. eauto.
  Qed.

  (* ---------------------------------------------------------------- DIE.get_parent *)
  Lemma set_parent_ok s child die u c p e : Inv F s -> die_at s child u c -> die_at s die u p ->
    entry_at F u c = Some e -> en_parent e = Some p ->
    exists s', set_parent child die s = (s', Ok tt) /\ Inv F s' /\ ext s s' /\ parent_set s' child.
  Proof.
    intros HI (dch & cch & Hdch & Hcch & Euc & Eoc) (dd & cd & Hdd & Hcd & Eud & Eod) He Hp.
    assert (Ecu : d_cu dch = d_cu dd) by (eapply cu_identity; eauto; congruence).
    unfold set_parent, upd_die, modify.
    edestruct (Inv_upd_die F WF fuel Hfuel s child dch (fun d => set_d_parent d (Some die)) HI Hdch) as (HI2 & X2);
      try reflexivity.
    { intros _. discriminate. }
    { auto. }
    { intros c' e' Hc' He'. assert (c' = cch) by congruence. subst c'.
      rewrite Euc, Eoc in He'. assert (e' = e) by congruence. subst e'. split.
      - intros p0 Ep. cbn in Ep. inversion Ep. subst p0. exists dd. split; [exact Hdd|]. split; congruence.
      - intros t Et. cbn [set_d_parent d_term] in Et.
        destruct (inv_dies _ _ HI _ _ Hdch) as (c2 & e2 & Hc2 & He2 & _ & _ & _ & Ht).
        assert (c2 = cch) by congruence. subst c2. rewrite Euc, Eoc in He2.
        assert (e2 = e) by congruence. subst e2. apply Ht. exact Et. }
    eexists. split; [reflexivity|]. split; [exact HI2|]. split; [exact X2|].
    eexists. split; [scbn; apply (nth_error_upd_nth_same child (fun d => set_d_parent d (Some die)) _ dch Hdch)|].
    cbn. discriminate.
  Qed.

  Definition scan_pick (l : list (nat * Z)) (so : Z) (prev : nat) : nat :=
    fold_left (fun acc io => if snd io <=? so then fst io else acc) l prev.

  Lemma scan_pick_spec l1 id o l2 so prev : o <= so -> Forall (fun io => so < snd io) l2 ->
    scan_pick (l1 ++ (id, o) :: l2) so prev = id.
  Proof.
    intros Ho Hl2. unfold scan_pick. rewrite fold_left_app. cbn [fold_left fst snd].
    destruct (Z.leb_spec o so); [|lia]. clear Ho. generalize id.
    induction l2 as [|[i2 o2] r IH]; intros id0; cbn [fold_left fst snd]; [reflexivity|].
    inversion Hl2 as [|? ? Hx Hr]. subst. cbn [snd] in Hx. destruct (Z.leb_spec o2 so); [lia|]. apply IH. exact Hr.
  Qed.

  Lemma scan_pick_none l so prev : Forall (fun io => so < snd io) l -> scan_pick l so prev = prev.
  Proof.
    unfold scan_pick. revert prev. induction l as [|[i o] r IH]; intros prev H; cbn [fold_left fst snd]; [reflexivity|].
    inversion H as [|? ? Hx Hr]. subst. cbn [snd] in Hx. destruct (Z.leb_spec o so); [lia|]. apply IH. exact Hr.
  Qed.

  Lemma scan_kids_ok ids : forall s search u p so prev offs, Inv F s -> die_at s search u p ->
    Forall2 (fun id o => die_at s id u o /\ exists e, entry_at F u o = Some e /\ en_parent e = Some p) ids offs ->
    exists s', scan_kids ids search so prev s = (s', Ok (scan_pick (combine ids offs) so prev)) /\ Inv F s' /\ ext s s'.
  Proof.
    induction ids as [|id r IH]; intros s search u p so prev offs HI Hs Hall; inversion Hall as [|? o ? offs' [Hid (e & He & Hp)] Hr]; subst.
    - exists s. split; [reflexivity|]. split; [exact HI|apply ext_refl].
    - cbn [scan_kids combine]. destruct (set_parent_ok s id search u o p e HI Hid Hs He Hp) as (s1 & E1 & HI1 & X1 & _).
      rewrite (bind_ok _ _ _ _ _ E1).
      destruct (die_at_ext _ _ _ _ _ X1 Hid) as (d1 & c1 & Hd1 & _ & _ & Eo1).
      rewrite (bind_get_die _ _ _ _ Hd1). rewrite Eo1.
      destruct (IH s1 search u p so (if o <=? so then id else prev) offs' HI1 (die_at_ext _ _ _ _ _ X1 Hs)) as (s2 & E2 & HI2 & X2).
      { eapply Forall2_imp; [|exact Hr]. intros a b [Ha Hb]. split; [eapply die_at_ext; eauto|exact Hb]. }
      exists s2. rewrite E2. split; [reflexivity|]. split; [exact HI2|eapply ext_trans; eauto].
  Qed.

  Section Search.
    Variables (u : Z) (ud : udesc) (o_s : Z) (e_s : entry).
    Hypothesis Hu : unit_at F u = Some ud.
    Hypothesis Hz : zassoc o_s (ud_entries ud) = Some e_s.

    Lemma search_loop_ok : forall n s self search, Inv F s -> die_at s self u o_s ->
      ((die_at s search u o_s /\ (en_parent e_s <> None -> parent_set s search) /\ (1 <= n)%nat) \/
       (exists par nd, In (par, nd) (subnodes None (ud_tree ud)) /\ die_at s search u (node_off nd) /\
                       In (o_s, e_s) (flat par nd) /\ (par <> None -> parent_set s search) /\ (nav_fuel nd < n)%nat)) ->
      exists s', search_loop P fuel n self search s = (s', Ok tt) /\ Inv F s' /\ ext s s' /\
                 (en_parent e_s <> None -> parent_set s' self).
    Proof.
      pose proof (unit_wf F WF _ _ Hu) as Hw.
      induction n as [|n IH]; intros s self search HI Hself Hcase.
      { destruct Hcase as [(H1 & H2 & H)|(par0 & nd0 & H1 & H2 & H3 & H4 & H)]; lia. }
      cbn [search_loop].
      destruct Hself as (me & cme & Hme & Hcme & Eume & Eome).
      assert (Hself : die_at s self u o_s) by (exists me, cme; auto).
      rewrite (bind_get_die _ _ _ _ Hme).
      destruct Hcase as [(Hsearch & Hps & _)|(par & nd & Hn & Hsearch & Hin & Hps & Hfuel')].
      - destruct Hsearch as (sd & csd & Hsd & Hcsd & Eusd & Eosd). rewrite (bind_get_die _ _ _ _ Hsd).
        rewrite Eosd, Eome. destruct (Z.ltb_spec o_s o_s); [lia|].
        exists s. split; [reflexivity|]. split; [exact HI|]. split; [apply ext_refl|].
        intros Hne. assert (search = self) by (eapply die_at_identity; eauto; exists sd, csd; auto). subst search. auto.
      - destruct (node_entries F WF ud par nd Hw Hn) as (Hown & Hterm & Hwn).
        destruct (node_die_raw F WF fuel Hfuel u ud Hu Hw s search par nd HI Hsearch Hn) as (sd & csd & Hsd & Hcsd & Eusd & Eosd & Erawsd).
        rewrite (bind_get_die _ _ _ _ Hsd). rewrite Eosd, Eome.
        destruct (node_extent _ _ Hwn) as [_ Hext]. pose proof (Hext _ _ _ Hin) as Hrange.
        destruct (Z.ltb_spec (node_off nd) o_s) as [Hlt|Hge].
        + (* descend *)
          rewrite flat_unfold in Hin. destruct Hin as [E|Hin]; [inversion E; lia|].
          assert (Hhc : dr_hc (node_raw nd) = true).
          { destruct (dr_hc (node_raw nd)) eqn:Ehc; [reflexivity|]. exfalso.
            destruct nd as [no nraw nk nt ntr]. destruct (wf_node_unfold _ _ _ _ _ _ Hwn) as (_ & _ & Hk & _).
            cbn [node_raw node_kids] in *. rewrite Ehc in Hk. subst nk. rewrite app_nil_r in Hin. destruct Hin. }
          rewrite Hhc in Hin.
          destruct (node_hc_facts F WF ud par nd Hw Hn Hhc) as (Hchain & Htnull & Htsz & Hkpos & Hend).
          destruct (nav_node F WF fuel Hfuel u ud Hu Hw nd par Hn Hhc) as [_ HB].
          destruct (node_fuel u ud par nd Hu Hn) as [Hnf _].
          destruct (HB (node_kids nd) fuel s search (CStart search) []) as (s1 & ids & E1 & HI1 & X1 & Hall & Ht1); auto.
          { rewrite (nav_fuel_unfold nd) in Hnf. lia. }
          { left. auto. }
          rewrite (bind_ok _ _ _ _ _ E1). cbn [rev app].
          destruct (scan_kids_ok ids s1 search u (node_off nd) o_s search (map node_off (node_kids nd)) HI1
                      (die_at_ext _ _ _ _ _ X1 Hsearch)) as (s2 & E2 & HI2 & X2).
          { assert (Hk : forall k, In k (node_kids nd) -> In (Some (node_off nd), k) (subnodes None (ud_tree ud)))
              by (intros k0 Hk0; eapply subnodes_kid; eauto).
            clear -Hall Hk Hw Hu WF. revert Hk Hall.
            generalize (node_kids nd). intros kids Hk Hall. induction Hall as [|id k ids' kids' [Ha _] Hr IHr]; cbn [map]; constructor.
            - split; [exact Ha|]. destruct (node_entries F WF ud _ k Hw (Hk k (or_introl eq_refl))) as (Hownk & _).
              exists (own_entry (Some (node_off nd)) k). split; [unfold entry_at; rewrite Hu; exact Hownk|reflexivity].
            - apply IHr. intros x Hx. apply Hk. cbn; auto. }
          rewrite <- (set_cur_same s1) in E2 at 1. rewrite set_cur_same in E2.
          rewrite (bind_ok _ _ _ _ _ E2).
          assert (X12 : ext s s2) by (eapply ext_trans; eauto).
          pose proof (die_at_ext _ _ _ _ _ X12 Hsearch) as Hsearch2.
          destruct (node_die_raw F WF fuel Hfuel u ud Hu Hw s2 search par nd HI2 Hsearch2 Hn) as (sd2 & csd2 & Hsd2 & Hcsd2 & Eusd2 & Eosd2 & Erawsd2).
          rewrite (bind_get_die _ _ _ _ Hsd2). rewrite Erawsd2, Hhc.
          (* the terminator is known after the drain *)
          destruct Ht1 as (sd1 & t1 & Hsd1 & Et1 & Hatt1 & Hpst1).
          destruct X2 as (XA2 & XB2 & XF2). destruct (XB2 _ _ Hsd1) as (sd2' & Hsd2' & _ & _ & _ & _ & Lt).
          assert (sd2' = sd2) by congruence. subst sd2'.
          destruct (d_term sd2) as [t|] eqn:Et2; [|exfalso; apply Lt; [rewrite Et1; discriminate|reflexivity]].
          destruct (term_facts F WF fuel Hfuel s2 search u (node_off nd) sd2 t HI2 Hsearch2 Hsd2 Et2)
            as (e & td & et & He & Htd & Een & Het & Hrt & Hatt).
          unfold entry_at in He. rewrite Hu, Hown in He. inversion He. subst e.
          cbn [own_entry en_term] in Een. rewrite Hhc in Een. inversion Een as [Etoff]. rewrite <- Etoff in Hatt.
          assert (Eprev : forall pick, (td0 <- get_die t;; ret (if d_off td0 <=? o_s then t else pick)) s2 =
                                       (s2, Ok (if node_toff nd <=? o_s then t else pick))).
          { intros pick. rewrite (bind_get_die _ _ _ _ Htd). rewrite <- Etoff. reflexivity. }
          rewrite (bind_ok _ _ _ _ _ (Eprev _)).
          assert (X2' : ext s1 s2) by (repeat split; auto).
          assert (Et : t = t1) by (eapply die_at_identity; [exact HI2|exact Hatt|eapply die_at_ext; [exact X2'|exact Hatt1]]).
          assert (Hne_search : forall id o, die_at s2 id u o -> o <> node_off nd -> Nat.eqb id search = false).
          { intros id o Hid Ho. apply Nat.eqb_neq. intros ->. destruct (die_at_fun _ _ _ _ _ _ Hid Hsearch2). lia. }
          apply in_app_or in Hin. destruct Hin as [Hin|Hin].
          * (* self lies in the subtree of a child k *)
            apply in_flat_map in Hin. destruct Hin as (k & Hk & Hink).
            destruct (in_split _ _ Hk) as (pre & post & Ekids).
            pose proof (subnodes_kid _ _ _ _ _ Hn Hk) as Hnk.
            destruct (node_entries F WF ud _ k Hw Hnk) as (_ & _ & Hwk).
            destruct (node_extent _ _ Hwk) as [_ Hextk]. pose proof (Hextk _ _ _ Hink) as Hrk.
            destruct (chain_offsets _ _ _ Hchain Hkpos pre k post Ekids) as [_ Hpost].
            destruct (chain_range _ _ _ Hchain Hkpos) as [_ Hr]. destruct (Hr k Hk) as [_ Hktoff].
            rewrite Ekids in Hall. apply Forall2_app_inv_r in Hall.
            destruct Hall as (ids1 & ids2' & Hall1 & Hall2 & Eids).
            destruct (Forall2_cons_r _ _ _ _ Hall2) as (idk & ids2 & -> & [Hidk Hpsk] & Hall3). subst ids.
            assert (Epick : scan_pick (combine (ids1 ++ idk :: ids2) (map node_off (node_kids nd))) o_s search = idk).
            { rewrite Ekids, map_app. cbn [map]. rewrite combine_app_eq by (rewrite map_length; eapply Forall2_len; eauto).
              cbn [combine]. apply scan_pick_spec; [lia|].
              apply Forall_forall. intros [i o] Hio. apply in_combine_r in Hio. apply in_map_iff in Hio.
              destruct Hio as (x & <- & Hx). cbn [snd]. specialize (Hpost x Hx). lia. }
            rewrite Epick. destruct (Z.leb_spec (node_toff nd) o_s); [lia|].
            rewrite (Hne_search idk (node_off k)); [|eapply die_at_ext; [exact X2'|exact Hidk]|].
            2:{ destruct (chain_range _ _ _ Hchain Hkpos) as [_ Hr']. destruct (Hr' k Hk). 
                destruct nd as [no nraw nk nt ntr]. destruct (wf_node_unfold _ _ _ _ _ _ Hwn) as (_ & Hsz & _). cbn [node_off node_raw] in *. lia. }
            destruct (IH s2 self idk HI2 (die_at_ext _ _ _ _ _ X12 Hself)) as (s3 & E3 & HI3 & X3 & Hp3).
            { right. exists (Some (node_off nd)), k. split; [exact Hnk|]. split; [eapply die_at_ext; [exact X2'|exact Hidk]|].
              split; [exact Hink|]. split; [intros _; eapply parent_set_ext; [exact X2'|exact Hpsk]|].
              pose proof (nav_fuel_kid nd k Hk). rewrite (nav_fuel_unfold nd) in Hfuel'. lia. }
            exists s3. split; [exact E3|]. split; [exact HI3|]. split; [eapply ext_trans; eauto|exact Hp3].
          * (* self is the closing null entry *)
            destruct Hin as [E|[]]. pose proof (f_equal fst E) as Eos. cbn [fst] in Eos.
            destruct (Z.leb_spec (node_toff nd) o_s); [|lia].
            rewrite (Hne_search t (node_toff nd) Hatt); [|destruct (chain_range _ _ _ Hchain Hkpos) as [Hle _];
              destruct nd as [no nraw nk nt ntr]; destruct (wf_node_unfold _ _ _ _ _ _ Hwn) as (_ & Hsz & _); cbn [node_off node_raw node_toff] in *; lia].
            destruct (IH s2 self t HI2 (die_at_ext _ _ _ _ _ X12 Hself)) as (s3 & E3 & HI3 & X3 & Hp3).
            { left. rewrite <- Eos. split; [exact Hatt|]. split; [intros _; rewrite Et; eapply parent_set_ext; [exact X2'|exact Hpst1]|].
              pose proof (nav_fuel_ge2 nd). lia. }
            exists s3. split; [exact E3|]. split; [exact HI3|]. split; [eapply ext_trans; eauto|exact Hp3].
        + (* found: search is self *)
          assert (Eo : o_s = node_off nd) by lia.
          exists s. split; [reflexivity|]. split; [exact HI|]. split; [apply ext_refl|].
          intros Hne. rewrite Eo in Hz. assert (e_s = own_entry par nd) by congruence. subst e_s.
          cbn [own_entry en_parent] in Hne.
          assert (search = self) by (eapply die_at_identity; [exact HI|exact Hsearch|rewrite <- Eo; exact Hself]).
          subst search. auto.
    Qed.
  End Search.
End Nav2.
