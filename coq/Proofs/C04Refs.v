(* Proofs/C04Refs.v — reference resolution (DESIGN 4.4 T6): DIE.get_DIE_from_attribute for
   unit-relative references (ref1/2/4/8/ref_udata) and section-relative references (ref_addr,
   through get_CU_containing over a section of several units) returns the entry at the
   designated offset. *)
From Coq Require Import String.
From PV Require Import Base.Outcome Base.Prim Spec.PrimSpec Spec.C04Desc Spec.C04Spec Spec.C04Sem Gen.C04Forms
                       Model.C04Model Proofs.PrimProofs Proofs.C04Forms Proofs.C04Header Proofs.C04Abbrev
                       Proofs.C04Entry Proofs.C04Unit Proofs.C04Tree.
From Coq Require Import ZArith List Bool Lia ZifyBool.
Import ListNotations.
Open Scope string_scope.
Open Scope list_scope.
Open Scope Z_scope.

Lemma tiles_bounds : forall xs start stop x, tiles xs start stop -> In x xs ->
  start <= x_off x /\ x_off x + x_size x <= stop /\ 0 < x_size x.
Proof.
  induction xs as [|y r IH]; intros start stop x Ht Hin; [destruct Hin|].
  cbn [tiles] in Ht. destruct Ht as (Ho & Hs & Hr).
  assert (Hend : forall l s e, tiles l s e -> s <= e).
  { induction l as [|z l IHl]; intros s e H; cbn [tiles] in H; [lia|].
    destruct H as (_ & Hz & Hl). specialize (IHl _ _ Hl). lia. }
  destruct Hin as [->|Hin].
  - specialize (Hend _ _ _ Hr). lia.
  - specialize (IH _ _ x Hr Hin). lia.
Qed.

Lemma find_entry_in xs off d : find_entry xs off = Some d -> In d xs /\ x_off d = off.
Proof.
  induction xs as [|x r IH]; [discriminate|]. cbn [find_entry].
  destruct (Z.eqb_spec (x_off x) off) as [E|_].
  - intros H. injection H as <-. split; [left; reflexivity|exact E].
  - intros H. destruct (IH H). split; [right|]; assumption.
Qed.

(* cu.get_DIE_from_refaddr(refaddr) for an offset where an entry of the unit starts *)
Lemma unit_die_at (M : munit) (xs : list xdie) (d : xdie) :
  Forall (fun x => get_die M (x_off x) = Ok x) xs ->
  tiles xs (uc_die_off (mu_ctx M)) (uc_off (mu_ctx M) + uc_size (mu_ctx M)) ->
  In d xs -> unit_die_from_refaddr M (x_off d) = Ok d.
Proof.
  intros Hok Ht Hin. unfold unit_die_from_refaddr.
  destruct (tiles_bounds _ _ _ d Ht Hin) as (H1 & H2 & H3).
  replace ((uc_die_off (mu_ctx M) <=? x_off d) && (x_off d <? uc_off (mu_ctx M) + uc_size (mu_ctx M))) with true by lia.
  rewrite Forall_forall in Hok. apply Hok. exact Hin.
Qed.

Lemma unit_die_at_unit (u : unit) (pre tail : list Z) (target : Z) (d : xdie) :
  unit_wf u = true ->
  let sec := pre ++ encode_unit u ++ tail in
  find_entry (expect_dies (u_cfg u) (t_decls (u_table u)) (unit_entries u) (zlen pre + header_size u)) target = Some d ->
  unit_die_from_refaddr (expect_munit u sec (zlen pre)) target = Ok d.
Proof.
  intros Hwf sec Hf. destruct (find_entry_in _ _ _ Hf) as [Hin <-].
  destruct (unit_tiling u (zlen pre) Hwf) as (Ht & Hdo & _).
  apply unit_die_at with (xs := expect_dies (u_cfg u) (t_decls (u_table u)) (unit_entries u) (zlen pre + header_size u)); auto.
  - apply unit_entries_exact. exact Hwf.
  - unfold expect_munit. cbn [mu_ctx]. rewrite <- Hdo. exact Ht.
Qed.

(* ------------------------------------------------------------------ unit-relative references *)
Theorem unit_ref_exact (u : unit) (pre tail : list Z) (S : dsections) (w : where_) (a : xattr) (v : Z) (d : xdie) :
  unit_wf u = true ->
  let sec := pre ++ encode_unit u ++ tail in
  is_unit_ref_form (xa_form a) = true -> xa_raw a = RInt v ->
  find_entry (expect_dies (u_cfg u) (t_decls (u_table u)) (unit_entries u) (zlen pre + header_size u)) (zlen pre + v) = Some d ->
  die_from_attribute S w (expect_munit u sec (zlen pre)) a = Ok (w, zlen pre, d).
Proof.
  intros Hwf sec Hform Hraw Hf. subst sec. unfold die_from_attribute. rewrite Hraw, Hform.
  change (uc_off (mu_ctx (expect_munit u (pre ++ encode_unit u ++ tail) (zlen pre)))) with (zlen pre).
  rewrite (unit_die_at_unit u pre tail _ d Hwf Hf). reflexivity.
Qed.

(* ------------------------------------------------------------------ section-relative references *)
Lemma encode_section_app a b : encode_section (a ++ b) = encode_section a ++ encode_section b.
Proof. unfold encode_section. rewrite map_app, concat_app. reflexivity. Qed.
Lemma encode_section_cons u r : encode_section (u :: r) = encode_unit u ++ encode_section r.
Proof. reflexivity. Qed.

Lemma expect_ctx_range u off :
  uc_off (expect_unit_ctx u off) = off /\
  uc_off (expect_unit_ctx u off) + uc_size (expect_unit_ctx u off) = off + zlen (encode_unit u) /\
  off + uc_len (expect_unit_ctx u off) + initial_length_field_size (uc_is64 (expect_unit_ctx u off))
  = off + zlen (encode_unit u).
Proof.
  unfold expect_unit_ctx, expect_uctx, uc_size. cbn [uc_off uc_len uc_is64].
  unfold encode_unit, unit_length. rewrite zlen_app, zlen_initial_length. lia.
Qed.

(* DWARFInfo.get_CU_containing: units before the target are parsed and skipped *)
Lemma cu_containing_loop_ok (S : dsections) (u : unit) (after : list unit) (raw : Z) :
  forall (before : list unit) (pre : list Z) (fuel : nat),
  s_info S = pre ++ encode_section (before ++ u :: after) ->
  forallb unit_wf (before ++ [u]) = true -> units_in (s_le S) false (before ++ [u]) = true ->
  zlen pre + zlen (encode_section before) <= raw < zlen pre + zlen (encode_section before) + zlen (encode_unit u) ->
  (length before < fuel)%nat ->
  cu_containing_loop S fuel (zlen pre) raw = Ok (expect_unit_ctx u (zlen pre + zlen (encode_section before))).
Proof.
  induction before as [|b r IH]; intros pre fuel Hinfo Hwf Hk Hraw Hfuel;
    (destruct fuel as [|f]; [cbn in Hfuel; lia|]); cbn [app] in *; cbn [cu_containing_loop].
  - cbn [forallb] in Hwf. apply andb_prop in Hwf. destruct Hwf as [Hu _].
    unfold units_in in Hk. cbn [forallb] in Hk. apply andb_prop in Hk. destruct Hk as [Hk _].
    apply andb_prop in Hk. destruct Hk as [Hle Hty]. apply Bool.eqb_prop in Hle, Hty.
    rewrite encode_section_cons in Hinfo. unfold encode_section in Hraw. cbn [map concat] in Hraw.
    change (zlen (@nil Z)) with 0 in Hraw.
    pose proof (encode_unit_nonempty u) as Hne.
    destruct (Z.ltb_spec (zlen pre) (zlen (s_info S))) as [_|Hge];
      [|rewrite Hinfo, !zlen_app in Hge; pose proof (zlen_nonneg (encode_section after)); lia].
    pose proof (unit_header_exact u pre (encode_section after) Hu) as Hh.
    unfold parse_unit_at in Hh. rewrite Hty, Hle, <- Hinfo in Hh. rewrite Hh.
    destruct (expect_ctx_range u (zlen pre)) as (H1 & H2 & _). rewrite H2, H1.
    replace ((zlen pre <=? raw) && (raw <? zlen pre + zlen (encode_unit u))) with true by lia.
    unfold encode_section. cbn [map concat]. change (zlen (@nil Z)) with 0. rewrite Z.add_0_r. reflexivity.
  - cbn [forallb] in Hwf. apply andb_prop in Hwf. destruct Hwf as [Hb Hwf].
    unfold units_in in Hk. cbn [forallb] in Hk. apply andb_prop in Hk. destruct Hk as [Hkb Hk].
    apply andb_prop in Hkb. destruct Hkb as [Hle Hty]. apply Bool.eqb_prop in Hle, Hty.
    rewrite encode_section_cons in Hinfo, Hraw. rewrite zlen_app in Hraw.
    pose proof (encode_unit_nonempty b) as Hne. pose proof (zlen_nonneg (encode_section r)) as Hr0.
    destruct (Z.ltb_spec (zlen pre) (zlen (s_info S))) as [_|Hge];
      [|rewrite Hinfo, !zlen_app in Hge; pose proof (zlen_nonneg (encode_section (r ++ u :: after))); lia].
    pose proof (unit_header_exact b pre (encode_section (r ++ u :: after)) Hb) as Hh.
    unfold parse_unit_at in Hh. rewrite Hty, Hle, <- Hinfo in Hh. rewrite Hh.
    destruct (expect_ctx_range b (zlen pre)) as (H1 & H2 & H3). rewrite H2, H1, H3.
    replace ((zlen pre <=? raw) && (raw <? zlen pre + zlen (encode_unit b))) with false by lia.
    replace (zlen pre + zlen (encode_unit b)) with (zlen (pre ++ encode_unit b)) by (rewrite zlen_app; reflexivity).
    rewrite (IH (pre ++ encode_unit b) f); auto.
    + rewrite ?encode_section_cons, ?zlen_app. f_equal. f_equal. lia.
    + rewrite Hinfo, <- app_assoc. reflexivity.
    + rewrite zlen_app. lia.
    + cbn [length] in Hfuel. lia.
Qed.

Theorem ref_addr_exact (S : dsections) (before : list unit) (u : unit) (after : list unit)
        (w : where_) (M0 : munit) (a : xattr) (raw : Z) (d : xdie) :
  s_info S = encode_section (before ++ u :: after) ->
  forallb unit_wf (before ++ [u]) = true -> units_in (s_le S) false (before ++ [u]) = true ->
  table_at (s_abbrev S) u ->
  let off := zlen (encode_section before) in
  xa_form a = EName "DW_FORM_ref_addr" -> xa_raw a = RInt raw ->
  find_entry (expect_dies (u_cfg u) (t_decls (u_table u)) (unit_entries u) (off + header_size u)) raw = Some d ->
  die_from_attribute S w M0 a = Ok (InInfo, off, d).
Proof.
  intros Hinfo Hwf Hk Htab off Hform Hraw Hf.
  assert (Hu : unit_wf u = true).
  { rewrite forallb_app in Hwf. apply andb_prop in Hwf. destruct Hwf as [_ Hwf]. cbn [forallb] in Hwf.
    apply andb_prop in Hwf. tauto. }
  destruct (find_entry_in _ _ _ Hf) as [Hin Hoff].
  destruct (unit_tiling u off Hu) as (Ht & Hdo & Hend).
  destruct (tiles_bounds _ _ _ d Ht) as (Hb1 & Hb2 & Hb3); [rewrite Hdo; exact Hin|].
  rewrite Hdo in Hb1. rewrite Hend in Hb2. rewrite Hoff in Hb1, Hb2.
  pose proof (zlen_nonneg (encode_section before)) as Hoff0. fold off in Hoff0.
  assert (Hhs : 0 <= header_size u).
  { unfold header_size, initlen_size. pose proof (zlen_nonneg (encode_header_rest (u_cfg u) (u_kind u) (u_abbrev_off u))).
    destruct (c_is64 (u_cfg u)); lia. }
  unfold die_from_attribute. rewrite Hraw, Hform.
  change (is_unit_ref_form (EName "DW_FORM_ref_addr")) with false.
  change (is_name (EName "DW_FORM_ref_addr") "DW_FORM_ref_addr") with true. cbv iota.
  unfold get_CU_containing.
  assert (Hinfo' : s_info S = encode_section before ++ encode_unit u ++ encode_section after).
  { rewrite Hinfo, encode_section_app, encode_section_cons. reflexivity. }
  assert (Hlt : raw < zlen (s_info S)).
  { rewrite Hinfo', !zlen_app. pose proof (zlen_nonneg (encode_section after)). fold off. lia. }
  replace ((0 <=? raw) && (raw <? zlen (s_info S))) with true by lia.
  pose proof (cu_containing_loop_ok S u after raw before [] (Datatypes.S (length (s_info S)))) as Hloop.
  change (zlen (@nil Z)) with 0 in Hloop. cbn [app] in Hloop. rewrite !Z.add_0_l in Hloop. fold off in Hloop.
  rewrite Hloop; auto.
  - rewrite (unit_abbrevs_exact u (s_abbrev S) (s_info S) off Hu Htab).
    assert (Hd : unit_die_from_refaddr (expect_munit u (s_info S) off) raw = Ok d).
    { rewrite Hinfo'. apply unit_die_at_unit; auto. }
    rewrite Hd. destruct (expect_ctx_range u off) as (-> & _). reflexivity.
  - lia.
  - rewrite Hinfo. pose proof (section_length_ge (before ++ u :: after)) as Hl.
    rewrite app_length in Hl. lia.
Qed.

(* ------------------------------------------------------------------ type-signature references *)
Lemma expect_units_app a b o :
  expect_units (a ++ b) o = expect_units a o ++ expect_units b (o + zlen (encode_section a)).
Proof.
  revert o. induction a as [|u r IH]; intros o.
  - cbn. unfold encode_section. cbn. change (zlen (@nil Z)) with 0. rewrite Z.add_0_r. reflexivity.
  - cbn [app expect_units]. rewrite IH, encode_section_cons, zlen_app, Z.add_assoc. reflexivity.
Qed.

(* the dict built by _parse_debug_types: the last unit with the signature wins *)
Lemma find_sig_last field l1 U l2 sig found :
  fget (uc_fields U) field = sig ->
  (forall U', In U' l2 -> fget (uc_fields U') field <> sig) ->
  find_sig field (l1 ++ U :: l2) sig found = Some U.
Proof.
  intros HU Hl2. revert found. induction l1 as [|x r IH]; intros found.
  - cbn [app find_sig]. rewrite HU, Z.eqb_refl.
    generalize (Some U) as fnd. induction l2 as [|y l2 IH2]; intros fnd; [reflexivity|].
    cbn [find_sig]. destruct (Z.eqb_spec (fget (uc_fields y) field) sig) as [E|_].
    + exfalso. apply (Hl2 y (or_introl eq_refl) E).
    + apply IH2. intros U' HU'. apply Hl2. right. exact HU'.
  - cbn [app find_sig]. apply IH.
Qed.

Lemma find_sig_none field l sig :
  (forall U', In U' l -> fget (uc_fields U') field <> sig) -> find_sig field l sig None = None.
Proof.
  induction l as [|y l IH]; intros H; [reflexivity|].
  cbn [find_sig]. destruct (Z.eqb_spec (fget (uc_fields y) field) sig) as [E|_].
  - exfalso. apply (H y (or_introl eq_refl) E).
  - apply IH. intros U' HU'. apply H. right. exact HU'.
Qed.

Definition v5_type_sig (u : unit) : option Z :=
  match u_kind u with UKtype s _ | UKsplit_type s _ => Some s | _ => None end.

Lemma in_expect_units us : forall o U, In U (expect_units us o) -> exists u o', In u us /\ U = expect_unit_ctx u o'.
Proof.
  induction us as [|u r IH]; intros o U H; [destruct H|].
  cbn [expect_units] in H. destruct H as [<-|H].
  - exists u, o. split; [left|]; reflexivity.
  - destruct (IH _ _ H) as (u' & o' & Hin & ->). exists u', o'. split; [right|]; auto.
Qed.

Lemma type_unit_sig u o :
  is_type_unit (expect_unit_ctx u o) = match v5_type_sig u with Some _ => true | None => false end /\
  (forall s, v5_type_sig u = Some s -> fget (uc_fields (expect_unit_ctx u o)) "type_signature" = s).
Proof.
  unfold is_type_unit, v5_type_sig, expect_unit_ctx, expect_uctx. cbn [uc_unit_type uc_fields].
  destruct (u_kind u); cbn; split; try reflexivity; intros s H; try discriminate H; injection H as <-; reflexivity.
Qed.

(* DW_FORM_ref_sig8 naming a DWARF 5 type unit of .debug_info *)
Theorem ref_sig8_info_exact (S : dsections) (before : list unit) (u : unit) (after types_us : list unit)
        (w : where_) (M0 : munit) (a : xattr) (sg toff : Z) (d : xdie) :
  s_info S = encode_section (before ++ u :: after) -> s_types S = encode_section types_us ->
  forallb unit_wf (before ++ u :: after) = true -> units_in (s_le S) false (before ++ u :: after) = true ->
  forallb unit_wf types_us = true -> units_in (s_le S) true types_us = true ->
  u_kind u = UKtype sg toff \/ u_kind u = UKsplit_type sg toff ->
  (forall u', In u' after -> v5_type_sig u' <> Some sg) ->
  table_at (s_abbrev S) u ->
  let off := zlen (encode_section before) in
  xa_form a = EName "DW_FORM_ref_sig8" -> xa_raw a = RInt sg ->
  find_entry (expect_dies (u_cfg u) (t_decls (u_table u)) (unit_entries u) (off + header_size u)) (off + toff) = Some d ->
  die_from_attribute S w M0 a = Ok (InInfo, off, d).
Proof.
  intros Hinfo Htypes Hwf Hk Hwft Hkt Hkind Huniq Htab off Hform Hraw Hf.
  assert (Hu : unit_wf u = true).
  { rewrite forallb_app in Hwf. apply andb_prop in Hwf. destruct Hwf as [_ Hwf]. cbn [forallb] in Hwf.
    apply andb_prop in Hwf. tauto. }
  unfold die_from_attribute. rewrite Hraw, Hform.
  change (is_unit_ref_form (EName "DW_FORM_ref_sig8")) with false.
  change (is_name (EName "DW_FORM_ref_sig8") "DW_FORM_ref_addr") with false.
  change (is_name (EName "DW_FORM_ref_sig8") "DW_FORM_ref_sig8") with true. cbv iota.
  rewrite Htypes, (iter_TUs_exact _ _ Hwft Hkt). rewrite Hinfo, (iter_CUs_exact _ _ Hwf Hk).
  rewrite expect_units_app. cbn [expect_units]. rewrite Z.add_0_l. fold off.
  rewrite filter_app. cbn [filter].
  assert (Hsig : v5_type_sig u = Some sg) by (unfold v5_type_sig; destruct Hkind as [-> | ->]; reflexivity).
  destruct (type_unit_sig u off) as [Hit Hfs]. rewrite Hit, Hsig.
  rewrite (find_sig_last "type_signature" _ (expect_unit_ctx u off) _ sg None (Hfs sg Hsig)).
  2: { intros U' HU'. apply filter_In in HU'. destruct HU' as [HU' Hty].
       destruct (in_expect_units _ _ _ HU') as (u' & o' & Hin & ->).
       destruct (type_unit_sig u' o') as [Hit' Hfs']. rewrite Hit' in Hty.
       destruct (v5_type_sig u') as [s|] eqn:Es; [|discriminate].
       rewrite (Hfs' s eq_refl). intros ->. apply (Huniq u' Hin). exact Es. }
  rewrite <- Hinfo.
  rewrite (unit_abbrevs_exact u (s_abbrev S) (s_info S) off Hu Htab).
  assert (Hto : fget (uc_fields (expect_unit_ctx u off)) "type_offset" = toff).
  { unfold expect_unit_ctx, expect_uctx. cbn [uc_fields]. destruct Hkind as [-> | ->]; reflexivity. }
  rewrite Hto. change (uc_off (expect_unit_ctx u off)) with off.
  destruct (find_entry_in _ _ _ Hf) as [Hin Hoff].
  assert (Hinfo' : s_info S = encode_section before ++ encode_unit u ++ encode_section after).
  { rewrite Hinfo, encode_section_app, encode_section_cons. reflexivity. }
  pose proof (unit_entries_exact u (encode_section before) (encode_section after) Hu) as Hok.
  cbv zeta in Hok. rewrite <- Hinfo' in Hok. fold off in Hok.
  rewrite Forall_forall in Hok. specialize (Hok d Hin). rewrite Hoff in Hok. rewrite Hok. reflexivity.
Qed.

Definition types4_sig (u : unit) : option Z :=
  match u_kind u with UKtypes4 s _ => Some s | _ => None end.

(* DW_FORM_ref_sig8 naming a v4 type unit of .debug_types (no DWARF 5 type unit carries the signature) *)
Theorem ref_sig8_types_exact (S : dsections) (info_us before : list unit) (u : unit) (after : list unit)
        (w : where_) (M0 : munit) (a : xattr) (sg toff : Z) (d : xdie) :
  s_info S = encode_section info_us -> s_types S = encode_section (before ++ u :: after) ->
  forallb unit_wf info_us = true -> units_in (s_le S) false info_us = true ->
  forallb unit_wf (before ++ u :: after) = true -> units_in (s_le S) true (before ++ u :: after) = true ->
  u_kind u = UKtypes4 sg toff ->
  (forall u', In u' info_us -> v5_type_sig u' <> Some sg) ->
  (forall u', In u' after -> types4_sig u' <> Some sg) ->
  table_at (s_abbrev S) u ->
  let off := zlen (encode_section before) in
  xa_form a = EName "DW_FORM_ref_sig8" -> xa_raw a = RInt sg ->
  find_entry (expect_dies (u_cfg u) (t_decls (u_table u)) (unit_entries u) (off + header_size u)) (off + toff) = Some d ->
  die_from_attribute S w M0 a = Ok (InTypes, off, d).
Proof.
  intros Hinfo Htypes Hwf Hk Hwft Hkt Hkind Hnone Huniq Htab off Hform Hraw Hf.
  assert (Hu : unit_wf u = true).
  { rewrite forallb_app in Hwft. apply andb_prop in Hwft. destruct Hwft as [_ Hwft]. cbn [forallb] in Hwft.
    apply andb_prop in Hwft. tauto. }
  unfold die_from_attribute. rewrite Hraw, Hform.
  change (is_unit_ref_form (EName "DW_FORM_ref_sig8")) with false.
  change (is_name (EName "DW_FORM_ref_sig8") "DW_FORM_ref_addr") with false.
  change (is_name (EName "DW_FORM_ref_sig8") "DW_FORM_ref_sig8") with true. cbv iota.
  rewrite Htypes, (iter_TUs_exact _ _ Hwft Hkt). rewrite Hinfo, (iter_CUs_exact _ _ Hwf Hk).
  rewrite find_sig_none.
  2: { intros U' HU'. apply filter_In in HU'. destruct HU' as [HU' Hty].
       destruct (in_expect_units _ _ _ HU') as (u' & o' & Hin & ->).
       destruct (type_unit_sig u' o') as [Hit' Hfs']. rewrite Hit' in Hty.
       destruct (v5_type_sig u') as [s|] eqn:Es; [|discriminate].
       rewrite (Hfs' s eq_refl). intros ->. apply (Hnone u' Hin). exact Es. }
  rewrite expect_units_app. cbn [expect_units]. rewrite Z.add_0_l. fold off.
  assert (Hfs : fget (uc_fields (expect_unit_ctx u off)) "signature" = sg /\
                fget (uc_fields (expect_unit_ctx u off)) "type_offset" = toff).
  { unfold expect_unit_ctx, expect_uctx. cbn [uc_fields]. rewrite Hkind. split; reflexivity. }
  destruct Hfs as [Hfsig Hto].
  rewrite (find_sig_last "signature" _ (expect_unit_ctx u off) _ sg None Hfsig).
  2: { intros U' HU'. destruct (in_expect_units _ _ _ HU') as (u' & o' & Hin & ->).
       assert (Ht4 : is_types4 (u_kind u') = true).
       { unfold units_in in Hkt. rewrite forallb_forall in Hkt.
         assert (Hin' : In u' (before ++ u :: after)) by (apply in_or_app; right; right; exact Hin).
         specialize (Hkt u' Hin').
         apply andb_prop in Hkt. destruct Hkt as [_ Hkt]. apply Bool.eqb_prop in Hkt. exact Hkt. }
       specialize (Huniq u' Hin). unfold types4_sig in Huniq.
       unfold expect_unit_ctx, expect_uctx. cbn [uc_fields].
       destruct (u_kind u') as [ | | | | | | |s t]; try discriminate Ht4. cbn. intros ->. apply Huniq. reflexivity. }
  rewrite <- Htypes.
  rewrite (unit_abbrevs_exact u (s_abbrev S) (s_types S) off Hu Htab).
  rewrite Hto. change (uc_off (expect_unit_ctx u off)) with off.
  destruct (find_entry_in _ _ _ Hf) as [Hin Hoff].
  assert (Htypes' : s_types S = encode_section before ++ encode_unit u ++ encode_section after).
  { rewrite Htypes, encode_section_app, encode_section_cons. reflexivity. }
  pose proof (unit_entries_exact u (encode_section before) (encode_section after) Hu) as Hok.
  cbv zeta in Hok. rewrite <- Htypes' in Hok. fold off in Hok.
  rewrite Forall_forall in Hok. specialize (Hok d Hin). rewrite Hoff in Hok. rewrite Hok. reflexivity.
Qed.

(* ------------------------------------------------------------------ a unit among others (DESIGN 4.4 T7) *)
(* the j-th unit of a section of units with mixed parameters: found by iter_CUs / iter_TUs at the running sum of
   the sizes (iter_CUs_exact), its table loads, and its entries are exactly the expected ones at their
   section offsets *)
Theorem section_unit_exact (sec abbrev_sec : list Z) (before : list unit) (u : unit) (after : list unit) (in_info : bool) :
  sec = encode_section (before ++ u :: after) ->
  unit_wf u = true -> table_at abbrev_sec u ->
  let off := zlen (encode_section before) in
  let M := expect_munit u sec off in
  unit_sibs_ok u in_info sec off = true ->
  open_unit abbrev_sec sec (expect_unit_ctx u off) = Ok M /\
  Forall (fun x => get_die M (x_off x) = Ok x)
         (expect_dies (u_cfg u) (t_decls (u_table u)) (unit_entries u) (off + header_size u)) /\
  iter_DIEs M = Ok (expect_dies (u_cfg u) (t_decls (u_table u)) (unit_entries u) (off + header_size u)).
Proof.
  intros Hsec Hwf Htab off M Hs.
  assert (Hsec' : sec = encode_section before ++ encode_unit u ++ encode_section after).
  { rewrite Hsec, encode_section_app, encode_section_cons. reflexivity. }
  split; [apply unit_abbrevs_exact; assumption|].
  unfold M. rewrite Hsec' in *. split.
  - apply unit_entries_exact. exact Hwf.
  - apply iter_DIEs_exact with (in_info := in_info); assumption.
Qed.
