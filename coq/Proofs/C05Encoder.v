(* Proofs/C05Encoder.v — the executable encoders of Spec/C05Header.v (used by the correspondence
   generator and by the non-vacuity examples) produce encodings inside the relations the theorems
   quantify over, and the boolean checks the driver evaluates imply the theorems' hypotheses.  So
   every generated case that the driver certifies is an instance of C05_unit_rows. *)
From PV Require Import Base.Outcome Base.Prim Spec.PrimSpec Proofs.PrimProofs
  Spec.C05Line Spec.C05Header Model.C05Kinds Model.C05LineProgram Model.C05Header
  Gen.C05Tables Proofs.C05Leb Proofs.C05Tables Proofs.C05Machine Proofs.C05Header Proofs.C05Unit
  Proofs.C05Program.
From Coq Require Import ZifyBool.
Ltac Zify.zify_post_hook ::= Z.to_euclidean_division_equations.
Open Scope list_scope.
Open Scope Z_scope.

Lemma enc_list_concat {A} (R : A -> list Z -> Prop) (f : A -> list Z) xs :
  Forall (fun x => R x (f x)) xs -> enc_list R xs (concat (map f xs)).
Proof.
  induction 1 as [|x xs Hx Hxs IH]; cbn [map concat]; constructor; assumption.
Qed.

Lemma wf_name_spec s : wf_name s = true -> no_nul s = true /\ s <> [].
Proof.
  unfold wf_name. intros H. apply andb_prop in H. destruct H as [H _].
  apply andb_prop in H. destruct H as [H1 H2]. split; [exact H1|].
  destruct s; [discriminate|discriminate].
Qed.

Lemma enc_dirname_enc s : wf_name s = true -> enc_dirname s (cstring_encode s).
Proof. intros H. destruct (wf_name_spec s H) as [H1 H2]. repeat split; assumption. Qed.

Lemma enc_file_enc k f : wf_file f = true -> enc_file f (encode_file k f).
Proof.
  unfold wf_file. intros H.
  apply andb_prop in H. destruct H as [H Hl]. apply andb_prop in H. destruct H as [H Hm].
  apply andb_prop in H. destruct H as [Hn Hd]. destruct (wf_name_spec _ Hn) as [H1 H2].
  exists (uleb_enc (fe_dir f) k), (uleb_enc (fe_mtime f) k), (uleb_enc (fe_length f) k).
  repeat split; try assumption; try (apply uleb_enc_valid; lia).
Qed.

Lemma lform_code_nonneg f : 0 <= lform_code f.
Proof. destruct f; cbn; lia. Qed.

Lemma lnct_codes_nonneg x : existsb (Z.eqb x) lnct_codes = true -> 0 <= x.
Proof.
  intros H. apply existsb_exists in H. destruct H as (y & Hin & Hy). apply Z.eqb_eq in Hy. subst y.
  cbn [lnct_codes In] in Hin. repeat (destruct Hin as [<-|Hin]; [lia|]). contradiction.
Qed.

Lemma enc_format_enc k d : 0 <= fst d -> enc_format d (encode_format k d).
Proof.
  intros H. exists (uleb_enc (fst d) k), (uleb_enc (lform_code (snd d)) k).
  repeat split; apply uleb_enc_valid; [exact H|apply lform_code_nonneg].
Qed.

Lemma enc_fval_enc le is64 k v : wf_fval is64 v = true -> enc_fval le is64 v (encode_fval le is64 k v).
Proof.
  intros H. destruct v; cbn [wf_fval enc_fval encode_fval] in *;
    repeat match goal with H : _ && _ = true |- _ => apply andb_prop in H; destruct H end.
  - split; [assumption|reflexivity].
  - split; [lia|reflexivity].
  - split; [lia|reflexivity].
  - apply uleb_enc_valid. lia.
  - split; [lia|reflexivity].
  - split; [lia|reflexivity].
  - split; [lia|reflexivity].
  - split; [lia|reflexivity].
  - split; [|reflexivity]. apply Nat.eqb_eq. assumption.
  - exists (uleb_enc (zlen bs) k). split; [apply uleb_enc_valid, zlen_nonneg|reflexivity].
  - split; [lia|reflexivity].
  - split; [lia|reflexivity].
Qed.

Lemma enc_entries_enc le is64 k es :
  forallb (forallb (wf_fval is64)) es = true ->
  enc_list (enc_list (enc_fval le is64)) es (encode_entries le is64 k es).
Proof.
  intros H. unfold encode_entries.
  apply (enc_list_concat (enc_list (enc_fval le is64)) (fun e => concat (map (encode_fval le is64 k) e))).
  apply forallb_Forall in H. eapply Forall_impl; [|exact H]. intros e He. cbn beta in He.
  apply enc_list_concat. apply forallb_Forall in He. eapply Forall_impl; [|exact He].
  intros v Hv. apply enc_fval_enc. exact Hv.
Qed.

Lemma enc_formats_enc k fmt : format_ok fmt = true ->
  enc_list enc_format fmt (concat (map (encode_format k) fmt)).
Proof.
  intros H. destruct (format_ok_spec fmt H) as (_ & Hc & _).
  apply enc_list_concat. eapply Forall_impl; [|exact Hc]. intros d Hd. cbn beta in Hd.
  apply enc_format_enc, lnct_codes_nonneg. exact Hd.
Qed.

Theorem encode_body_enc le k h :
  wf_header h = true -> wf_header_values h = true -> enc_body le h (encode_body le k h).
Proof.
  intros Hwf Hval. destruct (wf_header_spec h Hwf) as (Hver & _ & _ & _ & _ & _ & Hv5).
  unfold wf_header_values in Hval.
  apply andb_prop in Hval. destruct Hval as [Hval Hfn]. apply andb_prop in Hval. destruct Hval as [Hval Hdr].
  apply andb_prop in Hval. destruct Hval as [Hid Hfl].
  exists (encode_tables le k h). split; [|reflexivity].
  unfold enc_tables, encode_tables. destruct (Z.ltb_spec (h_version h) 5) as [Hlt|Hge].
  - exists (concat (map cstring_encode (h_include_dirs h))), (concat (map (encode_file k) (h_files h))).
    repeat split.
    + apply enc_list_concat. apply forallb_Forall in Hid. eapply Forall_impl; [|exact Hid].
      intros s Hs. apply enc_dirname_enc. exact Hs.
    + apply enc_list_concat. apply forallb_Forall in Hfl. eapply Forall_impl; [|exact Hfl].
      intros f Hf. apply enc_file_enc. exact Hf.
  - destruct (Hv5 Hge) as (Hdf & Hff & _).
    exists (concat (map (encode_format k) (h_dir_format h))), (uleb_enc (zlen (h_dirs h)) k),
           (encode_entries le (h_is64 h) k (h_dirs h)),
           (concat (map (encode_format k) (h_file_format h))), (uleb_enc (zlen (h_file_names h)) k),
           (encode_entries le (h_is64 h) k (h_file_names h)).
    repeat split.
    + apply enc_formats_enc. exact Hdf.
    + apply uleb_enc_valid, zlen_nonneg.
    + apply enc_entries_enc. exact Hdr.
    + apply enc_formats_enc. exact Hff.
    + apply uleb_enc_valid, zlen_nonneg.
    + apply enc_entries_enc. exact Hfn.
Qed.

Lemma encode_unit_bytes le k h prog : encode_unit le k h prog = unit_bytes le h (encode_body le k h) prog.
Proof. reflexivity. Qed.

Theorem encode_unit_enc le k h prog :
  wf_header h = true -> wf_header_values h = true -> enc_unit le h prog (encode_unit le k h prog).
Proof.
  intros Hwf Hval. exists (encode_body le k h). split; [apply encode_body_enc; assumption|reflexivity].
Qed.

Lemma unit_length_of_rest le k h prog :
  unit_length_of le k h prog = zlen (unit_rest le h (encode_body le k h) prog).
Proof.
  unfold unit_length_of, unit_rest. rewrite !zlen_app.
  replace (zlen (int_encode le (offsz (h_is64 h)) (zlen (encode_body le k h)))) with (Z.of_nat (offsz (h_is64 h)))
    by (unfold zlen at 1; rewrite int_encode_length; reflexivity).
  lia.
Qed.

(* ---------------------------------------------------------------- boolean reference checks *)
Lemma list_eqb_eq a b : list_eqb a b = true -> a = b.
Proof.
  revert b. induction a as [|x a IH]; intros [|y b] H; cbn [list_eqb] in H; try discriminate; [reflexivity|].
  apply andb_prop in H. destruct H as [Hx Hr]. apply Z.eqb_eq in Hx. subst y. rewrite (IH b Hr). reflexivity.
Qed.

Lemma str_at_b_sound sec off s : str_at_b sec off s = true -> str_at sec off s.
Proof.
  unfold str_at_b, str_at. intros H. apply andb_prop in H. destruct H as [H H3].
  apply andb_prop in H. destruct H as [H1 H2]. repeat split; [lia|exact H2|apply list_eqb_eq; exact H3].
Qed.

Lemma fval_refs_sound ls st sup v : zlen ls < 2 ^ 63 -> zlen st < 2 ^ 63 -> zlen sup < 2 ^ 63 ->
  fval_refs_ok_b ls st sup v = true -> refs_present (Some ls) (Some st) (Some sup) v.
Proof.
  intros Hl Hs Hp H. destruct v; cbn [fval_refs_ok_b refs_present] in *; try exact I.
  - exists ls. split; [reflexivity|split; [apply str_at_b_sound; exact H|exact Hl]].
  - exists st. split; [reflexivity|split; [apply str_at_b_sound; exact H|exact Hs]].
  - exists sup. split; [reflexivity|split; [apply str_at_b_sound; exact H|exact Hp]].
  - exists sup. split; [reflexivity|split; [apply str_at_b_sound; exact H|exact Hp]].
Qed.

Lemma header_refs_sound ls st sup h : zlen ls < 2 ^ 63 -> zlen st < 2 ^ 63 -> zlen sup < 2 ^ 63 ->
  header_refs_ok_b ls st sup h = true ->
  Forall (Forall (refs_present (Some ls) (Some st) (Some sup))) (h_dirs h) /\
  Forall (Forall (refs_present (Some ls) (Some st) (Some sup))) (h_file_names h).
Proof.
  intros Hl Hs Hp H. unfold header_refs_ok_b in H. apply andb_prop in H. destruct H as [H1 H2].
  split.
  - apply forallb_Forall in H1. eapply Forall_impl; [|exact H1]. intros e He. cbn beta in He.
    apply forallb_Forall in He. eapply Forall_impl; [|exact He]. intros v Hv. apply fval_refs_sound; assumption.
  - apply forallb_Forall in H2. eapply Forall_impl; [|exact H2]. intros e He. cbn beta in He.
    apply forallb_Forall in He. eapply Forall_impl; [|exact He]. intros v Hv. apply fval_refs_sound; assumption.
Qed.

(* ---------------------------------------------------------------- a certified generated case *)
(* exactly what the driver evaluates for a 'unit' case (ops wf_header, wf_prog, encode_unit,
   encode_prog, expected_view, rows_spec) implies the conclusion of unit_rows *)
Theorem checked_unit_rows secs s h k (progk : list (instr * nat * nat)) ls st sup pre tail :
  let le := ms_le s in
  let instrs := map (fun x => fst (fst x)) progk in
  let prog := encode_prog (cfg_of s) progk in
  let e := encode_unit le k h prog in
  wf_header h && wf_header_values h && header_refs_ok_b ls st sup h = true ->
  wf_prog (cfg_of s) (h_params h) instrs = true ->
  sizes_ok (h_is64 h) (unit_length_of le k h prog) (header_length_of le k h) = true ->
  ms_is64 s = h_is64 h ->
  sec_line secs = pre ++ e ++ tail -> sec_line_str secs = Some ls -> sec_str secs = Some st ->
  sec_sup_str secs = Some (Some sup) ->
  zlen ls < 2 ^ 63 -> zlen st < 2 ^ 63 -> zlen sup < 2 ^ 63 ->
  (h_version h < 5 \/ defined_files instrs = []) ->
  exists lp es,
    parse_line_program_uncached secs (zlen pre) s = Ok lp /\
    lp_header lp = expected_view h (unit_length_of le k h prog) (header_length_of le k h) /\
    lp_start lp = zlen pre + zlen e - zlen prog /\ lp_end lp = zlen pre + zlen e /\
    get_entries secs lp = Ok (es, defined_files instrs, 0, tail) /\
    map regs_of (entry_states es) = rows_spec (h_params h) instrs.
Proof.
  intros le instrs prog e Hwf Hprog Hsz Hs64 Hsec Hls Hst Hsup Hlsz Hssz Hpsz Hdef.
  apply andb_prop in Hwf. destruct Hwf as [Hwf Hrefs]. apply andb_prop in Hwf. destruct Hwf as [Hwf Hval].
  destruct (header_refs_sound ls st sup h Hlsz Hssz Hpsz Hrefs) as [Hd Hf].
  rewrite unit_length_of_rest in *. unfold header_length_of in *.
  apply (unit_rows secs s h (encode_body le k h) prog pre tail Hwf Hs64
           (encode_body_enc le k h Hwf Hval) Hsz Hsec).
  - unfold refs_ok. rewrite Hls, Hst, Hsup. exact Hd.
  - unfold refs_ok. rewrite Hls, Hst, Hsup. exact Hf.
  - apply wf_prog_enc. exact Hprog.
  - exact Hdef.
Qed.
