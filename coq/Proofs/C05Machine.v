(* Proofs/C05Machine.v — the model of LineProgram._decode_line_program simulates the DWARF 6.2
   state machine: one loop iteration on any valid encoding of an instruction consumes exactly that
   encoding and performs step_spec; by induction over the instruction list the emitted rows are
   rows_spec, for every header parameter set and every program. *)
From PV Require Import Base.Outcome Base.Prim Spec.PrimSpec Proofs.PrimProofs
  Spec.C05Line Model.C05LineProgram Gen.C05Tables Proofs.C05Leb.
From Coq Require Import ZifyBool.
Ltac Zify.zify_post_hook ::= Z.to_euclidean_division_equations.
Open Scope list_scope.
Open Scope Z_scope.

(* ---------------------------------------------------------------- readers on valid encodings *)
Lemma rd_uint8_cons b l : rd_uint8 (b :: l) = Ok (b, l).
Proof.
  unfold rd_uint8, uint_decode. change (take 1 (b :: l)) with (Some ([b], l)).
  cbn [of_opt int_decode le_decode]. f_equal. f_equal. lia.
Qed.
Lemma rd_uleb_valid e v t : uleb_valid e v -> rd_uleb (e ++ t) = Ok (v, t).
Proof. intros H. unfold rd_uleb. rewrite (uleb_decode_valid _ _ t H). reflexivity. Qed.
Lemma rd_sleb_valid e v t : sleb_valid e v -> rd_sleb (e ++ t) = Ok (v, t).
Proof. intros H. unfold rd_sleb. rewrite (sleb_decode_valid _ _ t H). reflexivity. Qed.

Lemma geb_false a b : a < b -> (a >=? b) = false.
Proof. intros H. rewrite Z.geb_leb. apply Z.leb_gt. exact H. Qed.
Lemma geb_true a b : b <= a -> (a >=? b) = true.
Proof. intros H. rewrite Z.geb_leb. apply Z.leb_le. exact H. Qed.

Lemma wf_params_spec p : wf_params p = true ->
  0 <= p_min_inst p < 256 /\ 1 <= p_max_ops p < 256 /\ 0 <= p_default_is_stmt p < 256 /\
  -128 <= p_line_base p < 128 /\ 1 <= p_line_range p < 256 /\ 1 <= p_opcode_base p < 256.
Proof. unfold wf_params. intros H. repeat (apply andb_prop in H; destruct H as [H ?]). lia. Qed.

(* ---------------------------------------------------------------- LineState vs registers *)
Lemma regs_LineState p : regs_of (LineState (p_default_is_stmt p)) = init_regs p.
Proof. reflexivity. Qed.
Lemma negb_py_not x : negb (py_not x =? 0) = negb (negb (x =? 0)).
Proof. unfold py_not. destruct (x =? 0); reflexivity. Qed.

(* ---------------------------------------------------------------- one loop iteration *)
Section StepProofs.
  Variable c : lcfg.
  Variable p : lparams.
  Variable apnd : bool.
  Hypothesis Hwf : wf_params p = true.

  (* the iteration on encoding e of instruction i, followed by anything *)
  Definition step_ok (st : lstate) (i : instr) (e tail : list Z) : Prop :=
    exists o, lp_step c p apnd st (e ++ tail) = Ok o /\
      o_rest o = tail /\ o_consumed o = zlen e /\
      regs_of (o_state o) = fst (step_spec p (regs_of st) i) /\
      map regs_of (entry_states (o_entries o)) = opt_list (snd (step_spec p (regs_of st) i)) /\
      o_files o = defined_files [i].

  Lemma lp_step_standard st n l : 0 < n < p_opcode_base p ->
    lp_step c p apnd st (n :: l) = lp_standard c p st n (n :: l) l.
  Proof.
    intros H. unfold lp_step. rewrite rd_uint8_cons. cbn [bind].
    rewrite geb_false by lia. replace (n =? 0) with false by lia. reflexivity.
  Qed.
  Lemma lp_step_extended st l :
    lp_step c p apnd st (0 :: l) = lp_extended c p apnd st (0 :: l) l.
  Proof.
    pose proof (wf_params_spec p Hwf) as Hp.
    unfold lp_step. rewrite rd_uint8_cons. cbn [bind].
    rewrite geb_false by lia. reflexivity.
  Qed.
  Lemma lp_step_special st op l : p_opcode_base p <= op ->
    lp_step c p apnd st (op :: l) = lp_special p st op (op :: l) l.
  Proof.
    intros H. unfold lp_step. rewrite rd_uint8_cons. cbn [bind].
    rewrite geb_true by lia. reflexivity.
  Qed.

  Lemma out_ok st es fs e tail :
    out st es fs (e ++ tail) tail =
    Ok {| o_state := st; o_entries := es; o_files := fs; o_rest := tail; o_consumed := zlen e |}.
  Proof. unfold out. rewrite zlen_app. do 2 f_equal. lia. Qed.

  Ltac lns := unfold DW_LNS_copy, DW_LNS_advance_pc, DW_LNS_advance_line, DW_LNS_set_file,
    DW_LNS_set_column, DW_LNS_negate_stmt, DW_LNS_set_basic_block, DW_LNS_const_add_pc,
    DW_LNS_fixed_advance_pc, DW_LNS_set_prologue_end, DW_LNS_set_epilogue_begin, DW_LNS_set_isa,
    DW_LNE_end_sequence, DW_LNE_set_address, DW_LNE_define_file, DW_LNE_set_discriminator.

  (* finish: the five facts about an explicit step_out *)
  Ltac fin st := eexists; split; [reflexivity|];
    cbn [o_rest o_consumed o_state o_entries o_files step_spec fst snd entry_states e_state
         add_entry_old_state opt_list map defined_files];
    repeat split; try reflexivity; try (destruct st; reflexivity).

  Lemma step_copy st tail : 1 < p_opcode_base p -> step_ok st ICopy [1] tail.
  Proof.
    intros H. unfold step_ok. cbn [app]. rewrite lp_step_standard by lia.
    unfold lp_standard. lns. cbn [Z.eqb Pos.eqb].
    unfold add_entry_new_state. rewrite (out_ok _ _ _ [1] tail). fin st.
  Qed.

  Lemma step_advance_pc st n e tail : 2 < p_opcode_base p -> uleb_valid e n ->
    step_ok st (IAdvancePc n) (2 :: e) tail.
  Proof.
    intros H He. unfold step_ok. cbn [app]. rewrite lp_step_standard by lia.
    unfold lp_standard. lns. cbn [Z.eqb Pos.eqb].
    rewrite (rd_uleb_valid _ _ tail He). cbn [bind]. unfold advance_pc.
    rewrite (out_ok _ _ _ (2 :: e) tail). fin st.
  Qed.

  Lemma step_advance_line st d e tail : 3 < p_opcode_base p -> sleb_valid e d ->
    step_ok st (IAdvanceLine d) (3 :: e) tail.
  Proof.
    intros H He. unfold step_ok. cbn [app]. rewrite lp_step_standard by lia.
    unfold lp_standard. lns. cbn [Z.eqb Pos.eqb].
    rewrite (rd_sleb_valid _ _ tail He). cbn [bind].
    rewrite (out_ok _ _ _ (3 :: e) tail). fin st.
  Qed.

  Lemma step_set_file st n e tail : 4 < p_opcode_base p -> uleb_valid e n ->
    step_ok st (ISetFile n) (4 :: e) tail.
  Proof.
    intros H He. unfold step_ok. cbn [app]. rewrite lp_step_standard by lia.
    unfold lp_standard. lns. cbn [Z.eqb Pos.eqb].
    rewrite (rd_uleb_valid _ _ tail He). cbn [bind].
    rewrite (out_ok _ _ _ (4 :: e) tail). fin st.
  Qed.

  Lemma step_set_column st n e tail : 5 < p_opcode_base p -> uleb_valid e n ->
    step_ok st (ISetColumn n) (5 :: e) tail.
  Proof.
    intros H He. unfold step_ok. cbn [app]. rewrite lp_step_standard by lia.
    unfold lp_standard. lns. cbn [Z.eqb Pos.eqb].
    rewrite (rd_uleb_valid _ _ tail He). cbn [bind].
    rewrite (out_ok _ _ _ (5 :: e) tail). fin st.
  Qed.

  Lemma step_negate_stmt st tail : 6 < p_opcode_base p -> step_ok st INegateStmt [6] tail.
  Proof.
    intros H. unfold step_ok. cbn [app]. rewrite lp_step_standard by lia.
    unfold lp_standard. lns. cbn [Z.eqb Pos.eqb].
    rewrite (out_ok _ _ _ [6] tail). fin st.
    destruct st as [xa xf xl xc xo xs xb xe xp xg xi xd]; unfold regs_of, upd_is_stmt, set_is_stmt;
      cbn [s_address s_file s_line s_column s_op_index s_is_stmt s_basic_block s_end_sequence
           s_prologue_end s_epilogue_begin s_isa s_discriminator
           r_address r_file r_line r_column r_op_index r_is_stmt r_basic_block r_end_sequence
           r_prologue_end r_epilogue_begin r_isa r_discriminator].
    rewrite negb_py_not. reflexivity.
  Qed.

  Lemma step_set_basic_block st tail : 7 < p_opcode_base p -> step_ok st ISetBasicBlock [7] tail.
  Proof.
    intros H. unfold step_ok. cbn [app]. rewrite lp_step_standard by lia.
    unfold lp_standard. lns. cbn [Z.eqb Pos.eqb].
    rewrite (out_ok _ _ _ [7] tail). fin st.
  Qed.

  Lemma step_const_add_pc st tail : 8 < p_opcode_base p -> step_ok st IConstAddPc [8] tail.
  Proof.
    intros H. unfold step_ok. cbn [app]. rewrite lp_step_standard by lia.
    unfold lp_standard. lns. cbn [Z.eqb Pos.eqb]. unfold advance_pc.
    rewrite (out_ok _ _ _ [8] tail). fin st.
  Qed.

  Lemma step_fixed_advance_pc st n tail : 9 < p_opcode_base p -> 0 <= n < 65536 ->
    step_ok st (IFixedAdvancePc n) (9 :: int_encode (c_le c) 2 n) tail.
  Proof.
    intros H Hn. unfold step_ok. cbn [app]. rewrite lp_step_standard by lia.
    unfold lp_standard. lns. cbn [Z.eqb Pos.eqb].
    rewrite uint_decode_valid by (change (2 ^ (8 * Z.of_nat 2)) with 65536; lia).
    cbn [of_opt bind].
    rewrite (out_ok _ _ _ (9 :: int_encode (c_le c) 2 n) tail). fin st.
  Qed.

  Lemma step_set_prologue_end st tail : 10 < p_opcode_base p -> step_ok st ISetPrologueEnd [10] tail.
  Proof.
    intros H. unfold step_ok. cbn [app]. rewrite lp_step_standard by lia.
    unfold lp_standard. lns. cbn [Z.eqb Pos.eqb].
    rewrite (out_ok _ _ _ [10] tail). fin st.
  Qed.

  Lemma step_set_epilogue_begin st tail : 11 < p_opcode_base p -> step_ok st ISetEpilogueBegin [11] tail.
  Proof.
    intros H. unfold step_ok. cbn [app]. rewrite lp_step_standard by lia.
    unfold lp_standard. lns. cbn [Z.eqb Pos.eqb].
    rewrite (out_ok _ _ _ [11] tail). fin st.
  Qed.

  Lemma step_set_isa st n e tail : 12 < p_opcode_base p -> uleb_valid e n ->
    step_ok st (ISetIsa n) (12 :: e) tail.
  Proof.
    intros H He. unfold step_ok. cbn [app]. rewrite lp_step_standard by lia.
    unfold lp_standard. lns. cbn [Z.eqb Pos.eqb].
    rewrite (rd_uleb_valid _ _ tail He). cbn [bind].
    rewrite (out_ok _ _ _ (12 :: e) tail). fin st.
  Qed.

  Lemma step_special st op tail : p_opcode_base p <= op <= 255 -> step_ok st (ISpecial op) [op] tail.
  Proof.
    intros H. unfold step_ok. cbn [app]. rewrite lp_step_special by lia.
    unfold lp_special, add_entry_new_state.
    rewrite (out_ok _ _ _ [op] tail). fin st.
  Qed.

  (* extended instructions: 0, length, opcode, operands *)
  Lemma ext_shape l body tail : (0 :: l ++ body) ++ tail = 0 :: l ++ body ++ tail.
  Proof. cbn [app]. rewrite <- app_assoc. reflexivity. Qed.

  Lemma step_end_sequence st l tail : uleb_valid l 1 -> step_ok st IEndSequence (0 :: l ++ [1]) tail.
  Proof.
    intros Hl. unfold step_ok. rewrite ext_shape, lp_step_extended.
    unfold lp_extended. rewrite (rd_uleb_valid _ _ _ Hl). cbn [bind app].
    rewrite rd_uint8_cons. cbn [bind]. lns. cbn [Z.eqb Pos.eqb].
    unfold add_entry_new_state.
    replace (0 :: l ++ 1 :: tail) with ((0 :: l ++ [1]) ++ tail)
      by (cbn [app]; rewrite <- app_assoc; reflexivity).
    rewrite out_ok. fin st.
  Qed.

  Lemma step_set_address st a l tail :
    uleb_valid l (1 + Z.of_nat (c_addr_size c)) -> 0 <= a < 2 ^ (8 * Z.of_nat (c_addr_size c)) ->
    step_ok st (ISetAddress a) (0 :: l ++ 2 :: int_encode (c_le c) (c_addr_size c) a) tail.
  Proof.
    intros Hl Ha. unfold step_ok. rewrite ext_shape, lp_step_extended.
    unfold lp_extended. rewrite (rd_uleb_valid _ _ _ Hl). cbn [bind].
    rewrite <- app_comm_cons. rewrite rd_uint8_cons. cbn [bind]. lns. cbn [Z.eqb Pos.eqb].
    rewrite uint_decode_valid by exact Ha. cbn [of_opt bind].
    replace (0 :: l ++ 2 :: int_encode (c_le c) (c_addr_size c) a ++ tail)
      with ((0 :: l ++ 2 :: int_encode (c_le c) (c_addr_size c) a) ++ tail)
      by (cbn [app]; rewrite <- app_assoc; reflexivity).
    rewrite out_ok. fin st.
  Qed.

  Lemma file_entry_decode_valid name d m len ed em el tail :
    no_nul name = true -> name <> [] ->
    uleb_valid ed d -> uleb_valid em m -> uleb_valid el len ->
    file_entry_decode (cstring_encode name ++ ed ++ em ++ el ++ tail) =
    Ok ({| fe_name := name; fe_dir := d; fe_mtime := m; fe_length := len |}, tail).
  Proof.
    intros Hn Hne Hd Hm Hl. unfold file_entry_decode.
    rewrite cstring_decode_valid by exact Hn. cbn [of_opt bind].
    destruct name as [|b name']; [congruence|].
    rewrite (rd_uleb_valid _ _ _ Hd). cbn [bind].
    rewrite (rd_uleb_valid _ _ _ Hm). cbn [bind].
    rewrite (rd_uleb_valid _ _ _ Hl). cbn [bind]. reflexivity.
  Qed.

  Lemma step_define_file st name d m len l ed em el tail :
    apnd = true ->
    no_nul name = true -> name <> [] ->
    uleb_valid ed d -> uleb_valid em m -> uleb_valid el len ->
    uleb_valid l (1 + (zlen name + 1) + zlen ed + zlen em + zlen el) ->
    step_ok st (IDefineFile name d m len) (0 :: l ++ 3 :: cstring_encode name ++ ed ++ em ++ el) tail.
  Proof.
    intros Happ Hn Hne Hd Hm Hle Hl. unfold step_ok. rewrite ext_shape, lp_step_extended.
    unfold lp_extended. rewrite (rd_uleb_valid _ _ _ Hl). cbn [bind].
    rewrite <- app_comm_cons. rewrite rd_uint8_cons. cbn [bind]. lns. cbn [Z.eqb Pos.eqb].
    rewrite <- !app_assoc.
    rewrite (file_entry_decode_valid name d m len ed em el tail) by assumption.
    cbn [bind]. rewrite Happ.
    replace (0 :: l ++ 3 :: cstring_encode name ++ ed ++ em ++ el ++ tail)
      with ((0 :: l ++ 3 :: cstring_encode name ++ ed ++ em ++ el) ++ tail)
      by (cbn [app]; rewrite <- !app_assoc; cbn [app]; rewrite <- !app_assoc; reflexivity).
    rewrite out_ok. fin st.
  Qed.

  Lemma step_set_discriminator st d e l tail :
    uleb_valid e d -> uleb_valid l (1 + zlen e) ->
    step_ok st (ISetDiscriminator d) (0 :: l ++ 4 :: e) tail.
  Proof.
    intros He Hl. unfold step_ok. rewrite ext_shape, lp_step_extended.
    unfold lp_extended. rewrite (rd_uleb_valid _ _ _ Hl). cbn [bind].
    rewrite <- app_comm_cons. rewrite rd_uint8_cons. cbn [bind]. lns. cbn [Z.eqb Pos.eqb].
    rewrite (rd_uleb_valid _ _ _ He). cbn [bind].
    replace (0 :: l ++ 4 :: e ++ tail) with ((0 :: l ++ 4 :: e) ++ tail)
      by (cbn [app]; rewrite <- app_assoc; reflexivity).
    rewrite out_ok. fin st.
  Qed.

  Lemma seek_fwd_app (a t : list Z) : seek_fwd (zlen a) (a ++ t) = t.
  Proof.
    unfold seek_fwd. rewrite zlen_app.
    destruct (Z.leb_spec (zlen a + zlen t) (zlen a)) as [H|H].
    - pose proof (zlen_nonneg t). assert (Ht : zlen t = 0) by lia.
      unfold zlen in Ht. destruct t; [reflexivity|cbn [length] in Ht; lia].
    - unfold zlen. rewrite Nat2Z.id. rewrite skipn_app, skipn_all, Nat.sub_diag. reflexivity.
  Qed.

  Lemma step_ext_unknown st op payload l tail :
    0 <= op < 256 -> op <> 1 -> op <> 2 -> op <> 3 -> op <> 4 ->
    uleb_valid l (1 + zlen payload) ->
    step_ok st (IExtUnknown op payload) (0 :: l ++ op :: payload) tail.
  Proof.
    intros Hop H1 H2 H3 H4 Hl. unfold step_ok. rewrite ext_shape, lp_step_extended.
    unfold lp_extended. rewrite (rd_uleb_valid _ _ _ Hl). cbn [bind].
    rewrite <- app_comm_cons. rewrite rd_uint8_cons. cbn [bind]. lns.
    replace (op =? 1) with false by lia. replace (op =? 2) with false by lia.
    replace (op =? 3) with false by lia. replace (op =? 4) with false by lia.
    pose proof (zlen_nonneg payload) as Hp.
    replace (1 + zlen payload - 1 <? 0) with false by lia.
    replace (1 + zlen payload - 1) with (zlen payload) by lia.
    rewrite seek_fwd_app.
    eexists; split; [reflexivity|].
    cbn [o_rest o_consumed o_state o_entries o_files step_spec fst snd entry_states opt_list map defined_files].
    repeat split; try reflexivity.
    rewrite !zlen_cons, !zlen_app, !zlen_cons, !zlen_app. lia.
  Qed.

  Theorem lp_step_sound st i e tail :
    enc_instr c p i e -> (apnd = true \/ defined_files [i] = []) -> step_ok st i e tail.
  Proof.
    intros He Happ. inversion He; subst.
    - apply step_copy; auto.
    - apply step_advance_pc; auto.
    - apply step_advance_line; auto.
    - apply step_set_file; auto.
    - apply step_set_column; auto.
    - apply step_negate_stmt; auto.
    - apply step_set_basic_block; auto.
    - apply step_const_add_pc; auto.
    - apply step_fixed_advance_pc; auto.
    - apply step_set_prologue_end; auto.
    - apply step_set_epilogue_begin; auto.
    - apply step_set_isa; auto.
    - apply step_end_sequence; auto.
    - apply step_set_address; auto.
    - apply step_define_file; auto.
      destruct Happ as [Ha|Ha]; [exact Ha|cbn [defined_files] in Ha; discriminate].
    - apply step_set_discriminator; auto.
    - apply step_ext_unknown; auto.
    - apply step_special; auto.
  Qed.
End StepProofs.

(* ---------------------------------------------------------------- the loop *)
Lemma enc_instr_len c p i e : enc_instr c p i e -> 1 <= zlen e.
Proof.
  intros H. inversion H; subst; rewrite zlen_cons;
    match goal with |- 1 <= 1 + zlen ?l => pose proof (zlen_nonneg l) end; lia.
Qed.

Lemma enc_prog_len c p prog bs : enc_prog c p prog bs -> (length prog <= length bs)%nat.
Proof.
  intros H. induction H as [|i e rest erest Hi Hr IH]; [cbn; lia|].
  apply enc_instr_len in Hi. unfold zlen in Hi. rewrite app_length. cbn [length]. lia.
Qed.

Lemma entry_states_app a b : entry_states (a ++ b) = entry_states a ++ entry_states b.
Proof.
  induction a as [|x a IH]; [reflexivity|]. cbn [app entry_states].
  destruct (e_state x); rewrite IH; reflexivity.
Qed.

Lemma defined_files_cons i rest : defined_files (i :: rest) = defined_files [i] ++ defined_files rest.
Proof. destruct i; reflexivity. Qed.

Section LoopProofs.
  Variable c : lcfg.
  Variable p : lparams.
  Variable apnd : bool.
  Hypothesis Hwf : wf_params p = true.

  Theorem lp_loop_sound prog bs : enc_prog c p prog bs ->
    (apnd = true \/ defined_files prog = []) ->
    forall fuel st tail, (length prog < fuel)%nat ->
    exists es, lp_loop c p apnd fuel st (bs ++ tail) (zlen bs) = Ok (es, defined_files prog, 0, tail) /\
      map regs_of (entry_states es) = rows_from p (regs_of st) prog.
  Proof.
    intros H. induction H as [|i e rest erest Hi Hr IH]; intros Happ fuel st tail Hfuel.
    - destruct fuel as [|f]; [cbn in Hfuel; lia|]. exists []. split; reflexivity.
    - destruct fuel as [|f]; [cbn in Hfuel; lia|].
      assert (Hhead : apnd = true \/ defined_files [i] = []).
      { destruct Happ as [Ha|Ha]; [left; exact Ha|right].
        rewrite defined_files_cons in Ha. apply app_eq_nil in Ha. apply Ha. }
      assert (Hrest : apnd = true \/ defined_files rest = []).
      { destruct Happ as [Ha|Ha]; [left; exact Ha|right].
        rewrite defined_files_cons in Ha. apply app_eq_nil in Ha. apply Ha. }
      pose proof (enc_instr_len _ _ _ _ Hi) as Hlen.
      pose proof (zlen_nonneg erest) as Hnn.
      cbn [lp_loop]. rewrite zlen_app.
      replace (zlen e + zlen erest <=? 0) with false by lia.
      rewrite <- app_assoc.
      destruct (lp_step_sound c p apnd Hwf st i e (erest ++ tail) Hi Hhead)
        as (o & Hstep & Horest & Hocons & Hostate & Horows & Hofiles).
      rewrite Hstep. cbn [bind]. rewrite Horest, Hocons.
      replace (zlen e + zlen erest - zlen e) with (zlen erest) by lia.
      destruct (IH Hrest f (o_state o) tail ltac:(cbn [length] in Hfuel; lia)) as (es & Hloop & Hrows).
      rewrite Hloop. cbn [bind].
      exists (o_entries o ++ es). split.
      + rewrite Hofiles, <- defined_files_cons. reflexivity.
      + rewrite entry_states_app, map_app, Horows, Hrows, Hostate.
        cbn [rows_from]. destruct (step_spec p (regs_of st) i) as [r' orow]. reflexivity.
  Qed.

  (* LineProgram._decode_line_program on a program lying at [start, end) of the stream *)
  Theorem decode_line_program_sound prog bs pre tail :
    enc_prog c p prog bs -> (apnd = true \/ defined_files prog = []) ->
    exists es,
      decode_line_program c p apnd (pre ++ bs ++ tail) (zlen pre) (zlen pre + zlen bs)
        = Ok (es, defined_files prog, 0, tail) /\
      map regs_of (entry_states es) = rows_spec p prog.
  Proof.
    intros He Happ. unfold decode_line_program.
    unfold zlen at 1. rewrite Nat2Z.id.
    rewrite skipn_app, skipn_all, Nat.sub_diag. cbn [skipn app].
    replace (zlen pre + zlen bs - zlen pre) with (zlen bs) by lia.
    destruct (lp_loop_sound prog bs He Happ (S (length (pre ++ bs ++ tail)))
                (LineState (p_default_is_stmt p)) tail) as (es & Hloop & Hrows).
    { apply enc_prog_len in He. rewrite !app_length. lia. }
    exists es. split; [exact Hloop|]. rewrite Hrows, regs_LineState. reflexivity.
  Qed.

  (* the main theorem: model rows = standard rows, for every header and every program *)
  Theorem rows_equal prog bs pre tail :
    enc_prog c p prog bs -> (apnd = true \/ defined_files prog = []) ->
    rows_model c p apnd (pre ++ bs ++ tail) (zlen pre) (zlen pre + zlen bs) = Ok (rows_spec p prog).
  Proof.
    intros He Happ. unfold rows_model.
    destruct (decode_line_program_sound prog bs pre tail He Happ) as (es & Hd & Hrows).
    rewrite Hd. cbn [bind]. rewrite Hrows. reflexivity.
  Qed.
End LoopProofs.

(* ---------------------------------------------------------------- the executable encoder *)
(* is inside the encoding relation: what the correspondence feeds is what the theorems cover *)
Lemma wf_instr_enc c p i k kl :
  wf_instr c p i = true -> enc_instr c p i (encode_instr c i k kl).
Proof.
  intros H. destruct i; cbn [wf_instr encode_instr] in *;
    repeat match goal with H : _ && _ = true |- _ => apply andb_prop in H; destruct H end.
  - apply E_copy; lia.
  - apply E_advance_pc; [lia|apply uleb_enc_valid; lia].
  - apply E_advance_line; [lia|apply sleb_enc_valid].
  - apply E_set_file; [lia|apply uleb_enc_valid; lia].
  - apply E_set_column; [lia|apply uleb_enc_valid; lia].
  - apply E_negate_stmt; lia.
  - apply E_set_basic_block; lia.
  - apply E_const_add_pc; lia.
  - apply E_fixed_advance_pc; lia.
  - apply E_set_prologue_end; lia.
  - apply E_set_epilogue_begin; lia.
  - apply E_set_isa; [lia|apply uleb_enc_valid; lia].
  - unfold encode_ext. apply (E_end_sequence c p (uleb_enc (zlen [1]) kl)).
    apply uleb_enc_valid. cbn. lia.
  - unfold encode_ext.
    apply (E_set_address c p a (uleb_enc (zlen (2 :: int_encode (c_le c) (c_addr_size c) a)) kl)); [|lia].
    replace (1 + Z.of_nat (c_addr_size c)) with (zlen (2 :: int_encode (c_le c) (c_addr_size c) a)).
    + apply uleb_enc_valid. apply zlen_nonneg.
    + rewrite zlen_cons. unfold zlen. rewrite int_encode_length. reflexivity.
  - unfold encode_ext.
    apply (E_define_file c p name dir mtime len
             (uleb_enc (zlen (3 :: cstring_encode name ++ uleb_enc dir k ++ uleb_enc mtime k ++ uleb_enc len k)) kl)
             (uleb_enc dir k) (uleb_enc mtime k) (uleb_enc len k)); auto.
    + destruct name; [cbn in *; discriminate|discriminate].
    + apply uleb_enc_valid; lia.
    + apply uleb_enc_valid; lia.
    + apply uleb_enc_valid; lia.
    + match goal with |- uleb_valid (uleb_enc ?n kl) ?m => replace m with n end.
      * apply uleb_enc_valid. apply zlen_nonneg.
      * unfold cstring_encode. rewrite zlen_cons, !zlen_app, zlen_cons.
        change (zlen (@nil Z)) with 0. lia.
  - unfold encode_ext.
    apply (E_set_discriminator c p d (uleb_enc d k) (uleb_enc (zlen (4 :: uleb_enc d k)) kl)).
    + apply uleb_enc_valid; lia.
    + rewrite <- (zlen_cons 4). apply uleb_enc_valid. apply zlen_nonneg.
  - unfold encode_ext.
    apply (E_ext_unknown c p op payload (uleb_enc (zlen (op :: payload)) kl)); try lia.
    rewrite <- (zlen_cons op). apply uleb_enc_valid. apply zlen_nonneg.
  - apply E_special; lia.
Qed.

Lemma wf_prog_enc c p (prog : list (instr * nat * nat)) :
  wf_prog c p (map (fun x => fst (fst x)) prog) = true ->
  enc_prog c p (map (fun x => fst (fst x)) prog) (encode_prog c prog).
Proof.
  unfold encode_prog, wf_prog. induction prog as [|[[i k] kl] rest IH]; intros H.
  - constructor.
  - cbn [map forallb fst concat] in *. apply andb_prop in H. destruct H as [Hi Hr].
    constructor; [apply wf_instr_enc; exact Hi|apply IH; exact Hr].
Qed.
