(* Proofs/C11Zgnu.v — property C11, legacy GNU framing: T_zgnu renames the chosen
   ".debug_X" sections to ".zdebug_X" (and their relocation sections along with
   them) and frames their contents as "ZLIB" + 8-byte big-endian size + zlib stream;
   the view handed to the DWARF reader does not change (zgnu_view_invariant).
   The work is in the names: which section a name denotes before and after. *)
From PV Require Import Base.Bytes Base.Fmt Spec.C11Container Proofs.C11Names Proofs.C11View.
From Coq Require Import Lia.
Open Scope list_scope.
Open Scope Z_scope.

(* ---------- names ---------- *)
Definition dotted (m : list Z) : Prop := exists m', m = 46 :: m'.
Definition plain_name (s : sec) : bool :=
  negb (is_prefix p_zdebug (s_name s)) &&
  negb (is_prefix (p_rel ++ p_zdebug) (s_name s)) &&
  negb (is_prefix (p_rela ++ p_zdebug) (s_name s)).

Lemma plain_names_forallb e : plain_names e = forallb plain_name (e_secs e).
Proof. reflexivity. Qed.

Lemma reloc_target_some n pre t : reloc_target n = Some (pre, t) ->
  n = pre ++ t /\ (pre = p_rela \/ (pre = p_rel /\ is_prefix p_rela n = false)).
Proof.
  unfold reloc_target. destruct (strip_prefix p_rela n) as [t1|] eqn:E1.
  - intros H. inversion H; subst. apply strip_prefix_some in E1. split; [exact E1|left; reflexivity].
  - destruct (strip_prefix p_rel n) as [t2|] eqn:E2; [|discriminate].
    intros H. inversion H; subst. apply strip_prefix_some in E2. apply strip_prefix_none in E1.
    split; [exact E2|right; split; [reflexivity|exact E1]].
Qed.

Definition targets (s : sec) (m : list Z) : bool :=
  is_reloc_sec s && (bytes_eqb (s_name s) (p_rel ++ m) || bytes_eqb (s_name s) (p_rela ++ m)).

Lemma targets_iff s m : targets s m = true <->
  is_reloc_sec s = true /\ (s_name s = p_rel ++ m \/ s_name s = p_rela ++ m).
Proof.
  unfold targets. rewrite andb_true_iff, orb_true_iff, !bytes_eqb_eq. reflexivity.
Qed.

Lemma bool_eq_iff (a b : bool) : (a = true <-> b = true) -> a = b.
Proof. destruct a, b; intros [H1 H2]; try reflexivity; [symmetry; apply H1|apply H2]; reflexivity. Qed.

(* kill an equation between byte lists whose fixed prefixes disagree *)
Ltac names_absurd H :=
  exfalso; rewrite ?p_rel_val, ?p_rela_val, ?p_debug_val, ?p_zdebug_val in H;
  cbn [app zname] in H; congruence.

Section Zgnu.
Variable inflate : list Z -> Z -> option (list Z * bool).
Notation deflated := (deflated inflate).
Notation read_container := (read_container inflate).
Notation read_slot := (read_slot inflate).

Variable zn : list (list Z).                       (* the names being re-encoded *)
Hypothesis Hzn : forallb (is_prefix p_debug) zn = true.

Lemma zn_debug m : name_in m zn = true -> exists r, m = p_debug ++ r /\ zname m = p_zdebug ++ r.
Proof.
  intros H. apply name_in_iff in H. apply zname_debug.
  rewrite forallb_forall in Hzn. apply Hzn. exact H.
Qed.

Inductive zrel : sec -> sec -> Prop :=
| zr_same s :
    name_in (s_name s) zn = false ->
    (is_reloc_sec s = true -> forall pre t, reloc_target (s_name s) = Some (pre, t) -> name_in t zn = false) ->
    zrel s s
| zr_reloc s pre t :
    name_in (s_name s) zn = false -> is_reloc_sec s = true ->
    reloc_target (s_name s) = Some (pre, t) -> name_in t zn = true ->
    zrel s (rename (pre ++ zname t) s)
| zr_comp s a :
    name_in (s_name s) zn = true -> zgnu_ok a s = true ->
    deflated (z_blob a) (firstn (Z.to_nat (s_size s)) (s_stream s)) ->
    zrel s (zgnu_compress a s).

(* ----- which relocation section belongs to a name ----- *)
Lemma targets_same s s' m : zrel s s' -> dotted m -> is_prefix p_zdebug m = false ->
  name_in m zn = false -> targets s' m = targets s m.
Proof.
  intros Hrel [m' ->] Hmz Hmn. apply bool_eq_iff. rewrite !targets_iff.
  destruct Hrel as [s Hs Hr|s pre t Hs Hr Ht Htz|s a Hs Hok Hd].
  - reflexivity.
  - destruct (reloc_target_some _ _ _ Ht) as [Hn Hpre].
    destruct (zn_debug t Htz) as [r [Et Ezt]].
    change (is_reloc_sec (rename (pre ++ zname t) s)) with (is_reloc_sec s).
    cbn [rename s_name]. rewrite Hn, Ezt, Et.
    split; intros [_ [H|H]]; exfalso; destruct Hpre as [->|[-> Hnp]].
    + names_absurd H.
    + apply app_inv_head in H. rewrite <- H, is_prefix_app in Hmz. discriminate.
    + apply app_inv_head in H. rewrite <- H, is_prefix_app in Hmz. discriminate.
    + names_absurd H.
    + names_absurd H.
    + apply app_inv_head in H. rewrite <- Et in H. rewrite <- H, Htz in Hmn. discriminate.
    + apply app_inv_head in H. rewrite <- Et in H. rewrite <- H, Htz in Hmn. discriminate.
    + names_absurd H.
  - destruct (zn_debug _ Hs) as [r [En Ezn]].
    cbn [zgnu_compress s_name]. rewrite Ezn, En.
    split; intros [_ [H|H]]; names_absurd H.
Qed.

Lemma targets_z s s' m : zrel s s' -> plain_name s = true ->
  name_in m zn = true -> targets s' (zname m) = targets s m.
Proof.
  intros Hrel Hpn Hmn. destruct (zn_debug m Hmn) as [rm [Em Ezm]].
  apply bool_eq_iff. rewrite !targets_iff.
  destruct Hrel as [s Hs Hr|s pre t Hs Hr Ht Htz|s a Hs Hok Hd].
  - unfold plain_name in Hpn. rewrite !andb_true_iff, !negb_true_iff in Hpn.
    destruct Hpn as [[_ Hp1] Hp2].
    split; intros [Hrs [H|H]]; exfalso.
    + rewrite H, Ezm, app_assoc, is_prefix_app in Hp1. discriminate.
    + rewrite H, Ezm, app_assoc, is_prefix_app in Hp2. discriminate.
    + assert (Hrt : reloc_target (s_name s) = Some (p_rel, m)).
      { unfold reloc_target.
        replace (strip_prefix p_rela (s_name s)) with (@None (list Z)).
        - replace (strip_prefix p_rel (s_name s)) with (Some m); [reflexivity|].
          symmetry. apply strip_prefix_some. exact H.
        - symmetry. apply strip_prefix_none. rewrite H, Em. reflexivity. }
      rewrite (Hr Hrs _ _ Hrt) in Hmn. discriminate.
    + assert (Hrt : reloc_target (s_name s) = Some (p_rela, m)).
      { unfold reloc_target.
        replace (strip_prefix p_rela (s_name s)) with (Some m); [reflexivity|].
        symmetry. apply strip_prefix_some. exact H. }
      rewrite (Hr Hrs _ _ Hrt) in Hmn. discriminate.
  - destruct (reloc_target_some _ _ _ Ht) as [Hn Hpre].
    destruct (zn_debug t Htz) as [r [Et Ezt]].
    change (is_reloc_sec (rename (pre ++ zname t) s)) with (is_reloc_sec s).
    cbn [rename s_name]. rewrite Hn.
    destruct Hpre as [->|[-> Hnp]]; split; intros [Hrs [H|H]]; (split; [exact Hrs|]).
    + rewrite Ezt, Ezm in H. names_absurd H.
    + right. apply app_inv_head in H. apply zname_inj in H. rewrite H. reflexivity.
    + rewrite Et, Em in H. names_absurd H.
    + right. apply app_inv_head in H. rewrite H. reflexivity.
    + left. apply app_inv_head in H. apply zname_inj in H. rewrite H. reflexivity.
    + rewrite Ezt, Ezm in H. names_absurd H.
    + left. apply app_inv_head in H. rewrite H. reflexivity.
    + rewrite Et, Em in H. names_absurd H.
  - destruct (zn_debug _ Hs) as [r [En Ezn]].
    cbn [zgnu_compress s_name]. rewrite Ezn, En, Ezm, Em.
    split; intros [_ [H|H]]; names_absurd H.
Qed.

Lemma reloc_index_same l l' : Forall2 zrel l l' -> forall m i,
  dotted m -> is_prefix p_zdebug m = false -> name_in m zn = false ->
  reloc_index_from i m l' = reloc_index_from i m l.
Proof.
  induction 1 as [|s s' l l' Hs Hl IH]; intros m i Hd Hz Hn; cbn [reloc_index_from]; [reflexivity|].
  fold (targets s' m). fold (targets s m). rewrite (targets_same s s' m Hs Hd Hz Hn).
  rewrite (IH m (S i) Hd Hz Hn). reflexivity.
Qed.

Lemma reloc_index_z l l' : Forall2 zrel l l' -> forallb plain_name l = true -> forall m i,
  name_in m zn = true ->
  reloc_index_from i (zname m) l' = reloc_index_from i m l.
Proof.
  induction 1 as [|s s' l l' Hs Hl IH]; intros Hpn m i Hn; cbn [reloc_index_from]; [reflexivity|].
  cbn [forallb] in Hpn. apply andb_prop in Hpn. destruct Hpn as [Hp Hpl].
  fold (targets s' (zname m)). fold (targets s m). rewrite (targets_z s s' m Hs Hp Hn).
  rewrite (IH Hpl m (S i) Hn). reflexivity.
Qed.

(* ----- which section a name denotes ----- *)
Definition good (n : list Z) : bool :=
  is_prefix [46] n && negb (is_prefix p_rel n) && negb (is_prefix p_zdebug n).

Lemma good_facts n : good n = true ->
  dotted n /\ is_prefix p_rel n = false /\ is_prefix p_zdebug n = false.
Proof.
  unfold good. rewrite !andb_true_iff, !negb_true_iff. intros [[H1 H2] H3].
  split; [|split; assumption]. apply is_prefix_iff in H1. destruct H1 as [r ->]. exists r. reflexivity.
Qed.

Lemma rel_prefix pre t : pre = p_rela \/ pre = p_rel -> is_prefix p_rel (pre ++ t) = true.
Proof. intros [->| ->]; reflexivity. Qed.

(* the name of the new section is n exactly when the old one was an untouched section called n *)
Lemma name_same s s' n : zrel s s' -> good n = true -> name_in n zn = false ->
  bytes_eqb (s_name s') n = bytes_eqb (s_name s) n /\ (bytes_eqb (s_name s) n = true -> s' = s).
Proof.
  intros Hrel Hg Hn. destruct (good_facts n Hg) as [_ [Hnr Hnz]].
  destruct Hrel as [s Hs Hr|s pre t Hs Hr Ht Htz|s a Hs Hok Hd].
  - split; [reflexivity|intros _; reflexivity].
  - destruct (reloc_target_some _ _ _ Ht) as [Hname Hpre].
    assert (Hp : pre = p_rela \/ pre = p_rel) by (destruct Hpre as [?|[? _]]; auto).
    assert (E1 : bytes_eqb (s_name s) n = false).
    { apply bytes_eqb_neq. intros E. rewrite <- E, Hname, (rel_prefix pre t Hp) in Hnr. discriminate. }
    assert (E2 : bytes_eqb (pre ++ zname t) n = false).
    { apply bytes_eqb_neq. intros E. rewrite <- E, (rel_prefix pre _ Hp) in Hnr. discriminate. }
    cbn [rename s_name]. rewrite E1, E2. split; [reflexivity|discriminate].
  - destruct (zn_debug _ Hs) as [r [En Ezn]].
    assert (E1 : bytes_eqb (s_name s) n = false).
    { apply bytes_eqb_neq. intros E. rewrite <- E, Hs in Hn. discriminate. }
    assert (E2 : bytes_eqb (zname (s_name s)) n = false).
    { apply bytes_eqb_neq. intros E. rewrite <- E, Ezn, is_prefix_app in Hnz. discriminate. }
    cbn [zgnu_compress s_name]. rewrite E1, E2. split; [reflexivity|discriminate].
Qed.

Lemma find_last_same l l' : Forall2 zrel l l' -> forall n i,
  good n = true -> name_in n zn = false ->
  find_last_from i n l' = find_last_from i n l.
Proof.
  induction 1 as [|s s' l l' Hs Hl IH]; intros n i Hg Hn; cbn [find_last_from]; [reflexivity|].
  rewrite (IH n (S i) Hg Hn). destruct (name_same s s' n Hs Hg Hn) as [E1 E2]. rewrite E1.
  destruct (find_last_from (S i) n l); [reflexivity|].
  destruct (bytes_eqb (s_name s) n) eqn:E; [|reflexivity]. rewrite (E2 eq_refl). reflexivity.
Qed.

(* nothing is called ".zdebug_X" afterwards unless ".debug_X" was re-encoded *)
Lemma find_last_znone l l' : Forall2 zrel l l' -> forallb plain_name l = true -> forall n i,
  is_prefix p_debug n = true -> name_in n zn = false ->
  find_last_from i (zname n) l' = None /\ find_last_from i (zname n) l = None.
Proof.
  induction 1 as [|s s' l l' Hs Hl IH]; intros Hpn n i Hd Hn; cbn [find_last_from]; [split; reflexivity|].
  cbn [forallb] in Hpn. apply andb_prop in Hpn. destruct Hpn as [Hp Hpl].
  destruct (IH Hpl n (S i) Hd Hn) as [-> ->].
  destruct (zname_debug n Hd) as [rn [En Ezn]].
  unfold plain_name in Hp. rewrite !andb_true_iff, !negb_true_iff in Hp. destruct Hp as [[Hp0 _] _].
  assert (E0 : bytes_eqb (s_name s) (zname n) = false).
  { apply bytes_eqb_neq. intros E. rewrite E, Ezn, is_prefix_app in Hp0. discriminate. }
  rewrite E0. split; [|reflexivity].
  destruct Hs as [s Hs Hr|s pre t Hs Hr Ht Htz|s a Hs Hok Hdf].
  - rewrite E0. reflexivity.
  - destruct (reloc_target_some _ _ _ Ht) as [Hname Hpre].
    assert (Hpp : pre = p_rela \/ pre = p_rel) by (destruct Hpre as [?|[? _]]; auto).
    cbn [rename s_name].
    replace (bytes_eqb (pre ++ zname t) (zname n)) with false; [reflexivity|].
    symmetry. apply bytes_eqb_neq. intros E. rewrite Ezn in E.
    destruct Hpp as [->| ->]; names_absurd E.
  - cbn [zgnu_compress s_name].
    replace (bytes_eqb (zname (s_name s)) (zname n)) with false; [reflexivity|].
    symmetry. apply bytes_eqb_neq. intros E. apply zname_inj in E. rewrite E, Hn in Hs. discriminate.
Qed.

(* a re-encoded name: gone under its plain spelling, found (same position) under the z spelling *)
Lemma find_last_z l l' : Forall2 zrel l l' -> forallb plain_name l = true -> forall n i,
  name_in n zn = true ->
  find_last_from i n l' = None /\
  match find_last_from i n l, find_last_from i (zname n) l' with
  | Some (j, s), Some (j', s') =>
      j = j' /\ s_name s = n /\ exists a, s' = zgnu_compress a s /\ zgnu_ok a s = true /\
                 deflated (z_blob a) (firstn (Z.to_nat (s_size s)) (s_stream s))
  | None, None => True
  | _, _ => False
  end.
Proof.
  induction 1 as [|s s' l l' Hs Hl IH]; intros Hpn n i Hn; cbn [find_last_from]; [split; [reflexivity|exact I]|].
  cbn [forallb] in Hpn. apply andb_prop in Hpn. destruct Hpn as [Hp Hpl].
  destruct (IH Hpl n (S i) Hn) as [-> IH2].
  destruct (zn_debug n Hn) as [rn [En Ezn]].
  unfold plain_name in Hp. rewrite !andb_true_iff, !negb_true_iff in Hp. destruct Hp as [[Hp0 _] _].
  destruct Hs as [s Hs Hr|s pre t Hs Hr Ht Htz|s a Hs Hok Hdf].
  - assert (E1 : bytes_eqb (s_name s) n = false).
    { apply bytes_eqb_neq. intros E. rewrite E, Hn in Hs. discriminate. }
    assert (E2 : bytes_eqb (s_name s) (zname n) = false).
    { apply bytes_eqb_neq. intros E. rewrite E, Ezn, is_prefix_app in Hp0. discriminate. }
    rewrite E1, E2. split; [reflexivity|].
    destruct (find_last_from (S i) n l) as [[j t]|], (find_last_from (S i) (zname n) l') as [[j' t']|]; exact IH2.
  - destruct (reloc_target_some _ _ _ Ht) as [Hname Hpre].
    assert (Hpp : pre = p_rela \/ pre = p_rel) by (destruct Hpre as [?|[? _]]; auto).
    cbn [rename s_name].
    assert (E1 : bytes_eqb (s_name s) n = false).
    { apply bytes_eqb_neq. intros E. rewrite E, Hn in Hs. discriminate. }
    assert (E2 : bytes_eqb (pre ++ zname t) n = false).
    { apply bytes_eqb_neq. intros E. rewrite En in E. destruct Hpp as [->| ->]; names_absurd E. }
    assert (E3 : bytes_eqb (pre ++ zname t) (zname n) = false).
    { apply bytes_eqb_neq. intros E. rewrite Ezn in E. destruct Hpp as [->| ->]; names_absurd E. }
    rewrite E1, E2, E3. split; [reflexivity|].
    destruct (find_last_from (S i) n l) as [[j u]|], (find_last_from (S i) (zname n) l') as [[j' u']|]; exact IH2.
  - cbn [zgnu_compress s_name]. destruct (zn_debug _ Hs) as [r [Es Ezs]].
    assert (E2 : bytes_eqb (zname (s_name s)) n = false).
    { apply bytes_eqb_neq. intros E. rewrite Ezs, En in E. names_absurd E. }
    rewrite E2. split; [reflexivity|].
    assert (E3 : bytes_eqb (zname (s_name s)) (zname n) = bytes_eqb (s_name s) n).
    { apply bool_eq_iff. rewrite !bytes_eqb_eq. split; [apply zname_inj|intros ->; reflexivity]. }
    rewrite E3.
    destruct (find_last_from (S i) n l) as [[j u]|], (find_last_from (S i) (zname n) l') as [[j' u']|];
      try exact IH2; try contradiction.
    destruct (bytes_eqb (s_name s) n) eqn:E; [|exact I].
    apply bytes_eqb_eq in E.
    split; [reflexivity|]. split; [exact E|]. exists a. split; [reflexivity|]. split; assumption.
Qed.

Lemma plain_no_z n : is_prefix p_debug n = true -> forall l i,
  forallb plain_name l = true -> find_last_from i (zname n) l = None.
Proof.
  intros Hpd. induction l as [|x r IH]; intros i Hp; [reflexivity|].
  cbn [forallb] in Hp. apply andb_prop in Hp. destruct Hp as [Hx Hr]. cbn [find_last_from].
  rewrite (IH (S i) Hr).
  replace (bytes_eqb (s_name x) (zname n)) with false; [reflexivity|].
  symmetry. apply bytes_eqb_neq. intros E. unfold plain_name in Hx.
  rewrite !andb_true_iff, !negb_true_iff in Hx. destruct Hx as [[Hx _] _].
  rewrite E, (zname_debug_prefix n Hpd) in Hx. discriminate.
Qed.

(* ----- the contents ----- *)
Lemma be_decode_encode8 v : 0 <= v < 2 ^ 64 -> be_decode (be_encode 8 v) = v.
Proof. intros H. apply (int_decode_encode_u false 8 v). exact H. Qed.

Lemma zgnu_payload le is64 a s :
  zgnu_ok a s = true ->
  deflated (z_blob a) (firstn (Z.to_nat (s_size s)) (s_stream s)) ->
  s_name (zgnu_compress a s) = zname (s_name s) /\ s_addr (zgnu_compress a s) = s_addr s /\
  exists raw size,
    stored_payload inflate le is64 (zgnu_compress a s) = Some (raw, size) /\
    zdebug_payload inflate raw size = stored_payload inflate le is64 s.
Proof.
  unfold zgnu_ok. rewrite !andb_true_iff. intros [[[Hpc Hpd] H64] Hnz] [Hd0 _].
  apply Z.ltb_lt in H64. apply negb_true_iff in Hnz. apply Z.eqb_neq in Hnz.
  destruct (plain_complete_payload inflate le is64 s Hpc) as [Hpay Hsz].
  split; [reflexivity|]. split; [reflexivity|].
  pose proof (zlen_nonneg (z_blob a)) as Hb0.
  exists (zdebug_body (s_size s) (z_blob a)), (12 + zlen (z_blob a)). split.
  - unfold stored_payload, zgnu_compress, is_compressed, is_nobits. cbn [s_flags s_type s_size s_stream].
    unfold plain_complete, is_compressed, is_nobits in Hpc. rewrite !andb_true_iff in Hpc.
    destruct Hpc as [[[Hc Hn] _] _]. apply negb_true_iff in Hc. apply negb_true_iff in Hn.
    rewrite Hc, Hn. f_equal. f_equal.
    replace (12 + zlen (z_blob a)) with (zlen (zdebug_body (s_size s) (z_blob a))).
    + apply firstn_zlen.
    + unfold zdebug_body. rewrite !zlen_app. unfold zlen at 1 2. rewrite be_encode_length.
      cbn [ZLIB_MAGIC length]. lia.
  - rewrite Hpay. unfold zdebug_payload.
    destruct (Z.leb_spec (12 + zlen (z_blob a)) 12) as [Hle|_]; [lia|].
    unfold zdebug_body. set (X := be_encode 8 (s_size s) ++ z_blob a).
    change (firstn 4 (ZLIB_MAGIC ++ X)) with ZLIB_MAGIC.
    change (skipn 4 (ZLIB_MAGIC ++ X)) with X.
    change (skipn 12 (ZLIB_MAGIC ++ X)) with (skipn 8 X).
    replace (bytes_eqb ZLIB_MAGIC ZLIB_MAGIC) with true by reflexivity.
    assert (H8 : firstn 8 X = be_encode 8 (s_size s)).
    { unfold X. rewrite <- (be_encode_length 8 (s_size s)) at 1. rewrite firstn_app, Nat.sub_diag, firstn_all.
      cbn [firstn]. apply app_nil_r. }
    rewrite H8, be_encode_length. cbn [Nat.eqb].
    replace (skipn 8 X) with (z_blob a)
      by (unfold X; rewrite <- (be_encode_length 8 (s_size s)) at 1; rewrite skipn_app, skipn_all, Nat.sub_diag; reflexivity).
    rewrite Hd0, be_decode_encode8 by lia.
    rewrite zlen_firstn by exact Hsz. rewrite Z.eqb_refl. reflexivity.
Qed.

(* ----- the slots ----- *)
Section Files.
Variables e e' : elf.
Hypothesis Hle : e_le e' = e_le e.
Hypothesis H64 : e_is64 e' = e_is64 e.
Hypothesis Hm : e_machine e' = e_machine e.
Hypothesis Hf : e_flags e' = e_flags e.
Hypothesis Hsecs : Forall2 zrel (e_secs e) (e_secs e').
Hypothesis Hplain : plain_names e = true.
Hypothesis Hnoph : no_phantom e = true.

Lemma phantom_same : has_phantom e' = has_phantom e.
Proof. unfold has_phantom. rewrite Hm, Hf. reflexivity. Qed.

Lemma zgnu_read_slot relocate n : good n = true -> read_slot e' relocate n = read_slot e relocate n.
Proof.
  intros Hg. destruct (good_facts n Hg) as [Hdot [Hnr Hnz]].
  rewrite plain_names_forallb in Hplain.
  unfold C11Container.read_slot, sec_named.
  destruct (name_in n zn) eqn:Hn.
  - (* re-encoded name *)
    destruct (find_last_z _ _ Hsecs Hplain n O Hn) as [E1 E2]. rewrite E1. cbn [option_map].
    assert (Hpd : is_prefix p_debug n = true).
    { destruct (zn_debug n Hn) as [r [-> _]]. apply is_prefix_app. }
    rewrite Hpd.
    destruct (find_last_from 0 n (e_secs e)) as [[j s]|],
             (find_last_from 0 (zname n) (e_secs e')) as [[j' s']|]; try contradiction; cbn [option_map snd].
    2:{ rewrite (plain_no_z n Hpd _ O Hplain). reflexivity. }
    destruct E2 as [_ [Hsn [a [-> [Hok Hdf]]]]].
    f_equal. unfold C11Container.read_container.
    destruct (zgnu_payload (e_le e) (e_is64 e) a s Hok Hdf) as [Hname [Haddr [raw [size [Hp1 Hp2]]]]].
    rewrite Hle, H64, Hp1, phantom_same.
    unfold no_phantom in Hnoph. apply negb_true_iff in Hnoph. rewrite Hnoph.
    rewrite Hp2, Hname, Haddr.
    destruct (stored_payload inflate (e_le e) (e_is64 e) s) as [[data dsize]|]; [|reflexivity].
    unfold reloc_index. rewrite Hsn.
    rewrite (reloc_index_z _ _ Hsecs Hplain n O Hn). reflexivity.
  - (* untouched name *)
    rewrite (find_last_same _ _ Hsecs n O Hg Hn).
    destruct (find_last_from 0 n (e_secs e)) as [[j s]|] eqn:E; cbn [option_map snd].
    + f_equal. unfold C11Container.read_container. rewrite Hle, H64, phantom_same.
      unfold reloc_index. rewrite (find_last_name _ _ _ _ _ E).
      rewrite (reloc_index_same _ _ Hsecs n O Hdot Hnz Hn). reflexivity.
    + destruct (is_prefix p_debug n) eqn:Hpd; [|reflexivity].
      destruct (find_last_znone _ _ Hsecs Hplain n O Hpd Hn) as [-> ->]. reflexivity.
Qed.

Lemma has_named_find e0 n : has_named e0 n = match sec_named e0 n with Some _ => true | None => false end.
Proof.
  unfold has_named, sec_named. generalize 0%nat. induction (e_secs e0) as [|x r IH]; intros i; [reflexivity|].
  cbn [existsb find_last_from]. rewrite (IH (S i)).
  destruct (find_last_from (S i) n r) as [y|]; cbn [option_map]; [apply orb_true_r|].
  rewrite orb_false_r. destruct (bytes_eqb (s_name x) n); reflexivity.
Qed.

Lemma zgnu_presence : presence e' true = presence e true.
Proof.
  unfold presence. cbn [negb andb]. rewrite !orb_false_r, !has_named_find.
  rewrite plain_names_forallb in Hplain. unfold sec_named.
  change n_zdebug_info with (zname n_debug_info).
  destruct (name_in n_debug_info zn) eqn:Hn.
  - destruct (find_last_z _ _ Hsecs Hplain n_debug_info O Hn) as [-> E2].
    destruct (find_last_from 0 n_debug_info (e_secs e)) as [[j s]|],
             (find_last_from 0 (zname n_debug_info) (e_secs e')) as [[j' s']|]; try contradiction;
      cbn [option_map orb]; [reflexivity|].
    rewrite (plain_no_z n_debug_info eq_refl _ O Hplain). reflexivity.
  - rewrite (find_last_same _ _ Hsecs n_debug_info O eq_refl Hn).
    destruct (find_last_znone _ _ Hsecs Hplain n_debug_info O eq_refl Hn) as [-> ->]. reflexivity.
Qed.

End Files.
End Zgnu.

(* ---------- T_zgnu produces related section lists ---------- *)
Lemma chosen_names_debug {A} (choice : nat -> option A) (ok : A -> sec -> bool) (q : nat -> sec -> bool) :
  (forall a s, ok a s = true -> is_prefix p_debug (s_name s) = true) -> forall l i,
  all_idx (fun i s => match choice i with Some a => ok a s | None => q i s end) i l = true ->
  forallb (is_prefix p_debug) (chosen_names_from choice i l) = true.
Proof.
  intros Hok. induction l as [|s r IH]; intros i H; [reflexivity|].
  cbn [all_idx] in H. apply andb_prop in H. destruct H as [Hs Hr].
  cbn [chosen_names_from]. rewrite forallb_app, (IH (S i) Hr), andb_true_r.
  destruct (choice i) as [a|]; [|reflexivity]. cbn [forallb]. rewrite (Hok a s Hs). reflexivity.
Qed.

Lemma chosen_names_in {A} (choice : nat -> option A) : forall l i j s a,
  nth_error l j = Some s -> choice (i + j)%nat = Some a ->
  name_in (s_name s) (chosen_names_from choice i l) = true.
Proof.
  induction l as [|x r IH]; intros i j s a Hj Hc; [destruct j; discriminate|].
  cbn [chosen_names_from]. rewrite name_in_app. destruct j as [|j]; cbn [nth_error] in Hj.
  - inversion Hj; subst. rewrite Nat.add_0_r in Hc. rewrite Hc. unfold name_in. cbn [existsb].
    rewrite bytes_eqb_refl. reflexivity.
  - rewrite Nat.add_succ_r in Hc. rewrite (IH (S i) j s a Hj Hc). apply orb_true_r.
Qed.

Lemma not_debug_not_in zn n : forallb (is_prefix p_debug) zn = true -> is_prefix p_debug n = false ->
  name_in n zn = false.
Proof.
  intros Hzn Hn. destruct (name_in n zn) eqn:E; [|reflexivity].
  apply name_in_iff in E. rewrite forallb_forall in Hzn. rewrite (Hzn n E) in Hn. discriminate.
Qed.

Section ZgnuTop.
Variable inflate : list Z -> Z -> option (list Z * bool).
Variable parse : list Z -> option elf.

Definition zgnu_blobs_ok (choice : nat -> option zgnu_args) (e : elf) : Prop :=
  forall i s a, nth_error (e_secs e) i = Some s -> choice i = Some a ->
                deflated inflate (z_blob a) (firstn (Z.to_nat (s_size s)) (s_stream s)).

Theorem zgnu_view_invariant choice e :
  zgnu_choice_ok choice e = true -> zgnu_blobs_ok choice e ->
  plain_names e = true -> no_phantom e = true ->
  forall fuel fs relocate follow,
    debug_view inflate parse fuel fs (T_zgnu choice e) relocate follow
    = debug_view inflate parse fuel fs e relocate follow.
Proof.
  intros Hok Hblobs Hplain Hnoph fuel fs relocate follow.
  unfold zgnu_choice_ok in Hok. set (zn := chosen_names_from choice 0 (e_secs e)) in *.
  assert (Hzn : forallb (is_prefix p_debug) zn = true).
  { apply (chosen_names_debug choice zgnu_ok (fun _ s => negb (name_in (s_name s) zn))); [|exact Hok].
    intros a s H. unfold zgnu_ok in H. rewrite !andb_true_iff in H. tauto. }
  assert (Hrel : Forall2 (zrel inflate zn) (e_secs e) (e_secs (T_zgnu choice e))).
  { unfold T_zgnu. cbn [e_secs]. fold zn. apply Forall2_map_idx. intros j s Hj. cbn [Nat.add].
    pose proof (all_idx_nth _ _ _ Hok j s Hj) as Hp. cbn [Nat.add] in Hp.
    unfold zgnu_sec. destruct (choice j) as [a|] eqn:Ec.
    - apply zr_comp; [|exact Hp|apply (Hblobs j s a Hj Ec)].
      apply (chosen_names_in choice (e_secs e) O j s a Hj). exact Ec.
    - apply negb_true_iff in Hp.
      destruct (is_reloc_sec s) eqn:Er; [|apply zr_same; [exact Hp|intros H; rewrite Er in H; discriminate]].
      destruct (reloc_target (s_name s)) as [[pre t]|] eqn:Et;
        [|apply zr_same; [exact Hp|intros _ pre' t' H; rewrite Et in H; discriminate]].
      destruct (name_in t zn) eqn:Etz.
      + apply (zr_reloc inflate zn s pre t Hp Er Et Etz).
      + apply zr_same; [exact Hp|]. intros _ pre' t' H. assert (Ht : t' = t) by congruence. rewrite Ht. exact Etz. }
  apply debug_view_ext.
  - reflexivity.
  - intros n Hn. apply (zgnu_read_slot inflate zn Hzn e (T_zgnu choice e)); try reflexivity; try assumption.
    assert (Hg : forallb good slot_names = true) by reflexivity.
    rewrite forallb_forall in Hg. apply Hg. exact Hn.
  - unfold sec_named.
    rewrite (find_last_same inflate zn Hzn _ _ Hrel n_debuglink O eq_refl
               (not_debug_not_in zn n_debuglink Hzn eq_refl)). reflexivity.
  - apply (zgnu_presence inflate zn Hzn e (T_zgnu choice e)); try reflexivity; assumption.
Qed.

End ZgnuTop.
