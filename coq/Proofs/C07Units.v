(* Proofs/C07Units.v — unit blocks of .debug_loclists / .debug_rnglists: header decoding, the offset
   table (_resolve_via_offset_table), iteration over the blocks of a section (_iter_CUs_in_section)
   and over the range lists of one block (iter_CU_range_lists_ex, repaired). *)
From Coq Require Import String.
From PV Require Import Base.Bytes Base.Outcome Base.Prim Base.Enum Spec.PrimSpec Proofs.PrimProofs
  Model.C07Kinds Model.C07Lists Model.C07Inst Gen.C07Tables Spec.C07Lists
  Proofs.C07V4 Proofs.C07V5 Proofs.C07Tables.
From Coq Require Import ZArith List Bool Lia ZifyBool.
Import ListNotations.
Open Scope string_scope.
Open Scope list_scope.
Open Scope Z_scope.

Lemma in_uint_iff n v : in_uint n v = true <-> 0 <= v < 2 ^ (8 * Z.of_nat n).
Proof. unfold in_uint. lia. Qed.

Lemma uint_in le n v t : in_uint n v = true -> uint_decode le n (int_encode le n v ++ t) = Some (v, t).
Proof. intros H. apply uint_decode_valid. apply in_uint_iff. exact H. Qed.

Lemma zlen_initial_length le len is64 :
  zlen (initial_length_encode le len is64) = initlen_size is64.
Proof.
  unfold initial_length_encode, initlen_size. destruct is64.
  - rewrite zlen_app, !zlen_int_encode. reflexivity.
  - rewrite zlen_int_encode. reflexivity.
Qed.

Lemma zlen_enc_offsets le is64 offs :
  zlen (enc_offsets le is64 offs) = Z.of_nat (offset_size is64) * zlen offs.
Proof.
  unfold enc_offsets, zlen.
  rewrite (concat_fixed_length _ (offset_size is64)) by (intros; apply int_encode_length). lia.
Qed.

Lemma zlen_enc_unit le u : zlen (enc_unit le u) = unit_size u.
Proof.
  unfold enc_unit, unit_size, ub_unit_length, ub_count.
  rewrite !zlen_app, zlen_initial_length, !zlen_int_encode, zlen_enc_offsets. lia.
Qed.

(* the nine fields struct_parse(Dwarf_*lists_CU_header) reports *)
Definition hdr_fields (pos : Z) (u : unit_blk) : container :=
  [("cu_offset", FInt pos); ("unit_length", FInt (ub_unit_length u)); ("is64", FBool (ub_is64 u));
   ("offset_after_length", FInt (pos + initlen_size (ub_is64 u)));
   ("version", FInt (ub_version u)); ("address_size", FInt (ub_asz u));
   ("segment_selector_size", FInt (ub_seg u)); ("offset_count", FInt (ub_count u));
   ("offset_table_offset", FInt (unit_table_offset pos u))].

Lemma unit_header_fields pos u :
  unit_header pos u
  = hdr_fields pos u ++ [("offsets", if 0 <? ub_count u then FInts (ub_offsets u) else FBool false)].
Proof. reflexivity. Qed.

Lemma wf_unit_parts u : wf_unit u = true ->
  initial_length_wf (ub_unit_length u) (ub_is64 u) = true /\ in_uint 2 (ub_version u) = true
  /\ in_uint 1 (ub_asz u) = true /\ in_uint 1 (ub_seg u) = true /\ in_uint 4 (ub_count u) = true
  /\ forallb (in_uint (offset_size (ub_is64 u))) (ub_offsets u) = true.
Proof.
  unfold wf_unit. intros H.
  repeat (apply andb_prop in H; destruct H as [H ?]). repeat split; assumption.
Qed.

Lemma parse_hdr_valid le u pos t :
  wf_unit u = true ->
  parse_hdr spec_list_header le (enc_unit le u ++ t) pos None
  = Ok (hdr_fields pos u, enc_offsets le (ub_is64 u) (ub_offsets u) ++ ub_body u ++ t).
Proof.
  intros Hwf. destruct (wf_unit_parts u Hwf) as (Hil & Hv & Ha & Hs & Hc & _).
  unfold enc_unit, spec_list_header. rewrite <- !app_assoc.
  cbn [parse_hdr]. rewrite initial_length_valid by exact Hil.
  cbn [parse_hdr]. rewrite (uint_in le 2) by exact Hv.
  cbn [parse_hdr]. rewrite (uint_in le 1) by exact Ha.
  cbn [parse_hdr]. rewrite (uint_in le 1) by exact Hs.
  cbn [parse_hdr]. rewrite (uint_in le 4) by exact Hc.
  cbn [parse_hdr bind]. unfold hdr_fields, unit_table_offset.
  unfold initlen_size.
  replace (pos + (if ub_is64 u then 12 else 4) + Z.of_nat 2 + Z.of_nat 1 + Z.of_nat 1 + Z.of_nat 4)
    with (pos + (if ub_is64 u then 12 else 4) + 8) by lia.
  reflexivity.
Qed.

Lemma parse_uint_array_valid le w offs t :
  forallb (in_uint w) offs = true ->
  parse_uint_array le w (length offs) (concat (map (int_encode le w) offs) ++ t) = Some (offs, t).
Proof.
  induction offs as [|o r IH]; intros H; cbn [length parse_uint_array map concat app]; [reflexivity|].
  cbn [forallb] in H. apply andb_prop in H. destruct H as [Ho Hr].
  rewrite <- app_assoc, uint_in by exact Ho. rewrite IH by exact Hr. reflexivity.
Qed.

(* ------------------------------------------------------------------ _iter_CUs_in_section *)
Lemma enc_unit_nonempty le u : 12 <= zlen (enc_unit le u).
Proof.
  rewrite zlen_enc_unit. unfold unit_size, ub_unit_length, initlen_size, ub_count.
  pose proof (zlen_nonneg (ub_offsets u)). pose proof (zlen_nonneg (ub_body u)).
  destruct (ub_is64 u); cbn [offset_size Z.of_nat Pos.of_succ_nat Pos.succ]; lia.
Qed.

Lemma iter_CUs_in_section_valid le : forall us fuel pre,
  forallb wf_unit us = true -> (length us < fuel)%nat ->
  iter_CUs_in_section fuel spec_list_header le (pre ++ concat (map (enc_unit le) us)) (zlen pre)
  = Ok (unit_headers (zlen pre) us).
Proof.
  induction us as [|u us IH]; intros fuel pre Hwf Hfuel;
    (destruct fuel as [|f]; [cbn in Hfuel; lia|]).
  - cbn [map concat iter_CUs_in_section unit_headers]. rewrite app_nil_r.
    destruct (Z.ltb_spec (zlen pre) (zlen pre)); [lia | reflexivity].
  - cbn [forallb] in Hwf. apply andb_prop in Hwf. destruct Hwf as [Hu Hus].
    destruct (wf_unit_parts u Hu) as (_ & _ & _ & _ & Hc & Hoffs).
    cbn [map concat iter_CUs_in_section unit_headers].
    pose proof (enc_unit_nonempty le u) as Hne.
    destruct (Z.ltb_spec (zlen pre) (zlen (pre ++ enc_unit le u ++ concat (map (enc_unit le) us)))) as [_|Hge];
      [| rewrite !zlen_app in Hge; pose proof (zlen_nonneg (concat (map (enc_unit le) us))); lia].
    rewrite at_pos_app, parse_hdr_valid by exact Hu. cbn [bind].
    unfold cint, cbool. cbn [hdr_fields cget assoc String.eqb Ascii.eqb Bool.eqb bind].
    assert (Hoffsets :
      (if 0 <? ub_count u
       then match parse_uint_array le (if ub_is64 u then 8%nat else 4%nat) (Z.to_nat (ub_count u))
                    (enc_offsets le (ub_is64 u) (ub_offsets u) ++ ub_body u ++ concat (map (enc_unit le) us)) with
            | Some (vs, _) => Ok (FInts vs)
            | None => Err EParse
            end
       else Ok (FBool false))
      = Ok (if 0 <? ub_count u then FInts (ub_offsets u) else FBool false)).
    { destruct (0 <? ub_count u); [|reflexivity].
      unfold ub_count, zlen. rewrite Nat2Z.id. unfold enc_offsets.
      replace (if ub_is64 u then 8%nat else 4%nat) with (offset_size (ub_is64 u)) by reflexivity.
      rewrite parse_uint_array_valid by exact Hoffs. reflexivity. }
    rewrite Hoffsets. cbn [bind].
    replace (zlen pre + initlen_size (ub_is64 u) + ub_unit_length u) with (zlen (pre ++ enc_unit le u))
      by (rewrite zlen_app, zlen_enc_unit; unfold unit_size; lia).
    rewrite (app_assoc pre). rewrite IH; [| exact Hus | cbn [length] in Hfuel; lia].
    cbn [bind]. rewrite zlen_app, zlen_enc_unit. reflexivity.
Qed.

(* unit_blocks_exact, first half: the blocks of a section, in order, each with its header fields
   and its offset table *)
Theorem iter_CUs_valid le version us :
  5 <= version -> forallb wf_unit us = true ->
  iter_CUs spec_list_header le version (concat (map (enc_unit le) us)) = Ok (unit_headers 0 us).
Proof.
  intros Hv Hwf. unfold iter_CUs. destruct (Z.ltb_spec version 5); [lia|].
  apply (iter_CUs_in_section_valid le us _ []); [exact Hwf|].
  clear Hwf. induction us as [|u us IH]; cbn [map concat length]; [lia|].
  rewrite app_length. pose proof (enc_unit_nonempty le u) as Hne. unfold zlen in Hne. lia.
Qed.

(* ------------------------------------------------------------------ the offset table *)
(* by_offset_table: entry k of the table of the unit block at pre designates base + offsets[k] *)
Theorem resolve_via_offset_table_valid le u pre post cu k :
  wf_unit u = true -> cu_is64 cu = ub_is64 u -> 0 <= k < ub_count u ->
  resolve_via_offset_table le (pre ++ enc_unit le u ++ post) cu k (Some (unit_table_offset (zlen pre) u))
  = Ok (unit_table_offset (zlen pre) u + nth (Z.to_nat k) (ub_offsets u) 0).
Proof.
  intros Hwf H64 Hk. destruct (wf_unit_parts u Hwf) as (_ & _ & _ & _ & _ & Hoffs).
  unfold resolve_via_offset_table. cbn [get_base_offset bind]. rewrite H64.
  assert (Hn : (Z.to_nat k < length (ub_offsets u))%nat) by (unfold ub_count, zlen in Hk; lia).
  unfold enc_unit, enc_offsets.
  rewrite (concat_map_split (int_encode le (offset_size (ub_is64 u))) (ub_offsets u) (Z.to_nat k) 0 Hn).
  set (hdr := initial_length_encode le (ub_unit_length u) (ub_is64 u)).
  set (w := offset_size (ub_is64 u)).
  replace (Z.to_nat (if ub_is64 u then 8 else 4)) with w by (unfold w; destruct (ub_is64 u); reflexivity).
  replace (pre ++ (hdr ++ int_encode le 2 (ub_version u) ++ int_encode le 1 (ub_asz u) ++
                   int_encode le 1 (ub_seg u) ++ int_encode le 4 (ub_count u) ++
                   (concat (map (int_encode le w) (firstn (Z.to_nat k) (ub_offsets u))) ++
                    int_encode le w (nth (Z.to_nat k) (ub_offsets u) 0) ++
                    concat (map (int_encode le w) (skipn (S (Z.to_nat k)) (ub_offsets u)))) ++ ub_body u) ++ post)
    with ((pre ++ hdr ++ int_encode le 2 (ub_version u) ++ int_encode le 1 (ub_asz u) ++
           int_encode le 1 (ub_seg u) ++ int_encode le 4 (ub_count u)) ++
          concat (map (int_encode le w) (firstn (Z.to_nat k) (ub_offsets u))) ++
          (int_encode le w (nth (Z.to_nat k) (ub_offsets u) 0) ++
           concat (map (int_encode le w) (skipn (S (Z.to_nat k)) (ub_offsets u))) ++ ub_body u ++ post))
    by (rewrite <- !app_assoc; reflexivity).
  rewrite at_pos_app2.
  - rewrite forallb_forall in Hoffs.
    rewrite uint_in by (apply Hoffs; apply nth_In; exact Hn). reflexivity.
  - unfold hdr. rewrite !zlen_app, zlen_initial_length, !zlen_int_encode. unfold zlen.
    rewrite (concat_fixed_length _ w) by (intros; apply int_encode_length).
    rewrite firstn_length_le by lia. unfold unit_table_offset, zlen, w.
    destruct (ub_is64 u); cbn [offset_size initlen_size Z.of_nat Pos.of_succ_nat Pos.succ]; lia.
Qed.

(* ------------------------------------------------------------------ iter_CU_range_lists_ex *)
Definition rle_wf_list (asz : nat) (l : list rle) : bool := forallb (fun x => wf_ops asz (rle_ops x)) l.

Lemma enc_rle_list_eq le asz l : enc_rle_list le asz l = enc_list rle_code rle_ops le asz l.
Proof. reflexivity. Qed.

Lemma range_lists_ex_loop_valid S : forall lists fuel pre post,
  forallb (rle_wf_list (s_asz S)) lists = true -> (length lists < fuel)%nat ->
  range_lists_ex_loop fuel RLE_TABLES S (pre ++ rng_body (s_le S) (s_asz S) lists ++ post) (zlen pre)
                      (zlen pre + zlen (rng_body (s_le S) (s_asz S) lists))
  = Ok (rng_lists_raw (s_le S) (s_asz S) (zlen pre) lists).
Proof.
  induction lists as [|l lists IH]; intros fuel pre post Hwf Hfuel;
    (destruct fuel as [|f]; [cbn in Hfuel; lia|]).
  - unfold rng_body. cbn [map concat range_lists_ex_loop rng_lists_raw].
    change (zlen (@nil Z)) with 0. destruct (Z.ltb_spec (zlen pre) (zlen pre + 0)); [lia | reflexivity].
  - cbn [forallb] in Hwf. apply andb_prop in Hwf. destruct Hwf as [Hl Hls].
    unfold rng_body. cbn [map concat range_lists_ex_loop rng_lists_raw]. fold (rng_body (s_le S) (s_asz S) lists).
    assert (Hpos : 1 <= zlen (enc_rle_list (s_le S) (s_asz S) l)).
    { unfold enc_rle_list. rewrite zlen_app. change (zlen [DW_RLE_end_of_list]) with 1.
      pose proof (zlen_nonneg (concat (map (enc_rle (s_le S) (s_asz S)) l))). lia. }
    rewrite zlen_app.
    destruct (Z.ltb_spec (zlen pre) (zlen pre + (zlen (enc_rle_list (s_le S) (s_asz S) l) +
                                                  zlen (rng_body (s_le S) (s_asz S) lists)))) as [_|Hge];
      [| pose proof (zlen_nonneg (rng_body (s_le S) (s_asz S) lists)); lia].
    rewrite at_pos_app. rewrite <- !app_assoc.
    rewrite enc_rle_list_eq. unfold enc_list at 1 2. rewrite <- !app_assoc. cbn [app].
    rewrite (parse_entries_valid RLE_TABLES rle_code rle_name rle_ops "DW_RLE_end_of_list" rle_tables_ok);
      [| exact Hl |].
    + cbn [bind].
      set (rest := rng_body (s_le S) (s_asz S) lists ++ post).
      replace (zlen pre + (zlen (enc_list rle_code rle_ops (s_le S) (s_asz S) l ++ rest) - zlen rest))
        with (zlen (pre ++ enc_list rle_code rle_ops (s_le S) (s_asz S) l))
        by (rewrite !zlen_app; lia).
      replace (pre ++ enc_list rle_code rle_ops (s_le S) (s_asz S) l ++ rest)
        with ((pre ++ enc_list rle_code rle_ops (s_le S) (s_asz S) l) ++ rng_body (s_le S) (s_asz S) lists ++ post)
        by (unfold rest; rewrite <- !app_assoc; reflexivity).
      replace (zlen pre + (zlen (enc_list rle_code rle_ops (s_le S) (s_asz S) l) + zlen (rng_body (s_le S) (s_asz S) lists)))
        with (zlen (pre ++ enc_list rle_code rle_ops (s_le S) (s_asz S) l) + zlen (rng_body (s_le S) (s_asz S) lists))
        by (rewrite zlen_app; lia).
      rewrite IH; [| exact Hls | cbn [length] in Hfuel; lia].
      cbn [bind]. rewrite zlen_app. reflexivity.
    + pose proof (enc_list_length rle_code rle_ops (s_le S) (s_asz S) l) as H.
      rewrite !app_length in *. cbn [length] in *. lia.
Qed.

(* unit_blocks_exact, second half: the untranslated lists of one block, from the end of its offset
   table (offset_count >= 0 entries of 8 | 4 bytes) to the end of the block *)
Theorem iter_CU_range_lists_ex_valid S u lists pre post :
  wf_unit u = true -> ub_body u = rng_body (s_le S) (s_asz S) lists ->
  forallb (rle_wf_list (s_asz S)) lists = true ->
  iter_CU_range_lists_ex RLE_TABLES S (pre ++ enc_unit (s_le S) u ++ post) (unit_header (zlen pre) u)
  = Ok (rng_lists_raw (s_le S) (s_asz S) (unit_body_offset (zlen pre) u) lists).
Proof.
  intros Hwf Hbody Hlists. unfold iter_CU_range_lists_ex, cint, cbool.
  cbn [unit_header cget assoc String.eqb Ascii.eqb Bool.eqb bind].
  set (hdr := initial_length_encode (s_le S) (ub_unit_length u) (ub_is64 u) ++
              int_encode (s_le S) 2 (ub_version u) ++ int_encode (s_le S) 1 (ub_asz u) ++
              int_encode (s_le S) 1 (ub_seg u) ++ int_encode (s_le S) 4 (ub_count u) ++
              enc_offsets (s_le S) (ub_is64 u) (ub_offsets u)).
  assert (Hst : pre ++ enc_unit (s_le S) u ++ post
                = (pre ++ hdr) ++ rng_body (s_le S) (s_asz S) lists ++ post).
  { unfold enc_unit, hdr. rewrite Hbody, <- !app_assoc. reflexivity. }
  assert (Hlen : zlen (pre ++ hdr) = unit_body_offset (zlen pre) u).
  { unfold hdr, unit_body_offset, unit_table_offset.
    rewrite !zlen_app, zlen_initial_length, !zlen_int_encode, zlen_enc_offsets. unfold ub_count. lia. }
  rewrite Hst.
  replace (unit_table_offset (zlen pre) u + (if ub_is64 u then 8 else 4) * ub_count u) with (zlen (pre ++ hdr))
    by (rewrite Hlen; unfold unit_body_offset; destruct (ub_is64 u); reflexivity).
  replace (zlen pre + initlen_size (ub_is64 u) + ub_unit_length u)
    with (zlen (pre ++ hdr) + zlen (rng_body (s_le S) (s_asz S) lists))
    by (rewrite Hlen; unfold unit_body_offset, unit_table_offset, ub_unit_length; rewrite Hbody; lia).
  rewrite range_lists_ex_loop_valid; [rewrite Hlen; reflexivity | exact Hlists |].
  rewrite !app_length. unfold rng_body. clear.
  induction lists as [|l ls IH]; cbn [map concat length]; [lia|].
  rewrite app_length. unfold enc_rle_list at 1. rewrite app_length. cbn [length]. lia.
Qed.
