(* Proofs/C10Tree.v — geometry of the entry tree of a well-formed unit (Spec/C10Spec.v):
   every entry of a subtree lies inside the extent of the subtree; units tile .debug_info. *)
From PV Require Import Spec.C10Spec.
From Coq Require Import ZArith List Bool Lia ZifyBool.
Import ListNotations.
Open Scope Z_scope.

(* induction over the nested inductive [node] *)
Fixpoint node_ind' (Pn : node -> Prop)
    (H : forall off raw kids toff traw, Forall Pn kids -> Pn (Node off raw kids toff traw)) (n : node) : Pn n :=
  match n with
  | Node off raw kids toff traw =>
      H off raw kids toff traw
        ((fix go (l : list node) : Forall Pn l :=
            match l with [] => Forall_nil _ | k :: r => Forall_cons k (node_ind' Pn H k) (go r) end) kids)
  end.

Lemma zassoc_in {A} k (l : list (Z * A)) v : zassoc k l = Some v -> In (k, v) l.
Proof.
  induction l as [|[k' v'] r IH]; cbn [zassoc]; [discriminate|].
  destruct (Z.eqb_spec k k') as [->|Hne]; intros H; [left; congruence | right; auto].
Qed.

Lemma znodup_notin x l : existsb (Z.eqb x) l = false -> ~ In x l.
Proof.
  intros H Hin. assert (existsb (Z.eqb x) l = true); [|congruence].
  apply existsb_exists. exists x. split; auto. apply Z.eqb_refl.
Qed.

Lemma in_zassoc {A} k (l : list (Z * A)) v : znodup (map fst l) = true -> In (k, v) l -> zassoc k l = Some v.
Proof.
  induction l as [|[k' v'] r IH]; intros Hnd Hin; [destruct Hin|].
  cbn [map fst znodup] in Hnd. apply andb_prop in Hnd. destruct Hnd as [Hn Hnd].
  cbn [zassoc]. destruct Hin as [E|Hin].
  - inversion E. subst. rewrite Z.eqb_refl. reflexivity.
  - destruct (Z.eqb_spec k k') as [->|Hne]; [|auto].
    exfalso. apply negb_true_iff in Hn. apply znodup_notin in Hn. apply Hn.
    apply in_map_iff. exists (k', v). auto.
Qed.

(* ---- extents *)
Lemma chain_range pos kids toff : chain pos kids toff = true ->
  (forall k, In k kids -> node_off k < node_end k) ->
  pos <= toff /\ forall k, In k kids -> pos <= node_off k /\ node_end k <= toff.
Proof.
  revert pos. induction kids as [|k r IH]; intros pos H Hk; cbn [chain] in H.
  - split; [lia|]. intros k [].
  - apply andb_prop in H. destruct H as [H1 H2].
    destruct (IH _ H2) as [Hle Hr]; [intros x Hx; apply Hk; cbn; auto|].
    pose proof (Hk k (or_introl eq_refl)) as Hk0. split; [lia|].
    intros x [<-|Hx]; [lia|]. destruct (Hr x Hx). lia.
Qed.

Lemma wf_node_unfold u off raw kids toff traw : wf_node u (Node off raw kids toff traw) = true ->
  dr_null raw = false /\ 0 < dr_size raw /\
  (if dr_hc raw then chain (off + dr_size raw) kids toff = true /\ dr_null traw = true /\ dr_hc traw = false /\ 0 < dr_size traw
   else kids = []) /\
  sib_ok u (Node off raw kids toff traw) = true /\ forallb (wf_node u) kids = true.
Proof.
  cbn [wf_node]. intros H.
  apply andb_prop in H. destruct H as [H H5]. apply andb_prop in H. destruct H as [H H4].
  apply andb_prop in H. destruct H as [H H3]. apply andb_prop in H. destruct H as [H1 H2].
  split; [destruct (dr_null raw); [discriminate|reflexivity]|]. split; [lia|]. split; [|auto].
  destruct (dr_hc raw).
  - apply andb_prop in H3. destruct H3 as [H3 Hd]. apply andb_prop in H3. destruct H3 as [H3 Hc].
    apply andb_prop in H3. destruct H3 as [Ha Hb]. repeat split; auto; try lia.
  - destruct kids; [reflexivity|discriminate].
Qed.

Lemma node_extent u n : wf_node u n = true ->
  node_off n < node_end n /\ forall par o e, In (o, e) (flat par n) -> node_off n <= o < node_end n.
Proof.
  induction n as [off raw kids toff traw IH] using node_ind'. intros Hwf.
  destruct (wf_node_unfold _ _ _ _ _ _ Hwf) as (Hnn & Hsz & Hhc & _ & Hkids).
  rewrite forallb_forall in Hkids. rewrite Forall_forall in IH.
  cbn [node_off node_end flat]. destruct (dr_hc raw) eqn:Ehc.
  - destruct Hhc as (Hch & Htn & Hth & Hts).
    assert (Hk : forall k, In k kids -> node_off k < node_end k).
    { intros k Hk. apply IH; auto. }
    destruct (chain_range _ _ _ Hch Hk) as [Hle Hr].
    split; [lia|]. intros par o e [E|Hin].
    + inversion E. subst. lia.
    + apply in_app_or in Hin. destruct Hin as [Hin|Hin].
      * apply in_flat_map in Hin. destruct Hin as (k & Hk1 & Hk2).
        destruct (IH k Hk1 (Hkids k Hk1)) as [_ Hrange]. specialize (Hrange _ _ _ Hk2).
        destruct (Hr k Hk1). lia.
      * destruct Hin as [E|[]]. inversion E. subst. lia.
  - subst kids. split; [lia|]. intros par o e Hin. cbn in Hin. destruct Hin as [E|[]]. inversion E. lia.
Qed.

(* ---- units tile the section *)
Section Units.
  Set Default Proof Using "All".
  Variable F : file.
  Hypothesis WF : wf_file F = true.

  Definition usize (ud : udesc) : Z := uh_size (ud_hdr ud).
  Definition contains (a : Z) (ud : udesc) : bool := (ud_off ud <=? a) && (a <? ud_off ud + uh_size (ud_hdr ud)).

  Lemma wf_file_all : units_chain 0 (f_units F) (f_info_size F) = true /\
    forallb (wf_unit F) (f_units F) = true /\ wf_lines F = true /\
    wf_cfi (f_cfi_ents F) = true /\ wf_cfi (f_ehcfi_ents F) = true /\ wf_elf F = true.
  Proof.
    unfold wf_file in WF. apply andb_prop in WF. destruct WF as [W H6].
    apply andb_prop in W. destruct W as [W H7].
    apply andb_prop in W. destruct W as [W H5]. apply andb_prop in W. destruct W as [W H4].
    apply andb_prop in W. destruct W as [W H3]. apply andb_prop in W. destruct W as [H1 H2]. auto 10.
  Qed.

  Lemma wf_file_parts : units_chain 0 (f_units F) (f_info_size F) = true /\
    (forall ud, In ud (f_units F) -> wf_unit F ud = true) /\ wf_elf F = true.
  Proof.
    destruct wf_file_all as (H1 & H2 & _ & _ & _ & H6). rewrite forallb_forall in H2. auto.
  Qed.

  Lemma wf_file_lines : wf_lines F = true.
  Proof. apply wf_file_all. Qed.

  Lemma wf_file_tus : tus_chain 0 (f_tus F) (f_types_size F) = true.
  Proof.
    unfold wf_file in WF. apply andb_prop in WF. destruct WF as [W H6].
    apply andb_prop in W. destruct W as [W H7]. exact H7.
  Qed.

  Lemma wf_file_cfi eh : wf_cfi (cfi_ents F eh) = true.
  Proof. destruct wf_file_all as (_ & _ & _ & H4 & H5 & _). destruct eh; assumption. Qed.

  Lemma chain_bounds l : forall pos size, units_chain pos l size = true ->
    pos <= size /\ forall ud, In ud l -> pos <= ud_off ud /\ 0 < usize ud /\ ud_off ud + usize ud <= size.
  Proof.
    induction l as [|x r IH]; intros pos size H; cbn [units_chain] in H.
    - split; [lia|]. intros ud [].
    - apply andb_prop in H. destruct H as [H H3]. apply andb_prop in H. destruct H as [H1 H2].
      destruct (IH _ _ H3) as [Hle Hr]. unfold usize in *. split; [lia|].
      intros ud [<-|Hin]; [lia|]. destruct (Hr ud Hin) as (A & B & C). lia.
  Qed.

  Lemma chain_find_off l : forall pos size ud, units_chain pos l size = true -> In ud l ->
    find (fun x => ud_off x =? ud_off ud) l = Some ud.
  Proof.
    induction l as [|x r IH]; intros pos size ud H Hin; [destruct Hin|].
    cbn [units_chain] in H. apply andb_prop in H. destruct H as [H H3]. apply andb_prop in H. destruct H as [H1 H2].
    cbn [find]. destruct Hin as [<-|Hin]; [rewrite Z.eqb_refl; reflexivity|].
    destruct (chain_bounds _ _ _ H3) as [_ Hr]. destruct (Hr ud Hin) as (A & _).
    destruct (Z.eqb_spec (ud_off x) (ud_off ud)); [lia|]. eapply IH; eauto.
  Qed.

  Lemma chain_split l : forall pos size ud, units_chain pos l size = true -> In ud l ->
    exists pre l', l = pre ++ ud :: l' /\ units_chain (ud_off ud) (ud :: l') size = true /\
                   forall x, In x pre -> ud_off x + usize x <= ud_off ud.
  Proof.
    induction l as [|x r IH]; intros pos size ud H Hin; [destruct Hin|].
    pose proof H as H0.
    cbn [units_chain] in H. apply andb_prop in H. destruct H as [H H3]. apply andb_prop in H. destruct H as [H1 H2].
    destruct Hin as [<-|Hin].
    - exists [], r. split; [reflexivity|]. split; [|intros y []].
      replace (ud_off x) with pos by lia. exact H0.
    - destruct (IH _ _ _ H3 Hin) as (pre & l' & -> & Hc & Hpre).
      exists (x :: pre), l'. split; [reflexivity|]. split; [exact Hc|].
      intros y [<-|Hy]; [|auto]. destruct (chain_bounds _ _ _ H3) as [_ Hr].
      destruct (Hr ud) as (A & _); [apply in_or_app; right; cbn; auto|]. unfold usize. lia.
  Qed.

  Lemma unit_at_in u ud : unit_at F u = Some ud -> In ud (f_units F) /\ ud_off ud = u.
  Proof. unfold unit_at. intros H. apply find_some in H. destruct H as [H1 H2]. split; auto. lia. Qed.

  Lemma unit_at_self ud : In ud (f_units F) -> unit_at F (ud_off ud) = Some ud.
  Proof. intros H. destruct wf_file_parts as (Hc & _). unfold unit_at. eapply chain_find_off; eauto. Qed.

  Lemma unit_bounds u ud : unit_at F u = Some ud -> 0 <= u /\ 0 < usize ud /\ u + usize ud <= f_info_size F.
  Proof.
    intros H. destruct (unit_at_in _ _ H) as [Hin <-]. destruct wf_file_parts as (Hc & _).
    destruct (chain_bounds _ _ _ Hc) as [_ Hr]. destruct (Hr _ Hin) as (A & B & C). lia.
  Qed.

  Lemma unit_next u ud : unit_at F u = Some ud ->
    u + usize ud = f_info_size F \/ exists ud', unit_at F (u + usize ud) = Some ud'.
  Proof.
    intros H. destruct (unit_at_in _ _ H) as [Hin <-]. destruct wf_file_parts as (Hc & _).
    destruct (chain_split _ _ _ _ Hc Hin) as (pre & l' & E & Hc' & _).
    cbn [units_chain] in Hc'. apply andb_prop in Hc'. destruct Hc' as [_ H3].
    destruct l' as [|x r]; cbn [units_chain] in H3.
    - left. unfold usize. lia.
    - right. exists x. apply andb_prop in H3. destruct H3 as [H3 _]. apply andb_prop in H3. destruct H3 as [H3 _].
      unfold usize. replace (ud_off ud + uh_size (ud_hdr ud)) with (ud_off x) by lia.
      apply unit_at_self. rewrite E. apply in_or_app. right. cbn. auto.
  Qed.

  Lemma unit_wf u ud : unit_at F u = Some ud -> wf_unit F ud = true.
  Proof. intros H. destruct (unit_at_in _ _ H) as [Hin _]. destruct wf_file_parts as (_ & Hw & _). auto. Qed.

  Lemma wf_unit_facts ud : wf_unit F ud = true ->
    wf_node (ud_off ud) (ud_tree ud) = true /\ node_off (ud_tree ud) = ud_die_off ud /\
    ud_off ud < ud_die_off ud /\ node_end (ud_tree ud) <= ud_off ud + usize ud /\
    znodup (map fst (ud_entries ud)) = true /\ uh_abbrev (ud_hdr ud) < f_abbrev_size F /\
    (exists v, zassoc (uh_abbrev (ud_hdr ud)) (f_abbrevs F) = Some v) /\
    (forall off, dr_stmt (node_raw (ud_tree ud)) = Some off -> exists ld, zassoc off (f_lines F) = Some ld).
  Proof.
    unfold wf_unit. intros H.
    apply andb_prop in H. destruct H as [H H8]. apply andb_prop in H. destruct H as [H H7].
    apply andb_prop in H. destruct H as [H H6]. apply andb_prop in H. destruct H as [H H5].
    apply andb_prop in H. destruct H as [H H4]. apply andb_prop in H. destruct H as [H H3].
    apply andb_prop in H. destruct H as [H1 H2]. unfold usize.
    repeat split; auto; try lia.
    - destruct (zassoc (uh_abbrev (ud_hdr ud)) (f_abbrevs F)); [eauto|discriminate].
    - intros off E. rewrite E in H8. destruct (zassoc off (f_lines F)); [eauto|discriminate].
  Qed.

  (* an entry of a unit lies between the unit's first entry and the end of the unit *)
  Lemma entry_range u o e ud : unit_at F u = Some ud -> zassoc o (ud_entries ud) = Some e ->
    ud_die_off ud <= o < u + usize ud.
  Proof.
    intros Hu He. destruct (wf_unit_facts _ (unit_wf _ _ Hu)) as (Hw & Ho & _ & Hend & _).
    destruct (unit_at_in _ _ Hu) as [_ Eu]. subst u.
    destruct (node_extent _ _ Hw) as [_ Hr]. apply zassoc_in in He. specialize (Hr _ _ _ He). lia.
  Qed.

  Lemma top_entry ud : wf_unit F ud = true ->
    exists e, zassoc (ud_die_off ud) (ud_entries ud) = Some e /\ en_raw e = node_raw (ud_tree ud) /\ en_parent e = None.
  Proof.
    intros H. destruct (wf_unit_facts _ H) as (_ & Ho & _). unfold ud_entries.
    destruct (ud_tree ud) as [off raw kids toff traw]. cbn [node_off] in Ho. subst off.
    cbn [flat zassoc]. rewrite Z.eqb_refl. eexists. split; [reflexivity|]. split; reflexivity.
  Qed.

  (* the unit that contains an address *)
  Lemma find_app_skip {A} (p : A -> bool) pre l : (forall x, In x pre -> p x = false) -> find p (pre ++ l) = find p l.
  Proof. induction pre as [|y r IH]; intros H; cbn [app find]; [reflexivity|]. rewrite H by (cbn; auto). apply IH. intros x Hx. apply H. cbn; auto. Qed.

  Lemma containing_from u ud a : unit_at F u = Some ud -> u <= a ->
    exists pre l, f_units F = pre ++ l /\ units_chain u l (f_info_size F) = true /\
                  unit_containing F a = find (contains a) l.
  Proof.
    intros Hu Ha. destruct (unit_at_in _ _ Hu) as [Hin <-]. destruct wf_file_parts as (Hc & _).
    destruct (chain_split _ _ _ _ Hc Hin) as (pre & l' & E & Hc' & Hpre).
    exists pre, (ud :: l'). split; [exact E|]. split; [exact Hc'|].
    unfold unit_containing. rewrite E. apply find_app_skip.
    intros x Hx. specialize (Hpre x Hx). unfold usize in Hpre.
    destruct (Z.ltb_spec a (ud_off x + uh_size (ud_hdr x))); [lia|]. apply andb_false_r.
  Qed.
  (* ---- type units tile .debug_types *)
  Lemma tus_chain_props l : forall pos size, tus_chain pos l size = true ->
    pos <= size /\ forall x, In x l -> pos <= tu_off x /\ 0 < tu_size (tu_hdr x) /\ tu_off x + tu_size (tu_hdr x) <= size.
  Proof.
    induction l as [|x r IH]; intros pos size H; cbn [tus_chain] in H.
    - split; [lia|]. intros y [].
    - apply andb_prop in H. destruct H as [H H3]. apply andb_prop in H. destruct H as [H1 H2].
      destruct (IH _ _ H3) as [Hle Hr]. split; [lia|].
      intros y [<-|Hin]; [lia|]. destruct (Hr y Hin) as (A & B & C). lia.
  Qed.

  Lemma tus_chain_find l : forall pos size x, tus_chain pos l size = true -> In x l ->
    find (fun y => tu_off y =? tu_off x) l = Some x.
  Proof.
    induction l as [|y r IH]; intros pos size x H Hin; [destruct Hin|].
    cbn [tus_chain] in H. apply andb_prop in H. destruct H as [H H3]. apply andb_prop in H. destruct H as [H1 H2].
    cbn [find]. destruct Hin as [<-|Hin]; [rewrite Z.eqb_refl; reflexivity|].
    destruct (tus_chain_props _ _ _ H3) as [_ Hr]. destruct (Hr x Hin) as (A & _).
    destruct (Z.eqb_spec (tu_off y) (tu_off x)); [lia|]. eapply IH; eauto.
  Qed.
End Units.
