(* Proofs/C19Proofs.v — lemmas for C19 part 1: the constructor model raises only
   ELFError / ELFParseError on every byte list.  A small Hoare logic over the
   counting monad of Model/C19Base.v: [post m Q] = "m returns a value satisfying Q
   or fails with EElf / EParse" (never with a Python-level exception, never EFuel). *)
From Coq Require Import String.
From PV Require Import Base.Bytes Base.Outcome Base.Fmt Base.Prim Base.Enum.
From PV Require Import Gen.ElfLayouts Gen.Tables Model.C19Base Model.C19Ctor.
From Coq Require Import Lia ZifyBool.
Open Scope Z_scope.

(* ------------------------------------------------------------------ bytes *)
Lemma all_bytes_firstn n (l : list Z) : all_bytes l = true -> all_bytes (firstn n l) = true.
Proof.
  revert l; induction n as [|n IH]; intros [|b r] H; cbn [firstn]; auto.
  cbn [all_bytes forallb] in *. apply andb_prop in H. destruct H as [Hb Hr].
  rewrite Hb. cbn. apply IH. exact Hr.
Qed.

Lemma all_bytes_skipn n (l : list Z) : all_bytes l = true -> all_bytes (skipn n l) = true.
Proof.
  revert l; induction n as [|n IH]; intros [|b r] H; cbn [skipn]; auto.
  cbn [all_bytes forallb] in H. apply andb_prop in H. destruct H as [_ Hr]. apply IH. exact Hr.
Qed.

Lemma all_bytes_tl (b : Z) (r : list Z) : all_bytes (b :: r) = true -> all_bytes r = true.
Proof. cbn [all_bytes forallb]. intros H. apply andb_prop in H. tauto. Qed.

Lemma all_bytes_skip_pos : forall p (l : list Z), all_bytes l = true -> all_bytes (skip_pos p l) = true.
Proof.
  induction p as [q IH|q IH|]; intros [|b r] H; cbn [skip_pos]; try reflexivity.
  - apply IH, IH. eapply all_bytes_tl; exact H.
  - apply IH, IH. exact H.
  - eapply all_bytes_tl; exact H.
Qed.

Lemma all_bytes_skipz : forall (l : list Z) pos, all_bytes l = true -> all_bytes (skipz l pos) = true.
Proof. intros l [|p|p] H; cbn [skipz]; auto. apply all_bytes_skip_pos. exact H. Qed.

Lemma all_bytes_takez : forall (l : list Z) n, all_bytes l = true -> all_bytes (takez l n) = true.
Proof.
  induction l as [|b r IH]; intros n H; cbn [takez]; destruct (n <=? 0); auto.
  cbn [all_bytes forallb] in *. apply andb_prop in H. destruct H as [Hb Hr].
  rewrite Hb. cbn. apply IH. exact Hr.
Qed.

Lemma all_bytes_rest_at bs pos : all_bytes bs = true -> all_bytes (rest_at bs pos) = true.
Proof. apply all_bytes_skipz. Qed.

Lemma all_bytes_app_r (a t : list Z) : all_bytes (a ++ t) = true -> all_bytes t = true.
Proof. rewrite all_bytes_app. intros H. apply andb_prop in H. tauto. Qed.
Lemma all_bytes_app_l (a t : list Z) : all_bytes (a ++ t) = true -> all_bytes a = true.
Proof. rewrite all_bytes_app. intros H. apply andb_prop in H. tauto. Qed.

(* ------------------------------------------------------------------ decoded records of
   unsigned layouts carry non-negative integers *)
Definition unsigned_kind (k : fkind) : bool :=
  match k with
  | KU _ _ | KPad _ | KBytes _ | KBits _ _ | KArr _ _ _ => true
  | KS _ _ | KCalc _ => false
  end.
Definition unsigned_layout (L : layout) : bool := forallb (fun f => unsigned_kind (snd f)) L.

Definition nonneg_entry (p : string * fval) : Prop :=
  match snd p with VZ z => 0 <= z | _ => True end.
Definition rec_nonneg (r : record) : Prop := Forall nonneg_entry r.

Lemma rec_z_nonneg r f : rec_nonneg r -> 0 <= rec_z r f.
Proof.
  unfold rec_z. induction r as [|[k v] r IH]; intros H; cbn [rec_get].
  - lia.
  - inversion H as [|? ? Hh Ht]; subst.
    destruct (k =? f)%string.
    + unfold nonneg_entry in Hh. cbn in Hh. destruct v; lia.
    + apply IH. exact Ht.
Qed.

Lemma split_bits_rev_nonneg rparts : forall v, Forall nonneg_entry (split_bits_rev rparts v).
Proof.
  induction rparts as [|[nm w] r IH]; intros v; cbn [split_bits_rev]; constructor.
  - unfold nonneg_entry. cbn [snd].
    assert (0 < 2 ^ Z.of_nat w) by (apply Z.pow_pos_nonneg; lia).
    apply Z.mod_pos_bound. lia.
  - apply IH.
Qed.

Lemma Forall_rev' {A} (P : A -> Prop) l : Forall P l -> Forall P (rev l).
Proof.
  induction l as [|x l IH]; intros H; cbn [rev]; auto.
  inversion H; subst. apply Forall_app. split; auto.
Qed.

(* what a field decoder leaves is a suffix of what it was given *)
Lemma decode_arr_suffix le n cnt : forall bs zs t,
  decode_arr le n cnt bs = Some (zs, t) -> exists a, bs = (a ++ t)%list.
Proof.
  induction cnt as [|c IH]; intros bs zs t H; cbn [decode_arr] in H.
  - inversion H; subst. exists []. reflexivity.
  - destruct (take n bs) as [[a r]|] eqn:Et; [|discriminate].
    destruct (decode_arr le n c r) as [[zs' t']|] eqn:Ed; [|discriminate].
    inversion H; subst. apply take_some in Et. destruct Et as [-> _].
    destruct (IH _ _ _ Ed) as [a' ->]. exists (a ++ a')%list. rewrite app_assoc. reflexivity.
Qed.

Lemma decode_kind_suffix nm k e bs es t :
  decode_kind nm k e bs = Some (es, t) -> exists a, bs = (a ++ t)%list.
Proof.
  intros Hd. destruct k as [le n|le n|n|n|nb parts|c le n|x]; cbn [decode_kind] in Hd;
    try (match type of Hd with
         | context [take ?n ?bs] => destruct (take n bs) as [[a r]|] eqn:Et; [|discriminate];
             inversion Hd; subst; apply take_some in Et; destruct Et as [-> _]; exists a; reflexivity
         end).
  - destruct (decode_arr le n (Z.to_nat (eval e c)) bs) as [[zs t']|] eqn:Ed; [|discriminate].
    inversion Hd; subst. eapply decode_arr_suffix. exact Ed.
  - inversion Hd; subst. exists []. reflexivity.
Qed.

Lemma decode_fields_suffix L : forall e bs es t,
  decode_fields L e bs = Some (es, t) -> exists a, bs = (a ++ t)%list.
Proof.
  induction L as [|[nm k] L IH]; intros e bs es t H; cbn [decode_fields] in H.
  - inversion H; subst. exists []. reflexivity.
  - destruct (decode_kind nm k e bs) as [[en r]|] eqn:Ek; [|discriminate].
    destruct (decode_fields L (rev en ++ e)%list r) as [[es' t']|] eqn:Ef; [|discriminate].
    inversion H; subst.
    destruct (decode_kind_suffix _ _ _ _ _ _ Ek) as [a ->].
    destruct (IH _ _ _ _ Ef) as [a' ->]. exists (a ++ a')%list. rewrite app_assoc. reflexivity.
Qed.

Lemma decode_kind_nonneg nm k e bs es t :
  unsigned_kind k = true -> all_bytes bs = true ->
  decode_kind nm k e bs = Some (es, t) -> Forall nonneg_entry es.
Proof.
  intros Hu Hb Hd. destruct k as [le n|le n|n|n|nb parts|c le n|x]; cbn [unsigned_kind] in Hu;
    try discriminate; cbn [decode_kind] in Hd.
  - destruct (take n bs) as [[a r]|] eqn:Et; [|discriminate]. inversion Hd; subst.
    apply take_some in Et. destruct Et as [-> _].
    constructor; [|constructor]. unfold nonneg_entry. cbn [snd].
    pose proof (int_decode_bound le a (all_bytes_app_l _ _ Hb)). lia.
  - destruct (take n bs) as [[a r]|]; [|discriminate]. inversion Hd; subst.
    constructor; [exact I|constructor].
  - destruct (take n bs) as [[a r]|]; [|discriminate]. inversion Hd; subst.
    constructor; [exact I|constructor].
  - destruct (take nb bs) as [[a r]|]; [|discriminate]. inversion Hd; subst.
    unfold split_bits. apply Forall_rev'. apply split_bits_rev_nonneg.
  - destruct (decode_arr le n (Z.to_nat (eval e c)) bs) as [[zs t']|]; [|discriminate].
    inversion Hd; subst. constructor; [exact I|constructor].
Qed.

Lemma decode_fields_nonneg L : forall e bs es t,
  unsigned_layout L = true -> all_bytes bs = true ->
  decode_fields L e bs = Some (es, t) -> rec_nonneg es.
Proof.
  induction L as [|[nm k] L IH]; intros e bs es t Hu Hb H; cbn [decode_fields] in H.
  - inversion H; subst. constructor.
  - cbn [unsigned_layout forallb snd] in Hu. apply andb_prop in Hu. destruct Hu as [Hk HL].
    destruct (decode_kind nm k e bs) as [[en r]|] eqn:Ek; [|discriminate].
    destruct (decode_fields L (rev en ++ e)%list r) as [[es' t']|] eqn:Ef; [|discriminate].
    inversion H; subst. apply Forall_app. split.
    + exact (decode_kind_nonneg _ _ _ _ _ _ Hk Hb Ek).
    + destruct (decode_kind_suffix _ _ _ _ _ _ Ek) as [a Ha]. subst bs.
      apply (IH (rev en ++ e)%list r es' t HL); [eapply all_bytes_app_r; exact Hb|exact Ef].
Qed.

(* ------------------------------------------------------------------ the logic *)
Definition elf_only {A} (r : res A) (Q : A -> Prop) : Prop :=
  match r with
  | Ok a => Q a
  | Err EElf => True
  | Err EParse => True
  | Err _ => False
  end.

Definition post {A} (m : M A) (Q : A -> Prop) : Prop := forall c, elf_only (fst (m c)) Q.

Lemma post_ret {A} (a : A) (Q : A -> Prop) : Q a -> post (ret a) Q.
Proof. intros H c. exact H. Qed.

Lemma post_fail_elf {A} (Q : A -> Prop) : post (fail EElf) Q.
Proof. intros c. exact I. Qed.

Lemma post_fail_parse {A} (Q : A -> Prop) : post (fail EParse) Q.
Proof. intros c. exact I. Qed.

Lemma post_bind {A B} (m : M A) (f : A -> M B) (Q : A -> Prop) (R : B -> Prop) :
  post m Q -> (forall a, Q a -> post (f a) R) -> post (mbind m f) R.
Proof.
  intros Hm Hf c. unfold mbind. specialize (Hm c).
  destruct (m c) as [[a|e] c1]; cbn [fst] in *.
  - apply Hf. exact Hm.
  - destruct e; try contradiction; exact I.
Qed.

Lemma post_weaken {A} (m : M A) (Q R : A -> Prop) :
  post m Q -> (forall a, Q a -> R a) -> post m R.
Proof.
  intros H HQR c. specialize (H c). destruct (fst (m c)) as [a|e]; cbn in *; auto.
Qed.

Lemma post_if {A} (b : bool) (m1 m2 : M A) Q : post m1 Q -> post m2 Q -> post (if b then m1 else m2) Q.
Proof. destruct b; auto. Qed.

(* ------------------------------------------------------------------ primitives *)
Lemma seek_error_ok pos : 0 <= pos -> pos <= MAX_SSIZE -> seek_error pos = None.
Proof.
  intros H1 H2. unfold seek_error.
  destruct (Z.ltb_spec pos 0); [lia|]. destruct (Z.ltb_spec MAX_SSIZE pos); [lia|]. reflexivity.
Qed.

Lemma post_raw_read bs pos n : 0 <= pos -> pos <= MAX_SSIZE -> post (raw_read bs pos n) (fun _ => True).
Proof. intros H1 H2 c. unfold raw_read. rewrite seek_error_ok by assumption. exact I. Qed.

(* the repaired struct_parse: any non-negative position is safe *)
Lemma post_struct_parse_at L binds bs pos :
  unsigned_layout L = true -> all_bytes bs = true -> 0 <= pos ->
  post (struct_parse_at false L binds bs pos) rec_nonneg.
Proof.
  intros HL Hb Hp c. unfold struct_parse_at, seek_error.
  destruct (Z.ltb_spec pos 0); [lia|].
  destruct (Z.ltb_spec MAX_SSIZE pos).
  - cbn. exact I.
  - unfold decode_layout.
    set (win := match layout_size L with
                | Some n => read_n (rest_at bs pos) (Z.of_nat n) | None => rest_at bs pos end).
    assert (Hw : all_bytes win = true).
    { unfold win. destruct (layout_size L); [apply all_bytes_takez|]; apply all_bytes_rest_at; exact Hb. }
    destruct (decode_fields L [] win) as [[r t]|] eqn:Ed; cbn [fst]; [|exact I].
    destruct (strict_ok binds r); cbn [fst]; [|exact I].
    exact (decode_fields_nonneg L [] _ r t HL Hw Ed).
Qed.

(* ------------------------------------------------------------------ the layouts the
   constructor parses are unsigned (re-checked against Gen on every run) *)
Lemma unsigned_Ehdr le is64 : unsigned_layout (gen_Elf_Ehdr le is64) = true.
Proof. destruct le, is64; reflexivity. Qed.
Lemma unsigned_Shdr le is64 : unsigned_layout (gen_Elf_Shdr le is64) = true.
Proof. destruct le, is64; reflexivity. Qed.
Lemma unsigned_Chdr le is64 : unsigned_layout (gen_Elf_Chdr le is64) = true.
Proof. destruct le, is64; reflexivity. Qed.

(* ------------------------------------------------------------------ the constructor *)
Definition ctx_good (x : elfctx) : Prop :=
  all_bytes (x_bs x) = true /\ x_legacy x = false /\ rec_nonneg (x_hdr x).

Lemma post_identify_file bs : post (identify_file bs) (fun _ => True).
Proof.
  unfold identify_file.
  eapply post_bind; [apply post_raw_read; unfold MAX_SSIZE; lia|]. intros magic _.
  apply post_if; [apply post_fail_elf|].
  eapply post_bind; [apply post_raw_read; unfold MAX_SSIZE; lia|]. intros ei_class _.
  eapply post_bind with (Q := fun _ => True).
  { apply post_if; [apply post_ret; exact I|]. apply post_if; [apply post_ret; exact I|apply post_fail_elf]. }
  intros is64 _.
  eapply post_bind; [apply post_raw_read; unfold MAX_SSIZE; lia|]. intros ei_data _.
  eapply post_bind with (Q := fun _ => True).
  { apply post_if; [apply post_ret; exact I|]. apply post_if; [apply post_ret; exact I|apply post_fail_elf]. }
  intros le _. apply post_ret. exact I.
Qed.

Lemma post_section_offset x n : ctx_good x -> 0 <= n -> post (section_offset x n) (fun pos => 0 <= pos).
Proof.
  intros (Hb & Hl & Hh) Hn. unfold section_offset.
  apply post_if; [apply post_fail_elf|]. apply post_ret.
  pose proof (rec_z_nonneg _ "e_shoff" Hh). pose proof (rec_z_nonneg _ "e_shentsize" Hh).
  unfold hz. nia.
Qed.

Lemma post_get_section_header x n :
  ctx_good x -> 0 <= n ->
  post (get_section_header x n) (fun oh => match oh with Some h => rec_nonneg h | None => True end).
Proof.
  intros Hx Hn. unfold get_section_header.
  eapply post_bind; [apply post_section_offset; assumption|]. intros pos Hpos.
  apply post_if; [apply post_ret; exact I|].
  destruct Hx as (Hb & Hl & Hh). rewrite Hl.
  eapply post_bind; [apply post_struct_parse_at; [apply unsigned_Shdr|exact Hb|exact Hpos]|].
  intros r Hr. apply post_ret. exact Hr.
Qed.

Lemma post_get_shstrndx x : ctx_good x -> post (get_shstrndx x) (fun n => 0 <= n).
Proof.
  intros Hx. unfold get_shstrndx.
  apply post_if.
  - apply post_ret. destruct Hx as (_ & _ & Hh). apply rec_z_nonneg. exact Hh.
  - eapply post_bind; [apply post_get_section_header; [exact Hx|lia]|].
    intros [h|] Hh.
    + apply post_ret. apply rec_z_nonneg. exact Hh.
    + destruct Hx as (_ & Hl & _). rewrite Hl. apply post_fail_elf.
Qed.

Lemma post_section_init x sh : ctx_good x -> rec_nonneg sh -> post (section_init x sh) (fun _ => True).
Proof.
  intros (Hb & Hl & Hh) Hs. unfold section_init.
  apply post_if; [apply post_ret; exact I|]. rewrite Hl.
  eapply post_bind;
    [apply post_struct_parse_at; [apply unsigned_Chdr|exact Hb|apply rec_z_nonneg; exact Hs]|].
  intros ch _. apply post_ret. exact I.
Qed.

Lemma post_ctor bs : all_bytes bs = true -> post (ctor false bs) (fun _ => True).
Proof.
  intros Hb. unfold ctor.
  eapply post_bind; [apply post_identify_file|]. intros cl _.
  eapply post_bind; [apply post_struct_parse_at; [apply unsigned_Ehdr|exact Hb|lia]|].
  intros hdr Hh.
  set (x := mkctx bs (blen bs) false (fst cl) (snd cl) hdr).
  assert (Hx : ctx_good x) by (repeat split; assumption).
  eapply post_bind; [apply post_raw_read; unfold MAX_SSIZE; lia|]. intros raw _.
  apply post_if; [apply post_ret; exact I|].
  eapply post_bind; [apply post_get_shstrndx; exact Hx|]. intros n Hn.
  eapply post_bind; [apply post_get_section_header; assumption|]. intros [sh|] Hsh.
  - eapply post_bind; [apply post_section_init; assumption|]. intros si _. apply post_ret. exact I.
  - apply post_ret. exact I.
Qed.

(* the statement of C19 part 1 *)
Definition elf_outcome {A} (r : res A) : Prop :=
  match r with Ok _ => True | Err EElf => True | Err EParse => True | Err _ => False end.

Theorem construct_total : forall bs, all_bytes bs = true -> elf_outcome (construct_model bs).
Proof.
  intros bs Hb. unfold construct_model, construct_gen, run.
  pose proof (post_ctor bs Hb cnt0) as H. unfold elf_only in H. unfold elf_outcome.
  destruct (fst (ctor false bs cnt0)) as [a|e]; [exact I|exact H].
Qed.

(* ------------------------------------------------------------------ the two witnesses
   against the code before the repairs (64-bit little-endian images) *)
Definition ehdr64 (e_shoff e_shentsize e_shnum e_shstrndx : Z) : list Z :=
  ([127; 69; 76; 70; 2; 1; 1; 0; 0; 0; 0; 0; 0; 0; 0; 0] ++
   le_encode 2 2 ++ le_encode 2 62 ++ le_encode 4 1 ++ le_encode 8 0 ++ le_encode 8 0 ++
   le_encode 8 e_shoff ++ le_encode 4 0 ++ le_encode 2 64 ++ le_encode 2 56 ++ le_encode 2 0 ++
   le_encode 2 e_shentsize ++ le_encode 2 e_shnum ++ le_encode 2 e_shstrndx)%list.

Definition shdr64 (sh_name sh_type sh_flags sh_offset sh_size sh_link : Z) : list Z :=
  (le_encode 4 sh_name ++ le_encode 4 sh_type ++ le_encode 8 sh_flags ++ le_encode 8 0 ++
   le_encode 8 sh_offset ++ le_encode 8 sh_size ++ le_encode 4 sh_link ++ le_encode 4 0 ++
   le_encode 8 0 ++ le_encode 8 0)%list.

(* (a) e_shstrndx = SHN_XINDEX with e_shoff beyond EOF: None['sh_link'] *)
Definition witness_xindex : list Z := ehdr64 1000 64 0 0xffff.
(* (b) the name-table header has SHF_COMPRESSED and sh_offset = 2^63: seek overflows *)
Definition witness_seek : list Z := (ehdr64 64 64 1 0 ++ shdr64 0 3 0x800 (2 ^ 63) 0 0)%list.
(* a minimal image the constructor accepts, with a (non-compressed) name table *)
Definition minimal_ok : list Z := (ehdr64 64 64 1 0 ++ shdr64 0 3 0 128 1 0 ++ [0])%list.

Lemma legacy_typeerror :
  all_bytes witness_xindex = true /\ construct_legacy witness_xindex = Err (EPy "TypeError").
Proof. split; vm_compute; reflexivity. Qed.

Lemma legacy_overflow :
  all_bytes witness_seek = true /\ construct_legacy witness_seek = Err (EPy "OverflowError").
Proof. split; vm_compute; reflexivity. Qed.

Lemma repaired_xindex : construct_model witness_xindex = Err EElf.
Proof. vm_compute. reflexivity. Qed.
Lemma repaired_seek : construct_model witness_seek = Err EParse.
Proof. vm_compute. reflexivity. Qed.

Theorem construct_total_legacy_refuted :
  exists bs, all_bytes bs = true /\ ~ elf_outcome (construct_legacy bs).
Proof.
  exists witness_xindex. destruct legacy_typeerror as [Hb Hr]. split; [exact Hb|].
  rewrite Hr. cbn. tauto.
Qed.
