(* Proofs/C02Hist.v — lemmas behind the order / history theorems of Props/C02.v:
   * a section object answers any list of observations, in any order, from the facts the
     contents theorems establish (Model.C02Hist.sec_session vs Spec.C02Hist.spec_sec_session);
   * an ELFFile object answers every call of every history of program-header walks
     (address_offsets / iter_segments generators started, resumed, abandoned, interleaved) as the
     stateless specification does (Model.C02Hist.elf_hist vs Spec.C02Hist.spec_elf_hist):
     a simulation between the model's generator objects (loop variable) and the specification's
     (number of items yielded), lifted over histories. *)
From Coq Require Import String.
From PV Require Import Base.Bytes Base.Outcome Base.Prim Base.Fmt Base.Enum
     Gen.ElfLayouts Gen.Tables Spec.ElfGabi Spec.PrimSpec Spec.C02Spec Spec.C02Hist
     Proofs.PrimProofs Proofs.FmtProofs Proofs.ElfLayoutFacts Model.C02Contents Model.C02Hist
     Proofs.C02Proofs.
From Coq Require Import ZifyBool.
Open Scope list_scope.
Open Scope Z_scope.

(* ================================================================== section sessions *)
Section sessions.
Variable inflate : list Z -> Z -> option (list Z * bool).

Lemma sec_session_of_facts stream le is64 h s (f : sec_facts) obs :
  section_init stream le is64 h = Ok s ->
  (forall o, sec_observe inflate stream le is64 s o = spec_observe f o) ->
  sec_session inflate stream le is64 h obs = Ok (spec_sec_session f obs).
Proof.
  intros Hi Ho. unfold sec_session, spec_sec_session. rewrite Hi. cbn [bind].
  f_equal. apply map_ext. exact Ho.
Qed.

Lemma sec_observe_facts stream le is64 s c sz al d :
  negb (compressed s =? 0) = c -> data_size s = sz -> data_alignment s = al ->
  section_data inflate stream le is64 s = Ok d ->
  forall o, sec_observe inflate stream le is64 s o = spec_observe (c, sz, al, Some d) o.
Proof.
  intros Hc Hs Ha Hd o. destruct o; cbn [sec_observe spec_observe]; congruence.
Qed.

Theorem session_plain : forall T sht flags addr align le is64 pre body tail obs,
  sh_type_table_ok T = true -> sht <> SHT_NOBITS -> plain_flags flags ->
  let h := mk_sheader (dec_enum T sht) flags addr (zlen pre) (zlen body) align in
  sec_session inflate (pre ++ body ++ tail) le is64 h obs
  = Ok (spec_sec_session (false, zlen body, align, Some body) obs).
Proof.
  intros T sht flags addr align le is64 pre body tail obs HT Hs Hf h.
  destruct (data_plain inflate T sht flags addr align le is64 pre body tail HT Hs Hf)
    as (s & Hi & Hc & Hsz & Hal & Hd).
  apply (sec_session_of_facts _ _ _ _ s); [exact Hi|].
  apply sec_observe_facts; auto. rewrite Hc. reflexivity.
Qed.

Theorem session_nobits : forall T flags addr off size align le is64 stream obs,
  sh_type_table_ok T = true -> plain_flags flags ->
  let h := mk_sheader (dec_enum T SHT_NOBITS) flags addr off size align in
  sec_session inflate stream le is64 h obs
  = Ok (spec_sec_session (false, size, align, Some (nobits_data size)) obs).
Proof.
  intros T flags addr off size align le is64 stream obs HT Hf h.
  destruct (data_nobits inflate T flags addr off size align le is64 stream HT Hf)
    as (s & Hi & Hc & Hsz & Hal & Hd).
  apply (sec_session_of_facts _ _ _ _ s); [exact Hi|].
  apply sec_observe_facts; auto. rewrite Hc. reflexivity.
Qed.

Variable zvalid : list Z -> list Z -> Prop.
Hypothesis inflate_all : forall z p, zvalid z p -> inflate z 0 = Some (p, true).
Hypothesis inflate_prefix : forall z p n, zvalid z p -> 0 < n ->
  inflate z n = Some (firstn (Z.to_nat n) p, zlen p <=? n).

Theorem session_compressed : forall T sht flags addr align le is64 pre res al z p tail obs,
  sh_type_table_ok T = true -> sht <> SHT_NOBITS -> compressed_flags flags ->
  zvalid z p -> chdr_fits le is64 ELFCOMPRESS_ZLIB res (zlen p) al = true ->
  let body := compressed_section le is64 res (zlen p) al z in
  let h := mk_sheader (dec_enum T sht) flags addr (zlen pre) (zlen body) align in
  sec_session inflate (pre ++ body ++ tail) le is64 h obs
  = Ok (spec_sec_session (true, zlen p, al, Some p) obs).
Proof.
  intros T sht flags addr align le is64 pre res al z p tail obs HT Hs Hf Hz Hfit body h.
  destruct (data_compressed inflate zvalid inflate_all inflate_prefix
              T sht flags addr align le is64 pre res al z p tail HT Hs Hf Hz Hfit)
    as (s & Hi & Hc & Hsz & Hal & Hd).
  apply (sec_session_of_facts _ _ _ _ s); [exact Hi|].
  apply sec_observe_facts; auto.
  destruct (Z.eqb_spec (compressed s) 0) as [E|E]; [contradiction|reflexivity].
Qed.
End sessions.

(* ================================================================== generic list facts *)
Lemma select_all_app {A B} (f : A -> option B) (a b : list A) :
  select_all f (a ++ b) = select_all f a ++ select_all f b.
Proof.
  induction a as [|x r IH]; [reflexivity|].
  cbn [app select_all]. destruct (f x) as [y|]; rewrite IH; reflexivity.
Qed.

Lemma Forall2_nth_error {A B} (R : A -> B -> Prop) (l1 : list A) (l2 : list B) :
  Forall2 R l1 l2 -> forall n,
  match nth_error l1 n, nth_error l2 n with
  | Some a, Some b => R a b
  | None, None => True
  | _, _ => False
  end.
Proof.
  induction 1 as [|a b r1 r2 Hab Hr IH]; intros n.
  - destruct n; exact I.
  - destruct n as [|n]; [exact Hab|apply IH].
Qed.

Lemma Forall2_set_nth {A B} (R : A -> B -> Prop) (l1 : list A) (l2 : list B) n a b :
  Forall2 R l1 l2 -> R a b -> (n < length l1)%nat ->
  Forall2 R (set_nth l1 n a) (set_nth l2 n b).
Proof.
  intros H. revert n. induction H as [|x y r1 r2 Hxy Hr IH]; intros n Hab Hn.
  - cbn [length] in Hn. lia.
  - destruct n as [|n].
    + unfold set_nth. cbn [firstn skipn app]. constructor; assumption.
    + unfold set_nth. cbn [firstn skipn app]. constructor; [assumption|].
      apply (IH n Hab). cbn [length] in Hn. lia.
Qed.

Lemma nth_error_lt {A} (l : list A) n a : nth_error l n = Some a -> (n < length l)%nat.
Proof. intros H. apply nth_error_Some. rewrite H. discriminate. Qed.

Lemma fold_left_invariant {S1 S2 O} (R : S1 -> S2 -> Prop) (f1 : S1 -> O -> S1) (f2 : S2 -> O -> S2) :
  (forall s1 s2 o, R s1 s2 -> R (f1 s1 o) (f2 s2 o)) ->
  forall h s1 s2, R s1 s2 -> R (fold_left f1 h s1) (fold_left f2 h s2).
Proof.
  intros Hstep h. induction h as [|o r IH]; intros s1 s2 H; [exact H|].
  cbn [fold_left]. apply IH. apply Hstep. exact H.
Qed.

(* ================================================================== the reference walk *)
(* [seg_scan] over headers that are already decoded *)
Fixpoint scan_ref (f : phdr -> option item) (rest : list phdr) (i : Z) : gstep * Z :=
  match rest with
  | [] => (GStop, i)
  | h :: r => match f h with Some a => (GYield a, i + 1) | None => scan_ref f r (i + 1) end
  end.

Lemma scan_ref_char (f : phdr -> option item) : forall rest i,
  match scan_ref f rest i with
  | (GYield a, i') => exists mid h rest', rest = mid ++ h :: rest' /\ i' = i + zlen mid + 1 /\
                                           select_all f mid = [] /\ f h = Some a
  | (GStop, i') => select_all f rest = [] /\ i' = i + zlen rest
  | (GRaise _, _) => False
  end.
Proof.
  induction rest as [|h r IH]; intros i.
  - cbn [scan_ref select_all]. split; [reflexivity|]. unfold zlen. cbn [length]. lia.
  - cbn [scan_ref]. destruct (f h) as [a|] eqn:Ef.
    + exists [], h, r. repeat split; auto. unfold zlen. cbn [length]. lia.
    + specialize (IH (i + 1)). destruct (scan_ref f r (i + 1)) as [[a| |e] i'].
      * destruct IH as (mid & h' & rest' & Hr & Hi & Hm & Hh).
        exists (h :: mid), h', rest'. repeat split.
        -- rewrite Hr. reflexivity.
        -- rewrite zlen_cons. lia.
        -- cbn [select_all]. rewrite Ef. exact Hm.
        -- exact Hh.
      * destruct IH as [Hs Hi]. split.
        -- cbn [select_all]. rewrite Ef. exact Hs.
        -- rewrite zlen_cons. lia.
      * exact IH.
Qed.

(* ================================================================== the ELFFile under histories *)
Lemma phdr_fields_all le is64 h :
  let r := annot_layout (spec_Elf_Phdr le is64) (phdr_vals is64 h) in
  rec_z r "p_type" = p_type h /\ rec_z r "p_flags" = p_flags h /\ rec_z r "p_offset" = p_offset h /\
  rec_z r "p_vaddr" = p_vaddr h /\ rec_z r "p_paddr" = p_paddr h /\ rec_z r "p_filesz" = p_filesz h /\
  rec_z r "p_memsz" = p_memsz h /\ rec_z r "p_align" = p_align h.
Proof. destruct le, is64; cbn; repeat split; auto. Qed.

Lemma model_select_spec T le is64 k h :
  name_code_ok T "PT_LOAD" PT_LOAD = true ->
  model_select T k (annot_layout (spec_Elf_Phdr le is64) (phdr_vals is64 h)) = spec_select k h.
Proof.
  intros HL.
  destruct (phdr_fields_all le is64 h) as (H1 & H2 & H3 & H4 & H5 & H6 & H7 & H8).
  unfold model_select, seg_item. rewrite H1, H2, H3, H4, H5, H6, H7, H8.
  rewrite (is_name_dec T "PT_LOAD" PT_LOAD) by exact HL.
  destruct k as [start size| |]; unfold spec_select, seg_contains, seg_fields.
  - destruct (p_type h =? PT_LOAD), (p_vaddr h <=? start), (start + size <=? p_vaddr h + p_filesz h); reflexivity.
  - reflexivity.
  - reflexivity.
Qed.

Lemma p_type_table_load T : p_type_table_ok T = true -> name_code_ok T "PT_LOAD" PT_LOAD = true.
Proof.
  unfold p_type_table_ok. rewrite !andb_true_iff. intros [[[[[[[[HL _] _] _] _] _] _] _] _]. exact HL.
Qed.

Lemma phdrs_at_skip le is64 stream phentsize : forall pre rest base,
  phdrs_at le is64 stream base phentsize (pre ++ rest) = true ->
  phdrs_at le is64 stream (base + zlen pre * phentsize) phentsize rest = true.
Proof.
  induction pre as [|h r IH]; intros rest base H.
  - change (zlen (@nil phdr)) with 0. replace (base + 0 * phentsize) with base by lia. exact H.
  - cbn [app phdrs_at] in H. rewrite !andb_true_iff in H. destruct H as [_ Hr].
    rewrite zlen_cons. replace (base + (1 + zlen r) * phentsize) with (base + phentsize + zlen r * phentsize) by ring.
    apply IH. exact Hr.
Qed.

Lemma forallb_app_r {A} (p : A -> bool) (a b : list A) : forallb p (a ++ b) = true -> forallb p b = true.
Proof. rewrite forallb_app, andb_true_iff. intros [_ H]. exact H. Qed.

Section walks.
Variables (stream : list Z) (le is64 : bool) (T : list (Z * string)) (phoff phentsize : Z).
Hypothesis HT : p_type_table_ok T = true.

(* one header of the table, read where the loop variable points *)
Lemma parse_head h r base :
  phdr_fits le is64 h = true ->
  phdrs_at le is64 stream base phentsize (h :: r) = true ->
  struct_parse_at (gen_Elf_Phdr le is64) stream base
  = Ok (annot_layout (spec_Elf_Phdr le is64) (phdr_vals is64 h)).
Proof.
  intros Hf Hat.
  cbn [phdrs_at] in Hat. rewrite !andb_true_iff in Hat. destruct Hat as [[[H0 Hlt] Heq] _].
  apply bytes_eqb_eq in Heq.
  unfold struct_parse_at, drop_at.
  destruct (Z.leb_spec (zlen stream) base) as [Hb|Hb]; [lia|].
  rewrite <- (firstn_skipn (length (enc_phdr le is64 h)) (skipn (Z.to_nat base) stream)), Heq.
  rewrite phdr_decode by exact Hf. reflexivity.
Qed.

Lemma phdrs_at_tail h r base :
  phdrs_at le is64 stream base phentsize (h :: r) = true ->
  phdrs_at le is64 stream (base + phentsize) phentsize r = true.
Proof. cbn [phdrs_at]. rewrite !andb_true_iff. intros [_ H]. exact H. Qed.

Lemma seg_scan_ref k : forall rest i base,
  forallb (phdr_fits le is64) rest = true ->
  phdrs_at le is64 stream base phentsize rest = true ->
  base = phoff + i * phentsize ->
  seg_scan stream le is64 T phoff phentsize k (length rest) i = scan_ref (spec_select k) rest i.
Proof.
  induction rest as [|h r IH]; intros i base Hfits Hat Hbase; [reflexivity|].
  cbn [forallb] in Hfits. apply andb_prop in Hfits. destruct Hfits as [Hf Hfr].
  cbn [length seg_scan scan_ref]. rewrite <- Hbase.
  rewrite (parse_head h r base Hf Hat).
  rewrite (model_select_spec T le is64 k h (p_type_table_load T HT)).
  destruct (spec_select k h) as [a|]; [reflexivity|].
  apply (IH (i + 1) (base + phentsize)); [exact Hfr|exact (phdrs_at_tail h r base Hat)|lia].
Qed.

Lemma seg_scan_all_exact k : forall rest i base,
  forallb (phdr_fits le is64) rest = true ->
  phdrs_at le is64 stream base phentsize rest = true ->
  base = phoff + i * phentsize ->
  seg_scan_all stream le is64 T phoff phentsize k (length rest) i = Ok (select_all (spec_select k) rest).
Proof.
  induction rest as [|h r IH]; intros i base Hfits Hat Hbase; [reflexivity|].
  cbn [forallb] in Hfits. apply andb_prop in Hfits. destruct Hfits as [Hf Hfr].
  cbn [length seg_scan_all select_all]. rewrite <- Hbase.
  rewrite (parse_head h r base Hf Hat). cbn [bind].
  rewrite (IH (i + 1) (base + phentsize)); [|exact Hfr|exact (phdrs_at_tail h r base Hat)|lia].
  cbn [bind].
  rewrite (model_select_spec T le is64 k h (p_type_table_load T HT)).
  destruct (spec_select k h) as [a|]; reflexivity.
Qed.

Variable phs : list phdr.
Hypothesis Hfits : forallb (phdr_fits le is64) phs = true.
Hypothesis Hat : phdrs_at le is64 stream phoff phentsize phs = true.

Let f := mkEfile stream le is64 T phoff phentsize (zlen phs).

(* the model's generator object and the specification's describe the same suspended walk:
   same arguments, same finished flag, and while suspended the loop variable has passed exactly
   the headers that produced the items counted so far *)
Definition gen_agree (m : mgen) (s : sgen) : Prop :=
  mg_kind m = sg_kind s /\ mg_done m = sg_done s /\
  (mg_done m = false ->
   exists pre rest, phs = pre ++ rest /\ mg_next m = zlen pre /\
                    sg_count s = length (select_all (spec_select (mg_kind m)) pre)).

Lemma ef_scan_ref k pre rest :
  phs = pre ++ rest -> ef_scan f k (zlen pre) = scan_ref (spec_select k) rest (zlen pre).
Proof.
  intros E. unfold ef_scan, f. cbn [ef_stream ef_le ef_is64 ef_T ef_phoff ef_phentsize ef_phnum].
  replace (Z.to_nat (zlen phs - zlen pre)) with (length rest)
    by (rewrite E, zlen_app; unfold zlen; lia).
  apply (seg_scan_ref k rest (zlen pre) (phoff + zlen pre * phentsize)).
  - apply (forallb_app_r _ pre). rewrite <- E. exact Hfits.
  - apply phdrs_at_skip. rewrite <- E. exact Hat.
  - reflexivity.
Qed.

Lemma ef_all_exact k : ef_all f k = Ok (spec_items phs k).
Proof.
  unfold ef_all, f, spec_items. cbn [ef_stream ef_le ef_is64 ef_T ef_phoff ef_phentsize ef_phnum].
  rewrite zlen_length.
  apply (seg_scan_all_exact k phs 0 phoff); [exact Hfits|exact Hat|lia].
Qed.

Lemma estep_agree ms ss o :
  Forall2 gen_agree ms ss ->
  snd (elf_estep f ms o) = snd (spec_estep phs ss o) /\
  Forall2 gen_agree (fst (elf_estep f ms o)) (fst (spec_estep phs ss o)).
Proof.
  intros HR. destruct o as [k|g|g|k|c]; cbn [elf_estep spec_estep].
  - (* EStart *)
    cbn [fst snd]. split; [reflexivity|].
    apply Forall2_app; [exact HR|]. constructor; [|constructor].
    unfold gen_agree. cbn [mg_kind mg_next mg_done sg_kind sg_count sg_done].
    split; [reflexivity|split; [reflexivity|]]. intros _. exists [], phs. repeat split.
  - (* ENext *)
    pose proof (Forall2_nth_error _ _ _ HR g) as Hg.
    destruct (nth_error ms g) as [m|] eqn:Em; destruct (nth_error ss g) as [s|] eqn:Es;
      try contradiction; [|cbn [fst snd]; split; [reflexivity|exact HR]].
    destruct Hg as (Hk & Hd & Hpos). rewrite <- Hd.
    destruct (mg_done m) eqn:Edone; [cbn [fst snd]; split; [reflexivity|exact HR]|].
    destruct (Hpos eq_refl) as (pre & rest & E & Hn & Hc).
    rewrite Hn, (ef_scan_ref (mg_kind m) pre rest E).
    pose proof (scan_ref_char (spec_select (mg_kind m)) rest (zlen pre)) as Hch.
    assert (Hlen : (g < length ms)%nat) by (apply (nth_error_lt _ _ _ Em)).
    rewrite <- Hk.
    destruct (scan_ref (spec_select (mg_kind m)) rest (zlen pre)) as [[a| |e] i'].
    + destruct Hch as (mid & h & rest' & Hr & Hi & Hm & Hh).
      assert (Hitems : spec_items phs (mg_kind m)
                       = select_all (spec_select (mg_kind m)) pre ++ a :: select_all (spec_select (mg_kind m)) rest').
      { unfold spec_items. rewrite E, Hr, !select_all_app, Hm. cbn [app select_all]. rewrite Hh. reflexivity. }
      rewrite Hitems, Hc, nth_error_app2 by lia. rewrite Nat.sub_diag. cbn [nth_error fst snd].
      split; [reflexivity|].
      apply Forall2_set_nth; [exact HR| |exact Hlen].
      unfold gen_agree. cbn [mg_kind mg_next mg_done sg_kind sg_count sg_done].
      split; [reflexivity|split; [reflexivity|]]. intros _.
      exists (pre ++ mid ++ [h]), rest'. repeat split.
      * rewrite E, Hr, <- !app_assoc. reflexivity.
      * rewrite !zlen_app. unfold zlen at 3. cbn [length]. lia.
      * rewrite !select_all_app, Hm. cbn [app select_all]. rewrite Hh.
        rewrite app_length. cbn [length]. lia.
    + destruct Hch as [Hs Hi].
      assert (Hitems : spec_items phs (mg_kind m) = select_all (spec_select (mg_kind m)) pre).
      { unfold spec_items. rewrite E, select_all_app, Hs. apply app_nil_r. }
      rewrite Hitems, Hc.
      replace (nth_error (select_all (spec_select (mg_kind m)) pre) (length (select_all (spec_select (mg_kind m)) pre)))
        with (@None item) by (symmetry; apply nth_error_None; lia).
      cbn [fst snd]. split; [reflexivity|].
      apply Forall2_set_nth; [exact HR| |exact Hlen].
      unfold gen_agree. cbn [mg_kind mg_next mg_done sg_kind sg_count sg_done].
      split; [reflexivity|split; [reflexivity|]]. intros Hx. discriminate.
    + contradiction.
  - (* EClose *)
    pose proof (Forall2_nth_error _ _ _ HR g) as Hg.
    destruct (nth_error ms g) as [m|] eqn:Em; destruct (nth_error ss g) as [s|] eqn:Es;
      try contradiction; [|cbn [fst snd]; split; [reflexivity|exact HR]].
    destruct Hg as (Hk & Hd & Hpos).
    cbn [fst snd]. split; [reflexivity|].
    apply Forall2_set_nth; [exact HR| |exact (nth_error_lt _ _ _ Em)].
    unfold gen_agree. cbn [mg_kind mg_next mg_done sg_kind sg_count sg_done].
    split; [exact Hk|split; [reflexivity|]]. intros Hx. discriminate.
  - (* EAll *)
    rewrite ef_all_exact. cbn [fst snd]. split; [reflexivity|exact HR].
  - (* ENoise *)
    cbn [fst snd]. split; [reflexivity|exact HR].
Qed.

Lemma erun_agree : forall h ms ss,
  Forall2 gen_agree ms ss -> elf_erun f ms h = spec_erun phs ss h.
Proof.
  induction h as [|o r IH]; intros ms ss HR; [reflexivity|].
  cbn [elf_erun spec_erun].
  destruct (estep_agree ms ss o HR) as [Ha Hs].
  destruct (elf_estep f ms o) as [ms' a]. destruct (spec_estep phs ss o) as [ss' b].
  cbn [fst snd] in Ha, Hs. rewrite Ha. f_equal. apply IH. exact Hs.
Qed.

(* every answer of every history is the stateless one *)
Theorem elf_hist_exact_f : forall h, elf_hist f h = spec_elf_hist phs h.
Proof. intros h. apply erun_agree. constructor. Qed.

(* the invariant, over the fold of the step function: after any history, every generator object
   of the model stands where the specification's stands *)
Definition spec_state_after (h : list eop) : list sgen :=
  fold_left (fun gs o => fst (spec_estep phs gs o)) h [].

Theorem elf_state_invariant_f : forall h, Forall2 gen_agree (elf_state_after f h) (spec_state_after h).
Proof.
  intros h. unfold elf_state_after, spec_state_after.
  apply (fold_left_invariant (Forall2 gen_agree)); [|constructor].
  intros s1 s2 o HR. exact (proj2 (estep_agree s1 s2 o HR)).
Qed.
End walks.

(* ------------------------------------------------------------------ closed statements *)
Theorem elf_hist_exact : forall stream le is64 T phoff phentsize phs h,
  p_type_table_ok T = true ->
  forallb (phdr_fits le is64) phs = true ->
  phdrs_at le is64 stream phoff phentsize phs = true ->
  elf_hist (mkEfile stream le is64 T phoff phentsize (zlen phs)) h = spec_elf_hist phs h.
Proof.
  intros stream le is64 T phoff phentsize phs h HT Hf Hat.
  exact (elf_hist_exact_f stream le is64 T phoff phentsize HT phs Hf Hat h).
Qed.

Theorem elf_state_invariant : forall stream le is64 T phoff phentsize phs h,
  p_type_table_ok T = true ->
  forallb (phdr_fits le is64) phs = true ->
  phdrs_at le is64 stream phoff phentsize phs = true ->
  Forall2 (gen_agree phs)
          (elf_state_after (mkEfile stream le is64 T phoff phentsize (zlen phs)) h)
          (spec_state_after phs h).
Proof.
  intros stream le is64 T phoff phentsize phs h HT Hf Hat.
  exact (elf_state_invariant_f stream le is64 T phoff phentsize HT phs Hf Hat h).
Qed.

(* the address clause read off the histories: what a walk for (start, size) yields, item by
   item, is addr_map *)
Lemma spec_items_addr phs start size : spec_items phs (KAddr start size) = addr_items phs start size.
Proof.
  unfold spec_items, addr_items, addr_map.
  induction phs as [|h r IH]; [reflexivity|].
  cbn [select_all spec_select filter map].
  destruct (seg_contains h start size); cbn [map]; rewrite IH; reflexivity.
Qed.

Lemma erun_app_last f : forall h1 gs o,
  last (elf_erun f gs (h1 ++ [o])) AUnit
  = snd (elf_estep f (fold_left (fun gs o => fst (elf_estep f gs o)) h1 gs) o).
Proof.
  induction h1 as [|x r IH]; intros gs o.
  - cbn [app elf_erun fold_left]. destruct (elf_estep f gs o) as [gs' a]. reflexivity.
  - cbn [app elf_erun fold_left]. specialize (IH (fst (elf_estep f gs x)) o).
    destruct (elf_estep f gs x) as [gs' a]. cbn [fst] in IH.
    destruct (elf_erun f gs' (r ++ [o])) as [|y t] eqn:Er.
    + destruct r; cbn [app elf_erun] in Er; destruct (elf_estep f gs') ; discriminate.
    + cbn [last]. exact IH.
Qed.

(* whatever was done to the ELFFile before — walks started, partly consumed, abandoned — a complete
   lookup afterwards yields exactly the offsets of the PT_LOAD segments that wholly contain the range *)
Theorem address_offsets_after_any_history : forall stream le is64 T phoff phentsize phs h start size,
  p_type_table_ok T = true ->
  forallb (phdr_fits le is64) phs = true ->
  phdrs_at le is64 stream phoff phentsize phs = true ->
  last (elf_hist (mkEfile stream le is64 T phoff phentsize (zlen phs)) (h ++ [EAll (KAddr start size)])) AUnit
  = AList (map (fun o => [o]) (addr_map phs start size)).
Proof.
  intros stream le is64 T phoff phentsize phs h start size HT Hf Hat.
  unfold elf_hist. rewrite erun_app_last. cbn [elf_estep snd].
  rewrite (ef_all_exact stream le is64 T phoff phentsize HT phs Hf Hat).
  rewrite spec_items_addr. reflexivity.
Qed.

(* ================================================================== free header fields of a segment *)
(* data() and get_interp_name() see the header only through p_offset / p_filesz *)
Theorem segment_data_header_free : forall stream ph ph',
  rec_z ph "p_offset" = rec_z ph' "p_offset" -> rec_z ph "p_filesz" = rec_z ph' "p_filesz" ->
  Segment_data stream ph = Segment_data stream ph'.
Proof. intros stream ph ph' Ho Hs. unfold Segment_data. rewrite Ho, Hs. reflexivity. Qed.

Theorem interp_name_header_free : forall stream ph ph',
  rec_z ph "p_offset" = rec_z ph' "p_offset" ->
  InterpSegment_get_interp_name stream ph = InterpSegment_get_interp_name stream ph'.
Proof. intros stream ph ph' Ho. unfold InterpSegment_get_interp_name. rewrite Ho. reflexivity. Qed.

Lemma parse_phdr_in_image le is64 h A R :
  phdr_fits le is64 h = true ->
  struct_parse_at (gen_Elf_Phdr le is64) (A ++ enc_phdr le is64 h ++ R) (zlen A)
  = Ok (annot_layout (spec_Elf_Phdr le is64) (phdr_vals is64 h)).
Proof.
  intros Hf. unfold struct_parse_at. rewrite drop_at_app, phdr_decode by exact Hf. reflexivity.
Qed.

(* file level: the image holds the segment's bytes and, anywhere, the encoded program header [h];
   every field of [h] other than p_offset / p_filesz (p_type, p_flags, p_vaddr, p_paddr, p_memsz -
   smaller than, equal to or larger than p_filesz, zero - and p_align) is universally quantified *)
Theorem segment_data_file_exact : forall le is64 h (pre body tail A R : list Z) img,
  phdr_fits le is64 h = true ->
  p_offset h = zlen pre -> p_filesz h = zlen body ->
  img = pre ++ body ++ tail ->
  img = A ++ enc_phdr le is64 h ++ R ->
  segment_data_at img le is64 (zlen A) = Ok body.
Proof.
  intros le is64 h pre body tail A R img Hf Ho Hs Hi1 Hi2.
  unfold segment_data_at.
  assert (Hp : struct_parse_at (gen_Elf_Phdr le is64) img (zlen A)
               = Ok (annot_layout (spec_Elf_Phdr le is64) (phdr_vals is64 h)))
    by (rewrite Hi2; apply parse_phdr_in_image; exact Hf).
  rewrite Hp. cbn [bind]. unfold Segment_data.
  destruct (phdr_fields_all le is64 h) as (_ & _ & H3 & _ & _ & H6 & _ & _).
  rewrite H3, H6, Ho, Hs, Hi1. f_equal. apply segment_data_exact.
Qed.

(* the interpreter path: p_filesz is free as well (the string is the C string at p_offset) *)
Theorem interp_name_file_exact : forall le is64 h (pre s tail A R : list Z) img,
  phdr_fits le is64 h = true ->
  p_offset h = zlen pre -> no_nul s = true ->
  img = pre ++ s ++ 0 :: tail ->
  img = A ++ enc_phdr le is64 h ++ R ->
  interp_name_at img le is64 (zlen A) = Ok s.
Proof.
  intros le is64 h pre s tail A R img Hf Ho Hn Hi1 Hi2.
  unfold interp_name_at.
  assert (Hp : struct_parse_at (gen_Elf_Phdr le is64) img (zlen A)
               = Ok (annot_layout (spec_Elf_Phdr le is64) (phdr_vals is64 h)))
    by (rewrite Hi2; apply parse_phdr_in_image; exact Hf).
  rewrite Hp. cbn [bind]. unfold InterpSegment_get_interp_name.
  destruct (phdr_fields_all le is64 h) as (_ & _ & H3 & _).
  rewrite H3, Ho, Hi1. apply interp_name_exact. exact Hn.
Qed.

(* ================================================================== the section header behind every entry point *)
Definition shdr_vals (name type flags addr offset size link info addralign entsize : Z) : list fval :=
  [VZ name; VZ type; VZ flags; VZ addr; VZ offset; VZ size; VZ link; VZ info; VZ addralign; VZ entsize].

Lemma shdr_fields le is64 name type flags addr offset size link info addralign entsize :
  let r := annot_layout (spec_Elf_Shdr le is64)
                        (shdr_vals name type flags addr offset size link info addralign entsize) in
  rec_z r "sh_type" = type /\ rec_z r "sh_flags" = flags /\ rec_z r "sh_addr" = addr /\
  rec_z r "sh_offset" = offset /\ rec_z r "sh_size" = size /\ rec_z r "sh_addralign" = addralign.
Proof. destruct le, is64; cbn; repeat split; auto. Qed.

(* the image holds, at e_shoff + n * e_shentsize for ANY entry size, the encoded header: section n
   is described by it; sh_name, sh_link, sh_info, sh_entsize are free *)
Theorem section_header_file_exact :
  forall le is64 T shoff shentsize n name type flags addr offset size link info addralign entsize (A R : list Z),
  let vals := shdr_vals name type flags addr offset size link info addralign entsize in
  fits_layout (spec_Elf_Shdr le is64) vals = true ->
  zlen A = shoff + n * shentsize ->
  section_header_at (A ++ encode_layout (spec_Elf_Shdr le is64) vals ++ R) le is64 T shoff shentsize n
  = Ok (mk_sheader (dec_enum T type) flags addr offset size addralign).
Proof.
  intros le is64 T shoff shentsize n name type flags addr offset size link info addralign entsize A R vals Hf HA.
  unfold section_header_at, struct_parse_at. rewrite <- HA, drop_at_app.
  rewrite gen_Elf_Shdr_gabi, decode_encode_layout by exact Hf. cbn [bind].
  unfold sheader_of.
  destruct (shdr_fields le is64 name type flags addr offset size link info addralign entsize)
    as (H1 & H2 & H3 & H4 & H5 & H6).
  fold vals in H1, H2, H3, H4, H5, H6. rewrite H1, H2, H3, H4, H5, H6. reflexivity.
Qed.
