(* Proofs/C06InstrProofs.v — the instruction stream is split into exactly the encoded opcodes
   and operands: parse_instructions inverts encode_instrs, for all instruction lists, at any
   position of any stream.  Also the cursor lemmas that relate the absolute stream positions of
   the model (run_at) to "the bytes from here on". *)
From PV Require Import Spec.C06View Proofs.PrimProofs Proofs.C06TableProofs.
From Coq Require Import ZifyBool.
Ltac Zify.zify_post_hook ::= Z.to_euclidean_division_equations.
Open Scope Z_scope.

(* ---------------------------------------------------------------- cursors *)
(* at position pos the stream continues with rest *)
Definition cursor (stream : list Z) (pos : Z) (rest : list Z) : Prop :=
  0 <= pos <= zlen stream /\ skipn (Z.to_nat pos) stream = rest.

Lemma cursor_start pre rest : cursor (pre ++ rest) (zlen pre) rest.
Proof.
  unfold cursor, zlen. rewrite app_length. split; [lia|].
  rewrite Nat2Z.id. rewrite skipn_app, skipn_all, Nat.sub_diag. reflexivity.
Qed.

Lemma cursor_zero stream : cursor stream 0 stream.
Proof. unfold cursor. split; [pose proof (zlen_nonneg stream); lia|reflexivity]. Qed.

Lemma cursor_len stream pos rest : cursor stream pos rest -> zlen stream = pos + zlen rest.
Proof.
  intros [Hp E]. subst rest. unfold zlen in *. rewrite skipn_length. lia.
Qed.

Lemma skipn_add {A} (a b : nat) : forall l : list A, skipn (a + b) l = skipn a (skipn b l).
Proof.
  induction b as [|b IH]; intros l.
  - rewrite Nat.add_0_r. reflexivity.
  - destruct l as [|x l]; [rewrite !skipn_nil; reflexivity|].
    rewrite Nat.add_succ_r. cbn [skipn]. apply IH.
Qed.

Lemma cursor_step stream pos mid post :
  cursor stream pos (mid ++ post) -> cursor stream (pos + zlen mid) post.
Proof.
  intros H. pose proof (cursor_len _ _ _ H) as Hl. destruct H as [Hp E].
  rewrite zlen_app in Hl. pose proof (zlen_nonneg mid). pose proof (zlen_nonneg post).
  split; [lia|].
  replace (Z.to_nat (pos + zlen mid)) with (length mid + Z.to_nat pos)%nat by (unfold zlen; lia).
  rewrite skipn_add. rewrite E. rewrite skipn_app, skipn_all, Nat.sub_diag. reflexivity.
Qed.

Lemma run_at_cursor {A} (p : parser A) stream pos mid post v :
  zlen stream < 2 ^ 63 -> cursor stream pos (mid ++ post) ->
  p (mid ++ post) = Ok (v, post) -> run_at p stream pos = Ok (v, pos + zlen mid).
Proof.
  intros Hsz [Hp E] Hpar. unfold run_at.
  destruct (Z.ltb_spec pos 0); [lia|].
  destruct (Z.leb_spec (2 ^ 63) pos); [lia|].
  destruct (Z.ltb_spec (zlen stream) pos); [lia|].
  rewrite E, Hpar. rewrite zlen_app. f_equal. f_equal. lia.
Qed.

(* ---------------------------------------------------------------- parser combinators *)
Lemma pbind_ok {A B} (p : parser A) (f : A -> parser B) e rest a :
  p (e ++ rest) = Ok (a, rest) -> pbind p f (e ++ rest) = f a rest.
Proof. intros H. unfold pbind. rewrite H. reflexivity. Qed.

Lemma of_dec_ok {A} (d : dec A) bs v t : d bs = Some (v, t) -> of_dec d bs = Ok (v, t).
Proof. intros H. unfold of_dec. rewrite H. reflexivity. Qed.

(* ---------------------------------------------------------------- operands *)
Lemma wf_uleb_valid l : wf_uleb l = true -> uleb_valid (lb l) (lv l).
Proof.
  unfold wf_uleb. intros H. apply andb_prop in H. destruct H as [Hb Hs].
  destruct (uleb_spec (lb l)) as [[v t]|] eqn:E; [|discriminate].
  destruct t; [|discriminate]. apply Z.eqb_eq in Hs. subst v.
  destruct (uleb_spec_sound _ Hb _ _ E) as (e & He & Hv).
  rewrite app_nil_r in He. subst e. exact Hv.
Qed.
Lemma wf_sleb_valid l : wf_sleb l = true -> sleb_valid (lb l) (lv l).
Proof.
  unfold wf_sleb. intros H. apply andb_prop in H. destruct H as [Hb Hs].
  destruct (sleb_spec (lb l)) as [[v t]|] eqn:E; [|discriminate].
  destruct t; [|discriminate]. apply Z.eqb_eq in Hs. subst v.
  destruct (sleb_spec_sound _ Hb _ _ E) as (e & He & Hv).
  rewrite app_nil_r in He. subst e. exact Hv.
Qed.

Lemma uleb_ok l t : wf_uleb l = true -> Dwarf_uleb128 (lb l ++ t) = Ok (lv l, t).
Proof.
  intros H. apply of_dec_ok. apply uleb_decode_valid. apply wf_uleb_valid. exact H.
Qed.
Lemma sleb_ok l t : wf_sleb l = true -> Dwarf_sleb128 (lb l ++ t) = Ok (lv l, t).
Proof.
  intros H. apply of_dec_ok. apply sleb_decode_valid. apply wf_sleb_valid. exact H.
Qed.

Lemma fits_u_range n v : fits_u n v = true -> 0 <= v < 2 ^ (8 * Z.of_nat n).
Proof. unfold fits_u. lia. Qed.
Lemma fits_s_range n v : fits_s n v = true ->
  - (2 ^ (8 * Z.of_nat n) / 2) <= v < 2 ^ (8 * Z.of_nat n) / 2.
Proof. unfold fits_s. lia. Qed.

Lemma uint_ok le n v t : fits_u n v = true ->
  of_dec (uint_decode le n) (int_encode le n v ++ t) = Ok (v, t).
Proof.
  intros H. apply of_dec_ok. apply uint_decode_valid. apply fits_u_range. exact H.
Qed.
Lemma sint_ok le n v t : (0 < n)%nat -> fits_s n v = true ->
  of_dec (sint_decode_n le n) (int_encode le n v ++ t) = Ok (v, t).
Proof.
  intros Hn H. apply of_dec_ok. apply sint_decode_valid; [exact Hn|].
  apply fits_s_range. exact H.
Qed.

(* one byte *)
Lemma byte_ok le b t : 0 <= b < 256 -> of_dec (uint_decode le 1) (b :: t) = Ok (b, t).
Proof.
  intros H. change (b :: t) with ([b] ++ t).
  replace [b] with (int_encode le 1 b).
  - apply uint_ok. unfold fits_u. change (2 ^ (8 * Z.of_nat 1)) with 256. lia.
  - destruct le; cbn; rewrite Z.mod_small by lia; reflexivity.
Qed.

Lemma block_ok len e t : wf_block len e = true ->
  DW_FORM_block (lb len ++ e ++ t) = Ok (e, t).
Proof.
  unfold wf_block. intros H. apply andb_prop in H. destruct H as [H He].
  apply andb_prop in H. destruct H as [Hl Hn]. apply Z.eqb_eq in Hn.
  unfold DW_FORM_block. rewrite (uleb_decode_valid _ _ _ (wf_uleb_valid _ Hl)).
  rewrite Hn. rewrite zlen_app.
  destruct (Z.ltb_spec (zlen e + zlen t) (zlen e)); [pose proof (zlen_nonneg t); lia|].
  unfold zlen. rewrite Nat2Z.id.
  rewrite firstn_app, firstn_all, Nat.sub_diag, skipn_app, skipn_all, Nat.sub_diag.
  cbn [firstn skipn app]. rewrite app_nil_r. reflexivity.
Qed.

(* the address size of a structs object for a target with asize-byte addresses *)
Definition structs_for (le : bool) (fmt : Z) (asize : nat) : structs :=
  mkstructs le fmt (Z.of_nat asize).

Lemma target_addr_ok le fmt asize v t :
  (asize = 4 \/ asize = 8)%nat -> fits_u asize v = true ->
  Dwarf_target_addr (structs_for le fmt asize) (int_encode le asize v ++ t) = Ok (v, t).
Proof.
  intros Ha H. unfold Dwarf_target_addr, structs_for. cbn [address_size little_endian].
  destruct Ha as [-> | ->]; cbn [Z.of_nat Pos.of_succ_nat Pos.succ Z.eqb Pos.eqb];
    apply uint_ok; exact H.
Qed.

(* ---------------------------------------------------------------- one instruction *)
Lemma opcode_byte asize i : wf_instr asize i = true -> 0 <= opcode_of i < 256.
Proof. destruct i; cbn [wf_instr opcode_of]; intros H; lia. Qed.

(* reduce the closed conditions of the if-chain of parse_args *)
Ltac chain :=
  repeat match goal with
  | |- context [if ?c then _ else _] =>
      let v := eval vm_compute in c in
      (change c with v); cbv iota
  end.

Lemma parse_args_ok le fmt asize i t :
  (asize = 4 \/ asize = 8)%nat -> wf_instr asize i = true ->
  parse_args (structs_for le fmt asize) (opcode_of i) (operands_of le asize i ++ t)
  = Ok (args_of i, t).
Proof.
  intros Ha Hwf.
  destruct i; cbn [wf_instr] in Hwf; cbn [opcode_of operands_of args_of];
    repeat match goal with
    | H : _ && _ = true |- _ => apply andb_prop in H; destruct H
    end.
  - (* advance_loc *)
    unfold parse_args, PRIMARY_MASK, PRIMARY_ARG_MASK.
    destruct (land_masks (0x40 + delta)) as [E1 E2]; [lia|]. rewrite E1, E2.
    replace ((0x40 + delta) / 64) with 1 by lia.
    replace ((0x40 + delta) mod 64) with delta by lia. reflexivity.
  - (* offset *)
    unfold parse_args, PRIMARY_MASK, PRIMARY_ARG_MASK.
    destruct (land_masks (0x80 + reg)) as [E1 E2]; [lia|]. rewrite E1, E2.
    replace ((0x80 + reg) / 64) with 2 by lia.
    replace ((0x80 + reg) mod 64) with reg by lia.
    chain. rewrite pbind_ok with (a := lv off) by (apply uleb_ok; assumption). reflexivity.
  - (* restore *)
    unfold parse_args, PRIMARY_MASK, PRIMARY_ARG_MASK.
    destruct (land_masks (0xc0 + reg)) as [E1 E2]; [lia|]. rewrite E1, E2.
    replace ((0xc0 + reg) / 64) with 3 by lia.
    replace ((0xc0 + reg) mod 64) with reg by lia. reflexivity.
  - (* nop *) reflexivity.
  - (* set_loc *)
    unfold parse_args. chain.
    rewrite pbind_ok with (a := addr) by (apply target_addr_ok; assumption). reflexivity.
  - (* advance_loc1 *)
    unfold parse_args. chain.
    rewrite pbind_ok with (a := delta) by (apply uint_ok; assumption). reflexivity.
  - (* advance_loc2 *)
    unfold parse_args. chain.
    rewrite pbind_ok with (a := delta) by (apply uint_ok; assumption). reflexivity.
  - (* advance_loc4 *)
    unfold parse_args. chain.
    rewrite pbind_ok with (a := delta) by (apply uint_ok; assumption). reflexivity.
  - (* offset_extended *)
    unfold parse_args. chain. rewrite <- app_assoc.
    rewrite pbind_ok with (a := lv reg) by (apply uleb_ok; assumption).
    rewrite pbind_ok with (a := lv off) by (apply uleb_ok; assumption). reflexivity.
  - (* restore_extended *)
    unfold parse_args. chain.
    rewrite pbind_ok with (a := lv reg) by (apply uleb_ok; assumption). reflexivity.
  - (* undefined *)
    unfold parse_args. chain.
    rewrite pbind_ok with (a := lv reg) by (apply uleb_ok; assumption). reflexivity.
  - (* same_value *)
    unfold parse_args. chain.
    rewrite pbind_ok with (a := lv reg) by (apply uleb_ok; assumption). reflexivity.
  - (* register *)
    unfold parse_args. chain. rewrite <- app_assoc.
    rewrite pbind_ok with (a := lv reg) by (apply uleb_ok; assumption).
    rewrite pbind_ok with (a := lv reg2) by (apply uleb_ok; assumption). reflexivity.
  - (* remember_state *) reflexivity.
  - (* restore_state *) reflexivity.
  - (* def_cfa *)
    unfold parse_args. chain. rewrite <- app_assoc.
    rewrite pbind_ok with (a := lv reg) by (apply uleb_ok; assumption).
    rewrite pbind_ok with (a := lv off) by (apply uleb_ok; assumption). reflexivity.
  - (* def_cfa_register *)
    unfold parse_args. chain.
    rewrite pbind_ok with (a := lv reg) by (apply uleb_ok; assumption). reflexivity.
  - (* def_cfa_offset *)
    unfold parse_args. chain.
    rewrite pbind_ok with (a := lv off) by (apply uleb_ok; assumption). reflexivity.
  - (* def_cfa_expression *)
    unfold parse_args. chain.
    rewrite pbind_ok with (a := e) (e := lb len ++ e)
      by (rewrite <- app_assoc; apply block_ok; assumption).
    reflexivity.
  - (* expression *)
    unfold parse_args. chain. rewrite <- !app_assoc.
    rewrite pbind_ok with (a := lv reg) by (apply uleb_ok; assumption).
    rewrite app_assoc.
    rewrite pbind_ok with (a := e) (e := lb len ++ e)
      by (rewrite <- app_assoc; apply block_ok; assumption).
    reflexivity.
  - (* offset_extended_sf *)
    unfold parse_args. chain. rewrite <- app_assoc.
    rewrite pbind_ok with (a := lv reg) by (apply uleb_ok; assumption).
    rewrite pbind_ok with (a := lv off) by (apply sleb_ok; assumption). reflexivity.
  - (* def_cfa_sf *)
    unfold parse_args. chain. rewrite <- app_assoc.
    rewrite pbind_ok with (a := lv reg) by (apply uleb_ok; assumption).
    rewrite pbind_ok with (a := lv off) by (apply sleb_ok; assumption). reflexivity.
  - (* def_cfa_offset_sf *)
    unfold parse_args. chain.
    rewrite pbind_ok with (a := lv off) by (apply sleb_ok; assumption). reflexivity.
  - (* val_offset *)
    unfold parse_args. chain. rewrite <- app_assoc.
    rewrite pbind_ok with (a := lv reg) by (apply uleb_ok; assumption).
    rewrite pbind_ok with (a := lv off) by (apply uleb_ok; assumption). reflexivity.
  - (* val_offset_sf *)
    unfold parse_args. chain. rewrite <- app_assoc.
    rewrite pbind_ok with (a := lv reg) by (apply uleb_ok; assumption).
    rewrite pbind_ok with (a := lv off) by (apply sleb_ok; assumption). reflexivity.
  - (* val_expression *)
    unfold parse_args. chain. rewrite <- !app_assoc.
    rewrite pbind_ok with (a := lv reg) by (apply uleb_ok; assumption).
    rewrite app_assoc.
    rewrite pbind_ok with (a := e) (e := lb len ++ e)
      by (rewrite <- app_assoc; apply block_ok; assumption).
    reflexivity.
  - (* GNU_window_save *) reflexivity.
  - (* GNU_args_size *)
    unfold parse_args. chain.
    rewrite pbind_ok with (a := lv n) by (apply uleb_ok; assumption). reflexivity.
  - (* MIPS_advance_loc8: not implemented, not well-formed for the theorems *) discriminate.
  - (* AARCH64_negate_ra_state_with_pc *) discriminate.
  - (* GNU_negative_offset_extended *) discriminate.
Qed.

(* ---------------------------------------------------------------- the list *)
Lemma encode_instrs_cons le asize i r :
  encode_instrs le asize (i :: r) =
  [opcode_of i] ++ operands_of le asize i ++ encode_instrs le asize r.
Proof. unfold encode_instrs. cbn [map List.concat encode_instr app]. reflexivity. Qed.

Lemma encode_instrs_length le asize is :
  (length is <= length (encode_instrs le asize is))%nat.
Proof.
  induction is as [|i r IH]; [cbn; lia|].
  rewrite encode_instrs_cons, !app_length. cbn [length]. lia.
Qed.

Theorem parse_instructions_at le fmt asize : (asize = 4 \/ asize = 8)%nat ->
  forall is stream pos post fuel,
  zlen stream < 2 ^ 63 -> wf_instrs asize is = true ->
  cursor stream pos (encode_instrs le asize is ++ post) -> (length is < fuel)%nat ->
  parse_instructions fuel (structs_for le fmt asize) stream pos
                     (pos + zlen (encode_instrs le asize is))
  = Ok (map to_raw is, pos + zlen (encode_instrs le asize is)).
Proof.
  intros Ha. induction is as [|i r IH]; intros stream pos post fuel Hsz Hwf Hc Hf.
  - destruct fuel as [|f]; [cbn in Hf; lia|]. cbn [parse_instructions encode_instrs map List.concat].
    change (zlen []) with 0. rewrite Z.add_0_r, Z.ltb_irrefl. reflexivity.
  - destruct fuel as [|f]; [cbn in Hf; lia|].
    cbn [wf_instrs forallb] in Hwf. apply andb_prop in Hwf. destruct Hwf as [Hi Hr].
    rewrite encode_instrs_cons in *. rewrite <- !app_assoc in Hc.
    rewrite !zlen_app. change (zlen [opcode_of i]) with 1.
    pose proof (zlen_nonneg (operands_of le asize i)) as H1.
    pose proof (zlen_nonneg (encode_instrs le asize r)) as H2.
    cbn [parse_instructions].
    destruct (Z.ltb_spec pos (pos + (1 + (zlen (operands_of le asize i)
                                          + zlen (encode_instrs le asize r))))); [|lia].
    rewrite (run_at_cursor _ stream pos [opcode_of i] _ (opcode_of i) Hsz Hc)
      by (apply byte_ok; eapply opcode_byte; eauto).
    cbn [bind]. change (zlen [opcode_of i]) with 1.
    apply cursor_step in Hc. change (zlen [opcode_of i]) with 1 in Hc.
    rewrite (run_at_cursor _ stream (pos + 1) (operands_of le asize i) _ (args_of i) Hsz Hc)
      by (apply parse_args_ok; assumption).
    cbn [bind]. apply cursor_step in Hc.
    specialize (IH stream (pos + 1 + zlen (operands_of le asize i)) post f Hsz Hr Hc
                   ltac:(cbn [length] in Hf; lia)).
    replace (pos + (1 + (zlen (operands_of le asize i) + zlen (encode_instrs le asize r))))
      with (pos + 1 + zlen (operands_of le asize i) + zlen (encode_instrs le asize r)) by lia.
    rewrite IH. cbn [bind map]. reflexivity.
Qed.

(* the statement of the property: the encoded list alone is split into exactly its
   instructions, and the whole extent is consumed *)
Theorem instrs_roundtrip le fmt asize is :
  (asize = 4 \/ asize = 8)%nat -> wf_instrs asize is = true ->
  zlen (encode_instrs le asize is) < 2 ^ 63 ->
  let bs := encode_instrs le asize is in
  parse_instructions (S (length bs)) (structs_for le fmt asize) bs 0 (zlen bs)
  = Ok (map to_raw is, zlen bs).
Proof.
  intros Ha Hwf Hsz bs.
  pose proof (parse_instructions_at le fmt asize Ha is bs 0 [] (S (length bs)) Hsz Hwf) as H.
  cbn [Z.add] in H. apply H.
  - rewrite app_nil_r. apply cursor_zero.
  - pose proof (encode_instrs_length le asize is). fold bs in H0. lia.
Qed.
