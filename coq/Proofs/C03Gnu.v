(* Proofs/C03Gnu.v — GNUHashTable.get_symbol / get_number_of_symbols over ANY table
   accepted by wf_gnu_hash (no builder).  The walk scans the group of the queried
   name's bucket from its first symbol, never leaves the hashed part [symoffset, n)
   (the last chain word has bit 0 set), and stops at the first symbol whose chain word
   and name match.  Hence soundness (bloom false positives, bucket and full 32-bit
   hash collisions included), completeness, totality and count exactness.
   The symbol table and the chain array are abstract here: [getsym] answers the symbol
   views [vs], [rc] answers the chain words of the hashed symbols and is UNCONSTRAINED
   elsewhere (beyond the table there may be the end of the file or anything else). *)
From PV Require Import Base.Fmt Base.Outcome Base.Prim Spec.C03Sym Spec.C03Hash
                       Model.C03Sections Model.C03Hash Proofs.C03HashFn Proofs.C03Sysv.
From Coq Require Import Lia ZifyBool.
Open Scope list_scope.
Open Scope Z_scope.

(* the parameters GNUHashTable.__init__ obtains from a table placed so that its chain
   array starts at [chain_pos] *)
Definition gnu_params (T : gnu_table) (chain_pos : Z) : gnu_hash_params :=
  mkGHP (zlen (gt_buckets T)) (gt_symoffset T) (zlen (gt_bloom T)) (gt_shift T)
        (gt_bloom T) (gt_buckets T) chain_pos.

(* ------------------------------------------------------------------ bit facts *)
Lemma odd_land1 a : negb (Z.land a 1 =? 0) = Z.odd a.
Proof.
  change 1 with (Z.ones 1) at 1. rewrite Z.land_ones by lia. change (2 ^ 1) with 2.
  rewrite Zmod_odd. destruct (Z.odd a); reflexivity.
Qed.

Lemma mask2_bits a b n : 0 <= a -> 0 <= b -> 0 <= n ->
  Z.testbit (Z.lor (Z.shiftl 1 a) (Z.shiftl 1 b)) n = (a =? n) || (b =? n).
Proof.
  intros Ha Hb Hn. rewrite Z.lor_spec, !Z.shiftl_1_l, !Z.pow2_bits_eqb by lia. reflexivity.
Qed.

Lemma land_mask2 w a b : 0 <= a -> 0 <= b ->
  (Z.land w (Z.lor (Z.shiftl 1 a) (Z.shiftl 1 b)) =? Z.lor (Z.shiftl 1 a) (Z.shiftl 1 b))
  = Z.testbit w a && Z.testbit w b.
Proof.
  intros Ha Hb. set (M := Z.lor (Z.shiftl 1 a) (Z.shiftl 1 b)).
  destruct (Z.eqb_spec (Z.land w M) M) as [E|E].
  - symmetry. apply andb_true_iff. split.
    + assert (H : Z.testbit (Z.land w M) a = Z.testbit M a) by (rewrite E; reflexivity).
      rewrite Z.land_spec in H. unfold M in H. rewrite mask2_bits in H by lia.
      rewrite Z.eqb_refl in H. cbn [orb] in H. rewrite andb_true_r in H. exact H.
    + assert (H : Z.testbit (Z.land w M) b = Z.testbit M b) by (rewrite E; reflexivity).
      rewrite Z.land_spec in H. unfold M in H. rewrite mask2_bits in H by lia.
      rewrite Z.eqb_refl in H. rewrite orb_true_r in H. rewrite andb_true_r in H. exact H.
  - symmetry. apply not_true_is_false. intros H. apply andb_true_iff in H. destruct H as [Hwa Hwb].
    apply E. apply Z.bits_inj'. intros n Hn. rewrite Z.land_spec. unfold M.
    rewrite mask2_bits by lia.
    destruct (Z.eqb_spec a n) as [<-|Han]; [rewrite Hwa; reflexivity|].
    destruct (Z.eqb_spec b n) as [<-|Hbn]; [rewrite Hwb; reflexivity|].
    apply andb_false_r.
Qed.

(* max(list) *)
Lemma fold_max_le r : forall x, x <= fold_left Z.max r x.
Proof.
  induction r as [|z r IH]; intros x; cbn [fold_left]; [lia|].
  specialize (IH (Z.max x z)). lia.
Qed.
Lemma fold_max_ge r : forall x y, In y (x :: r) -> y <= fold_left Z.max r x.
Proof.
  induction r as [|z r IH]; intros x y Hy; cbn [fold_left].
  - destruct Hy as [E|[]]. lia.
  - pose proof (fold_max_le r (Z.max x z)) as Hle.
    destruct Hy as [E|[E|Hy]]; [lia|lia|].
    apply IH. right. exact Hy.
Qed.
Lemma fold_max_in r : forall x, In (fold_left Z.max r x) (x :: r).
Proof.
  induction r as [|z r IH]; intros x; cbn [fold_left]; [left; reflexivity|].
  destruct (IH (Z.max x z)) as [H|H].
  - rewrite <- H. destruct (Z.max_spec x z) as [[_ E]|[_ E]]; rewrite E.
    + right. left. reflexivity.
    + left. reflexivity.
  - right. right. exact H.
Qed.

Lemma in_zth (l : list Z) x : In x l -> exists b, 0 <= b < zlen l /\ zth l b = x.
Proof.
  intros H. apply (In_nth _ _ 0) in H. destruct H as [k [Hk E]].
  exists (Z.of_nat k). unfold zth, zlen. rewrite Nat2Z.id. split; [lia|exact E].
Qed.
Lemma to_nat_lt {A} (l : list A) i : 0 <= i < zlen l -> (Z.to_nat i < length l)%nat.
Proof. unfold zlen. lia. Qed.
Lemma zth_in (l : list Z) b : 0 <= b < zlen l -> In (zth l b) l.
Proof. intros H. unfold zth. apply nth_In. unfold zlen in H. lia. Qed.

(* ------------------------------------------------------------------ the table predicate, unpacked *)
Section table.
Variables (is64 : bool) (T : gnu_table) (vs : list symview).
Variables (getsym : Z -> res symbol) (rc : Z -> res Z) (chain_pos : Z).
Hypothesis Hwf : wf_gnu_hash is64 T (map fst vs) = true.

Let nb := zlen (gt_buckets T).
Let so := gt_symoffset T.
Let n := zlen vs.
Let hz (i : Z) := zth (map gnu_hash (map fst vs)) i.
Let bat (i : Z) := hz i mod nb.
Let cat (i : Z) := zth (gt_chain T) (i - so).

Hypothesis Hget : forall i, 0 <= i < n -> getsym i = Ok (vth vs i).
Hypothesis Hrc : forall i, so <= i < n -> rc i = Ok (cat i).

Lemma hz_in i : 0 <= i < n -> hz i = gnu_hash (fst (vth vs i)).
Proof.
  intros Hi. unfold hz, zth.
  rewrite (nth_indep _ 0 (gnu_hash [])) by (rewrite !map_length; apply to_nat_lt; exact Hi).
  rewrite map_nth. rewrite names_nth. reflexivity.
Qed.

Lemma wf_basic : 1 <= nb /\ 1 <= zlen (gt_bloom T) /\ 0 <= so <= n /\ zlen (gt_chain T) = n - so.
Proof.
  pose proof Hwf as W. unfold wf_gnu_hash in W. cbv zeta in W. rewrite !andb_true_iff in W.
  destruct W as [[[[[[[[[[[[[H1 _] H2] _] _] H3] H4] _] H5] _] _] _] _] _].
  assert (Hn : zlen (map fst vs) = n) by (subst n; unfold zlen; rewrite map_length; reflexivity).
  rewrite Hn in *. fold nb so in H1, H3, H4, H5.
  apply Z.leb_le in H1, H2, H3, H4. apply Z.eqb_eq in H5. repeat split; assumption.
Qed.

Lemma wf_sym i : so <= i < n ->
  Z.lor (cat i) 1 = Z.lor (hz i) 1 /\ bloom_ok is64 T (hz i) = true /\
  Z.odd (cat i) = ((i =? n - 1) || negb (bat (i + 1) =? bat i)) /\
  ((i = so \/ bat (i - 1) <> bat i) -> zth (gt_buckets T) (bat i) = i).
Proof.
  intros Hi. pose proof Hwf as W. unfold wf_gnu_hash in W. cbv zeta in W. rewrite !andb_true_iff in W.
  destruct W as [[_ W] _].
  assert (Hn : zlen (map fst vs) = n) by (subst n; unfold zlen; rewrite map_length; reflexivity).
  rewrite Hn in W. fold so in W.
  apply forallb_zrange with (i := i) in W; [|exact Hi].
  rewrite !andb_true_iff in W. destruct W as [[[W1 W2] W3] W4].
  change (Z.lor (cat i) 1 =? Z.lor (hz i) 1 = true) in W1.
  change (bloom_ok is64 T (hz i) = true) in W2.
  change (Bool.eqb (Z.odd (cat i)) ((i =? n - 1) || negb (bat (i + 1) =? bat i)) = true) in W3.
  change ((if (i =? so) || negb (bat (i - 1) =? bat i) then zth (gt_buckets T) (bat i) =? i else true) = true) in W4.
  apply Z.eqb_eq in W1. apply eqb_prop in W3.
  repeat split; try assumption.
  intros Hfirst.
  destruct (Z.eqb_spec i so) as [Eq|Ne].
  - cbn [orb] in W4. apply Z.eqb_eq in W4. exact W4.
  - destruct Hfirst as [Eq|Hb]; [contradiction|].
    destruct (Z.eqb_spec (bat (i - 1)) (bat i)) as [Eb|_]; [contradiction|].
    cbn [orb negb] in W4. apply Z.eqb_eq in W4. exact W4.
Qed.

Lemma wf_bucket b : 0 <= b < nb ->
  zth (gt_buckets T) b < so \/ (zth (gt_buckets T) b < n /\ bat (zth (gt_buckets T) b) = b).
Proof.
  intros Hb. pose proof Hwf as W. unfold wf_gnu_hash in W. cbv zeta in W. rewrite !andb_true_iff in W.
  destruct W as [_ W].
  assert (Hn : zlen (map fst vs) = n) by (subst n; unfold zlen; rewrite map_length; reflexivity).
  rewrite Hn in W. fold nb so in W.
  apply forallb_zrange with (i := b) in W; [|exact Hb].
  apply orb_true_iff in W. destruct W as [W|W].
  - left. apply Z.ltb_lt in W. exact W.
  - right. apply andb_true_iff in W. destruct W as [W1 W2]. apply Z.ltb_lt in W1. apply Z.eqb_eq in W2.
    split; [exact W1|exact W2].
Qed.

Lemma last_odd : so < n -> Z.odd (cat (n - 1)) = true.
Proof.
  intros H. destruct (wf_sym (n - 1)) as [_ [_ [Ho _]]]; [lia|].
  rewrite Ho. rewrite Z.eqb_refl. reflexivity.
Qed.

(* the hashed symbols are grouped: from the bucket's start up to i the bucket does not change *)
Lemma group_start : forall k i, i = so + Z.of_nat k -> i < n ->
  exists s, so <= s <= i /\ (forall j, s <= j < i -> bat (j + 1) = bat j) /\ zth (gt_buckets T) (bat i) = s.
Proof.
  induction k as [|k IH]; intros i Hi Hn.
  - exists i. split; [lia|]. split; [intros j Hj; lia|].
    destruct (wf_sym i) as [_ [_ [_ Hf]]]; [lia|]. apply Hf. left. lia.
  - destruct (Z.eq_dec (bat (i - 1)) (bat i)) as [E|E].
    + destruct (IH (i - 1)) as [s [Hs [Hrun Hb]]]; [lia|lia|].
      exists s. split; [lia|]. split.
      * intros j Hj. destruct (Z.eq_dec j (i - 1)) as [->|Hne].
        -- replace (i - 1 + 1) with i by lia. symmetry. exact E.
        -- apply Hrun. lia.
      * rewrite <- E. exact Hb.
    + exists i. split; [lia|]. split; [intros j Hj; lia|].
      destruct (wf_sym i) as [_ [_ [_ Hf]]]; [lia|]. apply Hf. right. exact E.
Qed.

Lemma run_even s i : so <= s -> i < n -> (forall j, s <= j < i -> bat (j + 1) = bat j) ->
  forall j, s <= j < i -> Z.odd (cat j) = false.
Proof.
  intros Hs Hi Hrun j Hj. destruct (wf_sym j) as [_ [_ [Ho _]]]; [lia|].
  rewrite Ho. rewrite (Hrun j Hj). rewrite Z.eqb_refl.
  destruct (Z.eqb_spec j (n - 1)); [lia|]. reflexivity.
Qed.

(* ------------------------------------------------------------------ _matches_bloom *)
Lemma matches_bloom_spec h :
  matches_bloom is64 (gnu_params T chain_pos) h = Ok (bloom_ok is64 T h).
Proof.
  destruct wf_basic as [_ [Hbl _]].
  unfold matches_bloom, gnu_params, bloom_ok. cbn [gh_bloom_size gh_bloom_shift gh_bloom].
  destruct (Z.eqb_spec (zlen (gt_bloom T)) 0); [lia|].
  fold (class_bits is64).
  assert (HC : 0 < class_bits is64) by (destruct is64; cbn; lia).
  rewrite list_index_ok by (apply Z.mod_pos_bound; lia). cbn [bind].
  rewrite land_mask2; [reflexivity| |]; apply Z.mod_pos_bound; exact HC.
Qed.

(* ------------------------------------------------------------------ the chain walk *)
Section walk.
Variable q : list Z.
Let h := gnu_hash q.

Definition hitb (j : Z) : bool := (Z.lor (cat j) 1 =? Z.lor h 1) && beqb q (fst (vth vs j)).

Lemma walk_char : forall fuel s, so <= s < n -> (Z.to_nat (n - s) <= fuel)%nat ->
  exists e, s <= e < n /\ (forall j, s <= j < e -> hitb j = false /\ Z.odd (cat j) = false) /\
    ((hitb e = true /\ gnu_hash_walk rc getsym q h fuel s = Ok (Some (vth vs e))) \/
     (hitb e = false /\ Z.odd (cat e) = true /\ gnu_hash_walk rc getsym q h fuel s = Ok None)).
Proof.
  destruct wf_basic as [_ [_ [Hso _]]].
  induction fuel as [|fuel IH]; intros s Hs Hf; [lia|].
  cbn [gnu_hash_walk]. rewrite Hrc by lia. cbn [bind].
  assert (Hhit : (if Z.lor (cat s) 1 =? Z.lor h 1
                  then do symbol <- getsym s; if bytes_eq q (fst symbol) then Ok (Some symbol) else Ok None
                  else Ok None) = Ok (if hitb s then Some (vth vs s) else None)).
  { unfold hitb. destruct (Z.lor (cat s) 1 =? Z.lor h 1); [|reflexivity].
    rewrite Hget by lia. cbn [bind andb]. rewrite bytes_eq_beqb.
    destruct (beqb q (fst (vth vs s))); reflexivity. }
  rewrite Hhit. cbn [bind]. rewrite odd_land1.
  destruct (hitb s) eqn:Eh.
  - exists s. split; [lia|]. split; [intros j Hj; lia|]. left. split; [exact Eh|reflexivity].
  - destruct (Z.odd (cat s)) eqn:Eo.
    + exists s. split; [lia|]. split; [intros j Hj; lia|]. right. repeat split; assumption.
    + assert (Hne : s <> n - 1) by (intros ->; rewrite last_odd in Eo by lia; discriminate).
      destruct (IH (s + 1)) as [e [He [Hbefore Hend]]]; [lia|lia|].
      exists e. split; [lia|]. split; [|exact Hend].
      intros j Hj. destruct (Z.eq_dec j s) as [->|Hjs]; [split; assumption|]. apply Hbefore. lia.
Qed.
End walk.

(* ------------------------------------------------------------------ get_symbol *)
Variable fuel : nat.
Hypothesis Hfuel : (Z.to_nat (n - so) <= fuel)%nat.

Let P := gnu_params T chain_pos.

Lemma get_symbol_unfold q :
  gnu_hash_get_symbol is64 rc getsym fuel P q =
  if negb (bloom_ok is64 T (gnu_hash q)) then Ok None
  else if zth (gt_buckets T) (gnu_hash q mod nb) <? so then Ok None
  else gnu_hash_walk rc getsym q (gnu_hash q) fuel (zth (gt_buckets T) (gnu_hash q mod nb)).
Proof.
  destruct wf_basic as [Hnb _].
  unfold gnu_hash_get_symbol. cbv zeta. rewrite gnu_hash_spec. unfold P. rewrite matches_bloom_spec.
  cbn [bind]. destruct (negb (bloom_ok is64 T (gnu_hash q))); [reflexivity|].
  unfold gnu_params. cbn [gh_nbuckets gh_buckets gh_symoffset]. fold nb so.
  destruct (Z.eqb_spec nb 0); [lia|].
  rewrite list_index_ok by (apply Z.mod_pos_bound; lia). cbn [bind]. reflexivity.
Qed.

(* a returned symbol bears the queried name and is an entry of the hashed part *)
Theorem gnu_lookup_sound q v :
  gnu_hash_get_symbol is64 rc getsym fuel P q = Ok (Some v) ->
  fst v = q /\ exists i, so <= i < n /\ v = vth vs i.
Proof.
  destruct wf_basic as [Hnb _].
  rewrite get_symbol_unfold.
  destruct (negb (bloom_ok is64 T (gnu_hash q))); [discriminate|].
  set (s := zth (gt_buckets T) (gnu_hash q mod nb)).
  destruct (Z.ltb_spec s so) as [|Hs]; [discriminate|].
  destruct (wf_bucket (gnu_hash q mod nb)) as [Hlt|[Hlt _]]; [apply Z.mod_pos_bound; lia|fold s in Hlt; lia|].
  fold s in Hlt.
  destruct (walk_char q fuel s) as [e [He [_ [[Hh Hr]|[_ [_ Hr]]]]]]; [lia|lia| |];
    rewrite Hr; intros H; inversion H; subst v.
  unfold hitb in Hh. apply andb_true_iff in Hh. destruct Hh as [_ Hq]. apply beqb_true in Hq.
  split; [symmetry; exact Hq|]. exists e. split; [lia|reflexivity].
Qed.

(* whenever a symbol of the hashed part bears the name, one is returned *)
Theorem gnu_lookup_complete q :
  (exists i, so <= i < n /\ fst (vth vs i) = q) ->
  exists v, gnu_hash_get_symbol is64 rc getsym fuel P q = Ok (Some v) /\ fst v = q.
Proof.
  intros [i [Hi Hq]]. destruct wf_basic as [Hnb [_ [Hso _]]].
  rewrite get_symbol_unfold.
  destruct (wf_sym i Hi) as [Hc [Hbl _]].
  rewrite hz_in in Hc, Hbl by lia. rewrite Hq in Hc, Hbl.
  rewrite Hbl. cbn [negb].
  destruct (group_start (Z.to_nat (i - so)) i) as [s [Hs [Hrun Hb]]]; [lia|lia|].
  unfold bat in Hb. rewrite hz_in in Hb by lia. rewrite Hq in Hb. rewrite Hb.
  destruct (Z.ltb_spec s so); [lia|].
  assert (Hhit : hitb q i = true).
  { unfold hitb. rewrite Hc, Z.eqb_refl, Hq. cbn [andb]. apply beqb_true. reflexivity. }
  destruct (walk_char q fuel s) as [e [He [Hbefore [[Hh Hr]|[Hh [Ho Hr]]]]]]; [lia|lia| |].
  - exists (vth vs e). split; [exact Hr|].
    unfold hitb in Hh. apply andb_true_iff in Hh. destruct Hh as [_ He']. apply beqb_true in He'.
    symmetry. exact He'.
  - exfalso. destruct (Z.lt_trichotomy i e) as [Hlt|[Heq|Hgt]].
    + destruct (Hbefore i) as [Hn _]; [lia|]. congruence.
    + subst e. congruence.
    + rewrite (run_even s i) in Ho; [discriminate|lia|lia|exact Hrun|lia].
Qed.

(* no symbol of the hashed part bears the name: None, whatever the bloom filter, bucket and
   chain words say (false positives, bucket collisions, full 32-bit collisions) *)
Theorem gnu_lookup_absent q :
  (forall i, so <= i < n -> fst (vth vs i) <> q) ->
  gnu_hash_get_symbol is64 rc getsym fuel P q = Ok None.
Proof.
  intros Habs. destruct wf_basic as [Hnb _].
  rewrite get_symbol_unfold.
  destruct (negb (bloom_ok is64 T (gnu_hash q))); [reflexivity|].
  set (s := zth (gt_buckets T) (gnu_hash q mod nb)).
  destruct (Z.ltb_spec s so) as [|Hs]; [reflexivity|].
  destruct (wf_bucket (gnu_hash q mod nb)) as [Hlt|[Hlt _]]; [apply Z.mod_pos_bound; lia|fold s in Hlt; lia|].
  fold s in Hlt.
  destruct (walk_char q fuel s) as [e [He [_ [[Hh Hr]|[_ [_ Hr]]]]]]; [lia|lia| |exact Hr].
  exfalso. unfold hitb in Hh. apply andb_true_iff in Hh. destruct Hh as [_ Hq]. apply beqb_true in Hq.
  apply (Habs e); [lia|symmetry; exact Hq].
Qed.

(* ------------------------------------------------------------------ get_number_of_symbols *)
Lemma count_walk_char m : so <= m -> (forall k, m <= k < n - 1 -> Z.odd (cat k) = false) ->
  forall f j, m <= j < n -> (Z.to_nat (n - j) <= f)%nat -> gnu_count_walk rc f j = Ok n.
Proof.
  intros Hm Heven. induction f as [|f IH]; intros j Hj Hf; [lia|].
  cbn [gnu_count_walk]. rewrite Hrc by lia. cbn [bind]. rewrite odd_land1.
  destruct (Z.odd (cat j)) eqn:Eo.
  - destruct (Z.eq_dec j (n - 1)) as [->|Hne]; [f_equal; lia|].
    rewrite Heven in Eo by lia. discriminate.
  - assert (Hne : j <> n - 1) by (intros ->; rewrite last_odd in Eo by lia; discriminate).
    apply IH; lia.
Qed.

Theorem gnu_count_exact : gnu_hash_number_of_symbols rc fuel P = Ok n.
Proof.
  destruct wf_basic as [Hnb [_ [Hso _]]].
  unfold gnu_hash_number_of_symbols, P, gnu_params. cbn [gh_buckets gh_symoffset]. fold so.
  assert (Hne : exists x r, gt_buckets T = x :: r).
  { destruct (gt_buckets T) as [|x r] eqn:E; [exfalso|eauto].
    unfold nb in Hnb. cbn in Hnb. lia. }
  destruct Hne as [x [r Eb]]. rewrite Eb.
  cbn [py_max bind].
  set (m := fold_left Z.max r x).
  assert (Hin : In m (gt_buckets T)) by (rewrite Eb; apply fold_max_in).
  assert (Hge : forall y, In y (gt_buckets T) -> y <= m) by (rewrite Eb; intros y Hy; apply fold_max_ge; exact Hy).
  assert (Hbat : forall i, 0 <= bat i < nb) by (intros i; apply Z.mod_pos_bound; lia).
  destruct (Z.ltb_spec m so) as [Hlt|Hle].
  - (* no bucket points into the hashed part: it is empty *)
    destruct (Z.eq_dec so n) as [->|Hne]; [reflexivity|].
    exfalso. destruct (wf_sym so) as [_ [_ [_ Hf]]]; [lia|].
    specialize (Hf (or_introl eq_refl)).
    assert (so <= m); [|lia]. rewrite <- Hf at 1. apply Hge. apply zth_in. apply Hbat.
  - destruct (in_zth _ _ Hin) as [b [Hb Hbm]]. fold nb in Hb.
    destruct (wf_bucket b Hb) as [Hlt|[Hlt _]]; rewrite Hbm in Hlt; [lia|].
    apply (count_walk_char m); [lia| |lia|lia].
    intros k Hk. destruct (wf_sym k) as [_ [_ [Ho _]]]; [lia|]. rewrite Ho.
    destruct (Z.eqb_spec k (n - 1)); [lia|]. cbn [orb].
    destruct (Z.eqb_spec (bat (k + 1)) (bat k)) as [|Hne]; [reflexivity|].
    exfalso. destruct (wf_sym (k + 1)) as [_ [_ [_ Hf]]]; [lia|].
    replace (k + 1 - 1) with k in Hf by lia.
    assert (Hk1 : zth (gt_buckets T) (bat (k + 1)) = k + 1) by (apply Hf; right; congruence).
    assert (k + 1 <= m); [|lia]. rewrite <- Hk1. apply Hge. apply zth_in. apply Hbat.
Qed.
End table.
