(* Proofs/C14Desc.v — the descriptor dispatch and the six known descriptor kinds:
   decoding the encoding of a well-formed descriptor placed anywhere in an image gives its
   fields back. *)
From PV Require Import Base.Outcome Base.Fmt Base.Enum Base.Prim.
From PV Require Import Gen.ElfLayouts Gen.C14Notes Spec.ElfGabi Spec.PrimSpec Spec.C14Notes Model.C14Notes.
From PV Require Import Proofs.PrimProofs Proofs.FmtProofs Proofs.ElfLayoutFacts Proofs.C14Proofs.
From Coq Require Import Lia ZifyBool.
Ltac Zify.zify_post_hook ::= Z.to_euclidean_division_equations.
Open Scope string_scope.
Open Scope list_scope.
Open Scope Z_scope.

(* ================================================================== hex text *)
Lemma hexdigit_nth d : 0 <= d < 16 -> nth (Z.to_nat d) HEXDIGITS 0 = hex_digit d.
Proof.
  intros H.
  assert (Hc : d = 0 \/ d = 1 \/ d = 2 \/ d = 3 \/ d = 4 \/ d = 5 \/ d = 6 \/ d = 7 \/ d = 8 \/
               d = 9 \/ d = 10 \/ d = 11 \/ d = 12 \/ d = 13 \/ d = 14 \/ d = 15) by lia.
  repeat (destruct Hc as [Hc|Hc]; [subst d; reflexivity|]). subst d. reflexivity.
Qed.

Lemma bytes2hex_spec bs : all_bytes bs = true -> bytes2hex bs = hex_text bs.
Proof.
  induction bs as [|b r IH]; intros H; [reflexivity|].
  cbn [all_bytes forallb] in H. apply andb_prop in H. destruct H as [Hb Hr].
  apply is_byte_iff in Hb.
  unfold bytes2hex in *. cbn [flat_map hex_text app].
  rewrite !hexdigit_nth by lia. rewrite IH by exact Hr. reflexivity.
Qed.

Lemma unhex_hex_digit d : 0 <= d < 16 -> unhex_digit (hex_digit d) = d.
Proof.
  intros H. unfold hex_digit, unhex_digit.
  destruct (Z.ltb_spec d 10).
  - destruct (Z.ltb_spec (48 + d) 58); lia.
  - destruct (Z.ltb_spec (87 + d) 58); lia.
Qed.

(* the hex text means the bytes *)
Theorem unhex_hex_text bs : all_bytes bs = true -> unhex_text (hex_text bs) = bs.
Proof.
  induction bs as [|b r IH]; intros H; [reflexivity|].
  cbn [all_bytes forallb] in H. apply andb_prop in H. destruct H as [Hb Hr].
  apply is_byte_iff in Hb.
  cbn [hex_text unhex_text]. rewrite !unhex_hex_digit by lia. rewrite IH by exact Hr.
  f_equal. lia.
Qed.

(* ================================================================== dispatch = the spec's kind table *)
Lemma name_is_gnu name : name_is name STR_GNU = owner_is_gnu name.
Proof. reflexivity. Qed.

Ltac eqb_cases :=
  repeat match goal with
         | |- context [Z.eqb ?a ?b] => destruct (Z.eqb_spec a b); try lia; subst
         end.

Theorem dispatch_spec c name ty : wf_cfg c = true ->
  desc_dispatch (name_of (n_type_table c) ty) name = spec_kind (scfg_of c) name ty.
Proof.
  intros Hc. rewrite (n_type_table_spec c Hc).
  unfold spec_kind, desc_dispatch. rewrite !name_is_gnu.
  destruct (s_core (scfg_of c)); unfold spec_n_types, name_of;
    cbn [spec_core_types spec_note_types dict_get].
  - destruct (Z.eqb_spec 1 ty); [subst; reflexivity|].
    destruct (Z.eqb_spec 2 ty); [subst; reflexivity|].
    destruct (Z.eqb_spec 3 ty); [subst; reflexivity|].
    destruct (Z.eqb_spec 4 ty); [subst; reflexivity|].
    destruct (Z.eqb_spec 6 ty); [subst; reflexivity|].
    destruct (Z.eqb_spec 1397311305 ty); [subst; reflexivity|].
    destruct (Z.eqb_spec 1179208773 ty); [subst; reflexivity|].
    cbn [is_name andb].
    destruct (Z.eqb_spec ty 3); [lia|]. destruct (Z.eqb_spec ty 1179208773); [lia|]. reflexivity.
  - destruct (owner_is_gnu name).
    + destruct (Z.eqb_spec 1 ty); [subst; reflexivity|].
      destruct (Z.eqb_spec 2 ty); [subst; reflexivity|].
      destruct (Z.eqb_spec 3 ty); [subst; reflexivity|].
      destruct (Z.eqb_spec 4 ty); [subst; reflexivity|].
      destruct (Z.eqb_spec 5 ty); [subst; reflexivity|].
      cbn [is_name andb].
      destruct (Z.eqb_spec ty 1); [lia|]. destruct (Z.eqb_spec ty 3); [lia|].
      destruct (Z.eqb_spec ty 4); [lia|]. destruct (Z.eqb_spec ty 5); [lia|]. reflexivity.
    + destruct (Z.eqb_spec 1 ty); [subst; reflexivity|].
      destruct (Z.eqb_spec 2 ty); [subst; reflexivity|].
      destruct (Z.eqb_spec 3 ty); [subst; reflexivity|].
      destruct (Z.eqb_spec 4 ty); [subst; reflexivity|].
      destruct (Z.eqb_spec 5 ty); [subst; reflexivity|].
      reflexivity.
Qed.

(* ================================================================== small facts *)
Lemma u32_range v : u32 v = true -> 0 <= v < 2 ^ 32.
Proof. unfold u32. lia. Qed.
Lemma u32_urange v : u32 v = in_urange 4 v.
Proof. reflexivity. Qed.

Lemma zlen_int_encode le n v : zlen (int_encode le n v) = Z.of_nat n.
Proof. unfold zlen. rewrite int_encode_length. reflexivity. Qed.

Lemma native_scfg c : native (scfg_of c) = if c_is64 c then 8%nat else 4%nat.
Proof. reflexivity. Qed.

Lemma in_urange_range n v : in_urange n v = true -> 0 <= v < 2 ^ (8 * Z.of_nat n).
Proof. unfold in_urange. lia. Qed.

(* two unsigned integers in front of anything *)
Lemma decode_two_uints le n f1 f2 v1 v2 rest :
  in_urange n v1 = true -> in_urange n v2 = true ->
  decode_layout [(f1, KU le n); (f2, KU le n)] (int_encode le n v1 ++ int_encode le n v2 ++ rest)
  = Some ([(f1, VZ v1); (f2, VZ v2)], rest).
Proof.
  intros H1 H2.
  change (int_encode le n v1 ++ int_encode le n v2 ++ rest)
    with (int_encode le n v1 ++ (int_encode le n v2 ++ rest)).
  unfold decode_layout. cbn [decode_fields decode_kind].
  rewrite <- (int_encode_length le n v1) at 1. rewrite take_app.
  rewrite int_decode_encode_u by (apply in_urange_range; exact H1).
  cbn [rev app]. rewrite <- (int_encode_length le n v2) at 1. rewrite take_app.
  rewrite int_decode_encode_u by (apply in_urange_range; exact H2).
  reflexivity.
Qed.

Lemma decode_three_uints le n f1 f2 f3 v1 v2 v3 rest :
  in_urange n v1 = true -> in_urange n v2 = true -> in_urange n v3 = true ->
  decode_layout [(f1, KU le n); (f2, KU le n); (f3, KU le n)]
    (int_encode le n v1 ++ int_encode le n v2 ++ int_encode le n v3 ++ rest)
  = Some ([(f1, VZ v1); (f2, VZ v2); (f3, VZ v3)], rest).
Proof.
  intros H1 H2 H3.
  unfold decode_layout. cbn [decode_fields decode_kind].
  rewrite <- (int_encode_length le n v1) at 1. rewrite take_app.
  rewrite int_decode_encode_u by (apply in_urange_range; exact H1).
  cbn [rev app]. rewrite <- (int_encode_length le n v2) at 1. rewrite take_app.
  rewrite int_decode_encode_u by (apply in_urange_range; exact H2).
  cbn [rev app]. rewrite <- (int_encode_length le n v3) at 1. rewrite take_app.
  rewrite int_decode_encode_u by (apply in_urange_range; exact H3).
  reflexivity.
Qed.

(* ================================================================== GNU properties *)
Definition prop_case (c : cfg) (ty datasz : Z) : option nat :=
  match classify_pr_data c (name_of gen_prop_type_table ty) datasz with
  | Some key => switch_case key gen_prop_cases
  | None => None
  end.

Lemma prop_case_stack c :
  prop_case c GNU_PROPERTY_STACK_SIZE (Z.of_nat (native (scfg_of c))) = Some (native (scfg_of c)).
Proof. destruct c as [le [|] et em]; vm_compute; reflexivity. Qed.

Lemma prop_case_word c ty : is_word_prop ty = true -> prop_case c ty 4 = Some 4%nat.
Proof.
  unfold is_word_prop. cbn [existsb word_prop_types]. intros H.
  split_orb H; try discriminate; apply Z.eqb_eq in H; subst ty;
    destruct c as [le [|] et em]; vm_compute; reflexivity.
Qed.

Ltac prop_case_compute :=
  cbn [classify_pr_data];
  match goal with
  | |- context [assoc_s ?k ?t] => let v := eval vm_compute in (assoc_s k t) in change (assoc_s k t) with v
  end;
  cbn [elfclass c_is64]; unfold gen_prop_cases;
  cbn [switch_case String.eqb Ascii.eqb Bool.eqb andb];
  repeat match goal with
         | |- context [Z.eqb ?a ?b] => destruct (Z.eqb_spec a b); try lia; subst
         end; cbn [andb]; try reflexivity; try discriminate; try lia.

(* a type that is not a bit-mask type, and not a stack size of native width: no Switch case *)
Lemma prop_case_raw_other c ty dsz :
  is_word_prop ty = false ->
  ((ty =? GNU_PROPERTY_STACK_SIZE) && (dsz =? Z.of_nat (native (scfg_of c))))%bool = false ->
  prop_case c ty dsz = None.
Proof.
  intros Hw Hs. unfold prop_case, name_of.
  destruct prop_type_table as [-> _].
  unfold is_word_prop in Hw. cbn [existsb word_prop_types] in Hw.
  unfold GNU_PROPERTY_STACK_SIZE in Hs.
  cbn [spec_prop_types dict_get].
  destruct (Z.eqb_spec 1 ty) as [E|E].
  { subst ty. rewrite Z.eqb_refl in Hs. cbn [andb] in Hs.
    destruct c as [le [|] et em]; cbn [native scfg_of s_is64 c_is64] in Hs; prop_case_compute. }
  destruct (Z.eqb_spec 2 ty) as [E2|E2].
  { subst ty. destruct c as [le [|] et em]; prop_case_compute. }
  destruct (Z.eqb_spec 3221225474 ty) as [E3|E3]; [subst ty; discriminate|].
  destruct (Z.eqb_spec 3221258242 ty) as [E4|E4]; [subst ty; discriminate|].
  destruct (Z.eqb_spec 3221291009 ty) as [E5|E5]; [subst ty; discriminate|].
  destruct (Z.eqb_spec 3221291010 ty) as [E6|E6]; [subst ty; discriminate|].
  destruct (Z.eqb_spec 3221225472 ty) as [E7|E7]; [subst ty; discriminate|].
  reflexivity.
Qed.

(* a bit-mask type that declares a size other than 4: no Switch case either (raw bytes) *)
Lemma prop_case_word_other c ty dsz : is_word_prop ty = true -> dsz <> 4 -> prop_case c ty dsz = None.
Proof.
  unfold is_word_prop. cbn [existsb word_prop_types]. intros H Hd.
  unfold prop_case, name_of. destruct prop_type_table as [-> _].
  split_orb H; try discriminate; apply Z.eqb_eq in H; subst ty;
    cbn [spec_prop_types dict_get Z.eqb Pos.eqb];
    destruct c as [le [|] et em]; prop_case_compute.
Qed.

Lemma prop_case_raw c ty dsz :
  (is_word_prop ty && (dsz =? 4))%bool = false ->
  ((ty =? GNU_PROPERTY_STACK_SIZE) && (dsz =? Z.of_nat (native (scfg_of c))))%bool = false ->
  prop_case c ty dsz = None.
Proof.
  intros Hw Hs. destruct (is_word_prop ty) eqn:Hw0.
  - cbn [andb] in Hw. apply prop_case_word_other; [exact Hw0|]. apply Z.eqb_neq. exact Hw.
  - apply prop_case_raw_other; assumption.
Qed.

Lemma word_prop_u32 ty : is_word_prop ty = true -> in_urange 4 ty = true.
Proof.
  unfold is_word_prop. cbn [existsb word_prop_types]. intros H.
  split_orb H; try discriminate; apply Z.eqb_eq in H; subst ty; reflexivity.
Qed.

Lemma prop_padding_eval c dsz :
  eval [("pr_datasz", VZ dsz); ("pr_type", VZ 0)] (gen_prop_padding (c_is64 c))
  = pad_to (prop_align (scfg_of c)) dsz.
Proof.
  destruct c as [le [|] et em]; cbn [c_is64 scfg_of prop_align s_is64].
  - transitivity (roundup dsz 3 - dsz); [reflexivity|]. rewrite roundup_3. lia.
  - transitivity (roundup dsz 2 - dsz); [reflexivity|]. rewrite roundup_2. unfold pad4. lia.
Qed.

Lemma prop_padding_eval' c ty dsz :
  eval [("pr_datasz", VZ dsz); ("pr_type", VZ ty)] (gen_prop_padding (c_is64 c))
  = pad_to (prop_align (scfg_of c)) dsz.
Proof. rewrite <- (prop_padding_eval c dsz). destruct (c_is64 c); reflexivity. Qed.

Lemma take_int_encode le n v (t : list Z) : take n (int_encode le n v ++ t) = Some (int_encode le n v, t).
Proof. rewrite <- (int_encode_length le n v) at 1. apply take_app. Qed.

Lemma parse_prop_ok c pp img (A R : list Z) :
  wf_prop (scfg_of c) pp = true -> img = A ++ encode_prop (scfg_of c) pp ++ R ->
  parse_prop c img (zlen A) = Ok (prop_view (scfg_of c) pp).
Proof.
  destruct pp as [p pad]. intros Hwf Hi.
  unfold wf_prop in Hwf. rewrite !andb_true_iff in Hwf.
  destruct Hwf as [[[Hpadb Hpadl] Hdsz] Hp].
  apply Z.eqb_eq in Hpadl.
  set (sc := scfg_of c) in *.
  assert (Hle : s_le sc = c_le c) by reflexivity.
  assert (Hty : in_urange 4 (prop_type p) = true).
  { destruct p as [v|ty v|ty d]; cbn [prop_type].
    - reflexivity.
    - apply andb_prop in Hp. destruct Hp as [Hw _]. apply word_prop_u32. exact Hw.
    - rewrite !andb_true_iff in Hp. destruct Hp as [[[Hu _] _] _]. exact Hu. }
  unfold parse_prop.
  rewrite (skipn_z_at img A _ (zlen A) Hi eq_refl).
  unfold encode_prop. rewrite <- !app_assoc.
  rewrite Elf_Prop_head_spec.
  rewrite Hle in *.
  rewrite decode_two_uints by (try exact Hty; exact Hdsz).
  cbn [rec_z rec_get String.eqb Ascii.eqb Bool.eqb].
  destruct prop_type_table as [_ Hstrict]. rewrite Hstrict, enum_field_pass. cbn [bind].
  change (match classify_pr_data c (name_of gen_prop_type_table (prop_type p)) (zlen (prop_data sc p)) with
          | Some key => switch_case key gen_prop_cases
          | None => None
          end) with (prop_case c (prop_type p) (zlen (prop_data sc p))).
  cbn [rev app].
  destruct prop_type_table as [Htab _].
  unfold prop_view. cbn [fst]. rewrite <- Htab.
  destruct p as [v|ty v|ty d]; cbn [prop_type prop_data] in *.
  - (* stack size *)
    rewrite zlen_int_encode. rewrite prop_case_stack. fold sc.
    rewrite take_int_encode. cbn [bind].
    rewrite prop_padding_eval'. rewrite zlen_int_encode in Hpadl. fold sc. rewrite <- Hpadl.
    rewrite take_z_app.
    rewrite int_decode_encode_u by (apply in_urange_range; exact Hp). reflexivity.
  - (* 4-byte bit mask *)
    apply andb_prop in Hp. destruct Hp as [Hw Hv].
    rewrite zlen_int_encode. change (Z.of_nat 4) with 4. rewrite (prop_case_word c ty Hw).
    rewrite take_int_encode. cbn [bind].
    rewrite prop_padding_eval'. rewrite zlen_int_encode in Hpadl. change (Z.of_nat 4) with 4 in Hpadl.
    fold sc. rewrite <- Hpadl. rewrite take_z_app.
    rewrite int_decode_encode_u by (apply in_urange_range; exact Hv). reflexivity.
  - (* raw *)
    rewrite !andb_true_iff in Hp. destruct Hp as [[[Hu Hd] Hns] Hnw].
    apply negb_true_iff in Hns. apply negb_true_iff in Hnw.
    rewrite (prop_case_raw c ty (zlen d) Hnw Hns).
    change (eval [("pr_datasz", VZ (zlen d)); ("pr_type", VZ ty)] gen_prop_default_len) with (zlen d).
    rewrite take_z_app. cbn [bind].
    rewrite prop_padding_eval'. fold sc. rewrite <- Hpadl. rewrite take_z_app. reflexivity.
Qed.

Lemma zlen_encode_prop c pp : wf_prop (scfg_of c) pp = true ->
  zlen (encode_prop (scfg_of c) pp) =
  8 + zlen (prop_data (scfg_of c) (fst pp)) + pad_to (prop_align (scfg_of c)) (zlen (prop_data (scfg_of c) (fst pp))).
Proof.
  destruct pp as [p pad]. intros Hwf. unfold wf_prop in Hwf. rewrite !andb_true_iff in Hwf.
  destruct Hwf as [[[Hpadb Hpadl] Hdsz] Hp]. apply Z.eqb_eq in Hpadl.
  unfold encode_prop. cbn [fst]. rewrite !zlen_app, !zlen_int_encode. lia.
Qed.

Lemma props_step c dsz :
  0 <= dsz ->
  roundup (dsz + 8) (if elfclass c =? 32 then 2 else 3) = 8 + dsz + pad_to (prop_align (scfg_of c)) dsz.
Proof.
  intros H. destruct c as [le [|] et em]; cbn [elfclass c_is64 scfg_of prop_align s_is64 Z.eqb Pos.eqb].
  - rewrite roundup_3. unfold pad_to. lia.
  - rewrite roundup_2. unfold pad4, pad_to. lia.
Qed.

Lemma props_go_ok c : forall ps fuel img (A R : list Z),
  (length ps < fuel)%nat -> forallb (wf_prop (scfg_of c)) ps = true ->
  img = A ++ encode_props (scfg_of c) ps ++ R ->
  props_go fuel c img (zlen A) (zlen A + zlen (encode_props (scfg_of c) ps))
  = Ok (map (prop_view (scfg_of c)) ps).
Proof.
  induction ps as [|pp ps IH]; intros fuel img A R Hfuel Hwf Hi.
  - destruct fuel as [|f]; [cbn in Hfuel; lia|]. cbn [props_go encode_props map concat].
    change (zlen (@nil Z)) with 0. destruct (Z.ltb_spec (zlen A) (zlen A + 0)); [lia|]. reflexivity.
  - destruct fuel as [|f]; [cbn in Hfuel; lia|]. cbn [length] in Hfuel.
    cbn [forallb] in Hwf. apply andb_prop in Hwf. destruct Hwf as [Hp Hps].
    unfold encode_props in *. cbn [map concat] in *. fold (encode_props (scfg_of c) ps) in *.
    pose proof (zlen_encode_prop c pp Hp) as Hlen.
    pose proof (zlen_nonneg (prop_data (scfg_of c) (fst pp))) as Hd0.
    pose proof (pad_to_bound (prop_align (scfg_of c)) (zlen (prop_data (scfg_of c) (fst pp)))
                  ltac:(destruct (s_is64 (scfg_of c)) eqn:E; unfold prop_align; rewrite E; lia)) as Hpb.
    pose proof (zlen_nonneg (encode_props (scfg_of c) ps)) as Hr0.
    cbn [props_go]. rewrite zlen_app.
    destruct (Z.ltb_spec (zlen A) (zlen A + (zlen (encode_prop (scfg_of c) pp) + zlen (encode_props (scfg_of c) ps))));
      [|lia].
    rewrite <- app_assoc in Hi.
    rewrite (parse_prop_ok c pp img A _ Hp Hi). cbn [bind].
    unfold prop_view at 1. cbn [fst snd].
    rewrite props_step by exact Hd0.
    replace (zlen A + (8 + zlen (prop_data (scfg_of c) (fst pp)) +
                       pad_to (prop_align (scfg_of c)) (zlen (prop_data (scfg_of c) (fst pp)))))
      with (zlen (A ++ encode_prop (scfg_of c) pp)) by (rewrite zlen_app; lia).
    replace (zlen A + (zlen (encode_prop (scfg_of c) pp) + zlen (encode_props (scfg_of c) ps)))
      with (zlen (A ++ encode_prop (scfg_of c) pp) + zlen (encode_props (scfg_of c) ps))
      by (rewrite zlen_app; lia).
    rewrite (IH f img (A ++ encode_prop (scfg_of c) pp) R); [reflexivity | lia | exact Hps |].
    rewrite Hi. rewrite <- !app_assoc. reflexivity.
Qed.

(* ================================================================== NT_FILE *)
Definition entry_record (e : Z * Z * Z) : record :=
  let '(a, b, o) := e in [("vm_start", VZ a); ("vm_end", VZ b); ("page_offset", VZ o)].

Lemma entry_triple_record e : entry_triple (entry_record e) = e.
Proof. destruct e as [[a b] o]. reflexivity. Qed.

Lemma map_entry_triple es : map entry_triple (map entry_record es) = es.
Proof. induction es as [|e es IH]; [reflexivity|]. cbn [map]. rewrite entry_triple_record, IH. reflexivity. Qed.

Lemma encode_entry_length c e : length (encode_entry (scfg_of c) e) = (3 * native (scfg_of c))%nat.
Proof. destruct e as [[a b] o]. unfold encode_entry. rewrite !app_length, !int_encode_length. lia. Qed.

Lemma parse_entries_ok c : forall es fuel rest,
  (length es < fuel)%nat -> forallb (wf_entry (scfg_of c)) es = true ->
  parse_entries fuel
    [("vm_start", KU (c_le c) (if c_is64 c then 8 else 4)); ("vm_end", KU (c_le c) (if c_is64 c then 8 else 4));
     ("page_offset", KU (c_le c) (if c_is64 c then 8 else 4))]%nat (zlen es)
    (concat (map (encode_entry (scfg_of c)) es) ++ rest)
  = Ok (map entry_record es, rest).
Proof.
  induction es as [|e es IH]; intros fuel rest Hfuel Hwf.
  - destruct fuel; reflexivity.
  - destruct fuel as [|f]; [cbn in Hfuel; lia|]. cbn [length] in Hfuel.
    cbn [forallb] in Hwf. apply andb_prop in Hwf. destruct Hwf as [He Hes].
    cbn [parse_entries]. rewrite zlen_cons. pose proof (zlen_nonneg es) as H0.
    destruct (Z.leb_spec (1 + zlen es) 0); [lia|].
    cbn [map concat]. rewrite <- app_assoc.
    destruct e as [[a b] o]. unfold wf_entry, unative in He. rewrite !andb_true_iff in He.
    destruct He as [[Ha Hb] Ho].
    unfold encode_entry at 1. rewrite <- !app_assoc.
    change (native (scfg_of c)) with (if c_is64 c then 8%nat else 4%nat) in *.
    change (s_le (scfg_of c)) with (c_le c).
    rewrite decode_three_uints by assumption.
    replace (1 + zlen es - 1) with (zlen es) by lia.
    rewrite (IH f rest ltac:(lia) Hes). reflexivity.
Qed.

Lemma parse_cstrings_ok : forall ns fuel rest,
  (length ns < fuel)%nat -> forallb no_nul ns = true ->
  parse_cstrings fuel (zlen ns) (concat (map cstring_encode ns) ++ rest) = Ok (ns, rest).
Proof.
  induction ns as [|s ns IH]; intros fuel rest Hfuel Hwf.
  - destruct fuel; reflexivity.
  - destruct fuel as [|f]; [cbn in Hfuel; lia|]. cbn [length] in Hfuel.
    cbn [forallb] in Hwf. apply andb_prop in Hwf. destruct Hwf as [Hs Hns].
    cbn [parse_cstrings]. rewrite zlen_cons. pose proof (zlen_nonneg ns) as H0.
    destruct (Z.leb_spec (1 + zlen ns) 0); [lia|].
    cbn [map concat]. rewrite <- app_assoc.
    rewrite cstring_decode_valid by exact Hs.
    replace (1 + zlen ns - 1) with (zlen ns) by lia.
    rewrite (IH f rest ltac:(lia) Hns). reflexivity.
Qed.

Lemma parse_nt_file_ok c page es ns img (A R : list Z) :
  wf_desc (scfg_of c) (DFile page es ns) = true ->
  img = A ++ encode_file (scfg_of c) page es ns ++ R ->
  parse_nt_file c img (zlen A) = Ok (DVFile (zlen es) page es ns).
Proof.
  intros Hwf Hi. cbn [wf_desc] in Hwf. rewrite !andb_true_iff in Hwf.
  destruct Hwf as [[[[[Hpage Hnum] Hes] Hlen] Hnn] Hnb].
  apply Nat.eqb_eq in Hlen. unfold unative in Hpage, Hnum.
  unfold parse_nt_file.
  rewrite (skipn_z_at img A _ (zlen A) Hi eq_refl).
  unfold encode_file. rewrite <- !app_assoc.
  rewrite Elf_Nt_File_head_spec.
  change (native (scfg_of c)) with (if c_is64 c then 8%nat else 4%nat) in *.
  change (s_le (scfg_of c)) with (c_le c).
  rewrite decode_two_uints by assumption.
  cbn [rev app].
  change (eval [("page_size", VZ page); ("num_map_entries", VZ (zlen es))] gen_nt_file_count_entries)
    with (zlen es).
  change (eval [("page_size", VZ page); ("num_map_entries", VZ (zlen es))] gen_nt_file_count_names)
    with (zlen es).
  rewrite Elf_Nt_File_entry_spec.
  rewrite parse_entries_ok; [| | exact Hes].
  2:{ rewrite app_length.
      pose proof (zlen_concat_ge (encode_entry (scfg_of c)) es) as Hge.
      assert (forall x, In x es -> (1 <= length (encode_entry (scfg_of c) x))%nat) as Hx.
      { intros x _. rewrite encode_entry_length. destruct (s_is64 (scfg_of c)) eqn:E; unfold native; rewrite E; lia. }
      specialize (Hge Hx). lia. }
  cbn [bind].
  replace (zlen es) with (zlen ns) at 1 by (unfold zlen; rewrite Hlen; reflexivity).
  rewrite parse_cstrings_ok; [| | exact Hnn].
  2:{ rewrite app_length.
      pose proof (zlen_concat_ge cstring_encode ns) as Hge.
      assert (forall x, In x ns -> (1 <= length (cstring_encode x))%nat) as Hx.
      { intros x _. unfold cstring_encode. rewrite app_length. cbn. lia. }
      specialize (Hge Hx). lia. }
  cbn [bind rec_z rec_get String.eqb Ascii.eqb Bool.eqb].
  rewrite map_entry_triple. reflexivity.
Qed.

(* ================================================================== all descriptor kinds *)
Theorem decode_desc_ok c d img (A R : list Z) :
  wf_desc (scfg_of c) d = true ->
  img = A ++ desc_bytes (scfg_of c) d ++ R ->
  decode_desc c img (desc_kind d) (zlen A) (zlen (desc_bytes (scfg_of c) d)) (desc_bytes (scfg_of c) d)
  = Ok (desc_view (scfg_of c) d).
Proof.
  intros Hwf Hi. destruct d as [bs|os ma mi ti|id|v|ps|vals|page es ns];
    cbn [desc_kind decode_desc desc_view desc_bytes wf_desc] in *.
  - reflexivity.
  - (* ABI tag *)
    rewrite !andb_true_iff in Hwf. destruct Hwf as [[[Ho Hma] Hmi] Hti].
    rewrite gen_Elf_abi_gabi.
    change (s_le (scfg_of c)) with (c_le c) in Hi.
    rewrite (struct_parse_at_ok (spec_Elf_abi (c_le c)) [VZ os; VZ ma; VZ mi; VZ ti] img A R (zlen A));
      [| | exact Hi | reflexivity].
    2:{ unfold fits_layout. cbn [fits_fields spec_Elf_abi nvals firstn skipn length fits_kind annot_kind rev app Nat.eqb andb].
        change (u32 os && (u32 ma && (u32 mi && (u32 ti && true))) = true).
        rewrite Ho, Hma, Hmi, Hti. reflexivity. }
    cbn [bind]. destruct (abi_os_table c) as [Ht Hs]. rewrite Ht, Hs, enum_field_pass. cbn [bind].
    reflexivity.
  - rewrite bytes2hex_spec by exact Hwf. reflexivity.
  - reflexivity.
  - (* property list *)
    rewrite (props_go_ok c ps (S (length img)) img A R); [reflexivity | | exact Hwf | exact Hi].
    assert (Hge : (length ps <= length (encode_props (scfg_of c) ps))%nat).
    { unfold encode_props. apply zlen_concat_ge. intros [p pad] _.
      unfold encode_prop. rewrite !app_length, !int_encode_length. lia. }
    rewrite Hi, !app_length. lia.
  - (* prpsinfo *)
    rewrite Elf_Prpsinfo_spec.
    rewrite (struct_parse_at_ok (prps_layout (scfg_of c)) vals img A R (zlen A) Hwf Hi eq_refl).
    reflexivity.
  - exact (parse_nt_file_ok c page es ns img A R Hwf Hi).
Qed.
