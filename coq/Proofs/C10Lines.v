(* Proofs/C10Lines.v — C10 refinement: the line-program cache (_linetable_cache) with the memoised
   entry list, and call-frame information. *)
From PV Require Import Spec.C10Spec Proofs.C10Base Proofs.C10Tree Proofs.C10Elf Proofs.C10Units.
From Coq Require Import ZArith List Bool Lia ZifyBool.
Import ListNotations.
Open Scope Z_scope.

Lemma find_nodup {A} (g : A -> Z) l x : znodup (map g l) = true -> In x l ->
  find (fun y => g y =? g x) l = Some x.
Proof.
  induction l as [|y r IH]; intros Hnd Hin; [destruct Hin|].
  cbn [map znodup] in Hnd. apply andb_prop in Hnd. destruct Hnd as [Hn Hnd]. cbn [find].
  destruct Hin as [->|Hin]; [rewrite Z.eqb_refl; reflexivity|].
  destruct (Z.eqb_spec (g y) (g x)) as [E|Hne]; [|auto].
  exfalso. apply negb_true_iff in Hn. apply znodup_notin in Hn. apply Hn. rewrite E. apply in_map. exact Hin.
Qed.

Lemma nth_upd_nth_other {A} n m (f : A -> A) l d : n <> m -> nth m (upd_nth n f l) d = nth m l d.
Proof.
  revert n m. induction l as [|y r IH]; intros [|n] [|m] H; cbn [upd_nth nth]; auto; congruence.
Qed.

Lemma apply_eff_tell eff sid : forall s, (forall p, In p eff -> fst p <> sid) ->
  exists c', apply_eff eff s = (set_cur s c', Ok tt) /\ length c' = length (cur s) /\ nth sid c' 0 = nth sid (cur s) 0.
Proof.
  induction eff as [|[sd pos] r IH]; intros s H; cbn [apply_eff].
  - exists (cur s). rewrite set_cur_same. repeat split.
  - unfold seek. rewrite bind_modify.
    destruct (IH (set_cur s (upd_nth sd (fun _ => pos) (cur s)))) as (c' & E & L & T).
    { intros p Hp. apply H. cbn; auto. }
    exists c'. rewrite E. cbn [cur set_cur] in *. split; [reflexivity|]. split; [rewrite L; apply upd_nth_length|].
    rewrite T. apply nth_upd_nth_other. apply (H (sd, pos)). cbn; auto.
Qed.

Section Lines.
  Set Default Proof Using "All".
  Variable F : file.
  Hypothesis WF : wf_file F = true.
  Variable fuel : nat.
  Hypothesis Hfuel : (length (f_units F) < fuel)%nat.
  Let P := parsers_of F.

  Lemma lines_facts k ld : zassoc k (f_lines F) = Some ld ->
    find (fun kv => ld_start (snd kv) =? ld_start ld) (f_lines F) = Some (k, ld) /\
    (forall p, In p (lr_eff (ld_raw ld)) -> fst p <> S_LINE).
  Proof.
    intros Hz. pose proof (wf_file_lines F WF) as W. unfold wf_lines in W.
    apply andb_prop in W. destruct W as [W1 W2]. apply zassoc_in in Hz. split.
    - apply (find_nodup (fun kv => ld_start (snd kv)) (f_lines F) (k, ld) W1 Hz).
    - rewrite forallb_forall in W2. specialize (W2 _ Hz). cbn [snd] in W2. rewrite forallb_forall in W2.
      intros p Hp E. specialize (W2 _ Hp). rewrite E in W2. discriminate.
  Qed.

  Lemma Inv_set_lines s c L : Inv F s -> length c = length (cur s) ->
    (forall k lp, dict_get Z.eqb L k = Some lp -> lp_ok F k lp) -> Inv F (set_lines (set_cur s c) L).
  Proof.
    intros [I1 I2 I3 I4 I5 I6 I7 I8 I9 I10 I11 I12 I13] Hl HL. constructor; scbn; auto. congruence.
  Qed.

  Lemma ext_set_lines s c L : ext s (set_lines (set_cur s c) L).
  Proof. split; [scbn; apply cus_mono_refl|]. split; [scbn; apply dies_mono_refl|reflexivity]. Qed.

  Lemma parse_line_program_ok s off cu_off ld : Inv F s -> zassoc off (f_lines F) = Some ld ->
    exists s' lp, parse_line_program_at_offset P off cu_off s = (s', Ok off) /\ Inv F s' /\ ext s s' /\
                  dict_get Z.eqb (lines s') off = Some lp.
  Proof.
    intros HI Hz. unfold parse_line_program_at_offset. rewrite bind_get_state.
    destruct (dict_get Z.eqb (lines s) off) as [lp|] eqn:Hd.
    - exists s, lp. split; [reflexivity|]. split; [exact HI|]. split; [apply ext_refl|exact Hd].
    - destruct (lines_facts _ _ Hz) as [_ Heff].
      assert (Hsid : (S_LINE < length (cur s))%nat) by (apply (sid_ok F WF fuel Hfuel); auto; unfold S_LINE, NSTREAMS; lia).
      assert (Hp : p_lphdr P cu_off off = Ok (ld_raw ld, ld_start ld)) by (unfold P; pcbn; rewrite Hz; reflexivity).
      destruct (seek_parse_tell (p_lphdr P cu_off) S_LINE off s _ _ Hsid Hp) as (c1 & E1 & L1 & T1).
      unfold struct_parse. rewrite (bind_ok _ _ _ _ _ E1).
      destruct (apply_eff_tell (lr_eff (ld_raw ld)) S_LINE (set_cur s c1) Heff) as (c2 & E2 & L2 & T2).
      rewrite (bind_ok _ _ _ _ _ E2), bind_tell, bind_modify. scbn. cbn [cur set_cur] in T2, L2. rewrite T2, T1.
      set (lp := mk_lp (ld_raw ld) cu_off (ld_start ld) (lr_files (ld_raw ld)) None).
      exists (set_lines (set_cur s c2) (dict_set Z.eqb (lines s) off lp)), lp.
      split; [reflexivity|]. split; [|split].
      + apply Inv_set_lines; [exact HI|congruence|]. intros k lp' Hk. destruct (Z.eq_dec k off) as [->|Hne].
        * rewrite (dict_get_set_same Z.eqb Z.eqb_eq) in Hk. inversion Hk. subst lp'.
          exists ld. repeat split; auto.
        * rewrite (dict_get_set_other Z.eqb Z.eqb_eq) in Hk by exact Hne. apply (inv_lines _ _ HI _ _ Hk).
      + apply ext_set_lines.
      + scbn. apply (dict_get_set_same Z.eqb Z.eqb_eq).
  Qed.

  (* line_program_for_CU: None when the top entry has no DW_AT_stmt_list, else the cache key *)
  Lemma line_program_for_CU_ok s cu u ud : Inv F s -> cu_at s cu u -> unit_at F u = Some ud ->
    exists s', line_program_for_CU P cu s = (s', Ok (dr_stmt (node_raw (ud_tree ud)))) /\ Inv F s' /\ ext s s' /\
      forall off, dr_stmt (node_raw (ud_tree ud)) = Some off ->
        exists lp ld, dict_get Z.eqb (lines s') off = Some lp /\ zassoc off (f_lines F) = Some ld.
  Proof.
    intros HI Hat Hu. destruct (cu_at_facts F WF fuel Hfuel _ _ _ HI Hat) as (c & ud' & Hc & Eo & Hu' & Eh & Ed & Hw).
    assert (ud' = ud) by congruence. subst ud'.
    unfold line_program_for_CU.
    destruct (get_top_DIE_ok F WF fuel Hfuel s cu c HI Hc) as (s1 & top & E1 & HI1 & X1 & Htop & _).
    rewrite (bind_ok _ _ _ _ _ E1).
    destruct (die_facts F WF fuel Hfuel _ _ _ _ HI1 Htop) as (d & c1 & e & Hd & Hc1 & Eo1 & Eod & He & Hr).
    rewrite (bind_get_die _ _ _ _ Hd).
    destruct (top_entry F WF _ Hw) as (e' & Hz' & Hraw & _).
    assert (e' = e).
    { unfold entry_at in He. rewrite Eo, Hu in He. rewrite Ed in He. congruence. }
    subst e'. rewrite Hr, Hraw.
    destruct (dr_stmt (node_raw (ud_tree ud))) as [off|] eqn:Es.
    - destruct (wf_unit_facts F WF _ Hw) as (_ & _ & _ & _ & _ & _ & _ & Hl). destruct (Hl off Es) as (ld & Hld).
      destruct X1 as (XA & XB & XF). destruct (XA _ _ Hc) as (c' & Hc' & _).
      rewrite (bind_get_cu _ _ _ _ Hc').
      destruct (parse_line_program_ok s1 off (c_off c') ld HI1 Hld) as (s2 & lp & E2 & HI2 & X2 & Hlp).
      rewrite (bind_ok _ _ _ _ _ E2). exists s2. split; [reflexivity|]. split; [exact HI2|].
      split; [eapply ext_trans; [|exact X2]; repeat split; auto|].
      intros off' E. inversion E. subst off'. eauto.
    - exists s1. split; [reflexivity|]. split; [exact HI1|]. split; [exact X1|]. intros off E. discriminate.
  Qed.

  Lemma lp_get_entries_ok s key lp ld : Inv F s -> dict_get Z.eqb (lines s) key = Some lp ->
    zassoc key (f_lines F) = Some ld ->
    exists s', lp_get_entries P key s = (s', Ok (lb_pid (ld_body ld))) /\ Inv F s' /\ ext s s'.
  Proof.
    intros HI Hd Hz. unfold lp_get_entries.
    assert (Hget : get_lp key s = (s, Ok lp)) by (unfold get_lp; rewrite bind_get_state, Hd; reflexivity).
    rewrite (bind_ok _ _ _ _ _ Hget).
    destruct (inv_lines _ _ HI _ _ Hd) as (ld' & Hz' & Eraw & Estart & Hent).
    assert (ld' = ld) by congruence. subst ld'.
    destruct (l_entries lp) as [e|] eqn:Ee.
    - destruct Hent as [-> _]. exists s. split; [reflexivity|]. split; [exact HI|apply ext_refl].
    - destruct (lines_facts _ _ Hz) as [Hfind _].
      assert (Hp : p_lpbody P (l_cu lp) (lr_end (l_raw lp)) (l_start lp) = Ok (ld_body ld, ld_body_end ld)).
      { unfold P. pcbn. rewrite Estart, Hfind. reflexivity. }
      assert (Hb : exists c', (if l_start lp <? lr_end (l_raw lp)
                  then seek S_LINE (l_start lp);;; parse_stream (p_lpbody P (l_cu lp) (lr_end (l_raw lp))) S_LINE
                  else lift match p_lpbody P (l_cu lp) (lr_end (l_raw lp)) (l_start lp) with
                            | Ok (b, _) => Ok b | Err e => Err e end) s = (set_cur s c', Ok (ld_body ld)) /\
                  length c' = length (cur s)).
      { destruct (l_start lp <? lr_end (l_raw lp)).
        - assert (Hsid : (S_LINE < length (cur s))%nat) by (apply (sid_ok F WF fuel Hfuel); auto; unfold S_LINE, NSTREAMS; lia).
          pose proof (cur_only_seek_parse (p_lpbody P (l_cu lp) (lr_end (l_raw lp))) S_LINE (l_start lp) s Hsid) as X.
          rewrite Hp in X. exact X.
        - rewrite Hp. exists (cur s). rewrite set_cur_same. split; reflexivity. }
      destruct Hb as (c' & Eb & Lb). rewrite (bind_ok _ _ _ _ _ Eb), bind_modify. scbn.
      eexists. split; [reflexivity|]. split; [|apply ext_set_lines].
      apply Inv_set_lines; [exact HI|exact Lb|]. intros k lp' Hk. destruct (Z.eq_dec k key) as [->|Hne].
      + rewrite (dict_get_set_same Z.eqb Z.eqb_eq) in Hk. inversion Hk. subst lp'.
        exists ld. cbn [l_raw l_start l_entries l_files]. repeat split; auto. congruence.
      + rewrite (dict_get_set_other Z.eqb Z.eqb_eq) in Hk by exact Hne. apply (inv_lines _ _ HI _ _ Hk).
  Qed.

  Lemma cfi_entries_ok s (eh : bool) v e : Inv F s -> (if eh then f_ehcfi F else f_cfi F) = Some (v, e) ->
    cur_only (cfi_entries P eh) s (Ok v).
  Proof.
    intros HI Hv. unfold cfi_entries.
    assert (Hsid : ((if eh then S_EH else S_FRAME) < length (cur s))%nat).
    { apply (sid_ok F WF fuel Hfuel); auto. destruct eh; unfold S_EH, S_FRAME, NSTREAMS; lia. }
    pose proof (cur_only_seek_parse (p_cfi P eh) (if eh then S_EH else S_FRAME) 0 s Hsid) as X.
    assert (Hp : p_cfi P eh 0 = Ok (v, e)) by (unfold P; pcbn; rewrite Hv; reflexivity).
    rewrite Hp in X. exact X.
  Qed.
End Lines.
