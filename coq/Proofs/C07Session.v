(* Proofs/C07Session.v — the stateful model (Model/C07Session.v: stream cursors of the v5 list
   sections, per-unit DIE caches, consumer actions between the yields of a generator) against the
   position-passing functions of Model/C07Lists.v:
   - looking an index up in a unit's offset table returns the stream where it was, so parsing DIEs
     (first time or cached, top DIE only / a prefix / all) never moves a list-section cursor;
   - every reachable session state keeps the DIE caches equal to what translate_die gives;
   - each enumeration, started in any such state and with any consumer actions between its yields
     that do not move the cursor it reads from, yields exactly what the pure function yields; and
     from any such state the uninterrupted enumeration succeeds whenever the pure function does. *)
From Coq Require Import String.
From PV Require Import Base.Bytes Base.Outcome Base.Prim Base.PyData Model.C07Kinds Model.C07Lists
  Model.C07Session Model.C07Inst Gen.C07Tables Spec.C07Lists.
From Coq Require Import ZArith List Bool Lia PeanoNat.
Import ListNotations.
Open Scope string_scope.
Open Scope list_scope.
Open Scope Z_scope.

(* ------------------------------------------------------------------ generic: mapM, firstn/skipn *)
Lemma mapM_app {A B} (f : A -> res B) (a b : list A) :
  mapM f (a ++ b) = do x <- mapM f a; do y <- mapM f b; Ok (x ++ y).
Proof.
  induction a as [|h t IH]; cbn [mapM app bind].
  - destruct (mapM f b); reflexivity.
  - destruct (f h) as [y|e]; cbn [bind]; [|reflexivity].
    rewrite IH. destruct (mapM f t) as [ys|e]; cbn [bind]; [|reflexivity].
    destruct (mapM f b) as [zs|e]; cbn [bind]; reflexivity.
Qed.

Lemma mapM_length {A B} (f : A -> res B) : forall l r, mapM f l = Ok r -> length r = length l.
Proof.
  induction l as [|h t IH]; intros r H; cbn [mapM bind] in H.
  - inversion H. reflexivity.
  - destruct (f h) as [y|e]; cbn [bind] in H; [|discriminate].
    destruct (mapM f t) as [ys|e] eqn:E; cbn [bind] in H; [|discriminate].
    inversion H. cbn [length]. rewrite (IH ys eq_refl). reflexivity.
Qed.

Lemma firstn_skipn_max {A} (l : list A) m n :
  (firstn m l ++ skipn m (firstn n l) = firstn (Nat.max m n) l)%list.
Proof.
  destruct (Nat.le_gt_cases n m) as [H|H].
  - rewrite skipn_all2 by (rewrite firstn_length; lia).
    rewrite Nat.max_l by lia. apply app_nil_r.
  - rewrite Nat.max_r by lia.
    rewrite <- (firstn_skipn m (firstn n l)) at 2.
    rewrite firstn_firstn. rewrite Nat.min_l by lia. reflexivity.
Qed.

Lemma firstn_length_firstn {A} (l : list A) a : firstn (length (firstn a l)) l = firstn a l.
Proof.
  rewrite firstn_length. destruct (Nat.min_spec a (length l)) as [[_ E]|[H E]]; rewrite E; [reflexivity|].
  rewrite !firstn_all2 by lia. reflexivity.
Qed.

(* ------------------------------------------------------------------ A. the offset-table lookup
   returns the stream where it found it *)
Theorem resolve_cur_eq le stream cu index base cur :
  resolve_via_offset_table_cur le stream cu index base cur
  = do v <- resolve_via_offset_table le stream cu index base; Ok (v, cur).
Proof.
  unfold resolve_via_offset_table_cur, resolve_via_offset_table, preserve_stream_pos, parse_offset_at.
  destruct (get_base_offset base) as [b|e]; cbn [bind]; [|reflexivity].
  destruct (uint_decode le _ _) as [[v r]|]; reflexivity.
Qed.

Lemma attr_value_cur_eq S cv a c :
  attr_value_cur S cv a c = do v <- attr_value S cv a; Ok (v, c).
Proof.
  unfold attr_value_cur, attr_value. destruct c as [ll rl]. cbn [fst snd].
  destruct (a_raw a) as [raw|b]; [|reflexivity].
  destruct (String.eqb (a_form a) "DW_FORM_loclistx").
  - destruct (s_loclists S) as [st|]; [|reflexivity].
    rewrite resolve_cur_eq. destruct (resolve_via_offset_table _ _ _ _ _); reflexivity.
  - destruct (String.eqb (a_form a) "DW_FORM_rnglistx"); [|reflexivity].
    destruct (s_rnglists S) as [st|]; [|reflexivity].
    rewrite resolve_cur_eq. destruct (resolve_via_offset_table _ _ _ _ _); reflexivity.
Qed.

Lemma translate_die_cur_eq S cv : forall die c,
  translate_die_cur S cv die c = do v <- translate_die S cv die; Ok (v, c).
Proof.
  unfold translate_die.
  induction die as [|a r IH]; intros c; cbn [translate_die_cur mapM bind]; [reflexivity|].
  rewrite attr_value_cur_eq. destruct (attr_value S cv a) as [v|e]; cbn [bind]; [|reflexivity].
  rewrite IH. destruct (mapM _ r) as [vs|e]; reflexivity.
Qed.

Lemma parse_dies_cur_eq S cv : forall dies c,
  parse_dies_cur S cv dies c = do vs <- mapM (translate_die S cv) dies; Ok (vs, c).
Proof.
  induction dies as [|d r IH]; intros c; cbn [parse_dies_cur mapM bind]; [reflexivity|].
  rewrite translate_die_cur_eq. destruct (translate_die S cv d) as [v|e]; cbn [bind]; [|reflexivity].
  rewrite IH. destruct (mapM _ r) as [vs|e]; reflexivity.
Qed.

(* ------------------------------------------------------------------ B. DIE caches *)
(* the cache of a unit holds the translations of a prefix of its DIEs *)
Definition cache_ok (S : sections) (cv : cuview) (cached : list vdie) : Prop :=
  mapM (translate_die S cv) (firstn (length cached) (cv_dies cv)) = Ok cached.

Lemma ensure_parsed_eq S cv n cached c :
  cache_ok S cv cached ->
  ensure_parsed S cv n cached c
  = do all <- mapM (translate_die S cv) (firstn (Nat.max (length cached) n) (cv_dies cv)); Ok (all, c).
Proof.
  intros Hok. unfold ensure_parsed. rewrite parse_dies_cur_eq.
  rewrite <- firstn_skipn_max, mapM_app. unfold cache_ok in Hok. rewrite Hok. cbn [bind].
  destruct (mapM _ (skipn _ _)) as [new|e]; reflexivity.
Qed.

Lemma ensure_parsed_ok S cv n cached c dies c' :
  cache_ok S cv cached -> ensure_parsed S cv n cached c = Ok (dies, c') ->
  c' = c /\ cache_ok S cv dies
  /\ ((length (cv_dies cv) <= n)%nat -> mapM (translate_die S cv) (cv_dies cv) = Ok dies).
Proof.
  intros Hok H. rewrite (ensure_parsed_eq S cv n cached c Hok) in H.
  destruct (mapM _ _) as [all|e] eqn:E; cbn [bind] in H; [|discriminate].
  inversion H; subst. split; [reflexivity|]. split.
  - unfold cache_ok. rewrite (mapM_length _ _ _ E), firstn_length_firstn. exact E.
  - intros Hn. rewrite firstn_all2 in E by lia. exact E.
Qed.

Definition consistent (S : sections) (cus : list cuview) (caches : list (list vdie)) : Prop :=
  Forall2 (cache_ok S) cus caches.

Lemma consistent_fresh S cus : consistent S cus (ss_dies (fresh cus)).
Proof.
  unfold consistent, fresh. cbn [ss_dies].
  induction cus as [|cv r IH]; cbn [map]; constructor; [reflexivity|exact IH].
Qed.

Lemma consistent_upd S cus caches k cv dies :
  consistent S cus caches -> nth_error cus k = Some cv -> cache_ok S cv dies ->
  consistent S cus (upd_nth k dies caches).
Proof.
  unfold consistent. intros H. revert k.
  induction H as [|cv' ca cus' caches' Hc Hr IH]; intros k Hk Hd.
  - destruct k; discriminate.
  - destruct k as [|k']; cbn [upd_nth nth_error] in *.
    + inversion Hk; subst. constructor; assumption.
    + constructor; [assumption|]. apply IH; assumption.
Qed.

Lemma consistent_nth S cus caches k cv :
  consistent S cus caches -> nth_error cus k = Some cv -> cache_ok S cv (nth k caches []).
Proof.
  unfold consistent. intros H. revert k.
  induction H as [|cv' ca cus' caches' Hc Hr IH]; intros k Hk.
  - destruct k; discriminate.
  - destruct k as [|k']; cbn [nth nth_error] in *.
    + inversion Hk; subst. assumption.
    + apply IH. assumption.
Qed.

(* what "for cu in iter_CUs(): [if want(cu):] for die in cu.iter_DIEs()" leaves: the cursors where
   they were, the caches of the wanted units complete *)
Definition full_for (S : sections) (want : cuview -> bool) (cv : cuview) (dies : list vdie) : Prop :=
  want cv = true -> mapM (translate_die S cv) (cv_dies cv) = Ok dies.

Lemma parse_units_ok S want : forall cus caches c caches' c',
  consistent S cus caches -> parse_units S want cus caches c = Ok (caches', c') ->
  c' = c /\ consistent S cus caches' /\ Forall2 (full_for S want) cus caches'.
Proof.
  unfold consistent.
  induction cus as [|cv r IH]; intros caches c caches' c' Hc H; cbn [parse_units] in H.
  - inversion H; subst. repeat split; constructor.
  - inversion Hc as [|? ca ? car Hca Hcr]; subst. cbn [hd tl] in H.
    destruct (want cv) eqn:W.
    + destruct (ensure_parsed S cv _ ca c) as [[dies c1]|e] eqn:E; cbn [bind] in H; [|discriminate].
      destruct (ensure_parsed_ok _ _ _ _ _ _ _ Hca E) as (-> & Hd & Hfull).
      destruct (parse_units S want r car c) as [[more c2]|e] eqn:E2; cbn [bind] in H; [|discriminate].
      inversion H; subst. destruct (IH _ _ _ _ Hcr E2) as (-> & Hm & Hf).
      repeat split; constructor; auto. intros _. apply Hfull. lia.
    + cbn [bind] in H.
      destruct (parse_units S want r car c) as [[more c2]|e] eqn:E2; cbn [bind] in H; [|discriminate].
      inversion H; subst. destruct (IH _ _ _ _ Hcr E2) as (-> & Hm & Hf).
      repeat split; constructor; auto. intros W'. rewrite W in W'. discriminate.
Qed.

(* and it succeeds whenever the DIEs of the wanted units translate *)
Lemma parse_units_total S want : forall cus caches c,
  consistent S cus caches ->
  (forall cv, In cv cus -> want cv = true -> exists dies, mapM (translate_die S cv) (cv_dies cv) = Ok dies) ->
  exists caches', parse_units S want cus caches c = Ok (caches', c).
Proof.
  unfold consistent.
  induction cus as [|cv r IH]; intros caches c Hc Ht; cbn [parse_units].
  - eexists. reflexivity.
  - inversion Hc as [|? ca ? car Hca Hcr]; subst. cbn [hd tl].
    destruct (IH car c Hcr) as (more & Hm). { intros cv' Hin. apply Ht. right. exact Hin. }
    destruct (want cv) eqn:W.
    + rewrite (ensure_parsed_eq S cv _ ca c Hca).
      destruct (Ht cv (or_introl eq_refl) W) as (dies & Hd).
      rewrite firstn_all2 by lia. rewrite Hd. cbn [bind]. rewrite Hm. cbn [bind]. eexists. reflexivity.
    + cbn [bind]. rewrite Hm. cbn [bind]. eexists. reflexivity.
Qed.

(* ------------------------------------------------------------------ C. actions on a session *)
Lemma ss_ll_set_ll p s : ss_ll (set_ll p s) = p.
Proof. reflexivity. Qed.
Lemma ss_rl_set_rl p s : ss_rl (set_rl p s) = p.
Proof. reflexivity. Qed.
Lemma ss_ll_set_rl p s : ss_ll (set_rl p s) = ss_ll s.
Proof. reflexivity. Qed.
Lemma ss_rl_set_ll p s : ss_rl (set_ll p s) = ss_rl s.
Proof. reflexivity. Qed.

(* fmap fst *)
Definition value_of {A B} (r : res (A * B)) : res A := do x <- r; Ok (fst x).

Lemma value_of_ok {A B} (r : res (A * B)) a b : r = Ok (a, b) -> value_of r = Ok a.
Proof. intros ->. reflexivity. Qed.

Lemma value_of_inv {A B} (r : res (A * B)) a : value_of r = Ok a -> exists b, r = Ok (a, b).
Proof.
  unfold value_of. destruct r as [[a' b]|e]; cbn [bind fst]; intros H; inversion H. eauto.
Qed.

(* what a consumer's code between two yields may be assumed to do *)
Definition hook_inv (P : sess -> Prop) (h : hook) : Prop :=
  forall s e s', P s -> h s = Ok (e, s') -> P s'.
Definition hook_keeps (P : sess -> Prop) (proj : sess -> Z) (h : hook) : Prop :=
  forall s e s', P s -> h s = Ok (e, s') -> P s' /\ proj s' = proj s.
Definition hook_total (P : sess -> Prop) (proj : sess -> Z) (h : hook) : Prop :=
  forall s, P s -> exists e s', h s = Ok (e, s') /\ P s' /\ proj s' = proj s.

Lemma hook_keeps_inv P proj h : hook_keeps P proj h -> hook_inv P h.
Proof. intros H s e s' Hp Hh. exact (proj1 (H s e s' Hp Hh)). Qed.

Lemma next_hook_inv P hooks : Forall (hook_inv P) hooks -> hook_inv P (next_hook hooks).
Proof.
  intros H. destruct H as [|h r Hh Hr]; cbn [next_hook]; [|exact Hh].
  intros s e s' Hp E. inversion E; subst. exact Hp.
Qed.
Lemma next_hook_keeps P proj hooks : Forall (hook_keeps P proj) hooks -> hook_keeps P proj (next_hook hooks).
Proof.
  intros H. destruct H as [|h r Hh Hr]; cbn [next_hook]; [|exact Hh].
  intros s e s' Hp E. inversion E; subst. auto.
Qed.
Lemma next_hook_total P proj hooks : Forall (hook_total P proj) hooks -> hook_total P proj (next_hook hooks).
Proof.
  intros H. destruct H as [|h r Hh Hr]; cbn [next_hook]; [|exact Hh].
  intros s Hp. exists [], s. auto.
Qed.
Lemma Forall_tl {A} (P : A -> Prop) l : Forall P l -> Forall P (tl l).
Proof. intros H. destruct H; cbn [tl]; auto. Qed.

Section Sess.
  Variables (TL TR : entry_tables) (LL LR : hlayout) (lv : operands).
  Variable S : sections.
  Variable cus : list cuview.

  (* the invariant of every reachable state *)
  Definition good (s : sess) : Prop := consistent S cus (ss_dies s).

  Lemma good_fresh : good (fresh cus).
  Proof. apply consistent_fresh. Qed.
  Lemma good_set_ll p s : good s -> good (set_ll p s).
  Proof. exact (fun H => H). Qed.
  Lemma good_set_rl p s : good s -> good (set_rl p s).
  Proof. exact (fun H => H). Qed.

  (* DIE parsing: cursors untouched, caches stay consistent *)
  Theorem act_parse_ok k n s s' :
    good s -> act_parse S cus k n s = Ok s' -> ss_cur s' = ss_cur s /\ good s'.
  Proof.
    unfold act_parse, good. intros Hg H.
    destruct (nth_error cus k) as [cv|] eqn:Ek; [|discriminate].
    destruct (ensure_parsed S cv n _ _) as [[dies c]|e] eqn:E; cbn [bind] in H; [|discriminate].
    inversion H; subst. cbn [ss_cur ss_dies].
    destruct (ensure_parsed_ok _ _ _ _ _ _ _ (consistent_nth _ _ _ _ _ Hg Ek) E) as (-> & Hd & _).
    split; [reflexivity|]. eapply consistent_upd; eauto.
  Qed.

  (* ---- by-offset fetches: the value is the pure function's, only the section's own cursor moves *)
  Lemma get_loc_sess_value version offset cu s :
    value_of (get_loc_sess TL S version offset cu s)
    = get_location_list_at_offset TL S version (loc_stream S version) offset cu.
  Proof.
    unfold get_loc_sess, get_location_list_at_offset, value_of.
    destruct (5 <=? version).
    - destruct cu as [cu|]; [|reflexivity].
      destruct (parse_list_v5 _ _ _ _ _ _) as [[ts rest]|e]; reflexivity.
    - destruct (parse_loc_v4 _ _ _ _ _) as [ts|e]; reflexivity.
  Qed.

  Lemma get_loc_sess_state version offset cu s ts s' :
    get_loc_sess TL S version offset cu s = Ok (ts, s') ->
    ss_dies s' = ss_dies s /\ ss_rl s' = ss_rl s /\ ((5 <=? version) = false -> ss_cur s' = ss_cur s).
  Proof.
    unfold get_loc_sess. destruct (5 <=? version).
    - destruct cu as [cu|]; [|discriminate].
      destruct (parse_list_v5 _ _ _ _ _ _) as [[ts' rest]|e]; cbn [bind]; [|discriminate].
      intros H. inversion H; subst. repeat split. discriminate.
    - destruct (parse_loc_v4 _ _ _ _ _) as [ts'|e]; cbn [bind]; [|discriminate].
      intros H. inversion H; subst. auto.
  Qed.

  Lemma get_rng_sess_value version offset cu s :
    value_of (get_rng_sess TR S version offset cu s)
    = get_range_list_at_offset TR S version (rng_stream S version) offset cu.
  Proof.
    unfold get_rng_sess, get_range_list_at_offset, value_of.
    destruct (5 <=? version).
    - destruct (parse_list_v5 _ _ _ _ _ _) as [[ts rest]|e]; reflexivity.
    - destruct (parse_rng_v4 _ _ _ _ _) as [ts|e]; reflexivity.
  Qed.

  Lemma get_rng_sess_state version offset cu s ts s' :
    get_rng_sess TR S version offset cu s = Ok (ts, s') ->
    ss_dies s' = ss_dies s /\ ss_ll s' = ss_ll s /\ ((5 <=? version) = false -> ss_cur s' = ss_cur s).
  Proof.
    unfold get_rng_sess. destruct (5 <=? version).
    - destruct (parse_list_v5 _ _ _ _ _ _) as [[ts' rest]|e]; cbn [bind]; [|discriminate].
      intros H. inversion H; subst. repeat split. discriminate.
    - destruct (parse_rng_v4 _ _ _ _ _) as [ts'|e]; cbn [bind]; [|discriminate].
      intros H. inversion H; subst. auto.
  Qed.

  Lemma get_rng_ex_sess_value offset s :
    value_of (get_rng_ex_sess TR S offset s)
    = get_range_list_at_offset_ex TR S (rng_stream S 5) offset.
  Proof.
    unfold get_rng_ex_sess, get_range_list_at_offset_ex, value_of.
    destruct (parse_entries _ _ _ _ _ _) as [[es rest]|e]; reflexivity.
  Qed.

  Lemma get_rng_ex_sess_state offset s es s' :
    get_rng_ex_sess TR S offset s = Ok (es, s') -> ss_dies s' = ss_dies s /\ ss_ll s' = ss_ll s.
  Proof.
    unfold get_rng_ex_sess.
    destruct (parse_entries _ _ _ _ _ _) as [[es' rest]|e]; cbn [bind]; [|discriminate].
    intros H. inversion H; subst. auto.
  Qed.

  (* ---- every simple action keeps the invariant; it moves a cursor only if act_moves_* says so *)
  Lemma run_act_ok a s e s' :
    good s -> run_act TL TR S cus a s = Ok (e, s') ->
    good s' /\ (act_moves_ll S cus a = false -> ss_ll s' = ss_ll s)
            /\ (act_moves_rl S cus a = false -> ss_rl s' = ss_rl s).
  Proof.
    intros Hg H. destruct a as [k n|k d name|offset]; cbn [run_act] in H.
    - destruct (act_parse S cus k n s) as [s1|e1] eqn:E; cbn [bind] in H; [|discriminate].
      inversion H; subst. destruct (act_parse_ok _ _ _ _ Hg E) as (Hc & Hg').
      unfold ss_ll, ss_rl. rewrite Hc. auto.
    - unfold act_fetch in H.
      destruct (act_parse S cus k (Datatypes.S d) s) as [s1|e1] eqn:E; cbn [bind] in H; [|discriminate].
      destruct (act_parse_ok _ _ _ _ Hg E) as (Hc & Hg1).
      destruct (nth_error cus k) as [cv|] eqn:Ek; [|discriminate].
      destruct (nth_error (nth k (ss_dies s1) []) d) as [die|]; [|discriminate].
      destruct (vdie_get die name) as [[form v]|]; [|discriminate].
      destruct (aval_int v) as [off|e1]; cbn [bind] in H; [|discriminate].
      cbn [act_moves_ll act_moves_rl]. unfold fetch_is_v5. rewrite Ek.
      destruct (String.eqb name "DW_AT_ranges"); cbn [negb andb].
      + destruct (obj_version _ _) as [version|e1]; cbn [bind] in H; [|discriminate].
        destruct (get_rng_sess TR S version off _ s1) as [[ts s2]|e1] eqn:E2; cbn [bind] in H; [|discriminate].
        inversion H; subst. destruct (get_rng_sess_state _ _ _ _ _ _ E2) as (Hd & Hl & Hv4).
        unfold good. rewrite Hd. split; [exact Hg1|]. split.
        * intros _. rewrite Hl. unfold ss_ll. rewrite Hc. reflexivity.
        * intros Hv. unfold ss_rl. rewrite (Hv4 Hv), Hc. reflexivity.
      + destruct (classify_attribute name form (cv_version cv) =? 2); [|discriminate].
        destruct (obj_version _ _) as [version|e1]; cbn [bind] in H; [|discriminate].
        destruct (get_loc_sess TL S version off _ s1) as [[ts s2]|e1] eqn:E2; cbn [bind] in H; [|discriminate].
        inversion H; subst. destruct (get_loc_sess_state _ _ _ _ _ _ E2) as (Hd & Hr & Hv4).
        unfold good. rewrite Hd. split; [exact Hg1|]. split.
        * intros Hv. unfold ss_ll. rewrite (Hv4 Hv), Hc. reflexivity.
        * intros _. rewrite Hr. unfold ss_rl. rewrite Hc. reflexivity.
    - destruct (get_rng_ex_sess TR S offset s) as [[es s1]|e1] eqn:E; cbn [bind] in H; [|discriminate].
      inversion H; subst. destruct (get_rng_ex_sess_state _ _ _ _ E) as (Hd & Hl).
      unfold good. rewrite Hd. split; [exact Hg|]. split; [auto|]. cbn [act_moves_rl]. discriminate.
  Qed.

  Lemma run_acts_ok : forall l s e s',
    good s -> run_acts TL TR S cus l s = Ok (e, s') ->
    good s' /\ (forallb (fun a => negb (act_moves_ll S cus a)) l = true -> ss_ll s' = ss_ll s)
            /\ (forallb (fun a => negb (act_moves_rl S cus a)) l = true -> ss_rl s' = ss_rl s).
  Proof.
    induction l as [|a r IH]; intros s e s' Hg H; cbn [run_acts] in H.
    - inversion H; subst. auto.
    - destruct (run_act TL TR S cus a s) as [[e1 s1]|x] eqn:E1; cbn [bind] in H; [|discriminate].
      destruct (run_acts TL TR S cus r s1) as [[e2 s2]|x] eqn:E2; cbn [bind] in H; [|discriminate].
      inversion H; subst.
      destruct (run_act_ok _ _ _ _ Hg E1) as (Hg1 & Hl1 & Hr1).
      destruct (IH _ _ _ Hg1 E2) as (Hg2 & Hl2 & Hr2).
      split; [exact Hg2|]. cbn [forallb]. split; intros Hq; apply andb_true_iff in Hq; destruct Hq as [Ha Hq].
      + rewrite (Hl2 Hq). apply Hl1. apply negb_true_iff. exact Ha.
      + rewrite (Hr2 Hq). apply Hr1. apply negb_true_iff. exact Ha.
  Qed.

  (* the hooks a schedule denotes *)
  Lemma sched_hooks_inv sched : Forall (hook_inv good) (map (run_acts TL TR S cus) sched).
  Proof.
    apply Forall_forall. intros h Hin. apply in_map_iff in Hin. destruct Hin as (l & <- & _).
    intros s e s' Hg H. exact (proj1 (run_acts_ok _ _ _ _ Hg H)).
  Qed.
  Lemma sched_hooks_keep_ll sched :
    sched_quiet (act_moves_ll S cus) sched = true ->
    Forall (hook_keeps good ss_ll) (map (run_acts TL TR S cus) sched).
  Proof.
    intros Hq. apply Forall_forall. intros h Hin. apply in_map_iff in Hin. destruct Hin as (l & <- & Hl).
    unfold sched_quiet in Hq. rewrite forallb_forall in Hq. specialize (Hq l Hl).
    intros s e s' Hg H. destruct (run_acts_ok _ _ _ _ Hg H) as (Hg' & Hll & _). auto.
  Qed.
  Lemma sched_hooks_keep_rl sched :
    sched_quiet (act_moves_rl S cus) sched = true ->
    Forall (hook_keeps good ss_rl) (map (run_acts TL TR S cus) sched).
  Proof.
    intros Hq. apply Forall_forall. intros h Hin. apply in_map_iff in Hin. destruct Hin as (l & <- & Hl).
    unfold sched_quiet in Hq. rewrite forallb_forall in Hq. specialize (Hq l Hl).
    intros s e s' Hg H. destruct (run_acts_ok _ _ _ _ Hg H) as (Hg' & _ & Hrl). auto.
  Qed.
End Sess.

(* ------------------------------------------------------------------ D. the generators *)
Section Loops.
  Variables (TL TR : entry_tables) (LL LR : hlayout) (lv : operands).
  Variable S : sections.
  Variable cus : list cuview.
  Let good := good S cus.

  (* ---- v5 iter_location_lists: reads at the cursor; exact when the consumer leaves it alone *)
  Lemma loc5_sess_sound : forall fuel sc cu_end offs hooks s ys s',
    Forall (hook_keeps good ss_ll) hooks -> good s ->
    loc5_sess TL LL lv S fuel sc cu_end offs hooks s = Ok (ys, s') ->
    loc5_loop fuel TL LL lv S (loc_stream S 5) sc (ss_ll s) cu_end offs = Ok (map fst ys) /\ good s'.
  Proof.
    induction fuel as [|f IH]; intros sc cu_end offs hooks s ys s' Hh Hg H; [discriminate|].
    cbn [loc5_sess] in H. cbn [loc5_loop].
    destruct cu_end as [cu_end_offset|].
    - destruct (in_block (ss_ll s) cu_end_offset offs).
      + destruct (match offs with o :: _ => o | [] => cu_end_offset end =? ss_ll s).
        * destruct (parse_locview_pairs _ _ _ _ _) as [[pairs bs1]|e]; cbn [bind] in H |- *; [|discriminate].
          destruct (PyData.dict_get _ _ _) as [cv|]; [|discriminate].
          destruct (parse_list_v5 _ _ _ _ _ _) as [[entries bs2]|e]; cbn [bind] in H |- *; [|discriminate].
          destruct (next_hook hooks _) as [[hev s2]|e] eqn:EH; cbn [bind] in H; [|discriminate].
          destruct (loc5_sess _ _ _ _ f _ _ _ _ s2) as [[more s3]|e] eqn:ER; cbn [bind] in H; [|discriminate].
          inversion H; subst.
          destruct (next_hook_keeps _ _ _ Hh _ _ _ (good_set_ll S cus _ _ Hg) EH) as (Hg2 & Hl2).
          rewrite ss_ll_set_ll in Hl2.
          destruct (IH _ _ _ _ _ _ _ (Forall_tl _ _ Hh) Hg2 ER) as (Hloop & Hg3).
          rewrite Hl2 in Hloop. rewrite Hloop. cbn [bind map fst]. auto.
        * apply (IH _ _ _ _ _ _ _ Hh (good_set_ll S cus _ _ Hg)) in H. rewrite ss_ll_set_ll in H. exact H.
      + apply (IH _ _ _ _ _ _ _ Hh Hg) in H. exact H.
    - destruct (ss_ll s <? zlen (loc_stream S 5)).
      + destruct (parse_hdr _ _ _ _ _) as [[h rest]|e]; cbn [bind] in H |- *; [|discriminate].
        destruct (cint h "version") as [ver|e]; cbn [bind] in H |- *; [|discriminate].
        destruct (ver =? 5); [|discriminate].
        destruct (cint h "offset_after_length") as [oal|e]; cbn [bind] in H |- *; [|discriminate].
        destruct (cint h "unit_length") as [ul|e]; cbn [bind] in H |- *; [|discriminate].
        apply (IH _ _ _ _ _ _ _ Hh (good_set_ll S cus _ _ Hg)) in H. rewrite ss_ll_set_ll in H. exact H.
      + inversion H; subst. auto.
  Qed.

  Lemma loc5_sess_complete : forall fuel sc cu_end offs hooks s ls,
    Forall (hook_total good ss_ll) hooks -> good s ->
    loc5_loop fuel TL LL lv S (loc_stream S 5) sc (ss_ll s) cu_end offs = Ok ls ->
    exists ys s', loc5_sess TL LL lv S fuel sc cu_end offs hooks s = Ok (ys, s') /\ map fst ys = ls /\ good s'.
  Proof.
    induction fuel as [|f IH]; intros sc cu_end offs hooks s ls Hh Hg H; [discriminate|].
    cbn [loc5_loop] in H. cbn [loc5_sess].
    destruct cu_end as [cu_end_offset|].
    - destruct (in_block (ss_ll s) cu_end_offset offs).
      + destruct (match offs with o :: _ => o | [] => cu_end_offset end =? ss_ll s).
        * destruct (parse_locview_pairs _ _ _ _ _) as [[pairs bs1]|e]; cbn [bind] in H |- *; [|discriminate].
          destruct (PyData.dict_get _ _ _) as [cv|]; [|discriminate].
          destruct (parse_list_v5 _ _ _ _ _ _) as [[entries bs2]|e]; cbn [bind] in H |- *; [|discriminate].
          destruct (loc5_loop f _ _ _ _ _ _ _ _ _) as [more|e] eqn:ER; cbn [bind] in H; [|discriminate].
          inversion H; subst.
          destruct (next_hook_total _ _ _ Hh _ (good_set_ll S cus (ss_ll s + (zlen (at_pos (loc_stream S 5) (ss_ll s)) - zlen bs1) + (zlen bs1 - zlen bs2)) _ Hg))
            as (hev & s2 & EH & Hg2 & Hl2).
          rewrite EH. cbn [bind]. rewrite ss_ll_set_ll in Hl2. rewrite <- Hl2 in ER.
          destruct (IH _ _ _ _ _ _ (Forall_tl _ _ Hh) Hg2 ER) as (ys & s3 & E3 & Hm & Hg3).
          rewrite E3. cbn [bind]. eexists _, _. split; [reflexivity|]. cbn [map fst]. rewrite Hm. auto.
        * apply (IH _ _ _ hooks (set_ll _ s) _ Hh (good_set_ll S cus _ _ Hg)). rewrite ss_ll_set_ll. exact H.
      + apply (IH _ _ _ hooks s _ Hh Hg). exact H.
    - destruct (ss_ll s <? zlen (loc_stream S 5)).
      + destruct (parse_hdr _ _ _ _ _) as [[h rest]|e]; cbn [bind] in H |- *; [|discriminate].
        destruct (cint h "version") as [ver|e]; cbn [bind] in H |- *; [|discriminate].
        destruct (ver =? 5); [|discriminate].
        destruct (cint h "offset_after_length") as [oal|e]; cbn [bind] in H |- *; [|discriminate].
        destruct (cint h "unit_length") as [ul|e]; cbn [bind] in H |- *; [|discriminate].
        apply (IH _ _ _ hooks (set_ll _ s) _ Hh (good_set_ll S cus _ _ Hg)). rewrite ss_ll_set_ll. exact H.
      + inversion H; subst. exists [], s. auto.
  Qed.

  (* ---- pre-v5 iter_location_lists: every list is reached by an absolute seek; any consumer *)
  Definition loc4_item (stream : list Z) (sc : loc_scan) (offset : Z) : res (list (list tup)) :=
    let list_offset := match PyData.dict_get Z.eqb (ls_locviews sc) offset with Some l => l | None => offset end in
    match PyData.dict_get Z.eqb (ls_cu_map sc) list_offset with
    | None => Err (EPy "KeyError")
    | Some cv =>
        if cv_version cv <? 5 then
          let bs := at_pos stream offset in
          do (pairs, bs1) <- parse_locview_pairs S lv (ls_locviews sc) bs offset;
          do entries <- parse_loc_v4 (Datatypes.S (length stream)) (s_le S) (s_asz S) bs1
                                     (offset + (zlen bs - zlen bs1));
          Ok [pairs ++ entries]
        else Ok []
    end.

  Lemma loc4_lists_cons stream sc o r :
    loc4_lists S lv stream sc (o :: r)
    = do x <- loc4_item stream sc o; do rest <- loc4_lists S lv stream sc r; Ok (x ++ rest).
  Proof.
    unfold loc4_lists. cbn [mapM]. fold (loc4_item stream sc o).
    destruct (loc4_item stream sc o) as [x|e]; cbn [bind]; [|reflexivity].
    destruct (mapM _ r) as [xs|e]; reflexivity.
  Qed.

  Lemma loc4_sess_sound sc : forall offsets hooks s ys s',
    Forall (hook_inv good) hooks -> good s ->
    loc4_sess lv S sc offsets hooks s = Ok (ys, s') ->
    loc4_lists S lv (loc_stream S 4) sc offsets = Ok (map fst ys) /\ good s'.
  Proof.
    induction offsets as [|o r IH]; intros hooks s ys s' Hh Hg H.
    - inversion H; subst. auto.
    - rewrite loc4_lists_cons. cbn [loc4_sess] in H. unfold loc4_item.
      destruct (PyData.dict_get Z.eqb (ls_cu_map sc) _) as [cv|]; [|discriminate].
      destruct (cv_version cv <? 5).
      + destruct (parse_locview_pairs _ _ _ _ _) as [[pairs bs1]|e]; cbn [bind] in H |- *; [|discriminate].
        destruct (parse_loc_v4 _ _ _ _ _) as [entries|e]; cbn [bind] in H |- *; [|discriminate].
        destruct (next_hook hooks s) as [[hev s1]|e] eqn:EH; cbn [bind] in H; [|discriminate].
        destruct (loc4_sess _ _ _ r _ s1) as [[more s2]|e] eqn:ER; cbn [bind] in H; [|discriminate].
        inversion H; subst.
        destruct (IH _ _ _ _ (Forall_tl _ _ Hh) (next_hook_inv _ _ Hh _ _ _ Hg EH) ER) as (Hl & Hg2).
        rewrite Hl. cbn [bind map fst app]. auto.
      + cbn [bind]. destruct (IH _ _ _ _ Hh Hg H) as (Hl & Hg2). rewrite Hl. cbn [bind app]. auto.
  Qed.

  Lemma loc4_sess_complete sc : forall offsets hooks s ls,
    Forall (hook_total good ss_ll) hooks -> good s ->
    loc4_lists S lv (loc_stream S 4) sc offsets = Ok ls ->
    exists ys s', loc4_sess lv S sc offsets hooks s = Ok (ys, s') /\ map fst ys = ls /\ good s'.
  Proof.
    induction offsets as [|o r IH]; intros hooks s ls Hh Hg H.
    - inversion H; subst. exists [], s. auto.
    - rewrite loc4_lists_cons in H. cbn [loc4_sess]. unfold loc4_item in H.
      destruct (PyData.dict_get Z.eqb (ls_cu_map sc) _) as [cv|]; [|discriminate].
      destruct (cv_version cv <? 5).
      + destruct (parse_locview_pairs _ _ _ _ _) as [[pairs bs1]|e]; cbn [bind] in H |- *; [|discriminate].
        destruct (parse_loc_v4 _ _ _ _ _) as [entries|e]; cbn [bind] in H |- *; [|discriminate].
        destruct (loc4_lists S lv _ sc r) as [rest|e] eqn:ER; cbn [bind] in H; [|discriminate].
        inversion H; subst.
        destruct (next_hook_total _ _ _ Hh _ Hg) as (hev & s1 & EH & Hg1 & _).
        rewrite EH. cbn [bind].
        destruct (IH _ _ _ (Forall_tl _ _ Hh) Hg1 eq_refl) as (ys & s2 & E2 & Hm & Hg2).
        rewrite E2. cbn [bind]. eexists _, _. split; [reflexivity|]. cbn [map fst app]. rewrite Hm. auto.
      + cbn [bind] in H. destruct (loc4_lists S lv _ sc r) as [rest|e] eqn:ER; cbn [bind] in H; [|discriminate].
        inversion H; subst. cbn [app]. apply IH; auto.
  Qed.

  (* ---- iter_range_lists: one absolute seek per list; any consumer *)
  Lemma range_lists_sess_sound version cu_map : forall offsets hooks s ys s',
    Forall (hook_inv good) hooks -> good s ->
    range_lists_sess TR S version cu_map offsets hooks s = Ok (ys, s') ->
    mapM (fun offset => get_range_list_at_offset TR S version (rng_stream S version) offset
                          (option_map cuinfo_of (PyData.dict_get Z.eqb cu_map offset))) offsets
    = Ok (map fst ys) /\ good s'.
  Proof.
    induction offsets as [|o r IH]; intros hooks s ys s' Hh Hg H; cbn [range_lists_sess] in H; cbn [mapM].
    - inversion H; subst. auto.
    - destruct (get_rng_sess TR S version o _ s) as [[ts s1]|e] eqn:E1; cbn [bind] in H; [|discriminate].
      rewrite <- get_rng_sess_value with (s := s). rewrite (value_of_ok _ _ _ E1). cbn [bind].
      destruct (next_hook hooks s1) as [[hev s2]|e] eqn:EH; cbn [bind] in H; [|discriminate].
      destruct (range_lists_sess _ _ _ _ r _ s2) as [[more s3]|e] eqn:ER; cbn [bind] in H; [|discriminate].
      inversion H; subst.
      assert (Hg1 : good s1).
      { unfold good, C07Session.good. rewrite (proj1 (get_rng_sess_state _ _ _ _ _ _ _ _ E1)). exact Hg. }
      destruct (IH _ _ _ _ (Forall_tl _ _ Hh) (next_hook_inv _ _ Hh _ _ _ Hg1 EH) ER) as (Hl & Hg3).
      rewrite Hl. cbn [bind map fst]. auto.
  Qed.

  Lemma range_lists_sess_complete version cu_map : forall offsets hooks s ls,
    Forall (hook_total good ss_rl) hooks -> good s ->
    mapM (fun offset => get_range_list_at_offset TR S version (rng_stream S version) offset
                          (option_map cuinfo_of (PyData.dict_get Z.eqb cu_map offset))) offsets = Ok ls ->
    exists ys s', range_lists_sess TR S version cu_map offsets hooks s = Ok (ys, s') /\ map fst ys = ls /\ good s'.
  Proof.
    induction offsets as [|o r IH]; intros hooks s ls Hh Hg H; cbn [range_lists_sess]; cbn [mapM] in H.
    - inversion H; subst. exists [], s. auto.
    - destruct (get_range_list_at_offset TR S version _ o _) as [ts|e] eqn:E1; cbn [bind] in H; [|discriminate].
      rewrite <- get_rng_sess_value with (s := s) in E1. apply value_of_inv in E1. destruct E1 as (s1 & E1).
      rewrite E1. cbn [bind].
      destruct (mapM _ r) as [rest|e] eqn:ER; cbn [bind] in H; [|discriminate].
      inversion H; subst.
      assert (Hg1 : good s1).
      { unfold good, C07Session.good. rewrite (proj1 (get_rng_sess_state _ _ _ _ _ _ _ _ E1)). exact Hg. }
      destruct (next_hook_total _ _ _ Hh _ Hg1) as (hev & s2 & EH & Hg2 & _).
      rewrite EH. cbn [bind].
      destruct (IH _ _ _ (Forall_tl _ _ Hh) Hg2 eq_refl) as (ys & s3 & E3 & Hm & Hg3).
      rewrite E3. cbn [bind]. eexists _, _. split; [reflexivity|]. cbn [map fst]. rewrite Hm. auto.
  Qed.

  (* ---- dwarf_util._iter_CUs_in_section: an absolute seek per header; any consumer *)
  Lemma iter_CUs_sess_sound L stream setc :
    (forall p s, good s -> good (setc p s)) ->
    forall fuel offset hooks s ys s',
    Forall (hook_inv good) hooks -> good s ->
    iter_CUs_sess S fuel L stream setc offset hooks s = Ok (ys, s') ->
    iter_CUs_in_section fuel L (s_le S) stream offset = Ok (map fst ys) /\ good s'.
  Proof.
    intros Hset. induction fuel as [|f IH]; intros offset hooks s ys s' Hh Hg H; [discriminate|].
    cbn [iter_CUs_sess] in H. cbn [iter_CUs_in_section].
    destruct (offset <? zlen stream); [|inversion H; subst; auto].
    destruct (parse_hdr _ _ _ _ _) as [[header rest]|e]; cbn [bind] in H |- *; [|discriminate].
    destruct (cint header "offset_count") as [oc|e]; cbn [bind] in H |- *; [|discriminate].
    destruct (0 <? oc).
    - destruct (cbool header "is64") as [is64|e]; cbn [bind] in H |- *; [|discriminate].
      destruct (parse_uint_array _ _ _ _) as [[vs t]|]; cbn [bind] in H |- *; [|discriminate].
      destruct (next_hook hooks _) as [[hev s2]|e] eqn:EH; cbn [bind] in H; [|discriminate].
      destruct (cint header "offset_after_length") as [oal|e]; cbn [bind] in H |- *; [|discriminate].
      destruct (cint header "unit_length") as [ul|e]; cbn [bind] in H |- *; [|discriminate].
      destruct (iter_CUs_sess S f _ _ _ _ _ s2) as [[more s3]|e] eqn:ER; cbn [bind] in H; [|discriminate].
      inversion H; subst.
      destruct (IH _ _ _ _ _ (Forall_tl _ _ Hh) (next_hook_inv _ _ Hh _ _ _ (Hset _ _ Hg) EH) ER) as (Hl & Hg3).
      rewrite Hl. cbn [bind map fst]. auto.
    - cbn [bind] in H |- *.
      destruct (next_hook hooks _) as [[hev s2]|e] eqn:EH; cbn [bind] in H; [|discriminate].
      destruct (cint header "offset_after_length") as [oal|e]; cbn [bind] in H |- *; [|discriminate].
      destruct (cint header "unit_length") as [ul|e]; cbn [bind] in H |- *; [|discriminate].
      destruct (iter_CUs_sess S f _ _ _ _ _ s2) as [[more s3]|e] eqn:ER; cbn [bind] in H; [|discriminate].
      inversion H; subst.
      destruct (IH _ _ _ _ _ (Forall_tl _ _ Hh) (next_hook_inv _ _ Hh _ _ _ (Hset _ _ Hg) EH) ER) as (Hl & Hg3).
      rewrite Hl. cbn [bind map fst]. auto.
  Qed.

  Lemma iter_CUs_sess_complete L stream setc :
    (forall p s, good s -> good (setc p s)) ->
    forall fuel offset hooks s hs,
    Forall (hook_total good ss_ll) hooks -> good s ->
    iter_CUs_in_section fuel L (s_le S) stream offset = Ok hs ->
    exists ys s', iter_CUs_sess S fuel L stream setc offset hooks s = Ok (ys, s') /\ map fst ys = hs /\ good s'.
  Proof.
    intros Hset. induction fuel as [|f IH]; intros offset hooks s hs Hh Hg H; [discriminate|].
    cbn [iter_CUs_in_section] in H. cbn [iter_CUs_sess].
    destruct (offset <? zlen stream); [|inversion H; subst; exists [], s; auto].
    destruct (parse_hdr _ _ _ _ _) as [[header rest]|e]; cbn [bind] in H |- *; [|discriminate].
    destruct (cint header "offset_count") as [oc|e]; cbn [bind] in H |- *; [|discriminate].
    destruct (0 <? oc).
    - destruct (cbool header "is64") as [is64|e]; cbn [bind] in H |- *; [|discriminate].
      destruct (parse_uint_array _ _ _ _) as [[vs t]|]; cbn [bind] in H |- *; [|discriminate].
      destruct (cint header "offset_after_length") as [oal|e]; cbn [bind] in H |- *; [|discriminate].
      destruct (cint header "unit_length") as [ul|e]; cbn [bind] in H |- *; [|discriminate].
      destruct (iter_CUs_in_section f _ _ _ _) as [more|e] eqn:ER; cbn [bind] in H; [|discriminate].
      inversion H; subst.
      match goal with |- context [next_hook hooks ?st] =>
        destruct (next_hook_total _ _ _ Hh st (Hset _ _ Hg)) as (hev & s2 & EH & Hg2 & _) end.
      rewrite EH. cbn [bind].
      destruct (IH _ _ _ _ (Forall_tl _ _ Hh) Hg2 ER) as (ys & s3 & E3 & Hm & Hg3).
      rewrite E3. cbn [bind]. eexists _, _. split; [reflexivity|]. cbn [map fst]. rewrite Hm. auto.
    - cbn [bind] in H |- *.
      destruct (cint header "offset_after_length") as [oal|e]; cbn [bind] in H |- *; [|discriminate].
      destruct (cint header "unit_length") as [ul|e]; cbn [bind] in H |- *; [|discriminate].
      destruct (iter_CUs_in_section f _ _ _ _) as [more|e] eqn:ER; cbn [bind] in H; [|discriminate].
      inversion H; subst.
      match goal with |- context [next_hook hooks ?st] =>
        destruct (next_hook_total _ _ _ Hh st (Hset _ _ Hg)) as (hev & s2 & EH & Hg2 & _) end.
      rewrite EH. cbn [bind].
      destruct (IH _ _ _ _ (Forall_tl _ _ Hh) Hg2 ER) as (ys & s3 & E3 & Hm & Hg3).
      rewrite E3. cbn [bind]. eexists _, _. split; [reflexivity|]. cbn [map fst]. rewrite Hm. auto.
  Qed.

  (* ---- iter_CU_range_lists_ex: reads at the cursor; exact when the consumer leaves it alone *)
  Lemma range_lists_ex_sess_sound end_pos : forall fuel hooks s ys s',
    Forall (hook_keeps good ss_rl) hooks -> good s ->
    range_lists_ex_sess TR S fuel end_pos hooks s = Ok (ys, s') ->
    range_lists_ex_loop fuel TR S (rng_stream S 5) (ss_rl s) end_pos = Ok (map fst ys) /\ good s'.
  Proof.
    induction fuel as [|f IH]; intros hooks s ys s' Hh Hg H; [discriminate|].
    cbn [range_lists_ex_sess] in H. cbn [range_lists_ex_loop].
    destruct (ss_rl s <? end_pos); [|inversion H; subst; auto].
    destruct (parse_entries _ _ _ _ _ _) as [[es rest]|e]; cbn [bind] in H |- *; [|discriminate].
    destruct (next_hook hooks _) as [[hev s2]|e] eqn:EH; cbn [bind] in H; [|discriminate].
    destruct (range_lists_ex_sess _ _ f _ _ s2) as [[more s3]|e] eqn:ER; cbn [bind] in H; [|discriminate].
    inversion H; subst.
    destruct (next_hook_keeps _ _ _ Hh _ _ _ (good_set_rl S cus _ _ Hg) EH) as (Hg2 & Hl2).
    rewrite ss_rl_set_rl in Hl2.
    destruct (IH _ _ _ _ (Forall_tl _ _ Hh) Hg2 ER) as (Hloop & Hg3).
    rewrite Hl2 in Hloop. rewrite Hloop. cbn [bind map fst]. auto.
  Qed.

  Lemma range_lists_ex_sess_complete end_pos : forall fuel hooks s ls,
    Forall (hook_total good ss_rl) hooks -> good s ->
    range_lists_ex_loop fuel TR S (rng_stream S 5) (ss_rl s) end_pos = Ok ls ->
    exists ys s', range_lists_ex_sess TR S fuel end_pos hooks s = Ok (ys, s') /\ map fst ys = ls /\ good s'.
  Proof.
    induction fuel as [|f IH]; intros hooks s ls Hh Hg H; [discriminate|].
    cbn [range_lists_ex_loop] in H. cbn [range_lists_ex_sess].
    destruct (ss_rl s <? end_pos); [|inversion H; subst; exists [], s; auto].
    destruct (parse_entries _ _ _ _ _ _) as [[es rest]|e]; cbn [bind] in H |- *; [|discriminate].
    destruct (range_lists_ex_loop f _ _ _ _ _) as [more|e] eqn:ER; cbn [bind] in H; [|discriminate].
    inversion H; subst.
    match goal with |- context [next_hook hooks ?st] =>
      destruct (next_hook_total _ _ _ Hh st (good_set_rl S cus _ _ Hg)) as (hev & s2 & EH & Hg2 & Hl2) end.
    rewrite EH. cbn [bind]. rewrite ss_rl_set_rl in Hl2. rewrite <- Hl2 in ER.
    destruct (IH _ _ _ (Forall_tl _ _ Hh) Hg2 ER) as (ys & s3 & E3 & Hm & Hg3).
    rewrite E3. cbn [bind]. eexists _, _. split; [reflexivity|]. cbn [map fst]. rewrite Hm. auto.
  Qed.
End Loops.

(* ------------------------------------------------------------------ E. scans of the debugging entries *)
Definition want_gen (ver5 : bool) (cv : cuview) : bool := Bool.eqb (5 <=? cv_version cv) ver5.

Lemma scan_units_eq S ver5 : forall l caches acc,
  Forall2 (full_for S (want_gen ver5)) l caches ->
  fold_left (fun acc (x : cuview * list vdie) =>
               do st <- acc;
               if Bool.eqb (5 <=? cv_version (fst x)) ver5 then scan_dies (fst x) st (snd x) else Ok st)
            (combine l caches) acc
  = fold_left (scan_cu S ver5) l acc.
Proof.
  intros l caches acc H. revert acc.
  induction H as [|cv dies l' caches' Hfull Hr IH]; intros acc; cbn [combine fold_left fst snd]; [reflexivity|].
  rewrite IH. f_equal. unfold scan_cu. destruct acc as [st|e]; cbn [bind]; [|reflexivity].
  unfold full_for, want_gen in Hfull.
  destruct (Bool.eqb (5 <=? cv_version cv) ver5); [|reflexivity].
  rewrite (Hfull eq_refl). reflexivity.
Qed.

Lemma fold_scan_err S ver5 : forall l e, fold_left (scan_cu S ver5) l (Err e) = Err e.
Proof. induction l as [|cv r IH]; intros e; cbn [fold_left]; [reflexivity|]. apply IH. Qed.

Lemma scan_locs_translatable S ver5 : forall l acc sc,
  fold_left (scan_cu S ver5) l acc = Ok sc ->
  forall cv, In cv l -> want_gen ver5 cv = true ->
  exists dies, mapM (translate_die S cv) (cv_dies cv) = Ok dies.
Proof.
  induction l as [|a r IH]; intros acc sc H cv Hin W; [destruct Hin|].
  cbn [fold_left] in H. destruct Hin as [<-|Hin]; [|exact (IH _ _ H cv Hin W)].
  destruct (scan_cu S ver5 acc a) as [st1|e] eqn:E; [|rewrite fold_scan_err in H; discriminate].
  unfold scan_cu in E. destruct acc as [st|e]; cbn [bind] in E; [|discriminate].
  unfold want_gen in W. rewrite W in E.
  destruct (mapM (translate_die S a) (cv_dies a)) as [dies|e]; [eauto|discriminate].
Qed.

Lemma range_refs_units_eq S ver5 : forall l caches,
  Forall2 (full_for S (fun _ => true)) l caches ->
  mapM (fun x : cuview * list vdie => range_refs_of_dies ver5 (fst x) (snd x)) (combine l caches)
  = mapM (range_refs_of_cu S ver5) l.
Proof.
  intros l caches H.
  induction H as [|cv dies l' caches' Hfull Hr IH]; cbn [combine mapM fst snd]; [reflexivity|].
  rewrite IH. unfold range_refs_of_cu at 2. rewrite (Hfull eq_refl). reflexivity.
Qed.

Lemma mapM_ok_in {A B} (f : A -> res B) : forall l r, mapM f l = Ok r -> forall x, In x l -> exists y, f x = Ok y.
Proof.
  induction l as [|h t IH]; intros r H x Hin; [destruct Hin|].
  cbn [mapM] in H. destruct (f h) as [y|e] eqn:E; cbn [bind] in H; [|discriminate].
  destruct (mapM f t) as [ys|e] eqn:E2; cbn [bind] in H; [|discriminate].
  destruct Hin as [<-|Hin]; [eauto|]. exact (IH _ eq_refl x Hin).
Qed.

Lemma mapM_firstn_ok {A B} (f : A -> res B) : forall l r n, mapM f l = Ok r -> mapM f (firstn n l) = Ok (firstn n r).
Proof.
  induction l as [|h t IH]; intros r n H; cbn [mapM] in H.
  - inversion H; subst. destruct n; reflexivity.
  - destruct (f h) as [y|e] eqn:E; cbn [bind] in H; [|discriminate].
    destruct (mapM f t) as [ys|e] eqn:E2; cbn [bind] in H; [|discriminate].
    inversion H; subst. destruct n as [|n']; cbn [firstn mapM]; [reflexivity|].
    rewrite E. cbn [bind]. rewrite (IH ys n' eq_refl). reflexivity.
Qed.

Lemma loc_stream_v5 S version : (5 <=? version) = true -> loc_stream S version = loc_stream S 5.
Proof. unfold loc_stream. intros ->. reflexivity. Qed.
Lemma loc_stream_v4 S version : (5 <=? version) = false -> loc_stream S version = loc_stream S 4.
Proof. unfold loc_stream. intros ->. reflexivity. Qed.

(* ------------------------------------------------------------------ F. the enumeration entry points *)
Section Entry.
  Variables (TL TR : entry_tables) (LL LR : hlayout) (lv : operands).
  Variable S : sections.
  Variable cus : list cuview.
  Let good := good S cus.
  Let hooks_of := map (run_acts TL TR S cus).

  (* every DIE of every unit can be parsed *)
  Definition translatable : Prop :=
    forall cv, In cv cus -> exists dies, mapM (translate_die S cv) (cv_dies cv) = Ok dies.
  (* the consumer only parses DIEs between the yields *)
  Definition parse_only (sched : list (list act)) : bool :=
    forallb (forallb (fun a => match a with AParse k _ => (k <? length cus)%nat | _ => false end)) sched.

  Lemma act_parse_total k n s :
    translatable -> good s -> (k < length cus)%nat ->
    exists s', act_parse S cus k n s = Ok s' /\ good s' /\ ss_cur s' = ss_cur s.
  Proof.
    intros Ht Hg Hk. unfold act_parse.
    destruct (nth_error cus k) as [cv|] eqn:Ek; [|apply nth_error_None in Ek; lia].
    rewrite (ensure_parsed_eq S cv n _ _ (consistent_nth _ _ _ _ _ Hg Ek)).
    destruct (Ht cv (nth_error_In _ _ Ek)) as (dies & Hd).
    rewrite (mapM_firstn_ok _ _ _ _ Hd). cbn [bind].
    eexists. split; [reflexivity|].
    assert (E : act_parse S cus k n s = Ok {| ss_cur := ss_cur s; ss_dies := upd_nth k (firstn (Nat.max (length (nth k (ss_dies s) [])) n) dies) (ss_dies s) |}).
    { unfold act_parse. rewrite Ek. rewrite (ensure_parsed_eq S cv n _ _ (consistent_nth _ _ _ _ _ Hg Ek)).
      rewrite (mapM_firstn_ok _ _ _ _ Hd). reflexivity. }
    destruct (act_parse_ok _ _ _ _ _ _ Hg E) as (Hc & Hg'). auto.
  Qed.

  Lemma parse_hooks_total (proj : sess -> Z) sched :
    (forall s s', ss_cur s' = ss_cur s -> proj s' = proj s) ->
    translatable -> parse_only sched = true -> Forall (hook_total good proj) (hooks_of sched).
  Proof.
    intros Hproj Ht Hp. apply Forall_forall. intros h Hin. apply in_map_iff in Hin. destruct Hin as (l & <- & Hl).
    unfold parse_only in Hp. rewrite forallb_forall in Hp. specialize (Hp l Hl). clear Hl.
    induction l as [|a r IH]; intros s Hg; cbn [run_acts].
    - exists [], s. auto.
    - cbn [forallb] in Hp. apply andb_true_iff in Hp. destruct Hp as [Ha Hr].
      destruct a as [k n| |]; try discriminate. apply Nat.ltb_lt in Ha.
      destruct (act_parse_total k n s Ht Hg Ha) as (s1 & E1 & Hg1 & Hc1).
      cbn [run_act]. rewrite E1. cbn [bind].
      destruct (IH Hr s1 Hg1) as (e2 & s2 & E2 & Hg2 & Hp2).
      rewrite E2. cbn [bind]. eexists _, _. split; [reflexivity|]. split; [exact Hg2|].
      rewrite Hp2. apply Hproj. exact Hc1.
  Qed.

  (* ---- LocationLists.iter_location_lists *)
  Theorem iter_location_lists_sess_sound version hooks s ys s' :
    good s ->
    Forall (if 5 <=? version then hook_keeps good ss_ll else hook_inv good) hooks ->
    iter_location_lists_sess TL LL lv S cus version hooks s = Ok (ys, s') ->
    iter_location_lists TL LL lv S version (loc_stream S version) cus = Ok (map fst ys) /\ good s'.
  Proof.
    intros Hg Hh H. unfold iter_location_lists_sess in H.
    set (ver5 := 5 <=? version) in *.
    set (s0 := if ver5 then set_ll 0 s else s) in *.
    assert (Hg0 : good s0) by (unfold s0; destruct ver5; exact Hg).
    destruct (parse_units S _ cus (ss_dies s0) (ss_cur s0)) as [[caches c]|e] eqn:EP; cbn [bind] in H; [|discriminate].
    destruct (parse_units_ok _ _ _ _ _ _ _ Hg0 EP) as (-> & Hc & Hfull).
    destruct (scan_units cus ver5 caches) as [sc|e] eqn:ES; cbn [bind] in H; [|discriminate].
    unfold scan_units in ES. rewrite (scan_units_eq S ver5 cus caches _ Hfull) in ES.
    unfold iter_location_lists. fold ver5. unfold scan_locs. rewrite ES. cbn [bind].
    unfold loc_lists_of_scan. destruct ver5 eqn:Ev.
    - rewrite (loc_stream_v5 S version Ev).
      apply (loc5_sess_sound TL LL lv S cus) in H; [|exact Hh|exact Hc].
      unfold s0 in H. exact H.
    - rewrite (loc_stream_v4 S version Ev).
      apply (loc4_sess_sound lv S cus) in H; [|exact Hh|exact Hc]. exact H.
  Qed.

  Theorem iter_location_lists_sess_complete version hooks s ls :
    good s -> Forall (hook_total good ss_ll) hooks ->
    iter_location_lists TL LL lv S version (loc_stream S version) cus = Ok ls ->
    exists ys s', iter_location_lists_sess TL LL lv S cus version hooks s = Ok (ys, s')
                  /\ map fst ys = ls /\ good s'.
  Proof.
    intros Hg Hh H. unfold iter_location_lists in H. unfold iter_location_lists_sess.
    set (ver5 := 5 <=? version) in *.
    set (s0 := if ver5 then set_ll 0 s else s).
    assert (Hg0 : good s0) by (unfold s0; destruct ver5; exact Hg).
    destruct (scan_locs S ver5 cus) as [sc|e] eqn:ES; cbn [bind] in H; [|discriminate].
    unfold scan_locs in ES.
    destruct (parse_units_total S (fun cv => Bool.eqb (5 <=? cv_version cv) ver5) cus (ss_dies s0) (ss_cur s0) Hg0)
      as (caches & EP).
    { intros cv Hin W. exact (scan_locs_translatable S ver5 _ _ _ ES cv Hin W). }
    rewrite EP. cbn [bind].
    destruct (parse_units_ok _ _ _ _ _ _ _ Hg0 EP) as (_ & Hc & Hfull).
    unfold scan_units. rewrite (scan_units_eq S ver5 cus caches _ Hfull), ES. cbn [bind].
    unfold loc_lists_of_scan in H. destruct ver5 eqn:Ev.
    - rewrite (loc_stream_v5 S version Ev) in H.
      apply (loc5_sess_complete TL LL lv S cus); [exact Hh|exact Hc|]. unfold s0. exact H.
    - rewrite (loc_stream_v4 S version Ev) in H.
      apply (loc4_sess_complete lv S cus); [exact Hh|exact Hc|exact H].
  Qed.

  (* ---- RangeLists.iter_range_lists *)
  Theorem iter_range_lists_sess_sound version hooks s ys s' :
    good s -> Forall (hook_inv good) hooks ->
    iter_range_lists_sess TR S cus version hooks s = Ok (ys, s') ->
    iter_range_lists TR S version (rng_stream S version) cus = Ok (map fst ys) /\ good s'.
  Proof.
    intros Hg Hh H. unfold iter_range_lists_sess in H.
    destruct (parse_units S _ cus (ss_dies s) (ss_cur s)) as [[caches c]|e] eqn:EP; cbn [bind] in H; [|discriminate].
    destruct (parse_units_ok _ _ _ _ _ _ _ Hg EP) as (-> & Hc & Hfull).
    rewrite (range_refs_units_eq S _ cus caches Hfull) in H.
    unfold iter_range_lists, range_cu_map, range_refs.
    destruct (mapM (range_refs_of_cu S (5 <=? version)) cus) as [refs|e]; cbn [bind] in H |- *; [|discriminate].
    apply (range_lists_sess_sound TR S cus) in H; [|exact Hh|exact Hc]. exact H.
  Qed.

  Theorem iter_range_lists_sess_complete version hooks s ls :
    good s -> Forall (hook_total good ss_rl) hooks ->
    iter_range_lists TR S version (rng_stream S version) cus = Ok ls ->
    exists ys s', iter_range_lists_sess TR S cus version hooks s = Ok (ys, s') /\ map fst ys = ls /\ good s'.
  Proof.
    intros Hg Hh H. unfold iter_range_lists, range_cu_map, range_refs in H. unfold iter_range_lists_sess.
    destruct (mapM (range_refs_of_cu S (5 <=? version)) cus) as [refs|e] eqn:ER; cbn [bind] in H; [|discriminate].
    destruct (parse_units_total S (fun _ => true) cus (ss_dies s) (ss_cur s) Hg) as (caches & EP).
    { intros cv Hin _. destruct (mapM_ok_in _ _ _ ER cv Hin) as (y & Hy). unfold range_refs_of_cu in Hy.
      destruct (mapM (translate_die S cv) (cv_dies cv)) as [dies|e]; [eauto|discriminate]. }
    rewrite EP. cbn [bind].
    destruct (parse_units_ok _ _ _ _ _ _ _ Hg EP) as (_ & Hc & Hfull).
    rewrite (range_refs_units_eq S _ cus caches Hfull), ER. cbn [bind].
    apply (range_lists_sess_complete TR S cus); [exact Hh|exact Hc|exact H].
  Qed.

  (* ---- LocationLists.iter_CUs / RangeLists.iter_CUs *)
  Theorem iter_CUs_loc_sess_sound hooks s ys s' :
    good s -> Forall (hook_inv good) hooks ->
    iter_CUs_loc_sess LL S hooks s = Ok (ys, s') ->
    iter_CUs LL (s_le S) 5 (loc_stream S 5) = Ok (map fst ys) /\ good s'.
  Proof.
    intros Hg Hh H. unfold iter_CUs_loc_sess in H. unfold iter_CUs. cbn [Z.ltb Z.compare Pos.compare Pos.compare_cont].
    apply (iter_CUs_sess_sound S cus) in H; auto.
  Qed.
  Theorem iter_CUs_rng_sess_sound hooks s ys s' :
    good s -> Forall (hook_inv good) hooks ->
    iter_CUs_rng_sess LR S hooks s = Ok (ys, s') ->
    iter_CUs LR (s_le S) 5 (rng_stream S 5) = Ok (map fst ys) /\ good s'.
  Proof.
    intros Hg Hh H. unfold iter_CUs_rng_sess in H. unfold iter_CUs. cbn [Z.ltb Z.compare Pos.compare Pos.compare_cont].
    apply (iter_CUs_sess_sound S cus) in H; auto.
  Qed.
  Theorem iter_CUs_loc_sess_complete hooks s hs :
    good s -> Forall (hook_total good ss_ll) hooks ->
    iter_CUs LL (s_le S) 5 (loc_stream S 5) = Ok hs ->
    exists ys s', iter_CUs_loc_sess LL S hooks s = Ok (ys, s') /\ map fst ys = hs /\ good s'.
  Proof.
    intros Hg Hh H. unfold iter_CUs in H. cbn [Z.ltb Z.compare Pos.compare Pos.compare_cont] in H.
    unfold iter_CUs_loc_sess. apply (iter_CUs_sess_complete S cus); auto.
  Qed.
  Theorem iter_CUs_rng_sess_complete hooks s hs :
    good s -> Forall (hook_total good ss_ll) hooks ->
    iter_CUs LR (s_le S) 5 (rng_stream S 5) = Ok hs ->
    exists ys s', iter_CUs_rng_sess LR S hooks s = Ok (ys, s') /\ map fst ys = hs /\ good s'.
  Proof.
    intros Hg Hh H. unfold iter_CUs in H. cbn [Z.ltb Z.compare Pos.compare Pos.compare_cont] in H.
    unfold iter_CUs_rng_sess. apply (iter_CUs_sess_complete S cus); auto.
  Qed.

  (* ---- RangeLists.iter_CU_range_lists_ex on the ui-th block of RangeLists.iter_CUs() *)
  Definition iter_block_lists (ui : nat) : res (list (list container)) :=
    do blocks <- iter_CUs LR (s_le S) 5 (rng_stream S 5);
    match nth_error blocks ui with
    | None => Err (EPy "IndexError")
    | Some b => iter_CU_range_lists_ex TR S (rng_stream S 5) b
    end.

  Lemma iter_CU_range_lists_ex_sess_sound cu hooks s ys s' :
    good s -> Forall (hook_keeps good ss_rl) hooks ->
    iter_CU_range_lists_ex_sess TR S cu hooks s = Ok (ys, s') ->
    iter_CU_range_lists_ex TR S (rng_stream S 5) cu = Ok (map fst ys) /\ good s'.
  Proof.
    intros Hg Hh H. unfold iter_CU_range_lists_ex_sess in H. unfold iter_CU_range_lists_ex.
    destruct (cint cu "offset_table_offset") as [oto|e]; cbn [bind] in H |- *; [|discriminate].
    destruct (cbool cu "is64") as [is64|e]; cbn [bind] in H |- *; [|discriminate].
    destruct (cint cu "offset_count") as [cnt|e]; cbn [bind] in H |- *; [|discriminate].
    destruct (cint cu "offset_after_length") as [oal|e]; cbn [bind] in H |- *; [|discriminate].
    destruct (cint cu "unit_length") as [ul|e]; cbn [bind] in H |- *; [|discriminate].
    apply (range_lists_ex_sess_sound TR S cus) in H; [|exact Hh|exact Hg]. exact H.
  Qed.

  Lemma iter_CU_range_lists_ex_sess_complete cu hooks s ls :
    good s -> Forall (hook_total good ss_rl) hooks ->
    iter_CU_range_lists_ex TR S (rng_stream S 5) cu = Ok ls ->
    exists ys s', iter_CU_range_lists_ex_sess TR S cu hooks s = Ok (ys, s') /\ map fst ys = ls /\ good s'.
  Proof.
    intros Hg Hh H. unfold iter_CU_range_lists_ex in H. unfold iter_CU_range_lists_ex_sess.
    destruct (cint cu "offset_table_offset") as [oto|e]; cbn [bind] in H |- *; [|discriminate].
    destruct (cbool cu "is64") as [is64|e]; cbn [bind] in H |- *; [|discriminate].
    destruct (cint cu "offset_count") as [cnt|e]; cbn [bind] in H |- *; [|discriminate].
    destruct (cint cu "offset_after_length") as [oal|e]; cbn [bind] in H |- *; [|discriminate].
    destruct (cint cu "unit_length") as [ul|e]; cbn [bind] in H |- *; [|discriminate].
    apply (range_lists_ex_sess_complete TR S cus); [exact Hh|exact Hg|]. exact H.
  Qed.

  Theorem iter_block_lists_sess_sound ui hooks s ys s' :
    good s -> Forall (hook_keeps good ss_rl) hooks ->
    iter_block_lists_sess TR LR S ui hooks s = Ok (ys, s') ->
    iter_block_lists ui = Ok (map fst ys) /\ good s'.
  Proof.
    intros Hg Hh H. unfold iter_block_lists_sess in H. unfold iter_block_lists.
    destruct (iter_CUs_rng_sess LR S [] s) as [[blocks s1]|e] eqn:EB; cbn [bind] in H; [|discriminate].
    destruct (iter_CUs_rng_sess_sound _ _ _ _ Hg (Forall_nil _) EB) as (Hb & Hg1).
    rewrite Hb. cbn [bind]. rewrite nth_error_map.
    destruct (nth_error blocks ui) as [b|]; cbn [option_map]; [|discriminate].
    exact (iter_CU_range_lists_ex_sess_sound _ _ _ _ _ Hg1 Hh H).
  Qed.

  Theorem iter_block_lists_sess_complete ui hooks s ls :
    good s -> Forall (hook_total good ss_rl) hooks ->
    iter_block_lists ui = Ok ls ->
    exists ys s', iter_block_lists_sess TR LR S ui hooks s = Ok (ys, s') /\ map fst ys = ls /\ good s'.
  Proof.
    intros Hg Hh H. unfold iter_block_lists in H. unfold iter_block_lists_sess.
    destruct (iter_CUs LR (s_le S) 5 (rng_stream S 5)) as [hs|e] eqn:EB; cbn [bind] in H; [|discriminate].
    destruct (iter_CUs_rng_sess_complete [] s hs Hg (Forall_nil _) EB) as (blocks & s1 & E1 & Hm & Hg1).
    rewrite E1. cbn [bind]. subst hs. rewrite nth_error_map in H.
    destruct (nth_error blocks ui) as [b|]; cbn [option_map] in H; [|discriminate].
    exact (iter_CU_range_lists_ex_sess_complete _ _ _ _ Hg1 Hh H).
  Qed.
End Entry.

(* ------------------------------------------------------------------ G. reachable states *)
Section Reach.
  Variables (TL TR : entry_tables) (LL LR : hlayout) (lv : operands).
  Variable S : sections.
  Variable cus : list cuview.
  Let good := good S cus.

  (* whatever the consumer does between the yields, the caches stay consistent *)
  Lemma loc5_sess_inv : forall fuel sc cu_end offs hooks s ys s',
    Forall (hook_inv good) hooks -> good s ->
    loc5_sess TL LL lv S fuel sc cu_end offs hooks s = Ok (ys, s') -> good s'.
  Proof.
    induction fuel as [|f IH]; intros sc cu_end offs hooks s ys s' Hh Hg H; [discriminate|].
    cbn [loc5_sess] in H.
    destruct cu_end as [cu_end_offset|].
    - destruct (in_block (ss_ll s) cu_end_offset offs).
      + destruct (match offs with o :: _ => o | [] => cu_end_offset end =? ss_ll s).
        * destruct (parse_locview_pairs _ _ _ _ _) as [[pairs bs1]|e]; cbn [bind] in H; [|discriminate].
          destruct (PyData.dict_get _ _ _) as [cv|]; [|discriminate].
          destruct (parse_list_v5 _ _ _ _ _ _) as [[entries bs2]|e]; cbn [bind] in H; [|discriminate].
          destruct (next_hook hooks _) as [[hev s2]|e] eqn:EH; cbn [bind] in H; [|discriminate].
          destruct (loc5_sess _ _ _ _ f _ _ _ _ s2) as [[more s3]|e] eqn:ER; cbn [bind] in H; [|discriminate].
          inversion H; subst.
          exact (IH _ _ _ _ _ _ _ (Forall_tl _ _ Hh) (next_hook_inv _ _ Hh _ _ _ (good_set_ll S cus _ _ Hg) EH) ER).
        * exact (IH _ _ _ _ _ _ _ Hh (good_set_ll S cus _ _ Hg) H).
      + exact (IH _ _ _ _ _ _ _ Hh Hg H).
    - destruct (ss_ll s <? zlen (loc_stream S 5)).
      + destruct (parse_hdr _ _ _ _ _) as [[h rest]|e]; cbn [bind] in H; [|discriminate].
        destruct (cint h "version") as [ver|e]; cbn [bind] in H; [|discriminate].
        destruct (ver =? 5); [|discriminate].
        destruct (cint h "offset_after_length") as [oal|e]; cbn [bind] in H; [|discriminate].
        destruct (cint h "unit_length") as [ul|e]; cbn [bind] in H; [|discriminate].
        exact (IH _ _ _ _ _ _ _ Hh (good_set_ll S cus _ _ Hg) H).
      + inversion H; subst. exact Hg.
  Qed.

  Lemma range_lists_ex_sess_inv end_pos : forall fuel hooks s ys s',
    Forall (hook_inv good) hooks -> good s ->
    range_lists_ex_sess TR S fuel end_pos hooks s = Ok (ys, s') -> good s'.
  Proof.
    induction fuel as [|f IH]; intros hooks s ys s' Hh Hg H; [discriminate|].
    cbn [range_lists_ex_sess] in H.
    destruct (ss_rl s <? end_pos); [|inversion H; subst; exact Hg].
    destruct (parse_entries _ _ _ _ _ _) as [[es rest]|e]; cbn [bind] in H; [|discriminate].
    destruct (next_hook hooks _) as [[hev s2]|e] eqn:EH; cbn [bind] in H; [|discriminate].
    destruct (range_lists_ex_sess _ _ f _ _ s2) as [[more s3]|e] eqn:ER; cbn [bind] in H; [|discriminate].
    inversion H; subst.
    exact (IH _ _ _ _ (Forall_tl _ _ Hh) (next_hook_inv _ _ Hh _ _ _ (good_set_rl S cus _ _ Hg) EH) ER).
  Qed.

  Theorem run_op_good o s evs s' :
    good s -> run_op TL TR LL LR lv S cus o s = Ok (evs, s') -> good s'.
  Proof.
    intros Hg H. destruct o as [a|version sched|version sched|sched|sched|ui sched]; cbn [run_op] in H.
    - exact (proj1 (run_act_ok _ _ _ _ _ _ _ _ Hg H)).
    - destruct (iter_location_lists_sess _ _ _ _ _ _ _ s) as [[ys s1]|e] eqn:E; cbn [bind] in H; [|discriminate].
      inversion H; subst. unfold iter_location_lists_sess in E.
      set (s0 := if 5 <=? version then set_ll 0 s else s) in *.
      assert (Hg0 : good s0) by (unfold s0; destruct (5 <=? version); exact Hg).
      destruct (parse_units S _ cus (ss_dies s0) (ss_cur s0)) as [[caches c]|e] eqn:EP; cbn [bind] in E; [|discriminate].
      destruct (parse_units_ok _ _ _ _ _ _ _ Hg0 EP) as (-> & Hc & _).
      destruct (scan_units cus _ caches) as [sc|e]; cbn [bind] in E; [|discriminate].
      destruct (5 <=? version).
      + eapply loc5_sess_inv; [| |exact E]; [apply sched_hooks_inv|exact Hc].
      + eapply (loc4_sess_sound lv S cus); [| |exact E]; [apply sched_hooks_inv|exact Hc].
    - destruct (iter_range_lists_sess _ _ _ _ _ s) as [[ys s1]|e] eqn:E; cbn [bind] in H; [|discriminate].
      inversion H; subst.
      exact (proj2 (iter_range_lists_sess_sound TR S cus _ _ _ _ _ Hg (sched_hooks_inv TL TR S cus sched) E)).
    - destruct (iter_CUs_loc_sess _ _ _ s) as [[ys s1]|e] eqn:E; cbn [bind] in H; [|discriminate].
      inversion H; subst.
      exact (proj2 (iter_CUs_loc_sess_sound LL S cus _ _ _ _ Hg (sched_hooks_inv TL TR S cus sched) E)).
    - destruct (iter_CUs_rng_sess _ _ _ s) as [[ys s1]|e] eqn:E; cbn [bind] in H; [|discriminate].
      inversion H; subst.
      exact (proj2 (iter_CUs_rng_sess_sound LR S cus _ _ _ _ Hg (sched_hooks_inv TL TR S cus sched) E)).
    - destruct (iter_block_lists_sess _ _ _ _ _ s) as [[ys s1]|e] eqn:E; cbn [bind] in H; [|discriminate].
      inversion H; subst. unfold iter_block_lists_sess in E.
      destruct (iter_CUs_rng_sess LR S [] s) as [[blocks s2]|e] eqn:EB; cbn [bind] in E; [|discriminate].
      pose proof (proj2 (iter_CUs_rng_sess_sound LR S cus _ _ _ _ Hg (Forall_nil _) EB)) as Hg2.
      destruct (nth_error blocks ui) as [b|]; [|discriminate].
      unfold iter_CU_range_lists_ex_sess in E.
      destruct (cint (fst b) "offset_table_offset") as [oto|e]; cbn [bind] in E; [|discriminate].
      destruct (cbool (fst b) "is64") as [is64|e]; cbn [bind] in E; [|discriminate].
      destruct (cint (fst b) "offset_count") as [cnt|e]; cbn [bind] in E; [|discriminate].
      destruct (cint (fst b) "offset_after_length") as [oal|e]; cbn [bind] in E; [|discriminate].
      destruct (cint (fst b) "unit_length") as [ul|e]; cbn [bind] in E; [|discriminate].
      exact (range_lists_ex_sess_inv _ _ _ _ _ _ (sched_hooks_inv TL TR S cus sched) (good_set_rl S cus _ _ Hg2) E).
  Qed.

  (* the states a caller can bring a freshly opened DWARFInfo into *)
  Inductive reachable : sess -> Prop :=
  | reach_fresh : reachable (fresh cus)
  | reach_step o s evs s' :
      reachable s -> run_op TL TR LL LR lv S cus o s = Ok (evs, s') -> reachable s'.

  Theorem reachable_good s : reachable s -> good s.
  Proof.
    induction 1 as [|o s evs s' Hr IH Hstep]; [apply good_fresh|]. exact (run_op_good _ _ _ _ IH Hstep).
  Qed.
End Reach.

(* ------------------------------------------------------------------ H. the statements of Props/C07.v *)
Section Statements.
  Variables (TL TR : entry_tables) (LL LR : hlayout) (lv : operands).
  Variable S : sections.
  Variable cus : list cuview.
  Let reachable := reachable TL TR LL LR lv S cus.
  Let hooks_of := map (run_acts TL TR S cus).

  Theorem die_parsing_keeps_cursors s k n s' :
    reachable s -> act_parse S cus k n s = Ok s' -> ss_cur s' = ss_cur s.
  Proof. intros Hr H. exact (proj1 (act_parse_ok S cus k n s s' (reachable_good _ _ _ _ _ _ _ _ Hr) H)). Qed.

  Theorem location_enumeration_any_history s version sched ys s' :
    reachable s -> op_in_domain S cus (OIterLoc version sched) = true ->
    iter_location_lists_sess TL LL lv S cus version (hooks_of sched) s = Ok (ys, s') ->
    iter_location_lists TL LL lv S version (loc_stream S version) cus = Ok (map fst ys).
  Proof.
    intros Hr Hd H. cbn [op_in_domain] in Hd.
    refine (proj1 (iter_location_lists_sess_sound TL LL lv S cus version _ s ys s' (reachable_good _ _ _ _ _ _ _ _ Hr) _ H)).
    destruct (5 <=? version).
    - exact (sched_hooks_keep_ll TL TR S cus sched Hd).
    - exact (sched_hooks_inv TL TR S cus sched).
  Qed.

  Lemma cur_ll s s' : ss_cur s' = ss_cur s -> ss_ll s' = ss_ll s.
  Proof. unfold ss_ll. intros ->. reflexivity. Qed.
  Lemma cur_rl s s' : ss_cur s' = ss_cur s -> ss_rl s' = ss_rl s.
  Proof. unfold ss_rl. intros ->. reflexivity. Qed.

  Theorem location_enumeration_total s version sched ls :
    reachable s -> translatable S cus -> parse_only cus sched = true ->
    iter_location_lists TL LL lv S version (loc_stream S version) cus = Ok ls ->
    exists ys s', iter_location_lists_sess TL LL lv S cus version (hooks_of sched) s = Ok (ys, s')
                  /\ map fst ys = ls.
  Proof.
    intros Hr Ht Hp H.
    destruct (iter_location_lists_sess_complete TL LL lv S cus version (hooks_of sched) s ls
                (reachable_good _ _ _ _ _ _ _ _ Hr) (parse_hooks_total TL TR S cus ss_ll sched cur_ll Ht Hp) H)
      as (ys & s' & E & Hm & _).
    eauto.
  Qed.

  Theorem range_enumeration_any_history s version sched ys s' :
    reachable s ->
    iter_range_lists_sess TR S cus version (hooks_of sched) s = Ok (ys, s') ->
    iter_range_lists TR S version (rng_stream S version) cus = Ok (map fst ys).
  Proof.
    intros Hr H.
    exact (proj1 (iter_range_lists_sess_sound TR S cus version _ s ys s' (reachable_good _ _ _ _ _ _ _ _ Hr)
                    (sched_hooks_inv TL TR S cus sched) H)).
  Qed.

  Theorem range_enumeration_total s version sched ls :
    reachable s -> translatable S cus -> parse_only cus sched = true ->
    iter_range_lists TR S version (rng_stream S version) cus = Ok ls ->
    exists ys s', iter_range_lists_sess TR S cus version (hooks_of sched) s = Ok (ys, s') /\ map fst ys = ls.
  Proof.
    intros Hr Ht Hp H.
    destruct (iter_range_lists_sess_complete TR S cus version (hooks_of sched) s ls
                (reachable_good _ _ _ _ _ _ _ _ Hr) (parse_hooks_total TL TR S cus ss_rl sched cur_rl Ht Hp) H)
      as (ys & s' & E & Hm & _).
    eauto.
  Qed.

  Theorem unit_blocks_any_history s sched :
    reachable s ->
    (forall ys s', iter_CUs_loc_sess LL S (hooks_of sched) s = Ok (ys, s') ->
                   iter_CUs LL (s_le S) 5 (loc_stream S 5) = Ok (map fst ys))
    /\ (forall ys s', iter_CUs_rng_sess LR S (hooks_of sched) s = Ok (ys, s') ->
                      iter_CUs LR (s_le S) 5 (rng_stream S 5) = Ok (map fst ys)).
  Proof.
    intros Hr. pose proof (reachable_good _ _ _ _ _ _ _ _ Hr) as Hg. split; intros ys s' H.
    - exact (proj1 (iter_CUs_loc_sess_sound LL S cus _ s ys s' Hg (sched_hooks_inv TL TR S cus sched) H)).
    - exact (proj1 (iter_CUs_rng_sess_sound LR S cus _ s ys s' Hg (sched_hooks_inv TL TR S cus sched) H)).
  Qed.

  Theorem unit_blocks_total s sched :
    reachable s -> translatable S cus -> parse_only cus sched = true ->
    (forall hs, iter_CUs LL (s_le S) 5 (loc_stream S 5) = Ok hs ->
                exists ys s', iter_CUs_loc_sess LL S (hooks_of sched) s = Ok (ys, s') /\ map fst ys = hs)
    /\ (forall hs, iter_CUs LR (s_le S) 5 (rng_stream S 5) = Ok hs ->
                   exists ys s', iter_CUs_rng_sess LR S (hooks_of sched) s = Ok (ys, s') /\ map fst ys = hs).
  Proof.
    intros Hr Ht Hp. pose proof (reachable_good _ _ _ _ _ _ _ _ Hr) as Hg.
    pose proof (parse_hooks_total TL TR S cus ss_ll sched cur_ll Ht Hp) as Hh. split; intros hs H.
    - destruct (iter_CUs_loc_sess_complete LL S cus _ s hs Hg Hh H) as (ys & s' & E & Hm & _). eauto.
    - destruct (iter_CUs_rng_sess_complete LR S cus _ s hs Hg Hh H) as (ys & s' & E & Hm & _). eauto.
  Qed.

  Theorem unit_block_lists_any_history s ui sched ys s' :
    reachable s -> op_in_domain S cus (OIterCUEx ui sched) = true ->
    iter_block_lists_sess TR LR S ui (hooks_of sched) s = Ok (ys, s') ->
    iter_block_lists TR LR S ui = Ok (map fst ys).
  Proof.
    intros Hr Hd H. cbn [op_in_domain] in Hd.
    exact (proj1 (iter_block_lists_sess_sound TR LR S cus ui _ s ys s' (reachable_good _ _ _ _ _ _ _ _ Hr)
                    (sched_hooks_keep_rl TL TR S cus sched Hd) H)).
  Qed.

  Theorem unit_block_lists_total s ui sched ls :
    reachable s -> translatable S cus -> parse_only cus sched = true ->
    iter_block_lists TR LR S ui = Ok ls ->
    exists ys s', iter_block_lists_sess TR LR S ui (hooks_of sched) s = Ok (ys, s') /\ map fst ys = ls.
  Proof.
    intros Hr Ht Hp H.
    destruct (iter_block_lists_sess_complete TR LR S cus ui (hooks_of sched) s ls
                (reachable_good _ _ _ _ _ _ _ _ Hr) (parse_hooks_total TL TR S cus ss_rl sched cur_rl Ht Hp) H)
      as (ys & s' & E & Hm & _).
    eauto.
  Qed.
End Statements.

(* ------------------------------------------------------------------ I. a concrete session *)
(* one .debug_loclists block (offset table [4], one list) and one .debug_rnglists block (no table, two
   lists at 12 and 16); one version-5 unit whose child DIE refers to the location list by index *)
Definition ex_loclists : list Z :=
  enc_unit true {| ub_is64 := false; ub_version := 5; ub_asz := 4; ub_seg := 0; ub_offsets := [4];
                   ub_body := enc_lle_list true 4 [LOffsetPair (1, 0%nat) (2, 0%nat) (0%nat, [0x50])] |}.
Definition ex_rnglists : list Z :=
  enc_unit true {| ub_is64 := false; ub_version := 5; ub_asz := 4; ub_seg := 0; ub_offsets := [];
                   ub_body := rng_body true 4 [[ROffsetPair (1, 0%nat) (2, 0%nat)]; [RStartLength 5 (6, 0%nat)]] |}.
Definition ex_S : sections :=
  {| s_le := true; s_asz := 4; s_loc := None; s_ranges := None;
     s_loclists := Some ex_loclists; s_rnglists := Some ex_rnglists; s_addr := None |}.
Definition ex_cus : list cuview :=
  [ {| cv_version := 5; cv_is64 := false; cv_asz := 4;
       cv_dies := [ [ {| a_name := "DW_AT_loclists_base"; a_form := "DW_FORM_sec_offset"; a_raw := AInt 12 |} ];
                    [ {| a_name := "DW_AT_location"; a_form := "DW_FORM_loclistx"; a_raw := AInt 0 |} ] ] |} ].
Definition ex_run := run_ops LLE_TABLES RLE_TABLES gen_loclists_CU_header gen_rnglists_CU_header gen_locview_pair ex_S ex_cus.

(* enumerating on the freshly opened file (the scan parses the indexed attribute), then again with the
   DIEs cached and the consumer re-walking them between the yields: both times the one list *)
Lemma ex_fresh_enumeration :
  exists ls, iter_location_lists LLE_TABLES gen_loclists_CU_header gen_locview_pair ex_S 5 (loc_stream ex_S 5) ex_cus = Ok ls
             /\ length ls = 1%nat
             /\ ex_run [OIterLoc 5 [[AParse 0 2]]; OAct (AFetch 0 1 "DW_AT_location"); OIterLoc 5 []] (fresh ex_cus)
                = (map (ETups "iter_location_lists") ls ++ [ETups "fetch" (concat ls)]
                   ++ map (ETups "iter_location_lists") ls, None).
Proof. eexists. split; [vm_compute; reflexivity|]. split; vm_compute; reflexivity. Qed.

Lemma ex_translatable : translatable ex_S ex_cus /\ parse_only ex_cus [[AParse 0 2]] = true.
Proof.
  split; [|reflexivity]. intros cv [<-|[]]. eexists. vm_compute. reflexivity.
Qed.

(* the boundary of the domain is tight: a consumer that fetches the second list between the first two
   yields of iter_CU_range_lists_ex leaves the stream at the end of the block, and the enumeration
   stops after one list instead of two *)
Lemma ex_same_stream_fetch :
  op_in_domain ex_S ex_cus (OIterCUEx 0 [[AGetRngEx 16]]) = false
  /\ iter_block_lists RLE_TABLES gen_rnglists_CU_header ex_S 0
     = Ok (rng_lists_raw true 4 12 [[ROffsetPair (1, 0%nat) (2, 0%nat)]; [RStartLength 5 (6, 0%nat)]])
  /\ value_of (iter_block_lists_sess RLE_TABLES gen_rnglists_CU_header ex_S 0
                 (map (run_acts LLE_TABLES RLE_TABLES ex_S ex_cus) [[AGetRngEx 16]]) (fresh ex_cus))
     = Ok [(rle_raw_meaning true 4 12 [ROffsetPair (1, 0%nat) (2, 0%nat)],
            [ERaw "get_range_list_at_offset_ex" (rle_raw_meaning true 4 16 [RStartLength 5 (6, 0%nat)])])].
Proof. split; [reflexivity|]. split; vm_compute; reflexivity. Qed.
