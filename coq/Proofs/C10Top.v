(* Proofs/C10Top.v — C10: generator creation and resumption, the one-step refinement theorem and its
   lift to every finite history. *)
From PV Require Import Spec.C10Spec Proofs.C10Base Proofs.C10Tree Proofs.C10Elf Proofs.C10Units Proofs.C10Lines
  Proofs.C10Main.
From Coq Require Import ZArith List Bool Lia ZifyBool.
Import ListNotations.
Open Scope Z_scope.

Section Top.
  Set Default Proof Using "All".
  Variable F : file.
  Hypothesis WF : wf_file F = true.
  Variable fuel : nat.
  Hypothesis Hfuel : fuel_ok F fuel = true.
  Let P := parsers_of F.
  Let WFe := WFe F WF fuel Hfuel.
  Let Hfu := Hfu F WF fuel Hfuel.
  Let Hfd := Hfd F WF fuel Hfuel.

  Notation refines := (refines F fuel).

  (* ================================================================ generator creation *)
  Lemma set_slot_eq slot f s : set_slot slot f s = (set_frames s (upd_nth slot (fun _ => f) (frames s)), Ok tt).
  Proof. reflexivity. Qed.

  Lemma first_unit : 0 < f_info_size F -> exists ud, unit_at F 0 = Some ud.
  Proof.
    intros H. destruct (wf_file_parts F WF) as (Hc & _).
    assert (G : forall l, units_chain 0 l (f_info_size F) = true -> exists ud, In ud l /\ ud_off ud = 0).
    { intros [|ud r] Hl; cbn [units_chain] in Hl; [lia|]. exists ud.
      apply andb_prop in Hl. destruct Hl as [Hl _]. apply andb_prop in Hl. destruct Hl as [Hl _].
      split; [cbn; auto|lia]. }
    destruct (G _ Hc) as (ud & Hin & E0). exists ud. rewrite <- E0. apply (unit_at_self F WF). exact Hin.
  Qed.

  Lemma ref_NewIterCUs s afs slot : Inv F s -> frames_rel F s afs -> refines s afs (NewIterCUs slot).
  Proof.
    intros HI Hfr. eapply (new_finish F WF fuel Hfuel) with (s1 := s) (f := FCUs 0) (af := AFCUs 0);
      [exact Hfr|reflexivity|exact HI|apply ext_refl| |reflexivity].
    constructor. apply first_unit.
  Qed.

  Lemma ref_NewIterSections s afs slot : Inv F s -> frames_rel F s afs -> refines s afs (NewIterSections slot).
  Proof.
    intros HI Hfr. eapply (new_finish F WF fuel Hfuel) with (s1 := s) (f := FSections 0 None) (af := AFSections 0);
      [exact Hfr|reflexivity|exact HI|apply ext_refl| |reflexivity].
    constructor; [lia|auto].
  Qed.

  Lemma ref_NewIterSymbols s afs slot : Inv F s -> frames_rel F s afs -> valid_op F (NewIterSymbols slot) = true ->
    refines s afs (NewIterSymbols slot).
  Proof.
    intros HI Hfr Hv. eapply (new_finish F WF fuel Hfuel) with (s1 := s) (f := FSymbols 0 None) (af := AFSymbols 0);
      [exact Hfr|reflexivity|exact HI|apply ext_refl| |reflexivity].
    constructor; [lia|exact Hv|auto].
  Qed.

  Lemma ref_NewIterTags s afs slot : Inv F s -> frames_rel F s afs -> valid_op F (NewIterTags slot) = true ->
    refines s afs (NewIterTags slot).
  Proof.
    intros HI Hfr Hv. eapply (new_finish F WF fuel Hfuel) with (s1 := s) (f := FTags 0 false) (af := AFTags 0 false);
      [exact Hfr|reflexivity|exact HI|apply ext_refl| |reflexivity].
    constructor; [lia|exact Hv|]. intros _ nt Hct. destruct (count_tags_spec _ _ Hct) as (Hb & _). lia.
  Qed.

  Lemma ref_NewIterDIEs s afs slot u : Inv F s -> frames_rel F s afs -> valid_op F (NewIterDIEs slot u) = true ->
    refines s afs (NewIterDIEs slot u).
  Proof.
    intros HI Hfr Hv. cbn [valid_op] in Hv. destruct (has_unit_some F WF fuel Hfuel _ Hv) as (ud & Hu).
    destruct (get_CU_at_ok F WF fuel Hfu s u ud HI Hu) as (s1 & id & E1 & HI1 & X1 & Hat).
    destruct (cu_at_facts F WF fuel Hfu _ _ _ HI1 Hat) as (c & ud' & Hc & Eo & Hu' & Eh & Ed & Hwud).
    assert (ud' = ud) by congruence. subst ud'.
    destruct (get_top_DIE_ok F WF fuel Hfu s1 id c HI1 Hc) as (s2 & top & E2 & HI2 & X2 & Htop & _).
    rewrite Eo, Ed in Htop.
    eapply (new_finish F WF fuel Hfuel) with (s1 := s2) (f := FSubtree [mk_sl top PStart])
                                              (af := AFSubtree u [(ud_die_off ud, APStart)]);
      [exact Hfr| |exact HI2|eapply ext_trans; eauto| |].
    - cbn [run_op]. fold P. rewrite (bind_ok _ _ _ _ _ E1), (bind_ok _ _ _ _ _ E2). reflexivity.
    - constructor; [constructor; [|constructor]; constructor; exact Htop|].
      right. exists ud, [ud_tree ud]. split; [exact Hu|]. split; [|split; [exact I|reflexivity]].
      cbn [map fst]. f_equal. apply (wf_unit_facts F WF ud Hwud).
    - cbn [spec_step]. rewrite Hu. reflexivity.
  Qed.

  Lemma ref_NewIterChildren s afs slot u o : Inv F s -> frames_rel F s afs ->
    valid_op F (NewIterChildren slot u o) = true -> refines s afs (NewIterChildren slot u o).
  Proof.
    intros HI Hfr Hv. cbn [valid_op] in Hv. destruct (valid_die_some F WF fuel Hfuel _ _ Hv) as (e & He).
    destruct (the_DIE_ok F WF fuel Hfu s u o e HI He) as (s1 & id & E1 & HI1 & X1 & Hat).
    eapply (new_finish F WF fuel Hfuel) with (s1 := s1) (f := FChildren (CStart id)) (af := AFChildren u (ACStart o));
      [exact Hfr| |exact HI1|exact X1| |reflexivity].
    - cbn [run_op]. fold P. rewrite (bind_ok _ _ _ _ _ E1). reflexivity.
    - constructor. constructor. exact Hat.
  Qed.

  Lemma ref_NewIterSiblings s afs slot u o : Inv F s -> frames_rel F s afs ->
    valid_op F (NewIterSiblings slot u o) = true -> refines s afs (NewIterSiblings slot u o).
  Proof.
    intros HI Hfr Hv. cbn [valid_op] in Hv. destruct (valid_die_some F WF fuel Hfuel _ _ Hv) as (e & He).
    destruct (the_DIE_ok F WF fuel Hfu s u o e HI He) as (s1 & id & E1 & HI1 & X1 & Hat).
    eapply (new_finish F WF fuel Hfuel) with (s1 := s1) (f := FSiblings id None) (af := AFSiblings u o None);
      [exact Hfr| |exact HI1|exact X1| |reflexivity].
    - cbn [run_op]. fold P. rewrite (bind_ok _ _ _ _ _ E1). reflexivity.
    - constructor. exact Hat.
  Qed.

  (* ================================================================ next(generator) *)
  (* what one resumption of the generator in a slot has to establish *)
  Definition next_ok (s : state) (f : frame) (af : aframe) : Prop :=
    exists s1 r, frame_next P fuel f s = (s1, r) /\ Inv F s1 /\ ext s s1 /\
      match aframe_next F af with
      | Some (af', a) => exists f', r = Ok (Some (f', a)) /\ frame_rel F s1 f' af'
      | None => r = if siblings_of_top F af then Err (EPy "RuntimeError") else Ok None
      end.

  Lemma next_finish s afs slot : Inv F s -> frames_rel F s afs ->
    next_ok s (nth slot (frames s) FEmpty) (nth slot afs AFEmpty) -> refines s afs (Next slot).
  Proof.
    intros HI Hfr (s1 & r & E & HI1 & X1 & Hm). unfold refines, step. cbn [run_op spec_step]. fold P. rewrite E.
    pose proof (frames_rel_ext F _ _ _ X1 Hfr) as Hfr1.
    destruct (aframe_next F (nth slot afs AFEmpty)) as [[af' a]|].
    - destruct Hm as (f' & -> & Hf'). rewrite set_slot_eq. cbn [fst snd].
      split; [reflexivity|]. split; [apply Inv_set_frames; exact HI1|]. apply frames_rel_set_slot; auto.
    - subst r. destruct (siblings_of_top F (nth slot afs AFEmpty)); rewrite set_slot_eq; cbn [fst snd];
        (split; [reflexivity|]); (split; [apply Inv_set_frames; exact HI1|]); apply frames_rel_set_slot; auto; constructor.
  Qed.

  Lemma next_empty s : Inv F s -> next_ok s FEmpty AFEmpty.
  Proof. intros HI. exists s, (Ok None). split; [reflexivity|]. split; [exact HI|]. split; [apply ext_refl|reflexivity]. Qed.

  Lemma next_cus s off : Inv F s -> frame_rel F s (FCUs off) (AFCUs off) -> next_ok s (FCUs off) (AFCUs off).
  Proof.
    intros HI Hf. inversion Hf as [|? Hu| | | | | | | |]. subst. unfold next_ok. cbn [frame_next aframe_next].
    destruct (Z.ltb_spec off (f_info_size F)) as [Hlt|Hge].
    - destruct (Hu Hlt) as (ud & Hud). rewrite Hud.
      destruct (cus_iter_next_ok F WF fuel Hfu s off ud HI Hud) as (s1 & id & E1 & HI1 & X1 & Hat).
      exists s1, (Ok (Some (FCUs (off + usize ud), unit_ans ud))). fold P in E1.
      rewrite (bind_ok _ _ _ _ _ E1). rewrite (bind_ok _ _ _ _ _ (cu_answer_ok F WF fuel Hfuel s1 id off ud HI1 Hat Hud)).
      split; [reflexivity|]. split; [exact HI1|]. split; [exact X1|].
      eexists. split; [reflexivity|]. constructor. intros Hlt2.
      destruct (unit_next F WF _ _ Hud) as [E|H]; [unfold usize in *; lia|exact H].
    - exists s, (Ok None). split.
      + unfold cus_iter_next. replace (p_info_size P) with (f_info_size F) by reflexivity.
        destruct (Z.ltb_spec off (f_info_size F)); [lia|]. reflexivity.
      + split; [exact HI|]. split; [apply ext_refl|reflexivity].
  Qed.

  Lemma next_sections s i n : Inv F s -> frame_rel F s (FSections i n) (AFSections i) ->
    next_ok s (FSections i n) (AFSections i).
  Proof.
    intros HI Hf. inversion Hf as [| | | | | | |? ? Hi Hn| |]. subst. unfold next_ok. cbn [frame_next aframe_next].
    destruct (wf_elf_facts F WFe fuel Hfd) as (_ & _ & Hnum & _).
    assert (En : forall s0, (match n with Some n0 => ret n0 | None => num_sections P end) s0 = (s0, Ok (f_shnum F))).
    { intros s0. destruct Hn as [->| ->]; [apply (num_sections_ok F WFe fuel Hfd)|reflexivity]. }
    destruct (in_table i (f_shdrs F)) eqn:Hin.
    - destruct (get_section_ok F WFe fuel Hfd s i (Inv_curlen F WF fuel Hfuel _ HI) Hin) as (v & Hsv & (c1 & E1 & L1)).
      rewrite Hsv. exists (set_cur s c1), (Ok (Some (FSections (i + 1) (Some (f_shnum F)), AVals v))).
      split.
      + assert (Es : sections_next P i n s = (set_cur s c1, Ok (Some (FSections (i + 1) (Some (f_shnum F)), v)))).
        { unfold sections_next. rewrite (bind_ok _ _ _ _ _ (En s)).
          pose proof (in_table_range _ _ Hin). destruct (Z.ltb_spec i (f_shnum F)); [|lia].
          fold P in E1. rewrite (bind_ok _ _ _ _ _ E1). reflexivity. }
        rewrite (bind_ok _ _ _ _ _ Es). reflexivity.
      + split; [apply Inv_set_cur; auto|]. split; [apply ext_set_cur|].
        eexists. split; [reflexivity|]. constructor; [lia|auto].
    - exists s, (Ok None). split.
      + assert (Es : sections_next P i n s = (s, Ok None)).
        { unfold sections_next. rewrite (bind_ok _ _ _ _ _ (En s)).
          unfold in_table in Hin. destruct (Z.ltb_spec i (f_shnum F)); [lia|]. reflexivity. }
        rewrite (bind_ok _ _ _ _ _ Es). reflexivity.
      + split; [exact HI|]. split; [apply ext_refl|reflexivity].
  Qed.

  Lemma next_symbols s i n : Inv F s -> frame_rel F s (FSymbols i n) (AFSymbols i) ->
    next_ok s (FSymbols i n) (AFSymbols i).
  Proof.
    intros HI Hf. inversion Hf as [| | | | | | | |? ? Hi Hst Hn|]. subst. unfold next_ok. cbn [frame_next aframe_next].
    assert (En : match n with Some n0 => n0 | None => p_sym_count P end = f_sym_count F).
    { destruct Hn as [->| ->]; reflexivity. }
    destruct (in_table i (f_syms F)) eqn:Hin.
    - destruct (get_symbol_ok F WFe fuel Hfd s i (Inv_curlen F WF fuel Hfuel _ HI) Hin) as (v & Hsv & (c1 & E1 & L1)).
      rewrite Hsv. exists (set_cur s c1), (Ok (Some (FSymbols (i + 1) (Some (f_sym_count F)), AVals v))).
      split.
      + assert (Es : symbols_next P i n s = (set_cur s c1, Ok (Some (FSymbols (i + 1) (Some (f_sym_count F)), v)))).
        { unfold symbols_next. rewrite En.
          pose proof (in_table_range _ _ Hin). unfold f_sym_count. destruct (Z.ltb_spec i (zlen (f_syms F))); [|lia].
          fold P in E1. rewrite (bind_ok _ _ _ _ _ E1). reflexivity. }
        rewrite (bind_ok _ _ _ _ _ Es). reflexivity.
      + split; [apply Inv_set_cur; auto|]. split; [apply ext_set_cur|].
        eexists. split; [reflexivity|]. constructor; [lia|exact Hst|auto].
    - exists s, (Ok None). split.
      + assert (Es : symbols_next P i n s = (s, Ok None)).
        { unfold symbols_next. rewrite En. unfold f_sym_count.
          unfold in_table in Hin. destruct (Z.ltb_spec i (zlen (f_syms F))); [lia|]. reflexivity. }
        rewrite (bind_ok _ _ _ _ _ Es). reflexivity.
      + split; [exact HI|]. split; [apply ext_refl|reflexivity].
  Qed.

  Lemma next_tags s n fin : Inv F s -> frame_rel F s (FTags n fin) (AFTags n fin) ->
    next_ok s (FTags n fin) (AFTags n fin).
  Proof.
    intros HI Hf. inversion Hf as [| | | | | | | | |? ? Hn Hdy Hlt]. subst. unfold next_ok. cbn [frame_next aframe_next].
    destruct fin.
    - exists s, (Ok None). split; [reflexivity|]. split; [exact HI|]. split; [apply ext_refl|reflexivity].
    - destruct (has_dyn_facts F WF fuel Hfuel Hdy) as (Hes & nt & Hct).
      specialize (Hlt eq_refl nt Hct).
      destruct (count_tags_spec _ _ Hct) as (Hb & (tn & en & Hnull & Hnn) & _).
      destruct (nth_error (f_dyns F) (Z.to_nat n)) as [[t e]|] eqn:Hnth; [|apply nth_error_None in Hnth; unfold zlen in Hb; lia].
      assert (X : cur_only (raw_get_tag P n) s (Ok t)).
      { eapply (raw_get_tag_ok F WFe fuel Hfd); eauto; try lia; try (apply (Inv_curlen F WF fuel Hfuel _ HI)).
        destruct (inv_numtags _ _ HI) as [E|E]; [auto|right; rewrite Hct in E; inversion E; lia]. }
      destruct X as (c1 & E1 & L1).
      destruct (cur_only_apply_eff (dy_eff t) (set_cur s c1)) as (c2 & E2 & L2).
      exists (set_cur s c2), (Ok (Some (FTags (n + 1) (dy_null t), AVals [dy_pid t]))).
      split.
      + assert (Es : tags_next P n false s = (set_cur s c2, Ok (Some (FTags (n + 1) (dy_null t), [dy_pid t])))).
        { unfold tags_next. rewrite (bind_ok _ _ _ _ _ E1), (bind_ok _ _ _ _ _ E2). reflexivity. }
        rewrite (bind_ok _ _ _ _ _ Es). reflexivity.
      + split; [apply Inv_set_cur; auto; cbn [cur set_cur] in L2; congruence|]. split; [apply ext_set_cur|].
        eexists. split; [reflexivity|]. constructor; [lia|exact Hdy|].
        intros Et nt' Hct'. assert (nt' = nt) by congruence. subst nt'.
        assert (n <> nt - 1) by (intros ->; congruence). lia.
  Qed.

End Top.
