(* Proofs/C07Classify.v — attribute classification.  gen_loc_classification is the graph of
   LocationParser.attribute_has_location / parse_from_attribute on every (version 2..5, attribute
   name, form) the library knows, evaluated on the live code.  Finite sweeps (vm_compute):
   the hand model equals it everywhere, and wherever the DWARF class tables give the combination a
   unique reading (std_classify = Some c) the code's answer is c. *)
From Coq Require Import String.
From PV Require Import Base.Bytes Model.C07Kinds Model.C07Lists Gen.C07Tables Spec.C07Lists.
From Coq Require Import ZArith List Bool Lia.
Import ListNotations.
Open Scope string_scope.
Open Scope list_scope.
Open Scope Z_scope.

Definition rows_for (v : Z) (n : string) : list (string * Z) :=
  flat_map (fun r => match r with
                     | ((v', n', f), c) => if (v =? v') && String.eqb n n' then [(f, c)] else []
                     end) gen_loc_classification.
Definition lookup_form (rows : list (string * Z)) (f : string) : Z :=
  match assoc rows f with Some c => c | None => 0 end.
(* what the code answers: 1 = expression, 2 = list, 0 = no location information (ValueError) *)
Definition gen_classify (v : Z) (n f : string) : Z := lookup_form (rows_for v n) f.

Definition sweep_ok (check : Z -> string -> string -> Z -> bool) : bool :=
  forallb (fun v =>
    forallb (fun n => let rows := rows_for v n in
                      forallb (fun f => check v n f (lookup_form rows f)) gen_DW_FORM_names)
            gen_DW_AT_names) VERSIONS.

Lemma sweep_ok_sound check :
  sweep_ok check = true ->
  forall v n f, In v VERSIONS -> In n gen_DW_AT_names -> In f gen_DW_FORM_names ->
  check v n f (gen_classify v n f) = true.
Proof.
  unfold sweep_ok. intros H v n f Hv Hn Hf.
  rewrite forallb_forall in H. specialize (H v Hv).
  rewrite forallb_forall in H. specialize (H n Hn). cbv zeta in H.
  rewrite forallb_forall in H. exact (H f Hf).
Qed.

Lemma model_sweep : sweep_ok (fun v n f c => classify_attribute n f v =? c) = true.
Proof. vm_compute. reflexivity. Qed.

Lemma std_sweep :
  sweep_ok (fun v n f c => match std_classify v n f with Some k => lclass_code k =? c | None => true end) = true.
Proof. vm_compute. reflexivity. Qed.

(* model = code on the whole finite domain *)
Theorem classification_model_is_code v n f :
  In v VERSIONS -> In n gen_DW_AT_names -> In f gen_DW_FORM_names ->
  classify_attribute n f v = gen_classify v n f.
Proof.
  intros Hv Hn Hf. apply Z.eqb_eq. exact (sweep_ok_sound _ model_sweep v n f Hv Hn Hf).
Qed.

(* classification: versions 2..5 x every attribute name x every form of the library's enums *)
Theorem classification_standard v n f c :
  In v VERSIONS -> In n gen_DW_AT_names -> In f gen_DW_FORM_names ->
  std_classify v n f = Some c ->
  gen_classify v n f = lclass_code c /\ classify_attribute n f v = lclass_code c.
Proof.
  intros Hv Hn Hf Hstd.
  pose proof (sweep_ok_sound _ std_sweep v n f Hv Hn Hf) as H. cbv beta in H. rewrite Hstd in H.
  apply Z.eqb_eq in H. split; [auto|]. rewrite classification_model_is_code; auto.
Qed.

(* non-vacuity: how many (version, name, form) combinations the standard decides *)
Definition decided : nat :=
  length (filter (fun vnf => match vnf with (v, (n, f)) =>
                    match std_classify v n f with Some _ => true | None => false end end)
                 (list_prod VERSIONS (list_prod gen_DW_AT_names gen_DW_FORM_names))).
Lemma decided_many : (300 <=? decided)%nat = true.
Proof. vm_compute. reflexivity. Qed.
