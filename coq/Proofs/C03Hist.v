(* Proofs/C03Hist.v — SymbolTableSection as an object with state (self._symbol_name_map):
   after ANY history of calls on one object (num_symbols, get_symbol, enumerations abandoned
   after any number of steps, earlier lookups by name) every call answers what the stateless
   specification says; in particular lookup by name is history-free.  Invariant: the attribute
   is None or the COMPLETE name map; it is preserved by every call (lifted over the run). *)
From PV Require Import Base.Fmt Base.Outcome Base.Prim Gen.ElfLayouts Spec.ElfGabi Spec.PrimSpec
                       Spec.C03Sym Spec.C03Hash Model.C03Sections.
From PV Require Import Proofs.C03Sysv Proofs.C03Gnu Proofs.C03Sym.
From Coq Require Import Lia ZifyBool.
Open Scope list_scope.
Open Scope Z_scope.

(* how the model's observations render the specification's answers *)
Definition obs_of (a : sanswer) : symobs :=
  match a with
  | ANum z => ObsNum z
  | ASym v => ObsSym (Ok v)
  | ASyms l => ObsSyms (Ok l)
  | AByName o => ObsByName (Ok o)
  end.
Definition op_of (c : scall) : symop :=
  match c with CNum => OpNum | CGet n => OpGet n | CIter k => OpIter k | CByName q => OpByName q end.

Lemma take_ok_mapM {A B} (f : A -> res B) : forall l ys, mapM f l = Ok ys -> take_ok f l = (ys, None).
Proof.
  induction l as [|x l IH]; intros ys H; cbn [mapM take_ok] in *.
  - inversion H. reflexivity.
  - destruct (f x) as [y|e]; [|discriminate]. cbn [bind] in H.
    destruct (mapM f l) as [zs|e]; [|discriminate]. cbn [bind] in H. inversion H; subst.
    rewrite (IH zs eq_refl). reflexivity.
Qed.

Section hist.
Variables (le is64 : bool) (es : Z) (rows : list row) (strtab img : list Z) (off size stroff : Z).
Hypothesis Hok : symtab_ok is64 es rows = true.
Hypothesis Hnames : names_ok strtab rows = true.
Hypothesis Hsym : placed img off (encode_symtab le is64 rows).
Hypothesis Hstr : placed img stroff strtab.
Hypothesis Hsize : es * zlen rows <= size < es * (zlen rows + 1).

Let c := mkSymCfg le is64 (mkSec off size es) stroff.
Let vs := views strtab rows.
Let full_map := name_map_go [] 0 vs.

(* the attribute is None or the complete map *)
Definition memo_ok (st : memo) : Prop := st = None \/ st = Some full_map.

Let Hnum : num_symbols c = zlen rows := num_symbols_exact le is64 es rows off size stroff Hok Hsize.
Let Hiter : iter_symbols img c = Ok vs :=
  iter_symbols_exact le is64 es rows strtab img off size stroff Hok Hnames Hsym Hstr Hsize.
Let Hget : forall i, 0 <= i < zlen rows -> get_symbol img c i = Ok (vth vs i) :=
  get_symbol_exact le is64 es rows strtab img off size stroff Hok Hnames Hsym Hstr.

Lemma zlen_vs : zlen vs = zlen rows.
Proof. unfold vs, views, zlen. rewrite map_length. reflexivity. Qed.

(* lookup through the complete map *)
Lemma by_name_with_full q : get_symbol_by_name_with img c full_map q = Ok (by_name_spec strtab rows q).
Proof.
  pose proof (by_name_exact le is64 es rows strtab img off size stroff Hok Hnames Hsym Hstr Hsize q) as H.
  unfold get_symbol_by_name, build_symbol_name_map in H. fold c in H. rewrite Hiter in H. exact H.
Qed.

Lemma by_name_st_ok st q : memo_ok st ->
  get_symbol_by_name_st img c st q = (Some full_map, Ok (by_name_spec strtab rows q)).
Proof.
  intros [->| ->]; unfold get_symbol_by_name_st.
  - assert (E : take_ok (get_symbol img c) (py_range 0 (num_symbols c)) = (vs, None))
      by (apply take_ok_mapM; exact Hiter).
    rewrite E. fold full_map. rewrite by_name_with_full. reflexivity.
  - rewrite by_name_with_full. reflexivity.
Qed.

(* an enumeration abandoned after k steps has yielded the first k symbols (all of them when k is larger) *)
Lemma iter_prefix_ok k : 0 <= k -> iter_symbols_prefix img c k = Ok (firstn (Z.to_nat k) vs).
Proof.
  intros Hk. unfold iter_symbols_prefix, py_range. rewrite Hnum.
  set (l := firstn (Z.to_nat k) vs).
  assert (Hl : length l = Z.to_nat (Z.min k (zlen rows) - 0)).
  { unfold l. rewrite firstn_length. pose proof zlen_vs as Hz. unfold zlen in *. lia. }
  rewrite <- Hl. apply (mapM_range _ dview). intros j Hj. replace (0 + j) with j by lia.
  assert (Hjr : 0 <= j < zlen rows /\ j < k).
  { unfold zlen in Hj at 1. rewrite Hl in Hj. lia. }
  rewrite Hget by lia. f_equal. unfold vth, l.
  rewrite <- (firstn_skipn (Z.to_nat k) vs) at 1.
  rewrite app_nth1; [reflexivity|]. fold l. rewrite Hl. lia.
Qed.

Lemma step_ok st call : memo_ok st -> call_ok rows call = true ->
  exists st', sym_step img c st (op_of call) = (st', obs_of (answer strtab rows call)) /\ memo_ok st'.
Proof.
  intros Hst Hc. destruct call as [|n|k|q]; cbn [op_of sym_step answer obs_of call_ok] in *.
  - exists st. rewrite Hnum. split; [reflexivity|exact Hst].
  - exists st. unfold below in Hc. rewrite Hget by lia. split; [reflexivity|exact Hst].
  - exists st. rewrite iter_prefix_ok by lia. split; [reflexivity|exact Hst].
  - exists (Some full_map). rewrite by_name_st_ok by exact Hst. split; [reflexivity|right; reflexivity].
Qed.

Lemma run_ok : forall calls st, memo_ok st -> forallb (call_ok rows) calls = true ->
  exists st', sym_run img c st (map op_of calls) = (st', map (fun call => obs_of (answer strtab rows call)) calls)
              /\ memo_ok st'.
Proof.
  induction calls as [|call calls IH]; intros st Hst Hc.
  - exists st. split; [reflexivity|exact Hst].
  - cbn [forallb] in Hc. apply andb_true_iff in Hc. destruct Hc as [Hc1 Hc2].
    destruct (step_ok st call Hst Hc1) as [st1 [E1 Hst1]].
    destruct (IH st1 Hst1 Hc2) as [st2 [E2 Hst2]].
    exists st2. cbn [map sym_run]. rewrite E1, E2. split; [reflexivity|exact Hst2].
Qed.

(* every call of every history on a fresh object answers as the stateless specification does *)
Theorem history_free calls : forallb (call_ok rows) calls = true ->
  snd (sym_run img c None (map op_of calls)) = map (fun call => obs_of (answer strtab rows call)) calls.
Proof.
  intros Hc. destruct (run_ok calls None (or_introl eq_refl) Hc) as [st' [E _]]. rewrite E. reflexivity.
Qed.

(* in particular: lookup by name after any history *)
Theorem by_name_after_history calls q : forallb (call_ok rows) calls = true ->
  snd (sym_run img c None (map op_of calls ++ [OpByName q]))
  = map (fun call => obs_of (answer strtab rows call)) calls ++ [ObsByName (Ok (by_name_spec strtab rows q))].
Proof.
  intros Hc.
  pose proof (history_free (calls ++ [CByName q])) as H.
  rewrite !map_app in H. cbn [map op_of obs_of answer] in H. apply H.
  rewrite forallb_app, Hc. reflexivity.
Qed.
End hist.
