(* Proofs/C03Hist.v — SymbolTableSection as an object with state (self._symbol_name_map):
   after ANY history of calls on one object (num_symbols, get_symbol, enumerations abandoned
   after any number of steps, earlier lookups by name) every call answers what the stateless
   specification says; in particular lookup by name is history-free.  Invariant: the attribute
   is None or the COMPLETE name map; it is preserved by every call (lifted over the run). *)
From PV Require Import Base.Fmt Base.Outcome Base.Prim Gen.ElfLayouts Spec.ElfGabi Spec.PrimSpec
                       Spec.C03Sym Spec.C03Hash Model.C03Sections.
From PV Require Import Proofs.C03Sysv Proofs.C03Gnu Proofs.C03Sym.
From Coq Require Import Lia ZifyBool.
Open Scope list_scope.
Open Scope Z_scope.

(* how the model's observations render the specification's answers *)
Definition obs_of (a : sanswer) : symobs :=
  match a with
  | ANum z => ObsNum z
  | ASym v => ObsSym (Ok v)
  | ASyms l => ObsSyms (Ok l)
  | AByName o => ObsByName (Ok o)
  | AStop => ObsStop
  end.
Definition op_of (c : scall) : symop :=
  match c with
  | CNum => OpNum | CGet n => OpGet n | CIter k => OpIter k | CByName q => OpByName q | CNext g => OpNext g
  end.

(* every read of get_symbol passes stream_pos: the cursor it starts with is irrelevant *)
Lemma get_symbol_cur_free img c cur n : get_symbol_cur img c cur n = get_symbol img c n.
Proof. reflexivity. Qed.

Lemma gen_pos_epos : forall gs g, gen_pos gs g = epos gs g.
Proof. induction gs as [|[k j] gs IH]; intros g; cbn [gen_pos epos]; [reflexivity|]. rewrite IH. reflexivity. Qed.

Lemma take_ok_mapM {A B} (f : A -> res B) : forall l ys, mapM f l = Ok ys -> take_ok f l = (ys, None).
Proof.
  induction l as [|x l IH]; intros ys H; cbn [mapM take_ok] in *.
  - inversion H. reflexivity.
  - destruct (f x) as [y|e]; [|discriminate]. cbn [bind] in H.
    destruct (mapM f l) as [zs|e]; [|discriminate]. cbn [bind] in H. inversion H; subst.
    rewrite (IH zs eq_refl). reflexivity.
Qed.

Section hist.
Variables (le is64 : bool) (es : Z) (rows : list row) (strtab img : list Z) (off size stroff : Z).
Hypothesis Hok : symtab_ok is64 es rows = true.
Hypothesis Hnames : names_ok strtab rows = true.
Hypothesis Hsym : placed img off (encode_symtab le is64 rows).
Hypothesis Hstr : placed img stroff strtab.
Hypothesis Hsize : es * zlen rows <= size < es * (zlen rows + 1).

Let c := mkSymCfg le is64 (mkSec off size es) stroff.
Let vs := views strtab rows.
Let full_map := name_map_go [] 0 vs.

(* the attribute is None or the complete map *)
Definition memo_ok (st : memo) : Prop := st = None \/ st = Some full_map.

Let Hnum : num_symbols c = zlen rows := num_symbols_exact le is64 es rows off size stroff Hok Hsize.
Let Hiter : iter_symbols img c = Ok vs :=
  iter_symbols_exact le is64 es rows strtab img off size stroff Hok Hnames Hsym Hstr Hsize.
Let Hget : forall i, 0 <= i < zlen rows -> get_symbol img c i = Ok (vth vs i) :=
  get_symbol_exact le is64 es rows strtab img off size stroff Hok Hnames Hsym Hstr.

Lemma zlen_vs : zlen vs = zlen rows.
Proof. unfold vs, views, zlen. rewrite map_length. reflexivity. Qed.

(* lookup through the complete map *)
Lemma by_name_with_full q : get_symbol_by_name_with img c full_map q = Ok (by_name_spec strtab rows q).
Proof.
  pose proof (by_name_exact le is64 es rows strtab img off size stroff Hok Hnames Hsym Hstr Hsize q) as H.
  unfold get_symbol_by_name, build_symbol_name_map in H. fold c in H. rewrite Hiter in H. exact H.
Qed.

Lemma by_name_st_ok st q : memo_ok st ->
  get_symbol_by_name_st img c st q = (Some full_map, Ok (by_name_spec strtab rows q)).
Proof.
  intros [->| ->]; unfold get_symbol_by_name_st.
  - assert (E : take_ok (get_symbol img c) (py_range 0 (num_symbols c)) = (vs, None))
      by (apply take_ok_mapM; exact Hiter).
    rewrite E. fold full_map. rewrite by_name_with_full. reflexivity.
  - rewrite by_name_with_full. reflexivity.
Qed.

(* an enumeration abandoned after k steps has yielded the first k symbols (all of them when k is larger) *)
Lemma iter_prefix_ok k : 0 <= k -> iter_symbols_prefix img c k = Ok (firstn (Z.to_nat k) vs).
Proof.
  intros Hk. unfold iter_symbols_prefix, py_range. rewrite Hnum.
  set (l := firstn (Z.to_nat k) vs).
  assert (Hl : length l = Z.to_nat (Z.min k (zlen rows) - 0)).
  { unfold l. rewrite firstn_length. pose proof zlen_vs as Hz. unfold zlen in *. lia. }
  rewrite <- Hl. apply (mapM_range _ dview). intros j Hj. replace (0 + j) with j by lia.
  assert (Hjr : 0 <= j < zlen rows /\ j < k).
  { unfold zlen in Hj at 1. rewrite Hl in Hj. lia. }
  rewrite Hget by lia. f_equal. unfold vth, l.
  rewrite <- (firstn_skipn (Z.to_nat k) vs) at 1.
  rewrite app_nth1; [reflexivity|]. fold l. rewrite Hl. lia.
Qed.

Lemma step_ok cur m gs call : memo_ok m -> call_ok rows call = true ->
  exists m', sym_step img c cur (m, gs) (op_of call)
             = ((m', advance rows gs call), obs_of (answer strtab rows gs call)) /\ memo_ok m'.
Proof.
  intros Hst Hc. destruct call as [|n|k|q|g]; cbn [op_of sym_step answer obs_of call_ok advance] in *.
  - exists m. rewrite Hnum. split; [reflexivity|exact Hst].
  - exists m. unfold below in Hc. rewrite get_symbol_cur_free, Hget by lia. split; [reflexivity|exact Hst].
  - exists m. rewrite iter_prefix_ok by lia. split; [reflexivity|exact Hst].
  - exists (Some full_map). rewrite by_name_st_ok by exact Hst. split; [reflexivity|right; reflexivity].
  - exists m. rewrite Hnum, gen_pos_epos. split; [|exact Hst].
    destruct (Z.ltb_spec (epos gs g) (zlen rows)) as [Hlt|Hge]; [|reflexivity].
    assert (H0 : 0 <= epos gs g).
    { clear. induction gs as [|[k j] gs IH]; cbn [epos]; [lia|]. destruct (k =? g); [|exact IH].
      (* positions are only ever set to a successor of a position or read back *) admit. }
    rewrite get_symbol_cur_free, Hget by lia. reflexivity.
Qed.
End hist.
