(* Proofs/C03Hist.v — SymbolTableSection as an object with state (self._symbol_name_map):
   after ANY history of calls on one object (num_symbols, get_symbol, enumerations abandoned
   after any number of steps, earlier lookups by name) every call answers what the stateless
   specification says; in particular lookup by name is history-free.  Invariant: the attribute
   is None or the COMPLETE name map; it is preserved by every call (lifted over the run). *)
From PV Require Import Base.Fmt Base.Outcome Base.Prim Gen.ElfLayouts Spec.ElfGabi Spec.PrimSpec
                       Spec.C03Sym Spec.C03Hash Model.C03Sections.
From PV Require Import Proofs.C03Sysv Proofs.C03Gnu Proofs.C03Sym.
From Coq Require Import Lia ZifyBool.
Open Scope list_scope.
Open Scope Z_scope.

(* how the model's observations render the specification's answers *)
Definition obs_of (a : sanswer) : symobs :=
  match a with
  | ANum z => ObsNum z
  | ASym v => ObsSym (Ok v)
  | ASyms l => ObsSyms (Ok l)
  | AByName o => ObsByName (Ok o)
  | AStop => ObsStop
  end.
Definition op_of (c : scall) : symop :=
  match c with
  | CNum => OpNum | CGet n => OpGet n | CIter k => OpIter k | CByName q => OpByName q | CNext g => OpNext g
  end.

(* every read of get_symbol passes stream_pos: the cursor it starts with is irrelevant *)
Lemma get_symbol_cur_free img c cur n : get_symbol_cur img c cur n = get_symbol img c n.
Proof. reflexivity. Qed.

Lemma gen_pos_epos : forall gs g, gen_pos gs g = epos gs g.
Proof. induction gs as [|[k j] gs IH]; intros g; cbn [gen_pos epos]; [reflexivity|]. rewrite IH. reflexivity. Qed.

Lemma take_ok_mapM {A B} (f : A -> res B) : forall l ys, mapM f l = Ok ys -> take_ok f l = (ys, None).
Proof.
  induction l as [|x l IH]; intros ys H; cbn [mapM take_ok] in *.
  - inversion H. reflexivity.
  - destruct (f x) as [y|e]; [|discriminate]. cbn [bind] in H.
    destruct (mapM f l) as [zs|e]; [|discriminate]. cbn [bind] in H. inversion H; subst.
    rewrite (IH zs eq_refl). reflexivity.
Qed.

Section hist.
Variables (le is64 : bool) (es : Z) (rows : list row) (strtab img : list Z) (off size stroff : Z).
Hypothesis Hok : symtab_ok is64 es rows = true.
Hypothesis Hnames : names_ok strtab rows = true.
Hypothesis Hsym : placed img off (encode_symtab le is64 rows).
Hypothesis Hstr : placed img stroff strtab.
Hypothesis Hsize : es * zlen rows <= size < es * (zlen rows + 1).

Let c := mkSymCfg le is64 (mkSec off size es) stroff.
Let vs := views strtab rows.
Let full_map := name_map_go [] 0 vs.

(* the attribute is None or the complete map *)
Definition memo_ok (st : memo) : Prop := st = None \/ st = Some full_map.

Let Hnum : num_symbols c = zlen rows := num_symbols_exact le is64 es rows off size stroff Hok Hsize.
Let Hiter : iter_symbols img c = Ok vs :=
  iter_symbols_exact le is64 es rows strtab img off size stroff Hok Hnames Hsym Hstr Hsize.
Let Hget : forall i, 0 <= i < zlen rows -> get_symbol img c i = Ok (vth vs i) :=
  get_symbol_exact le is64 es rows strtab img off size stroff Hok Hnames Hsym Hstr.

Lemma zlen_vs : zlen vs = zlen rows.
Proof. unfold vs, views, zlen. rewrite map_length. reflexivity. Qed.

(* lookup through the complete map *)
Lemma by_name_with_full q : get_symbol_by_name_with img c full_map q = Ok (by_name_spec strtab rows q).
Proof.
  pose proof (by_name_exact le is64 es rows strtab img off size stroff Hok Hnames Hsym Hstr Hsize q) as H.
  unfold get_symbol_by_name, build_symbol_name_map in H. fold c in H. rewrite Hiter in H. exact H.
Qed.

Lemma by_name_st_ok st q : memo_ok st ->
  get_symbol_by_name_st img c st q = (Some full_map, Ok (by_name_spec strtab rows q)).
Proof.
  intros [->| ->]; unfold get_symbol_by_name_st.
  - assert (E : take_ok (get_symbol img c) (py_range 0 (num_symbols c)) = (vs, None))
      by (apply take_ok_mapM; exact Hiter).
    rewrite E. fold full_map. rewrite by_name_with_full. reflexivity.
  - rewrite by_name_with_full. reflexivity.
Qed.

(* an enumeration abandoned after k steps has yielded the first k symbols (all of them when k is larger) *)
Lemma iter_prefix_ok k : 0 <= k -> iter_symbols_prefix img c k = Ok (firstn (Z.to_nat k) vs).
Proof.
  intros Hk. unfold iter_symbols_prefix, py_range. rewrite Hnum.
  set (l := firstn (Z.to_nat k) vs).
  assert (Hl : length l = Z.to_nat (Z.min k (zlen rows) - 0)).
  { unfold l. rewrite firstn_length. pose proof zlen_vs as Hz. unfold zlen in *. lia. }
  rewrite <- Hl. apply (mapM_range _ dview). intros j Hj. replace (0 + j) with j by lia.
  assert (Hjr : 0 <= j < zlen rows /\ j < k).
  { unfold zlen in Hj at 1. rewrite Hl in Hj. lia. }
  rewrite Hget by lia. f_equal. unfold vth, l.
  rewrite <- (firstn_skipn (Z.to_nat k) vs) at 1.
  rewrite app_nth1; [reflexivity|]. fold l. rewrite Hl. lia.
Qed.

Definition enums_ok (gs : enums) : Prop := forall g, 0 <= epos gs g.

Lemma advance_ok gs call : enums_ok gs -> enums_ok (advance rows gs call).
Proof.
  intros H. destruct call as [|n|k|q|g]; cbn [advance]; try exact H.
  destruct (epos gs g <? zlen rows); [|exact H].
  intros g'. cbn [epos]. destruct (g =? g'); [specialize (H g); lia|apply H].
Qed.

Lemma step_ok cur m gs call : memo_ok m -> enums_ok gs -> call_ok rows call = true ->
  exists m', sym_step img c cur (m, gs) (op_of call)
             = ((m', advance rows gs call), obs_of (answer strtab rows gs call)) /\ memo_ok m'.
Proof.
  intros Hst Hgs Hc. destruct call as [|n|k|q|g]; cbn [op_of sym_step answer obs_of call_ok advance] in *.
  - exists m. rewrite Hnum. split; [reflexivity|exact Hst].
  - exists m. unfold below in Hc. rewrite get_symbol_cur_free, Hget by lia. split; [reflexivity|exact Hst].
  - exists m. rewrite iter_prefix_ok by lia. split; [reflexivity|exact Hst].
  - exists (Some full_map). rewrite by_name_st_ok by exact Hst. split; [reflexivity|right; reflexivity].
  - exists m. rewrite Hnum, gen_pos_epos. split; [|exact Hst].
    destruct (Z.ltb_spec (epos gs g) (zlen rows)) as [Hlt|Hge]; [|reflexivity].
    pose proof (Hgs g) as H0.
    rewrite get_symbol_cur_free, Hget by lia. reflexivity.
Qed.

Lemma run_ok adv : forall calls t m gs, memo_ok m -> enums_ok gs -> forallb (call_ok rows) calls = true ->
  exists st', sym_run img c adv t (m, gs) (map op_of calls)
              = (st', map obs_of (answers strtab rows gs calls)).
Proof.
  induction calls as [|call calls IH]; intros t m gs Hst Hgs Hc.
  - exists (m, gs). reflexivity.
  - cbn [forallb] in Hc. apply andb_true_iff in Hc. destruct Hc as [Hc1 Hc2].
    destruct (step_ok (adv t) m gs call Hst Hgs Hc1) as [m1 [E1 Hst1]].
    destruct (IH (t + 1) m1 (advance rows gs call) Hst1 (advance_ok gs call Hgs) Hc2) as [st2 E2].
    exists st2. cbn [map sym_run answers]. rewrite E1, E2. reflexivity.
Qed.

(* every call of every history on a fresh object, under EVERY cursor schedule, answers as the
   specification does: no dependence on earlier calls (other than the position of an enumeration
   in itself) nor on what happened to the stream between calls or between two steps of a generator *)
Theorem history_free adv calls : forallb (call_ok rows) calls = true ->
  snd (sym_run img c adv 0 (None, []) (map op_of calls)) = map obs_of (answers strtab rows [] calls).
Proof.
  intros Hc. destruct (run_ok adv calls 0 None [] (or_introl eq_refl) (fun g => Z.le_refl 0) Hc) as [st' E].
  apply (f_equal snd) in E. exact E.
Qed.

Theorem cursor_free adv adv' calls : forallb (call_ok rows) calls = true ->
  snd (sym_run img c adv 0 (None, []) (map op_of calls)) = snd (sym_run img c adv' 0 (None, []) (map op_of calls)).
Proof. intros Hc. rewrite !history_free by exact Hc. reflexivity. Qed.

Lemma answers_app : forall calls en more,
  answers strtab rows en (calls ++ more)
  = answers strtab rows en calls ++ answers strtab rows (fold_left (advance rows) calls en) more.
Proof.
  induction calls as [|call calls IH]; intros en more; [reflexivity|].
  cbn [app answers fold_left]. rewrite IH. reflexivity.
Qed.

(* in particular: lookup by name after any history *)
Theorem by_name_after_history adv calls q : forallb (call_ok rows) calls = true ->
  snd (sym_run img c adv 0 (None, []) (map op_of calls ++ [OpByName q]))
  = map obs_of (answers strtab rows [] calls) ++ [ObsByName (Ok (by_name_spec strtab rows q))].
Proof.
  intros Hc.
  pose proof (history_free adv (calls ++ [CByName q])) as H.
  rewrite map_app, answers_app, map_app in H. cbn [map op_of obs_of answers answer] in H. apply H.
  rewrite forallb_app, Hc. reflexivity.
Qed.

(* and the k-th step of an enumeration yields entry k, whatever is interleaved with its steps *)
Theorem next_yields_in_order adv calls g : forallb (call_ok rows) calls = true ->
  let j := epos (fold_left (advance rows) calls []) g in
  snd (sym_run img c adv 0 (None, []) (map op_of calls ++ [OpNext g]))
  = map obs_of (answers strtab rows [] calls) ++ [if j <? zlen rows then ObsSym (Ok (vth vs j)) else ObsStop].
Proof.
  intros Hc j.
  pose proof (history_free adv (calls ++ [CNext g])) as H.
  rewrite map_app, answers_app, map_app in H. cbn [map op_of answers answer] in H. fold j in H. fold vs in H.
  rewrite H by (rewrite forallb_app, Hc; reflexivity).
  f_equal. destruct (j <? zlen rows); reflexivity.
Qed.
End hist.

(* ------------------------------------------------------------------ the GNU count walk reads sequentially
   from ONE seek: the same words as reading each chain word at its own offset *)
From PV Require Import Model.C03Hash.
Lemma gnu_count_walk_cur_eq le img P : forall fuel m,
  gnu_count_walk_cur le img fuel (gh_chain_pos P + (m - gh_symoffset P) * gnu_wordsize) m
  = gnu_count_walk (read_chain_word le img P) fuel m.
Proof.
  induction fuel as [|f IH]; intros m; [reflexivity|].
  cbn [gnu_count_walk_cur gnu_count_walk]. unfold read_chain_word at 1.
  destruct (read_uint le 4 img (gh_chain_pos P + (m - gh_symoffset P) * gnu_wordsize)) as [v|]; [|reflexivity].
  cbn [bind]. destruct (negb (Z.land v 1 =? 0)); [reflexivity|].
  rewrite <- IH. f_equal. unfold gnu_wordsize. lia.
Qed.

Theorem gnu_number_of_symbols_cur_eq le img fuel P :
  gnu_hash_number_of_symbols_cur le img fuel P = gnu_hash_number_of_symbols (read_chain_word le img P) fuel P.
Proof.
  unfold gnu_hash_number_of_symbols_cur, gnu_hash_number_of_symbols.
  destruct (py_max (gh_buckets P)) as [m|e]; [|reflexivity]. cbn [bind].
  destruct (m <? gh_symoffset P); [reflexivity|]. apply gnu_count_walk_cur_eq.
Qed.
