import io, struct, sys
sys.path.insert(0, '/repo')
from elftools.elf.elffile import ELFFile

def mk_elf(le, is64, e_type, e_machine, notes, stab=b'', pre_pad=0, tail=b''):
    E = '<' if le else '>'
    ehsize = 64 if is64 else 52
    phentsize = 56 if is64 else 32
    shentsize = 64 if is64 else 40
    shstr = b'\0.note\0.stab\0.shstrtab\0'
    off = ehsize
    phoff = off; off += phentsize
    off += pre_pad
    note_off = off; off += len(notes)
    stab_off = off; off += len(stab)
    str_off = off; off += len(shstr)
    shoff = off
    ident = b'\x7fELF' + bytes([2 if is64 else 1, 1 if le else 2, 1, 0, 0]) + b'\0' * 7
    if is64:
        eh = ident + struct.pack(E + 'HHIQQQIHHHHHH', e_type, e_machine, 1, 0, phoff, shoff, 0, ehsize, phentsize, 1, shentsize, 4, 3)
        ph = struct.pack(E + 'IIQQQQQQ', 4, 4, note_off, 0, 0, len(notes), len(notes), 4)
        def sh(name, typ, o, sz): return struct.pack(E + 'IIQQQQIIQQ', name, typ, 0, 0, o, sz, 0, 0, 1, 0)
    else:
        eh = ident + struct.pack(E + 'HHIIIIIHHHHHH', e_type, e_machine, 1, 0, phoff, shoff, 0, ehsize, phentsize, 1, shentsize, 4, 3)
        ph = struct.pack(E + 'IIIIIIII', 4, note_off, 0, 0, len(notes), len(notes), 4, 4)
        def sh(name, typ, o, sz): return struct.pack(E + 'IIIIIIIIII', name, typ, 0, 0, o, sz, 0, 0, 1, 0)
    shs = sh(0, 0, 0, 0) + sh(1, 7, note_off, len(notes)) + sh(7, 1, stab_off, len(stab)) + sh(13, 3, str_off, len(shstr))
    return eh + ph + b'\xa5' * pre_pad + notes + stab + shstr + shs + tail

def show(img):
    f = ELFFile(io.BytesIO(img))
    sec = f.get_section_by_name('.note')
    seg = next(f.iter_segments())
    print(type(sec).__name__, type(seg).__name__)
    try:
        for n in sec.iter_notes(): print('  sec', dict(n))
    except Exception as e: print('  sec EXC', type(e).__name__, e)
    try:
        for n in seg.iter_notes(): print('  seg', dict(n))
    except Exception as e: print('  seg EXC', type(e).__name__, e)

def note(le, name, typ, desc, npad=b'', dpad=b''):
    E = '<' if le else '>'
    return struct.pack(E+'III', len(name), len(desc), typ) + name + npad + desc + dpad

if __name__ == '__main__':
    # defect: header-only final note
    n = note(True, b'AB\0', 7, b'xyz', b'\x55', b'\x66') + note(True, b'', 9, b'')
    show(mk_elf(True, True, 2, 62, n))
    # a single header-only note
    show(mk_elf(True, False, 2, 3, note(True, b'', 9, b'')))
    # name without NUL
    show(mk_elf(True, False, 2, 3, note(True, b'ABC', 9, b'd', b'\x01', b'\1\2\3')))
    # GNU with garbage padding? name GNU\0 is 4 so no pad; 'GN\0' + pad garbage
    show(mk_elf(True, False, 2, 3, note(True, b'GNU\0', 3, b'\xde\xad\xbe', b'', b'\x01')))
    show(mk_elf(True, False, 2, 3, note(True, b'GNU\0', 1, struct.pack('<IIII', 0, 3, 2, 0))))
    show(mk_elf(True, False, 2, 3, note(True, b'GNU\0', 1, struct.pack('<III', 0, 3, 2))))
