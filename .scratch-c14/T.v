(* Proofs/C14Iter.v — the note walk, the two front ends and the stab walk. *)
From PV Require Import Base.Outcome Base.Fmt Base.Enum Base.Prim.
From PV Require Import Gen.ElfLayouts Gen.C14Notes Spec.ElfGabi Spec.PrimSpec Spec.C14Notes Model.C14Notes.
From PV Require Import Proofs.PrimProofs Proofs.FmtProofs Proofs.ElfLayoutFacts Proofs.C14Proofs Proofs.C14Desc.
From Coq Require Import Lia ZifyBool.
Ltac Zify.zify_post_hook ::= Z.to_euclidean_division_equations.
Open Scope string_scope.
Open Scope list_scope.
Open Scope Z_scope.

(* ================================================================== one note *)
Lemma nhdr_bytes le a b t :
  encode_layout (spec_Elf_Nhdr le) [VZ a; VZ b; VZ t]
  = int_encode le 4 a ++ int_encode le 4 b ++ int_encode le 4 t.
Proof. cbn. rewrite app_nil_r. reflexivity. Qed.

Lemma zlen_nhdr le a b t : zlen (encode_layout (spec_Elf_Nhdr le) [VZ a; VZ b; VZ t]) = 12.
Proof. rewrite nhdr_bytes, !zlen_app, !zlen_int_encode. reflexivity. Qed.

Lemma sizeof_nhdr c : sizeof (Elf_Nhdr c) = 12.
Proof. destruct c as [[|] [|] et em]; reflexivity. Qed.

Lemma kind_eqb_eq a b : kind_eqb a b = true -> a = b.
Proof. destruct a, b; cbn; intros H; try discriminate; reflexivity. Qed.

Lemma pad4_0 : pad4 0 = 0.
Proof. reflexivity. Qed.

Lemma read_name_ok (n : note) img (A1 NP Rest : list Z) off :
  match n_name n with None => true | Some s => no_nul s && all_bytes s end = true ->
  zlen NP = pad4 (zlen (name_bytes n)) ->
  img = A1 ++ name_bytes n ++ NP ++ Rest -> off = zlen A1 ->
  read_name img off (zlen (name_bytes n))
  = Ok (n_name n, off + (zlen (name_bytes n) + pad4 (zlen (name_bytes n)))).
Proof.
  unfold name_bytes. intros Hname Hnp Hi Ho. unfold read_name. destruct (n_name n) as [s|].
  - apply andb_prop in Hname. destruct Hname as [Hnn _].
    unfold cstring_encode in *. rewrite zlen_app in *. change (zlen [0]) with 1 in *.
    pose proof (zlen_nonneg s) as H0.
    destruct (Z.eqb_spec (zlen s + 1) 0); [lia|].
    rewrite roundup_2.
    rewrite (read_at_at img A1 ((s ++ [0]) ++ NP) Rest off _).
    + change ((s ++ [0]) ++ NP) with (cstring_encode s ++ NP).
      rewrite cstring_decode_valid by exact Hnn. reflexivity.
    + rewrite Hi. rewrite <- !app_assoc. reflexivity.
    + exact Ho.
    + rewrite !zlen_app. change (zlen [0]) with 1. lia.
  - change (zlen (@nil Z)) with 0. cbn [Z.eqb]. rewrite pad4_0.
    f_equal. f_equal. lia.
Qed.

Lemma decode_desc_at c d img (A R : list Z) off dsz :
  wf_desc (scfg_of c) d = true ->
  img = A ++ desc_bytes (scfg_of c) d ++ R -> off = zlen A -> dsz = zlen (desc_bytes (scfg_of c) d) ->
  decode_desc c img (desc_kind d) off dsz (desc_bytes (scfg_of c) d) = Ok (desc_view (scfg_of c) d).
Proof. intros Hwf Hi -> ->. apply (decode_desc_ok c d img A R); assumption. Qed.

Lemma zlen_encode_note c n : wf_note (scfg_of c) n = true ->
  zlen (encode_note (scfg_of c) n) = note_size (scfg_of c) n.
Proof.
  intros Hwf. unfold wf_note in Hwf. rewrite !andb_true_iff in Hwf.
  destruct Hwf as [[[[[[[[[Hname Hnpb] Hnpl] Hdpb] Hdpl] Hnsz] Hdsz] Hty] Hwd] Hk].
  apply Z.eqb_eq in Hnpl. apply Z.eqb_eq in Hdpl.
  unfold encode_note, note_size. rewrite !zlen_app, zlen_nhdr.
  unfold namesz, descsz in *. lia.
Qed.

Lemma note_size_ge c n : 12 <= note_size (scfg_of c) n.
Proof.
  unfold note_size.
  pose proof (pad_to_bound 4 (namesz n) ltac:(lia)).
  pose proof (pad_to_bound 4 (descsz (scfg_of c) n) ltac:(lia)).
  unfold pad4. unfold namesz, descsz in *.
  pose proof (zlen_nonneg (name_bytes n)). pose proof (zlen_nonneg (desc_bytes (scfg_of c) (n_desc n))). lia.
Qed.

Theorem one_note_ok c n img (A R : list Z) :
  wf_cfg c = true -> wf_note (scfg_of c) n = true ->
  img = A ++ encode_note (scfg_of c) n ++ R ->
  one_note c img (zlen A) = Ok (expected_note (scfg_of c) (zlen A) n, zlen A + note_size (scfg_of c) n).
Proof.
  intros Hc Hwf Hi.
  unfold wf_note in Hwf. rewrite !andb_true_iff in Hwf.
  destruct Hwf as [[[[[[[[[Hname Hnpb] Hnpl] Hdpb] Hdpl] Hnsz] Hdsz] Hty] Hwd] Hk].
  apply Z.eqb_eq in Hnpl. apply Z.eqb_eq in Hdpl. apply kind_eqb_eq in Hk.
  set (sc := scfg_of c) in *.
  set (H := encode_layout (spec_Elf_Nhdr (c_le c)) [VZ (namesz n); VZ (descsz sc n); VZ (n_type n)]).
  set (NB := name_bytes n) in *. set (NP := n_npad n) in *.
  set (DB := desc_bytes sc (n_desc n)) in *. set (DP := n_dpad n) in *.
  assert (Himg : img = A ++ H ++ NB ++ NP ++ DB ++ DP ++ R).
  { rewrite Hi. unfold encode_note. fold NB NP DB DP. rewrite <- !app_assoc. reflexivity. }
  assert (HlenH : zlen H = 12) by apply zlen_nhdr.
  unfold one_note.
  (* header *)
  unfold Elf_Nhdr at 1. rewrite gen_Elf_Nhdr_gabi.
  rewrite (struct_parse_at_ok (spec_Elf_Nhdr (c_le c)) [VZ (namesz n); VZ (descsz sc n); VZ (n_type n)]
             img A (NB ++ NP ++ DB ++ DP ++ R) (zlen A)); [| | exact Himg | reflexivity].
  2:{ unfold fits_layout.
      cbn [fits_fields spec_Elf_Nhdr nvals firstn skipn length fits_kind annot_kind rev app Nat.eqb andb].
      change (u32 (namesz n) && (u32 (descsz sc n) && (u32 (n_type n) && true)) = true).
      rewrite Hnsz, Hdsz, Hty. reflexivity. }
  cbn [bind].
  change (annot_layout (spec_Elf_Nhdr (c_le c)) [VZ (namesz n); VZ (descsz sc n); VZ (n_type n)])
    with [("n_namesz", VZ (namesz n)); ("n_descsz", VZ (descsz sc n)); ("n_type", VZ (n_type n))].
  cbn [rec_z rec_get String.eqb Ascii.eqb Bool.eqb].
  rewrite n_type_strict_false, enum_field_pass. cbn [bind].
  rewrite sizeof_nhdr.
  (* name *)
  unfold namesz at 1. fold NB.
  assert (Hrn := read_name_ok n img (A ++ H) NP (DB ++ DP ++ R) (zlen A + 12) Hname Hnpl).
  fold NB in Hrn. rewrite Hrn; [ | rewrite Himg, <- !app_assoc; reflexivity | rewrite zlen_app; lia ].
  clear Hrn. cbn [bind].
  (* descriptor *)
  assert (Hoff2 : zlen A + 12 + (zlen NB + pad4 (zlen NB)) = zlen (A ++ H ++ NB ++ NP)).
  { rewrite !zlen_app. unfold namesz in Hnpl. fold NB in Hnpl. lia. }
  rewrite (read_at_at img (A ++ H ++ NB ++ NP) DB (DP ++ R) _ _);
    [ | rewrite Himg, <- !app_assoc; reflexivity | exact Hoff2 | reflexivity ].
  rewrite (dispatch_spec c (n_name n) (n_type n) Hc). fold sc. rewrite <- Hk.
  rewrite (decode_desc_at c (n_desc n) img (A ++ H ++ NB ++ NP) (DP ++ R));
    [ | exact Hwd | rewrite Himg, <- !app_assoc; reflexivity | exact Hoff2 | reflexivity ].
  cbn [bind].
  rewrite roundup_2.
  unfold expected_note, note_size. unfold namesz, descsz. fold sc NB DB.
  f_equal. f_equal; [f_equal|]. Show. 