import sys
sys.path.insert(0,'/repo')
from elftools.elf.structs import ELFStructs
s = ELFStructs(little_endian=True, elfclass=64); s.create_basic_structs(); s.create_advanced_structs('ET_DYN','EM_X86_64','ELFOSABI_SYSV')
P = s.Elf_Prop
for c in P.subcons:
    print(type(c).__name__, c.name, getattr(c,'subcon',None) and type(c.subcon).__name__)
sw = P.subcons[2]
print([k for k in dir(sw) if not k.startswith("_")])
print(sw.cases, sw.default, type(sw.default).__name__, [k for k in dir(sw.default) if not k.startswith("_")])
pad = P.subcons[3]
print([k for k in dir(pad) if not k.startswith("_")], type(pad.subcon).__name__, [k for k in dir(pad.subcon) if not k.startswith("_")])
F = s.Elf_Nt_File
for c in F.subcons:
    print(type(c).__name__, c.name, [k for k in dir(c) if not k.startswith("_")])
a2 = F.subcons[3]
c = a2.subcon
while True:
    print(' ', type(c).__name__, {k:getattr(c,k) for k in dir(c) if not k.startswith("_") and k not in ("subcon",) and not callable(getattr(c,k))})
    if not hasattr(c,'subcon'): break
    c = c.subcon
from elftools.construct import CString
c = CString('x')
while True:
    print(' ', type(c).__name__, {k:getattr(c,k) for k in dir(c) if not k.startswith("_") and k not in ("subcon",) and not callable(getattr(c,k))})
    if not hasattr(c,'subcon'): break
    c = c.subcon
