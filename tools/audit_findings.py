#!/usr/bin/env python3
"""Cross-check /repo's `fix:` commits against the known-findings files (run by the coordinator, not by checks)."""
import json, glob, os, subprocess, sys
V = os.path.dirname(os.path.dirname(os.path.abspath(__file__)))
ents = []
for f in [os.path.join(V, 'known_findings.json')] + sorted(glob.glob(os.path.join(V, 'known_findings.d/*.json'))):
    ents += json.load(open(f))['findings']
commits = {}
for l in subprocess.check_output(['git', '-C', '/repo', 'log', '--format=%h %s']).decode().splitlines():
    h, s = l.split(' ', 1)
    if s.startswith('fix:'):
        commits[h] = s
seen = set()
bad = 0
for e in ents:
    c = e.get('commit')
    if e['status'] == 'fixed':
        m = [h for h in commits if c and (h.startswith(c) or c.startswith(h))]
        if not m:
            print('NO SUCH COMMIT', e['property'], e['key'], c); bad += 1
        seen.update(m)
    else:
        print('known', e['property'], e['key'])
for h, s in commits.items():
    if h not in seen:
        print('UNRECORDED', h, s[:110]); bad += 1
print(len(commits), 'fix commits,', len(ents), 'entries')
sys.exit(1 if bad else 0)
