#!/bin/bash
# tools/import_seeded.sh Cxx  — copy /tmp/mut/out-Cxx/<n>/ into /verif/seeded/Cxx-<k>/ (next free k), print the new names
p=$1; src=${2:-/tmp/mut/out-$p}
for d in $src/*/; do
  [ -f "$d/patch.diff" ] || continue
  k=1; while [ -e /verif/seeded/$p-$k ] || [ -e /verif/seeded/void/$p-$k ] || [ -e /verif/seeded/unreachable/$p-$k ]; do k=$((k+1)); done
  mkdir -p /verif/seeded/$p-$k
  cp "$d/patch.diff" "$d/demo.py" "$d/meta.json" /verif/seeded/$p-$k/ 2>/dev/null
  for f in "$d"/*; do case "$(basename $f)" in patch.diff|demo.py|meta.json) ;; *) cp -r "$f" /verif/seeded/$p-$k/ ;; esac; done
  echo $p-$k
done
