"""Per-property configuration of ./check, discovered from tools/harness/cNN.py.
Each harness module defines
  CONFIG = {'props': 'Props/Cnn.v', 'driver': 'Extract/DrvCnn.v', 'assumptions': [...], 'trusted_extra': [...]}
  LEVEL  = {'text': ..., 'design_ref': ..., 'technique': ..., 'note': ...}
  CLAIMED = True            # only then is it listed in MANIFEST.json
"""
import importlib, os, re

_HDIR = os.path.join(os.path.dirname(os.path.abspath(__file__)), 'harness')

COMMON_NOTE = ('Trusted: Coq 8.16.1 kernel; the hand model is tied to the Python source by the differential '
               'correspondence (extracted OCaml of the same definitions vs. the implementation) and Gen files '
               'regenerated from /repo on every run; extraction with ExtrOcamlBasic only; no axioms '
               '(Print Assumptions: Closed under the global context). ')

PROPS = {}
LEVEL = {}
CLAIMED = set()
for _f in sorted(os.listdir(_HDIR)):
    _m = re.match(r'^(c\d\d)\.py$', _f)
    if not _m:
        continue
    try:
        _mod = importlib.import_module('tools.harness.' + _m.group(1))
    except Exception as _e:      # a harness under construction must not take the other properties' checks down
        import sys as _sys
        print('props: harness %s does not import (%s: %s); property skipped' % (_f, type(_e).__name__, _e), file=_sys.stderr)
        continue
    _pid = _m.group(1).upper()
    _cfg = dict(getattr(_mod, 'CONFIG', {}))
    _cfg.setdefault('props', 'Props/%s.v' % _pid)
    _cfg.setdefault('driver', 'Extract/Drv%s.v' % _pid)
    _cfg['harness'] = _m.group(1)
    PROPS[_pid] = _cfg
    LEVEL[_pid] = getattr(_mod, 'LEVEL', None)
    if getattr(_mod, 'CLAIMED', False) and LEVEL[_pid]:
        CLAIMED.add(_pid)

NOT_APPLICABLE = {
    'C18': 'oracle is the external GNU readelf binary: no formal object to state a theorem against; deciding it means '
           'side-by-side differential runs, i.e. another technique (DESIGN 4.18)',
}
for _p in ['C%02d' % i for i in range(1, 21)]:
    if _p not in CLAIMED and _p not in NOT_APPLICABLE:
        NOT_APPLICABLE[_p] = 'not yet claimed: model/proof under construction (see DESIGN.md section 7)'
