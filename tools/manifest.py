#!/usr/bin/env python3
"""Regenerate MANIFEST.json from tools/props.py + the per-property notes below."""
import json, os, sys
HERE = os.path.dirname(os.path.abspath(__file__))
sys.path.insert(0, os.path.dirname(HERE))
from tools.props import PROPS as ALLPROPS, NOT_APPLICABLE, LEVEL, CLAIMED
PROPS = {k: v for k, v in ALLPROPS.items() if k in CLAIMED}

BASELINE = ("cd /repo && /venv/bin/python -m pytest -ra -q -p no:cacheprovider --timeout=900 "
            "--continue-on-collection-errors")
m = {
    "version": 1,
    "setup_cmd": "./setup",
    "hooks": {"guard": "PYELFTOOLS_VERIF", "enable": "none needed: no hook or instrumentation commits; the harnesses observe the public API on BytesIO streams and on temporary real files they create and remove",
              "baseline_off_cmd": BASELINE, "source_commits": [], "add_only": True},
    "engines": [{"name": "coq-proof+correspondence", "path": "check",
                 "serves_properties": sorted(PROPS),
                 "kind_free_text": "Coq 8.16 theorems about Gallina models (coq/), Gen files regenerated from /repo on every run, extracted OCaml driver compared with the implementation by tools/harness"}],
    "checks": [],
    "not_applicable": [{"property_id": k, "reason": v} for k, v in sorted(NOT_APPLICABLE.items())],
    "notes": "See DESIGN.md. known_findings.json lists repaired (fix: commits) and recorded defects.",
}
for pid in sorted(PROPS):
    lv = LEVEL[pid]
    m["checks"].append({
        "property_id": pid,
        "quick_cmd": "./check %s --tier quick" % pid,
        "thorough_cmd": "./check %s --tier thorough" % pid,
        "evidence_file": "evidence/%s.json" % pid,
        "replay_cmd_template": "./check %s --replay {path}" % pid,
        "engine": "coq-proof+correspondence",
        "level_claimed": {"category": "proof", "text": lv["text"], "design_ref": lv["design_ref"]},
        "level_note": lv["note"],
        "technique": lv["technique"],
    })
json.dump(m, open(os.path.join(os.path.dirname(HERE), 'MANIFEST.json'), 'w'), indent=1)
print('MANIFEST.json written:', len(m['checks']), 'checks,', len(m['not_applicable']), 'not applicable')
