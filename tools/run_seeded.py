#!/venv/bin/python
"""Run the checks against every kept seeded change under /verif/seeded/<name>/ (patch.diff,
demo.py, meta.json).  Each patch is applied to a scratch copy of /repo's HEAD (never to /repo),
the property's check runs with VERIF_REPO=<copy>, and the outcome is written to
seeded/RESULTS.json.  Usage: tools/run_seeded.py [name ...]"""
import json, os, shutil, subprocess, sys, tempfile, time
VERIF = os.path.dirname(os.path.dirname(os.path.abspath(__file__)))
SEEDED = os.path.join(VERIF, 'seeded')

def main():
    names = sys.argv[1:] or sorted(d for d in os.listdir(SEEDED) if os.path.isdir(os.path.join(SEEDED, d)) and d not in ('void', 'unreachable'))
    resf = os.path.join(SEEDED, 'RESULTS.json')
    results = {}

    def save(name):
        # read-modify-write under a lock: several runs (coordinator, agents) may update the file concurrently
        import fcntl
        with open(resf + '.lock', 'w') as lk:
            fcntl.flock(lk, fcntl.LOCK_EX)
            cur = json.load(open(resf)) if os.path.exists(resf) else {}
            cur[name] = results[name]
            json.dump(cur, open(resf, 'w'), indent=1, sort_keys=True)
    for name in names:
        d = os.path.join(SEEDED, name)
        meta = json.load(open(os.path.join(d, 'meta.json')))
        prop = meta['property']
        props = meta.get('checks', [prop])
        tmp = tempfile.mkdtemp(prefix='pv-seeded-')
        try:
            subprocess.run('git -C /repo archive HEAD | tar -x -C %s' % tmp, shell=True, check=True)
            r = subprocess.run(['git', 'apply', '--directory', tmp, '--unsafe-paths', os.path.join(d, 'patch.diff')],
                               cwd=tmp, capture_output=True, text=True)
            if r.returncode != 0:
                r = subprocess.run(['patch', '-p1', '-d', tmp, '-i', os.path.join(d, 'patch.diff')], capture_output=True, text=True)
            if r.returncode != 0:
                results[name] = {'property': prop, 'status': 'patch-does-not-apply', 'detail': r.stderr[-500:]}
                print(name, 'PATCH DOES NOT APPLY')
                continue
            if os.environ.get('SEEDED_VERIFY') == '1':
                # confirm the change ourselves: demo passes pristine, fails patched, pinned tests still green
                pristine = tempfile.mkdtemp(prefix='pv-pristine-')
                try:
                    subprocess.run('git -C /repo archive HEAD | tar -x -C %s' % pristine, shell=True, check=True)
                    def demo(root):
                        return subprocess.run(['/venv/bin/python', os.path.join(d, 'demo.py')], cwd=root,
                                              env=dict(os.environ, PYTHONPATH=root, PYTHONHASHSEED='0'),
                                              capture_output=True, text=True, timeout=600).returncode
                    d0, d1 = demo(pristine), demo(tmp)
                finally:
                    shutil.rmtree(pristine, ignore_errors=True)
                t = subprocess.run(['/venv/bin/python', '-m', 'pytest', '-q', '-p', 'no:cacheprovider', '--timeout=900',
                                    '--continue-on-collection-errors'], cwd=tmp, env=dict(os.environ, PYTHONPATH=tmp),
                                   capture_output=True, text=True)
                tail = t.stdout.strip().splitlines()[-1] if t.stdout.strip() else ''
                meta['confirmed'] = {'demo_pristine_exit': d0, 'demo_patched_exit': d1, 'pytest_patched': tail,
                                     'ok': d0 == 0 and d1 != 0 and '111 passed' in tail}
                json.dump(meta, open(os.path.join(d, 'meta.json'), 'w'), indent=1)
                print(name, 'confirmed:', meta['confirmed'])
                subprocess.run(['git', 'clean', '-fdxq'], cwd=tmp) if os.path.isdir(os.path.join(tmp, '.git')) else None
            out = {}
            for p in props:
                t0 = time.time()
                c = subprocess.run([os.path.join(VERIF, 'check'), p, '--tier', 'quick'],
                                   env=dict(os.environ, VERIF_REPO=tmp), capture_output=True, text=True, cwd=VERIF)
                viol = [l for l in c.stdout.splitlines() if l.startswith('VIOLATION')]
                out[p] = {'exit': c.returncode, 'violations': viol, 'wall_s': round(time.time() - t0, 1)}
                if c.returncode != 0 and not viol:
                    out[p]['crash_tail'] = (c.stdout + c.stderr)[-1500:]
                    print(out[p]['crash_tail'], flush=True)
            caught = any(v['exit'] == 1 and v['violations'] for v in out.values())
            with_input = any(v['violations'] and not all('no-failing-input-found' in l for l in v['violations'])
                             for v in out.values())
            results[name] = {'property': prop, 'status': 'caught' if caught else 'MISSED',
                             'with_failing_input': with_input, 'checks': out}
            print(name, results[name]['status'], 'with-input' if with_input else '', {k: (v['exit'], len(v['violations']), v['wall_s']) for k, v in out.items()}, flush=True)
        finally:
            shutil.rmtree(tmp, ignore_errors=True)
            if name in results:
                save(name)

if __name__ == '__main__':
    main()
