"""Environment audit of the source a property's model stands for.

The correspondence ties the model to the library on ONE host and ONE interpreter.  That tie says something about
the library everywhere only as long as the code does not choose its behaviour by the host or the interpreter: a
branch on sys.version_info / sys.byteorder / sys.maxsize / sys.implementation / sys.platform / os.name / the locale /
the filesystem encoding, an `except ImportError` fallback, or an `if __debug__:` block has an arm this sandbox
never runs.  Mocking `sys.*` to force the other arm would be unsound (correct code that uses native-order arrays
with a byteorder test breaks under a mocked byteorder), so no failing input can be produced here; what CAN be
checked is the assumption itself.  On the pinned tree the audit finds nothing; a change that introduces such a
branch into a file in the property's source closure breaks the tie and is reported as such.

closure(prop) = the property's anchor files (properties.jsonl) plus everything under elftools/ they import,
transitively (static import graph)."""
import ast
import json
import os

SYS_ATTRS = {'version_info', 'version', 'hexversion', 'byteorder', 'maxsize', 'implementation', 'platform', 'flags',
             'getfilesystemencoding', 'getdefaultencoding', 'float_info', 'int_info', 'maxunicode', 'api_version'}
OS_ATTRS = {'name', 'uname', 'environ', 'getenv', 'sep', 'linesep'}
WHOLE_MODULES = {'platform', 'locale', 'sysconfig'}


def _modname(repo, path):
    rel = os.path.relpath(path, repo)[:-3].replace(os.sep, '.')
    return rel[:-9] if rel.endswith('.__init__') else rel


def _py_files(repo):
    out = []
    for d, _, fs in os.walk(os.path.join(repo, 'elftools')):
        for f in fs:
            if f.endswith('.py'):
                out.append(os.path.join(d, f))
    return sorted(out)


def import_graph(repo):
    files = _py_files(repo)
    mods = {_modname(repo, p): p for p in files}
    graph = {}
    for mod, path in mods.items():
        deps = set()
        try:
            tree = ast.parse(open(path, encoding='utf-8').read())
        except SyntaxError:
            graph[path] = deps
            continue
        pkg = mod if path.endswith('__init__.py') else mod.rsplit('.', 1)[0]
        for node in ast.walk(tree):
            names = []
            if isinstance(node, ast.Import):
                names = [a.name for a in node.names]
            elif isinstance(node, ast.ImportFrom):
                base = node.module or ''
                if node.level:
                    parts = pkg.split('.')
                    parts = parts[:len(parts) - (node.level - 1)]
                    base = '.'.join(parts + ([node.module] if node.module else []))
                names = [base] + [base + '.' + a.name for a in node.names]
            for n in names:
                while n:
                    if n in mods:
                        deps.add(mods[n])
                        break
                    n = n.rpartition('.')[0]
        graph[path] = deps
    return graph


def closure(repo, rel_files):
    graph = import_graph(repo)
    todo = [os.path.join(repo, f) for f in rel_files if os.path.exists(os.path.join(repo, f))]
    seen = set()
    while todo:
        p = todo.pop()
        if p in seen:
            continue
        seen.add(p)
        todo.extend(graph.get(p, ()))
    return sorted(seen)


def scan_file(path):
    """-> list of (line, what) for every environment-dependent construct in the file"""
    src = open(path, encoding='utf-8').read()
    try:
        tree = ast.parse(src)
    except SyntaxError as e:
        return [(e.lineno or 0, 'does not parse: %s' % e.msg)]
    hits = []
    # names bound by `from sys import byteorder` and the like
    aliases = {}
    for node in ast.walk(tree):
        if isinstance(node, ast.ImportFrom) and node.module in ('sys', 'os') and not node.level:
            for a in node.names:
                if (node.module == 'sys' and a.name in SYS_ATTRS) or (node.module == 'os' and a.name in OS_ATTRS):
                    aliases[a.asname or a.name] = '%s.%s' % (node.module, a.name)
                    hits.append((node.lineno, 'imports %s.%s' % (node.module, a.name)))
        if isinstance(node, (ast.Import, ast.ImportFrom)):
            mods = [a.name for a in node.names] if isinstance(node, ast.Import) else [node.module or '']
            for m in mods:
                if m.split('.')[0] in WHOLE_MODULES:
                    hits.append((node.lineno, 'imports %s' % m))
    for node in ast.walk(tree):
        if isinstance(node, ast.Attribute) and isinstance(node.value, ast.Name):
            if node.value.id == 'sys' and node.attr in SYS_ATTRS:
                hits.append((node.lineno, 'sys.%s' % node.attr))
            elif node.value.id == 'os' and node.attr in OS_ATTRS:
                hits.append((node.lineno, 'os.%s' % node.attr))
        elif isinstance(node, ast.Name) and node.id == '__debug__':
            hits.append((node.lineno, '__debug__'))
        elif isinstance(node, ast.Name) and node.id in aliases and isinstance(node.ctx, ast.Load):
            hits.append((node.lineno, aliases[node.id]))
        elif isinstance(node, ast.Try):
            for h in node.handlers:
                names = []
                t = h.type
                for x in (t.elts if isinstance(t, ast.Tuple) else [t] if t is not None else []):
                    if isinstance(x, ast.Name):
                        names.append(x.id)
                if any(n in ('ImportError', 'ModuleNotFoundError') for n in names) and \
                        any(isinstance(s, (ast.Import, ast.ImportFrom)) for b in node.body for s in ast.walk(b)):
                    hits.append((node.lineno, 'optional import with an `except ImportError` fallback'))
    return sorted(set(hits))


# environment-dependent constructs of the pinned tree, judged harmless (file, stripped source line): sys.maxsize is
# only the "unbounded" upper count of construct's OpenRange.  A hit is excused only on exactly such a line.
BASELINE = {
    ('elftools/construct/macros.py', 'from sys import maxsize'),
    ('elftools/construct/macros.py', 'return Range(mincount, maxsize, subcon)'),
}


def audit(repo, prop, properties_path):
    """-> list of strings 'elftools/x.py:LINE what' for the property's source closure"""
    anchors = []
    for line in open(properties_path):
        line = line.strip()
        if not line:
            continue
        p = json.loads(line)
        if p.get('id') == prop:
            anchors = list(p.get('anchors', {}).get('files', []))
    files = closure(repo, [f for f in anchors if f.endswith('.py') and f.startswith('elftools/')])
    out = []
    for path in files:
        rel = os.path.relpath(path, repo)
        lines = open(path, encoding='utf-8').read().split('\n')
        for line, what in scan_file(path):
            text = lines[line - 1].strip() if 0 < line <= len(lines) else ''
            if (rel, text) in BASELINE:
                continue
            out.append('%s:%d %s  [%s]' % (rel, line, what, text[:100]))
    return out, [os.path.relpath(f, repo) for f in files]
